import MgpuModel.C11Cp
/-! # C11 — the command processor's copy / flush path TOGETHER with the TLB-shootdown path

`MgpuModel/C11Cp.lean` models `cpMiddleware.processFlushReq / processMemCopyReq / processMemCopyRsp`
and the flush half of `ctrlMiddleware.processCacheFlushRsp`. The shootdown path of
`amd/timing/cp/ctrlMiddleware.go` SHARES two fields with that path: the counter `numCacheACK`
(`Cp.numAck`) and `currFlushRequest` (`Cp.curFlush`). This file adds it, tick-exact:

* `processShootdownCommand` (`CpS.hShoot`, head of the driver port; refuses while `shootDownInProcess`;
  one `CUPipelineFlushReq` per compute unit, `numCUAck++`),
* `processCUPipelineFlushRsp` (`CpS.rCU`; at 0: one `ControlMsg{DiscardTransactions}` per address
  translator, `numAddrTranslationFlushAck++`),
* `processAddressTranslatorFlushRsp` (`CpS.rAT`; at 0: `flushAndResetL1Cache` for L1S, L1V, L1I and
  `flushAndResetL2Cache` for L2 — `ToCaches.Send` UNCHECKED, `numCacheACK++`),
* `processCacheFlushRsp` (`CpS.cacheRsp`: the real guard
  `numCacheACK == 1 && !shootDownInProcess && !ToDriver.CanSend()`; `numCacheACK--`; at 0: with the flag
  `processCacheFlushCausedByTLBShootdown` (`currFlushRequest = nil`, one `tlb.FlushReq` per TLB,
  `numTLBAck++`) else `processRegularCacheFlush`),
* `processTLBFlushRsp` (`CpS.rTLB`; at 0: `ShootdownCompleteRsp` to the driver, `Send` unchecked,
  `shootDownInProcess = false`).

Since repair 0728adcb a `FlushReq` waits in the driver port while `shootDownInProcess` and a
`ShootDownCommand` waits while `numCacheACK > 0` (`CpS.handle`, `CpS.hShoot`; the code before that repair
is kept as `CpS.handleOld / hShootOld / tickOld`, `CpSEnv.stepOld`, `runOld`). Since the repair of finding
`C11-cp-launch-in-shootdown` a `LaunchKernelReq` waits while `shootDownInProcess`, too (`CpS.launch`; the
code before that repair: `CpS.launchOld / handleOldL / tickOldL`, `CpSEnv.stepOldL`, `runOldL`). A THIRD user of the counter
was added by repair da0cc607: `cpMiddleware.processLaunchKernelReq` → `invalidateL1CachesBeforeKernel`
sends an invalidating `FlushReq` to every L1S and L1V cache before a kernel starts on an idle GPU
(`numCacheACK++` each, `l1InvalidatedFor = req`, the request stays at the head of the port), and
`processCacheFlushRsp` consumes the last acknowledgement silently when `l1InvalidatedFor != nil`
(`CpS.launch`, the `l1Inv` branch of `CpS.cacheRsp`; dispatchers = a counter `busy ≤ nDisp`, a kernel
ends by the environment move `kdone`).

`CpS` = the state `Cp` of `C11Cp.lean` as the field `c` (the copy stages ARE `Cp.handle` / `Cp.dmaRsp`)
plus the shootdown state. Every unchecked `Send` is modelled with its buffer capacity: when the
outgoing buffer is full the message is dropped, the counter is incremented all the same (ghost
`drop…` counters, ghost events with `sent = false`).

Representation of the two buffers that now hold two kinds of message:
* driver port (incoming): `c.drvIn` = the copy / flush requests in front of the first
  `ShootDownCommand`, `later` = everything from that command on (so the head of the port is the head
  of `c.drvIn`, or the command at the head of `later` when `c.drvIn` is empty);
* ToDriver (outgoing): `outEarlier` = everything up to and including the last `ShootdownCompleteRsp`,
  `c.drvOut` = the answers behind it. `Cp.handle / Cp.dmaRsp` run on `cpView` (room in ToDriver =
  capacity minus `outEarlier`).

Caches are numbered by their position in `L1I ++ L1S ++ L1V ++ L2` (the order of `processFlushReq`);
the shootdown asks them in the order L1S, L1V, L1I, L2 (`CpS.ordReset`). A reset request
(pause + discard + invalidate) for cache `i` is the number `resetBase + i` in `c.cacheOut`. -/
namespace C11
open Util

/-- a message in the driver port from the first `ShootDownCommand` on -/
inductive SIn where
  | req (m : CpMsg)
  | shoot (id : Nat)
  /-- a `LaunchKernelReq` -/
  | launch (id : Nat)
deriving DecidableEq, Repr

/-- a message in ToDriver's outgoing buffer: an answer of the copy / flush path or a
    `ShootdownCompleteRsp` -/
inductive SOut where
  | ans (m : CpMsg)
  | sdone (id : Nat)
deriving DecidableEq, Repr

def SIn.req? : SIn → Option CpMsg
  | .req m => some m
  | _ => none

def SIn.isReq : SIn → Bool
  | .req _ => true
  | _ => false

def SOut.ans? : SOut → Option CpMsg
  | .ans m => some m
  | .sdone _ => none

def SOut.isDone : SOut → Bool
  | .ans _ => false
  | .sdone _ => true

/-- ghost event log of the shared component, in program order inside a tick -/
inductive SEv where
  /-- an event of the copy / flush path (`Cp.log`) -/
  | cp (ev : CpEv)
  /-- `processShootdownCommand` accepted shootdown `id` (`shootDownInProcess = true`) -/
  | shootStart (id : Nat)
  /-- a `CUPipelineFlushReq` for compute unit `i` was handed to `ToCUs.Send` (`numCUAck++`) -/
  | cuReq (i : Nat) (sent : Bool)
  | cuAck
  /-- a discard-transactions message for address translator `i` (`numAddrTranslationFlushAck++`) -/
  | atReq (i : Nat) (sent : Bool)
  | atAck
  /-- `flushAndResetL1Cache / L2Cache`: a reset request for cache `i` was handed to `ToCaches.Send`,
      error ignored (`numCacheACK++`) -/
  | reset (i : Nat) (sent : Bool)
  /-- a `cache.FlushRsp` was processed while `shootDownInProcess` (`numCacheACK--`) -/
  | ackS
  /-- a `tlb.FlushReq` for TLB `i` (`numTLBAck++`) -/
  | tlbReq (i : Nat) (sent : Bool)
  | tlbAck
  /-- the `ShootdownCompleteRsp` of shootdown `id` was handed to `ToDriver.Send`, error ignored -/
  | shootDone (id : Nat) (sent : Bool)
  /-- `invalidateCache`: an invalidating flush request for (L1S / L1V) cache `i` was sent before kernel
      `id` starts (`numCacheACK++`) -/
  | inval (id i : Nat)
  /-- a `cache.FlushRsp` was processed while `l1InvalidatedFor != nil` and no shootdown is in process
      (`numCacheACK--`; at 0 nothing is answered) -/
  | ackI
  /-- kernel `id` was handed to a dispatcher (`StartDispatching`), the request left the driver port -/
  | kstart (id : Nat)
deriving DecidableEq, Repr

/-- `n--` on a `uint64` -/
def dec64 (n : Nat) : Nat := if n = 0 then 18446744073709551615 else n - 1

/-- code of a reset request in `Cp.cacheOut` -/
def resetBase : Nat := 1000000

/-- code of a kernel-start invalidation request in `Cp.cacheOut` -/
def invBase : Nat := 2000000

/-- a loop of `Send`s whose error is ignored: the ghost events (`ms` in loop order, `r` = free slots) -/
def sendEvs (ev : Nat → Bool → SEv) (r : Nat) (ms : List Nat) : List SEv :=
  (ms.take r).map (ev · true) ++ (ms.drop r).map (ev · false)

structure CpS where
  c : Cp := {}
  /-- how many of the `c.nCaches` caches are L1I, L1S, L1V, L2 (`c.nCaches` is their sum) -/
  nI : Nat := 0
  nS : Nat := 0
  nV : Nat := 0
  n2 : Nat := 4
  nCU : Nat := 1
  nAT : Nat := 1
  nTLB : Nat := 1
  capCU : Nat := 4096
  capAT : Nat := 4096
  capTLB : Nat := 4096
  /-- number of dispatchers, how many of them are dispatching a kernel -/
  nDisp : Nat := 1
  busy : Nat := 0
  /-- `l1InvalidatedFor`: the launch request whose kernel-start invalidation has been issued -/
  l1Inv : Option Nat := none
  /-- ghost: kernels started so far -/
  started : Nat := 0
  /-- the driver port from the first message that is not a copy / flush request on -/
  later : List SIn := []
  /-- ToDriver's outgoing buffer up to its last `ShootdownCompleteRsp` -/
  outEarlier : List SOut := []
  cuOut : List Nat := []
  cuIn : List Nat := []
  atOut : List Nat := []
  atIn : List Nat := []
  tlbOut : List Nat := []
  tlbIn : List Nat := []
  /-- `numCUAck`, `numAddrTranslationFlushAck`, `numTLBAck` (`numCacheACK` is `c.numAck`) -/
  numCU : Nat := 0
  numAT : Nat := 0
  numTLB : Nat := 0
  /-- `shootDownInProcess`, `currShootdownRequest` -/
  shoot : Bool := false
  curShoot : Option Nat := none
  /-- ghost: messages lost by an unchecked `Send` into a full buffer, per port -/
  dropCU : Nat := 0
  dropAT : Nat := 0
  dropC : Nat := 0
  dropTLB : Nat := 0
  dropDone : Nat := 0
  log : List SEv := []
deriving Repr

def cpsSeg (a n : Nat) : List Nat := (List.range n).map (· + a)

/-- `processAddressTranslatorFlushRsp`: L1S, L1V, L1I, L2 -/
def CpS.ordReset (s : CpS) : List Nat :=
  cpsSeg s.nI s.nS ++ cpsSeg (s.nI + s.nS) s.nV ++ cpsSeg 0 s.nI ++ cpsSeg (s.nI + s.nS + s.nV) s.n2

/-- messages in the driver port -/
def CpS.portLen (s : CpS) : Nat := s.c.drvIn.length + s.later.length

/-- messages in ToDriver's outgoing buffer -/
def CpS.outLen (s : CpS) : Nat := s.outEarlier.length + s.c.drvOut.length

/-- the copy / flush path's view of the component: ToDriver has room for an answer iff
    `c.drvOut.length < capDrv - outEarlier.length` -/
def CpS.cpView (s : CpS) : Cp := { s.c with capDrv := s.c.capDrv - s.outEarlier.length }

/-- put the result of a stage of the copy / flush path back; its new ghost events go to the shared log -/
def CpS.liftCp (s : CpS) (r : Cp × Bool) : CpS × Bool :=
  ({ s with c := { r.1 with capDrv := s.c.capDrv },
            log := s.log ++ (r.1.log.drop s.c.log.length).map SEv.cp }, r.2)

/-- the kernel at the head of the port starts: `StartDispatching`, `RetrieveIncoming` -/
def CpS.kstart (s : CpS) (id : Nat) (rest : List SIn) : CpS :=
  { s with busy := s.busy + 1, started := s.started + 1, l1Inv := none,
           c := { s.c with drvIn := (rest.takeWhile SIn.isReq).filterMap SIn.req? },
           later := rest.dropWhile SIn.isReq,
           log := s.log ++ [.kstart id] }

/-- `invalidateCache` (checked `Send`: `panic(err)` when ToCaches is full) -/
def CpS.invalidate (id : Nat) (s : CpS) (i : Nat) : CpS :=
  if s.c.fault.isSome then s else
  if s.c.cacheOut.length < s.c.capCache then
    { s with c := { s.c with cacheOut := s.c.cacheOut ++ [invBase + i], numAck := s.c.numAck + 1 },
             log := s.log ++ [.inval id i] }
  else { s with c := { s.c with fault := some "cache_send" } }

/-- the caches `invalidateL1CachesBeforeKernel` asks: L1S, then L1V -/
def CpS.ordInval (s : CpS) : List Nat := cpsSeg s.nI s.nS ++ cpsSeg (s.nI + s.nS) s.nV

/-- `invalidateL1CachesBeforeKernel` and what follows it in `processLaunchKernelReq`, for the launch
    request `id` at the head of the port: the invalidation of this request is complete → start; a kernel is
    running → start without invalidation; else one invalidating flush request per L1S / L1V cache, and
    the request waits (without such caches: start) -/
def CpS.launchGo (s : CpS) (id : Nat) (rest : List SIn) : CpS × Bool :=
  if s.l1Inv = some id then (s.kstart id rest, true) else
  if s.busy > 0 then (s.kstart id rest, true) else
  let s1 := s.ordInval.foldl (CpS.invalidate id) s
  if s1.c.fault.isSome then (s1, true) else
  if s1.c.numAck = 0 then (s1.kstart id rest, true) else
  ({ s1 with l1Inv := some id }, true)

/-- `cpMiddleware.processLaunchKernelReq` for the launch request `id` at the head of the port
    (`rest` = the port behind it): no free dispatcher → wait; `numCacheACK > 0` → wait;
    `shootDownInProcess` → wait (repair of finding `C11-cp-launch-in-shootdown`: the kernel-start
    invalidation shares `numCacheACK` with the shootdown's cache phase); then
    `invalidateL1CachesBeforeKernel` (`CpS.launchGo`) -/
def CpS.launch (s : CpS) (id : Nat) (rest : List SIn) : CpS × Bool :=
  if s.nDisp ≤ s.busy then (s, false) else
  if s.c.numAck > 0 then (s, false) else
  if s.shoot then (s, false) else
  s.launchGo id rest

/-- `processLaunchKernelReq` BEFORE the repair of `C11-cp-launch-in-shootdown`: no guard on
    `shootDownInProcess` -/
def CpS.launchOld (s : CpS) (id : Nat) (rest : List SIn) : CpS × Bool :=
  if s.nDisp ≤ s.busy then (s, false) else
  if s.c.numAck > 0 then (s, false) else
  s.launchGo id rest

/-- `cpMiddleware.Handle` on the head of the driver port: `processFlushReq` / `processMemCopyReq` (guarded
    by `numCacheACK > 0`; a flush also waits while `shootDownInProcess`) or `processLaunchKernelReq` -/
def CpS.handle (s : CpS) : CpS × Bool :=
  if s.c.fault.isSome then (s, false) else
  match s.c.drvIn, s.later with
  | [], .launch id :: rest => s.launch id rest
  | m :: _, _ => if m.kind = .flush ∧ s.shoot = true then (s, false) else s.liftCp s.cpView.handle
  | _, _ => (s, false)

/-- `cpMiddleware.Handle` before repair 0728adcb: neither a flush request nor a launch request waits
    for a shootdown -/
def CpS.handleOld (s : CpS) : CpS × Bool :=
  if s.c.fault.isSome then (s, false) else
  match s.c.drvIn, s.later with
  | [], .launch id :: rest => s.launchOld id rest
  | _ :: _, _ => s.liftCp s.cpView.handle
  | _, _ => (s, false)

/-- `cpMiddleware.Handle` after repair 0728adcb and before the repair of `C11-cp-launch-in-shootdown`: a
    flush request waits for a shootdown, a launch request does not -/
def CpS.handleOldL (s : CpS) : CpS × Bool :=
  if s.c.fault.isSome then (s, false) else
  match s.c.drvIn, s.later with
  | [], .launch id :: rest => s.launchOld id rest
  | m :: _, _ => if m.kind = .flush ∧ s.shoot = true then (s, false) else s.liftCp s.cpView.handle
  | _, _ => (s, false)

/-- `cpMiddleware.processRspFromDMAs` -/
def CpS.dmaRsp (s : CpS) : CpS × Bool := s.liftCp s.cpView.dmaRsp

/-- `processShootdownCommand` accepts shootdown `id` (`rest` = the port behind it) -/
def CpS.shootAccept (s : CpS) (id : Nat) (rest : List SIn) : CpS :=
  let r := s.capCU - s.cuOut.length
  let ms := List.range s.nCU
  { s with shoot := true, curShoot := some id,
           numCU := s.numCU + s.nCU,
           cuOut := s.cuOut ++ ms.take r,
           dropCU := s.dropCU + (ms.drop r).length,
           c := { s.c with drvIn := (rest.takeWhile SIn.isReq).filterMap SIn.req? },
           later := rest.dropWhile SIn.isReq,
           log := s.log ++ .shootStart id :: sendEvs .cuReq r ms }

/-- `ctrlMiddleware.Handle` → `processShootdownCommand` (the other control commands are not modelled):
    refuses while `shootDownInProcess` and — since repair 0728adcb — while `numCacheACK > 0` -/
def CpS.hShoot (s : CpS) : CpS × Bool :=
  if s.c.fault.isSome then (s, false) else
  match s.c.drvIn, s.later with
  | [], .shoot id :: rest =>
    if s.shoot then (s, false) else
    if s.c.numAck > 0 then (s, false) else
    (s.shootAccept id rest, true)
  | _, _ => (s, false)

/-- `processShootdownCommand` before repair 0728adcb -/
def CpS.hShootOld (s : CpS) : CpS × Bool :=
  if s.c.fault.isSome then (s, false) else
  match s.c.drvIn, s.later with
  | [], .shoot id :: rest =>
    if s.shoot then (s, false) else
    (s.shootAccept id rest, true)
  | _, _ => (s, false)

/-- `processRspFromCUs` → `processCUPipelineFlushRsp` -/
def CpS.rCU (s : CpS) : CpS × Bool :=
  if s.c.fault.isSome then (s, false) else
  match s.cuIn with
  | [] => (s, false)
  | _ :: rest =>
    let n := dec64 s.numCU
    let s := { s with numCU := n, cuIn := rest, log := s.log ++ [.cuAck] }
    if n = 0 then
      let r := s.capAT - s.atOut.length
      let ms := List.range s.nAT
      ({ s with numAT := s.numAT + s.nAT,
                atOut := s.atOut ++ ms.take r,
                dropAT := s.dropAT + (ms.drop r).length,
                log := s.log ++ sendEvs .atReq r ms }, true)
    else (s, true)

/-- `processRspFromATs` → `processAddressTranslatorFlushRsp`; with both translator counters at 0 the
    code panics (`never`; the restart counter is 0 here: GPU restart is not modelled) -/
def CpS.rAT (s : CpS) : CpS × Bool :=
  if s.c.fault.isSome then (s, false) else
  match s.atIn with
  | [] => (s, false)
  | _ :: rest =>
    if s.numAT > 0 then
      let n := s.numAT - 1
      let s := { s with numAT := n, atIn := rest, log := s.log ++ [.atAck] }
      if n = 0 then
        let r := s.c.capCache - s.c.cacheOut.length
        let ms := s.ordReset
        ({ s with c := { s.c with cacheOut := s.c.cacheOut ++ (ms.take r).map (resetBase + ·),
                                  numAck := s.c.numAck + ms.length },
                  dropC := s.dropC + (ms.drop r).length,
                  log := s.log ++ sendEvs .reset r ms }, true)
      else (s, true)
    else ({ s with c := { s.c with fault := some "never" } }, true)

/-- `processRspFromCaches` → `processCacheFlushRsp`, shared by the flush path and the shootdown path:
    guard `numCacheACK == 1 && !shootDownInProcess && !ToDriver.CanSend()`; `numCacheACK--`; at 0 with
    the flag `processCacheFlushCausedByTLBShootdown`, else with `l1InvalidatedFor != nil` nothing,
    else `processRegularCacheFlush` -/
def CpS.cacheRsp (s : CpS) : CpS × Bool :=
  if s.c.fault.isSome then (s, false) else
  match s.c.cacheIn with
  | [] => (s, false)
  | _ :: rest =>
    if s.c.numAck = 1 ∧ s.shoot = false ∧ ¬ s.outLen < s.c.capDrv then (s, false) else
    let n := dec64 s.c.numAck
    if s.shoot then
      let s := { s with c := { s.c with numAck := n, cacheIn := rest }, log := s.log ++ [.ackS] }
      if n = 0 then
        let r := s.capTLB - s.tlbOut.length
        let ms := List.range s.nTLB
        ({ s with c := { s.c with curFlush := none },
                  numTLB := s.numTLB + s.nTLB,
                  tlbOut := s.tlbOut ++ ms.take r,
                  dropTLB := s.dropTLB + (ms.drop r).length,
                  log := s.log ++ sendEvs .tlbReq r ms }, true)
      else (s, true)
    else if s.l1Inv.isSome then
      -- at 0: "the kernel-start invalidation of the L1 caches is complete; nobody waits for a response"
      ({ s with c := { s.c with numAck := n, cacheIn := rest }, log := s.log ++ [.ackI] }, true)
    else
      let s := { s with c := { s.c with numAck := n, cacheIn := rest, log := s.c.log ++ [.ack] },
                        log := s.log ++ [.cp .ack] }
      if n = 0 then
        match s.c.curFlush with
        | none => ({ s with c := { s.c with fault := some "nilderef" } }, true)
        | some f =>
          ({ s with c := { s.c with drvOut := s.c.drvOut ++ [⟨f, .flush⟩], curFlush := none,
                                    log := s.c.log ++ [.flushDone f true] },
                    log := s.log ++ [.cp (.flushDone f true)] }, true)
      else (s, true)

/-- `processRspFromTLBs` → `processTLBFlushRsp` -/
def CpS.rTLB (s : CpS) : CpS × Bool :=
  if s.c.fault.isSome then (s, false) else
  match s.tlbIn with
  | [] => (s, false)
  | _ :: rest =>
    let n := dec64 s.numTLB
    let s := { s with numTLB := n, tlbIn := rest, log := s.log ++ [.tlbAck] }
    if n = 0 then
      let id := s.curShoot.getD 0
      if s.outLen < s.c.capDrv then
        ({ s with outEarlier := s.outEarlier ++ s.c.drvOut.map SOut.ans ++ [.sdone id],
                  c := { s.c with drvOut := [] },
                  shoot := false,
                  log := s.log ++ [.shootDone id true] }, true)
      else
        ({ s with dropDone := s.dropDone + 1, shoot := false, log := s.log ++ [.shootDone id false] }, true)
    else (s, true)

/-- `cpMiddleware.Tick` then `ctrlMiddleware.Tick` (`Handle`; `HandleInternal` = RDMA (not modelled),
    CUs, ATs, caches, TLBs, PMC (not modelled)) -/
def CpS.pass (s : CpS) : CpS × Bool :=
  let a := s.handle
  let b := a.1.dmaRsp
  let h := b.1.hShoot
  let u := h.1.rCU
  let t := u.1.rAT
  let k := t.1.cacheRsp
  let l := k.1.rTLB
  (l.1, a.2 || b.2 || h.2 || u.2 || t.2 || k.2 || l.2)

/-- one pass before repair 0728adcb -/
def CpS.passOld (s : CpS) : CpS × Bool :=
  let a := s.handleOld
  let b := a.1.dmaRsp
  let h := b.1.hShootOld
  let u := h.1.rCU
  let t := u.1.rAT
  let k := t.1.cacheRsp
  let l := k.1.rTLB
  (l.1, a.2 || b.2 || h.2 || u.2 || t.2 || k.2 || l.2)

/-- one pass before the repair of `C11-cp-launch-in-shootdown` -/
def CpS.passOldL (s : CpS) : CpS × Bool :=
  let a := s.handleOldL
  let b := a.1.dmaRsp
  let h := b.1.hShoot
  let u := h.1.rCU
  let t := u.1.rAT
  let k := t.1.cacheRsp
  let l := k.1.rTLB
  (l.1, a.2 || b.2 || h.2 || u.2 || t.2 || k.2 || l.2)

/-- `CommandProcessor.Tick` before the repair of `C11-cp-launch-in-shootdown` -/
def CpS.tickOldL (s : CpS) : CpS × Bool :=
  if s.c.fault.isSome then (s, false) else
  let a := if s.c.drvIn.isEmpty && s.later.isEmpty then (s, false) else s.passOldL
  let b := a.1.passOldL
  (b.1, a.2 || b.2)

/-- `CommandProcessor.Tick` before repair 0728adcb -/
def CpS.tickOld (s : CpS) : CpS × Bool :=
  if s.c.fault.isSome then (s, false) else
  let a := if s.c.drvIn.isEmpty && s.later.isEmpty then (s, false) else s.passOld
  let b := a.1.passOld
  (b.1, a.2 || b.2)

/-- `CommandProcessor.Tick` (dispatchers idle): `processReqFromDriver` only when the driver port holds
    a message (of any kind), then `processRspFromInternal` -/
def CpS.tick (s : CpS) : CpS × Bool :=
  if s.c.fault.isSome then (s, false) else
  let a := if s.c.drvIn.isEmpty && s.later.isEmpty then (s, false) else s.pass
  let b := a.1.pass
  (b.1, a.2 || b.2)

/-! ## Environment: the driver, the DMA engine, the caches, the compute units, the address translators,
the TLBs, in any order -/

structure CpSEnv where
  s : CpS := {}
  /-- copy / flush requests accepted by the driver port so far, in order (ids 0,1,2,…) -/
  sent : List CpMsg := []
  /-- shootdown commands accepted by the driver port so far (ids 0,1,2,…) -/
  shootSent : Nat := 0
  /-- kernel launch requests accepted by the driver port so far (ids 0,1,2,…) -/
  launchSent : Nat := 0
  atDma : List CpClone := []
  /-- cache requests (flush: `i`, reset: `resetBase + i`) taken from ToCaches, not yet acknowledged -/
  atCaches : List Nat := []
  atCU : List Nat := []
  atAT : List Nat := []
  atTLB : List Nat := []
  /-- what the driver has taken from ToDriver, in order -/
  drained : List SOut := []
  dmaSeen : List CpClone := []
  answered : List Nat := []
deriving Repr

/-- the component classes of the shootdown path -/
inductive SCls where
  | cu
  | at
  | tlb
deriving DecidableEq, Repr

inductive SOp where
  /-- a move of the copy / flush environment (`CpOp`: request, tick, takes, cache ack, DMA answer) -/
  | cp (op : CpOp)
  /-- the driver delivers a `ShootDownCommand` -/
  | shoot
  /-- the driver delivers a `LaunchKernelReq` -/
  | launch
  /-- a dispatcher finishes its kernel -/
  | kdone
  /-- the components of a class take up to `k` messages from the CP's port to them -/
  | take (c : SCls) (k : Nat)
  /-- the `j`-th outstanding request of a class is acknowledged -/
  | ack (c : SCls) (j : Nat)
  /-- observe the counters (no state change) -/
  | query
deriving DecidableEq, Repr

def outStr : SOut → String
  | .ans m => msgStr m
  | .sdone _ => "S"

def cacheStr (x : Nat) : String :=
  if x < resetBase then toString x else if x < invBase then "R" ++ toString (x - resetBase)
  else "I" ++ toString (x - invBase)

def CpS.out (s : CpS) : SCls → List Nat
  | .cu => s.cuOut
  | .at => s.atOut
  | .tlb => s.tlbOut
def CpS.setOut (s : CpS) (c : SCls) (l : List Nat) : CpS :=
  match c with
  | .cu => { s with cuOut := l }
  | .at => { s with atOut := l }
  | .tlb => { s with tlbOut := l }
def CpS.inn (s : CpS) : SCls → List Nat
  | .cu => s.cuIn
  | .at => s.atIn
  | .tlb => s.tlbIn
def CpS.setIn (s : CpS) (c : SCls) (l : List Nat) : CpS :=
  match c with
  | .cu => { s with cuIn := l }
  | .at => { s with atIn := l }
  | .tlb => { s with tlbIn := l }
def CpSEnv.pend (e : CpSEnv) : SCls → List Nat
  | .cu => e.atCU
  | .at => e.atAT
  | .tlb => e.atTLB
def CpSEnv.setPend (e : CpSEnv) (c : SCls) (l : List Nat) : CpSEnv :=
  match c with
  | .cu => { e with atCU := l }
  | .at => { e with atAT := l }
  | .tlb => { e with atTLB := l }

def SCls.tag : SCls → String
  | .cu => "xu"
  | .at => "xa"
  | .tlb => "xl"

/-- `numCUAck,numAddrTranslationFlushAck,numTLBAck,numCacheACK,shootDownInProcess,currFlushRequest != nil,
    l1InvalidatedFor != nil,dispatchers dispatching,kernels started` -/
def CpS.sig (s : CpS) : String :=
  s!"{s.numCU},{s.numAT},{s.numTLB},{s.c.numAck},{if s.shoot then 1 else 0},{if s.c.curFlush.isSome then 1 else 0},{if s.l1Inv.isSome then 1 else 0},{s.busy},{s.started}"

/-- one environment move; the string is what the harness observes on the real component -/
def CpSEnv.step (e : CpSEnv) : SOp → CpSEnv × String
  | .cp (.req k) =>
    if e.s.portLen < e.s.c.capIn then
      let m : CpMsg := { id := e.sent.length, kind := k }
      let s' : CpS := if e.s.later.isEmpty then { e.s with c := { e.s.c with drvIn := e.s.c.drvIn ++ [m] } }
                      else { e.s with later := e.s.later ++ [.req m] }
      ({ e with s := s', sent := e.sent ++ [m] }, "ok")
    else (e, "full")
  | .shoot =>
    if e.s.portLen < e.s.c.capIn then
      ({ e with s := { e.s with later := e.s.later ++ [.shoot e.shootSent] }, shootSent := e.shootSent + 1 }, "ok")
    else (e, "full")
  | .launch =>
    if e.s.portLen < e.s.c.capIn then
      ({ e with s := { e.s with later := e.s.later ++ [.launch e.launchSent] }, launchSent := e.launchSent + 1 }, "ok")
    else (e, "full")
  | .kdone =>
    if e.s.busy = 0 then (e, "none") else ({ e with s := { e.s with busy := e.s.busy - 1 } }, "ok")
  | .cp .tick =>
    let r := e.s.tick
    ({ e with s := r.1 }, match r.1.c.fault with
      | some f => "fault:" ++ f
      | none => if r.2 then "t1" else "t0")
  | .cp (.takeDma k) =>
    let t := e.s.c.dmaOut.take k
    ({ e with s := { e.s with c := { e.s.c with dmaOut := e.s.c.dmaOut.drop k } }, atDma := e.atDma ++ t,
              dmaSeen := e.dmaSeen ++ t },
     "xd[" ++ joinWith "," (t.map cloneStr) ++ "]")
  | .cp (.takeCache k) =>
    let t := e.s.c.cacheOut.take k
    ({ e with s := { e.s with c := { e.s.c with cacheOut := e.s.c.cacheOut.drop k } }, atCaches := e.atCaches ++ t },
     "xc[" ++ joinWith "," (t.map cacheStr) ++ "]")
  | .cp (.takeDrv k) =>
    let t1 := e.s.outEarlier.take k
    let t2 := e.s.c.drvOut.take (k - t1.length)
    ({ e with s := { e.s with outEarlier := e.s.outEarlier.drop k,
                              c := { e.s.c with drvOut := e.s.c.drvOut.drop (k - t1.length) } },
              drained := e.drained ++ (t1 ++ t2.map SOut.ans) },
     "xr[" ++ joinWith "," ((t1 ++ t2.map SOut.ans).map outStr) ++ "]")
  | .cp (.ack j) =>
    match e.atCaches with
    | [] => (e, "none")
    | _ =>
      if e.s.c.cacheIn.length ≥ e.s.c.capIn then (e, "full") else
      let j := j % e.atCaches.length
      ({ e with s := { e.s with c := { e.s.c with cacheIn := e.s.c.cacheIn ++ [e.atCaches.getD j 0] } },
                atCaches := e.atCaches.eraseIdx j }, "ok")
  | .cp (.rsp j) =>
    match e.atDma with
    | [] => (e, "none")
    | _ =>
      if e.s.c.dmaIn.length ≥ e.s.c.capIn then (e, "full") else
      let j := j % e.atDma.length
      match e.atDma[j]? with
      | none => (e, "none")
      | some c =>
        ({ e with s := { e.s with c := { e.s.c with dmaIn := e.s.c.dmaIn ++ [c.cid] } }, atDma := e.atDma.eraseIdx j,
                  answered := e.answered ++ [c.cid] }, "ok")
  | .take c k =>
    let t := (e.s.out c).take k
    (({ e with s := e.s.setOut c ((e.s.out c).drop k) }).setPend c (e.pend c ++ t),
     c.tag ++ "[" ++ joinWith "," (t.map toString) ++ "]")
  | .ack c j =>
    match e.pend c with
    | [] => (e, "none")
    | _ =>
      if (e.s.inn c).length ≥ e.s.c.capIn then (e, "full") else
      let j := j % (e.pend c).length
      (({ e with s := e.s.setIn c (e.s.inn c ++ [(e.pend c).getD j 0]) }).setPend c ((e.pend c).eraseIdx j), "ok")
  | .query => (e, e.s.sig)

def CpSEnv.run (e : CpSEnv) : List SOp → CpSEnv
  | [] => e
  | op :: rest => ((e.step op).1).run rest

/-- the environment around the code before repair 0728adcb -/
def CpSEnv.stepOld (e : CpSEnv) : SOp → CpSEnv × String
  | .cp .tick =>
    let r := e.s.tickOld
    ({ e with s := r.1 }, match r.1.c.fault with
      | some f => "fault:" ++ f
      | none => if r.2 then "t1" else "t0")
  | op => e.step op

def CpSEnv.runOld (e : CpSEnv) : List SOp → CpSEnv
  | [] => e
  | op :: rest => ((e.stepOld op).1).runOld rest

/-- the environment around the code before the repair of `C11-cp-launch-in-shootdown` -/
def CpSEnv.stepOldL (e : CpSEnv) : SOp → CpSEnv × String
  | .cp .tick =>
    let r := e.s.tickOldL
    ({ e with s := r.1 }, match r.1.c.fault with
      | some f => "fault:" ++ f
      | none => if r.2 then "t1" else "t0")
  | op => e.step op

def CpSEnv.runOldL (e : CpSEnv) : List SOp → CpSEnv
  | [] => e
  | op :: rest => ((e.stepOldL op).1).runOldL rest

/-- the observable strings of a run -/
def CpSEnv.trace (e : CpSEnv) : List SOp → List String
  | [] => []
  | op :: rest => (e.step op).2 :: ((e.step op).1).trace rest

/-- configuration of the shared component -/
structure CpSCfg where
  nCU : Nat := 1
  nAT : Nat := 1
  nTLB : Nat := 1
  nI : Nat := 1
  nS : Nat := 1
  nV : Nat := 1
  n2 : Nat := 1
  capIn : Nat := 4096
  capDrv : Nat := 4096
  capDma : Nat := 4096
  capCache : Nat := 4096
  capCU : Nat := 4096
  capAT : Nat := 4096
  capTLB : Nat := 4096
  nDisp : Nat := 1
deriving DecidableEq, Repr

def CpSCfg.nCaches (g : CpSCfg) : Nat := g.nI + g.nS + g.nV + g.n2

def CpSEnv.init (g : CpSCfg) : CpSEnv :=
  { s := { c := { nCaches := g.nCaches, capIn := g.capIn, capDrv := g.capDrv, capDma := g.capDma,
                  capCache := g.capCache },
           nI := g.nI, nS := g.nS, nV := g.nV, n2 := g.n2, nCU := g.nCU, nAT := g.nAT, nTLB := g.nTLB,
           capCU := g.capCU, capAT := g.capAT, capTLB := g.capTLB, nDisp := g.nDisp } }

/-! ## Line protocol: `c11 cps cu= at= tlb= caches= l1i= l1s= l1v= cin= cdrv= cdma= ccache= ccu= cat= ctlb= ; op ; …`
(`caches` = number of caches, of which `l1i`, `l1s`, `l1v` (default 0) are L1 caches of that kind and
the rest L2). ops: those of `c11 cpmw` (`f h d F n H n D n t T n xd k xc k xr k a j r j`), `s` (deliver a
`ShootDownCommand`), `xu k` `xa k` `xl k` (take from ToCUs / ToAddressTranslators / ToTLBs),
`au j` `aa j` `al j` (acknowledge the `j`-th outstanding request of the class), `q` (counters),
`k` (deliver a `LaunchKernelReq`), `kd j` (a busy dispatcher finishes its kernel); config `disp=` dispatchers. -/

def cpsRepeat (e : CpSEnv) (op : SOp) : Nat → CpSEnv × List String
  | 0 => (e, [])
  | n + 1 =>
    let r := e.step op
    let q := cpsRepeat r.1 op n
    (q.1, r.2 :: q.2)

def cpsLineOp (e : CpSEnv) (toks : List String) : CpSEnv × String :=
  let one (op : SOp) := e.step op
  let many (op : SOp) (n : String) (f : List String → String) :=
    let r := cpsRepeat e op (n.toNat?.getD 0)
    (r.1, f r.2)
  let cnt (l : List String) := toString (l.filter (· == "ok")).length
  let bits (l : List String) := String.join (l.map fun x => if x == "t1" then "1" else if x == "t0" then "0" else "!" ++ x)
  let num (k : String) := k.toNat?.getD 0
  match toks with
  | ["f"] => one (.cp (.req .flush))
  | ["h"] => one (.cp (.req .h2d))
  | ["d"] => one (.cp (.req .d2h))
  | ["s"] => one .shoot
  | ["k"] => one .launch
  | ["kd", _] => one .kdone
  | ["F", n] => many (.cp (.req .flush)) n cnt
  | ["H", n] => many (.cp (.req .h2d)) n cnt
  | ["D", n] => many (.cp (.req .d2h)) n cnt
  | ["t"] => one (.cp .tick)
  | ["T", n] => many (.cp .tick) n bits
  | ["xd", k] => one (.cp (.takeDma (num k)))
  | ["xc", k] => one (.cp (.takeCache (num k)))
  | ["xr", k] => one (.cp (.takeDrv (num k)))
  | ["a", j] => one (.cp (.ack (num j)))
  | ["r", j] => one (.cp (.rsp (num j)))
  | ["xu", k] => one (.take .cu (num k))
  | ["xa", k] => one (.take .at (num k))
  | ["xl", k] => one (.take .tlb (num k))
  | ["au", j] => one (.ack .cu (num j))
  | ["aa", j] => one (.ack .at (num j))
  | ["al", j] => one (.ack .tlb (num j))
  | ["q"] => one .query
  | _ => (e, "bad")

def runCps (cfg : List String) (ops : List String) : String :=
  let g (k : String) (d : Nat) : Nat := (kvNat? cfg k).getD d
  let n := g "caches" 4
  let nI := min (g "l1i" 0) n
  let nS := min (g "l1s" 0) (n - nI)
  let nV := min (g "l1v" 0) (n - nI - nS)
  let gc : CpSCfg :=
    { nCU := g "cu" 1
      nAT := g "at" 1
      nTLB := g "tlb" 1
      nI := nI
      nS := nS
      nV := nV
      n2 := n - nI - nS - nV
      capIn := g "cin" 4096
      capDrv := g "cdrv" 4096
      capDma := g "cdma" 4096
      capCache := g "ccache" 4096
      capCU := g "ccu" 4096
      capAT := g "cat" 4096
      capTLB := g "ctlb" 4096
      nDisp := g "disp" 1 }
  let e := CpSEnv.init gc
  let r := ops.foldl (fun (a : CpSEnv × List String) o =>
    let q := cpsLineOp a.1 (words o)
    (q.1, q.2 :: a.2)) (e, [])
  joinWith " " r.2.reverse

end C11
