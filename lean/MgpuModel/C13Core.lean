import MgpuModel.Util
/-!
# C13 — HSACO kernel loading (amd/insts/hsaco.go), over an ELF *view*

The view is what `debug/elf` hands to the loader: the section list (name, address,
data or "Data() failed") and the symbol table (name, value, size, section index), or
"no symbol table".  ELF parsing itself is trusted.  Everything below transcribes
`loadKernelCodeObjectFromELF` and its helpers branch by branch; `log.Fatal` paths
are `Outcome.fatal`, slice-bounds panics are `Outcome.fault`.
-/
namespace C13

abbrev Bytes := List UInt8

/-- 2^64: `uint64` arithmetic in the loader wraps -/
def U64 : Nat := 18446744073709551616

structure Section where
  name : String
  addr : Nat
  /-- `none`: `Section.Data()` returned nil (SHT_NOBITS / read error) -/
  data : Option Bytes
  deriving Repr

structure Symbol where
  name : String
  value : Nat
  size : Nat
  shndx : Nat
  deriving DecidableEq, Repr

structure View where
  sections : List Section
  /-- `none`: `File.Symbols()` failed (no SHT_SYMTAB section) -/
  symbols : Option (List Symbol)

/-- `KernelCodeObjectMeta` -/
structure Meta where
  rsrc1 : Nat := 0
  rsrc2 : Nat := 0
  rsrc3 : Nat := 0
  kernarg : Nat := 0
  lds : Nat := 0
  priv : Nat := 0
  entry : Nat := 0
  enPrivSegBuf : Bool := false
  enDispatchPtr : Bool := false
  enQueuePtr : Bool := false
  enKernargPtr : Bool := false
  enDispatchID : Bool := false
  enFlatScratch : Bool := false
  enPrivSegSize : Bool := false
  enGridX : Bool := false
  enGridY : Bool := false
  enGridZ : Bool := false
  cvMajor : Nat := 0
  cvMinor : Nat := 0
  machineKind : Nat := 0
  mvMajor : Nat := 0
  mvMinor : Nat := 0
  mvStepping : Nat := 0
  wfSgpr : Nat := 0
  wiVgpr : Nat := 0
  deriving DecidableEq, Repr

/-! ## little-endian reads (`encoding/binary.LittleEndian`) -/

def byteAt (d : Bytes) (i : Nat) : Nat := (d.getD i 0).toNat
def u16 (d : Bytes) (o : Nat) : Nat := byteAt d o + 256 * byteAt d (o + 1)
def u32 (d : Bytes) (o : Nat) : Nat :=
  byteAt d o + 256 * byteAt d (o + 1) + 65536 * byteAt d (o + 2) + 16777216 * byteAt d (o + 3)
def u64 (d : Bytes) (o : Nat) : Nat := u32 d o + 4294967296 * u32 d (o + 4)

def testBit (n i : Nat) : Bool := (n / 2 ^ i) % 2 == 1

/-- `extractBits(number, lo, hi)` of disassembler.go -/
def extractBits (n lo hi : Nat) : Nat := (n / 2 ^ lo) % 2 ^ (hi - lo + 1)

/-! ## V2/V3 header -/

/-- `isV2V3Header` -/
def isV2V3Header (d : Bytes) : Bool :=
  if d.length < 256 then false
  else if u32 d 0 != 1 || u32 d 4 > 2 || u16 d 8 != 1 then false
  else if u16 d 10 < 7 || u16 d 10 > 9 then false
  else if u64 d 16 != 256 then false
  else true

/-- `parseV2V3Header` (the reads; see `parseV2V3Header?` for the range condition) -/
def parseV2V3Header (d : Bytes) : Meta :=
  let flags := u32 d 56
  { cvMajor := u32 d 0
    cvMinor := u32 d 4
    machineKind := u16 d 8
    mvMajor := u16 d 10
    mvMinor := u16 d 12
    mvStepping := u16 d 14
    entry := u64 d 16
    rsrc1 := u32 d 48
    rsrc2 := u32 d 52
    enPrivSegBuf := testBit flags 0
    enDispatchPtr := testBit flags 1
    enQueuePtr := testBit flags 2
    enKernargPtr := testBit flags 3
    enDispatchID := testBit flags 4
    enFlatScratch := testBit flags 5
    enPrivSegSize := testBit flags 6
    enGridX := testBit flags 7
    enGridY := testBit flags 8
    enGridZ := testBit flags 9
    priv := u32 d 60
    lds := u32 d 64
    kernarg := u64 d 72
    wfSgpr := u16 d 84
    wiVgpr := u16 d 86 }

/-- the function reads bytes `[0, 88)`; Go panics (slice bounds) on anything shorter -/
def parseV2V3Header? (d : Bytes) : Option Meta :=
  if d.length < 88 then none else some (parseV2V3Header d)

/-! ## V5 kernel descriptor -/

/-- the rewriting of `compute_pgm_rsrc2` in `parseV5KernelDescriptor` -/
def fixRsrc2 (r : BitVec 32) (kernargPtr : Bool) : BitVec 32 :=
  let r := r &&& ~~~1#32
  let r := if kernargPtr then (r &&& ~~~(0x1F#32 <<< 1)) ||| (2#32 <<< 1) else r
  let r := r ||| (1#32 <<< 7)
  let r := r ||| (1#32 <<< 8)
  if ((r >>> 11) &&& 3#32) == 0#32 then (r &&& ~~~(3#32 <<< 11)) ||| (1#32 <<< 11) else r

/-- `parseV5KernelDescriptor` (repaired): the rsrc words at the offsets of the AMDGPU ABI
(`amdhsa::kernel_descriptor_t`): compute_pgm_rsrc3 @44, rsrc1 @48, rsrc2 @52 -/
def parseV5KernelDescriptor (d : Bytes) : Meta :=
  let karg := u32 d 8
  let r1 := u32 d 48
  { lds := u32 d 0
    priv := u32 d 4
    kernarg := karg
    entry := u64 d 16
    rsrc3 := u32 d 44
    rsrc1 := r1
    rsrc2 := (fixRsrc2 (BitVec.ofNat 32 (u32 d 52)) (decide (karg > 0))).toNat
    wiVgpr := ((extractBits r1 0 5 + 1) * 4) % 65536
    wfSgpr := ((extractBits r1 6 9 + 1) * 8) % 65536
    enKernargPtr := decide (karg > 0) }

/-- the function reads bytes `[0, 56)` -/
def parseV5KernelDescriptor? (d : Bytes) : Option Meta :=
  if d.length < 56 then none else some (parseV5KernelDescriptor d)

/-- `parseV5KernelDescriptor` before the repair: every rsrc word one slot early (40/44/48);
kept for `C13_full_before_fix_refuted` -/
def parseV5KernelDescriptorOld (d : Bytes) : Meta :=
  let karg := u32 d 8
  let r1 := u32 d 44
  { lds := u32 d 0
    priv := u32 d 4
    kernarg := karg
    entry := u64 d 16
    rsrc3 := u32 d 40
    rsrc1 := r1
    rsrc2 := (fixRsrc2 (BitVec.ofNat 32 (u32 d 48)) (decide (karg > 0))).toNat
    wiVgpr := ((extractBits r1 0 5 + 1) * 4) % 65536
    wfSgpr := ((extractBits r1 6 9 + 1) * 8) % 65536
    enKernargPtr := decide (karg > 0) }

/-! ## register-count overrides from `<k>.numbered_sgpr` / `<k>.num_vgpr` (uint16 arithmetic) -/

def sgprFromSym (v : Nat) : Nat := (((v % 65536 + 2) % 65536 + 7) % 65536) / 8 * 8
def vgprFromSym (v : Nat) : Nat := ((v % 65536 + 3) % 65536) / 4 * 4

def overrideStep (k : String) (m : Meta) (s : Symbol) : Meta :=
  if s.name = k ++ ".numbered_sgpr" then
    (if sgprFromSym s.value > m.wfSgpr then { m with wfSgpr := sgprFromSym s.value } else m)
  else if s.name = k ++ ".num_vgpr" then
    (if vgprFromSym s.value > m.wiVgpr then { m with wiVgpr := vgprFromSym s.value } else m)
  else m

/-- `overrideRegisterCountsFromSymbols` -/
def overrideRegs (k : String) (m : Meta) (syms : List Symbol) : Meta :=
  syms.foldl (overrideStep k) m

/-! ## slices -/

/-- `a - b` in `uint64` arithmetic, for `a, b < 2^64` (written without `a + 2^64`, which
Lean's unifier would unfold as 2^64 successors) -/
def wrapSub (a b : Nat) : Nat := if b ≤ a then a - b else U64 - (b - a)

/-- Go `data[off : off+size]` with uint64 wrap-around of `off+size`; `none` = panic.
(cap = len for the buffers `debug/elf` returns.) -/
def sliceU64 (d : Bytes) (off size : Nat) : Option Bytes :=
  let hi := (off + size) % U64
  if off ≤ hi ∧ hi ≤ d.length then some ((d.drop off).take (hi - off)) else none

/-! ## results -/

structure Loaded where
  data : Bytes
  md : Meta
  version : Nat
  sym : Option Symbol
  deriving DecidableEq, Repr

inductive Outcome where
  | ok (r : Loaded)
  /-- `log.Fatal`: the process ends -/
  | fatal (kind : String)
  /-- slice-bounds panic -/
  | fault
  deriving DecidableEq, Repr

/-- `newKernelCodeObjectFromEntireTextSection` -/
def fromEntireText (d : Bytes) : Outcome :=
  if d.length ≥ 256 && isV2V3Header d then
    match parseV2V3Header? d with
    | none => .fault
    | some m => .ok { data := d.drop 256, md := { m with entry := 0 }, version := 3, sym := none }
  else .ok { data := d, md := {}, version := 5, sym := none }

def withSym (o : Outcome) (s : Symbol) : Outcome :=
  match o with
  | .ok r => .ok { r with sym := some s }
  | o => o

inductive KdLookup where
  | none
  | fault
  | found (m : Meta)
  deriving DecidableEq, Repr

def findSection (secs : List Section) (n : String) : Option Section := secs.find? (·.name == n)

/-- `findV5KernelDescriptor` (repaired): the descriptor symbol is used only when it lies inside
`.rodata`, compared without wrap-around (`sym.Value >= Addr`, `kdOffset <= len`, `len-kdOffset >= 64`) -/
def findV5 (secs : List Section) (k : String) (syms : List Symbol) : KdLookup :=
  match findSection secs ".rodata" with
  | none => .none
  | some ro =>
    match ro.data with
    | none => .none
    | some rod =>
      match syms.find? (fun s => s.name == k ++ ".kd" && s.size == 64) with
      | none => .none
      | some s =>
        match secs[s.shndx]? with
        | none => .none
        | some sec =>
          if sec.name == ".rodata" then
            if ro.addr ≤ s.value then
              let off := s.value - ro.addr
              if off ≤ rod.length ∧ rod.length - off ≥ 64 then
                match parseV5KernelDescriptor? ((rod.drop off).take 64) with
                | some m => .found m
                | none => .fault
              else .none
            else .none
          else .none

/-- `findV5KernelDescriptor` before the repair: `kdOffset := sym.Value - rodataSection.Addr` and
`kdOffset+64 <= len` in wrapping uint64 arithmetic (kept for `findV5_before_fix_refuted`) -/
def findV5Old (secs : List Section) (k : String) (syms : List Symbol) : KdLookup :=
  match findSection secs ".rodata" with
  | none => .none
  | some ro =>
    match ro.data with
    | none => .none
    | some rod =>
      match syms.find? (fun s => s.name == k ++ ".kd" && s.size == 64) with
      | none => .none
      | some s =>
        match secs[s.shndx]? with
        | none => .none
        | some sec =>
          if sec.name == ".rodata" then
            let off := wrapSub s.value ro.addr
            let hi := (off + 64) % U64
            if hi ≤ rod.length then
              if off ≤ hi then
                match parseV5KernelDescriptor? ((rod.drop off).take 64) with
                | some m => .found m
                | none => .fault
              else .fault
            else .none
          else .none

/-- kernel symbols: defined, section index in range, section named `.text`, size > 0 -/
def isKernelSym (secs : List Section) (s : Symbol) : Bool :=
  s.shndx != 0 &&
  (match secs[s.shndx]? with
   | none => false
   | some sec => sec.name == ".text" && s.size > 0)

/-- the part of the loader after the kernel name is known -/
def loadNamed (secs : List Section) (text : Section) (td : Bytes) (syms : List Symbol) (k : String) : Outcome :=
  match (syms.filter (isKernelSym secs)).find? (·.name == k) with
  | none => .fatal "notfound"
  | some s =>
    let off := wrapSub s.value text.addr
    match sliceU64 td off s.size with
    | none => .fault
    | some kdata =>
      match findV5 secs k syms with
      | .fault => .fault
      | .found m => .ok { data := kdata, md := overrideRegs k m syms, version := 5, sym := some s }
      | .none => withSym (fromEntireText kdata) s

/-- `loadKernelCodeObjectFromELF` -/
def loadKernel (v : View) (name : String) : Outcome :=
  match findSection v.sections ".text" with
  | none => .fatal "notext"
  | some text =>
    match text.data with
    | none => .fatal "textdata"
    | some td =>
      match v.symbols with
      | none => fromEntireText td
      | some syms =>
        if name = "" then
          match syms.filter (isKernelSym v.sections) with
          | [] => fromEntireText td
          | [s] => loadNamed v.sections text td syms s.name
          | _ => .fatal "multiple"
        else loadNamed v.sections text td syms name

/-! ## symbol selection as a total function with an explicit error enum

`loadNamed` above answers with `Outcome`; the part of it that picks the kernel symbol and
cuts its bytes out of `.text` is restated here with the Go run-time error it can raise
(`loadNamed_via_select` in `MgpuProofs/C13Select.lean` shows it is the same computation). -/

/-- why the selection yields no bytes -/
inductive SelErr where
  /-- no symbol passes the kernel filter and carries the name: `log.Fatalf("kernel '%s' not found …")` -/
  | notFound
  /-- `textSectionData[offset : offset+size]`: "slice bounds out of range [:hi] with capacity cap" -/
  | hiPastCap
  /-- same expression: "slice bounds out of range [lo:hi]" (lo > hi after uint64 wrap-around) -/
  | loPastHi
  deriving DecidableEq, Repr

inductive Sel where
  | ok (s : Symbol) (bytes : Bytes)
  | err (e : SelErr)
  deriving DecidableEq, Repr

/-- the first symbol, in table order, that passes the kernel filter and is named `k` -/
def firstKernelSym (secs : List Section) (syms : List Symbol) (k : String) : Option Symbol :=
  (syms.filter (isKernelSym secs)).find? (·.name == k)

/-- the `for _, symbol := range kernelSymbols` loop up to `kernelData := …` (Go checks
`hi ≤ cap` before `lo ≤ hi`) -/
def selectKernel (secs : List Section) (textAddr : Nat) (td : Bytes) (syms : List Symbol) (k : String) : Sel :=
  match firstKernelSym secs syms k with
  | none => .err .notFound
  | some s =>
    let off := wrapSub s.value textAddr
    let hi := (off + s.size) % U64
    if hi > td.length then .err .hiPastCap
    else if off > hi then .err .loPastHi
    else .ok s ((td.drop off).take (hi - off))

/-- the symbol's range lies inside the section's loaded bytes (plain arithmetic, no wrap) -/
def symInside (textAddr tdLen : Nat) (s : Symbol) : Bool :=
  decide (textAddr ≤ s.value ∧ s.value + s.size ≤ textAddr + tdLen)

/-- decidable well-formedness for a lookup of `k`: the first kernel symbol named `k`, if
there is one, lies inside `.text` -/
def selWF (secs : List Section) (textAddr : Nat) (td : Bytes) (syms : List Symbol) (k : String) : Bool :=
  match firstKernelSym secs syms k with
  | none => true
  | some s => symInside textAddr td.length s

/-! ## sessions: the loader keeps nothing between calls -/

structure Req where
  view : View
  name : String

/-- a run of the loader: one answer per request, in order.  There is no state to thread:
the loader functions of hsaco.go touch no package-level variable (regenerated audit
`Gen.Hsaco.loaderGlobals`, theorem `loader_has_no_state`). -/
def session (reqs : List Req) : List Outcome := reqs.map (fun r => loadKernel r.view r.name)

/-! ## the accessor methods of `KernelCodeObjectMeta` (hsaco.go, bottom) -/

def workItemVgprCount (m : Meta) : Nat := extractBits m.rsrc1 0 5
def wavefrontSgprCount (m : Meta) : Nat := extractBits m.rsrc1 6 9
def priority (m : Meta) : Nat := extractBits m.rsrc1 10 11
def enPrivSegWaveByteOffset (m : Meta) : Bool := extractBits m.rsrc2 0 0 != 0
def userSgprCount (m : Meta) : Nat := extractBits m.rsrc2 1 5
def enWorkGroupIDX (m : Meta) : Bool := extractBits m.rsrc2 7 7 != 0
def enWorkGroupIDY (m : Meta) : Bool := extractBits m.rsrc2 8 8 != 0
def enWorkGroupIDZ (m : Meta) : Bool := extractBits m.rsrc2 9 9 != 0
def enWorkGroupInfo (m : Meta) : Bool := extractBits m.rsrc2 10 10 != 0
def enVgprWorkItemID (m : Meta) : Nat := extractBits m.rsrc2 11 12
def enExceptionAddressWatch (m : Meta) : Bool := extractBits m.rsrc2 13 13 != 0
def enExceptionMemoryViolation (m : Meta) : Bool := extractBits m.rsrc2 14 14 != 0

/-! ## spec-side layout writers (used by the round-trip theorems and by nothing else) -/

def le16 (x : Nat) : Bytes := [UInt8.ofNat (x % 256), UInt8.ofNat (x / 256 % 256)]
def le32 (x : Nat) : Bytes :=
  [UInt8.ofNat (x % 256), UInt8.ofNat (x / 256 % 256), UInt8.ofNat (x / 65536 % 256), UInt8.ofNat (x / 16777216 % 256)]
def le64 (x : Nat) : Bytes := le32 (x % 4294967296) ++ le32 (x / 4294967296 % 4294967296)

def flagsOf (m : Meta) : Nat :=
  m.enPrivSegBuf.toNat + 2 * m.enDispatchPtr.toNat + 4 * m.enQueuePtr.toNat + 8 * m.enKernargPtr.toNat +
  16 * m.enDispatchID.toNat + 32 * m.enFlatScratch.toNat + 64 * m.enPrivSegSize.toNat + 128 * m.enGridX.toNat +
  256 * m.enGridY.toNat + 512 * m.enGridZ.toNat

/-- `amd_kernel_code_t` (256 bytes): the fields the loader keeps; `skip*` are the
fields it does not read (prefetch, scratch, upper flag bits, GDS, barrier count, tail). -/
def renderHeader (m : Meta) (skip24 : Nat) (skip32 : Nat) (skip40 : Nat) (flagsHi : Nat) (gds : Nat) (barrier : Nat) (tail : Bytes) : Bytes :=
  le32 m.cvMajor ++ le32 m.cvMinor ++ le16 m.machineKind ++ le16 m.mvMajor ++ le16 m.mvMinor ++ le16 m.mvStepping ++
  le64 m.entry ++ le64 skip24 ++ le64 skip32 ++ le64 skip40 ++ le32 m.rsrc1 ++ le32 m.rsrc2 ++
  le32 (flagsOf m + 1024 * flagsHi) ++ le32 m.priv ++ le32 m.lds ++ le32 gds ++ le64 m.kernarg ++ le32 barrier ++
  le16 m.wfSgpr ++ le16 m.wiVgpr ++ tail

/-- The kernel descriptor as the AMDGPU ABI lays it out (llvm `amdhsa::kernel_descriptor_t`):
rsrc3 @44, rsrc1 @48, rsrc2 @52, kernel_code_properties @56. -/
structure KdFields where
  lds : Nat
  priv : Nat
  kernarg : Nat
  reserved12 : Nat
  entry : Nat
  reserved24 : Nat
  reserved32 : Nat
  reserved40 : Nat
  rsrc3 : Nat
  rsrc1 : Nat
  rsrc2 : Nat
  props : Nat
  preload : Nat
  reserved60 : Nat

def renderKd (f : KdFields) : Bytes :=
  le32 f.lds ++ le32 f.priv ++ le32 f.kernarg ++ le32 f.reserved12 ++ le64 f.entry ++ le64 f.reserved24 ++
  le64 f.reserved32 ++ le32 f.reserved40 ++ le32 f.rsrc3 ++ le32 f.rsrc1 ++ le32 f.rsrc2 ++ le16 f.props ++
  le16 f.preload ++ le32 f.reserved60

/-! ## line protocol -/

def hexVal (c : UInt8) : Nat :=
  if c ≥ 48 && c ≤ 57 then (c - 48).toNat
  else if c ≥ 97 && c ≤ 102 then (c - 87).toNat
  else if c ≥ 65 && c ≤ 70 then (c - 55).toNat
  else 0

def hexToBytes (s : String) : Bytes :=
  let a := s.toUTF8
  let rec go (i : Nat) (acc : Bytes) : Bytes :=
    match i with
    | 0 => acc
    | i + 1 => go i (UInt8.ofNat (hexVal a[2 * i]! * 16 + hexVal a[2 * i + 1]!) :: acc)
  go (a.size / 2) []

def fnv64 (bs : Bytes) : UInt64 :=
  bs.foldl (fun h b => (h ^^^ b.toUInt64) * 1099511628211) 14695981039346656037

def b01 (b : Bool) : String := if b then "1" else "0"

def metaStr (m : Meta) : String :=
  "r1=" ++ Util.toHexPad 8 m.rsrc1 ++ " r2=" ++ Util.toHexPad 8 m.rsrc2 ++ " r3=" ++ Util.toHexPad 8 m.rsrc3 ++
  " karg=" ++ toString m.kernarg ++ " lds=" ++ toString m.lds ++ " priv=" ++ toString m.priv ++
  " entry=" ++ toString m.entry ++ " en=" ++
  b01 m.enPrivSegBuf ++ b01 m.enDispatchPtr ++ b01 m.enQueuePtr ++ b01 m.enKernargPtr ++ b01 m.enDispatchID ++
  b01 m.enFlatScratch ++ b01 m.enPrivSegSize ++ b01 m.enGridX ++ b01 m.enGridY ++ b01 m.enGridZ ++
  " cv=" ++ toString m.cvMajor ++ "." ++ toString m.cvMinor ++ " mk=" ++ toString m.machineKind ++
  " mv=" ++ toString m.mvMajor ++ "." ++ toString m.mvMinor ++ "." ++ toString m.mvStepping ++
  " sgpr=" ++ toString m.wfSgpr ++ " vgpr=" ++ toString m.wiVgpr

def outcomeStr : Outcome → String
  | .fault => "fault:bounds"
  | .fatal k => "fatal:" ++ k
  | .ok r =>
    let sym := match r.sym with
      | none => "nil"
      | some s => "n:" ++ s.name ++ "," ++ Util.toHex s.value ++ "," ++ Util.toHex s.size ++ "," ++ toString s.shndx
    "ok v=" ++ toString r.version ++ " sym=" ++ sym ++ " data=" ++ toString r.data.length ++ ":" ++
      Util.toHexPad 16 (fnv64 r.data).toNat ++ " " ++ metaStr r.md

/-- answer of the `c13 acc` / `c13 kdacc` case lines: every accessor, in source order -/
def accStr (m : Meta) : String :=
  "vgpr=" ++ toString (workItemVgprCount m) ++ " sgpr=" ++ toString (wavefrontSgprCount m) ++
  " prio=" ++ toString (priority m) ++ " wave=" ++ b01 (enPrivSegWaveByteOffset m) ++
  " user=" ++ toString (userSgprCount m) ++ " wg=" ++ b01 (enWorkGroupIDX m) ++ b01 (enWorkGroupIDY m) ++
  b01 (enWorkGroupIDZ m) ++ b01 (enWorkGroupInfo m) ++ " wi=" ++ toString (enVgprWorkItemID m) ++
  " exc=" ++ b01 (enExceptionAddressWatch m) ++ b01 (enExceptionMemoryViolation m)

def selStr : Sel → String
  | .err .notFound => "err:notfound"
  | .err .hiPastCap => "err:hi-past-cap"
  | .err .loPastHi => "err:lo-past-hi"
  | .ok s bytes =>
    "ok sym=n:" ++ s.name ++ "," ++ Util.toHex s.value ++ "," ++ Util.toHex s.size ++ "," ++ toString s.shndx ++
      " data=" ++ (if bytes.isEmpty then "e" else Util.bytesHex (bytes.map (·.toNat)))

/-- `c13 sel`: the selection step of a load by (non-empty) name on a view with `.text` data and symbols -/
def selOfView (v : View) (k : String) : String :=
  match findSection v.sections ".text" with
  | none => "nosel"
  | some text =>
    match text.data, v.symbols with
    | some td, some syms => selStr (selectKernel v.sections text.addr td syms k)
    | _, _ => "nosel"

def unName (t : String) : String := (t.drop 2).toString

def parseData (t : String) : Option Bytes :=
  if t = "!" then none else if t = "-" || t = "e" then some [] else some (hexToBytes t)

def parseView (parts : List String) (hasSyms : Bool) : View :=
  let (secs, syms) := parts.foldl (fun (acc : List Section × List Symbol) p =>
    match Util.words p with
    | ["S", n, a, d] => ({ name := unName n, addr := (Util.hexNat? a).getD 0, data := parseData d } :: acc.1, acc.2)
    | ["Y", n, v, sz, sh] =>
      (acc.1, { name := unName n, value := (Util.hexNat? v).getD 0, size := (Util.hexNat? sz).getD 0, shndx := (sh.toNat?).getD 0 } :: acc.2)
    | _ => acc) ([], [])
  { sections := secs.reverse, symbols := if hasSyms then some syms.reverse else none }

/-- the case lines of the first two rounds (`load`, `ent`, `hdr`, `kd`, `acc`, `kdacc`, `sel`); `C13.handle`
(MgpuModel/C13.lean) tries the lines of the later layers first and falls back to this -/
def handleCore (line : String) : String :=
  match line.splitOn " ; " with
  | [] => "bad-op"
  | hd :: rest =>
    match Util.words hd with
    | ["c13", "load", n, sy] => outcomeStr (loadKernel (parseView rest (sy == "syms=1")) (unName n))
    | ["c13", "ent", h] =>
      let d := (parseData h).getD []
      "is=" ++ b01 (isV2V3Header d) ++ " " ++ outcomeStr (fromEntireText d)
    | ["c13", "hdr", h] =>
      match parseV2V3Header? ((parseData h).getD []) with
      | none => "fault:bounds"
      | some m => metaStr m
    | ["c13", "kd", h] =>
      match parseV5KernelDescriptor? ((parseData h).getD []) with
      | none => "fault:bounds"
      | some m => metaStr m
    | ["c13", "acc", h] =>
      match parseV2V3Header? ((parseData h).getD []) with
      | none => "fault:bounds"
      | some m => accStr m
    | ["c13", "kdacc", h] =>
      match parseV5KernelDescriptor? ((parseData h).getD []) with
      | none => "fault:bounds"
      | some m => accStr m
    | ["c13", "sel", n, sy] => selOfView (parseView rest (sy == "syms=1")) (unName n)
    | _ => "bad-op"

end C13
