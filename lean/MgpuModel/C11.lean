import MgpuModel.C11Core
import MgpuModel.C11Sys
import MgpuModel.C11CpShare
/-! # C11 — line-protocol dispatcher (`handle`); the models live in `MgpuModel/C11Core.lean` (splitting,
page-table copy semantics, DMA engine, dirty-buffer bookkeeping, accessor), `C11Cp.lean`, `C11Mq.lean` -/
namespace C11
open Util

def handle (line : String) : String :=
  let segs := splitTrim line ";"
  match segs with
  | [] => "bad"
  | first :: rest =>
    let t := words first
    match t with
    | "c11" :: "split" :: _ =>
      match kvNat? t "unit", kvNat? t "addr", kvNat? t "len" with
      | some u, some a, some l =>
        if h : 0 < u then
          joinWith "," ((splitBy u h a l).map fun p => s!"{p.1}+{p.2}")
        else "bad"
      | _, _, _ => "bad"
    | "c11" :: "overlap" :: _ =>
      match kvNat? t "s1", kvNat? t "e1", kvNat? t "s2", kvNat? t "e2" with
      | some a, some b, some c, some d => toString (memRangeOverlap a b c d)
      | _, _, _, _ => "bad"
    | "c11" :: "dma" :: cfg => runDma (joinWith " " cfg :: rest)
    | "c11" :: "cpmw" :: cfg => runCpmw cfg rest
    | "c11" :: "cps" :: cfg => runCps cfg rest
    | "c11" :: "mq" :: cfg => runMq cfg rest
    | "c11" :: "sys" :: cfg => runSys cfg rest
    | "c11" :: "accrun" :: cfg => runAccRun cfg rest
    | "c11" :: "flush" :: _ =>
      let ops := rest.filterMap fun o =>
        match words o with
        | ["a", st, sz] => (hexNat? st).bind fun s => sz.toNat?.map fun z => FOp.alloc s z
        | ["k"] => some FOp.launch
        | ["K"] => some FOp.complete
        | ["c", a, l] => (hexNat? a).bind fun a => l.toNat?.map fun l => FOp.copy a l
        | _ => none
      joinWith "" ((frun [] ops).2.map fun b => if b then "F" else "-")
    | "c11" :: "h2d" :: _ =>
      match (kv? t "pt").bind parsePt, kvHex? t "addr", kvNat? t "len", kvNat? t "seed" with
      | some pt, some a, some l, some seed =>
        match pieces pt l a 0 l with
        | some ps =>
          let img := ps.foldl (fun img (p : Nat × Nat × Nat) =>
            writeImg pt img p.1 (Array.ofFn (n := p.2.2) fun k => h2dByte a (p.2.1 + k.val))) (initPages pt seed)
          joinWith "," (img.toList.map fun pg => toHex (fnv pg.toList))
        | none => "fault:page_not_found"
      | _, _, _, _ => "bad"
    | "c11" :: "d2h" :: _ =>
      match (kv? t "pt").bind parsePt, kvHex? t "addr", kvNat? t "len", kvNat? t "seed" with
      | some pt, some a, some l, some seed =>
        match pieces pt l a 0 l with
        | some ps =>
          let img := initPages pt seed
          toHex (fnv (ps.flatMap fun (p : Nat × Nat × Nat) => readImg pt img p.1 p.2.2))
        | none => "fault:page_not_found"
      | _, _, _, _ => "bad"
    | _ => "bad"

end C11
