import MgpuModel.C19_Base
import MgpuModel.C19_Cp
import MgpuModel.C19_Drv
/-! # C19 — line protocol of the property module

`C19_Base.lean` holds the two-controller system, the re-homing step and the handshake counters
(`mig`, `prep`, `hs`, `hsmap` lines); `C19_Cp.lean` the command processor's control path (`cp` lines); `C19_Drv.lean` the migration stages of
`Driver.Tick` (`drv` lines). -/
namespace C19
open Util

def handle (line : String) : String :=
  match splitTrim line ";" with
  | [] => "bad"
  | first :: rest =>
    match words first with
    | "c19" :: "cp" :: cfg => CP.handle cfg rest
    | "c19" :: "drv" :: cfg => DR.handle cfg rest
    | _ => handleBase line

end C19
