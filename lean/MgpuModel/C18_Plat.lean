import MgpuModel.C18_Mem
import MgpuModel.Gen.C18Plat
import MgpuModel.Gen.C10Alloc
/-! # C18 — the L1→L2 / RDMA routing decision as the platform builders configure it (`c18 plat`, `c18 platx`)

`amd/samples/runner/timingconfig/builder.go` creates ONE `BankedAddressPortMapper` for all RDMA engines
(`createRDMAAddressMapper`: `BankSize = gpuMemSize`, entry 0 = the pseudo port `"CPU"`, entry `i` = the
`RDMAData` port of GPU `i`, appended by `configRDMAEngine`) and builds GPU `i` (`i = 1 … numGPUs`) with
`memAddrOffset = i · gpuMemSize`. The GPU builders (`r9nano`, `mi300a`) give every GPU one
`InterleavedAddressPortMapper` (`l1AddressMapper`): `LowAddress = memAddrOffset`,
`HighAddress = memAddrOffset + dramSize` — `dramSize` is the GPU BUILDER's default, the platform builder
never calls `WithDramSize` —, address-space limitation on, one low module per L2 bank, interleaved by
`1 << log2MemoryBankInterleavingSize`; `ModuleForOtherAddresses` = the engine's `RDMARequestInside`
port; the same mapper object is the engine's `localModules`. L2 bank `j` writes back to DRAM controller `j`;
the DMA engine and the page-migration controller use a second interleaved mapper (same interleaving, no
limitation) over the DRAM controllers. All DRAM controllers of all GPUs share the global storage of
`numGPUs · gpuMemSize + cpuMemSize` bytes.

Every number and expression used here comes from `Gen/C18Plat.lean`, which `translate/c18.go`
regenerates from those builder sources on every run; `Props/C18Plat.lean` pins the generated wiring
strings. The general model is parametric (`PlatCfg`) so that the theorems can say what the equalities
between these numbers are needed for. Addresses are naturals (no 64-bit wrap-around). -/
namespace C18
open Util

inductive GpuType
  | r9nano
  | mi300a
deriving DecidableEq, Repr

/-- what the builders fix -/
structure PlatCfg where
  /-- number of GPUs (`numGPUs`); GPUs are numbered `1 … n` -/
  n : Nat
  /-- `gpuMemSize`: bank size of the RDMA address table and stride of `memAddrOffset` -/
  S : Nat
  /-- `dramSize` of the GPU builder: width of every GPU's local range -/
  D : Nat
  /-- interleaving size of the L1→L2 mapper -/
  isz : Nat
  /-- number of L2 banks (= low modules of the L1→L2 mapper) -/
  k : Nat
  /-- interleaving size of the DMA / PMC mapper over the DRAM controllers -/
  disz : Nat
  /-- capacity of the global storage -/
  cap : Nat
deriving Repr, DecidableEq

/-- the platform `timingconfig.Builder.WithNumGPUs(n).WithGPUType(t).Build()` creates -/
def platOf (t : GpuType) (n : Nat) : PlatCfg :=
  match t with
  | .r9nano =>
    { n := n
      S := Gen.C18Plat.rdmaBankSize Gen.C18Plat.gpuMemSize
      D := Gen.C18Plat.r9nano_dramSize
      isz := Gen.C18Plat.r9nano_l1Interleave Gen.C18Plat.r9nano_log2MemoryBankInterleavingSize
      k := Gen.C18Plat.r9nano_numMemoryBank
      disz := Gen.C18Plat.r9nano_dramInterleave Gen.C18Plat.r9nano_log2MemoryBankInterleavingSize
      cap := Gen.C18Plat.storageCap n Gen.C18Plat.gpuMemSize Gen.C18Plat.cpuMemSize }
  | .mi300a =>
    { n := n
      S := Gen.C18Plat.rdmaBankSize Gen.C18Plat.gpuMemSize
      D := Gen.C18Plat.mi300a_dramSize
      isz := Gen.C18Plat.mi300a_l1Interleave Gen.C18Plat.mi300a_log2MemoryBankInterleavingSize
      k := Gen.C18Plat.mi300a_numMemoryBank
      disz := Gen.C18Plat.mi300a_dramInterleave Gen.C18Plat.mi300a_log2MemoryBankInterleavingSize
      cap := Gen.C18Plat.storageCap n Gen.C18Plat.gpuMemSize Gen.C18Plat.cpuMemSize }

/-- `LowAddress` / `HighAddress` of GPU `g`'s L1→L2 mapper (`Build` of the GPU builder, called by
    `createGPU` with `WithMemAddrOffset(uint64(index) * gpuMemSize)`) -/
def PlatCfg.lo (p : PlatCfg) (g : Nat) : Nat := Gen.C18Plat.r9nano_l1Low (Gen.C18Plat.memAddrOffset g p.S)
def PlatCfg.hi (p : PlatCfg) (g : Nat) : Nat := Gen.C18Plat.r9nano_l1High (Gen.C18Plat.memAddrOffset g p.S) p.D

inductive L1Dst
  /-- `ModuleForOtherAddresses`: the RDMA engine's inside port -/
  | rdma
  /-- `LowModules[j]`: L2 bank `j` -/
  | l2 (j : Nat)
deriving DecidableEq, Repr

/-- `InterleavedAddressPortMapper.Find` of GPU `g`'s L1→L2 mapper -/
def l1Find (p : PlatCfg) (g a : Nat) : L1Dst :=
  if a ≥ p.hi g ∨ a < p.lo g then .rdma else .l2 (a / p.isz % p.k)

/-- `BankedAddressPortMapper.Find` of the shared RDMA address table: entry index, `none` = slice index
    out of range (`n + 1` entries: "CPU" and one per GPU) -/
def rdmaFind (p : PlatCfg) (a : Nat) : Option Nat :=
  if p.S = 0 then none else
  if a / p.S < p.n + 1 then some (a / p.S) else none

/-- the DRAM controller the DMA engine / page-migration controller of a GPU uses for `a` -/
def dramFind (p : PlatCfg) (a : Nat) : Nat := a / p.disz % p.k

/-- where an access of GPU `g` to physical address `a` ends -/
inductive Served
  /-- L2 bank `j` of GPU `gpu` after `hops` forwards by RDMA engines (0 = the issuer's own L2) -/
  | l2 (gpu j hops : Nat)
  /-- table entry 0: the pseudo port "CPU" -/
  | cpu
  /-- index beyond the table: Go slice panic -/
  | oob
  /-- the destination's engine hands the request to `ModuleForOtherAddresses`, its own inside port -/
  | loop
deriving DecidableEq, Repr

/-- the path of one access: the issuer's L1→L2 mapper, then (when not local) the RDMA address table and
    the destination engine's `localModules.Find` — the same mapper object as that GPU's L1→L2 mapper -/
def access (p : PlatCfg) (g a : Nat) : Served :=
  match l1Find p g a with
  | .l2 j => .l2 g j 0
  | .rdma =>
    match rdmaFind p a with
    | none => .oob
    | some 0 => .cpu
    | some (d + 1) =>
      match l1Find p (d + 1) a with
      | .l2 j => .l2 (d + 1) j 1
      | .rdma => .loop

/-- the single-engine configuration (`C18.Cfg`) of GPU `g`'s RDMA engine on this platform
    (buffer size and per-cycle widths: defaults of `rdma.MakeBuilder`, the GPU builders override none) -/
def engineCfg (p : PlatCfg) (g : Nat) : Cfg :=
  { cap := Gen.C18Plat.rdma_bufferSize
    wReqOut := Gen.C18Plat.rdma_outgoingReqPerCycle
    wRspOut := Gen.C18Plat.rdma_outgoingRspPerCycle
    wReqIn := Gen.C18Plat.rdma_incomingReqPerCycle
    wRspIn := Gen.C18Plat.rdma_incomingRspPerCycle
    bankSize := p.S
    nBanks := p.n + 1
    isz := p.isz
    k := p.k
    lo := p.lo g
    hi := p.hi g }

/-- the memory-level configuration (`C18.MemCfg`) of this platform: page size of the driver
    (`log2PageSize` of the platform builder), bank size, number of GPUs -/
def memCfgOf (p : PlatCfg) : MemCfg := ⟨1 <<< Gen.C18Plat.log2PageSize, p.S, p.n⟩

/-- first physical address the allocator hands out (`NewMemoryAllocator`: "to avoid 0 address") -/
def allocStart : Nat := Gen.C10Alloc.newAllocTotal Gen.C18Plat.log2PageSize

/-! ## Line protocol
`c18 plat type=<r9nano|mi300a> n=<k> a=<hex>` (the platform the builders create) and
`c18 platx n= S= D= isz= k= a=` (all hex but `n`, `k`: real Akita mappers wired by the harness exactly as
the builders wire them, with arbitrary sizes). Answer:
`tab=<cpu|oob|d> l1=<R|j>,… own=<R|j|-> dma=<j> st=<0|1>` — the RDMA table entry, every GPU's L1→L2 mapper
decision (`R` = RDMA engine, `j` = L2 bank), what the table's destination GPU does with the address,
the DRAM controller the DMA mapper picks, and whether the address is inside the global storage. -/

def l1Sig : L1Dst → String
  | .rdma => "R"
  | .l2 j => toString j

def platAnswer (p : PlatCfg) (a : Nat) : String :=
  let tab := match rdmaFind p a with
    | none => "oob"
    | some 0 => "cpu"
    | some d => toString d
  let l1 := joinWith "," ((List.range p.n).map fun i => l1Sig (l1Find p (i + 1) a))
  let own := match rdmaFind p a with
    | some (d + 1) => l1Sig (l1Find p (d + 1) a)
    | _ => "-"
  s!"tab={tab} l1={l1} own={own} dma={dramFind p a} st={if a < p.cap then 1 else 0}"

def handlePlat (cfg : List String) : String :=
  match kv? cfg "type", kvNat? cfg "n", kvHex? cfg "a" with
  | some ty, some n, some a =>
    if ty = "r9nano" then platAnswer (platOf .r9nano n) a
    else if ty = "mi300a" then platAnswer (platOf .mi300a n) a
    else "bad"
  | _, _, _ => "bad"

def handlePlatX (cfg : List String) : String :=
  match kvNat? cfg "n", kvHex? cfg "S", kvHex? cfg "D", kvHex? cfg "isz", kvNat? cfg "k", kvHex? cfg "a" with
  | some n, some S, some D, some isz, some k, some a =>
    if S = 0 ∨ isz = 0 ∨ k = 0 then "bad" else
    platAnswer ⟨n, S, D, isz, k, isz, n * S + S⟩ a
  | _, _, _, _, _, _ => "bad"

/-! ## The runner's platform for a GPU list (`c18 runner`)

`amd/samples/runner`: the flags `-gpus=a,b,…` / `-unified-gpus=a,b,…` give `r.GPUIDs` in the order written;
`buildEmuPlatform` / `buildTimingPlatform` build `r.numGPUsToBuild()` GPUs (`Gen.C18Plat.runnerNumGPUs`, body
`runnerNumGPUsBody`): the LARGEST id of the list (repaired; before: `r.GPUIDs[len(r.GPUIDs)-1]`, the LAST id, kept
as `runnerBuiltOld`); `createUnifiedGPUs` passes the whole list to
`Driver.CreateUnifiedGPU`, whose `mustBeAllActualGPUs` indexes `d.devices` (host = 0, GPUs `1 … built`)
with every id; a plain benchmark later calls `Driver.SelectGPU` with every id. -/

/-- number of GPUs of the platform the runner builds for the list `ids` (the flag parser never gives an
    empty list) -/
def runnerBuilt (ids : List Nat) : Nat := ids.foldl (fun n id => if id > n then id else n) 0

/-- the same before the repair: the last id of the list -/
def runnerBuiltOld (ids : List Nat) : Nat := ids.getLast?.getD 0

/-- `CreateUnifiedGPU` panics: an id beyond the devices (index out of range) or the host (not a GPU) -/
def unifyFaults (built : Nat) (ids : List Nat) : Bool := ids.isEmpty || ids.any fun i => decide (i = 0 ∨ built < i)

/-- the listed GPUs a benchmark cannot select on that platform -/
def runnerMissing (ids : List Nat) : List Nat := ids.filter fun i => decide (runnerBuilt ids < i)

/-- … on the platform the runner built before the repair -/
def runnerMissingOld (ids : List Nat) : List Nat := ids.filter fun i => decide (runnerBuiltOld ids < i)

def handleRunner (cfg : List String) : String :=
  match kvNat? cfg "unified", (kv? cfg "gpus").bind (natList? ·) with
  | some u, some ids =>
    let b := runnerBuilt ids
    s!"built={b} fault={if u = 1 && unifyFaults b ids then "panic" else "-"}"
  | _, _ => "bad"

end C18
