import MgpuModel.Util
import MgpuModel.C20_Sys
import MgpuModel.C20_Parse
import MgpuModel.C20_Header
import MgpuModel.C20_Engine
/-! # C20 — line-protocol front end (`c20 run …`, `c20 eng …`, `c20 parse …`, `c20 inst …`, `c20 hdr …`, `c20 klist …`, `c20 bench …`) -/
namespace C20
open Util

/-! ## observables (same integers, same order as `harness/c20.go`) -/
def parVals {α : Type} (l : Level α) : List Nat :=
  [l.undisp.length, l.unfin, l.free.length] ++ l.free

def drvVals (s : Sys) : List Nat := parVals s.l0 ++ [s.l0.pIn.length, s.l0.pOut.length]

def gpuVals (s : Sys) (g : Nat) : List Nat :=
  let l := get s.l1 g
  [(get s.gpus g).fin] ++ parVals l ++ [(get s.l0.cIn g).length, get s.l0.cOut g, l.pIn.length, l.pOut.length]

def smVals (s : Sys) (m : Nat) : List Nat :=
  let l := get s.l2 m
  let lg := get s.l1 (m / s.S)
  let sm := get s.sms m
  [sm.fin, sm.warps] ++ parVals l ++ [(get lg.cIn (m % s.S)).length, get lg.cOut (m % s.S), l.pIn.length, l.pOut.length]

def subVals (s : Sys) (u : Nat) : List Nat :=
  let lm := get s.l2 (u / s.C)
  let sc := get s.subs u
  [sc.rem, sc.fin, sc.insts, (get lm.cIn (u % s.C)).length, get lm.cOut (u % s.C)]

def connVals {α : Type} (l : Level α) : List Nat :=
  [l.pIn.length, l.pOut.length] ++ ((List.range l.n).map fun k => [(get l.cIn k).length, get l.cOut k]).flatten

def digest (s : Sys) : Ev → List Nat
  | .drv => 1 :: drvVals s
  | .gpu g => 2 :: g :: gpuVals s g
  | .sm m => 3 :: m :: smVals s m
  | .sub u => 4 :: u :: subVals s u
  | .c0 => 5 :: connVals s.l0
  | .c1 g => 6 :: g :: connVals (get s.l1 g)
  | .c2 m => 7 :: m :: connVals (get s.l2 m)

def mix (h : Nat) (vs : List Nat) : Nat := vs.foldl (fun h v => (h * 1000003 + v + 1) % 4294967296) h

def nats (l : List Nat) : String := joinWith "," (l.map toString)

def finalState (s : Sys) : String :=
  joinWith " " (["D:" ++ nats (drvVals s)]
    ++ (List.range s.G).map (fun g => s!"G{g}:" ++ nats (gpuVals s g))
    ++ (List.range (s.G * s.S)).map (fun m => s!"S{m}:" ++ nats (smVals s m))
    ++ (List.range (s.G * s.S * s.C)).map (fun u => s!"U{u}:" ++ nats (subVals s u)))

/-! ## case-line parsing -/
def parseEv (t : String) : Option Ev :=
  let num := (t.drop 1).toString.toNat?
  match t.front, num with
  | 'D', _ => some .drv
  | 'x', _ => some .c0
  | 'G', some i => some (.gpu i)
  | 'S', some i => some (.sm i)
  | 'U', some i => some (.sub i)
  | 'y', some i => some (.c1 i)
  | 'z', some i => some (.c2 i)
  | _, _ => none

/-- `[(3,0,5)(2)][][()]` -/
def parseTrace (s : String) : List Kernel :=
  if s = "-" then [] else
  ((s.splitOn "[").drop 1).map fun ks =>
    let body := (ks.splitOn "]").headD ""
    ((body.splitOn "(").drop 1).map fun bs =>
      let ws := (bs.splitOn ")").headD ""
      if ws = "" then [] else (ws.splitOn ",").map (fun w => w.toNat?.getD 0)

structure Acc where
  s : Sys
  h : Nat := 0
  n : Nat := 0
  spurious : Nat := 0

def runCase (cfg : List String) (sched : List String) : String :=
  match kvNat? cfg "g", kvNat? cfg "s", kvNat? cfg "c", kv? cfg "k" with
  | some g, some sS, some c, some k =>
    let legacy := (kvNat? cfg "legacy").getD 0 != 0
    let s0 := init legacy g sS c (parseTrace k)
    let acc := sched.foldl (fun (a : Acc) t =>
      match parseEv t with
      | none => a
      | some e =>
        let s' := step a.s e
        -- a tick the model did not expect (Akita may double-schedule) must be a no-progress tick
        let sp := if !awakeOf a.s e && awakeOf s' e then a.spurious + 1 else a.spurious
        { s := s', h := mix a.h (digest s' e), n := a.n + 1, spurious := sp }) { s := s0 }
    s!"ev={acc.n} h={acc.h} asleep={if allAsleep acc.s then 1 else 0} missed={acc.spurious} " ++ finalState acc.s
  | _, _, _, _ => "bad"

def showI (i : Int) : String := toString i
def strs (l : List (List Char)) : String := joinWith "." (l.map String.ofList)

def canonInst (i : Inst) : String :=
  s!"I{showI i.destNum}/{showI i.srcNum}/{showI i.pc}:{showI i.mask}:{strs i.dst}:{strs i.src}:{match i.op with | none => "-" | some o => String.ofList o}:" ++
  s!"{showI i.width}:{showI i.compress}:{showI i.addr}:{showI i.suffix1}:{joinWith "." (i.suffix2.map showI)}:{showI i.imm}"

def canonFault : Fault → String
  | .bounds => "fault:bounds"
  | .panic => "fault:panic"

def canonTBs (ts : List TBT) : String :=
  String.join (ts.map fun t =>
    s!"T{showI t.id.1},{showI t.id.2.1},{showI t.id.2.2}" ++
    String.join (t.warps.map fun w => s!" W{showI w.id},{showI w.count}" ++ String.join (w.insts.map fun i => " " ++ canonInst i)) ++ " ;")

/-! ## header / kernelslist / benchmark case lines (`harness/c20_header.go`)

File lines are joined with `|`, sections end with `~`; inside a line `\\ \p \w \t \x<hex>;` stand for
backslash, `|`, `~`, tab and any other character outside printable ASCII. -/
structure UnescSt where
  out : List Char := []   -- reversed
  mode : Nat := 0         -- 0 plain, 1 after a backslash, 2 inside `\x…;`
  hex : Nat := 0

def unescStep (s : UnescSt) (c : Char) : UnescSt :=
  match s.mode with
  | 0 => if c = '\\' then { s with mode := 1 } else { s with out := c :: s.out }
  | 1 =>
    if c = 'x' then { s with mode := 2, hex := 0 }
    else
      let d := if c = 'p' then '|' else if c = 'w' then '~' else if c = 't' then '\t' else c
      { s with mode := 0, out := d :: s.out }
  | _ =>
    if c = ';' then { s with mode := 0, out := Char.ofNat s.hex :: s.out }
    else { s with hex := s.hex * 16 + digitVal c }

def unesc (l : List Char) : List Char := (l.foldl unescStep {}).out.reverse

def escChar (c : Char) : List Char :=
  if c = '\\' then ['\\', '\\'] else if c = '|' then ['\\', 'p'] else if c = '~' then ['\\', 'w']
  else if c = '\t' then ['\\', 't']
  else if c.toNat < 32 || 127 ≤ c.toNat then '\\' :: 'x' :: (showNat 16 c.toNat ++ [';'])
  else [c]

def esc (l : List Char) : String := String.ofList (l.flatMap escChar)

/-- the lines of one `~`-terminated section -/
def sectionLines (sec : List Char) : List (List Char) := (splitOnC '|' sec).map unesc

def canonDim (d : Int × Int × Int) : String := s!"{showI d.1},{showI d.2.1},{showI d.2.2}"

def canonHeader (h : KernelFileHeader) : String :=
  s!"name=[{esc h.kernelName}] id={showI h.kernelID} grid={canonDim h.gridDim} block={canonDim h.blockDim} " ++
  s!"shmem={showI h.shmem} nregs={showI h.nregs} bin={showI h.binaryVersion} stream={showI h.cudaStreamID} " ++
  s!"shbase={showI h.shmemBaseAddr} locbase={showI h.localMemBaseAddr} nvbit=[{esc h.nvbitVersion}] " ++
  s!"accel=[{esc h.accelsimTracerVersion}] li={if h.enableLineinfo then 1 else 0}"

def canonKernel (k : Kernel) : String :=
  "[" ++ String.join (k.map fun b => "(" ++ nats b ++ ")") ++ "]"

def canonExec : Exec → String
  | .kernel f => s!"K[{esc f}]"
  | .memcpy d a n => s!"M[{esc d}],{a},{n}"

def canonBenchExec : BenchExec → String
  | .kernel k => "K" ++ canonKernel k
  | .memcpy d a n => s!"M[{esc d}],{a},{n}"

def orNone (l : List String) : String := if l.isEmpty then "none" else joinWith " " l

/-- `name ~ lines ~ name ~ lines ~ …` as a lookup (first entry wins; no entry = no lines) -/
def filesOf : List (List Char) → List Char → List (List Char)
  | n :: ls :: r, f => if unesc n = f then sectionLines ls else filesOf r f
  | _, _ => []

def handleHeader (line : String) : Option String :=
  if line.startsWith "c20 hdr " then
    let secs := splitOnC '~' (line.toList.drop 8)
    some (match parseFile (sectionLines (secs.headD [])) with
      | .ok (h, ts) => s!"T[{canonTBs ts}] H " ++ canonHeader h
      | .error f => canonFault f)
  else if line.startsWith "c20 klist " then
    let secs := splitOnC '~' (line.toList.drop 10)
    some (match readKernelsList (sectionLines (secs.headD [])) with
      | .ok es => orNone (es.map canonExec)
      | .error f => canonFault f)
  else if line.startsWith "c20 bench " then
    let secs := (splitOnC '~' (line.toList.drop 10)).dropLast
    some (match buildBench (filesOf (secs.drop 1)) (sectionLines (secs.headD [])) with
      | .ok bs => orNone (bs.map canonBenchExec) ++ " run=" ++ String.join ((driverKernels bs).map canonKernel)
      | .error f => canonFault f)
  else none

def legacyAddrOf (line : String) : Bool := line.startsWith "c20 legacy"

/-- `G0+S1+y0` = handled event `+` the events scheduled while it was handled -/
def parseEStep (t : String) : Option EStep :=
  match (t.splitOn "+").mapM parseEv with
  | some (e :: new) => some (e, new)
  | _ => none

/-- `c20 eng <cfg> ; <initial queue> ; <steps>`: replay a recorded run of the real engine as a run of
    the abstract engine (`EngRun`) and judge it -/
def engCase (cfg : List String) (q0 : List String) (steps : List String) : String :=
  match kvNat? cfg "g", kvNat? cfg "s", kvNat? cfg "c", kv? cfg "k" with
  | some g, some sS, some c, some k =>
    let trace := parseTrace k
    let a := engReplay (init false g sS c trace) (q0.filterMap parseEv) (steps.filterMap parseEStep)
    let bad := match a.bad with
      | none => "-"
      | some (i, r) => s!"{i}{r}"
    s!"ev={a.n} valid={if a.bad.isNone then 1 else 0} firstbad={bad} spurious={a.spurious} missed={a.missed} " ++
    s!"qend={a.q.length} bound={engBound g sS c trace} finished={if finished a.s then 1 else 0} fl={a.fl}"
  | _, _, _, _ => "bad"

def handle (line : String) : String :=
  if line.startsWith "c20 eng" then
    match splitTrim line ";" with
    | [cfg, q0] => engCase (words cfg) (words q0) []
    | [cfg, q0, steps] => engCase (words cfg) (words q0) (words steps)
    | _ => "bad"
  else if line.startsWith "c20 run" then
    match splitTrim line ";" with
    | [cfg] => runCase (words cfg) []
    | [cfg, sched] => runCase (words cfg) (words sched)
    | _ => "bad"
  else if line.startsWith "c20 parse" then
    let body := (line.drop 10).toString
    match parseBody false true ((body.splitOn "|").map String.toList) with
    | .ok ts => canonTBs ts
    | .error f => canonFault f
  else if line.startsWith "c20 inst" then
    match extractInst false true (line.drop 9).toString.toList with
    | .ok i => canonInst i
    | .error f => canonFault f
  else match handleHeader line with
    | some r => r
    | none => "bad"

end C20
