import MgpuModel.Util
/-! # C09 — `dispatching.partitionAlgorithm`

Hand transcription (tie H) of `StartNewKernel`, `HasNext`, `Next`, `nextWG`, `noWGInPartition`,
`allWGDispatched` over a one-dimensional grid of `numWG` work-groups `0 … numWG−1` (property C08
covers the grid builder and `Skip`): partition `i` owns a grid builder that skipped `i·per`
work-groups (`pos[i]` = the index it yields next; it yields nothing from `numWG` on) and may hand out
`per = ⌈numWG / numCU⌉` of them; `Next` visits the partitions from `nextPartition` on, lets CU `i` try
the pending / next work-group of partition `i` — or, when partition `i` is used up, the pending
work-group of any other partition (work stealing) — and stops at the first CU that admits it.
Whether a CU admits is the environment's choice: `fails` lists the outcomes of the successive
`ReserveResourceForWG` calls (`true` = refused; all succeed once the list is used up). -/
namespace C09
open Util

structure Part where
  n : Nat                    -- number of CUs = partitions
  numWG : Nat
  per : Nat                  -- numWGPerPartition
  pos : List Nat             -- partitions[i].gridBuilder: next index
  cur : List (Option Nat)    -- currWGs
  disp : List Nat            -- partitions[i].dispatchedWG
  next : Nat                 -- nextPartition
  nd : Nat                   -- numDispatchedWG
deriving Repr, DecidableEq

/-- `StartNewKernel` (`numCU = 0` divides by zero in the Go code; the handler reports it) -/
def Part.start (numWG n : Nat) : Part :=
  let per := (numWG - 1) / n + 1
  { n := n, numWG := numWG, per := per, pos := (List.range n).map (· * per),
    cur := List.replicate n none, disp := List.replicate n 0, next := 0, nd := 0 }

/-- `nextWG(i)`: the work-group CU `i` should try and the partition it comes from -/
def Part.nextWG (s : Part) (i : Nat) : Part × Option (Nat × Nat) :=
  if s.disp.getD i 0 ≥ s.per then
    -- `noWGInPartition`: steal the first pending work-group of any partition
    match (List.range s.n).find? (fun j => (s.cur.getD j none).isSome) with
    | some j =>
      match s.cur.getD j none with
      | some w => (s, some (w, j))
      | none => (s, none)
    | none => (s, none)
  else
    match s.cur.getD i none with
    | some w => (s, some (w, i))
    | none =>
      -- `a.currWGs[i] = a.partitions[i].gridBuilder.NextWG()` (nil once the grid is exhausted)
      let p := s.pos.getD i 0
      if p < s.numWG then ({ s with pos := s.pos.set i (p + 1), cur := s.cur.set i (some p) }, some (p, i))
      else (s, none)

/-- the `for index := range a.partitions` loop of `Next` -/
def Part.nextGo : Nat → Nat → Part → List Bool → Part × List Bool × Option (Nat × Nat)
  | 0, _, s, fails => (s, fails, none)
  | k + 1, idx, s, fails =>
    let i := (idx + s.next) % s.n
    match s.nextWG i with
    | (s1, none) => Part.nextGo k (idx + 1) s1 fails
    | (s1, some (w, src)) =>
      if fails.headD false then Part.nextGo k (idx + 1) s1 fails.tail
      else ({ s1 with cur := s1.cur.set src none, disp := s1.disp.set src (s1.disp.getD src 0 + 1),
                      nd := s1.nd + 1, next := i + 1 }, fails.tail, some (i, w))

/-- `Next`: new state, remaining reservation outcomes, `(cu, work-group)` if one was placed -/
def Part.nextStep (s : Part) (fails : List Bool) : Part × List Bool × Option (Nat × Nat) :=
  if s.nd ≥ s.numWG then (s, fails, none) else Part.nextGo s.n 0 s fails

/-- `for a.HasNext() { a.Next() }` with a step bound: the results of the `Next` calls, oldest first, and
    whether work-groups were left when the bound was reached -/
def Part.run : Nat → Part → List Bool → List (Option (Nat × Nat)) → List (Option (Nat × Nat)) × Bool
  | 0, s, _, acc => (acc.reverse, decide (s.nd < s.numWG))
  | k + 1, s, fails, acc =>
    if s.nd < s.numWG then
      let r := s.nextStep fails
      Part.run k r.1 r.2.1 (r.2.2 :: acc)
    else (acc.reverse, false)

/-- `c09 part gx=<grid> wx=<group> ncu=<n> fails=<0/1 string or ->` -/
def handlePart (t : List String) : String :=
  match kvNat? t "gx", kvNat? t "wx", kvNat? t "ncu", kv? t "fails" with
  | some gx, some wx, some ncu, some fs =>
    if wx = 0 ∨ gx = 0 then "bad" else
    if ncu = 0 then "fault:div0" else
    let numWG := (gx - 1) / wx + 1
    let fails := if fs = "-" then [] else fs.toList.map (· == '1')
    let r := Part.run (4 * numWG + fails.length + 16) (Part.start numWG ncu) fails []
    let toks := r.1.map fun e => match e with | some (c, w) => s!"{c}:{w}" | none => "-"
    let toks := if r.2 then toks ++ ["stuck"] else toks
    s!"n={numWG} seq={joinWith ";" toks}"
  | _, _, _, _ => "bad"

end C09
