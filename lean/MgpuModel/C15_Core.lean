import MgpuModel.Util
/-! # C15 — reorder buffer (`amd/timing/rob`), tick-exact

Hand-written transcription (tie H) of `ReorderBuffer.Tick`:
`processControlMsg` (discard / restart / `panic("never")`), then — unless flushing —
`bottomUp`×n, `parseBottom`×n, `topDown`×n (while flushing: `dropUndeliveredMsgs`), over
* the transaction list (`transactions`) and the lookup table
  (`toBottomReqIDToTransactionTable`, here the list of its keys in insertion order; the
  element a key points to is the transaction with that bottom id),
* six bounded Akita port buffers (Top/Bottom/Control, incoming and outgoing): `Send` fails
  when the outgoing buffer is full, `Deliver` fails when the incoming buffer is full,
* ghost logs (`fwd`, `delivered`, `discarded`, `discardedBot`, `answered`, `dropped`) which
  no transition reads.

Message ids are fresh `Nat`s from two counters (`nextTop` for the requester's ids, `nextBot`
for the ids the ROB generates; the real code draws both from one global generator).
-/
namespace C15
open Util

/-- payload of a lower-level response: `DataReadyRsp.Data` or `WriteDoneRsp` -/
inductive Rsp where
  | data (bytes : List Nat)
  | done
deriving Repr, DecidableEq

/-- a request as the requester sent it (`mem.ReadReq` / `mem.WriteReq`) -/
structure Req where
  id : Nat
  write : Bool
  addr : Nat
  size : Nat            -- AccessByteSize (reads)
  data : List Nat       -- writes
  mask : List Bool      -- writes (DirtyMask)
  pid : Nat
  cwc : Bool            -- CanWaitForCoalesce
  src : Nat             -- requester port; 0 = empty name (malformed)
deriving Repr, DecidableEq

/-- a request as the ROB forwards it to the lower level -/
structure BReq where
  id : Nat
  write : Bool
  addr : Nat
  size : Nat
  data : List Nat
  mask : List Bool
  pid : Nat
  cwc : Bool
deriving Repr, DecidableEq

/-- `duplicateReadReq` / `duplicateWriteReq`: address, size, PID for reads; address, PID,
    data, dirty mask for writes; `CanWaitForCoalesce` and `Info` are *not* copied. -/
def dupReq (n : Nat) (r : Req) : BReq :=
  if r.write then
    { id := n, write := true, addr := r.addr, size := r.data.length, data := r.data,
      mask := r.mask, pid := r.pid, cwc := false }
  else
    { id := n, write := false, addr := r.addr, size := r.size, data := [],
      mask := [], pid := r.pid, cwc := false }

structure Tx where
  req : Req
  botId : Nat
  rsp : Option Rsp
deriving Repr, DecidableEq

/-- response pushed into the Top port: RspTo, Dst, payload -/
structure TRsp where
  rspTo : Nat
  dst : Nat
  payload : Rsp
deriving Repr, DecidableEq

structure Ctl where
  discard : Bool
  restart : Bool
deriving Repr, DecidableEq

inductive Fault where
  | never          -- panic("never"): control message with neither flag
  | dstNotGiven    -- Port.Send: "dst is not given" (empty requester / empty BottomUnit)
deriving Repr, DecidableEq

structure Cfg where
  cap : Nat          -- bufferSize
  width : Nat        -- numReqPerCycle
  topInCap : Nat
  topOutCap : Nat
  botInCap : Nat
  botOutCap : Nat
  ctlInCap : Nat
  ctlOutCap : Nat
  bottomUnit : Bool  -- BottomUnit set?
deriving Repr

structure St where
  txs : List Tx := []
  table : List Nat := []
  flushing : Bool := false
  fault : Option Fault := none
  nextBot : Nat := 0
  nextTop : Nat := 0
  topIn : List Req := []
  botIn : List (Nat × Rsp) := []
  ctlIn : List Ctl := []
  topOut : List TRsp := []
  botOut : List BReq := []
  ctlOut : Nat := 0
  -- ghost logs (never read by a transition)
  fwd : List (Req × BReq) := []          -- accepted requests with the duplicate sent down
  delivered : List TRsp := []            -- responses pushed into the Top port, in order
  discarded : List Nat := []             -- requester ids of transactions thrown away
  discardedBot : List Nat := []          -- their bottom ids
  answered : List (Nat × Rsp) := []      -- lower-level responses consumed (RspTo, payload)
  dropped : List Nat := []               -- requests dropped unaccepted from the Top port by restart
deriving Repr

/-- requester ids in acceptance order -/
def St.accepted (s : St) : List Nat := s.fwd.map (·.1.id)

/-- `bottomUp`: retire the head transaction if its response arrived and the Top port takes it -/
def bottomUp (c : Cfg) (s : St) : St × Bool :=
  if s.fault.isSome then (s, false) else
  match s.txs with
  | [] => (s, false)
  | t :: rest =>
    match t.rsp with
    | none => (s, false)
    | some p =>
      if t.req.src = 0 then ({ s with fault := some .dstNotGiven }, false)
      else if s.topOut.length < c.topOutCap then
        ({ s with txs := rest, table := s.table.erase t.botId,
                  topOut := s.topOut ++ [⟨t.req.id, t.req.src, p⟩],
                  delivered := s.delivered ++ [⟨t.req.id, t.req.src, p⟩] }, true)
      else (s, false)

/-- `trans.rspFromBottom = rsp` on the element the table points to -/
def setRsp (b : Nat) (p : Rsp) : List Tx → List Tx
  | [] => []
  | t :: ts => if t.botId = b then { t with rsp := some p } :: ts else t :: setRsp b p ts

/-- `parseBottom`: always consumes the head of the Bottom port; unknown ids are dropped -/
def parseBottom (s : St) : St × Bool :=
  if s.fault.isSome then (s, false) else
  match s.botIn with
  | [] => (s, false)
  | (b, p) :: rest =>
    if b ∈ s.table then
      ({ s with botIn := rest, txs := setRsp b p s.txs, answered := s.answered ++ [(b, p)] }, true)
    else ({ s with botIn := rest }, true)

/-- `topDown`: accept the head request of the Top port if there is room and the Bottom port
    takes the duplicate (the duplicate's id is consumed even when `Send` fails) -/
def topDown (c : Cfg) (s : St) : St × Bool :=
  if s.fault.isSome then (s, false) else
  match s.topIn with
  | [] => (s, false)
  | r :: rest =>
    if s.txs.length ≥ c.cap then (s, false)
    else if !c.bottomUnit then ({ s with nextBot := s.nextBot + 1, fault := some .dstNotGiven }, false)
    else if s.botOut.length ≥ c.botOutCap then ({ s with nextBot := s.nextBot + 1 }, false)
    else
      ({ s with topIn := rest, txs := s.txs ++ [⟨r, s.nextBot, none⟩],
                table := s.table ++ [s.nextBot], nextBot := s.nextBot + 1,
                botOut := s.botOut ++ [dupReq s.nextBot r],
                fwd := s.fwd ++ [(r, dupReq s.nextBot r)] }, true)

/-- run `f` `n` times, or-ing the progress flags -/
def iterP (f : St → St × Bool) : Nat → St × Bool → St × Bool
  | 0, sb => sb
  | n + 1, sb => iterP f n ((f sb.1).1, sb.2 || (f sb.1).2)

def runPipeline (c : Cfg) (s : St) : St × Bool :=
  iterP (topDown c) c.width (iterP parseBottom c.width (iterP (bottomUp c) c.width (s, false)))

/-- `processControlMsg` with `discardTransactions` / `restart` -/
def processCtl (c : Cfg) (s : St) : St × Bool :=
  match s.ctlIn with
  | [] => (s, false)
  | m :: rest =>
    if m.discard then
      if s.ctlOut ≥ c.ctlOutCap then (s, false)
      else
        ({ s with ctlOut := s.ctlOut + 1, flushing := true, table := [], txs := [], ctlIn := rest,
                  discarded := s.discarded ++ s.txs.map (·.req.id),
                  discardedBot := s.discardedBot ++ s.txs.map (·.botId) }, true)
    else if m.restart then
      if s.ctlOut ≥ c.ctlOutCap then (s, false)
      else
        ({ s with ctlOut := s.ctlOut + 1, flushing := false, table := [], txs := [], ctlIn := rest,
                  topIn := [], botIn := [],
                  discarded := s.discarded ++ s.txs.map (·.req.id),
                  discardedBot := s.discardedBot ++ s.txs.map (·.botId),
                  dropped := s.dropped ++ s.topIn.map (·.id) }, true)
    else ({ s with fault := some .never }, false)

/-- `dropUndeliveredMsgs`: while the ROB is flushing, whatever still waits in the outgoing buffers
    of the Bottom and Top ports (requests and responses of discarded transactions) is removed -/
def dropOut (s : St) : St × Bool :=
  ({ s with topOut := [], botOut := [] }, !s.botOut.isEmpty || !s.topOut.isEmpty)

/-- `ReorderBuffer.Tick` -/
def tick (c : Cfg) (s : St) : St × Bool :=
  if s.fault.isSome then (s, false) else
  let r := processCtl c s
  if r.1.fault.isSome then (r.1, false)
  else if r.1.flushing then
    let d := dropOut r.1
    (d.1, r.2 || d.2)
  else
    let q := runPipeline c r.1
    (q.1, r.2 || q.2)

/-- `ReorderBuffer.Tick` before repair 7c2f5a70: a flushing ROB left its outgoing buffers alone, so a
    request of a discarded transaction could still be delivered (and served) after the restart of
    the unit below -/
def tickOld (c : Cfg) (s : St) : St × Bool :=
  if s.fault.isSome then (s, false) else
  let r := processCtl c s
  if r.1.fault.isSome then (r.1, false)
  else if r.1.flushing then r
  else
    let q := runPipeline c r.1
    (q.1, r.2 || q.2)

/-- what the requester hands over: a request without its id -/
structure ReqIn where
  write : Bool
  addr : Nat
  size : Nat
  data : List Nat
  mask : List Bool
  pid : Nat
  cwc : Bool
  src : Nat
deriving Repr

def ReqIn.toReq (q : ReqIn) (id : Nat) : Req :=
  { id := id, write := q.write, addr := q.addr, size := q.size, data := q.data, mask := q.mask,
    pid := q.pid, cwc := q.cwc, src := q.src }

/-- The environment's moves. Everything the ROB cannot control is an op: which requests
    arrive and when, which lower-level responses arrive (any id, any order, duplicates, ids
    never issued), when outgoing buffers are drained (back-pressure = not draining), when
    flush / restart control messages arrive. -/
inductive Op where
  | tick
  | top (q : ReqIn)
  | bot (rspTo : Nat) (p : Rsp)
  | ctl (m : Ctl)
  | drainTop
  | drainBot
  | drainCtl
deriving Repr

def step (c : Cfg) (s : St) : Op → St
  | .tick => (tick c s).1
  | .top q =>
    if s.topIn.length < c.topInCap then
      { s with topIn := s.topIn ++ [q.toReq s.nextTop], nextTop := s.nextTop + 1 }
    else s
  | .bot b p => if s.botIn.length < c.botInCap then { s with botIn := s.botIn ++ [(b, p)] } else s
  | .ctl m => if s.ctlIn.length < c.ctlInCap then { s with ctlIn := s.ctlIn ++ [m] } else s
  | .drainTop => { s with topOut := s.topOut.drop 1 }
  | .drainBot => { s with botOut := s.botOut.drop 1 }
  | .drainCtl => { s with ctlOut := s.ctlOut - 1 }

def run (c : Cfg) (ops : List Op) : St := ops.foldl (step c) {}

/-! ## Line-protocol driver: scenario ops are translated to `Op`s and executed by `step` -/

structure Env where
  s : St := {}
  outstanding : List BReq := []  -- bottom requests drained and not yet answered
  drained : Nat := 0             -- bottom requests drained so far (k-th is written `#k`)
  out : Array String := #[]
  stopped : Bool := false

def showBits (m : List Bool) : String :=
  if m.isEmpty then "-" else String.ofList (m.map fun b => if b then '1' else '0')

def showData (d : List Nat) : String := if d.isEmpty then "-" else bytesHex d

def b01 (b : Bool) : String := if b then "1" else "0"

def showBReq (k : Nat) (b : BReq) : String :=
  if b.write then s!"w(#{k},a={b.addr},d={showData b.data},m={showBits b.mask},p={b.pid},c={b01 b.cwc})"
  else s!"r(#{k},a={b.addr},s={b.size},p={b.pid},c={b01 b.cwc})"

def showTRsp (t : TRsp) : String :=
  match t.payload with
  | .data d => s!"d({t.rspTo},{showData d})>{t.dst}"
  | .done => s!"w({t.rspTo})>{t.dst}"

def parseBits (s : String) : Option (List Bool) :=
  if s = "-" then some [] else
  s.toList.mapM fun ch => if ch = '1' then some true else if ch = '0' then some false else none

def parseData (s : String) : Option (List Nat) := if s = "-" then some [] else hexBytes? s

def parseRsp (s : String) : Option Rsp :=
  if s = "w" then some .done
  else if s.startsWith "d:" then (parseData ((s.drop 2).toString)).map .data
  else none

/-- `a<salt>`: the answer a memory would give (data of the requested size for a read,
    write-done for a write); otherwise an explicit payload -/
def payloadFor (b : BReq) (s : String) : Option Rsp :=
  if s.startsWith "a" then
    match ((s.drop 1).toString).toNat? with
    | some salt =>
      if b.write then some .done
      else some (.data ((List.range b.size).map fun i => (b.addr + 7 * i + salt) % 256))
    | none => none
  else parseRsp s

def faultName : Fault → String
  | .never => "never"
  | .dstNotGiven => "dst_not_given"

def Env.emit (e : Env) (o : String) : Env := { e with out := e.out.push o }

def drainBotN (c : Cfg) : Nat → Env → List String → Env × List String
  | 0, e, acc => (e, acc)
  | fuel + 1, e, acc =>
    match e.s.botOut with
    | [] => (e, acc)
    | b :: _ =>
      let e' := { e with s := step c e.s .drainBot, outstanding := e.outstanding ++ [b],
                         drained := e.drained + 1 }
      drainBotN c fuel e' (acc ++ [showBReq (e.drained + 1) b])

def drainTopN (c : Cfg) : Nat → Env → List String → Env × List String
  | 0, e, acc => (e, acc)
  | fuel + 1, e, acc =>
    match e.s.topOut with
    | [] => (e, acc)
    | r :: _ => drainTopN c fuel { e with s := step c e.s .drainTop } (acc ++ [showTRsp r])

def answerAll (c : Cfg) (pl : String) : Nat → Env → Nat → Env × Nat
  | 0, e, k => (e, k)
  | fuel + 1, e, k =>
    match e.outstanding with
    | [] => (e, k)
    | b :: rest =>
      match payloadFor b pl with
      | none => (e, k)
      | some p =>
        let s' := step c e.s (.bot b.id p)
        if s'.botIn.length > e.s.botIn.length then
          answerAll c pl fuel { e with s := s', outstanding := rest } (k + 1)
        else (e, k)

def envOp (c : Cfg) (e : Env) (t : List String) : Env :=
  if e.stopped then e else
  let deliver (e : Env) (op : Op) (before after : St → Nat) : Env :=
    let s' := step c e.s op
    ({ e with s := s' }).emit (if after s' > before e.s then "ok" else "full")
  match t with
  | ["t"] =>
    let r := tick c e.s
    let e := { e with s := r.1 }
    match r.1.fault with
    | some f => { (e.emit ("fault:" ++ faultName f)) with stopped := true }
    | none => e.emit s!"t{b01 r.2}:{r.1.txs.length},{r.1.table.length},{b01 r.1.flushing}"
  | ["R", src, pid, addr, size, cwc] =>
    match src.toNat?, pid.toNat?, addr.toNat?, size.toNat? with
    | some src, some pid, some addr, some size =>
      deliver e (.top { write := false, addr := addr, size := size, data := [], mask := [], pid := pid,
                        cwc := cwc = "1", src := src }) (·.topIn.length) (·.topIn.length)
    | _, _, _, _ => e.emit "bad"
  | ["W", src, pid, addr, data, mask, cwc] =>
    match src.toNat?, pid.toNat?, addr.toNat?, parseData data, parseBits mask with
    | some src, some pid, some addr, some data, some mask =>
      deliver e (.top { write := true, addr := addr, size := 0, data := data, mask := mask, pid := pid,
                        cwc := cwc = "1", src := src }) (·.topIn.length) (·.topIn.length)
    | _, _, _, _, _ => e.emit "bad"
  | ["db", k] =>
    let k := k.toNat?.getD 0
    let (e, strs) := drainBotN c k e []
    e.emit ("b[" ++ joinWith " " strs ++ "]")
  | ["dt", k] =>
    let k := k.toNat?.getD 0
    let (e, strs) := drainTopN c k e []
    e.emit ("T[" ++ joinWith " " strs ++ "]")
  | ["dc"] =>
    if e.s.ctlOut = 0 then e.emit "c[]"
    else ({ e with s := step c e.s .drainCtl }).emit "c[done]"
  | ["r", j, p] | ["rk", j, p] =>
    match j.toNat? with
    | some j =>
      if e.outstanding.isEmpty then e.emit "none" else
      let j := j % e.outstanding.length
      match e.outstanding[j]? with
      | none => e.emit "none"
      | some b =>
        match payloadFor b p with
        | none => e.emit "bad"
        | some p =>
          let s' := step c e.s (.bot b.id p)
          if s'.botIn.length > e.s.botIn.length then
            let keep := t.head? = some "rk"
            ({ e with s := s', outstanding := if keep then e.outstanding else e.outstanding.eraseIdx j }).emit "ok"
          else e.emit "full"
    | none => e.emit "bad"
  | ["ra", salt] =>
    let (e, k) := answerAll c ("a" ++ salt) e.outstanding.length e 0
    e.emit s!"ok{k}"
  | ["po"] => ({ e with outstanding := [] }).emit "ok"
  | ["rb", p] =>
    match parseRsp p with
    | some p => deliver e (.bot 1000000000 p) (·.botIn.length) (·.botIn.length)
    | none => e.emit "bad"
  | ["F"] => deliver e (.ctl ⟨true, false⟩) (·.ctlIn.length) (·.ctlIn.length)
  | ["S"] => deliver e (.ctl ⟨false, true⟩) (·.ctlIn.length) (·.ctlIn.length)
  | ["FS"] => deliver e (.ctl ⟨true, true⟩) (·.ctlIn.length) (·.ctlIn.length)
  | ["N"] => deliver e (.ctl ⟨false, false⟩) (·.ctlIn.length) (·.ctlIn.length)
  | _ => e.emit "bad"

/-- `Builder.createPorts`: Top and Bottom port buffers hold `2*numReqPerCycle` messages each way
    (order: Top in, Top out, Bottom in, Bottom out) -/
def defaultPorts (width : Nat) : Nat × Nat × Nat × Nat := (2 * width, 2 * width, 2 * width, 2 * width)

/-- `Builder.createPorts`: the Control port buffers hold one message each way -/
def defaultCtlPorts : Nat × Nat := (1, 1)

def parseCfg (t : List String) : Option Cfg := do
  let cap ← kvNat? t "cap"
  let width ← kvNat? t "width"
  let pb ← kv? t "pb"
  let (ti, to, bi, bo) ←
    if pb = "def" then some (defaultPorts width)
    else match natList? pb with
      | some [a, b, c, d] => some (a, b, c, d)
      | _ => none
  let cb := (kv? t "cb").getD "def"
  let (ci, co) ←
    if cb = "def" then some defaultCtlPorts
    else match natList? cb with
      | some [a, b] => some (a, b)
      | _ => none
  let bu := (kvNat? t "bottom").getD 1
  pure { cap := cap, width := width, topInCap := ti, topOutCap := to, botInCap := bi, botOutCap := bo,
         ctlInCap := ci, ctlOutCap := co, bottomUnit := bu ≠ 0 }

/-! ## Fields the ROB never reads (`c15 fields ; <req> ; <req'>`)

`mem.ReadReq` / `mem.WriteReq` also carry `Info` and the requester's `MsgMeta.TrafficBytes`;
`duplicateReadReq` / `duplicateWriteReq` build the forwarded message with the akita builders
from address, size / data, mask and PID only, so `Info` is nil, `CanWaitForCoalesce` is false
and `TrafficBytes` is recomputed (12 + number of data bytes). -/

structure ReqX where
  req : Req
  info : Nat          -- `Info`: 0 = nil
  trafficBytes : Nat  -- as set by the requester
deriving Repr

structure BReqX where
  b : BReq
  info : Nat
  trafficBytes : Nat
deriving Repr, DecidableEq

def dupReqX (n : Nat) (x : ReqX) : BReqX :=
  { b := dupReq n x.req, info := 0, trafficBytes := 12 + (dupReq n x.req).data.length }

def parseReqX (t : List String) : Option ReqX :=
  match t with
  | [k, src, pid, addr, size, data, mask, cwc, info, tb] =>
    match src.toNat?, pid.toNat?, addr.toNat?, size.toNat?, parseData data, parseBits mask,
          info.toNat?, tb.toNat? with
    | some src, some pid, some addr, some size, some data, some mask, some info, some tb =>
      if k = "R" then
        some ⟨{ id := 0, write := false, addr := addr, size := size, data := [], mask := [], pid := pid,
                cwc := cwc = "1", src := src }, info, tb⟩
      else if k = "W" then
        some ⟨{ id := 0, write := true, addr := addr, size := 0, data := data, mask := mask, pid := pid,
                cwc := cwc = "1", src := src }, info, tb⟩
      else none
    | _, _, _, _, _, _, _, _ => none
  | _ => none

/-- are two requests forwarded as the same message (up to the fresh id), and what is forwarded
    for the first one -/
def handleFields (segs : List String) : String :=
  match segs with
  | [a, b] =>
    match parseReqX (words a), parseReqX (words b) with
    | some x, some y =>
      let bx := dupReqX 1 x
      (if bx = dupReqX 1 y then "same " else "diff ") ++ showBReq 1 bx.b ++
        s!" i={bx.info} tb={bx.trafficBytes}"
    | _, _ => "bad"
  | _ => "bad"

/-- the ROB scenarios and the `fields` cases (the dispatcher `C15.handle` is in `MgpuModel/C15.lean`) -/
def handleRob (line : String) : String :=
  match splitTrim line ";" with
  | [] => "bad"
  | first :: ops =>
    if (words first).filter (· ≠ "c15") = ["fields"] then handleFields ops else
    match parseCfg (words first) with
    | none => "bad-cfg"
    | some c =>
      let e := ops.foldl (fun e o => envOp c e (words o)) ({} : Env)
      joinWith " " e.out.toList

end C15
