import MgpuModel.C07_Core
/-! # C07 — register writes that do not go through the operand methods

Hand-written transcription (tie H, re-checked by the per-run correspondence) of

* `cu.SimpleRegisterFile.Write` + `getRegOffset` as a stand-alone function (`SimpleRF.write`: the
  form the callers below use; `TimingRF.writeReg` of MgpuModel/C07_Core.lean contains the same code
  inlined after the accessor's dispatch — `MgpuProofs/C07Disp.lean` proves the two equal)
* `cu.WfDispatcherImpl.DispatchWf` = `setWfInfo` (copy of `SIMDID`, `SGPROffset`, `VGPROffset` from the
  `protocol.WfDispatchLocation`, `SetEXEC(InitExecMask)`) + `initRegisters` (the ABI registers, written
  with `SRegFile.Write` / `VRegFile[SIMDID].Write` directly)  (amd/timing/cu/wfdispatcher.go)
* `cu.ComputeUnit.wrapWG`'s `wavefront.NewWavefront` (a new record: offsets 0, special registers 0)
* `emu.NewWavefront` + `emu.ComputeUnit.initWfRegs` / `initWfs`  (amd/emu/computeunit.go)
* the destination register of `ScalarUnit.executeSMEMLoad` (`insts.SReg(RegIndex(data) + k)`) and the
  register write of `ComputeUnit.handleScalarDataLoadReturn` (`SRegFile.Write`, not the accessor)
  (amd/timing/cu/scalarunit.go, computeunit.go)

`LDSOffset` and the program counter are not registers of this property and are left out. -/
namespace C07
open Gen Util

/-- `ByteSizePerLane` of the scalar register file (cubuilder.go: `NewSimpleRegisterFile(…, 0)`) -/
def S_STRIDE : Nat := 0

namespace SimpleRF

/-- `SimpleRegisterFile.getRegOffset`; the `log.Panic` for a register that is neither `s` nor `v` -/
def regOffset (stride r offset lane : Nat) : Except Fault Nat :=
  if isSReg r then .ok (regIndex r * 4 + offset)
  else if isVReg r then .ok (regIndex r * 4 + lane * stride + offset)
  else .error .unsupported

/-- `SimpleRegisterFile.Write` -/
def write (file : File) (stride r rc lane offset : Nat) (data : List UInt8) : File × Option Fault :=
  match regOffset stride r offset lane with
  | .error f => (file, some f)
  | .ok off =>
    let rc' := if rc == 0 then 1 else rc
    let size := rc' * 4
    if off + size ≤ file.size then
      if data.length < size then (file, some .bounds)       -- `access.Data[0:RegCount*4]`
      else (wr file off (data.take size), none)
    else (file, some .bounds)

/-- a sequence of writes `(register, RegCount, lane, data)` at one wave offset; a panic stops it -/
def writeAll (file : File) (stride offset : Nat) : List (Nat × Nat × Nat × List UInt8) → File × Option Fault
  | [] => (file, none)
  | (r, rc, lane, data) :: rest =>
    match write file stride r rc lane offset data with
    | (f', none) => writeAll f' stride offset rest
    | (f', some e) => (f', some e)

end SimpleRF

/-! ## what a dispatch says -/

/-- everything `DispatchWf` / `initWfRegs` read from the wavefront: code-object properties, dispatch
    packet, work-group, first work-item, initial EXEC -/
structure DispInfo where
  flags : Nat          -- bit i = the i-th `EnableSgpr…` code property in ABI order (10 bits)
  rsrc2 : Nat          -- `ComputePgmRsrc2` (work-group id enables: bits 7..9, work-item id: bits 11..12)
  v5 : Bool            -- `Version == CodeObjectV5`
  packetAddr : Nat
  kernargAddr : Nat
  gx : Nat
  gy : Nat
  gz : Nat             -- `Packet.GridSize*` (uint32)
  wx : Nat
  wy : Nat
  wz : Nat             -- `Packet.WorkgroupSize*` (uint16)
  idx : Nat
  idy : Nat
  idz : Nat            -- `WG.IDX..IDZ`
  sx : Nat
  sy : Nat             -- `WG.SizeX`, `WG.SizeY`
  first : Nat          -- `FirstWiFlatID`
  exec : UInt64        -- `InitExecMask`
deriving Inhabited

def bit (n i : Nat) : Bool := n / 2 ^ i % 2 == 1

def U32 : Nat := 4294967296

/-- `uint32((uint64(pkt.GridSizeX) + uint64(pkt.WorkgroupSizeX) - 1) / uint64(pkt.WorkgroupSizeX))`: the
    ceiling division in 64 bits (before fix 60be3cc4 in `uint32`, where the sum wrapped) -/
def wgCount (g w : Nat) : Nat := (g % U32 + w % 65536 - 1) / (w % 65536) % U32

/-- the SGPR part of `initRegisters` / `initWfRegs`: `(SGPRPtr / 4, RegCount, value)` in code order -/
def sgprInits (d : DispInfo) : List (Nat × Nat × Nat) :=
  let f := d.flags
  let p1 := if bit f 0 then 16 else 0                                   -- private segment buffer
  let w1 := if bit f 1 then [(p1 / 4, 2, d.packetAddr % 2 ^ 64)] else []  -- dispatch ptr
  let p2 := if bit f 1 then p1 + 8 else p1
  let p3 := if bit f 2 then p2 + 8 else p2                              -- queue ptr (reserved)
  let w3 := if bit f 3 then [(p3 / 4, 2, d.kernargAddr % 2 ^ 64)] else [] -- kernarg segment ptr
  let p4 := if bit f 3 then p3 + 8 else p3
  let p5 := if bit f 4 then p4 + 8 else p4                              -- dispatch id
  let p6 := if bit f 5 then p5 + 8 else p5                              -- flat scratch init
  let p7 := if bit f 6 then p6 + 4 else p6                              -- private segment size
  let w7 := if bit f 7 then [(p7 / 4, 1, wgCount d.gx d.wx)] else []
  let p8 := if bit f 7 then p7 + 4 else p7
  let w8 := if bit f 8 then [(p8 / 4, 1, wgCount d.gy d.wy)] else []
  let p9 := if bit f 8 then p8 + 4 else p8
  let w9 := if bit f 9 then [(p9 / 4, 1, wgCount d.gz d.wz)] else []
  let p10 := if bit f 9 then p9 + 4 else p9
  let w10 := if bit d.rsrc2 7 then [(p10 / 4, 1, d.idx % U32)] else []
  let p11 := if bit d.rsrc2 7 then p10 + 4 else p10
  let w11 := if bit d.rsrc2 8 then [(p11 / 4, 1, d.idy % U32)] else []
  let p12 := if bit d.rsrc2 8 then p11 + 4 else p11
  let w12 := if bit d.rsrc2 9 then [(p12 / 4, 1, d.idz % U32)] else []    -- `// SGPRPtr += 4`
  w1 ++ w3 ++ w7 ++ w8 ++ w9 ++ w10 ++ w11 ++ w12

/-- `EnableVgprWorkItemID()` -/
def wiIdEnable (d : DispInfo) : Nat := d.rsrc2 / 2048 % 4

/-- the VGPR writes of one lane: `(v index, value)` in code order -/
def laneInits (d : DispInfo) (lane : Nat) : List (Nat × Nat) :=
  let i := d.first + lane
  let z := i / (d.sx * d.sy)
  let y := i % (d.sx * d.sy) / d.sx
  let x := i % (d.sx * d.sy) % d.sx
  if d.v5 then [(0, (x % U32) ||| ((y % U32) <<< 10) % U32 ||| ((z % U32) <<< 20) % U32)]
  else
    [(0, x % U32)] ++ (if wiIdEnable d > 0 then [(1, y % U32)] else []) ++
      (if wiIdEnable d > 1 then [(2, z % U32)] else [])

/-- all VGPR writes, lane 0 first: `(register, RegCount, lane, data)` -/
def vgprWrites (d : DispInfo) : List (Nat × Nat × Nat × List UInt8) :=
  (List.range 64).flatMap fun lane => (laneInits d lane).map fun x => (R_V0 + x.1, 1, lane, toLE 4 x.2)

def sgprWrites (d : DispInfo) : List (Nat × Nat × Nat × List UInt8) :=
  (sgprInits d).map fun x => (R_S0 + x.1, x.2.1, 0, toLE (4 * x.2.1) x.2.2)

/-! ## timing: `wrapWG`, `DispatchWf` -/

namespace TimingRF

/-- `wavefront.NewWavefront(raw)` in `wrapWG`: a new record, register counts from the code object -/
def newWf (t : TimingRF) (ns nv : Nat) : TimingRF :=
  { t with wfs := t.wfs.push { simd := 0, soff := 0, voff := 0, ns := ns, nv := nv } }

/-- `setWfInfo` -/
def setWfInfo (t : TimingRF) (wi simd soff voff : Nat) (d : DispInfo) : TimingRF :=
  let w := t.wfs.getD wi default
  t.setWf wi { w with simd := simd, soff := soff, voff := voff, exec := d.exec }

/-- `initRegisters`: scalar part through `cu.SRegFile.Write`, then the lane ids through
    `cu.VRegFile[wf.SIMDID].Write` (index panic when the SIMD does not exist) -/
def initRegisters (t : TimingRF) (wi : Nat) (d : DispInfo) : TimingRF × Option Fault :=
  let w := t.wfs.getD wi default
  let rs := SimpleRF.writeAll t.sfile S_STRIDE w.soff (sgprWrites d)
  let t1 := { t with sfile := rs.1 }
  match rs.2 with
  | some f => (t1, some f)
  | none =>
    if w.simd < t1.vfiles.size then
      let rv := SimpleRF.writeAll (t1.vfileOf w) LANE_STRIDE w.voff (vgprWrites d)
      ({ t1 with vfiles := t1.vfiles.setIfInBounds w.simd rv.1 }, rv.2)
    else (t1, some .bounds)

/-- `DispatchWf` -/
def dispatchWf (t : TimingRF) (wi simd soff voff : Nat) (d : DispInfo) : TimingRF × Option Fault :=
  (t.setWfInfo wi simd soff voff d).initRegisters wi d

/-! ## timing: scalar loads return through the register accessor (before the repair: through the
register file, at `insts.SReg(RegIndex() + k)`) -/

/-- `Regs[S0 + RegType(index)]` for an `int` index: `RegIndex()` of a register that is neither `s`
    nor `v` is −1, and `S0 − 1 = V255` -/
def sregAt (idx : Int) : Nat := (Int.ofNat R_S0 + idx).toNat

/-- `inst.Data.Register.RegIndex()` -/
def regIndexInt (r : Nat) : Int := if isSReg r || isVReg r then Int.ofNat (regIndex r) else -1

/-- `smemDstReg(data, k)`: the register that receives the dword `k` dwords into the loaded data:
    `insts.SReg(data.RegIndex() + k)` for an SGPR, `insts.Regs[data.RegType + RegType(k)]` for any
    other SDATA register (vcc_lo → vcc_hi, exec_lo → exec_hi) -/
def smemDst (dataReg k : Nat) : Nat :=
  if isSReg dataReg then sregAt (Int.ofNat (regIndex dataReg) + Int.ofNat k) else dataReg + k

/-- one response of an `s_load_dword*` (repaired): `executeSMEMLoad` recorded the destination
    `smemDstReg(inst.Data.Register, k)`, `k` = dwords before this cache-line piece;
    `handleScalarDataLoadReturn` writes `len(data)/4` registers there through the wavefront's
    register accessor (`wf.RegAccessor.WriteReg(dst, len/4, 0, wf.SRegOffset, data)`) — the path
    `WriteOperandBytes` takes. A destination outside the register list is a nil `*Reg` (panic). -/
def smemReturn (t : TimingRF) (wi dataReg k : Nat) (data : List UInt8) : TimingRF × Option Fault :=
  let w := t.wfs.getD wi default
  let dst := smemDst dataReg k
  if !knownReg dst then (t, some .noreg) else
  t.writeReg wi dst (data.length / 4) 0 w.soff data

/-- the return path BEFORE the repair: destination `insts.SReg(RegIndex(data) + k)`, written with
    `SRegFile.Write` at the wavefront's `SRegOffset` (not through the accessor): for SDATA = VCC / M0 /
    EXEC … `RegIndex()` is −1 and the destination is `Regs[S0 − 1] = v255` -/
def smemReturnOld (t : TimingRF) (wi dataReg k : Nat) (data : List UInt8) : TimingRF × Option Fault :=
  let w := t.wfs.getD wi default
  let dst := sregAt (regIndexInt dataReg + Int.ofNat k)
  if !knownReg dst then (t, some .noreg) else
  let r := SimpleRF.write t.sfile S_STRIDE dst (data.length / 4) 0 w.soff data
  ({ t with sfile := r.1 }, r.2)

end TimingRF

/-! ## emulation: `NewWavefront`, `initWfRegs`, `initWfs` -/

namespace EmuRF

/-- `emu.NewWavefront` -/
def fresh : EmuRF :=
  { sfile := Array.replicate (4 * 102) 0, vfile := Array.replicate (4 * 64 * 256) 0, vcc := 0, exec := 0, scc := 0, m0 := 0 }

/-- `binary.LittleEndian.PutUintNN(wf.SRegFile[p:p+n], v)` for the list of ABI registers -/
def putAll (file : File) : List (Nat × Nat × Nat) → File × Option Fault
  | [] => (file, none)
  | (idx, rc, v) :: rest =>
    if idx * 4 + 4 * rc ≤ file.size then putAll (wr file (idx * 4) (toLE (4 * rc) v)) rest
    else (file, some .bounds)

def writeAllV (e : EmuRF) : List (Nat × Nat × Nat × List UInt8) → EmuRF × Option Fault
  | [] => (e, none)
  | (r, rc, lane, data) :: rest =>
    match e.writeReg r rc lane data with
    | (e', none) => writeAllV e' rest
    | (e', some f) => (e', some f)

/-- `initWfRegs` -/
def initWfRegs (e : EmuRF) (d : DispInfo) : EmuRF × Option Fault :=
  let e0 := { e with exec := d.exec }
  let rs := putAll e0.sfile (sgprInits d)
  let e1 := { e0 with sfile := rs.1 }
  match rs.2 with
  | some f => (e1, some f)
  | none => e1.writeAllV (vgprWrites d)

end EmuRF

/-- the state of a wavefront the emulation compute unit creates for a dispatch: a function of the
    dispatch alone (`initWfs`: `NewWavefront(wf)` then `initWfRegs`) -/
def emuFresh (d : DispInfo) : EmuRF × Option Fault := EmuRF.fresh.initWfRegs d

/-- the emulation compute unit's `wfs` map: work-group key ↦ the stores of its wavefronts -/
abbrev EmuCU := List (Nat × List EmuRF)

/-- `initWfs` for a mapped work-group (nothing of the compute unit's state is read) -/
def EmuCU.mapWG (cu : EmuCU) (key : Nat) (ds : List DispInfo) : EmuCU :=
  cu ++ [(key, ds.map fun d => (emuFresh d).1)]

/-! ## line protocol for the new operations

Scenario ops (inside `c07 emu …` / `c07 tim …` scenarios, handled before `stepOp`):
`new <ns> <nv>` · `disp <w> <simd> <soff> <voff> <dispinfo>` · `init <dispinfo>` (emulator) ·
`smem <w> <dataReg> <k> <hex> …` · `retire <w>`; `<dispinfo>` = `flags rsrc2 v5 pa ka gx gy gz wx wy wz idx idy idz sx sy first exec`
(hex: flags rsrc2 pa ka exec). `c07 efresh ; <dispinfo> ; …` answers the digest of `emuFresh`. -/

def parseDisp (f : List String) : Option DispInfo :=
  match f with
  | [flags, rsrc2, v5, pa, ka, gx, gy, gz, wx, wy, wz, idx, idy, idz, sx, sy, first, exec] =>
    match hexNat? flags, hexNat? rsrc2, v5.toNat?, hexNat? pa, hexNat? ka,
          [gx, gy, gz, wx, wy, wz, idx, idy, idz, sx, sy, first].mapM String.toNat?, hexNat? exec with
    | some flags, some rsrc2, some v5, some pa, some ka, some [gx, gy, gz, wx, wy, wz, idx, idy, idz, sx, sy, first], some exec =>
      some { flags := flags, rsrc2 := rsrc2, v5 := v5 != 0, packetAddr := pa, kernargAddr := ka,
             gx := gx, gy := gy, gz := gz, wx := wx, wy := wy, wz := wz, idx := idx, idy := idy, idz := idz,
             sx := sx, sy := sy, first := first, exec := UInt64.ofNat exec }
    | _, _, _, _, _, _, _ => none
  | _ => none

def stepOp2 (s : St) (f : List String) : St × String :=
  match f with
  | ["new", ns, nv] =>
    match s, ns.toNat?, nv.toNat? with
    | .tim t, some ns, some nv => (.tim (t.newWf ns nv), "ok")
    | _, _, _ => (s, "bad")
  | "disp" :: w :: simd :: soff :: voff :: rest =>
    match s, w.toNat?, simd.toNat?, soff.toNat?, voff.toNat?, parseDisp rest with
    | .tim t, some w, some simd, some soff, some voff, some d =>
      if w < t.wfs.size then let (t', f) := t.dispatchWf w simd soff voff d; (.tim t', resStr f) else (s, "bad")
    | _, _, _, _, _, _ => (s, "bad")
  | "init" :: rest =>
    match s, parseDisp rest with
    | .emu e, some d => let (e', f) := e.initWfRegs d; (.emu e', resStr f)
    | _, _ => (s, "bad")
  | "smem" :: w :: reg :: k :: data :: _ =>      -- further tokens: the instruction's fields (harness only)
    match s, w.toNat?, reg.toNat?, k.toNat?, unhex? data with
    | .tim t, some w, some reg, some k, some data =>
      if w < t.wfs.size then let (t', f) := t.smemReturn w reg k data; (.tim t', resStr f) else (s, "bad")
    | _, _, _, _, _ => (s, "bad")
  | ["retire", w] => stepOp s ["rel", w]        -- `resetRegisterValue` of a wavefront that then leaves the CU
  | _ => stepOp s f

def runOps2 (s : St) (ops : List (List String)) (out : List String) : St × List String :=
  match ops with
  | [] => (s, out)
  | o :: rest => let (s', tok) := stepOp2 s o; runOps2 s' rest (tok :: out)

/-- `c07 efresh ; <dispinfo> ; <dispinfo> …`: the wavefronts `initWfs` creates for a work-group,
    whatever ran on the compute unit before: one whole-state digest per wavefront -/
def handleFresh (ops : List (List String)) : String :=
  match ops.mapM parseDisp with
  | none => "bad"
  | some ds =>
    let cu : EmuCU := EmuCU.mapWG [] 0 ds
    match cu.getLast? with
    | none => "bad"
    | some (_, es) =>
      if es.isEmpty then "-" else joinWith " " (es.map fun e => toHexPad 16 (St.emu e).digest.toNat)

end C07
