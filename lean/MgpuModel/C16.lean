import MgpuModel.Util
/-! # C16 — address translator, tick-exact

Hand-written model (tie H) of `amd/timing/mem/addresstranslator/addresstranslator.go`:
`middleware.Tick` (`runPipeline` = `respond`×w, `parseTranslation`×w, `translate`×w, or
`parseTranslation`×w while flushing, then `handleCtrlRequest`), with the Akita port buffers the
builder creates (top/bottom/translation: in and out capacity = `numReqPerCycle`, control: 1/1).

Message IDs are fresh `Nat`s, consumed only by a *successful* `Send` (the harness renumbers Go's
string IDs by first appearance on a port, so IDs burnt by failed sends are invisible on both sides).
A transaction is identified by its translation-request ID (Go: pointer identity).

Ghost fields (`received`, `forwarded`, `answered`, `asked`, `tdel`, `mdel`, `epoch`, `ev`) do not
influence behaviour; `ev` is the canonical trace compared with the real component. -/
namespace C16
open Util

/-- what must go through the translator unchanged -/
structure Payload where
  isWrite : Bool
  size : Nat
  data : List Nat
  mask : List Bool
  /-- `CanWaitForCoalesce` (set by the scalar unit on all but the last piece of a split load) -/
  cwc : Bool := false
deriving DecidableEq, Repr, Inhabited

/-- an access request at the top port (`mem.ReadReq` / `mem.WriteReq`) -/
structure Acc where
  id : Nat
  pid : Nat
  vaddr : Nat
  pl : Payload
deriving DecidableEq, Repr, Inhabited

/-- `vm.TranslationReq` -/
structure TReq where
  tid : Nat
  pid : Nat
  vpage : Nat
deriving DecidableEq, Repr, Inhabited

/-- `vm.TranslationRsp` (only `Page.PAddr` is used by the translator) -/
structure TRsp where
  rspTo : Nat
  paddr : Nat
deriving DecidableEq, Repr, Inhabited

/-- translated request sent through the bottom port -/
structure BReq where
  bid : Nat
  paddr : Nat
  pl : Payload
deriving DecidableEq, Repr, Inhabited

/-- response of the memory below: `some data` = `DataReadyRsp`, `none` = `WriteDoneRsp` -/
structure BRsp where
  rspTo : Nat
  data : Option (List Nat)
deriving DecidableEq, Repr, Inhabited

/-- response to the requester (RespondTo = the original request's ID) -/
structure URsp where
  rspTo : Nat
  data : Option (List Nat)
deriving DecidableEq, Repr, Inhabited

inductive Ctl
  | flush
  | restart
  | bad
deriving DecidableEq, Repr, Inhabited

/-- `transaction` -/
structure Tx where
  reqs : List Acc
  treq : TReq
  page : Option Nat
  done : Bool
deriving Repr, Inhabited

/-- `reqToBottom` -/
structure Fwd where
  top : Acc
  breq : BReq
deriving Repr, Inhabited

structure Cfg where
  width : Nat
  lg : Nat
deriving Repr

/-- ghost record of one forwarded access -/
structure FwdLog where
  top : Acc
  breq : BReq
  epoch : Nat
deriving Repr, DecidableEq

/-- ghost record of one answered access -/
structure AnsLog where
  top : Acc
  bid : Nat
  rsp : URsp
  epoch : Nat
deriving Repr, DecidableEq

structure St where
  txs : List Tx := []
  infl : List Fwd := []
  flushing : Bool := false
  topIn : List Acc := []
  topOut : List URsp := []
  botIn : List BRsp := []
  botOut : List BReq := []
  trIn : List TRsp := []
  trOut : List TReq := []
  ctlIn : List Ctl := []
  ctlOut : Nat := 0
  nextT : Nat := 0
  nextB : Nat := 0
  nextA : Nat := 0
  fault : Option String := none
  /-- ghost: number of flushes performed -/
  epoch : Nat := 0
  /-- ghost: accesses taken from the top port by `translate`, with the epoch -/
  received : List (Acc × Nat) := []
  /-- ghost: every successful bottom-port send -/
  forwarded : List FwdLog := []
  /-- ghost: every successful top-port send -/
  answered : List AnsLog := []
  /-- ghost: every translation request sent -/
  asked : List TReq := []
  /-- ghost: (id, epoch) of every translation request sent -/
  askedAt : List (Nat × Nat) := []
  /-- ghost: every translation reply delivered to the translation port -/
  tdel : List TRsp := []
  /-- ghost: every memory response delivered to the bottom port -/
  mdel : List BRsp := []
  /-- ghost: trace events, newest first -/
  ev : List String := []
  /-- ghost: number of successful control-port sends (acknowledgements) -/
  acks : Nat := 0
  /-- ghost: control commands taken from the control port, newest first -/
  taken : List Ctl := []
deriving Repr

/-- `addrToPageID` -/
def pageId (lg a : Nat) : Nat := (a >>> lg) <<< lg

def plSig (p : Payload) : String :=
  (if p.isWrite then
    "w" ++ bytesHex p.data ++ "/" ++
      (if p.mask.isEmpty then "-" else String.ofList (p.mask.map fun b => if b then '1' else '0'))
  else s!"r{p.size}") ++ (if p.cwc then "c" else "")

def dataSig : Option (List Nat) → String
  | some d => "d" ++ bytesHex d
  | none => "w"

/-- the scan of `translate`: append to the first not-yet-answered transaction for the same
    page and the same PID (PID of its first waiting request, as in the code) -/
def coalesce (lg : Nat) (a : Acc) : List Tx → Option (List Tx)
  | [] => none
  | t :: ts =>
    if t.done = false ∧ pageId lg t.treq.vpage = pageId lg a.vaddr
        ∧ t.reqs.head?.map (·.pid) = some a.pid then
      some ({ t with reqs := t.reqs ++ [a] } :: ts)
    else (coalesce lg a ts).map (t :: ·)

def translate (c : Cfg) (s : St) : St × Bool :=
  match s.topIn with
  | [] => (s, false)
  | a :: rest =>
    match coalesce c.lg a s.txs with
    | some txs' =>
      ({ s with txs := txs', topIn := rest, received := (a, s.epoch) :: s.received,
                ev := s!"A{a.id}" :: s.ev }, true)
    | none =>
      if s.trOut.length < c.width then
        let q : TReq := ⟨s.nextT, a.pid, pageId c.lg a.vaddr⟩
        ({ s with trOut := s.trOut ++ [q], txs := s.txs ++ [⟨[a], q, none, false⟩],
                  nextT := s.nextT + 1, topIn := rest,
                  received := (a, s.epoch) :: s.received, asked := q :: s.asked,
                  askedAt := (q.tid, s.epoch) :: s.askedAt,
                  ev := s!"A{a.id}" :: s!"Q{q.tid}:{q.pid}:{toHex q.vpage}" :: s.ev }, true)
      else (s, false)

/-- `createTranslatedReadReq` / `createTranslatedWriteReq` -/
def mkBReq (lg : Nat) (bid : Nat) (a : Acc) (paddr : Nat) : BReq :=
  ⟨bid, paddr + a.vaddr % (2 ^ lg), a.pl⟩

/-- Find the first transaction satisfying `p`, pop its first waiting request and drop the
    transaction when none is left (`incomingReqs = incomingReqs[1:]` + `removeExistingTranslation`).
    Returns the transaction as it was and the new list. Go identifies the transaction by pointer;
    here it is identified by position (first match), which is the same element. -/
def popFirst (p : Tx → Bool) : List Tx → Option (Tx × List Tx)
  | [] => none
  | t :: ts =>
    if p t then some (t, if t.reqs.tail = [] then ts else { t with reqs := t.reqs.tail } :: ts)
    else (popFirst p ts).map fun x => (x.1, t :: x.2)

/-- record the reply in the first transaction satisfying `p` and mark it done -/
def markFirst (p : Tx → Bool) (paddr : Nat) : List Tx → List Tx
  | [] => []
  | t :: ts =>
    if p t then { t with page := some paddr, done := true } :: ts else t :: markFirst p paddr ts

/-- drain condition of `parseTranslation`: `t.translationDone && len(t.incomingReqs) > 0` -/
def isDrainable (t : Tx) : Bool := t.done && !t.reqs.isEmpty

/-- `findTranslationByReqID` condition -/
def hasTid (tid : Nat) (t : Tx) : Bool := t.treq.tid == tid

/-- successful bottom-port send of the translated request for `a` -/
def emit (c : Cfg) (s : St) (a : Acc) (p : Nat) (txs' : List Tx) : St :=
  let b := mkBReq c.lg s.nextB a p
  { s with botOut := s.botOut ++ [b], nextB := s.nextB + 1,
           infl := s.infl ++ [⟨a, b⟩], txs := txs',
           forwarded := ⟨a, b, s.epoch⟩ :: s.forwarded,
           ev := s!"F{b.bid}:{a.id}:{toHex b.paddr}:{plSig b.pl}" :: s.ev }

def parseTranslation (c : Cfg) (s : St) : St × Bool :=
  match popFirst isDrainable s.txs with
  | some (t, txs') =>
    -- first, drain waiting requests of completed transactions
    match t.reqs, t.page with
    | a :: _, some p =>
      if s.botOut.length < c.width then (emit c s a p txs', true) else (s, false)
    | _, _ => (s, false)   -- unreachable: drainable gives reqs ≠ [], done ⇒ page set
  | none =>
    match s.trIn with
    | [] => (s, false)
    | r :: rest =>
      -- the reply is recorded and the transaction marked done BEFORE the send that may fail
      match popFirst (hasTid r.rspTo) (markFirst (hasTid r.rspTo) r.paddr s.txs) with
      | none => ({ s with trIn := rest, ev := s!"X{r.rspTo}" :: s.ev }, true)   -- unknown reply: dropped
      | some (t, txs') =>
        match t.reqs with
        | [] => ({ s with txs := markFirst (hasTid r.rspTo) r.paddr s.txs }, false)   -- Go: index out of range; unreachable
        | a :: _ =>
          if s.botOut.length < c.width then
            let s' := emit c s a r.paddr txs'
            ({ s' with trIn := rest, ev := s!"X{r.rspTo}" :: s'.ev }, true)
          else ({ s with txs := markFirst (hasTid r.rspTo) r.paddr s.txs }, false)

/-- first in-flight entry with this bottom id, and the list without it
    (`isReqInBottomByID` + `findReqToBottomByID` + `removeReqToBottomByID`) -/
def extract (bid : Nat) : List Fwd → Option (Fwd × List Fwd)
  | [] => none
  | f :: fs =>
    if f.breq.bid = bid then some (f, fs)
    else (extract bid fs).map fun (g, r) => (g, f :: r)

def respond (c : Cfg) (s : St) : St × Bool :=
  match s.botIn with
  | [] => (s, false)
  | r :: rest =>
    match extract r.rspTo s.infl with
    | none => ({ s with botIn := rest, ev := s!"Y{r.rspTo}" :: s.ev }, true)
    | some (f, infl') =>
      if s.topOut.length < c.width then
        let u : URsp := ⟨f.top.id, r.data⟩
        ({ s with topOut := s.topOut ++ [u], infl := infl', botIn := rest,
                  answered := ⟨f.top, f.breq.bid, u, s.epoch⟩ :: s.answered,
                  ev := s!"Y{r.rspTo}" :: s!"R{u.rspTo}:{dataSig u.data}" :: s.ev }, true)
      else (s, false)

def handleCtrl (s : St) : St × Bool :=
  match s.ctlIn with
  | [] => (s, false)
  | .flush :: rest =>
    if s.ctlOut < 1 then
      ({ s with ctlOut := s.ctlOut + 1, ctlIn := rest, txs := [], infl := [], flushing := true,
                epoch := s.epoch + 1, ev := "C" :: "K" :: s.ev,
                acks := s.acks + 1, taken := .flush :: s.taken }, true)
    else (s, false)
  | .restart :: rest =>
    if s.ctlOut < 1 then
      ({ s with ctlOut := s.ctlOut + 1, ctlIn := rest, topIn := [], botIn := [], trIn := [],
                flushing := false,
                ev := "C" :: ((s.trIn.map fun r => s!"X{r.rspTo}").reverse ++
                      (s.botIn.map fun r => s!"Y{r.rspTo}").reverse ++
                      (s.topIn.map fun a => s!"A{a.id}").reverse ++ "K" :: s.ev),
                acks := s.acks + 1, taken := .restart :: s.taken }, true)
    else (s, false)
  | .bad :: _ => ({ s with fault := some "never" }, false)

/-- `for i := 0; i < n; i++ { madeProgress = f() || madeProgress }` -/
def iter (f : St → St × Bool) : Nat → St → St × Bool
  | 0, s => (s, false)
  | n + 1, s =>
    let r1 := f s
    let r2 := iter f n r1.1
    (r2.1, r1.2 || r2.2)

def runPipeline (c : Cfg) (s : St) : St × Bool :=
  let a := iter (respond c) c.width s
  let b := iter (parseTranslation c) c.width a.1
  let d := iter (translate c) c.width b.1
  (d.1, a.2 || b.2 || d.2)

/-- `middleware.Tick` -/
def tick (c : Cfg) (s : St) : St × Bool :=
  let r1 := if s.flushing then iter (parseTranslation c) c.width s else runPipeline c s
  let r2 := handleCtrl r1.1
  (r2.1, r2.2 || r1.2)

/-- Environment moves and the tick. The environment is unconstrained: it may answer anything,
    in any order, with any content, and leave any buffer full for as long as it likes. -/
inductive Op
  | access (pid vaddr : Nat) (pl : Payload)   -- requester delivers an access (fresh id)
  | tick
  | trsp (r : TRsp)        -- translation service delivers a reply
  | brsp (r : BRsp)        -- memory delivers a response
  | drainTop
  | drainBot
  | drainTr
  | drainCtl
  | ctl (c : Ctl)
deriving Repr

def step (c : Cfg) (s : St) : Op → St
  | .access pid va pl =>
    if s.topIn.length < c.width then
      { s with topIn := s.topIn ++ [⟨s.nextA, pid, va, pl⟩], nextA := s.nextA + 1 }
    else { s with nextA := s.nextA + 1 }
  | .tick => (tick c s).1
  | .trsp r => if s.trIn.length < c.width then { s with trIn := s.trIn ++ [r], tdel := r :: s.tdel } else s
  | .brsp r => if s.botIn.length < c.width then { s with botIn := s.botIn ++ [r], mdel := r :: s.mdel } else s
  | .drainTop => { s with topOut := s.topOut.tail }
  | .drainBot => { s with botOut := s.botOut.tail }
  | .drainTr => { s with trOut := s.trOut.tail }
  | .drainCtl => { s with ctlOut := s.ctlOut - 1 }
  | .ctl k => if s.ctlIn.length < 1 then { s with ctlIn := s.ctlIn ++ [k] } else s

def run (c : Cfg) (ops : List Op) : St := ops.foldl (step c) {}

/-! ## The harness environment: fake translation service and memory

`World` adds what the harness keeps: translation and memory requests taken from the outgoing
buffers and not yet answered, and the ones already answered (for duplicate replies). -/

structure World where
  s : St := {}
  envT : List TReq := []
  envM : List BReq := []
  oldT : List TReq := []
  oldM : List BReq := []
deriving Repr

/-- the page table of the harness: PIDs share virtual pages and get different physical pages -/
def ptPAddr (lg salt pid vpage : Nat) : Nat := (salt + (vpage >>> lg) * 8 + pid) <<< lg

def memByte (a : Nat) : Nat := (a * 13 + 5) % 256

def memAnswer (b : BReq) : BRsp :=
  if b.pl.isWrite then ⟨b.bid, none⟩
  else ⟨b.bid, some ((List.range b.pl.size).map fun i => memByte (b.paddr + i))⟩

def removeNth {α} : Nat → List α → List α
  | _, [] => []
  | 0, _ :: xs => xs
  | n + 1, x :: xs => x :: removeNth n xs

inductive WOp
  | core (o : Op)
  | ansT (j : Nat)
  | ansM (j : Nat)
  | dupT (j : Nat)
  | dupM (j : Nat)
  /-- an untruthful translation service: the j-th outstanding lookup is answered with `paddr` -/
  | lieT (j : Nat) (paddr : Nat)
  | drainTop (k : Nat)
  | drainBot (k : Nat)
  | drainTr (k : Nat)
  | drainCtl (k : Nat)
deriving Repr

def drainTrN (c : Cfg) : Nat → World → World
  | 0, w => w
  | k + 1, w =>
    match w.s.trOut with
    | [] => w
    | q :: _ => drainTrN c k { w with s := step c w.s .drainTr, envT := w.envT ++ [q] }

def drainBotN (c : Cfg) : Nat → World → World
  | 0, w => w
  | k + 1, w =>
    match w.s.botOut with
    | [] => w
    | b :: _ => drainBotN c k { w with s := step c w.s .drainBot, envM := w.envM ++ [b] }

def drainTopN (c : Cfg) : Nat → World → World
  | 0, w => w
  | k + 1, w =>
    match w.s.topOut with
    | [] => w
    | _ :: _ => drainTopN c k { w with s := step c w.s .drainTop }

/-- one harness op; returns the new world and the op's own output token -/
def wstep (c : Cfg) (salt : Nat) (w : World) : WOp → World × String
  | .core (.access pid va pl) =>
    let ok := w.s.topIn.length < c.width
    ({ w with s := step c w.s (.access pid va pl) }, if ok then "a+" else "a-")
  | .core .tick =>
    let r := tick c w.s
    match r.1.fault with
    | some f => ({ w with s := r.1 }, "fault:" ++ f)
    | none => ({ w with s := r.1 }, if r.2 then "t1" else "t0")
  | .core (.ctl k) =>
    let ok := w.s.ctlIn.length < 1
    ({ w with s := step c w.s (.ctl k) }, if ok then "c+" else "c-")
  | .core o => ({ w with s := step c w.s o }, "-")
  | .ansT j =>
    match w.envT with
    | [] => (w, "none")
    | q0 :: _ =>
      let i := j % w.envT.length
      let q := w.envT.getD i q0
      if w.s.trIn.length < c.width then
        ({ w with s := step c w.s (.trsp ⟨q.tid, ptPAddr c.lg salt q.pid q.vpage⟩),
                  envT := removeNth i w.envT, oldT := w.oldT ++ [q] }, s!"ok{q.tid}")
      else (w, "full")
  | .ansM j =>
    match w.envM with
    | [] => (w, "none")
    | b0 :: _ =>
      let i := j % w.envM.length
      let b := w.envM.getD i b0
      if w.s.botIn.length < c.width then
        ({ w with s := step c w.s (.brsp (memAnswer b)),
                  envM := removeNth i w.envM, oldM := w.oldM ++ [b] }, s!"ok{b.bid}")
      else (w, "full")
  | .lieT j pa =>
    match w.envT with
    | [] => (w, "none")
    | q0 :: _ =>
      let i := j % w.envT.length
      let q := w.envT.getD i q0
      if w.s.trIn.length < c.width then
        ({ w with s := step c w.s (.trsp ⟨q.tid, pa⟩),
                  envT := removeNth i w.envT, oldT := w.oldT ++ [q] }, s!"ok{q.tid}")
      else (w, "full")
  | .dupT j =>
    match w.oldT with
    | [] => (w, "none")
    | q0 :: _ =>
      let q := w.oldT.getD (j % w.oldT.length) q0
      if w.s.trIn.length < c.width then
        ({ w with s := step c w.s (.trsp ⟨q.tid, ptPAddr c.lg salt q.pid q.vpage⟩) }, s!"ok{q.tid}")
      else (w, "full")
  | .dupM j =>
    match w.oldM with
    | [] => (w, "none")
    | b0 :: _ =>
      let b := w.oldM.getD (j % w.oldM.length) b0
      if w.s.botIn.length < c.width then
        ({ w with s := step c w.s (.brsp (memAnswer b)) }, s!"ok{b.bid}")
      else (w, "full")
  | .drainTop k =>
    let w' := drainTopN c k w
    (w', s!"d{w.s.topOut.length - w'.s.topOut.length}")
  | .drainBot k =>
    let w' := drainBotN c k w
    (w', s!"d{w.s.botOut.length - w'.s.botOut.length}")
  | .drainTr k =>
    let w' := drainTrN c k w
    (w', s!"d{w.s.trOut.length - w'.s.trOut.length}")
  | .drainCtl k =>
    let n := min k w.s.ctlOut
    ({ w with s := { w.s with ctlOut := w.s.ctlOut - n } }, s!"d{n}")

/-! ## The closed world: translator + honest translation service + honest memory + Akita wake rule

Besides the `wake=1` scenarios of the line protocol (which run `hstep` with `harnessEnv`), it is the environment model the run-level theorems
(`at_every_access_answered`, `no_lost_wakeup`, `at_flush_world`) quantify over. Every move is a
composition of the *same* `step`/`tick` functions the driver runs (`hstep_core`), so all safety
theorems about `run c ops` apply to every reachable world.

* the translation service holds the lookups it took from the translation port (`envT`), answers
  each of them once, in any order, after any delay, with `pt pid vpage` (an arbitrary page-table
  function); the memory likewise (`envM`, `md`);
* every port buffer is bounded (`step` refuses a delivery into a full buffer; sends fail on full);
* the controller sends `flush` at will and `restart` only while the translator is flushing
  (the conforming handshake: restart follows the flush acknowledgement);
* `awake` is Akita's `TickScheduler` state (a tick event is scheduled): the engine ticks the
  component only while it is awake, `Handle` keeps it awake iff `Tick` returned `true`,
  `Deliver` into an *empty* incoming buffer wakes it (`NotifyRecv`), `RetrieveOutgoing` from a
  *full* outgoing buffer wakes it (`NotifyPortFree`).
* ghost `staleT`/`staleM`: the lookups sent / requests forwarded before the last flush. -/

/-- the honest environment's contents: a page table and a memory -/
structure Env where
  /-- `(pid, vpage) ↦ Page.PAddr` -/
  pt : Nat → Nat → Nat
  /-- data returned for a forwarded request (`none` = write done) -/
  md : BReq → Option (List Nat)

structure CW where
  s : St := {}
  /-- lookups taken by the translation service and not yet answered -/
  envT : List TReq := []
  /-- requests taken by the memory and not yet answered -/
  envM : List BReq := []
  /-- a tick event is scheduled -/
  awake : Bool := false
  /-- ghost: lookups sent before the last flush -/
  staleT : List TReq := []
  /-- ghost: requests forwarded before the last flush -/
  staleM : List FwdLog := []
  /-- ghost: control commands the controller delivered successfully, newest first -/
  sentCtl : List Ctl := []
  /-- ghost: acknowledgements the controller took from the control port -/
  ackSeen : Nat := 0

inductive HOp
  | access (pid vaddr : Nat) (pl : Payload)
  | tick
  | ansT (j : Nat)
  | ansM (j : Nat)
  | drainTop
  | drainBot
  | drainTr
  | drainCtl
  | flush
  | restart
deriving Repr

/-- moves of the component and of its honest neighbours (as opposed to new input: an access, a
    flush, a restart) -/
def HOp.internal : HOp → Bool
  | .access .. => false
  | .flush => false
  | .restart => false
  | _ => true

def hstep (c : Cfg) (e : Env) (w : CW) : HOp → CW
  | .access pid va pl =>
    { w with s := step c w.s (.access pid va pl),
             awake := w.awake || (w.s.topIn.isEmpty && decide (0 < c.width)) }
  | .tick =>
    if w.awake then
      let r := tick c w.s
      let fl := decide (r.1.epoch ≠ w.s.epoch)
      { w with s := r.1, awake := r.2,
               staleT := if fl then r.1.asked else w.staleT,
               staleM := if fl then r.1.forwarded else w.staleM }
    else w
  | .ansT j =>
    match w.envT with
    | [] => w
    | q0 :: _ =>
      let i := j % w.envT.length
      let q := w.envT.getD i q0
      if w.s.trIn.length < c.width then
        { w with s := step c w.s (.trsp ⟨q.tid, e.pt q.pid q.vpage⟩),
                 envT := removeNth i w.envT, awake := w.awake || w.s.trIn.isEmpty }
      else w
  | .ansM j =>
    match w.envM with
    | [] => w
    | b0 :: _ =>
      let i := j % w.envM.length
      let b := w.envM.getD i b0
      if w.s.botIn.length < c.width then
        { w with s := step c w.s (.brsp ⟨b.bid, e.md b⟩),
                 envM := removeNth i w.envM, awake := w.awake || w.s.botIn.isEmpty }
      else w
  | .drainTop =>
    match w.s.topOut with
    | [] => w
    | _ :: _ => { w with s := step c w.s .drainTop,
                         awake := w.awake || decide (w.s.topOut.length = c.width) }
  | .drainBot =>
    match w.s.botOut with
    | [] => w
    | b :: _ => { w with s := step c w.s .drainBot, envM := w.envM ++ [b],
                         awake := w.awake || decide (w.s.botOut.length = c.width) }
  | .drainTr =>
    match w.s.trOut with
    | [] => w
    | q :: _ => { w with s := step c w.s .drainTr, envT := w.envT ++ [q],
                         awake := w.awake || decide (w.s.trOut.length = c.width) }
  | .drainCtl =>
    if 0 < w.s.ctlOut then
      { w with s := step c w.s .drainCtl, awake := w.awake || decide (w.s.ctlOut = 1),
               ackSeen := w.ackSeen + 1 }
    else w
  | .flush =>
    { w with s := step c w.s (.ctl .flush), awake := w.awake || w.s.ctlIn.isEmpty,
             sentCtl := if w.s.ctlIn.length < 1 then .flush :: w.sentCtl else w.sentCtl }
  | .restart =>
    if w.s.flushing then
      { w with s := step c w.s (.ctl .restart), awake := w.awake || w.s.ctlIn.isEmpty,
               sentCtl := if w.s.ctlIn.length < 1 then .restart :: w.sentCtl else w.sentCtl }
    else w

def hrun (c : Cfg) (e : Env) (w : CW) (os : List HOp) : CW := os.foldl (hstep c e) w

/-- reachable worlds -/
inductive Reach (c : Cfg) (e : Env) : CW → Prop
  | init : Reach c e {}
  | step (w : CW) (o : HOp) : Reach c e w → Reach c e (hstep c e w o)

/-- the harness's fake MMU and memory as an `Env` -/
def harnessEnv (lg salt : Nat) : Env := ⟨ptPAddr lg salt, fun b => (memAnswer b).data⟩


/-! ## Line protocol -/

def parseMask (s : String) : Option (List Bool) :=
  if s = "-" then some [] else
  s.toList.mapM fun ch => if ch = '1' then some true else if ch = '0' then some false else none

def parseOp (t : List String) : Option (List WOp) :=
  match t with
  | ["a", pid, va, "r", sz] => do
      let p ← pid.toNat?; let v ← hexNat? va; let n ← sz.toNat?
      pure [.core (.access p v ⟨false, n, [], [], false⟩)]
  | ["a", pid, va, "w", d, m] => do
      let p ← pid.toNat?; let v ← hexNat? va; let bs ← hexBytes? d; let mk ← parseMask m
      pure [.core (.access p v ⟨true, bs.length, bs, mk, false⟩)]
  | ["a", pid, va, "r", sz, "c"] => do
      let p ← pid.toNat?; let v ← hexNat? va; let n ← sz.toNat?
      pure [.core (.access p v ⟨false, n, [], [], true⟩)]
  | ["a", pid, va, "w", d, m, "c"] => do
      let p ← pid.toNat?; let v ← hexNat? va; let bs ← hexBytes? d; let mk ← parseMask m
      pure [.core (.access p v ⟨true, bs.length, bs, mk, true⟩)]
  | ["xl", j, pa] => do
      let j ← j.toNat?; let p ← hexNat? pa
      pure [.lieT j p]
  | ["t"] => some [.core .tick]
  | ["xt", j] => j.toNat?.map fun j => [.ansT j]
  | ["xm", j] => j.toNat?.map fun j => [.ansM j]
  | ["yt", j] => j.toNat?.map fun j => [.dupT j]
  | ["ym", j] => j.toNat?.map fun j => [.dupM j]
  | ["du", k] => k.toNat?.map fun k => [.drainTop k]
  | ["db", k] => k.toNat?.map fun k => [.drainBot k]
  | ["dx", k] => k.toNat?.map fun k => [.drainTr k]
  | ["dc", k] => k.toNat?.map fun k => [.drainCtl k]
  | ["d", k] => k.toNat?.map fun k => [.drainTop k, .drainBot k, .drainTr k, .drainCtl k]
  | ["f"] => some [.core (.ctl .flush)]
  | ["s"] => some [.core (.ctl .restart)]
  | ["z"] => some [.core (.ctl .bad)]
  | _ => none

def stateSig (s : St) : String :=
  let txs := s.txs.map fun t => s!"{t.treq.tid}:{if t.done then 1 else 0}:{t.reqs.length}"
  let infl := s.infl.map fun f => s!"{f.breq.bid}"
  "{" ++ (if s.flushing then "f1" else "f0") ++ ";" ++ joinWith "," txs ++ ";" ++ joinWith "," infl ++ "}"

/-- run the ops of one scenario; output tokens newest first -/
def endTok (w : World) : String :=
  s!"E r={w.s.received.length};f={w.s.forwarded.length};a={w.s.answered.length}"

def runOps (c : Cfg) (salt : Nat) : List (List WOp) → World → List String → List String
  | [], w, out => endTok w :: out
  | grp :: rest, w, out =>
    if w.s.fault.isSome then endTok w :: out else
    let n0 := w.s.ev.length
    let (w', toks) := grp.foldl (fun (acc : World × List String) o =>
        let r := wstep c salt acc.1 o
        (r.1, r.2 :: acc.2)) (w, [])
    let evs := (w'.s.ev.take (w'.s.ev.length - n0)).reverse
    let isTick := match grp with
      | [.core .tick] => true
      | _ => false
    let tok := joinWith "/" toks.reverse ++
      (if isTick then "[" ++ joinWith "," evs ++ "]" ++ stateSig w'.s else "")
    runOps c salt rest w' (tok :: out)

/-! ### `wake=1` scenarios: the closed world under Akita's wake rule

Only honest moves (no duplicate replies, no command-less control message); the component is ticked
only while a tick event is scheduled. Each op prints its own token and the scheduler state after it
(`^` awake, `_` asleep); a `t` while asleep prints `ts` (no tick event to run). -/

def parseHOp (t : List String) : Option (List HOp) :=
  match t with
  | ["a", pid, va, "r", sz] => do
      let p ← pid.toNat?; let v ← hexNat? va; let n ← sz.toNat?
      pure [.access p v ⟨false, n, [], [], false⟩]
  | ["a", pid, va, "w", d, m] => do
      let p ← pid.toNat?; let v ← hexNat? va; let bs ← hexBytes? d; let mk ← parseMask m
      pure [.access p v ⟨true, bs.length, bs, mk, false⟩]
  | ["a", pid, va, "r", sz, "c"] => do
      let p ← pid.toNat?; let v ← hexNat? va; let n ← sz.toNat?
      pure [.access p v ⟨false, n, [], [], true⟩]
  | ["a", pid, va, "w", d, m, "c"] => do
      let p ← pid.toNat?; let v ← hexNat? va; let bs ← hexBytes? d; let mk ← parseMask m
      pure [.access p v ⟨true, bs.length, bs, mk, true⟩]
  | ["t"] => some [.tick]
  | ["xt", j] => j.toNat?.map fun j => [.ansT j]
  | ["xm", j] => j.toNat?.map fun j => [.ansM j]
  | ["du", k] => k.toNat?.map fun k => List.replicate k .drainTop
  | ["db", k] => k.toNat?.map fun k => List.replicate k .drainBot
  | ["dx", k] => k.toNat?.map fun k => List.replicate k .drainTr
  | ["dc", k] => k.toNat?.map fun k => List.replicate k .drainCtl
  | ["f"] => some [.flush]
  | ["s"] => some [.restart]
  | _ => none

/-- the token one honest move prints -/
def hopTok (c : Cfg) (w w' : CW) : HOp → String
  | .access .. => if w.s.topIn.length < c.width then "a+" else "a-"
  | .tick => if w.awake then (if (tick c w.s).2 then "t1" else "t0") ++ stateSig w'.s else "ts"
  | .ansT _ => if w.envT.isEmpty then "none" else if w.s.trIn.length < c.width then "ok" else "full"
  | .ansM _ => if w.envM.isEmpty then "none" else if w.s.botIn.length < c.width then "ok" else "full"
  | .drainTop => s!"{w.s.topOut.length - w'.s.topOut.length}"
  | .drainBot => s!"{w.s.botOut.length - w'.s.botOut.length}"
  | .drainTr => s!"{w.s.trOut.length - w'.s.trOut.length}"
  | .drainCtl => s!"{w.s.ctlOut - w'.s.ctlOut}"
  | .flush => if w.s.ctlIn.length < 1 then "c+" else "c-"
  | .restart => if w.s.flushing then (if w.s.ctlIn.length < 1 then "c+" else "c-") else "c!"

def runHOps (c : Cfg) (e : Env) : List (List HOp) → CW → List String → List String
  | [], w, out => s!"E r={w.s.received.length};f={w.s.forwarded.length};a={w.s.answered.length}" :: out
  | grp :: rest, w, out =>
    let (w', toks) := grp.foldl (fun (acc : CW × List String) o =>
        let w1 := hstep c e acc.1 o
        (w1, hopTok c acc.1 w1 o :: acc.2)) (w, [])
    let tok := joinWith "/" toks.reverse ++ (if w'.awake then "^" else "_")
    runHOps c e rest w' (tok :: out)

def handle (line : String) : String :=
  match splitTrim line ";" with
  | [] => "bad"
  | first :: rest =>
    let t := words first
    match t with
    | "c16" :: cfg =>
      match kvNat? cfg "w", kvNat? cfg "lg", kvNat? cfg "salt" with
      | some w, some lg, some salt =>
        if (kvNat? cfg "wake").isSome then
          match rest.mapM fun o => parseHOp (words o) with
          | some ops => joinWith " " (runHOps ⟨w, lg⟩ (harnessEnv lg salt) ops {} []).reverse
          | none => "bad"
        else
        match rest.mapM fun o => parseOp (words o) with
        | some ops => joinWith " " (runOps ⟨w, lg⟩ salt ops {} []).reverse
        | none => "bad"
      | _, _, _ => "bad"
    | _ => "bad"

end C16
