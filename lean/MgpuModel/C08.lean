import MgpuModel.C08_Base
import MgpuModel.C08_Regs
import MgpuModel.C08_Res
import MgpuModel.C08_Obj
/-! # C08 — line protocol of the grid-partitioning model

The definitions live in `C08_Base.lean` (grid builder, lanes, driver split, partition algorithm,
fixed-width arithmetic), `C08_Regs.lean` (initial SGPR image against the ABI layout, work-group
count registers, HIP hidden kernel arguments, dispatch packet layout, signed 64-bit split),
`C08_Res.lean` (partition algorithm against CU capacities with `FreeResources`) and
`C08_Obj.lean` (object identity of work-groups / wavefronts). -/
namespace C08
open Util

def handleBase (line : String) : String :=
  let t := words line
  match t with
  | "c08" :: "dist" :: _ =>
    match geoOf t, cusOf t with
    | some g, some cus =>
      match split g cus 0 with
      | .error e => "fault:" ++ e
      | .ok s => "d=" ++ distStr s.dist
    | _, _ => "bad"
  | "c08" :: "enum" :: _ =>
    match geoOf t, cusOf t, kvNat? t "gpu", kvNat? t "skip" with
    | some g, some cus, some gpu, some sk =>
      let go (dstr : String) (p : Option (Coord → Bool)) : String :=
        let pf := p.getD fun _ => true
        let n := countWG g p
        let c := skip g pf sk ⟨0, 0, 0⟩
        let r := enumFrom g pf (g.total + 1) c
        let again := (nextWGf g pf (g.total + 1) r.2).isSome
        let l := r.1.map wgStr ++ (if again then ["resurrected"] else [])
        s!"d={dstr} n={n} wgs={joinWith ";" l}"
      if cus.isEmpty then go "-" none else
      match split g cus gpu with
      | .error e => "fault:" ++ e
      | .ok ⟨d, none⟩ => s!"d={distStr d} nolaunch"
      | .ok ⟨d, some p⟩ => go (distStr d) (some p)
    | _, _, _, _ => "bad"
  | "c08" :: "wg" :: _ =>
    match (kv? t "w").bind parse3, (kv? t "c").bind parse3, (kv? t "id").bind parse3, kvNat? t "v5", kvNat? t "en" with
    | some (wx, wy, wz), some (cx, cy, cz), some (i, j, k), some v5, some en =>
      let g : Geo := ⟨i * wx + cx, j * wy + cy, k * wz + cz, wx, wy, wz⟩
      let all := fun (_ : Coord) => true
      let c := skip g all (countWG g none - 1) ⟨0, 0, 0⟩
      match nextWGf g all (g.total + 1) c with
      | none => "fault:nilderef"
      | some (wg, _) =>
        let wfs := formWfs wx wy (spawn wg.sz)
        let h := wfs.foldl (fun h w =>
          (List.range 64).foldl (fun h l =>
            let r := laneRegs (v5 == 1) en (decodeId wx wy (w.first + l))
            mix (mix (mix h r.1) r.2.1) r.2.2) h) 14695981039346656037
        let ws := wfs.map fun w => s!"{w.first}:{toHexPad 16 w.mask}:{w.cnt}"
        let sg := coordStr wg.id
        s!"wg={wgStr wg} wfs={joinWith "," ws} sg={sg}/{sg} emu={toHex h} tim={toHex h}"
    | _, _, _, _, _ => "bad"
  | "c08" :: "part" :: _ =>
    match geoOf t, cusOf t, kvNat? t "gpu", kvNat? t "ncu", kv? t "fails" with
    | some g, some cus, some gpu, some ncu, some fs =>
      let fails := fs.toList.map (· == '1')
      let go (p : Option (Coord → Bool)) : String :=
        let pf := p.getD fun _ => true
        let n := countWG g p
        let l := (enumFrom g pf (g.total + 1) ⟨0, 0, 0⟩).1
        let seq := runPart l n ncu fails (4 * g.total + fs.length + 16)
        s!"n={n} seq={joinWith ";" seq}"
      if cus.isEmpty then go none else
      match split g cus gpu with
      | .ok ⟨_, some p⟩ => go (some p)
      | _ => "bad"
    | _, _, _, _, _ => "bad"
  | "c08" :: "dist32" :: _ =>
    match geoOf t, cusOf t, (kv? t "probe").bind parse3 with
    | some g, some cus, some pr =>
      match distI g cus with
      | .error e => "fault:" ++ e
      | .ok d =>
        let l := launched d cus.length
        let acc := l.filter fun i => gpuFilterI g d i pr
        s!"d={distStr d} acc={if acc.isEmpty then "-" else distStr acc} done={if l.isEmpty then 1 else 0}"
    | _, _, _ => "bad"
  | "c08" :: "cnt32" :: _ =>
    match geoOf t with
    | some g =>
      if g.wx = 0 ∨ g.wy = 0 ∨ g.wz = 0 then "fault:div0" else
      let n := nwgI g.gx g.wx * nwgI g.gy g.wy * nwgI g.gz g.wz
      s!"n={n} first={match nextWG g ⟨0, 0, 0⟩ with | none => "nil" | some (w, _) => wgStr w}"
    | none => "bad"
  | _ => "bad"

/-- one case line in, one line out: the new kinds (`sgpr`, `hidden`, `dist64`, `partr`, `obj`) are
    answered by the models of `C08_Regs` / `C08_Res` / `C08_Obj`, every earlier kind by `handleBase`
    (unchanged) -/
def handle (line : String) : String :=
  let t := words line
  match handleRegs t with
  | some r => r
  | none =>
    match handleRes t with
    | some r => r
    | none =>
      match handleObj t with
      | some r => r
      | none => handleBase line

end C08
