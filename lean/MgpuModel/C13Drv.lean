import MgpuModel.Util
/-!
# C13 — what the driver does with a loaded code object (`amd/driver/kernel.go`)

`EnqueueLaunchKernel` / `enqueueLaunchUnifiedKernel`, as far as the code object is concerned:
which device buffers are allocated (`AllocateMemory(ctx, len(co.Data))`, kernarg, packet), which
commands are appended to the queue (`EnqueueMemCopyH2D(queue, dCoData, co.Data)` …), what the AQL
packet points at (`KernelObject = dCoData`), and the driver-wide cache `codeObjGPUAddrs`.  `step` keys the
cache by the tag `Co.id` of the code object.  With the tag = the `*KernelCodeObject` pointer this is the driver
BEFORE the repair of round R4 (`run`); the repaired driver keys the cache by `codeObjKey{pid, co}`: `stepP` /
`runP` are `step` with the tag `ckey pid pointer` (`keyOp`), so every command and every uploaded byte is tagged
with (process, object).  The allocator's answers are inputs (`addrs`): they are the
subject of C10.  The compute units start a wavefront at `KernelObject + KernelCodeEntryByteOffset`
(`emu/computeunit.go`, `timing/cu/wfdispatcher.go`): `entryPC`.

The second half is an execution model of the queues (each queue is FIFO, queues interleave in any
order, memory is per process) used to state "the instruction bytes are in device memory when the
launch command is reached".
-/
namespace C13
namespace Drv

/-- what the driver reads of a `*insts.KernelCodeObject` -/
structure Co where
  /-- identity of the pointer (the cache key) -/
  id : Nat
  /-- `len(co.Data)` -/
  len : Nat
  /-- `co.KernargSegmentByteSize` -/
  kernarg : Nat
  /-- `co.KernelCodeEntryByteOffset` -/
  entry : Nat
  deriving DecidableEq, Repr

/-- `binary.Size(kernels.HsaKernelDispatchPacket{})` -/
def packetSize : Nat := 64

inductive Cmd where
  /-- `EnqueueMemCopyH2D(queue, dCoData, co.Data)` -/
  | copyCode (dst : Nat) (co : Nat) (len : Nat)
  /-- `EnqueueMemCopyH2D(queue, dKernArgData, newKernelArgs)` -/
  | copyArgs (dst : Nat) (size : Nat)
  /-- `EnqueueMemCopyH2D(queue, dPacket, aqlPacket)` -/
  | copyPacket (dst : Nat)
  /-- `LaunchKernelCommand{CodeObject, Packet.KernelObject, Packet.KernargAddress, DPacket}` -/
  | launch (co : Nat) (len : Nat) (ko : Nat) (ka : Nat) (dPacket : Nat)
  /-- `LaunchUnifiedMultiGPUKernelCommand`: one (KernelObject, KernargAddress, DPacket) per GPU -/
  | launchUnified (co : Nat) (len : Nat) (parts : List (Nat × Nat × Nat))
  deriving DecidableEq, Repr

structure Queue where
  /-- `queue.Context.pid`: the address space every command of the queue works in -/
  pid : Nat
  cmds : List Cmd
  deriving DecidableEq, Repr

/-- one `AllocateMemory` call: appended to `Context.buffers` -/
structure Alloc where
  pid : Nat
  gpu : Nat
  addr : Nat
  size : Nat
  deriving DecidableEq, Repr

structure State where
  /-- `Driver.codeObjGPUAddrs` -/
  cache : List (Nat × Nat) := []
  queues : List Queue := []
  allocs : List Alloc := []
  deriving DecidableEq, Repr

inductive Op where
  /-- `CreateCommandQueue(ctx)` -/
  | newQueue (pid : Nat)
  /-- `EnqueueLaunchKernel` on an ordinary GPU; `gpu = ctx.currentGPUID`, `addrs` = what the
  allocator answers, in call order -/
  | launch (q : Nat) (gpu : Nat) (co : Co) (addrs : List Nat)
  /-- `EnqueueLaunchKernel` on a unified device with member GPUs `gpus` -/
  | launchUnified (q : Nat) (gpus : List Nat) (co : Co) (addrs : List Nat)
  deriving DecidableEq, Repr

def lookup (c : List (Nat × Nat)) (k : Nat) : Option Nat := (c.find? (·.1 == k)).map (·.2)

def pushCmds (qs : List Queue) (q : Nat) (cs : List Cmd) : List Queue :=
  qs.mapIdx (fun i x => if i = q then { x with cmds := x.cmds ++ cs } else x)

def pidOf (qs : List Queue) (q : Nat) : Nat := (qs[q]?.map (·.pid)).getD 0

/-- the per-GPU body of `enqueueLaunchUnifiedKernel`: three allocations, three copies -/
def unifiedParts (pid : Nat) (co : Co) : List Nat → List Nat → List Alloc × List Cmd × List (Nat × Nat × Nat)
  | [], _ => ([], [], [])
  | g :: gs, addrs =>
    let ko := addrs.getD 0 0
    let ka := addrs.getD 1 0
    let dp := addrs.getD 2 0
    let (a, c, p) := unifiedParts pid co gs (addrs.drop 3)
    ([⟨pid, g, ko, co.len⟩, ⟨pid, g, ka, co.kernarg⟩, ⟨pid, g, dp, packetSize⟩] ++ a,
     [.copyCode ko co.id co.len, .copyArgs ka co.kernarg, .copyPacket dp] ++ c,
     (ko, ka, dp) :: p)

def step (s : State) : Op → State
  | .newQueue pid => { s with queues := s.queues ++ [⟨pid, []⟩] }
  | .launch q gpu co addrs =>
    let pid := pidOf s.queues q
    match lookup s.cache co.id with
    | some ko =>
      -- cached: no allocation for the code, no copy
      let ka := addrs.getD 0 0
      let dp := addrs.getD 1 0
      { s with
        allocs := s.allocs ++ [⟨pid, gpu, ka, co.kernarg⟩, ⟨pid, gpu, dp, packetSize⟩]
        queues := pushCmds s.queues q [.copyArgs ka co.kernarg, .copyPacket dp, .launch co.id co.len ko ka dp] }
    | none =>
      let ko := addrs.getD 0 0
      let ka := addrs.getD 1 0
      let dp := addrs.getD 2 0
      { cache := s.cache ++ [(co.id, ko)]
        allocs := s.allocs ++ [⟨pid, gpu, ko, co.len⟩, ⟨pid, gpu, ka, co.kernarg⟩, ⟨pid, gpu, dp, packetSize⟩]
        queues := pushCmds s.queues q
          [.copyCode ko co.id co.len, .copyArgs ka co.kernarg, .copyPacket dp, .launch co.id co.len ko ka dp] }
  | .launchUnified q gpus co addrs =>
    let pid := pidOf s.queues q
    let (a, c, p) := unifiedParts pid co gpus addrs
    { s with
      allocs := s.allocs ++ a
      queues := pushCmds s.queues q (c ++ [.launchUnified co.id co.len p]) }

def run (ops : List Op) : State := ops.foldl step {}

/-! ### the repaired driver: cache key = (process of the launching context, code object) -/

/-- `codeObjKey{pid, co}` as one number: an injective pairing (`(p + i)² + p`) -/
def ckey (pid id : Nat) : Nat := (pid + id) * (pid + id) + pid

/-- the operation with the code object tagged by the key the repaired `EnqueueLaunchKernel` uses:
    `queue.Context.pid` and the pointer (the unified variant has no cache; its commands are tagged the same way) -/
def keyOp (qs : List Queue) : Op → Op
  | .newQueue pid => .newQueue pid
  | .launch q gpu co addrs => .launch q gpu { co with id := ckey (pidOf qs q) co.id } addrs
  | .launchUnified q gpus co addrs => .launchUnified q gpus { co with id := ckey (pidOf qs q) co.id } addrs

/-- one API call of the repaired driver -/
def stepP (s : State) (op : Op) : State := step s (keyOp s.queues op)

/-- state of the repaired driver after a history, together with the history as `step` saw it (tags = keys) -/
def keyed (ops : List Op) : State × List Op :=
  ops.foldl (fun acc op => (stepP acc.1 op, acc.2 ++ [keyOp acc.1.queues op])) ({}, [])

def runP (ops : List Op) : State := (keyed ops).1

/-- where a wavefront of the kernel starts: `pkt.KernelObject + co.KernelCodeEntryByteOffset` -/
def entryPC (ko : Nat) (co : Co) : Nat := ko + co.entry

/-! ## executing the queues -/

/-- what a byte of device memory holds -/
inductive Cell where
  /-- byte `i` of the `Data` of code object `co` -/
  | code (co : Nat) (i : Nat)
  /-- something else (kernel arguments, a packet, …) -/
  | other
  deriving DecidableEq, Repr

/-- device memory as the sequence of writes made so far, newest first: (pid, start, length, what) -/
abbrev Mem := List (Nat × Nat × Nat × Option Nat)

/-- the newest write covering `addr` in address space `pid` -/
def Mem.read (m : Mem) (pid addr : Nat) : Option Cell :=
  match m.find? (fun w => w.1 == pid && w.2.1 ≤ addr && addr < w.2.1 + w.2.2.1) with
  | none => none
  | some (_, start, _, some co) => some (.code co (addr - start))
  | some (_, _, _, none) => some .other

/-- the `Data` of `co` is at `[ko, ko+len)` of address space `pid` -/
def codeAt (m : Mem) (pid ko co len : Nat) : Prop := ∀ i, i < len → m.read pid (ko + i) = some (.code co i)

instance (m : Mem) (pid ko co len : Nat) : Decidable (codeAt m pid ko co len) := by
  unfold codeAt; exact Nat.decidableBallLT _ _

/-- one launch reached by the command processor: did it find its instructions? -/
structure Seen where
  q : Nat
  co : Nat
  ko : Nat
  present : Bool
  deriving DecidableEq, Repr

structure Exec where
  queues : List Queue
  mem : Mem := []
  seen : List Seen := []

def execCmd (pid q : Nat) (e : Exec) : Cmd → Exec
  | .copyCode dst co len => { e with mem := (pid, dst, len, some co) :: e.mem }
  | .copyArgs dst size => { e with mem := (pid, dst, size, none) :: e.mem }
  | .copyPacket dst => { e with mem := (pid, dst, packetSize, none) :: e.mem }
  | .launch co len ko _ _ => { e with seen := e.seen ++ [⟨q, co, ko, decide (codeAt e.mem pid ko co len)⟩] }
  | .launchUnified co len parts =>
    { e with seen := e.seen ++ parts.map (fun p => ⟨q, co, p.1, decide (codeAt e.mem pid p.1 co len)⟩) }

/-- the driver takes the command at the head of queue `q` (nothing happens on an empty queue) -/
def execStep (e : Exec) (q : Nat) : Exec :=
  match e.queues[q]? with
  | none => e
  | some qu =>
    match qu.cmds with
    | [] => e
    | c :: rest =>
      execCmd qu.pid q { e with queues := e.queues.set q { qu with cmds := rest } } c

/-- a schedule = the order in which queue heads are taken -/
def exec (s : State) (sched : List Nat) : Exec := sched.foldl execStep { queues := s.queues }

/-! ## line protocol: `c13 drv ; q <pid> ; l <q> <gpu> <id> <len> <karg> <entry> <addr…> ; u <q> <g,g,…> <id> <len> <karg> <entry> <addr…>`
answer: per operation the allocations `size@addr` and the commands appended (code-object tags = `ckey pid id`). -/

def cmdStr : Cmd → String
  | .copyCode d c l => s!"code:{d}:{c}:{l}"
  | .copyArgs d _ => s!"args:{d}"
  | .copyPacket d => s!"pkt:{d}"
  | .launch c _ ko ka dp => s!"launch:{c}:{ko}:{ka}:{dp}"
  | .launchUnified c _ ps => s!"ulaunch:{c}:" ++ ",".intercalate (ps.map (fun p => s!"{p.1}/{p.2.1}/{p.2.2}"))

def allocStr (a : Alloc) : String := s!"{a.size}@{a.addr}/p{a.pid}g{a.gpu}"

def opOf (t : List String) : Option Op :=
  let n (s : String) := s.toNat?.getD 0
  match t with
  | ["q", pid] => some (.newQueue (n pid))
  | "l" :: q :: gpu :: id :: len :: karg :: entry :: addrs =>
    some (.launch (n q) (n gpu) ⟨n id, n len, n karg, n entry⟩ (addrs.map n))
  | "u" :: q :: gpus :: id :: len :: karg :: entry :: addrs =>
    some (.launchUnified (n q) ((gpus.splitOn ",").map n) ⟨n id, n len, n karg, n entry⟩ (addrs.map n))
  | _ => none

def deltaStr (s s' : State) : String :=
  let na := s'.allocs.drop s.allocs.length
  let nc := (List.range s'.queues.length).map (fun i =>
    let old := (s.queues[i]?.map (·.cmds.length)).getD 0
    ((s'.queues[i]?.map (·.cmds)).getD []).drop old)
  "a=" ++ ",".intercalate (na.map allocStr) ++ " c=" ++ ",".intercalate (nc.flatten.map cmdStr)

def handleDrv (parts : List String) : String :=
  let (_, out) := parts.foldl (fun (acc : State × List String) p =>
    match opOf (Util.words p) with
    | none => (acc.1, acc.2 ++ ["bad"])
    | some op => let s' := stepP acc.1 op; (s', acc.2 ++ [deltaStr acc.1 s'])) (({} : State), [])
  " | ".intercalate out

end Drv
end C13
