import MgpuModel.Util
import MgpuModel.Gen.Sites
/-! # C05 — reproducibility: the places where Go map iteration order could leak into results

`Gen.mapSites`, `Gen.clockSites`, `Gen.goSites` are REGENERATED from the simulator sources on
every run (go/types decides which `range` operands are maps). This file models the loop at each
audited site abstractly over "the map's entries in SOME order", so that order-independence can be
stated for every order. -/
namespace C05

/-! ## `memoryAllocatorImpl.deviceIDByPAddr` over devices registered by `RegisterDevice` -/

structure Dev where
  id : Nat
  base : Nat
  size : Nat
deriving Repr, DecidableEq

/-- `isPAddrOnDevice` -/
def onDevice (p : Nat) (d : Dev) : Bool := decide (d.base ≤ p) && decide (p < d.base + d.size)

/-- the loop, over the map's entries in the order `devs` -/
def deviceIDByPAddr (devs : List Dev) (p : Nat) : Option Nat := (devs.find? (onDevice p)).map (·.id)

/-- `RegisterDevice`: the initial address of a device is the total size registered so far -/
def register : List Nat → Nat → Nat → List Dev
  | [], _, _ => []
  | sz :: rest, id, total => { id := id, base := total, size := sz } :: register rest (id + 1) (total + sz)

/-! ## building a map from a map (`GetCPIStack`, `GetSIMDCPIStack`) and copying rows
    (`initializeDecodeTable`): association lists, last insertion wins -/

def insertKV (m : List (Nat × Nat)) (kv : Nat × Nat) : List (Nat × Nat) := m ++ [kv]

/-- map lookup with "last insertion wins" semantics -/
def lookupLast (m : List (Nat × Nat)) (k : Nat) : Option Nat :=
  m.foldl (fun acc kv => if kv.1 == k then some kv.2 else acc) none

open Util

def handle (line : String) : String :=
  match words line with
  | ["c05", "devid", l2, sizes, p] =>
    match l2.toNat?, natList? sizes, p.toNat? with
    | some l2, some szs, some p =>
      -- `NewMemoryAllocator` starts the running total at one page (physical page 0 is never handed out)
      match deviceIDByPAddr (register szs 0 (2 ^ l2)) p with
      | some id => toString id
      | none => "fault:device_not_found"
    | _, _, _ => "bad"
  | ["c05", "nsites"] => s!"{Gen.mapSites.length} {Gen.clockSites.length} {Gen.goSites.length}"
  | _ => "bad"

end C05
