import MgpuModel.Util
import MgpuModel.Gen.Sites
import MgpuModel.C05_Sched
import MgpuModel.C05_Rest
import MgpuModel.C05_Engine
import MgpuModel.C05_Par
/-! # C05 — reproducibility: the places where Go map iteration order could leak into results

`Gen.mapSites`, `Gen.clockSites`, `Gen.goSites` are REGENERATED from the simulator sources on
every run (go/types decides which `range` operands are maps). This file models the loop at each
audited site abstractly over "the map's entries in SOME order", so that order-independence can be
stated for every order. -/
namespace C05

/-! ## `memoryAllocatorImpl.deviceIDByPAddr` over devices registered by `RegisterDevice` -/

structure Dev where
  id : Nat
  base : Nat
  size : Nat
deriving Repr, DecidableEq

/-- `isPAddrOnDevice` -/
def onDevice (p : Nat) (d : Dev) : Bool := decide (d.base ≤ p) && decide (p < d.base + d.size)

/-- the loop, over the map's entries in the order `devs` -/
def deviceIDByPAddr (devs : List Dev) (p : Nat) : Option Nat := (devs.find? (onDevice p)).map (·.id)

/-- `RegisterDevice`: the initial address of a device is the total size registered so far -/
def register : List Nat → Nat → Nat → List Dev
  | [], _, _ => []
  | sz :: rest, id, total => { id := id, base := total, size := sz } :: register rest (id + 1) (total + sz)

/-! ## building a map from a map (`GetCPIStack`, `GetSIMDCPIStack`) and copying rows
    (`initializeDecodeTable`): association lists, last insertion wins -/

def insertKV (m : List (Nat × Nat)) (kv : Nat × Nat) : List (Nat × Nat) := m ++ [kv]

/-- map lookup with "last insertion wins" semantics -/
def lookupLast (m : List (Nat × Nat)) (k : Nat) : Option Nat :=
  m.foldl (fun acc kv => if kv.1 == k then some kv.2 else acc) none

/-! ## Every map-range site as a `LoopModel` (deepening)

A `LoopModel` is the abstraction of one `for … := range m` loop TOGETHER with the statements that
follow it up to the point where the iteration order is forgotten (the sort, the return of the
built map, the lookup): `run c l` is what the code computes when the map's entries come out in
the order `l`; `Valid c l` is what is known about the map's content (a Go map has pairwise
distinct keys; the device table was filled by `RegisterDevice`; …). The models of the audited
sites and their order-independence proofs are in `MgpuProofs/C05Sites.lean`. -/

structure LoopModel where
  /-- one entry of the map (key and value, or what the body uses of them) -/
  Entry : Type
  /-- everything else the loop reads -/
  Ctx : Type
  /-- what reaches the rest of the program -/
  Out : Type
  Valid : Ctx → List Entry → Prop
  run : Ctx → List Entry → Out

/-- the result is the same for every iteration order of the map -/
def LoopModel.OrderIndependent (m : LoopModel) : Prop :=
  ∀ c l₁ l₂, l₁.Perm l₂ → m.Valid c l₁ → m.run c l₁ = m.run c l₂

/-- map lookup in an association list built by insertions, last insertion wins (any key type) -/
def lookupLastG {κ ν : Type} [DecidableEq κ] (m : List (κ × ν)) (k : κ) : Option ν :=
  m.foldl (fun acc kv => if kv.1 = k then some kv.2 else acc) none

/-- `GetCPIStack` / `GetSIMDCPIStack`: `stack["total"] = total`, then one insertion per entry of
    `timeStack` (in the order `es`), the value computed from that entry alone by `f` -/
def cpiStackOf {ν ν' : Type} (f : ν → ν') (total : ν') (es : List (String × ν)) : List (String × ν') :=
  ("total", total) :: es.map (fun e => (e.1, f e.2))

/-- insertion sort of strings, the order `sort.Strings` produces -/
def insertStr (x : String) : List String → List String
  | [] => [x]
  | y :: ys => if x ≤ y then x :: y :: ys else y :: insertStr x ys
def sortStr (l : List String) : List String := l.foldr insertStr []

/-- the keys of an association list, each once, first occurrence first (the key set of the map) -/
def keysOf {ν : Type} (m : List (String × ν)) : List String := (m.map (·.1)).eraseDups

/-- `reportCPIStackEntries` after `GetCPIStack`: the rows handed to the data recorder, in order.
    `order` is the order in which the second loop (over the built map) yields the keys. -/
def reportRows {ν : Type} (stack : List (String × ν)) (order : List String) : List (String × Option ν) :=
  (sortStr order).map fun k => (k, lookupLastG stack k)

/-- whole pipeline on IEEE doubles, as the code computes it:
    `cycle := duration * freq; stack[k] = cycle / float64(instCount)` -/
def cpiReport (totalTime freq : Float) (inst : Nat) (es : List (String × Float)) : List (String × Option Float) :=
  let n := Float.ofNat inst
  let stack := cpiStackOf (fun d => d * freq / n) (totalTime * freq / n) es
  reportRows stack (keysOf stack)

open Util

def parseF64 (s : String) : Option Float := (hexNat? s).map fun n => Float.ofBits n.toUInt64
def showF64 (f : Float) : String := toHexPad 16 f.toBits.toNat

def parseEntry (w : String) : Option (String × Float) :=
  match w.splitOn "=" with
  | [k, v] => (parseF64 v).map fun f => (k, f)
  | _ => none

def handle1 (line : String) : String :=
  match words line with
  | ["c05", "devid", l2, sizes, p] =>
    match l2.toNat?, natList? sizes, p.toNat? with
    | some l2, some szs, some p =>
      -- `NewMemoryAllocator` starts the running total at one page (physical page 0 is never handed out)
      match deviceIDByPAddr (register szs 0 (2 ^ l2)) p with
      | some id => toString id
      | none => "fault:device_not_found"
    | _, _, _ => "bad"
  | ["c05", "nsites"] => s!"{Gen.mapSites.length} {Gen.clockSites.length} {Gen.goSites.length}"
  | _ => "bad"

def handle (line : String) : String :=
  let segs := splitTrim line ";"
  match segs with
  | first :: rest =>
    match words first with
    | "c05" :: "tsched" :: t =>
      match (kv? t "rounds").bind (natList? ·) with
      | some rounds => joinWith " " (T.runTrace (T.init rounds) (rest.flatMap words) [])
      | none => "bad"
    | "c05" :: "evq" :: t => joinWith " " (Eng.evqTrace [] t [])
    | "c05" :: "eng" :: t => Eng.handleEng t rest
    | "c05" :: "par" :: t => Par.handlePar t rest
    | "c05" :: "rsched" :: t =>
      match (kv? t "rounds").bind (natList? ·) with
      | some rounds => joinWith " " (R.runTrace (R.init rounds) (rest.flatMap words) [])
      | none => "bad"
    | "c05" :: "cpistack" :: t =>
      match (kv? t "total").bind parseF64, (kv? t "freq").bind parseF64, kvNat? t "inst",
            (rest.flatMap words).mapM parseEntry with
      | some total, some freq, some inst, some es =>
        joinWith " " ((cpiReport total freq inst es).map fun r =>
          r.1 ++ "=" ++ (match r.2 with | some v => showF64 v | none => "missing"))
      | _, _, _, _ => "bad"
    | _ => handle1 line
  | [] => "bad"

end C05
