import MgpuModel.C19_Base
import MgpuModel.C19_Cp
/-! # C19 — the migration stages of `Driver.Tick` (`amd/driver/driver.go`), tick by tick

Hand-written, tick-exact model (tie H, `c19 drv …` lines) of the part of the driver that serves a page
migration request of the MMU: `Tick` = `sendToGPUs`, `sendToMMU`, `sendMigrationReqToCP`, (middlewares:
idle here), `processReturnReq`, (`processNewCommand`: idle), `parseFromMMU`, with

* the queue `requestsToSend` (one message per tick), the queue `migrationReqToSendToCP` with the flag
  `isCurrentlyMigratingOnePage`, the single slot `toSendToMMU` (a second answer OVERWRITES the first),
* the five `uint64` acknowledgement counters, `currentPageMigrationReq`, `isCurrentlyHandlingMigrationReq`,
* `sendShootDownReqs` / `processShootdownCompleteRsp` / `preparePageMigrationRspToMMU` walking the
  page-per-GPU map in GPU order (`migOrder`), `preparePageForMigration` on the allocator / page table
  (`prepare`), the index expressions `d.GPUs[gpu-1]`, `d.RemotePMCPorts[host-1]` (fault `index`),
* the old frame of the page being migrated: `sendMigrationReqToCP` remembers the command's
  `ToReadFromPhysicalAddress` (`currentlyMigratingFromPAddr`, `oldF`), `processPageMigrationRspFromCP` gives it
  back to the device whose range holds it (`MemoryAllocator.ReleasePhysicalPage`, `Alloc.release`) — the repair
  of finding `C19-old-frame-not-released`,
* the GPU port (capacity 40960000 both ways) and the MMU port (capacity 1 both ways).

The counter-only model `Hs` of `C19_Base.lean` (one delivered message followed by ticks until quiescence)
is the older, coarser view of the same code. -/
namespace C19
namespace DR
open Util
open CP (Cmd Ans)

/-- `vm.PageMigrationReqToDriver`; GPU numbers are 1-based as in the Go code -/
structure MmuReq where
  id : Nat
  pid : Nat
  host : Nat
  acc : List Nat
  /-- the entries of `GPUReqToVAddrMap` -/
  map : List (Nat × List Nat)
  pageSize : Nat
deriving DecidableEq, Repr, Inhabited

/-- `protocol.PageMigrationReqToCP` for GPU `gpu` (0-based); `peer` = index of `RemotePMCPorts` -/
structure MigCmd where
  id : Nat
  gpu : Nat
  vaddr : Nat
  rd : Nat
  wr : Nat
  size : Nat
  peer : Nat
deriving DecidableEq, Repr, Inhabited

/-- what leaves through the GPU port: destination GPU (0-based), the command; the payloads of the
    shootdown (`shoot id` = id of the MMU request: its pages and PID) and migrate commands (`mig id`)
    are in `shootLog` / `migLog` -/
structure Drv where
  ngpu : Nat := 2
  /-- `len(d.RemotePMCPorts)` -/
  nPmc : Nat := 2
  capGpuIn : Nat := 40960000
  capGpuOut : Nat := 40960000
  alloc : Alloc := { lg := 12, free := [], range := [] }
  /-- PIDs of the registered contexts -/
  pids : List Nat := [1]
  toSend : List (Nat × Cmd) := []
  toCP : List MigCmd := []
  one : Bool := false
  /-- `currentlyMigratingFromPAddr`: the old frame of the page whose migrate command is in flight -/
  oldF : Nat := 0
  /-- `toSendToMMU`: id of the request it answers, its `VAddr` list -/
  toMMU : Option (Nat × List Nat) := none
  cur : Option MmuReq := none
  handling : Bool := false
  drain : Nat := 0
  shoot : Nat := 0
  mig : Nat := 0
  restart : Nat := 0
  rdma : Nat := 0
  gpuIn : List Ans := []
  gpuOut : List (Nat × Cmd) := []
  mmuIn : List MmuReq := []
  mmuOut : List (Nat × List Nat) := []
  nMig : Nat := 0
  fault : Option String := none
  /-- ghost: every migrate command created, oldest first -/
  migLog : List MigCmd := []
  /-- ghost: ids of the requests taken from the MMU port / whose answer entered the MMU port's outgoing
      buffer / whose answer was overwritten in `toSendToMMU` before it was sent -/
  taken : List Nat := []
  answered : List Nat := []
  lost : List Nat := []
deriving Repr, Inhabited

def pagesOf (ngpu : Nat) (r : MmuReq) : List Nat := (migOrder ngpu r.map).map (·.2)

/-- `sendToGPUs` -/
def Drv.sGpu (d : Drv) : Drv × Bool :=
  if d.fault.isSome then (d, false) else
  match d.toSend with
  | [] => (d, false)
  | m :: rest =>
    if d.gpuOut.length < d.capGpuOut then ({ d with gpuOut := d.gpuOut ++ [m], toSend := rest }, true)
    else (d, false)

/-- `sendToMMU` -/
def Drv.sMmu (d : Drv) : Drv × Bool :=
  if d.fault.isSome then (d, false) else
  match d.toMMU with
  | none => (d, false)
  | some a =>
    if d.mmuOut.length < 1 then
      ({ d with mmuOut := d.mmuOut ++ [a], toMMU := none, answered := d.answered ++ [a.1] }, true)
    else (d, false)

/-- `sendMigrationReqToCP` -/
def Drv.sMig (d : Drv) : Drv × Bool :=
  if d.fault.isSome then (d, false) else
  match d.toCP with
  | [] => (d, false)
  | m :: rest =>
    if d.one then (d, false)
    else if d.gpuOut.length < d.capGpuOut then
      ({ d with gpuOut := d.gpuOut ++ [(m.gpu, .mig m.id)], toCP := rest, one := true, oldF := m.rd }, true)
    else (d, false)

/-- the loop over `CurrAccessingGPUs` in `sendShootDownReqs` / `prepareGPURestartReqs`: `d.GPUs[gpu-1]`
    with a `uint64` index -/
def Drv.toAcc (d : Drv) (c : Cmd) : List Nat → Drv
  | [] => d
  | a :: rest =>
    if d.fault.isSome then d
    else if a = 0 ∨ a - 1 ≥ d.ngpu then { d with fault := some "index" }
    else Drv.toAcc { d with toSend := d.toSend ++ [(a - 1, c)] } c rest

/-- the two nested loops of `processShootdownCompleteRsp` -/
def Drv.mkMigs (d : Drv) (ctxPid size peer : Nat) : List (Nat × Nat) → Drv
  | [] => d
  | (g, v) :: rest =>
    if d.fault.isSome then d else
    match prepare d.alloc ctxPid v g with
    | .error e => { d with fault := some e }
    | .ok (pg, old, a') =>
      let m : MigCmd := ⟨d.nMig, g, v, old, pg.paddr, size, peer⟩
      Drv.mkMigs { d with alloc := a', toCP := d.toCP ++ [m], mig := CP.inc d.mig, nMig := d.nMig + 1,
                          migLog := d.migLog ++ [m] } ctxPid size peer rest

/-- `processReturnReq` -/
def Drv.ret (d : Drv) : Drv × Bool :=
  if d.fault.isSome then (d, false) else
  match d.gpuIn with
  | [] => (d, false)
  | a :: rest =>
    match a with
    | .drain =>
      let n := CP.dec d.drain
      let d := { d with drain := n, gpuIn := rest }
      if n = 0 then
        match d.cur with
        | none => ({ d with fault := some "nilderef" }, true)
        | some r => (({ d with shoot := r.acc.length % CP.w64 }).toAcc (.shoot r.id) r.acc, true)
      else (d, true)
    | .shoot =>
      let n := CP.dec d.shoot
      let d := { d with shoot := n, gpuIn := rest }
      if n = 0 then
        match d.cur with
        | none => ({ d with fault := some "nilderef" }, true)
        | some r =>
          if r.host = 0 ∨ r.host - 1 ≥ d.nPmc then ({ d with fault := some "index" }, true) else
          let ctx := if d.pids.contains r.pid then r.pid else 0
          (d.mkMigs ctx r.pageSize (r.host - 1) (migOrder d.ngpu r.map), true)
      else (d, true)
    | .mig =>
      -- repaired (finding C19-old-frame-not-released): the page migration controller has copied the page whose
      -- command was in flight; its old frame goes back to the device that owns it (`ReleasePhysicalPage`)
      match (if d.one then d.alloc.release d.oldF else .ok d.alloc) with
      | .error e => ({ d with fault := some e }, true)
      | .ok a' =>
      let n := CP.dec d.mig
      let d := { d with alloc := a', mig := n, one := false, gpuIn := rest }
      if n = 0 then
        match d.cur with
        | none => ({ d with fault := some "nilderef" }, true)
        | some r =>
          let d := ({ d with restart := (d.restart + r.acc.length) % CP.w64 }).toAcc .restart r.acc
          if d.fault.isSome then (d, true) else
          ({ d with toMMU := some (r.id, pagesOf d.ngpu r),
                    lost := match d.toMMU with
                      | some o => d.lost ++ [o.1]
                      | none => d.lost }, true)
      else (d, true)
    | .restart =>
      let n := CP.dec d.restart
      let d := { d with restart := n, gpuIn := rest }
      if n = 0 then
        ({ d with toSend := d.toSend ++ (List.range d.ngpu).map (fun g => (g, Cmd.rdmaRestart)),
                  rdma := (d.rdma + d.ngpu) % CP.w64 }, true)
      else (d, true)
    | .rdmaRestart =>
      let n := CP.dec d.rdma
      let d := { d with rdma := n, gpuIn := rest }
      if n = 0 then ({ d with cur := none, handling := false }, true) else (d, true)
    | .flush _ => (d, false)

/-- `parseFromMMU` (+ `initiateRDMADrain`) -/
def Drv.parse (d : Drv) : Drv × Bool :=
  if d.fault.isSome then (d, false) else
  if d.handling then (d, false) else
  match d.mmuIn with
  | [] => (d, false)
  | r :: rest =>
    ({ d with mmuIn := rest, cur := some r, handling := true, taken := d.taken ++ [r.id],
              toSend := d.toSend ++ (List.range d.ngpu).map (fun g => (g, Cmd.drain)),
              drain := (d.drain + d.ngpu) % CP.w64 }, true)

def stages : List (Drv → Drv × Bool) := [Drv.sGpu, Drv.sMmu, Drv.sMig, Drv.ret, Drv.parse]

def runStages (l : List (Drv → Drv × Bool)) (x : Drv × Bool) : Drv × Bool :=
  l.foldl (fun x f => let r := f x.1; (r.1, x.2 || r.2)) x

/-- `Driver.Tick` (no commands in the queues, middlewares idle) -/
def Drv.tick (d : Drv) : Drv × Bool := runStages stages (d, false)

/-! ## the environment of the correspondence -/

inductive Op
  /-- the MMU sends a request: host GPU, accessing GPUs, entries (requesting GPU, number of fresh pages
      allocated on the host for it) -/
  | mmu (host : Nat) (acc : List Nat) (ents : List (Nat × Nat))
  | tick
  /-- an answer of a command processor arrives -/
  | rsp (a : Ans)
  | takeGpu (n : Nat)
  | takeMmu
deriving Repr, Inhabited

structure Env where
  d : Drv := {}
  nReq : Nat := 0
  psz : Nat := 4096
deriving Repr, Inhabited

def hexList (l : List Nat) : String := joinWith "." (l.map toHex)

def Drv.cmdStr (d : Drv) (x : Nat × Cmd) : String :=
  match x.2 with
  | .drain => s!"D>{x.1}"
  | .rdmaRestart => s!"A>{x.1}"
  | .restart => s!"G>{x.1}"
  | .shoot id =>
    match d.cur with
    | some r => if r.id = id then s!"S>{x.1}:{r.pid}:{hexList (pagesOf d.ngpu r)}" else s!"S>{x.1}:?"
    | none => s!"S>{x.1}:?"
  | .mig id =>
    match d.migLog.find? (·.id == id) with
    | some m => s!"M>{x.1}:{toHex m.rd}>{toHex m.wr}:{m.size}@{m.peer}"
    | none => s!"M>{x.1}:?"
  | .flush _ => "F"
  | .other => "O"

def Drv.sig (d : Drv) : String :=
  let b (x : Bool) := if x then "1" else "0"
  s!"{b d.handling}:{d.drain},{d.shoot},{d.mig},{d.restart},{d.rdma}:{d.toCP.length},{b d.one}:" ++
  s!"{d.toSend.length},{b d.toMMU.isSome},{b d.cur.isSome}"

/-- allocate `k` fresh pages of process 1 on device `host`; returns their addresses -/
def allocPages (a : Alloc) (host : Nat) : Nat → Except String (List Nat × Alloc)
  | 0 => .ok ([], a)
  | k + 1 => do
    let nv := (a.next.lookup 1).getD (1 <<< a.lg)
    let a1 ← a.allocate 1 host 1
    let (vs, a2) ← allocPages a1 host k
    pure (nv :: vs, a2)

def allocEnts (a : Alloc) (host : Nat) : List (Nat × Nat) → Except String (List (Nat × List Nat) × Alloc)
  | [] => .ok ([], a)
  | (g, k) :: rest => do
    let (vs, a1) ← allocPages a host k
    let (m, a2) ← allocEnts a1 host rest
    pure ((g, vs) :: m, a2)

/-- a Go map: a later entry with the same key extends the earlier one (`append`) -/
def mergeEnts : List (Nat × List Nat) → List (Nat × List Nat)
  | [] => []
  | (g, vs) :: rest =>
    let r := mergeEnts rest
    match r.lookup g with
    | some ws => (g, vs ++ ws) :: r.filter (fun e => e.1 != g)
    | none => (g, vs) :: r

def Env.step (e : Env) : Op → Env × String
  | .mmu host acc ents =>
    if e.d.mmuIn.length < 1 then
      match allocEnts e.d.alloc host ents with
      | .error f => ({ e with d := { e.d with fault := some f } }, s!"fault:{f}")
      | .ok (m, a') =>
        let r : MmuReq := ⟨e.nReq, 1, host, acc, mergeEnts m, e.psz⟩
        ({ e with d := { e.d with alloc := a', mmuIn := e.d.mmuIn ++ [r] }, nReq := e.nReq + 1 }, "ok")
    else (e, "full")
  | .tick =>
    let r := e.d.tick
    match r.1.fault with
    | some f => ({ e with d := r.1 }, s!"fault:{f}")
    | none => ({ e with d := r.1 }, s!"t{if r.2 then 1 else 0}[{r.1.sig}]")
  | .rsp a =>
    if e.d.gpuIn.length < e.d.capGpuIn then ({ e with d := { e.d with gpuIn := e.d.gpuIn ++ [a] } }, "ok")
    else (e, "full")
  | .takeGpu n =>
    let t := e.d.gpuOut.take n
    ({ e with d := { e.d with gpuOut := e.d.gpuOut.drop n } }, "xg[" ++ joinWith "," (t.map e.d.cmdStr) ++ "]")
  | .takeMmu =>
    match e.d.mmuOut with
    | [] => (e, "xm[]")
    | a :: rest => ({ e with d := { e.d with mmuOut := rest } }, s!"xm[{a.1}:{hexList a.2}]")

/-! ## line protocol: `c19 drv ngpu= psz= pages= ; op ; …` (every GPU has `pages` pages of 4 KiB) -/

def parseAns : String → Option Ans
  | "D" => some .drain
  | "A" => some .rdmaRestart
  | "S" => some .shoot
  | "G" => some .restart
  | "M" => some .mig
  | "O" => some (.flush 0)
  | _ => none

def parseEnt (s : String) : Option (Nat × Nat) :=
  match splitTrim s ":" with
  | [g, k] => do pure (← g.toNat?, ← k.toNat?)
  | _ => none

def parseOp (t : List String) : Option Op :=
  match t with
  | ["t"] => some .tick
  | ["r", a] => (parseAns a).map .rsp
  | ["xg", n] => n.toNat?.map .takeGpu
  | ["xm"] => some .takeMmu
  | "Q" :: host :: acc :: ents => do
      let a ← if acc = "-" then some [] else natList? acc
      pure (.mmu (← host.toNat?) a (← ents.mapM parseEnt))
  | _ => none

def runOps (e : Env) (ops : List Op) (out : List String) : Env × List String :=
  match ops with
  | [] => (e, out.reverse)
  | o :: rest =>
    let (e', tok) := e.step o
    if e'.d.fault.isSome then (e', (tok :: out).reverse) else runOps e' rest (tok :: out)

/-- device 0 = CPU (`cpu` pages; a request may name it as the host — `Q 0 …` — so its free list holds its
    first 64 frames: the harness never allocates more than that from the CPU in one scenario; the full
    list of 2^20 frames would have to be built for every case line), then the GPUs -/
def mkAllocG (lg cpu : Nat) (gpus : List Nat) : Alloc :=
  let pg := 1 <<< lg
  let rec go (base : Nat) : List Nat → List (List Nat) × List (Nat × Nat)
    | [] => ([], [])
    | n :: ns =>
      let r := go (base + n * pg) ns
      ((List.range n).map (fun i => base + i * pg) :: r.1, (base, n * pg) :: r.2)
  let r := go (pg + cpu * pg) gpus
  { lg := lg, free := (List.range (min cpu 64)).map (fun i => pg + i * pg) :: r.1, range := (pg, cpu * pg) :: r.2 }

/-- table and the free lists of the GPUs -/
def allocSigG (a : Alloc) : String :=
  "T=" ++ joinWith "," (sortStrings (a.table.map pageSig)) ++ " F=" ++
    joinWith "," ((a.free.drop 1).map fun f => s!"{f.length}/{toHex (f.headD 0)}")

def handle (cfg : List String) (rest : List String) : String :=
  let g (k : String) (d : Nat) : Nat := (kvNat? cfg k).getD d
  match rest.mapM fun o => parseOp (words o) with
  | none => "bad"
  | some ops =>
    let ngpu := g "ngpu" 2
    let d : Drv := { ngpu := ngpu, nPmc := ngpu, alloc := mkAllocG 12 (g "cpu" 1048576) (List.replicate ngpu (g "pages" 2048)) }
    let (e, out) := runOps { d := d, psz := g "psz" 4096 } ops []
    joinWith " " out ++ " " ++ allocSigG e.d.alloc

end DR
end C19
