import MgpuModel.Util
import MgpuModel.C12_Wake
/-!
# C12.W.Full — ALL stages of `Driver.Tick`, both ports

`C12.W.Drv` covers `sendToGPUs`, the middleware timer, `processReturnReq` for `LaunchKernelRsp` and
`processNewCommand` for Noop / kernel commands. This file transcribes the whole of `Driver.Tick`
(amd/driver/driver.go, memorycopy.go) in program order

    sendToGPUs ; sendToMMU ; sendMigrationReqToCP ; middleware.Tick ; processReturnReq ;
    processNewCommand ; parseFromMMU

with
* memory-copy commands of `defaultMemoryCopyMiddleware`: `processMemCopyH2DCommand` /
  `…D2H…` (one `FlushReq` per GPU straight into `requestsToSend` when a buffer of the context is
  L2-dirty — a started kernel marks all buffers of its context dirty, nothing ever cleans them —,
  the page pieces into the SHARED delay line `awaitingReqs`, `cyclesLeft` restarted, then
  `completeCommandIfDone`), the delay line in `Tick`, and `processGeneralRsp` whose result
  OVERWRITES the timer's progress flag (`madeProgress = m.processGeneralRsp(req)`);
* the six message types of `processReturnReq` (kernel response and the five page-migration
  acknowledgements with their counters), `sendMigrationReqToCP` (one page at a time), `sendToMMU`;
* the MMU port (`parseFromMMU` takes a request only while no migration is being handled);
* messages nobody handles (`foreignGen`: a `GeneralRsp` whose `OriginalReq` is none of
  flush / H2D / D2H; `foreign`: a message type outside both switches) — they stay at the head of the
  port for ever; used only for the refuted "any input" statement.

`Sys`/`step`: Akita's sleep/wake rule with both ports plus the GPU side as a ghost (`ext`: requests
taken from the port and not yet answered), so that every response is an answer to a request the
driver really sent. Case lines `c12 full …` (real `Driver.Tick`: `harness/c12_full.go`).
-/
namespace C12
namespace W
namespace Full

inductive Cmd
  | noop
  /-- kernel launch sending `n` `LaunchKernelReq`s (`LaunchKernelCommand`: 1; unified multi-GPU:
      one per member GPU with a non-empty share; 0 = empty grid, completes at once) -/
  | kern (n : Nat)
  /-- `MemCopyH2DCommand` (`d2h = false`) / `MemCopyD2HCommand` with `pieces` page pieces -/
  | copy (d2h : Bool) (pieces : Nat)
  /-- a memory copy under `globalStorageMemoryCopyMiddleware` (the "magic" copy of emulation
      platforms): done inside `ProcessCommand` (`IsRunning = false; Dequeue; return true`), no request -/
  | mcopy
  /-- `FlushCommand` under `defaultMemoryCopyMiddleware` (repaired: `processFlushCommand`): one `FlushReq` per GPU
      straight into `requestsToSend`, the queue runs until the last answer (`processFlushReturn` +
      `completeCommandIfDone`); no page piece, the delay line is not touched; without a GPU it completes at once -/
  | fl
  /-- a command no stage and no middleware handles, as the driver treated it BEFORE the repair (then: `FlushCommand` —
      exported, `Driver.Enqueue` accepts it, `defaultMemoryCopyMiddleware.ProcessCommand` answered `false`, the command
      stayed at the head of its queue). The repaired `processCommandWithMiddleware` panics naming the type instead
      (not modelled: no legitimate event enqueues such a command, `Ev.legit`); kept for
      `no_lost_wakeup_any_command_before_fix_refuted`. -/
  | unhandled
deriving DecidableEq, Repr

def Cmd.handled : Cmd → Bool
  | .unhandled => false
  | _ => true

/-- messages the driver sends through its GPU port -/
inductive GReq
  | launch (q : Nat)     -- `LaunchKernelReq` of the head of queue `q`
  | flush (q : Nat)      -- `FlushReq` of the memory-copy command at the head of queue `q`
  | copy (q : Nat)       -- `MemCopyH2DReq` / `MemCopyD2HReq`
  | drain                -- `RDMADrainCmdFromDriver`
  | shoot                -- `ShootDownCommand`
  | mig                  -- `PageMigrationReqToCP`
  | restart              -- `GPURestartReq`
  | rdma                 -- `RDMARestartCmdFromDriver`
deriving DecidableEq, Repr

/-- messages that arrive at the driver's GPU port -/
inductive GMsg
  | kernRsp (q : Nat)    -- `LaunchKernelRsp`
  | genRsp (q : Nat)     -- `GeneralRsp` to a flush / copy request of the head of queue `q`
  | drainRsp             -- `RDMADrainRspToDriver`
  | shootRsp             -- `ShootDownCompleteRsp`
  | migRsp               -- `PageMigrationRspToDriver`
  | restartRsp           -- `GPURestartRsp`
  | rdmaRsp              -- `RDMARestartRspToDriver`
  | foreignGen           -- `GeneralRsp` whose `OriginalReq` is none of flush / H2D / D2H
  | foreign              -- a type outside the switches of `processReturnReq` and the middleware
deriving DecidableEq, Repr

/-- a message some stage of `Tick` takes -/
def GMsg.known : GMsg → Bool
  | .foreignGen => false
  | .foreign => false
  | _ => true

/-- the answer of the GPU side to a request -/
def GReq.answer : GReq → GMsg
  | .launch q => .kernRsp q
  | .flush q => .genRsp q
  | .copy q => .genRsp q
  | .drain => .drainRsp
  | .shoot => .shootRsp
  | .mig => .migRsp
  | .restart => .restartRsp
  | .rdma => .rdmaRsp

/-- command queue whose head owns the request -/
def GReq.owner : GReq → Option Nat
  | .launch q => some q
  | .flush q => some q
  | .copy q => some q
  | _ => none

def GMsg.owner : GMsg → Option Nat
  | .kernRsp q => some q
  | .genRsp q => some q
  | _ => none

structure Q where
  cmds : List Cmd := []
  /-- `CommandQueue.IsRunning` -/
  running : Bool := false
  /-- `len(cmd.GetReqs())` of the running head -/
  left : Nat := 0
  /-- index of the queue's context -/
  ctx : Nat := 0
deriving DecidableEq, Repr

/-- `vm.PageMigrationReqToDriver`: `len(CurrAccessingGPUs)`, number of pages to migrate -/
structure MReq where
  acc : Nat
  pages : Nat
deriving DecidableEq, Repr

structure D where
  nGpus : Nat := 1
  /-- `cyclesPerH2D` / `cyclesPerD2H` -/
  cycH2D : Nat := 0
  cycD2H : Nat := 0
  qs : List Q := []
  /-- per context: a kernel of this context has been started (all its buffers are `l2Dirty`) -/
  dirty : List Bool := []
  /-- `Driver.requestsToSend` -/
  toSend : List GReq := []
  /-- `defaultMemoryCopyMiddleware.awaitingReqs` -/
  awaiting : List GReq := []
  /-- `cyclesLeft` (`none` = -1; the zero value 0 is `some 0`) -/
  cyc : Option Nat := some 0
  /-- `isCurrentlyHandlingMigrationReq` -/
  handling : Bool := false
  /-- `currentPageMigrationReq` -/
  cur : Option MReq := none
  /-- `toSendToMMU != nil` -/
  toMMU : Bool := false
  /-- `len(migrationReqToSendToCP)` -/
  migToCP : Nat := 0
  /-- `isCurrentlyMigratingOnePage` -/
  migOne : Bool := false
  nDrain : Nat := 0
  nShoot : Nat := 0
  nPages : Nat := 0
  nRestart : Nat := 0
  nRdma : Nat := 0
  /-- MMU port: incoming requests, number of responses in the outgoing buffer -/
  mIn : List MReq := []
  mOut : Nat := 0
deriving DecidableEq, Repr

abbrev C := Core D GMsg GReq

/-- buffer capacities of the two ports (`sim.NewPort(driver, 40960000, 40960000, …)`, `(driver, 1, 1, …)`) -/
structure Caps where
  gIn : Nat := 40960000
  gOut : Nat := 40960000
  mIn : Nat := 1
  mOut : Nat := 1
deriving DecidableEq, Repr

/-- `x--` on a `uint64` counter -/
def u64max : Nat := 18446744073709551615
def dec (n : Nat) : Nat := if n = 0 then u64max else n - 1

/-! ## the stages -/

/-- `sendToGPUs` -/
def sendToGPUs (k : Caps) : Stage D GMsg GReq := fun c =>
  match c.d.toSend with
  | [] => (c, false)
  | x :: rest =>
    if c.outb.length < k.gOut then ({ c with d := { c.d with toSend := rest }, outb := c.outb ++ [x] }, true)
    else (c, false)

/-- `sendToMMU` -/
def sendToMMU (k : Caps) : Stage D GMsg GReq := fun c =>
  if c.d.toMMU then
    (if c.d.mOut < k.mOut then ({ c with d := { c.d with toMMU := false, mOut := c.d.mOut + 1 } }, true) else (c, false))
  else (c, false)

/-- `sendMigrationReqToCP` -/
def sendMigrationReqToCP (k : Caps) : Stage D GMsg GReq := fun c =>
  match c.d.migToCP with
  | 0 => (c, false)
  | n + 1 =>
    if c.d.migOne then (c, false)
    else if c.outb.length < k.gOut then
      ({ c with d := { c.d with migToCP := n, migOne := true }, outb := c.outb ++ [.mig] }, true)
    else (c, false)

def updAt (f : Q → Q) : Nat → List Q → List Q
  | _, [] => []
  | 0, q :: qs => f q :: qs
  | i + 1, q :: qs => q :: updAt f i qs

/-- an answer to a request of the running head: the request is removed; the command completes
    (`IsRunning = false`, `Dequeue`) when none is left (`processLaunchKernelReturn`,
    `processFlushReturn` / `processMemCopy…Return` + `completeCommandIfDone`) -/
def retQ (q : Q) : Q :=
  if q.running then
    (if q.left ≤ 1 then { q with cmds := q.cmds.tail, running := false, left := 0 } else { q with left := q.left - 1 })
  else q

/-- the delay line of `defaultMemoryCopyMiddleware.Tick` -/
def delay (d : D) : D × Bool :=
  match d.cyc with
  | some (k + 1) => ({ d with cyc := some k }, true)
  | some 0 => ({ d with toSend := d.toSend ++ d.awaiting, awaiting := [], cyc := none }, true)
  | none => (d, false)

/-- `defaultMemoryCopyMiddleware.Tick`: delay line, then the head of the GPU port: the result of
    `processGeneralRsp` REPLACES the flag of the delay line -/
def mwTick : Stage D GMsg GReq := fun c =>
  let r := delay c.d
  match c.inb with
  | [] => ({ c with d := r.1 }, r.2)
  | m :: rest =>
    match m with
    | .genRsp q => ({ c with inb := rest, d := { r.1 with qs := updAt retQ q r.1.qs } }, true)
    | .foreignGen => ({ c with d := r.1 }, false)
    | _ => ({ c with d := r.1 }, r.2)

/-- the five acknowledgement handlers of the page-migration handshake -/
def onDrainRsp (d : D) : D :=
  let n := dec d.nDrain
  if n = 0 then
    let acc := match d.cur with | some r => r.acc | none => 0
    { d with nDrain := n, toSend := d.toSend ++ List.replicate acc .shoot, nShoot := acc }
  else { d with nDrain := n }

def onShootRsp (d : D) : D :=
  let n := dec d.nShoot
  if n = 0 then
    let pages := match d.cur with | some r => r.pages | none => 0
    { d with nShoot := n, migToCP := d.migToCP + pages, nPages := d.nPages + pages }
  else { d with nShoot := n }

def onMigRsp (d : D) : D :=
  let n := dec d.nPages
  if n = 0 then
    let acc := match d.cur with | some r => r.acc | none => 0
    { d with nPages := n, migOne := false, toSend := d.toSend ++ List.replicate acc .restart,
             nRestart := d.nRestart + acc, toMMU := true }
  else { d with nPages := n, migOne := false }

def onRestartRsp (d : D) : D :=
  let n := dec d.nRestart
  if n = 0 then
    { d with nRestart := n, toSend := d.toSend ++ List.replicate d.nGpus .rdma, nRdma := d.nRdma + d.nGpus }
  else { d with nRestart := n }

def onRdmaRsp (d : D) : D :=
  let n := dec d.nRdma
  if n = 0 then { d with nRdma := n, cur := none, handling := false } else { d with nRdma := n }

/-- `processReturnReq`: every case retrieves the message and returns `true`; anything else stays -/
def processReturnReq : Stage D GMsg GReq := fun c =>
  match c.inb with
  | [] => (c, false)
  | m :: rest =>
    match m with
    | .kernRsp q => ({ c with inb := rest, d := { c.d with qs := updAt retQ q c.d.qs } }, true)
    | .drainRsp => ({ c with inb := rest, d := onDrainRsp c.d }, true)
    | .shootRsp => ({ c with inb := rest, d := onShootRsp c.d }, true)
    | .migRsp => ({ c with inb := rest, d := onMigRsp c.d }, true)
    | .restartRsp => ({ c with inb := rest, d := onRestartRsp c.d }, true)
    | .rdmaRsp => ({ c with inb := rest, d := onRdmaRsp c.d }, true)
    | _ => (c, false)

def setAt (i : Nat) (v : Bool) : List Bool → List Bool
  | [] => []
  | b :: bs => match i with
    | 0 => v :: bs
    | j + 1 => b :: setAt j v bs

/-- what starting the head of one queue adds to the driver: requests for `requestsToSend`,
    requests for the delay line, the new timer value (if restarted), context marked dirty -/
structure Started where
  send : List GReq := []
  await : List GReq := []
  cyc : Option Nat := none
  dirty : Bool := false

/-- `processNewCommandFromCmdQueue` of queue number `i`; `fl` = `needFlushing` (a buffer of the
    queue's context is L2-dirty) -/
def procQ (d : D) (i : Nat) (q : Q) : Q × Started × Bool :=
  match q.cmds with
  | [] => (q, {}, false)
  | c :: cs =>
    if q.running then (q, {}, false)
    else match c with
      | .noop => ({ q with cmds := cs }, {}, true)
      | .kern 0 => ({ q with cmds := cs }, {}, true)
      | .kern (n + 1) => ({ q with running := true, left := n + 1 }, { send := List.replicate (n + 1) (.launch i), dirty := true }, true)
      | .copy d2h pieces =>
        let fl := (d.dirty[q.ctx]?).getD false
        let nf := if fl then d.nGpus else 0
        let st : Started := { send := List.replicate nf (.flush i), await := List.replicate pieces (.copy i),
                              cyc := some (if d2h then d.cycD2H else d.cycH2D) }
        if nf + pieces = 0 then ({ q with cmds := cs, running := false, left := 0 }, st, true)
        else ({ q with running := true, left := nf + pieces }, st, true)
      | .mcopy => ({ q with cmds := cs }, {}, true)
      | .fl =>
        let st : Started := { send := List.replicate d.nGpus (.flush i) }
        if d.nGpus = 0 then ({ q with cmds := cs, running := false, left := 0 }, st, true)
        else ({ q with running := true, left := d.nGpus }, st, true)
      | .unhandled => (q, {}, false)      -- before the repair: `processCommandWithMiddleware`, nobody processed it

/-- apply what one started command adds -/
def applyStarted (d : D) (ctx : Nat) (st : Started) : D :=
  { d with toSend := d.toSend ++ st.send, awaiting := d.awaiting ++ st.await,
           cyc := match st.cyc with | some v => some v | none => d.cyc,
           dirty := if st.dirty then setAt ctx true d.dirty else d.dirty }

/-- `processNewCommand`: one pass over all queues (contexts in order, queues of a context in order);
    `d` is threaded: a kernel started on one queue makes the copy of a LATER queue of the same
    context flush in the same tick -/
def procAll (d : D) : Nat → List Q → D × List Q × Bool
  | _, [] => (d, [], false)
  | i, q :: rest =>
    let r1 := procQ d i q
    let d1 := applyStarted d q.ctx r1.2.1
    let r2 := procAll d1 (i + 1) rest
    (r2.1, r1.1 :: r2.2.1, r1.2.2 || r2.2.2)

def processNewCommand : Stage D GMsg GReq := fun c =>
  let r := procAll c.d 0 c.d.qs
  ({ c with d := { r.1 with qs := r.2.1 } }, r.2.2)

/-- `parseFromMMU` -/
def parseFromMMU : Stage D GMsg GReq := fun c =>
  if c.d.handling then (c, false)
  else match c.d.mIn with
    | [] => (c, false)
    | r :: rest =>
      ({ c with d := { c.d with mIn := rest, cur := some r, handling := true,
                                toSend := c.d.toSend ++ List.replicate c.d.nGpus .drain,
                                nDrain := c.d.nDrain + c.d.nGpus } }, true)

/-- names of the stages in program order (compared with the order extracted from the source of
    `Driver.Tick`: `Gen.C12Drv.tickOrder`) -/
def stageNames : List String :=
  ["sendToGPUs", "sendToMMU", "sendMigrationReqToCP", "middlewares", "processReturnReq", "processNewCommand", "parseFromMMU"]

/-- source names of what the model's constructors stand for (compared with the lists extracted from
    the source: `Gen.C12Drv`): the cases of `processReturnReq` in the order of its switch
    (`kernRsp, drainRsp, shootRsp, migRsp, rdmaRsp, restartRsp`), the request types whose
    `GeneralRsp` the middleware takes (`genRsp`), the command types with a handler (`noop`, `kern`
    = two launch commands, `copy` = two copy commands) -/
def returnCaseNames : List String :=
  ["LaunchKernelRsp", "RDMADrainRspToDriver", "ShootDownCompleteRsp", "PageMigrationRspToDriver", "RDMARestartRspToDriver", "GPURestartRsp"]
def generalRspNames : List String := ["FlushReq", "MemCopyH2DReq", "MemCopyD2HReq"]
def handledCommandNames : List String :=
  ["FlushCommand", "LaunchKernelCommand", "LaunchUnifiedMultiGPUKernelCommand", "MemCopyD2HCommand", "MemCopyH2DCommand", "NoopCommand"]
/-- the command types without a handler (`Cmd.unhandled` stood for `FlushCommand` before the repair): none -/
def unhandledCommandNames : List String := []

/-- the stages of `Driver.Tick` in program order -/
def stages (k : Caps) : List (Stage D GMsg GReq) :=
  [sendToGPUs k, sendToMMU k, sendMigrationReqToCP k, mwTick, processReturnReq, processNewCommand, parseFromMMU]

def tick (k : Caps) (c : C) : C × Bool := runStages (stages k) c

/-! ## sleep / wake with both ports and the GPU side -/

structure Sys where
  core : C
  awake : Bool := false
  owed : Bool := false
  /-- ghost: requests the GPU side has taken from the port and not yet answered -/
  ext : List GReq := []

inductive Ev
  | retrieveG                 -- the connection takes the head of the GPU port's outgoing buffer
  | answer (j : Nat)          -- the GPU side answers its `j`-th outstanding request
  | inject (m : GMsg)         -- ANY message is delivered to the GPU port (not an answer)
  | deliverM (r : MReq)       -- the MMU sends a page-migration request
  | retrieveM                 -- the connection takes a response from the MMU port
  | enq (i : Nat) (c : Cmd)   -- an application thread enqueues (no wake-up: `Driver.Enqueue`)
  | kick                      -- `runAsync`: Pause; TickLater; Continue
  | tick                      -- the engine handles the tick event (if one is scheduled)

def deliverG (k : Caps) (s : Sys) (m : GMsg) : Sys :=
  if s.core.inb.length < k.gIn then
    { s with core := { s.core with inb := s.core.inb ++ [m] }, awake := s.awake || s.core.inb.isEmpty }
  else s

def enqCmd (i : Nat) (cmd : Cmd) (d : D) : D :=
  { d with qs := updAt (fun q => { q with cmds := q.cmds ++ [cmd] }) i d.qs }

def step (k : Caps) (s : Sys) : Ev → Sys
  | .retrieveG => match s.core.outb with
    | [] => s
    | x :: rest => { s with core := { s.core with outb := rest }, awake := s.awake || (s.core.outb.length == k.gOut),
                            ext := s.ext ++ [x] }
  | .answer j => match s.ext[j]? with
    | none => s
    | some x =>
      if s.core.inb.length < k.gIn then deliverG k { s with ext := s.ext.eraseIdx j } x.answer else s
  | .inject m => deliverG k s m
  | .deliverM r =>
    if s.core.d.mIn.length < k.mIn then
      { s with core := { s.core with d := { s.core.d with mIn := s.core.d.mIn ++ [r] } }, awake := s.awake || s.core.d.mIn.isEmpty }
    else s
  | .retrieveM => match s.core.d.mOut with
    | 0 => s
    | n + 1 => { s with core := { s.core with d := { s.core.d with mOut := n } }, awake := s.awake || (n + 1 == k.mOut) }
  | .enq i c => { s with core := { s.core with d := enqCmd i c s.core.d }, owed := true }
  | .kick => { s with awake := true, owed := false }
  | .tick =>
    if s.awake then
      let r := tick k s.core
      { s with core := r.1, awake := r.2 }
    else s

def run (k : Caps) (s : Sys) (evs : List Ev) : Sys := evs.foldl (step k) s

/-- the GPU side only answers requests it was sent -/
def Ev.legit : Ev → Bool
  | .inject _ => false
  | .enq _ c => c.handled
  | _ => true

/-- configuration: GPUs, delay-line lengths, context of every queue (in the driver's order) -/
structure Cfg where
  nGpus : Nat := 1
  cycH2D : Nat := 0
  cycD2H : Nat := 0
  ctxs : List Nat := []
  /-- built `WithMagicMemoryCopyMiddleware`: the middleware's `Tick` is `return false` (no delay line:
      `cyc` starts idle and no request whose answer it would take is ever created) -/
  magic : Bool := false
deriving DecidableEq, Repr

def initD (cfg : Cfg) (fresh : Bool) : D :=
  { nGpus := cfg.nGpus, cycH2D := cfg.cycH2D, cycD2H := cfg.cycD2H,
    qs := cfg.ctxs.map fun c => { ctx := c },
    dirty := List.replicate (cfg.ctxs.foldl (fun m c => max m (c + 1)) 0) false,
    cyc := if fresh then some 0 else none }

def init (cfg : Cfg) : Sys := { core := { d := initD cfg (!cfg.magic) } }

/-! ## what is left to do -/

/-- the head of the queue can be started now (and somebody handles its type) -/
def startable (q : Q) : Prop := q.running = false ∧ ∃ c cs, q.cmds = c :: cs ∧ c.handled = true
/-- … whatever its type -/
def startableAny (q : Q) : Prop := q.cmds ≠ [] ∧ q.running = false
instance (q : Q) : Decidable (startableAny q) := by unfold startableAny; exact inferInstance

/-- something is left for `Tick` to do -/
def work (k : Caps) (c : C) : Prop :=
  c.inb ≠ []                                                    -- a message waits in the GPU port
  ∨ (c.d.mIn ≠ [] ∧ c.d.handling = false)                       -- a migration request can be taken
  ∨ (∃ q ∈ c.d.qs, startable q)                                 -- a command can be started
  ∨ (c.d.toSend ≠ [] ∧ c.outb.length < k.gOut)                  -- a request can be sent
  ∨ (c.d.cyc ≠ none ∧ c.d.awaiting ≠ [])                        -- the delay line is counting for a copy request
  ∨ (c.d.toMMU = true ∧ c.d.mOut < k.mOut)                      -- the answer to the MMU can be sent
  ∨ (c.d.migToCP ≠ 0 ∧ c.d.migOne = false ∧ c.outb.length < k.gOut)  -- the next page can be migrated

/-- every message in the GPU port is one some stage takes -/
def Clean (c : C) : Prop := ∀ m ∈ c.inb, m.known = true

/-! ## case lines `c12 full gpus=G h2d=A d2h=B ctxs=c0,c1,… ; ops`
Event-driven replay on the real `TickingComponent` / ports (`harness/c12_full.go`): the harness owns
the engine's event list, `T` lets the engine handle the pending tick event (real
`TickingComponent.Handle`: `Tick`, then `TickLater` iff progress), deliveries and retrievals go
through the real `Port.Deliver` / `RetrieveOutgoing` (which wake the driver or do not), `K` is
`runAsync`'s `TickLater`. After every operation the trace records whether a tick event is pending. -/

inductive Op
  | enq (q : Nat) (c : Cmd)
  | kick
  | tick
  | out
  | ans (j : Nat)
  | mmu (acc pages : Nat)
  | mout
  | inj (m : GMsg)
deriving DecidableEq, Repr

def parseOp (w : String) : Option Op :=
  match w.splitOn ":" with
  | ["n", q] => q.toNat?.map fun q => .enq q .noop
  | ["k", q, n] => match q.toNat?, n.toNat? with
    | some q, some n => some (.enq q (.kern n))
    | _, _ => none
  | ["c", q, dir, p] => match q.toNat?, p.toNat? with
    | some q, some p => if dir = "h" then some (.enq q (.copy false p)) else if dir = "d" then some (.enq q (.copy true p)) else none
    | _, _ => none
  | ["g", q] => q.toNat?.map fun q => .enq q .mcopy
  | ["f", q] => q.toNat?.map fun q => .enq q .fl
  | ["u", q] => q.toNat?.map fun q => .enq q .unhandled   -- the driver before the repair (Lean-side witnesses only)
  | ["K"] => some .kick
  | ["T"] => some .tick
  | ["o"] => some .out
  | ["a", j] => j.toNat?.map .ans
  | ["m", a, p] => match a.toNat?, p.toNat? with
    | some a, some p => some (.mmu a p)
    | _, _ => none
  | ["u"] => some .mout
  | ["x"] => some (.inj .foreignGen)
  | ["y"] => some (.inj .foreign)
  | _ => none

def showReq : GReq → String
  | .launch q => s!"L{q}" | .flush q => s!"F{q}" | .copy q => s!"C{q}"
  | .drain => "Dr" | .shoot => "Sh" | .mig => "Mg" | .restart => "Rs" | .rdma => "Rr"

/-- the event of an operation and what the harness sees of it (besides the wake flag) -/
def opEv (k : Caps) (s : Sys) : Op → Ev × String
  | .enq q c => (.enq q c, "e")
  | .kick => (.kick, "K")
  | .tick => (.tick, if s.awake then (if (tick k s.core).2 then "1" else "0") else "z")
  | .out => (.retrieveG, match s.core.outb with | [] => "-" | x :: _ => showReq x)
  | .ans j => (.answer j, match s.ext[j]? with | none => "?" | some _ => "a")
  | .mmu a p => (.deliverM ⟨a, p⟩, if s.core.d.mIn.length < k.mIn then "ok" else "full")
  | .mout => (.retrieveM, match s.core.d.mOut with | 0 => "-" | _ + 1 => "M")
  | .inj m => (.inject m, "i")

def runSys (k : Caps) (s : Sys) : List Op → List String → Sys × List String
  | [], acc => (s, acc.reverse)
  | op :: ops, acc =>
    let r := opEv k s op
    let s' := step k s r.1
    runSys k s' ops ((r.2 ++ (if s'.awake then "!" else ".")) :: acc)

def b01 (b : Bool) : String := if b then "1" else "0"
def showQ (q : Q) : String := s!"{q.cmds.length}{if q.running then "*" else ""}{q.left}"
def showCyc : Option Nat → String
  | none => "-"
  | some n => toString n

def showD (d : D) : String :=
  Util.joinWith "," (d.qs.map showQ) ++
  s!" | ts={d.toSend.length} aw={d.awaiting.length} cyc={showCyc d.cyc} | hs={b01 d.handling}{b01 d.migOne}{b01 d.toMMU} n={d.nDrain},{d.nShoot},{d.nPages},{d.nRestart},{d.nRdma} cp={d.migToCP}"

def handleFull (cfg : Cfg) (ops : List Op) : String :=
  let k : Caps := {}
  let r := runSys k (init cfg) ops []
  Util.joinWith " " r.2 ++ " | " ++ showD r.1.core.d ++
    s!" | in={r.1.core.inb.length} out={r.1.core.outb.length} min={r.1.core.d.mIn.length} mout={r.1.core.d.mOut} ext={r.1.ext.length}"

def handleLine (t : List String) (rest : List String) : String :=
  match Util.kvNat? t "gpus", Util.kvNat? t "h2d", Util.kvNat? t "d2h", (Util.kv? t "ctxs").bind (Util.natList? ·),
        (rest.flatMap Util.words).mapM parseOp with
  | some g, some a, some b, some ctxs, some ops =>
    handleFull { nGpus := g, cycH2D := a, cycD2H := b, ctxs := ctxs, magic := (Util.kv? t "magic") == some "1" } ops
  | _, _, _, _, _ => "bad"

end Full
end W
end C12
