import MgpuModel.C13Elf
/-!
# C13 — which bytes of the file the loader reads, and a writer of ELF64 files

Specification-side definitions (nothing here is executed by the correspondence):

* `readRanges f` — the byte ranges of the file `f` that `elf.NewFile` + the loader read, as a
  function of the file itself: the 64-byte ELF header, the two `int64` fields of every program
  header that `NewFile` range-checks, the first 44 bytes of every section header, the section-name
  string table, the symbol table, its linked string table, and the sections named `.text` /
  `.rodata`.  `AgreeOn f g R` (decidable): same length, same bytes on `R`.
* `writeElf` — a writer for the class the loader reads: ELF64-LE, no program headers, section
  header table right after the ELF header, then the payload.
-/
namespace C13
namespace Elf

/-- the byte range of the file that `Section.Data()` of this section reads -/
def secRange (sh : Shdr) : Nat × Nat := if sh.type = SHT_NOBITS then (0, 0) else (sh.off, sh.size)

/-- ELF header; `p_offset`/`p_filesz` of every program header; the first 44 bytes (`sh_name` …
`sh_link`) of every section header -/
def hdrRanges (f : Bytes) : List (Nat × Nat) :=
  (0, 64) ::
  ((List.range (u16 f 56)).map (fun i => (u64 f 32 + i * u16 f 54 + 8, 8)) ++
   (List.range (u16 f 56)).map (fun i => (u64 f 32 + i * u16 f 54 + 32, 8)) ++
   (List.range (u16 f 60)).map (fun i => (u64 f 40 + i * u16 f 58, 44)))

/-- the two section names whose data the loader asks for -/
def isCode (n : String) : Bool := n == ".text" || n == ".rodata"

/-- the symbol table `Symbols()` reads (first `SHT_SYMTAB` section) and its `sh_link` string table -/
def symRanges (secs : List ESection) : List (Nat × Nat) :=
  match secs.find? (fun s => s.sh.type == SHT_SYMTAB) with
  | some st =>
    secRange st.sh ::
      (match secs[st.sh.link]? with
       | some s => [secRange s.sh]
       | none => [])
  | none => []

/-- every section named `.text` / `.rodata` -/
def codeRanges (secs : List ESection) : List (Nat × Nat) :=
  (secs.filter (fun s => isCode s.name)).map (fun s => secRange s.sh)

/-- section-name string table (when `shstrndx ≠ 0`), then `symRanges`, `codeRanges` -/
def bodyRanges (f : Bytes) : List (Nat × Nat) :=
  match parseHeaders f with
  | .ok shs ndx =>
    (if ndx = 0 then [] else
      match shs[ndx]? with
      | some sh => [secRange sh]
      | none => []) ++
    (match parse f with
     | .ok secs => symRanges secs ++ codeRanges secs
     | _ => [])
  | _ => []

def readRanges (f : Bytes) : List (Nat × Nat) := hdrRanges f ++ bodyRanges f

/-- what a load of the kernel named `k` reads of `.text` and `.rodata`: the range of the selected
symbol (first kernel symbol named `k`; `uint64` offset arithmetic as in the loader) and the 64 bytes
of the descriptor `<k>.kd` -/
def selRanges (f : Bytes) (secs : List ESection) (syms : List Symbol) (k : String) : List (Nat × Nat) :=
  (match secs.find? (fun s => s.name == ".text") with
   | none => []
   | some t =>
     match firstKernelSym (sectionsOf f secs) syms k with
     | none => []
     | some s => [(t.sh.off + wrapSub s.value t.sh.addr, s.size)]) ++
  (match secs.find? (fun s => s.name == ".rodata") with
   | none => []
   | some ro =>
     match syms.find? (fun s => s.name == k ++ ".kd" && s.size == 64) with
     | none => []
     | some s => if ro.sh.addr ≤ s.value then [(ro.sh.off + (s.value - ro.sh.addr), 64)] else [])

/-- the ranges a load **by name** reads: headers, section-name table, symbol table and its strings,
and — when the symbol table is readable — only `selRanges` of `.text` / `.rodata` for the name
(for the empty name: of the single kernel symbol; nothing when there are several; the whole
sections when there is none); the whole of these sections when `Symbols()` fails -/
def namedRanges (f : Bytes) (k : String) : List (Nat × Nat) :=
  hdrRanges f ++
  match parseHeaders f with
  | .ok shs ndx =>
    (if ndx = 0 then [] else
      match shs[ndx]? with
      | some sh => [secRange sh]
      | none => []) ++
    (match parse f with
     | .ok secs =>
       symRanges secs ++
       (match symbolsOf f secs with
        | .ok syms =>
          if k = "" then
            match syms.filter (isKernelSym (sectionsOf f secs)) with
            | [] => codeRanges secs
            | [s] => selRanges f secs syms s.name
            | _ => []
          else selRanges f secs syms k
        | _ => codeRanges secs)
     | _ => [])
  | _ => []

/-- same bytes on `[o, o+n)` -/
def AgOn (f g : Bytes) (o n : Nat) : Prop := ∀ j, j < n → f[o + j]? = g[o + j]?

/-- same length, same bytes on every range of `R` -/
def AgreeOn (f g : Bytes) (R : List (Nat × Nat)) : Prop :=
  f.length = g.length ∧ ∀ r, r ∈ R → ∀ j, j < r.2 → f[r.1 + j]? = g[r.1 + j]?

instance (f g : Bytes) (R : List (Nat × Nat)) : Decidable (AgreeOn f g R) := by
  unfold AgreeOn; exact inferInstance

/-- replace one byte -/
def poke (f : Bytes) (i : Nat) (b : UInt8) : Bytes := f.set i b

/-! ## a writer of ELF64-LE files (the subset the loader reads)

Layout: ELF header (64 bytes, `e_shoff = 64`, no program headers), the section header table
(`64 · n` bytes), then the payload `blob`; section offsets are absolute file offsets. -/

/-- one `Section64` header; `sh_info`, `sh_addralign`, `sh_entsize` (not read) written as 0 -/
def encShdr (s : Shdr) : Bytes :=
  le32 s.nameIdx ++ le32 s.type ++ le64 s.flags ++ le64 s.addr ++ le64 s.off ++ le64 s.size ++
  le32 s.link ++ le32 0 ++ le64 0 ++ le64 0

/-- the low-level description of a file: the fields of the ELF header the parser does not fix,
the section headers, the section-name table index, the bytes after the section header table -/
structure Raw where
  etype : Nat
  machine : Nat
  entry : Nat
  eflags : Nat
  shs : List Shdr
  shstrndx : Nat
  blob : Bytes
  deriving DecidableEq, Repr

def encEhdr (r : Raw) : Bytes :=
  [0x7f, 0x45, 0x4c, 0x46, 2, 1, 1, 0, 0, 0, 0, 0, 0, 0, 0, 0] ++
  le16 r.etype ++ le16 r.machine ++ le32 1 ++ le64 r.entry ++ le64 0 ++ le64 64 ++ le32 r.eflags ++
  le16 64 ++ le16 0 ++ le16 0 ++ le16 64 ++ le16 r.shs.length ++ le16 r.shstrndx

def writeRaw (r : Raw) : Bytes := encEhdr r ++ ((r.shs.map encShdr).flatten ++ r.blob)

/-- the fields of a section header fit their widths; offsets/sizes are non-negative `int64`;
not `SHF_COMPRESSED` -/
def shdrWF (s : Shdr) : Bool :=
  decide (s.nameIdx < 4294967296) && decide (s.type < 4294967296) && decide (s.flags < U64) &&
  decide (s.addr < U64) && decide (s.off < I63) && decide (s.size < I63) && decide (s.link < 4294967296) &&
  !(s.flags / SHF_COMPRESSED % 2 == 1)

/-- decidable well-formedness of a `Raw` description: at least one section header, fewer than
2^16, `shstrndx` names one of them, every header well-formed -/
def rawWF (r : Raw) : Bool :=
  decide (0 < r.shs.length) && decide (r.shs.length < 65536) && decide (r.shstrndx < r.shs.length) &&
  r.shs.all shdrWF

/-! ### the writer proper: sections with names and data, symbols with names -/

/-- one section of the description: name (bytes, no NUL), header fields, contents -/
structure WSec where
  name : Bytes
  type : Nat
  flags : Nat
  addr : Nat
  link : Nat
  data : Bytes
  deriving DecidableEq, Repr

structure WSym where
  name : Bytes
  value : Nat
  size : Nat
  shndx : Nat
  deriving DecidableEq, Repr

/-- what a code object is, as far as the loader can tell: free ELF header fields, the sections
(`.text`, `.rodata`, anything else — placed at section indices 1, 2, …) and the symbols -/
structure Spec where
  etype : Nat
  machine : Nat
  entry : Nat
  eflags : Nat
  secs : List WSec
  syms : List WSym
  deriving DecidableEq, Repr

/-- a string table: every name followed by NUL -/
def strTab (names : List Bytes) : Bytes := (names.map (fun n => n ++ [0])).flatten

/-- the sections as `elf.NewFile` will report them when the names start at `nOff` of the name
table and the contents at file offset `dOff` -/
def mkSecs (nOff dOff : Nat) : List WSec → List ESection
  | [] => []
  | s :: rest =>
    { name := strOf s.name
      sh := { nameIdx := nOff, type := s.type, flags := s.flags, addr := s.addr, off := dOff,
              size := s.data.length, link := s.link } } ::
    mkSecs (nOff + (s.name.length + 1)) (dOff + s.data.length) rest

/-- one `Sym64`: name index, `STB_GLOBAL|STT_FUNC`, `st_other` 0, section, value, size -/
def encSym (nameIdx : Nat) (s : WSym) : Bytes :=
  le32 nameIdx ++ [0x12, 0] ++ le16 s.shndx ++ le64 s.value ++ le64 s.size

def encSyms (nOff : Nat) : List WSym → Bytes
  | [] => []
  | s :: rest => encSym nOff s ++ encSyms (nOff + (s.name.length + 1)) rest

def symtabName : Bytes := [46, 115, 121, 109, 116, 97, 98]
def strtabName : Bytes := [46, 115, 116, 114, 116, 97, 98]
def shstrtabName : Bytes := [46, 115, 104, 115, 116, 114, 116, 97, 98]

/-- null section, the described sections, `.symtab` (linked to the next), `.strtab`, `.shstrtab` -/
def allSecs (sp : Spec) : List WSec :=
  { name := [], type := 0, flags := 0, addr := 0, link := 0, data := [] } :: (sp.secs ++
  [{ name := symtabName, type := SHT_SYMTAB, flags := 0, addr := 0, link := sp.secs.length + 2,
     data := List.replicate 24 0 ++ encSyms 1 sp.syms },
   { name := strtabName, type := SHT_STRTAB, flags := 0, addr := 0, link := 0,
     data := strTab ([] :: sp.syms.map (·.name)) },
   { name := shstrtabName, type := SHT_STRTAB, flags := 0, addr := 0, link := 0,
     data := strTab ([] :: (sp.secs.map (·.name) ++ [symtabName, strtabName, shstrtabName])) }])

/-- file offset of the payload -/
def baseOff (sp : Spec) : Nat := 64 + 64 * (sp.secs.length + 4)

/-- the sections `elf.NewFile` must report for `writeElf sp` -/
def specSecs (sp : Spec) : List ESection := mkSecs 0 (baseOff sp) (allSecs sp)

/-- the symbols `Symbols()` must report -/
def specSyms (sp : Spec) : List Symbol :=
  sp.syms.map (fun s => { name := strOf s.name, value := s.value, size := s.size, shndx := s.shndx })

def layout (sp : Spec) : Raw :=
  { etype := sp.etype, machine := sp.machine, entry := sp.entry, eflags := sp.eflags,
    shs := (specSecs sp).map (·.sh), shstrndx := sp.secs.length + 3,
    blob := ((allSecs sp).map (·.data)).flatten }

/-- **the writer** -/
def writeElf (sp : Spec) : Bytes := writeRaw (layout sp)

def noNul (n : Bytes) : Bool := n.all (· != 0)

def wsecWF (s : WSec) : Bool :=
  noNul s.name && decide (s.type < 4294967296) && decide (s.type ≠ SHT_SYMTAB) && decide (s.flags < U64) &&
  !(s.flags / SHF_COMPRESSED % 2 == 1) && decide (s.addr < U64) && decide (s.link < 4294967296) &&
  (decide (s.type ≠ SHT_NOBITS) || s.data.isEmpty)

def wsymWF (s : WSym) : Bool :=
  noNul s.name && decide (s.value < U64) && decide (s.size < U64) && decide (s.shndx < 65536)

/-- decidable well-formedness of a description: fields fit their widths, names have no NUL, no
second symbol table, `SHT_NOBITS` sections are empty, fewer than 2^16 sections, both string
tables shorter than 2^32 and the file shorter than 2^63 -/
def specWF (sp : Spec) : Bool :=
  sp.secs.all wsecWF && sp.syms.all wsymWF && decide (sp.secs.length + 4 < 65536) &&
  decide ((strTab ([] :: sp.syms.map (·.name))).length < 4294967296) &&
  decide ((strTab ([] :: (sp.secs.map (·.name) ++ [symtabName, strtabName, shstrtabName]))).length < 4294967296) &&
  decide (baseOff sp + (((allSecs sp).map (·.data)).flatten).length < I63)

/-- the view the loader must get from `writeElf sp`: every section with its name, address and
contents, and the symbols -/
def specView (sp : Spec) : View :=
  { sections := (allSecs sp).map (fun s => { name := strOf s.name, addr := s.addr, data := some s.data })
    symbols := some (specSyms sp) }

/-! ### line protocol: `c13 wr` (the writer against an independent Go implementation of the layout) -/

def wrBytes (t : String) : Bytes := if t = "e" then [] else hexToBytes t

/-- `c13 wr <etype> <machine> <entry> <eflags> ; S <name> <type> <flags> <addr> <link> <data> ; … ;
Y <name> <value> <size> <shndx> ; …` (numbers decimal, names and data hex or `e`): the hex of
`writeElf spec`, or `illformed` when `specWF` fails -/
def handleWr (a b c d : String) (parts : List String) : String :=
  let num (t : String) : Nat := t.toNat?.getD 0
  let (secs, syms) := parts.foldl (fun (acc : List WSec × List WSym) p =>
    match Util.words p with
    | ["S", n, t, fl, ad, lk, dt] =>
      ({ name := wrBytes n, type := num t, flags := num fl, addr := num ad, link := num lk, data := wrBytes dt } :: acc.1, acc.2)
    | ["Y", n, v, sz, sh] =>
      (acc.1, { name := wrBytes n, value := num v, size := num sz, shndx := num sh } :: acc.2)
    | _ => acc) ([], [])
  let sp : Spec := { etype := num a, machine := num b, entry := num c, eflags := num d,
                     secs := secs.reverse, syms := syms.reverse }
  if specWF sp then Util.bytesHex ((writeElf sp).map (·.toNat)) else "illformed"

end Elf
end C13
