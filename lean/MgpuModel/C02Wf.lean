import MgpuModel.Util
/-!
C02 (deepening) — one wavefront executed by the timing compute unit, as an event machine, next to
the emulator's sequential loop (`emu.ComputeUnit.runWfUntilBarrier`).

Both run the *same* instruction semantics (`emu.ALU.Run`; the fields `f`, `tgt`, `ld`, `stf` of `Inst`).
What differs is WHEN things happen in timing mode:

* `Scheduler.DoFetch` / `ComputeUnit.handleFetchReturn` fill the per-wavefront instruction buffer
  (`fetch`, `fetchRet`), `Scheduler.DecodeNextInst` decodes from it (`resync`, `decode`),
* `IssueArbiter.Arbitrate` + `Scheduler.DoIssue` issue the decoded instruction only when the wavefront
  is `WfReady` and the target unit / scoreboard let it (`issue`; the wavefront becomes `WfRunning`),
* the unit calls `alu.Run` (`exec`) and later `ComputeUnit.UpdatePCAndSetReady` (`complete`);
  the vector memory unit / scalar unit capture the operands (coalescer, `executeSMEMLoad`), bump the
  outstanding counters and release the wavefront at once — the access itself is *in flight*,
* the memory system performs the access some time later (`serveV`, `serveS`) and the response comes
  back (`retV` in request order — reorder buffer, C15 —, `retS` in any order) and only then writes
  the destination registers and decrements the counters,
* `s_waitcnt` sits in `internalExecuting` until the counters are low enough, `s_endpgm` until both are 0,
* somebody else may write memory the wavefront does not own (`env`).

`tstep` is the transcription of those rules for one wavefront: one event in, `none` when the rules of
the compute unit do not allow the event in that state. `estep` is the emulator. The theorems
(`MgpuProofs/Props/C02Wf.lean`) are about every event sequence `tstep` accepts.
-/
namespace C02.Wf
open Util

abbrev RF := Nat → Nat
abbrev Mem := Nat → Nat

/-- PC arithmetic is uint64 -/
def PCM : Nat := 18446744073709551616
def pcAdd (p s : Nat) : Nat := (p + s) % PCM

inductive Kind
  | alu (u : Nat)          -- `alu.Run` in the scalar unit (0), a SIMD unit (1), the LDS unit (2)
  | branch                 -- `alu.Run` in the branch unit: sets the PC; the fetch buffer is dropped
  | vload                  -- FLAT load through the vector memory unit
  | vstore                 -- FLAT store
  | sload                  -- SMEM load through the scalar unit
  | wait (vm lgkm : Nat)   -- s_waitcnt (ExeUnitSpecial, `evalSWaitCnt`)
  | nop                    -- any other ExeUnitSpecial instruction (`default:` of EvaluateInternalInst)
  | endpgm
deriving DecidableEq, Repr

/-- An instruction as both simulators see it: static operand lists plus the semantics `emu.ALU`
    gives it. Register ids are abstract cells (SGPR, VGPR lane, SCC, LDS byte …). -/
structure Inst where
  kind : Kind
  size : Nat
  /-- registers read when the unit executes the instruction -/
  rd : List Nat := []
  /-- registers it may write (ALU: at execute; loads: when the response returns) -/
  wr : List Nat := []
  /-- static alias class of the memory it touches (different regions never overlap) -/
  region : Nat := 0
  /-- ALU effect; the first argument is the PC `alu.Run` sees -/
  f : Nat → RF → RF := fun _ r => r
  /-- branch: the PC `alu.Run` leaves, from the PC it sees -/
  tgt : RF → Nat → Nat := fun _ p => p
  /-- loads: the registers actually written (active lanes) -/
  wrD : RF → List Nat := fun _ => []
  /-- loads: the register file after the load (emulator: `runFlatLoad*`, `runSLOAD*`) -/
  ld : RF → Mem → RF := fun r _ => r
  /-- stores: the memory after the store -/
  stf : RF → Mem → Mem := fun _ m => m
  /-- the byte ranges (address, length) of memory the access touches -/
  fpl : RF → List (Nat × Nat) := fun _ => []
  /-- the coalescer produced no transaction (EXEC = 0): nothing is in flight, no counter moves -/
  noTxn : RF → Bool := fun _ => false

def inRanges (rs : List (Nat × Nat)) (a : Nat) : Bool := rs.any fun p => decide (p.1 ≤ a ∧ a < p.1 + p.2)

def rangesDisjoint (rs rs' : List (Nat × Nat)) : Bool :=
  rs.all fun p => rs'.all fun q => decide (p.1 + p.2 ≤ q.1 ∨ q.1 + q.2 ≤ p.1)

/-- bytes of memory the access touches -/
def Inst.fp (i : Inst) (r : RF) (a : Nat) : Bool := inRanges (i.fpl r) a

def Inst.isLoad (i : Inst) : Bool := match i.kind with | .vload => true | .sload => true | _ => false
def Inst.isStore (i : Inst) : Bool := match i.kind with | .vstore => true | _ => false
def Inst.isMem (i : Inst) : Bool := i.isLoad || i.isStore

/-- instruction memory (immutable), the decoder, and the addresses nobody else writes -/
structure Prog where
  imem : Nat → Nat
  dec : List Nat → Option Inst
  /-- addresses nobody else writes (the wavefront may read and write them) -/
  own : Nat → Bool
  /-- addresses the wavefront may write (nobody else reads or writes them) -/
  wown : Nat → Bool
  /-- the compute unit BEFORE the two repairs (`getpc_differs_before_fix`, `vmcnt_skips_empty_access_before_fix`):
      the scalar unit ran `alu.Run` with the PC still on the instruction, and a FLAT access without
      transactions completed at once -/
  oldCU : Bool := false

def Prog.window (P : Prog) (a n : Nat) : List Nat := (List.range n).map fun k => P.imem (a + k)

/-- the emulator reads 8 bytes at the PC and decodes them -/
def Prog.instAt (P : Prog) (pc : Nat) : Option Inst := P.dec (P.window pc 8)

/-! ## the emulator -/

structure EState where
  pc : Nat
  regs : RF
  mem : Mem
  /-- PCs of the executed instructions, in order (the instruction hook) -/
  trace : List Nat := []
  done : Bool := false

/-- one iteration of `runWfUntilBarrier`: decode at PC, PC += size, log, `alu.Run` -/
def estep (P : Prog) (s : EState) : Option EState :=
  if s.done then none else
  match P.instAt s.pc with
  | none => none
  | some i =>
    let pc' := pcAdd s.pc i.size
    let tr := s.trace ++ [s.pc]
    match i.kind with
    | .endpgm => some { s with pc := pc', trace := tr, done := true }
    | .alu _ => some { s with pc := pc', trace := tr, regs := i.f pc' s.regs }
    | .branch => some { s with pc := i.tgt s.regs pc', trace := tr }
    | .vload => some { s with pc := pc', trace := tr, regs := i.ld s.regs s.mem }
    | .sload => some { s with pc := pc', trace := tr, regs := i.ld s.regs s.mem }
    | .vstore => some { s with pc := pc', trace := tr, mem := i.stf s.regs s.mem }
    | .wait _ _ => some { s with pc := pc', trace := tr }
    | .nop => some { s with pc := pc', trace := tr }

/-- `n` instructions of the emulator -/
def erun (P : Prog) : Nat → EState → Option EState
  | 0, s => some s
  | n + 1, s => match estep P s with
    | none => none
    | some s' => erun P n s'

/-! ## the hazard check (the "correct s_waitcnt placement" predicate)

`HState` over-approximates the memory instructions that may still be in flight, each with the byte
ranges it touches. -/

abbrev Ranges := List (Nat × Nat)

structure HState where
  pv : List (Inst × Ranges) := []   -- vector memory instructions possibly in flight, oldest first
  ps : List (Inst × Ranges) := []   -- scalar loads possibly in flight

def disj (a b : List Nat) : Bool := a.all fun x => !b.contains x

/-- no register the instruction reads or writes is the destination of a load in flight -/
def regOK (H : HState) (i : Inst) : Bool :=
  (H.pv ++ H.ps).all fun q => !q.1.isLoad || disj (i.rd ++ i.wr) q.1.wr

/-- a memory access does not overlap an access in flight when one of them is a store
    (`static`: without looking at addresses — any two accesses are assumed to overlap unless their
    alias classes differ) -/
def memOK (static : Bool) (H : HState) (i : Inst) (fp : Ranges) : Bool :=
  (H.pv ++ H.ps).all fun q => !(q.1.isStore || i.isStore) ||
    (if static then q.1.region != i.region else rangesDisjoint q.2 fp)

/-- `s_waitcnt vmcnt(vm) lgkmcnt(lgkm)`: FLAT accesses count in both counters, so `lgkmcnt(0)` drains
    everything; otherwise vector responses are in order and all but the youngest `vm` have returned;
    nothing is known about scalar loads (they return in any order). -/
def afterWait (H : HState) (vm lgkm : Nat) : HState :=
  if lgkm = 0 then {} else { pv := H.pv.drop (H.pv.length - vm), ps := H.ps }

/-- one instruction through the check. `static = true`: the check a compiler can do (addresses
    unknown, every FLAT instruction counts: `fp = []`, `empty = false`). `static = false`: next to the
    emulator, with the byte ranges `fp` the access touches and `empty` = the coalescer forms no
    transaction (EXEC = 0) — such an access is checked, is not counted, and (repaired compute unit)
    executes only after every older vector access of the wavefront has returned: nothing is in flight
    after it. (`old`: before the repair it completed at once and the set stayed as it was.) -/
def hstep (static old : Bool) (H : HState) (i : Inst) (fp : Ranges) (empty : Bool) : Option HState :=
  match i.kind with
  | .wait vm lgkm => some (afterWait H vm lgkm)
  | .endpgm => some {}
  | .nop => some H
  | .alu _ => if regOK H i then some H else none
  | .branch => if regOK H i then some H else none
  | .vload => if regOK H i && memOK static H i fp then
      some (if empty then (if old then H else { H with pv := [] }) else { H with pv := H.pv ++ [(i, fp)] }) else none
  | .vstore => if regOK H i && memOK static H i fp then
      some (if empty then (if old then H else { H with pv := [] }) else { H with pv := H.pv ++ [(i, fp)] }) else none
  | .sload => if regOK H i && memOK static H i fp then some { H with ps := H.ps ++ [(i, fp)] } else none

/-- the static check of a straight-line instruction sequence: a decidable predicate on the program -/
def hcheckFrom (H : HState) : List Inst → Bool
  | [] => true
  | i :: is => match hstep true false H i [] false with
    | none => false
    | some H' => hcheckFrom H' is

def hcheck (l : List Inst) : Bool := hcheckFrom {} l

/-- all the bytes of a list of ranges -/
def expand (rs : Ranges) : List Nat := rs.flatMap fun p => List.range' p.1 p.2

/-- an access stays inside the memory nobody else writes, a store inside the memory nobody else uses -/
def accOK (P : Prog) (i : Inst) (r : RF) : Bool :=
  (expand (i.fpl r)).all P.own && (!i.isStore || (expand (i.fpl r)).all P.wown)

/-- emulator and (address-exact) hazard check side by side -/
def ehstep (P : Prog) (x : EState × HState) : Option (EState × HState) :=
  if x.1.done then none else
  match P.instAt x.1.pc with
  | none => none
  | some i =>
    match hstep false P.oldCU x.2 i (i.fpl x.1.regs) (i.noTxn x.1.regs), estep P x.1 with
    | some H', some E' => if accOK P i x.1.regs then some (E', H') else none
    | _, _ => none

def ehrun (P : Prog) : Nat → EState × HState → Option (EState × HState)
  | 0, x => some x
  | n + 1, x => match ehstep P x with
    | none => none
    | some y => ehrun P n y

/-- the emulator's run from `E` ends within `fuel` instructions and every executed instruction passes
    the hazard check: decidable for a given program, input and bound -/
def hazardFreeRun (P : Prog) : Nat → EState × HState → Bool
  | 0, x => x.1.done
  | n + 1, x => if x.1.done then true else
    match ehstep P x with
    | none => false
    | some y => hazardFreeRun P n y

/-- the program at `pc` is the straight-line instruction list `is` (no branch), ending in `s_endpgm` -/
def StraightLine (P : Prog) : Nat → List Inst → Prop
  | _, [] => False
  | pc, i :: rest => P.instAt pc = some i ∧ i.kind ≠ .branch ∧ (i.kind = .endpgm ∨ StraightLine P (pcAdd pc i.size) rest)

def Inst.isVMem (i : Inst) : Bool := match i.kind with | .vload => true | .vstore => true | _ => false

/-- every access the emulator executes (within `n` steps) stays inside owned memory -/
def accRun (P : Prog) : Nat → EState → Bool
  | 0, _ => true
  | n + 1, s => if s.done then true else
    match P.instAt s.pc, estep P s with
    | some i, some s' => accOK P i s.regs && accRun P n s'
    | _, _ => true

/-! ## the timing compute unit, one wavefront -/

inductive Phase
  | ready      -- WfReady
  | issued     -- WfRunning, handed to a unit / `internalExecuting`, not executed yet
  | executed   -- WfRunning, `alu.Run` done, write stage (`UpdatePCAndSetReady`) pending
  | done       -- WfCompleted
deriving DecidableEq, Repr

/-- a memory instruction in flight (`InFlightVectorMemAccess` / `InFlightScalarMemAccess`) -/
structure Pend where
  inst : Inst
  /-- the registers as the coalescer / `executeSMEMLoad` read them -/
  r0 : RF
  /-- the memory as the access saw it, once the memory system has performed it -/
  served : Option Mem := none

structure TState where
  pc : Nat
  regs : RF
  mem : Mem
  ph : Phase := .ready
  toIssue : Option Inst := none     -- wf.InstToIssue
  cur : Option Inst := none         -- wf.DynamicInst() of a running wavefront
  ibStart : Nat := 0                -- wf.InstBufferStartPC
  ib : List Nat := []               -- wf.InstBuffer
  fetching : Option Nat := none     -- wf.IsFetching + the address in InFlightInstFetch
  vq : List Pend := []
  sq : List Pend := []
  vm : Nat := 0                     -- wf.OutstandingVectorMemAccess
  lgkm : Nat := 0                   -- wf.OutstandingScalarMemAccess
  trace : List Nat := []            -- "inst" tasks started (PC at issue)

inductive Ev
  | fetch | fetchRet | resync | decode | issue | exec | complete
  | serveV (k : Nat) | serveS (k : Nat) | retV | retS (k : Nat)
  | env (a v : Nat)
deriving DecidableEq, Repr

def lineBase (pc : Nat) : Nat := pc / 64 * 64

/-- `removeStaleInstBuffer`: `for PC >= start+64 { buf = buf[64:]; start += 64 }` (slicing a buffer
    shorter than 64 bytes panics: `none`) -/
def removeStaleLoop (pc : Nat) : Nat → Nat → List Nat → Option (Nat × List Nat)
  | 0, _, _ => none
  | n + 1, st, ib =>
    if pc ≥ st + 64 then
      if ib.length < 64 then none else removeStaleLoop pc n (st + 64) (ib.drop 64)
    else some (st, ib)

def removeStale (pc st : Nat) (ib : List Nat) : Option (Nat × List Nat) :=
  if ib = [] then some (st, ib) else removeStaleLoop pc (ib.length / 64 + 2) st ib

/-- `ComputeUnit.SetReady` (the PC already points to the next instruction) -/
def setReady (s : TState) : Option TState :=
  match removeStale s.pc s.ibStart s.ib with
  | none => none
  | some (st, ib) => some { s with ph := .ready, cur := none, ibStart := st, ib := ib }

/-- `UpdatePCAndSetReady` -/
def advance (s : TState) (i : Inst) : Option TState :=
  let pc' := pcAdd s.pc i.size
  match removeStale pc' s.ibStart s.ib with
  | none => none
  | some (st, ib) => some { s with pc := pc', ph := .ready, cur := none, ibStart := st, ib := ib }

def ovr (wr : List Nat) (new old : RF) : RF := fun x => if x ∈ wr then new x else old x

def setMem (m : Mem) (a v : Nat) : Mem := fun b => if b = a then v else m b

/-- mark the `k`-th entry served with snapshot `m` -/
def serveAt (m : Mem) : List Pend → Nat → List Pend
  | [], _ => []
  | p :: ps, 0 => { p with served := some m } :: ps
  | p :: ps, k + 1 => p :: serveAt m ps k

/-- the register writes of a returning load (`handleVectorDataLoadReturn`, `handleScalarDataLoadReturn`) -/
def retRegs (p : Pend) (m0 : Mem) (regs : RF) : RF :=
  if p.inst.isLoad then ovr (p.inst.wrD p.r0) (p.inst.ld p.r0 m0) regs else regs

def tstep (P : Prog) (gate : TState → Inst → Bool) (s : TState) : Ev → Option TState
  | .fetch =>
    -- FetchArbiter.canFetchFromWF + Scheduler.DoFetch
    if s.fetching = none ∧ s.ph ≠ .done ∧ s.ib.length < 256 then
      let st := if s.ib = [] then lineBase s.pc else s.ibStart
      some { s with ibStart := st, fetching := some (st + s.ib.length) }
    else none
  | .fetchRet =>
    -- handleFetchReturn: a line that does not continue the buffer is dropped
    match s.fetching with
    | none => none
    | some a =>
      if a = s.ibStart + s.ib.length then
        some { s with ib := s.ib ++ P.window a 64, fetching := none }
      else some { s with fetching := none }
  | .resync =>
    -- DecodeNextInst with an empty buffer
    if s.ib = [] then some { s with ibStart := lineBase s.pc } else none
  | .decode =>
    -- DecodeNextInst
    match s.toIssue with
    | some _ => none
    | none =>
      if s.ib ≠ [] ∧ s.ph = .ready ∧ s.ibStart ≤ s.pc ∧ s.pc - s.ibStart + 4 ≤ s.ib.length then
        match P.dec (s.ib.drop (s.pc - s.ibStart)) with
        | none => none
        | some i => some { s with toIssue := some i }
      else none
  | .issue =>
    -- IssueArbiter.Arbitrate (WfReady, InstToIssue != nil, scoreboard) + DoIssue (CanAcceptWave)
    match s.toIssue with
    | none => none
    | some i =>
      if s.ph = .ready ∧ gate s i = true then
        some { s with cur := some i, toIssue := none, ph := .issued, trace := s.trace ++ [s.pc] }
      else none
  | .exec =>
    match s.cur with
    | none => none
    | some i =>
      if s.ph = .issued then
        match i.kind with
        | .alu u =>
          -- the scalar unit (u = 0) advances the PC before `alu.Run`, as the emulator does
          if u = 0 ∧ P.oldCU = false then
            some { s with pc := pcAdd s.pc i.size, regs := i.f (pcAdd s.pc i.size) s.regs, ph := .executed }
          else some { s with regs := i.f s.pc s.regs, ph := .executed }
        | .branch => some { s with pc := i.tgt s.regs s.pc, ph := .executed }
        | .vload =>
          -- no transaction: waits until the older vector accesses have returned, then completes
          if i.noTxn s.regs then (if P.oldCU = false ∧ s.vm ≠ 0 then none else advance s i)
          else advance { s with vq := s.vq ++ [{ inst := i, r0 := s.regs }], vm := s.vm + 1, lgkm := s.lgkm + 1 } i
        | .vstore =>
          if i.noTxn s.regs then (if P.oldCU = false ∧ s.vm ≠ 0 then none else advance s i)
          else advance { s with vq := s.vq ++ [{ inst := i, r0 := s.regs }], vm := s.vm + 1, lgkm := s.lgkm + 1 } i
        | .sload => advance { s with sq := s.sq ++ [{ inst := i, r0 := s.regs }], lgkm := s.lgkm + 1 } i
        | _ => none
      else none
  | .complete =>
    match s.cur with
    | none => none
    | some i =>
      match i.kind with
      | .alu u =>
        if s.ph = .executed then (if u = 0 ∧ P.oldCU = false then setReady s else advance s i) else none
      | .branch =>
        -- BranchUnit.runWriteStage: InstBuffer = nil; UpdatePCAndSetReady; InstBufferStartPC = PC &^ 63
        if s.ph = .executed then
          let pc' := pcAdd s.pc i.size
          some { s with pc := pc', ph := .ready, cur := none, ib := [], ibStart := lineBase pc' }
        else none
      | .wait vm lgkm =>
        if s.ph = .issued ∧ s.vm ≤ vm ∧ s.lgkm ≤ lgkm then advance s i else none
      | .nop => if s.ph = .issued then advance s i else none
      | .endpgm =>
        if s.ph = .issued ∧ s.vm = 0 ∧ s.lgkm = 0 then some { s with ph := .done, cur := none } else none
      | _ => none
  | .serveV k =>
    match s.vq[k]? with
    | none => none
    | some p =>
      match p.served with
      | some _ => none
      | none =>
        if p.inst.isStore then
          some { s with mem := p.inst.stf p.r0 s.mem, vq := serveAt s.mem s.vq k }
        else some { s with vq := serveAt s.mem s.vq k }
  | .serveS k =>
    match s.sq[k]? with
    | none => none
    | some p =>
      match p.served with
      | some _ => none
      | none => some { s with sq := serveAt s.mem s.sq k }
  | .retV =>
    match s.vq with
    | [] => none
    | p :: rest =>
      match p.served with
      | none => none
      | some m0 => some { s with regs := retRegs p m0 s.regs, vq := rest, vm := s.vm - 1, lgkm := s.lgkm - 1 }
  | .retS k =>
    match s.sq[k]? with
    | none => none
    | some p =>
      match p.served with
      | none => none
      | some m0 => some { s with regs := retRegs p m0 s.regs, sq := s.sq.eraseIdx k, lgkm := s.lgkm - 1 }
  | .env a v =>
    if P.own a = false then some { s with mem := setMem s.mem a v } else none

def trun (P : Prog) (gate : TState → Inst → Bool) : TState → List Ev → Option TState
  | s, [] => some s
  | s, e :: es => match tstep P gate s e with
    | none => none
    | some s' => trun P gate s' es

def tinit (pc : Nat) (regs : RF) (mem : Mem) : TState := { pc := pc, regs := regs, mem := mem }
def einit (pc : Nat) (regs : RF) (mem : Mem) : EState := { pc := pc, regs := regs, mem := mem }

/-! ## several wavefronts on one compute unit, one shared memory

Each wavefront keeps its own `TState`; its `mem` field is the shared memory (kept equal in all
entries). A compute-unit event is (wavefront index, event); foreign writes (`env`) are not
compute-unit events. -/

def setMemAll (m : Mem) (l : List TState) : List TState := l.map fun s => { s with mem := m }

def isEnv : Ev → Bool
  | .env _ _ => true
  | _ => false

def custep (Ps : List Prog) (gate : TState → Inst → Bool) (c : List TState) (we : Nat × Ev) : Option (List TState) :=
  if isEnv we.2 then none else
  match c[we.1]?, Ps[we.1]? with
  | some s, some P =>
    match tstep P gate s we.2 with
    | none => none
    | some s' => some (setMemAll s'.mem (c.set we.1 s'))
  | _, _ => none

def curun (Ps : List Prog) (gate : TState → Inst → Bool) : List TState → List (Nat × Ev) → Option (List TState)
  | c, [] => some c
  | c, e :: es => match custep Ps gate c e with
    | none => none
    | some c' => curun Ps gate c' es

/-- the emulator runs the wavefronts one after the other on the same memory (`runWG`, no barriers):
    wavefront `j` starts from the memory wavefront `j-1` left; `Es` are the final states -/
inductive EmuSeq : List Prog → List (Nat × RF) → Mem → List EState → Mem → Prop
  | nil (m : Mem) : EmuSeq [] [] m [] m
  | cons (P : Prog) (Ps : List Prog) (pc : Nat) (regs : RF) (rest : List (Nat × RF)) (m m' : Mem)
      (n : Nat) (E : EState) (Es : List EState) :
      erun P n (einit pc regs m) = some E → E.done = true → EmuSeq Ps rest E.mem Es m' →
      EmuSeq (P :: Ps) ((pc, regs) :: rest) m (E :: Es) m'

/-! ## a small concrete instruction set (what the correspondence runs on the real compute unit) -/

def M32 : Nat := 4294967296

def sreg (n : Nat) : Nat := n
def SCC : Nat := 200
def vreg (v l : Nat) : Nat := 1000 + v * 64 + l
def ldsCell (a : Nat) : Nat := 100000 + a

inductive CInst
  | smov (d imm : Nat)      -- s_mov_b32 s_d, imm
  | sadd (d a b : Nat)      -- s_add_u32 s_d, s_a, s_b
  | scmp (a b : Nat)        -- s_cmp_lt_u32 s_a, s_b
  | sexec (v : Nat)         -- s_mov_b64 exec, v
  | vmov (d s : Nat)        -- v_mov_b32 v_d, s_s
  | vxor (d s a : Nat)      -- v_xor_b32 v_d, s_s, v_a
  | fld (d a : Nat)         -- flat_load_dword v_d, v[a:a+1]
  | fst (a d : Nat)         -- flat_store_dword v[a:a+1], v_d
  | sld (d b off : Nat)     -- s_load_dword s_d, s[b:b+1], off
  | wait (vm lgkm : Nat)
  | nop
  | br (off : Nat)          -- s_branch simm16
  | cbr (on off : Nat)      -- s_cbranch_scc<on> simm16
  | dsw (a d : Nat)         -- ds_write_b32 v_a, v_d
  | dsr (d a : Nat)         -- ds_read_b32 v_d, v_a  (LDS of 1024 bytes; the Go slice panics beyond, here 0)
  | getpc (d : Nat)         -- s_getpc_b64 s[d:d+1]
  | svcc (v : Nat)          -- s_mov_b64 vcc, v
  | vcmp (s a : Nat)        -- v_cmp_lt_u32 vcc, s_s, v_a   (a VALU instruction with a scalar result)
  | vrfl (d a : Nat)        -- v_readfirstlane_b32 s_d, v_a
  | cbrv (on off : Nat)     -- s_cbranch_vccz (on = 0) / s_cbranch_vccnz (on = 1) simm16
  | endp
deriving Repr, DecidableEq

def setR (r : RF) (x v : Nat) : RF := fun y => if y = x then v else r y

def EXEC : Nat := 201
def VCC : Nat := 202
def execOf (r : RF) : Nat := r EXEC % PCM

def lanes (exec : Nat) : List Nat := (List.range 64).filter fun l => exec.testBit l

/-- is `x` the cell of VGPR `v` in an active lane? then which lane -/
def vlane (r : RF) (v x : Nat) : Option Nat :=
  -- the range test comes first: a read of any other cell must not touch EXEC (the compiled driver is
  -- strict; evaluating `r EXEC` for every read makes stacked register files exponential)
  if vreg v 0 ≤ x ∧ x < vreg v 64 then
    (if (execOf r).testBit (x - vreg v 0) then some (x - vreg v 0) else none)
  else none

def le32 (m : Nat → Nat) (a : Nat) : Nat :=
  m a % 256 + 256 * (m (a + 1) % 256) + 65536 * (m (a + 2) % 256) + 16777216 * (m (a + 3) % 256)

def byteOf (w b : Nat) : Nat := w / 256 ^ b % 256

def addr64 (r : RF) (v l : Nat) : Nat := r (vreg v l) % M32 + M32 * (r (vreg (v + 1) l) % M32)

/-- the last active lane (lane-ascending loop, later lanes overwrite) whose dword covers byte `a` -/
def coverLane (exec : Nat) (addrOf : Nat → Nat) (a : Nat) : Option Nat :=
  (lanes exec).reverse.find? fun l => decide (addrOf l ≤ a ∧ a < addrOf l + 4)

def sext16x4 (off : Nat) : Nat := if off % 65536 ≥ 32768 then PCM - (65536 - off % 65536) * 4 else off % 65536 * 4

def brTarget (off p : Nat) : Nat := (p + sext16x4 off) % PCM

def vregsOf (v : Nat) : List Nat := (List.range 64).map fun l => vreg v l

def ldsCells : List Nat := (List.range 1024).map ldsCell

def saddr (r : RF) (b off : Nat) : Nat := (r (sreg b) % M32 + M32 * (r (sreg (b + 1)) % M32) + off) % PCM

def flatFp (r : RF) (a : Nat) : List (Nat × Nat) := (lanes (execOf r)).map fun l => (addr64 r a l, 4)

def compile : CInst → Inst
  | .smov d imm =>
    { kind := .alu 0, size := if imm ≤ 64 then 4 else 8, rd := [], wr := [sreg d],
      f := fun _ r => setR r (sreg d) (imm % M32) }
  | .sadd d a b =>
    { kind := .alu 0, size := 4, rd := [sreg a, sreg b], wr := [sreg d, SCC],
      f := fun _ r =>
        let x := r (sreg a) % M32
        let y := r (sreg b) % M32
        setR (setR r (sreg d) ((x + y) % M32)) SCC (if x + y ≥ M32 then 1 else 0) }
  | .scmp a b =>
    { kind := .alu 0, size := 4, rd := [sreg a, sreg b], wr := [SCC],
      f := fun _ r => setR r SCC (if r (sreg a) % M32 < r (sreg b) % M32 then 1 else 0) }
  | .sexec v =>
    { kind := .alu 0, size := if v ≤ 64 ∨ v = PCM - 1 then 4 else 8, rd := [], wr := [EXEC],
      f := fun _ r => setR r EXEC (v % PCM) }
  | .vmov d s =>
    { kind := .alu 1, size := 4, rd := [EXEC, sreg s], wr := vregsOf d,
      f := fun _ r x => match vlane r d x with
        | some _ => r (sreg s) % M32
        | none => r x }
  | .vxor d s a =>
    { kind := .alu 1, size := 4, rd := EXEC :: sreg s :: vregsOf a, wr := vregsOf d,
      f := fun _ r x => match vlane r d x with
        | some l => (r (sreg s) % M32) ^^^ (r (vreg a l) % M32)
        | none => r x }
  | .fld d a =>
    { kind := .vload, size := 8, rd := EXEC :: (vregsOf a ++ vregsOf (a + 1)), wr := vregsOf d,
      wrD := fun r => (lanes (execOf r)).map fun l => vreg d l,
      ld := fun r m x => match vlane r d x with
        | some l => le32 m (addr64 r a l)
        | none => r x,
      fpl := fun r => flatFp r a,
      noTxn := fun r => (lanes (execOf r)).isEmpty }
  | .fst a d =>
    { kind := .vstore, size := 8, rd := EXEC :: (vregsOf a ++ vregsOf (a + 1) ++ vregsOf d), wr := [],
      stf := fun r m b => match coverLane (execOf r) (addr64 r a) b with
        | some l => byteOf (r (vreg d l) % M32) (b - addr64 r a l)
        | none => m b,
      fpl := fun r => flatFp r a,
      noTxn := fun r => (lanes (execOf r)).isEmpty }
  | .sld d b off =>
    { kind := .sload, size := 8, rd := [sreg b, sreg (b + 1)], wr := [sreg d],
      wrD := fun _ => [sreg d],
      ld := fun r m => setR r (sreg d) (le32 m (saddr r b off)),
      fpl := fun r => [(saddr r b off, 4)] }
  | .wait vm lgkm => { kind := .wait vm lgkm, size := 4 }
  | .nop => { kind := .nop, size := 4 }
  | .br off => { kind := .branch, size := 4, tgt := fun _ p => brTarget off p }
  | .cbr on off =>
    { kind := .branch, size := 4, rd := [SCC], tgt := fun r p => if r SCC = on then brTarget off p else p }
  | .dsw a d =>
    { kind := .alu 2, size := 8, rd := EXEC :: (vregsOf a ++ vregsOf d), wr := ldsCells,
      f := fun _ r x =>
        if ldsCell 0 ≤ x ∧ x < ldsCell 1024 then
          match coverLane (execOf r) (fun l => r (vreg a l) % M32) (x - ldsCell 0) with
          | some l => byteOf (r (vreg d l) % M32) (x - ldsCell 0 - r (vreg a l) % M32)
          | none => r x
        else r x }
  | .dsr d a =>
    { kind := .alu 2, size := 8, rd := EXEC :: (vregsOf a ++ ldsCells), wr := vregsOf d,
      f := fun _ r x => match vlane r d x with
        | some l => le32 (fun b => if b < 1024 then r (ldsCell b) else 0) (r (vreg a l) % M32)
        | none => r x }
  | .getpc d =>
    { kind := .alu 0, size := 4, rd := [], wr := [sreg d, sreg (d + 1)],
      f := fun p r => setR (setR r (sreg d) (p % M32)) (sreg (d + 1)) (p / M32 % M32) }
  | .svcc v =>
    { kind := .alu 0, size := if v ≤ 64 ∨ v = PCM - 1 then 4 else 8, rd := [], wr := [VCC],
      f := fun _ r => setR r VCC (v % PCM) }
  | .vcmp s a =>
    { kind := .alu 1, size := 4, rd := EXEC :: sreg s :: vregsOf a, wr := [VCC],
      f := fun _ r => setR r VCC
        (((lanes (execOf r)).filter fun l => decide (r (sreg s) % M32 < r (vreg a l) % M32)).foldl
          (fun acc l => acc + 2 ^ l) 0) }
  | .vrfl d a =>
    { kind := .alu 1, size := 4, rd := EXEC :: vregsOf a, wr := [sreg d],
      f := fun _ r => setR r (sreg d) (r (vreg a ((lanes (execOf r)).headD 0)) % M32) }
  | .cbrv on off =>
    { kind := .branch, size := 4, rd := [VCC],
      tgt := fun r p => if decide (r VCC % PCM ≠ 0) = decide (on ≠ 0) then brTarget off p else p }
  | .endp => { kind := .endpgm, size := 4 }

/-- layout: instruction `k` of the list starts at `base + offs k`; its first two bytes hold `k`, the
    rest is filler (decoding real encodings is property C04's business) -/
def offsets : List CInst → Nat → List Nat
  | [], _ => []
  | c :: cs, o => o :: offsets cs (o + (compile c).size)

def findAt (offs : List Nat) (sizes : List Nat) (a : Nat) : Option (Nat × Nat) :=
  -- (index, byte within the instruction)
  let rec go : List Nat → List Nat → Nat → Option (Nat × Nat)
    | o :: os, z :: zs, k => if o ≤ a ∧ a < o + z then some (k, a - o) else go os zs (k + 1)
    | _, _, _ => none
  go offs sizes 0

def encByte (k j : Nat) : Nat :=
  match j with
  | 0 => k % 256
  | 1 => k / 256 % 256
  | 2 => 238
  | _ => 170 + j

def cprog (base : Nat) (cs : List CInst) (foreign : Nat → Bool) : Prog :=
  let offs := offsets cs 0
  let sizes := cs.map fun c => (compile c).size
  { imem := fun a =>
      if a < base then 255 else
      match findAt offs sizes (a - base) with
      | some (k, j) => encByte k j
      | none => 255
    dec := fun l =>
      match l with
      | b0 :: b1 :: 238 :: _ =>
        match cs[b0 + 256 * b1]? with
        | some c => if (compile c).size ≤ l.length then some (compile c) else none
        | none => none
      | _ => none
    own := fun a => !foreign a
    wown := fun a => !foreign a }

/-! ## driver: `c02 wf base=<hex> exec=<hex> seed=<n> prog=<i>/<i>/… ev=<e>,<e>,…` -/

def memByte (seed a : Nat) : Nat :=
  let x := (a * 2654435761 + seed * 40503 + 12345) % M32
  let y := (x ^^^ (x / 65536)) * 73244475 % M32
  (y / 256) % 256

def regInit (seed x : Nat) : Nat :=
  let z := (x * 2246822519 + seed * 7919 + 17) % M32
  ((z ^^^ (z / 8192)) * 2654435761) % M32

/-- v0 = 4 * lane, v1 = 0, LDS = 0, SCC = 0, EXEC as given, everything else pseudo-random -/
def initRegs (seed exec : Nat) : RF := fun x =>
  if ldsCell 0 ≤ x then 0
  else if x = SCC then 0
  else if x = EXEC then exec
  else if x = VCC then 0
  else if vreg 0 0 ≤ x ∧ x < vreg 0 64 then 4 * (x - vreg 0 0)
  else if vreg 1 0 ≤ x ∧ x < vreg 1 64 then 0
  else regInit seed x

def parseCInst (s : String) : Option CInst :=
  match s.splitOn "." with
  | ["smov", d, i] => do pure (.smov (← d.toNat?) (← hexNat? i))
  | ["sadd", d, a, b] => do pure (.sadd (← d.toNat?) (← a.toNat?) (← b.toNat?))
  | ["scmp", a, b] => do pure (.scmp (← a.toNat?) (← b.toNat?))
  | ["sexec", v] => do pure (.sexec (← hexNat? v))
  | ["vmov", d, a] => do pure (.vmov (← d.toNat?) (← a.toNat?))
  | ["vxor", d, a, b] => do pure (.vxor (← d.toNat?) (← a.toNat?) (← b.toNat?))
  | ["fld", d, a] => do pure (.fld (← d.toNat?) (← a.toNat?))
  | ["fst", a, d] => do pure (.fst (← a.toNat?) (← d.toNat?))
  | ["sld", d, b, o] => do pure (.sld (← d.toNat?) (← b.toNat?) (← hexNat? o))
  | ["wait", a, b] => do pure (.wait (← a.toNat?) (← b.toNat?))
  | ["nop"] => some .nop
  | ["br", o] => do pure (.br (← hexNat? o))
  | ["cbr", n, o] => do pure (.cbr (← n.toNat?) (← hexNat? o))
  | ["dsw", a, d] => do pure (.dsw (← a.toNat?) (← d.toNat?))
  | ["dsr", d, a] => do pure (.dsr (← d.toNat?) (← a.toNat?))
  | ["getpc", d] => do pure (.getpc (← d.toNat?))
  | ["svcc", v] => do pure (.svcc (← hexNat? v))
  | ["vcmp", a, b] => do pure (.vcmp (← a.toNat?) (← b.toNat?))
  | ["vrfl", d, a] => do pure (.vrfl (← d.toNat?) (← a.toNat?))
  | ["cbrv", n, o] => do pure (.cbrv (← n.toNat?) (← hexNat? o))
  | ["end"] => some .endp
  | _ => none

def parseEv (s : String) : Option Ev :=
  match s.splitOn "." with
  | ["f"] => some .fetch
  | ["fr"] => some .fetchRet
  | ["rs"] => some .resync
  | ["d"] => some .decode
  | ["i"] => some .issue
  | ["x"] => some .exec
  | ["c"] => some .complete
  | ["sv", k] => do pure (.serveV (← k.toNat?))
  | ["ss", k] => do pure (.serveS (← k.toNat?))
  | ["rv"] => some .retV
  | ["rsc", k] => do pure (.retS (← k.toNat?))
  | ["env", a, v] => do pure (.env (← hexNat? a) (← hexNat? v))
  | _ => none

/-- driver only: re-tabulate a register file / a memory (the cells the printed line reads) so that the
    closures `tstep`/`estep` build do not pile up. Extensionally the identity. The result is boxed in a
    structure on purpose: a definition whose result type is a function is eta-expanded by the compiler
    and would rebuild the arrays on every read. -/
structure Box where
  f : Nat → Nat

@[noinline] def mkRF (lo vs ld : Array Nat) (r : RF) (x : Nat) : Nat :=
  if x < 203 then lo[x]!
  else if 1000 ≤ x ∧ x < 1640 then vs[x - 1000]!
  else if 100000 ≤ x ∧ x < 101024 then ld[x - 100000]!
  else r x

@[noinline] def freezeR (r : RF) : Box :=
  ⟨mkRF ((Array.range 203).map r) ((Array.range 640).map fun k => r (1000 + k))
    ((Array.range 1024).map fun k => r (100000 + k)) r⟩

@[noinline] def mkMem (w f : Array Nat) (m : Mem) (a : Nat) : Nat :=
  if 2097152 ≤ a ∧ a < 2097152 + 2048 then w[a - 2097152]!
  else if 3145728 ≤ a ∧ a < 3145728 + 64 then f[a - 3145728]!
  else m a

@[noinline] def freezeM (m : Mem) : Box :=
  ⟨mkMem ((Array.range 2048).map fun k => m (2097152 + k)) ((Array.range 64).map fun k => m (3145728 + k)) m⟩

/-- run the events, remembering the index of the first refused one -/
def trunIdx (P : Prog) (s : TState) (evs : List Ev) : TState × Option Nat :=
  let rec go : TState → List Ev → Nat → TState × Option Nat
    | s, [], _ => (s, none)
    | s, e :: es, k => match tstep P (fun _ _ => true) s e with
      | none => (s, some k)
      | some s' => go { s' with regs := (freezeR s'.regs).f, mem := (freezeM s'.mem).f } es (k + 1)
  go s evs 0

def erunFuel (P : Prog) : Nat → EState → EState × String
  | 0, s => (s, if s.done then "done" else "fuel")
  | n + 1, s => if s.done then (s, "done") else
    match estep P s with
    | none => (s, "stuck")
    | some s' => erunFuel P n { s' with regs := (freezeR s'.regs).f, mem := (freezeM s'.mem).f }

def storeWindow : Nat := 2097152     -- 0x200000: stores of the generated programs fall in [.., ..+2048)
def foreignWindow (a : Nat) : Bool := decide (3145728 ≤ a ∧ a < 3145728 + 64)

def memDiff (seed : Nat) (m : Mem) : String :=
  let cells := (List.range 2048).filterMap fun k =>
    let a := storeWindow + k
    if m a = memByte seed a then none else some (a, m a)
  let rec go : List (Nat × Nat) → Option (Nat × Nat × String) → List String → List String
    | [], none, out => out
    | [], some (s, _, h), out => s!"{toHex s}:{h}" :: out
    | (a, v) :: rest, none, out => go rest (some (a, a + 1, toHexPad 2 v)) out
    | (a, v) :: rest, some (s, e, h), out =>
      if a = e then go rest (some (s, e + 1, h ++ toHexPad 2 v)) out
      else go rest (some (a, a + 1, toHexPad 2 v)) (s!"{toHex s}:{h}" :: out)
  let l := (go cells none []).reverse
  if l.isEmpty then "-" else joinWith " " l

def mix (h v : Nat) : Nat := ((h ^^^ v) * 1099511628211) % PCM

def regsStr (r : RF) : String :=
  let s := joinWith "," ((List.range 16).map fun i => toHex (r (sreg i)))
  let vh := ((List.range 10).flatMap fun v => (List.range 64).map fun l => vreg v l).foldl
    (fun h c => mix h (r c)) 14695981039346656037
  let lh := (List.range 256).foldl (fun h a => mix h (r (ldsCell a))) 14695981039346656037
  s!"s={s} scc={r SCC} exec={toHex (r EXEC)} vcc={toHex (r VCC)} v={toHex vh} lds={toHex lh}"

def traceStr (base : Nat) (t : List Nat) : String :=
  if t.isEmpty then "-" else joinWith "," (t.map fun p => toString (p - base))

def phaseStr : Phase → String
  | .ready => "ready" | .issued => "issued" | .executed => "executed" | .done => "done"

def handleWf (t : List String) : String :=
  match kvHex? t "base", kvHex? t "exec", kvNat? t "seed", kv? t "prog", kv? t "ev" with
  | some base, some exec, some seed, some ps, some es =>
    match (ps.splitOn "/").mapM parseCInst, (if es = "-" then some [] else (es.splitOn ",").mapM parseEv) with
    | some cs, some evs =>
      let P := cprog base cs foreignWindow
      let r0 : RF := initRegs seed exec
      let m0 : Mem := memByte seed
      let (T, rej) := trunIdx P (tinit base r0 m0) evs
      let (E, est) := erunFuel P 200 (einit base r0 m0)
      let tst := match rej with | none => "ok" | some k => s!"rej@{k}"
      s!"T {tst} ph={phaseStr T.ph} pc={T.pc - base} vm={T.vm} lgkm={T.lgkm} ib={toHex T.ibStart}:{T.ib.length} " ++
      s!"tr={traceStr base T.trace} {regsStr T.regs} mem={memDiff seed T.mem} | " ++
      s!"E {est} pc={E.pc - base} tr={traceStr base E.trace} {regsStr E.regs} mem={memDiff seed E.mem}"
    | _, _ => "bad"
  | _, _, _, _, _ => "bad"

end C02.Wf
