import MgpuModel.Util
import MgpuModel.Gen.C05Engine
/-!
# C05.Eng — Akita's serial event engine: the order in which events are handled

The property's first state anchor is "event order: the order in which same-time events are
processed (akita serial engine)". This file transcribes what decides that order:

* `sim.eventHeap` + `container/heap` (`up`, `down`, `Push`, `Pop`) — a binary heap whose `Less`
  compares event TIMES only, so the order of same-time events is whatever the sift operations
  leave (deterministic, but neither FIFO nor stable);
* `SerialEngine.Schedule` (panic for an event earlier than `now`; secondary events go to the
  secondary queue), `noMoreEvent`, `nextEvent` (primary first when the head times are equal),
  `Run` (panic for an event in the past, `now := evt.Time()`, handler).

Every comparison operator is REGENERATED from the Go source (`translate/c05.go` →
`Gen.C05Engine`): the model applies `cmp <operator token found in the source>`, and the theorems
(`Props/C05Engine.lean`) first prove that the token is the one they are about — a changed operator
breaks a proof obligation, not only the sampled correspondence.

Handlers are scripted (`Prog`): handling event `id` schedules the listed follow-up events.
Case lines: `c05 evq …` (real `sim.EventQueueImpl` against the heap), `c05 eng …` (real
`sim.SerialEngine` against `run`).
-/
namespace C05
namespace Eng
open Util

/-- the comparison named by a Go operator token -/
def cmp (op : String) (a b : Nat) : Bool :=
  if op = "<" then decide (a < b)
  else if op = "<=" then decide (a ≤ b)
  else if op = ">" then decide (b < a)
  else if op = ">=" then decide (b ≤ a)
  else if op = "==" then decide (a = b)
  else decide (a ≠ b)

structure Ev where
  time : Nat
  id : Nat
  sec : Bool
deriving DecidableEq, Repr, Inhabited

abbrev Heap := List Ev

/-- `h[i]` -/
def nth (h : Heap) (i : Nat) : Ev := h.getD i default

/-- `eventHeap.Less`: `h[i].Time() < h[j].Time()` -/
def less (h : Heap) (i j : Nat) : Bool := cmp Gen.C05Engine.eventHeapLess (nth h i).time (nth h j).time

/-- `eventHeap.Swap` -/
def swap (h : Heap) (i j : Nat) : Heap := (h.set i (nth h j)).set j (nth h i)

/-- `container/heap.up`: `i := (j-1)/2; if i == j || !h.Less(j, i) { break }; h.Swap(i, j); j = i`
    (`(0-1)/2 = 0` in Go, so `i == j` exactly when `j = 0`) -/
def up (h : Heap) (j : Nat) : Heap :=
  if j = 0 then h
  else if less h j ((j - 1) / 2) then up (swap h ((j - 1) / 2) j) ((j - 1) / 2)
  else h
termination_by j
decreasing_by omega

/-- the child `down` compares with the parent: the right one if it exists and is `Less` than the left -/
def child (h : Heap) (i n : Nat) : Nat :=
  if 2 * i + 2 < n && less h (2 * i + 2) (2 * i + 1) then 2 * i + 2 else 2 * i + 1

theorem child_gt (h : Heap) (i n : Nat) : i < child h i n := by
  unfold child; split <;> omega

theorem child_lt (h : Heap) (i n : Nat) (hn : 2 * i + 1 < n) : child h i n < n := by
  unfold child
  split
  · rename_i hc
    simp only [Bool.and_eq_true, decide_eq_true_eq] at hc
    exact hc.1
  · exact hn

/-- `container/heap.down(h, i, n)` -/
def down (h : Heap) (i n : Nat) : Heap :=
  if hn : 2 * i + 1 < n then
    if less h (child h i n) i then down (swap h i (child h i n)) (child h i n) n else h
  else h
termination_by n - i
decreasing_by
  have h1 := child_gt h i n
  have h2 := child_lt h i n hn
  omega

/-- `heap.Push`: append, then `up(h, h.Len()-1)` -/
def push (h : Heap) (x : Ev) : Heap := up (h ++ [x]) h.length

/-- `heap.Pop`: `n := h.Len()-1; h.Swap(0, n); down(h, 0, n); return h.Pop()` (the last element).
    `none` stands for the index panic on an empty heap (the engine never pops an empty queue). -/
def pop (h : Heap) : Option (Ev × Heap) :=
  if h = [] then none
  else
    let n := h.length - 1
    let h2 := down (swap h 0 n) 0 n
    some (nth h2 n, h2.take n)

/-- the ids of the first `n` events popped -/
def popIds : Nat → Heap → List Nat
  | 0, _ => []
  | n + 1, h => match pop h with
    | none => []
    | some (e, h') => e.id :: popIds n h'

/-! ## the engine -/

structure St where
  /-- `SerialEngine.time` -/
  now : Nat := 0
  /-- `SerialEngine.queue` -/
  q : Heap := []
  /-- `SerialEngine.secondaryQueue` -/
  sq : Heap := []
  /-- ghost: the events handled so far, in handling order -/
  handled : List Ev := []
  /-- ghost: every event `Schedule` accepted, in call order -/
  sched : List Ev := []
deriving Repr, DecidableEq

/-- `SerialEngine.Schedule`; `none` = `log.Panic("scheduling an event earlier than current time")` -/
def schedule (s : St) (e : Ev) : Option St :=
  if cmp Gen.C05Engine.scheduleReject e.time s.now then none
  else if e.sec then some { s with sq := push s.sq e, sched := s.sched ++ [e] }
  else some { s with q := push s.q e, sched := s.sched ++ [e] }

/-- `SerialEngine.noMoreEvent` -/
def noMoreEvent (s : St) : Bool := s.q.isEmpty && s.sq.isEmpty

/-- `SerialEngine.nextEvent` (called only when some queue is non-empty) -/
def nextEvent (s : St) : Option (Ev × St) :=
  if s.q.isEmpty then (pop s.sq).map fun r => (r.1, { s with sq := r.2 })
  else if s.sq.isEmpty then (pop s.q).map fun r => (r.1, { s with q := r.2 })
  else if cmp Gen.C05Engine.nextEventPrimaryFirst (nth s.q 0).time (nth s.sq 0).time then
    (pop s.q).map fun r => (r.1, { s with q := r.2 })
  else (pop s.sq).map fun r => (r.1, { s with sq := r.2 })

/-- a follow-up a handler schedules: `abs = false`: at `now + t`; `abs = true`: at the absolute
    time `t` (possibly in the past: `Schedule` panics) -/
structure Follow where
  abs : Bool
  t : Nat
  id : Nat
  sec : Bool
deriving DecidableEq, Repr

/-- the scripted handlers: event id ↦ the follow-ups its handler schedules, in order -/
abbrev Prog := List (Nat × List Follow)

def followsOf (prog : Prog) (id : Nat) : List Follow :=
  match prog.find? (·.1 == id) with
  | some p => p.2
  | none => []

def mkEv (now : Nat) (f : Follow) : Ev := { time := if f.abs then f.t else now + f.t, id := f.id, sec := f.sec }

/-- the handler's `Schedule` calls, in order; `false` = one of them panicked (the state is the
    one at the panic) -/
def scheduleAll (s : St) : List Follow → St × Bool
  | [] => (s, true)
  | f :: fs => match schedule s (mkEv s.now f) with
    | none => (s, false)
    | some s' => scheduleAll s' fs

/-- one iteration of the loop of `SerialEngine.Run` (the caller has checked `noMoreEvent`);
    `false` = a panic ("cannot run event in the past", or the handler's `Schedule` panicked) -/
def runStep (prog : Prog) (s : St) : St × Bool :=
  match nextEvent s with
  | none => (s, false)
  | some (e, s1) =>
    if cmp Gen.C05Engine.runReject e.time s1.now then (s1, false)
    else scheduleAll { s1 with now := e.time, handled := s1.handled ++ [e] } (followsOf prog e.id)

inductive Outcome | ok | fault | fuel
deriving DecidableEq, Repr

/-- `SerialEngine.Run` with a bound on the number of events -/
def run (prog : Prog) : Nat → St → St × Outcome
  | 0, s => (s, if noMoreEvent s then .ok else .fuel)
  | n + 1, s =>
    if noMoreEvent s then (s, .ok)
    else match runStep prog s with
      | (s', false) => (s', .fault)
      | (s', true) => run prog n s'

/-- reachable engine states: `Schedule` calls from outside and loop iterations, for one script -/
inductive Reach (prog : Prog) : St → Prop
  | init : Reach prog {}
  | sched {s s' : St} (e : Ev) : Reach prog s → schedule s e = some s' → Reach prog s'
  | step {s s' : St} : Reach prog s → noMoreEvent s = false → runStep prog s = (s', true) → Reach prog s'

/-! ## case lines -/

def parseBool01 (s : String) : Option Bool := if s = "1" then some true else if s = "0" then some false else none

/-- `t:id:s` -/
def parseEv (w : String) : Option Ev :=
  match w.splitOn ":" with
  | [t, i, s] => match t.toNat?, i.toNat?, parseBool01 s with
    | some t, some i, some s => some { time := t, id := i, sec := s }
    | _, _, _ => none
  | _ => none

/-- `a:t:id:s` -/
def parseFollow (w : String) : Option Follow :=
  match w.splitOn ":" with
  | [a, t, i, s] => match parseBool01 a, t.toNat?, i.toNat?, parseBool01 s with
    | some a, some t, some i, some s => some { abs := a, t := t, id := i, sec := s }
    | _, _, _, _ => none
  | _ => none

def showEv (e : Ev) : String := s!"{e.id}@{e.time}"

/-- `c05 evq push:t:id … pop …`: the ids popped; `!` for a pop of an empty queue (not performed
    on the real queue) -/
def evqTrace : Heap → List String → List String → List String
  | _, [], acc => acc.reverse
  | h, w :: ws, acc =>
    if w = "pop" then
      match pop h with
      | none => evqTrace h ws ("!" :: acc)
      | some (e, h') => evqTrace h' ws (showEv e :: acc)
    else
      match w.splitOn ":" with
      | ["push", t, i] => match t.toNat?, i.toNat? with
        | some t, some i => evqTrace (push h { time := t, id := i, sec := false }) ws acc
        | _, _ => ("bad" :: acc).reverse
      | _ => ("bad" :: acc).reverse

def parseProg (segs : List String) : Option Prog :=
  segs.mapM fun seg =>
    match words seg with
    | [] => none
    | w :: fs =>
      match w.splitOn "=" with
      | [i, first] => match i.toNat?, ((if first = "" then [] else [first]) ++ fs).mapM parseFollow with
        | some i, some l => some (i, l)
        | _, _ => none
      | _ => none

def scheduleInit (s : St) : List Ev → Option St
  | [] => some s
  | e :: es => match schedule s e with
    | none => none
    | some s' => scheduleInit s' es

def handleEng (first : List String) (rest : List String) : String :=
  match (kv? first "init").map (fun v => if v = "" then [] else v.splitOn ","), kvNat? first "fuel" with
  | some evs, some fuel =>
    match evs.mapM parseEv, parseProg rest with
    | some evs, some prog =>
      match scheduleInit {} evs with
      | none => "fault:init"
      | some s0 =>
        let (s, o) := run prog fuel s0
        let st := match o with | .ok => "ok" | .fault => "fault" | .fuel => "fuel"
        joinWith " " (s.handled.map showEv) ++ s!" | {st} now={s.now}"
    | _, _ => "bad"
  | _, _ => "bad"

end Eng
end C05
