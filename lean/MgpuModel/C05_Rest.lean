import MgpuModel.Util
import MgpuModel.C05_Sched
/-!
# C05.R — the hand-off with a REST-WAIT at the end of `DrainCommandQueue` (candidate repair)

`T` (C05_Sched.lean) is the hand-off as it is: `DrainCommandQueue` returns as soon as the queue is
empty, the engine goroutine is still running the trailing events, and the application's next call
races with them (`completion_times_refuted`). `R` is the same protocol with ONE change, the
candidate repair investigated in the second deepening pass:

```go
func (d *Driver) DrainCommandQueue(q *CommandQueue) {
    d.drainCommandQueue(q)     // the body as it is today (Subscribe … deferred Unsubscribe)
    d.waitForEngineToRest()    // NEW: block until no kick is in flight and no engine goroutine exists
}
```

`resting = true` is the application thread inside `waitForEngineToRest` (cond-var wait on
`engineRunningMutex`; condition `kicksInFlight == 0 && !engineRunning`, i.e. `T.quiescent`).
Everything else is `T.step` (hence `C12.step` plus the clock). The patch was applied to the real
driver in the repo worktree and driven through gate-level schedules (`c05 rsched` lines of the
experiment, see notes/C05.md); it is NOT committed because it changes the protocol that
`C12.step` transcribes (C12's gate-level tie breaks) and puts independent application threads in
lock-step. `Props/C05Rest.lean` proves what the repair would achieve: the quiescent-call discipline
is enforced by the code itself, so completion times and the final time are a function of the
script for EVERY interleaving, and the wait always ends.
-/
namespace C05
namespace R
open C12 (APc RPc EPc Th)

structure St where
  /-- the timed hand-off state -/
  t : T.St := {}
  /-- the application thread is inside `waitForEngineToRest` -/
  resting : Bool := false
deriving DecidableEq, Repr

/-- the application step of `T` from this state is the return of the old `DrainCommandQueue` body
    (`q.NumCommand() == 0` at `drain.beforeCheck`) -/
def isReturn (s : T.St) : Bool := decide (s.p.a = .chk) && decide (s.p.cmds = [])

def step (s : St) : Th → Option St
  | .app =>
    if s.resting then
      if T.quiescent s.t then some { s with resting := false } else none
    else
      match T.step s.t .app with
      | none => none
      | some t' => some { t := t', resting := isReturn s.t }
  | .async =>
    match T.step s.t .async with
    | none => none
    | some t' => some { s with t := t' }
  | .eng =>
    match T.step s.t .eng with
    | none => none
    | some t' => some { s with t := t' }

def init (rounds : List Nat) : St := { t := T.init rounds }

/-- the application thread has returned from its last call -/
def finished (s : St) : Prop := C12.finished s.t.p ∧ s.resting = false
instance (s : St) : Decidable (finished s) := by unfold finished; exact inferInstance

def stuck (s : St) : Prop := ∀ t, step s t = none

def runSched (s : St) : List Th → Option St
  | [] => some s
  | t :: ts => match step s t with
    | none => none
    | some s' => runSched s' ts

inductive Reach : St → Prop
  | init (rounds : List Nat) : Reach (init rounds)
  | step {s s' : St} (t : Th) : Reach s → step s t = some s' → Reach s'

/-- termination measure: the protocol's measure, doubled, plus the rest-wait -/
def restBit (s : St) : Nat := if s.resting then 1 else 0

/-! ### gate-level view (one harness move = `step` iterated to the next park point; the rest-wait
    is a blocked state of the application goroutine, shown as pc `rest`) -/

def settle : Nat → St → Th → St
  | 0, s, _ => s
  | n + 1, s, t => if C12.parkedPc s.t.p t then s else
      match step s t with
      | none => s
      | some s' => settle n s' t

/-- the rest-wait is not a gate: the application goroutine leaves it by itself as soon as the
    engine goroutine has exited (cond-var broadcast) and runs on to its next park point `app.idle` -/
def autoRest (s : St) : St := if s.resting ∧ T.quiescent s.t then { s with resting := false } else s

def macroStep (s : St) (t : Th) : Option St :=
  match step s t with
  | none => none
  | some s' => some (autoRest (settle 8 s' t))

/-- the harness counts a drain as returned when `DrainCommandQueue` returns, i.e. after the rest-wait -/
def showSt (s : St) : String :=
  if s.resting then
    let p := s.t.p
    s!"rest.{C12.rpcName p.r}.{C12.epcName p.e}:{Util.joinWith "," (p.cmds.map toString)}:{C12.b01 p.token}:{C12.b01 p.running}{C12.b01 p.pend}:{p.returned - 1}@{s.t.now}"
  else T.showSt s.t

def runTrace (s : St) : List String → List String → List String
  | [], acc => acc.reverse
  | w :: ws, acc =>
    match C12.parseTh w with
    | none => ("bad" :: acc).reverse
    | some t =>
      match macroStep s t with
      | none => runTrace s ws ("-" :: acc)
      | some s' => runTrace s' ws (showSt s' :: acc)

end R
end C05
