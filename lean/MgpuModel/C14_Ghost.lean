import MgpuModel.C14
/-! # C14 — ghost layer: the memory accesses that are *really* outstanding

The scheduler model (`C14.step`) only has the two counters `osc` / `ovc` of a wavefront. This file
adds, next to a scheduler state, the set of memory instructions of every wavefront whose responses
have not all arrived, and annotated events that say *which* instruction a response belongs to. Nothing
here is read by a transition of `C14.step`: `gstep` runs `step` on the erased event and updates the
ghost besides (`(gstep c gs o).s = (step c gs.s o.erase).1` by definition), so every theorem about
`run` applies to the scheduler component of a ghost run.

A memory instruction is split by the coalescer / the scalar unit into `n + 1` transactions; all but
the last carry `CanWaitForCoalesce`, and the return handlers decrement the counters when the response
of the *last* transaction arrives (`memRetWf … last`). `issueFlat` (issue side, tied to
`VectorMemoryUnit.executeFlatLoad/Store`) counts one instruction on both counters; the scalar unit
counts one on the LGKM counter. -/
namespace C14

/-- one memory instruction whose responses have not all arrived -/
structure Acc where
  /-- responses still to come from the transactions flagged `CanWaitForCoalesce` -/
  rest : Nat
  /-- the response of the last transaction (the one that decrements the counters) is still to come -/
  lastPending : Bool
deriving DecidableEq, Repr

/-- the really outstanding memory instructions of one wavefront, oldest first, per memory path:
    FLAT instructions (vector memory port) and scalar loads (scalar memory port) -/
structure GWf where
  qv : List Acc
  qs : List Acc
deriving DecidableEq, Repr

/-- really outstanding vector-memory instructions (what `vmcnt` is meant to count) -/
def GWf.trueVM (q : GWf) : Nat := q.qv.length
/-- really outstanding LGKM accesses (FLAT instructions count on both, as `issueFlat` does) -/
def GWf.trueLGKM (q : GWf) : Nat := q.qv.length + q.qs.length

structure GState where
  s : State
  /-- ghost: wavefront id ↦ really outstanding accesses -/
  g : Nat → GWf

/-- events with the information the scheduler does not see -/
inductive GOp where
  /-- any event that is not a counted memory issue / return -/
  | plain (o : Op)
  /-- `memIssue i vector`; the instruction has `n` transactions besides its last one -/
  | memIssue (i : Nat) (vector : Bool) (n : Nat)
  /-- `memRet i kind last` (kind 0/1 FLAT load/store, 3 scalar load): the response belongs to the
      instruction at position `k` of the queue of its memory path; `last` = it is the response of
      the instruction's last transaction -/
  | memRet (i kind k : Nat) (last : Bool)
deriving Repr, DecidableEq

def GOp.erase : GOp → Op
  | .plain o => o
  | .memIssue i v _ => .memIssue i v
  | .memRet i kind _ last => .memRet i kind last

/-- a response arrives for the instruction at position `k` of queue `q`: one response fewer to
    wait for; an instruction all of whose responses have arrived leaves the queue -/
def accRet : List Acc → Nat → Bool → List Acc
  | [], _, _ => []
  | a :: q, 0, last =>
    let a' : Acc := if last then { a with lastPending := false } else { a with rest := a.rest - 1 }
    if a'.rest = 0 ∧ a'.lastPending = false then q else a' :: q
  | a :: q, k + 1, last => a :: accRet q k last

def gIssue (q : GWf) (vector : Bool) (n : Nat) : GWf :=
  if vector then { q with qv := q.qv ++ [⟨n, true⟩] } else { q with qs := q.qs ++ [⟨n, true⟩] }

def gRet (q : GWf) (kind k : Nat) (last : Bool) : GWf :=
  if kind = 0 ∨ kind = 1 then { q with qv := accRet q.qv k last }
  else if kind = 3 then { q with qs := accRet q.qs k last }
  else q

/-- one annotated event: the scheduler does `step` on the erased event -/
def gstep (c : Cfg) (gs : GState) (o : GOp) : GState :=
  { s := (step c gs.s o.erase).1
    g := match o with
      | .plain _ => gs.g
      | .memIssue i v n => fun j => if j = i then gIssue (gs.g i) v n else gs.g j
      | .memRet i kind k last => fun j => if j = i then gRet (gs.g i) kind k last else gs.g j }

def grun (c : Cfg) (gs : GState) (ops : List GOp) : GState := ops.foldl (gstep c) gs

/-- the queue a response of `kind` belongs to -/
def pathQueue (q : GWf) (kind : Nat) : List Acc := if kind = 3 then q.qs else q.qv

/-- the annotation is consistent: a `plain` event is not a counted memory event, and a response
    belongs to a transaction that is really outstanding -/
def respOK (gs : GState) : GOp → Bool
  | .plain (.memIssue _ _) => false
  | .plain (.memRet _ kind _) => decide (kind > 3)
  | .plain _ => true
  | .memIssue _ _ _ => true
  | .memRet i kind k last =>
    (kind == 0 || kind == 1 || kind == 3) &&
    match (pathQueue (gs.g i) kind)[k]? with
    | none => false
    | some a => if last then a.lastPending else decide (a.rest > 0)

/-- **in-order returns** (what the reorder buffer of property C15 provides on each memory path):
    the response that arrives belongs to the oldest outstanding instruction of its path, and the
    response of an instruction's last transaction arrives after those of its other transactions -/
def inOrder (gs : GState) : GOp → Bool
  | .memRet i kind k last =>
    k == 0 && (!last || match (pathQueue (gs.g i) kind)[0]? with
      | none => false
      | some a => a.rest == 0)
  | _ => true

def respOKRun (c : Cfg) : GState → List GOp → Bool
  | _, [] => true
  | gs, o :: ops => respOK gs o && respOKRun c (gstep c gs o) ops

def inOrderRun (c : Cfg) : GState → List GOp → Bool
  | _, [] => true
  | gs, o :: ops => inOrder gs o && inOrderRun c (gstep c gs o) ops

end C14
