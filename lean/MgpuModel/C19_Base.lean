import MgpuModel.Util
/-! # C19 — page migration: two PMCs, two memories, a network; the driver's re-homing step

Hand-written model (tie H) of
* `amd/timing/pagemigrationcontroller/pmc.go`: `PageMigrationController.Tick`, its 13 stages in
  program order, with the three Akita ports the constructor creates (in/out capacity 1 each);
* the environment the harness provides: a network that picks messages up from the `Remote` ports
  and delivers them in any order at any time, two memories that accept one request at a time from
  `LocalMem`, perform the accepted requests in any order and return the responses in any order,
  and a control side that submits migration requests and collects completions;
* `amd/driver/driver.go: preparePageForMigration` on a model of `internal.memoryAllocatorImpl`
  (`Allocate`, `AllocatePageWithGivenVAddr`, per-device free lists) and `vm.PageTable`.

IDs are fresh `Nat`s per PMC (`2*k + self`); the Go code draws string IDs from a global generator;
both traces are renumbered by first appearance before they are compared. -/
namespace C19
open Util

/-! ## memory (bytes) -/

abbrev Mem := Array Nat

def readByte (m : Mem) (x : Nat) : Nat := m.getD x 0

def writeBytes (m : Mem) (a : Nat) : List Nat → Mem
  | [] => m
  | b :: bs => writeBytes (m.setIfInBounds a b) (a + 1) bs

def readBytes (m : Mem) (a n : Nat) : List Nat :=
  (List.range n).map fun i => readByte m (a + i)

/-! ## messages -/

/-- `DataPullReq` -/
structure PullReq where
  id : Nat
  src : Nat
  dst : Nat
  addr : Nat
  size : Nat
deriving DecidableEq, Repr, Inhabited

/-- `DataPullRsp`; `dst = none` models the empty `requestingPMCtrlPort` -/
structure PullRsp where
  id : Nat
  dst : Option Nat
  data : List Nat
deriving DecidableEq, Repr, Inhabited

/-- what travels between `Remote` ports -/
inductive RMsg
  | req (r : PullReq)
  | rsp (r : PullRsp)
  | junk (dst : Nat)
deriving DecidableEq, Repr, Inhabited

/-- `mem.ReadReq` / `mem.WriteReq` on `LocalMem` -/
inductive MReq
  | read (id addr size : Nat)
  | write (id addr : Nat) (data : List Nat)
deriving DecidableEq, Repr, Inhabited

/-- `mem.DataReadyRsp` / `mem.WriteDoneRsp` -/
inductive MRsp
  | data (rspTo : Nat) (data : List Nat)
  | done (rspTo : Nat)
  | junk
deriving DecidableEq, Repr, Inhabited

/-- `PageMigrationReqToPMC`; `id` = submission number (the harness encodes it in `Src`) -/
structure MigReq where
  id : Nat
  rd : Nat
  wr : Nat
  size : Nat
  peer : Nat
deriving DecidableEq, Repr, Inhabited

inductive CMsg
  | mig (r : MigReq)
  | junk
deriving DecidableEq, Repr, Inhabited

/-- transfer unit, `onDemandPagingDataTransferSize` -/
def unit : Nat := 64

/-! ## one controller -/

structure Pmc where
  self : Nat := 0
  /-- `currentMigrationRequest` -/
  cur : Option MigReq := none
  /-- `currentPullReqFromAnotherPMC` (nil = empty: it is only ever appended to or reset to nil) -/
  curPull : List PullReq := []
  toPull : List PullReq := []
  /-- `toSendLocalMemPort` -/
  toRead : List MReq := []
  /-- `dataReadyRspFromMemCtrl` (RespondTo, data) -/
  dataReady : List (Nat × List Nat) := []
  /-- `toRspToAnotherPMC` -/
  toRsp : List PullRsp := []
  /-- `receivedDataFromAnothePMC` -/
  recvData : List PullRsp := []
  /-- `writeReqLocalMemPort` -/
  writeReqs : List MReq := []
  /-- `receivedWriteDoneFromMemCtrl` -/
  wdone : Option Nat := none
  /-- `toSendToCtrlPort` (id of the request it answers) -/
  toCtrl : Option Nat := none
  /-- `requestingPMCtrlPort` -/
  reqPort : Option Nat := none
  /-- `numDataRspPendingForPageMigration` -/
  pending : Int := -1
  /-- `reqIDToWriteAddressMap` -/
  map : List (Nat × Nat) := []
  /-- `isHandlingPageMigration` -/
  handling : Bool := false
  remIn : List RMsg := []
  remOut : List RMsg := []
  ctlIn : List CMsg := []
  ctlOut : List Nat := []
  memIn : List MRsp := []
  memOut : List MReq := []
  nid : Nat := 0
  fault : Option String := none
  /-- ghost: requests taken from the control port, oldest first -/
  started : List MigReq := []
  /-- ghost: completions pushed into the control port's outgoing buffer, oldest first -/
  completed : List Nat := []
  /-- ghost: write-done responses counted since the current migration started -/
  dones : Nat := 0
  /-- ghost: every write request created (`processDataPullRsp`), oldest first: (pull id, addr, data) -/
  wlog : List (Nat × Nat × List Nat) := []
  /-- ghost: every pull request created, oldest first, with the address its data is to be written to -/
  plog : List (PullReq × Nat) := []
deriving Repr, Inhabited

/-- The send loops of the controller: try every queued packet in order; a packet whose `Send`
    fails (outgoing buffer full) is kept. Returns the outgoing buffer and the kept packets. -/
def sendLoop {α β : Type} (f : α → β) (cap : Nat) : List β → List α → List β × List α
  | out, [] => (out, [])
  | out, x :: xs =>
    if out.length < cap then sendLoop f cap (out ++ [f x]) xs
    else let r := sendLoop f cap out xs; (r.1, x :: r.2)

def fresh (p : Pmc) : Nat := 2 * p.nid + p.self % 2

/-- `sendMigrationReqToAnotherPMC` (`msgMustBeValid` panics on a request addressed to oneself) -/
def sendPull (p : Pmc) : Pmc × Bool :=
  if p.toPull.isEmpty then (p, false)
  else if p.toPull.any (fun r => r.dst == p.self) then ({ p with fault := some "self" }, false)
  else
    let r := sendLoop RMsg.req 1 p.remOut p.toPull
    ({ p with remOut := r.1, toPull := r.2 }, r.2.length < p.toPull.length)

/-- `sendReadReqLocalMemPort` -/
def sendRead (p : Pmc) : Pmc × Bool :=
  if p.toRead.isEmpty then (p, false)
  else
    let r := sendLoop id 1 p.memOut p.toRead
    ({ p with memOut := r.1, toRead := r.2 }, r.2.length < p.toRead.length)

/-- `sendMigrationCompleteRspToCtrlPort` -/
def sendComplete (p : Pmc) : Pmc × Bool :=
  match p.toCtrl with
  | none => (p, false)
  | some c =>
    if p.ctlOut.length < 1 then
      ({ p with ctlOut := p.ctlOut ++ [c], handling := false, cur := none, toCtrl := none,
                completed := p.completed ++ [c] }, true)
    else (p, false)

/-- `sendDataReadyRspToRequestingPMC` (`dstMustNotBeEmpty` panics when no pull request was ever seen) -/
def sendRsp (p : Pmc) : Pmc × Bool :=
  if p.toRsp.isEmpty then (p, false)
  else if p.toRsp.any (fun r => r.dst.isNone) then ({ p with fault := some "nodst" }, false)
  else
    let r := sendLoop RMsg.rsp 1 p.remOut p.toRsp
    ({ p with remOut := r.1, toRsp := r.2 }, r.2.length < p.toRsp.length)

/-- `sendWriteReqLocalMemPort` -/
def sendWrite (p : Pmc) : Pmc × Bool :=
  if p.writeReqs.isEmpty then (p, false)
  else
    let r := sendLoop id 1 p.memOut p.writeReqs
    ({ p with memOut := r.1, writeReqs := r.2 }, r.2.length < p.writeReqs.length)

/-- `processFromOutside` -/
def fromOutside (p : Pmc) : Pmc × Bool :=
  match p.remIn with
  | [] => (p, false)
  | .req r :: rest =>
    ({ p with remIn := rest, curPull := p.curPull ++ [r], reqPort := some r.src }, true)
  | .rsp r :: rest => ({ p with remIn := rest, recvData := p.recvData ++ [r] }, true)
  | .junk _ :: _ => ({ p with fault := some "type" }, false)

/-- `processFromCtrlPort` -/
def fromCtrl (p : Pmc) : Pmc × Bool :=
  if p.handling then (p, false)
  else match p.ctlIn with
    | [] => (p, false)
    | .mig r :: rest => ({ p with ctlIn := rest, cur := some r, started := p.started ++ [r] }, true)
    | .junk :: rest => ({ p with ctlIn := rest, fault := some "type" }, false)

/-- `processFromMemCtrl` -/
def fromMem (p : Pmc) : Pmc × Bool :=
  match p.memIn with
  | [] => (p, false)
  | .data i d :: rest => ({ p with memIn := rest, dataReady := p.dataReady ++ [(i, d)] }, true)
  | .done i :: rest => ({ p with memIn := rest, wdone := some i }, true)
  | .junk :: rest => ({ p with memIn := rest, fault := some "type" }, false)

/-- the pull requests of one page: chunk `i` is read at `rd + 64 i` and will be written at `wr + 64 i` -/
def mkPulls (self peer rd wr : Nat) (base : Nat) : Nat → List (PullReq × Nat)
  | 0 => []
  | n + 1 => mkPulls self peer rd wr base n ++
      [(⟨2 * (base + n) + self % 2, self, peer, rd + unit * n, unit⟩, wr + unit * n)]

/-- `processPageMigrationReqFromCtrlPort` -/
def startMigration (p : Pmc) : Pmc × Bool :=
  match p.cur with
  | none => (p, false)
  | some r =>
    if p.handling then (p, false)
    else
      let n := r.size / unit
      let ps := mkPulls p.self r.peer r.rd r.wr p.nid n
      ({ p with pending := (n : Int), toPull := p.toPull ++ ps.map (·.1),
                map := p.map ++ ps.map (fun x => (x.1.id, x.2)), nid := p.nid + n,
                handling := true, dones := 0, plog := p.plog ++ ps }, true)

/-- `processReadPageReqFromAnotherPMC` -/
def readPage (p : Pmc) : Pmc × Bool :=
  if p.curPull.isEmpty then (p, false)
  else ({ p with toRead := p.toRead ++ p.curPull.map (fun r => MReq.read r.id r.addr r.size),
                 curPull := [] }, true)

/-- `processDataReadyRspFromMemCtrl` -/
def dataReadyRsp (p : Pmc) : Pmc × Bool :=
  if p.dataReady.isEmpty then (p, false)
  else ({ p with toRsp := p.toRsp ++ p.dataReady.map (fun x => ⟨x.1, p.reqPort, x.2⟩),
                 dataReady := [] }, true)

/-- body of the loop of `processDataPullRsp` -/
def pullRspLoop (p : Pmc) : List PullRsp → Pmc
  | [] => p
  | r :: rs =>
    match p.map.lookup r.id with
    | none => { p with fault := some "nowhere" }
    | some a =>
      pullRspLoop { p with writeReqs := p.writeReqs ++ [MReq.write (fresh p) a r.data],
                           map := p.map.filter (fun e => e.1 != r.id), nid := p.nid + 1,
                           wlog := p.wlog ++ [(r.id, a, r.data)] } rs

/-- `processDataPullRsp` -/
def pullRsp (p : Pmc) : Pmc × Bool :=
  if p.recvData.isEmpty then (p, false)
  else
    let q := pullRspLoop p p.recvData
    ({ q with recvData := [] }, q.fault.isNone)

/-- `processWriteDoneRspFromMemCtrl` -/
def writeDone (p : Pmc) : Pmc × Bool :=
  match p.wdone with
  | none => (p, false)
  | some _ =>
    let pend := p.pending - 1
    if pend < 0 then ({ p with pending := pend, wdone := none, fault := some "notpossible" }, false)
    else if pend = 0 then
      match p.cur with
      | none => ({ p with pending := pend, wdone := none, fault := some "nilderef" }, false)
      | some r => ({ p with pending := -1, wdone := none, toCtrl := some r.id, cur := none,
                            dones := p.dones + 1 }, true)
    else ({ p with pending := pend, wdone := none, dones := p.dones + 1 }, true)

/-- run stage `f` unless a panic already happened -/
def stage (f : Pmc → Pmc × Bool) (x : Pmc × Bool) : Pmc × Bool :=
  if x.1.fault.isSome then x else let r := f x.1; (r.1, r.2 || x.2)

/-- `PageMigrationController.Tick` -/
def tick (p : Pmc) : Pmc × Bool :=
  (p, false) |> stage sendPull |> stage sendRead |> stage sendComplete |> stage sendRsp
    |> stage sendWrite |> stage fromOutside |> stage fromCtrl |> stage fromMem
    |> stage startMigration |> stage readPage |> stage dataReadyRsp |> stage pullRsp
    |> stage writeDone

/-! ## the system -/

structure Sys where
  p0 : Pmc := { self := 0 }
  p1 : Pmc := { self := 1 }
  m0 : Mem := #[]
  m1 : Mem := #[]
  /-- messages in flight between the remote ports -/
  net : List RMsg := []
  /-- requests accepted by memory 0/1, not yet performed -/
  mq0 : List MReq := []
  mq1 : List MReq := []
  /-- responses of memory 0/1, not yet delivered -/
  mr0 : List MRsp := []
  mr1 : List MRsp := []
  /-- control messages submitted for PMC 0/1, not yet delivered -/
  cq0 : List CMsg := []
  cq1 : List CMsg := []
  /-- ghost: completions collected from PMC 0/1 -/
  got0 : List Nat := []
  got1 : List Nat := []
  nreq : Nat := 0
  fault : Option String := none
deriving Inhabited

def Sys.pmc (s : Sys) (i : Nat) : Pmc := if i = 0 then s.p0 else s.p1
def Sys.setPmc (s : Sys) (i : Nat) (p : Pmc) : Sys := if i = 0 then { s with p0 := p } else { s with p1 := p }
def Sys.mem (s : Sys) (i : Nat) : Mem := if i = 0 then s.m0 else s.m1
def Sys.setMem (s : Sys) (i : Nat) (m : Mem) : Sys := if i = 0 then { s with m0 := m } else { s with m1 := m }
def Sys.mq (s : Sys) (i : Nat) : List MReq := if i = 0 then s.mq0 else s.mq1
def Sys.setMq (s : Sys) (i : Nat) (l : List MReq) : Sys := if i = 0 then { s with mq0 := l } else { s with mq1 := l }
def Sys.mr (s : Sys) (i : Nat) : List MRsp := if i = 0 then s.mr0 else s.mr1
def Sys.setMr (s : Sys) (i : Nat) (l : List MRsp) : Sys := if i = 0 then { s with mr0 := l } else { s with mr1 := l }
def Sys.cq (s : Sys) (i : Nat) : List CMsg := if i = 0 then s.cq0 else s.cq1
def Sys.setCq (s : Sys) (i : Nat) (l : List CMsg) : Sys := if i = 0 then { s with cq0 := l } else { s with cq1 := l }
def Sys.got (s : Sys) (i : Nat) : List Nat := if i = 0 then s.got0 else s.got1
def Sys.setGot (s : Sys) (i : Nat) (l : List Nat) : Sys := if i = 0 then { s with got0 := l } else { s with got1 := l }

inductive Op
  | tick (p : Nat)
  /-- submit a migration request for PMC `p` -/
  | submit (p rd wr size peer : Nat)
  /-- deliver the oldest submitted control message to the control port (no-op when full) -/
  | ctl (p : Nat)
  /-- the network picks up the message in the remote port's outgoing buffer -/
  | pick (p : Nat)
  /-- the network delivers its `j`-th message (no-op when the destination buffer is full) -/
  | dnet (j : Nat)
  /-- memory `p` accepts the request in the local-memory port's outgoing buffer -/
  | mtake (p : Nat)
  /-- memory `p` performs its `j`-th accepted request -/
  | mdo (p j : Nat)
  /-- memory `p` returns its `j`-th response (no-op when the port's incoming buffer is full) -/
  | mrsp (p j : Nat)
  /-- the control side collects a completion -/
  | coll (p : Nat)
  /-- malformed environment: stray write-done / data-ready / pull response / junk messages -/
  | strayDone (p : Nat)
  | strayData (p : Nat)
  | strayRsp (p : Nat)
  | junkNet (p : Nat)
  | junkMem (p : Nat)
  | junkCtl (p : Nat)
deriving Repr, Inhabited

def removeNth {α : Type} (l : List α) (j : Nat) : List α := l.eraseIdx j

def dstOf : RMsg → Nat
  | .req r => r.dst
  | .rsp r => r.dst.getD 0
  | .junk d => d

/-- what a memory does with one request -/
def perform (m : Mem) : MReq → Option (Mem × MRsp)
  | .read i a n => if a + n ≤ m.size then some (m, .data i (readBytes m a n)) else none
  | .write i a d => if a + d.length ≤ m.size then some (writeBytes m a d, .done i) else none

/-- canonical descriptions (raw IDs; renumbered afterwards) -/
def dsig (d : List Nat) : String := s!"{d.length}.{toHex (fnv d)}"
def descR : RMsg → String
  | .req r => s!"q#{r.id}:{r.src}>{r.dst}:{toHex r.addr}:{r.size}"
  | .rsp r => s!"p#{r.id}:>{r.dst.getD 9}:{dsig r.data}"
  | .junk d => s!"j>{d}"
def descM : MReq → String
  | .read i a n => s!"r#{i}:{toHex a}:{n}"
  | .write i a d => s!"w#{i}:{toHex a}:{dsig d}"
def descA : MRsp → String
  | .data i d => s!"d#{i}:{dsig d}"
  | .done i => s!"k#{i}"
  | .junk => "j"

def pmcSig (p : Pmc) : String :=
  let b (x : Bool) := if x then "1" else "0"
  s!"{p.toPull.length},{p.curPull.length},{p.toRead.length},{p.dataReady.length},{p.toRsp.length}," ++
  s!"{p.recvData.length},{p.writeReqs.length},{b p.wdone.isSome},{b p.toCtrl.isSome},{p.pending}," ++
  s!"{p.map.length},{b p.handling},{b p.cur.isSome}"

/-- one environment move or tick; returns the trace token -/
def step (s : Sys) : Op → Sys × String
  | .tick i =>
    let r := tick (s.pmc i)
    match r.1.fault with
    | some f => ({ s.setPmc i r.1 with fault := some f }, s!"fault:{f}")
    | none => (s.setPmc i r.1, s!"T{if r.2 then 1 else 0}[{pmcSig r.1}]")
  | .submit i rd wr size peer =>
    let r : MigReq := ⟨s.nreq, rd, wr, size, peer⟩
    ({ s.setCq i (s.cq i ++ [.mig r]) with nreq := s.nreq + 1 }, s!"s{r.id}")
  | .ctl i =>
    match s.cq i with
    | [] => (s, "-")
    | c :: rest =>
      let p := s.pmc i
      if p.ctlIn.length < 1 then ((s.setPmc i { p with ctlIn := p.ctlIn ++ [c] }).setCq i rest, "ok")
      else (s, "full")
  | .pick i =>
    let p := s.pmc i
    match p.remOut with
    | [] => (s, "-")
    | m :: rest => ({ s.setPmc i { p with remOut := rest } with net := s.net ++ [m] }, descR m)
  | .dnet j =>
    match s.net[j % s.net.length]? with
    | none => (s, "-")
    | some m =>
      let i := dstOf m
      let p := s.pmc i
      if p.remIn.length < 1 then
        ({ s.setPmc i { p with remIn := p.remIn ++ [m] } with net := removeNth s.net (j % s.net.length) },
          "ok:" ++ descR m)
      else (s, "full:" ++ descR m)
  | .mtake i =>
    let p := s.pmc i
    match p.memOut with
    | [] => (s, "-")
    | m :: rest => ((s.setPmc i { p with memOut := rest }).setMq i (s.mq i ++ [m]), descM m)
  | .mdo i j =>
    let q := s.mq i
    match q[j % q.length]? with
    | none => (s, "-")
    | some m =>
      match perform (s.mem i) m with
      | none => ({ s with fault := some "oob" }, "fault:oob")
      | some (mem', rsp) =>
        (((s.setMem i mem').setMq i (removeNth q (j % q.length))).setMr i (s.mr i ++ [rsp]),
          descM m ++ "=" ++ descA rsp)
  | .mrsp i j =>
    let q := s.mr i
    match q[j % q.length]? with
    | none => (s, "-")
    | some m =>
      let p := s.pmc i
      if p.memIn.length < 1 then
        ((s.setPmc i { p with memIn := p.memIn ++ [m] }).setMr i (removeNth q (j % q.length)), "ok:" ++ descA m)
      else (s, "full:" ++ descA m)
  | .coll i =>
    let p := s.pmc i
    match p.ctlOut with
    | [] => (s, "-")
    | c :: rest => ((s.setPmc i { p with ctlOut := rest }).setGot i (s.got i ++ [c]), s!"c{c}")
  | .strayDone i => (s.setMr i (s.mr i ++ [.done 1000003]), "x")
  | .strayData i => (s.setMr i (s.mr i ++ [.data 1000001 (List.replicate 64 7)]), "x")
  | .strayRsp i => ({ s with net := s.net ++ [.rsp ⟨1000005, some i, List.replicate 64 9⟩] }, "x")
  | .junkNet i => ({ s with net := s.net ++ [.junk i] }, "x")
  | .junkMem i => (s.setMr i (s.mr i ++ [.junk]), "x")
  | .junkCtl i => (s.setCq i (s.cq i ++ [.junk]), "x")

def run (s : Sys) (ops : List Op) : Sys := ops.foldl (fun s o => (step s o).1) s

/-! ## the driver's re-homing step on an allocator / page-table model -/

/-- `vm.Page` (the fields the driver sets) -/
structure Page where
  pid : Nat
  vaddr : Nat
  paddr : Nat
  dev : Nat
  unified : Bool
  migrating : Bool
deriving DecidableEq, Repr, Inhabited

/-- allocator + page table: `free[d]` = `availablePAddrs` of device `d`; `table` = all processes'
    entries in insertion order; `mirror` = `vAddrToPageMapping` (keyed by vaddr only) -/
structure Alloc where
  lg : Nat
  free : List (List Nat)
  /-- (initial address, storage size) of every device -/
  range : List (Nat × Nat)
  table : List Page := []
  next : List (Nat × Nat) := []
  mirror : List (Nat × Page) := []
deriving Repr, Inhabited

def Alloc.find (a : Alloc) (pid vaddr : Nat) : Option Page :=
  a.table.find? fun p => p.pid == pid && p.vaddr == vaddr

/-- `pageTable.Update` (panics when there is no entry with this PID and VAddr) -/
def Alloc.update (a : Alloc) (pg : Page) : Option Alloc :=
  if (a.find pg.pid pg.vaddr).isSome then
    some { a with table := a.table.map fun p => if p.pid == pg.pid && p.vaddr == pg.vaddr then pg else p }
  else none

def setNth {α : Type} (l : List α) (i : Nat) (x : α) : List α := l.set i x

/-- `Device.allocatePage` for a plain device -/
def Alloc.pop (a : Alloc) (dev : Nat) : Except String (Nat × Alloc) :=
  match a.free[dev]? with
  | none => .error "nilderef"
  | some [] => .error "oom"
  | some (x :: rest) => .ok (x, { a with free := setNth a.free dev rest })

def Alloc.deviceOf (a : Alloc) (paddr : Nat) : Option Nat :=
  (List.range a.range.length).find? fun d =>
    match a.range[d]? with
    | some (b, sz) => b ≤ paddr && paddr < b + sz
    | none => false

/-- `allocatePageWithGivenVAddr` -/
def Alloc.allocGiven (a : Alloc) (pid dev vaddr : Nat) (unified : Bool) : Except String (Page × Alloc) :=
  match a.pop dev with
  | .error e => .error e
  | .ok (pa, a1) =>
    let pg : Page := ⟨pid, vaddr, pa, dev, unified, false⟩
    let a2 := { a1 with mirror := (vaddr, pg) :: a1.mirror.filter (fun e => e.1 != vaddr) }
    match a2.update pg with
    | none => .error "nopage"
    | some a3 => .ok (pg, a3)

/-- `Driver.preparePageForMigration(vAddr, context, gpuID)`; returns the new page and the old
    physical address -/
def prepare (a : Alloc) (pid vaddr gpu : Nat) : Except String (Page × Nat × Alloc) :=
  let aligned := (vaddr >>> a.lg) <<< a.lg
  match a.find pid aligned with
  | none => .error "notfound"
  | some old =>
    match a.allocGiven pid (gpu + 1) vaddr true with
    | .error e => .error e
    | .ok (pg, a1) =>
      let pg' := { pg with dev := gpu + 1, migrating := true }
      match a1.update pg' with
      | none => .error "nopage"
      | some a2 => .ok (pg', old.paddr, a2)

/-- `MemoryAllocator.ReleasePhysicalPage(pAddr)`: `addSinglePAddr` on the device whose range holds the frame
    (`deviceIDByPAddr` panics when no device does); the frame is appended to that device's free list -/
def Alloc.release (a : Alloc) (paddr : Nat) : Except String Alloc :=
  match a.deviceOf paddr with
  | none => .error "nodevice"
  | some d =>
    match a.free[d]? with
    | none => .error "nilderef"
    | some f => .ok { a with free := setNth a.free d (f ++ [paddr]) }

/-- `allocatePages` for one page after another (`Allocate(pid, bytes, dev)`) -/
def Alloc.allocate (a : Alloc) (pid dev : Nat) : Nat → Except String Alloc
  | 0 => .ok a
  | n + 1 => do
    let nv := (a.next.lookup pid).getD (1 <<< a.lg)
    let (pa, a1) ← a.pop dev
    match a1.deviceOf pa with
    | none => .error "nodevice"
    | some d =>
      if (a1.find pid nv).isSome then .error "exist" else
      let pg : Page := ⟨pid, nv, pa, d, false, false⟩
      let a2 := { a1 with table := a1.table ++ [pg],
                          mirror := (nv, pg) :: a1.mirror.filter (fun e => e.1 != nv),
                          next := (pid, nv + (1 <<< a.lg)) :: a1.next.filter (fun e => e.1 != pid) }
      a2.allocate pid dev n

/-! ## the driver's handshake counters (drain → shootdown → migrate → restart) -/

/-- `numRDMADrainACK`, `numShootDownACK`, `numPagesMigratingACK`, `numRestartACK`,
    `numRDMARestartACK` (Go: `uint64`; a decrement at 0 wraps — reported as `under`) -/
structure Hs where
  ngpu : Nat
  acc : Nat
  pages : Nat
  /-- requests waiting in the MMU port's incoming buffer (capacity 1) -/
  mmuIn : Nat := 0
  handling : Bool := false
  drain : Nat := 0
  shoot : Nat := 0
  mig : Nat := 0
  restart : Nat := 0
  rdma : Nat := 0
  /-- queued `PageMigrationReqToCP` / one in flight -/
  toCP : Nat := 0
  one : Bool := false
  /-- messages handed to the GPU port (ghost) -/
  sentDrain : Nat := 0
  sentShoot : Nat := 0
  sentMig : Nat := 0
  sentRestart : Nat := 0
  sentRdma : Nat := 0
  rspMMU : Nat := 0
  /-- ghost: some counter was decremented at 0 -/
  under : Bool := false
deriving Repr, Inhabited, DecidableEq

/-- a message delivered to the driver -/
inductive HsOp
  | fromMMU
  | drainRsp
  | shootRsp
  | migRsp
  | restartRsp
  | rdmaRsp
deriving Repr, Inhabited, DecidableEq

def w64 : Nat := 2 ^ 64

def dec (n : Nat) (h : Hs) : Nat × Hs := if n = 0 then (w64 - 1, { h with under := true }) else (n - 1, h)

/-- what the following ticks do until nothing moves: `parseFromMMU` (+`initiateRDMADrain`) and
    `sendMigrationReqToCP` -/
def hsSettle (h : Hs) : Hs :=
  let h := if !h.handling && h.mmuIn = 1 then
      { h with mmuIn := 0, handling := true, drain := (h.drain + h.ngpu) % w64, sentDrain := h.sentDrain + h.ngpu }
    else h
  if h.toCP = 0 ∨ h.one then h else { h with toCP := h.toCP - 1, one := true, sentMig := h.sentMig + 1 }

def hsDeliver (h : Hs) : HsOp → Hs
  | .fromMMU => if h.mmuIn < 1 then { h with mmuIn := 1 } else h
  | .drainRsp =>
    let (d, h) := dec h.drain h
    if d = 0 then { h with drain := d, shoot := h.acc, sentShoot := h.sentShoot + h.acc } else { h with drain := d }
  | .shootRsp =>
    let (d, h) := dec h.shoot h
    if d = 0 then { h with shoot := d, toCP := h.toCP + h.pages, mig := (h.mig + h.pages) % w64 } else { h with shoot := d }
  | .migRsp =>
    let (d, h) := dec h.mig h
    if d = 0 then { h with mig := d, one := false, restart := (h.restart + h.acc) % w64,
                           sentRestart := h.sentRestart + h.acc, rspMMU := h.rspMMU + 1 }
    else { h with mig := d, one := false }
  | .restartRsp =>
    let (d, h) := dec h.restart h
    if d = 0 then { h with restart := d, rdma := (h.rdma + h.ngpu) % w64, sentRdma := h.sentRdma + h.ngpu }
    else { h with restart := d }
  | .rdmaRsp =>
    let (d, h) := dec h.rdma h
    if d = 0 then { h with rdma := d, handling := false } else { h with rdma := d }

/-- one delivered message followed by ticks until quiescence -/
def hsStep (h : Hs) (o : HsOp) : Hs := hsSettle (hsDeliver h o)

/-- `findRequestingGPUs` followed by the two nested loops of `processShootdownCompleteRsp` and
    `preparePageMigrationRspToMMU` (as repaired: GPU order, not Go map order): the GPUs `1..ngpu`
    that have an entry in `GPUReqToVAddrMap` (`m` lists the entries of the Go map in any order), each
    with its pages in slice order; the result pairs the 0-based GPU id with the page address -/
def migOrder (ngpu : Nat) (m : List (Nat × List Nat)) : List (Nat × Nat) :=
  (List.range ngpu).flatMap fun i =>
    match m.lookup (i + 1) with
    | some vs => vs.map fun v => (i, v)
    | none => []

/-! ## line protocol -/

/-- renumber `#<raw>` by first appearance (fuel = length of the text) -/
def renumGo : Nat → List Char → List Nat → List Char → List Char
  | 0, _, _, acc => acc.reverse
  | _, [], _, acc => acc.reverse
  | f + 1, '#' :: rest, seen, acc =>
    let ds := rest.takeWhile Char.isDigit
    let rest' := rest.dropWhile Char.isDigit
    let n := (String.ofList ds).toNat!
    let k := seen.idxOf n
    let seen' := if k < seen.length then seen else seen ++ [n]
    renumGo f rest' seen' ((toString k).toList.reverse ++ '#' :: acc)
  | f + 1, c :: rest, seen, acc => renumGo f rest seen (c :: acc)

def renumber (s : String) : String := String.ofList (renumGo (s.length + 1) s.toList [] [])

/-- initial content of memory `i`: the same generator as the harness -/
def initByte (salt i x : Nat) : Nat :=
  ((x * 2654435761 + salt * 40503 + i * 97 + (x / 64) * 131) / 8) % 256

def initMem (salt i size : Nat) : Mem := Array.ofFn (n := size) fun x => initByte salt i x.val

def parseOp (t : List String) : Option Op :=
  match t with
  | ["t", p] => p.toNat?.map .tick
  | ["s", p, rd, wr, sz, peer] => do
      pure (.submit (← p.toNat?) (← hexNat? rd) (← hexNat? wr) (← sz.toNat?) (← peer.toNat?))
  | ["c", p] => p.toNat?.map .ctl
  | ["n", p] => p.toNat?.map .pick
  | ["d", j] => j.toNat?.map .dnet
  | ["m", p] => p.toNat?.map .mtake
  | ["x", p, j] => do pure (.mdo (← p.toNat?) (← j.toNat?))
  | ["r", p, j] => do pure (.mrsp (← p.toNat?) (← j.toNat?))
  | ["k", p] => p.toNat?.map .coll
  | ["sw", p] => p.toNat?.map .strayDone
  | ["sd", p] => p.toNat?.map .strayData
  | ["sr", p] => p.toNat?.map .strayRsp
  | ["jn", p] => p.toNat?.map .junkNet
  | ["jm", p] => p.toNat?.map .junkMem
  | ["jc", p] => p.toNat?.map .junkCtl
  | _ => none

def runOps (s : Sys) (ops : List Op) (out : List String) : Sys × List String :=
  match ops with
  | [] => (s, out)
  | o :: rest =>
    let (s', tok) := step s o
    if s'.fault.isSome then (s', tok :: out) else runOps s' rest (tok :: out)

def memSig (m : Mem) : String := toHex (fnv m.toList)

def handleMig (cfg : List String) (rest : List String) : String :=
  match kvNat? cfg "msz", kvNat? cfg "salt" with
  | some msz, some salt =>
    match rest.mapM fun o => parseOp (words o) with
    | none => "bad"
    | some ops =>
      let s0 : Sys := { m0 := initMem salt 0 msz, m1 := initMem salt 1 msz }
      let (s, out) := runOps s0 ops []
      renumber (joinWith " " out.reverse) ++ " " ++ joinWith " " ([s!"M0={memSig s.m0}", s!"M1={memSig s.m1}",
        s!"G0={joinWith "," (s.got0.map toString)}", s!"G1={joinWith "," (s.got1.map toString)}"])
  | _, _ => "bad"

/-! ### `prep` lines -/

def pageSig (p : Page) : String :=
  s!"{p.pid}:{toHex p.vaddr}>{toHex p.paddr}@{p.dev}{if p.unified then "u" else ""}{if p.migrating then "m" else ""}"

def insertSorted (s : String) : List String → List String
  | [] => [s]
  | x :: xs => if s ≤ x then s :: x :: xs else x :: insertSorted s xs

def sortStrings (l : List String) : List String := l.foldl (fun acc s => insertSorted s acc) []

def allocSig (a : Alloc) : String :=
  "T=" ++ joinWith "," (sortStrings (a.table.map pageSig)) ++ " F=" ++
    joinWith "," (a.free.map fun f => s!"{f.length}/{toHex (f.headD 0)}")

/-- device 0 = CPU with `cpu` pages, then the GPUs with the given page counts; addresses start at one page -/
def mkAlloc (lg cpu : Nat) (gpus : List Nat) : Alloc :=
  let pg := 1 <<< lg
  let rec go (base : Nat) : List Nat → List (List Nat) × List (Nat × Nat)
    | [] => ([], [])
    | n :: ns =>
      let r := go (base + n * pg) ns
      ((List.range n).map (fun i => base + i * pg) :: r.1, (base, n * pg) :: r.2)
  let r := go pg (cpu :: gpus)
  { lg := lg, free := r.1, range := r.2 }

def runPrep (a : Alloc) (ops : List (List String)) (out : List String) : List String :=
  match ops with
  | [] => (allocSig a :: out).reverse
  | ["a", pid, dev, n] :: rest =>
    match pid.toNat?, dev.toNat?, n.toNat? with
    | some pid, some dev, some n =>
      match a.allocate pid dev n with
      | .ok a' => runPrep a' rest ("ok" :: out)
      | .error e => (s!"fault:{e}" :: out).reverse
    | _, _, _ => ["bad"]
  | ["g", pid, va, gpu] :: rest =>
    match pid.toNat?, hexNat? va, gpu.toNat? with
    | some pid, some va, some gpu =>
      match prepare a pid va gpu with
      | .ok (pg, old, a') => runPrep a' rest (s!"{pageSig pg}<{toHex old}" :: out)
      | .error e => (s!"fault:{e}" :: out).reverse
    | _, _, _ => ["bad"]
  | _ => ["bad"]

def handlePrep (cfg : List String) (rest : List String) : String :=
  match kvNat? cfg "lg", kvNat? cfg "cpu", (kv? cfg "gpus").bind (natList? ·) with
  | some lg, some cpu, some gpus => joinWith " " (runPrep (mkAlloc lg cpu gpus) (rest.map words) [])
  | _, _, _ => "bad"

/-! ### `hs` lines -/

def parseHs : String → Option HsOp
  | "M" => some .fromMMU
  | "D" => some .drainRsp
  | "S" => some .shootRsp
  | "P" => some .migRsp
  | "R" => some .restartRsp
  | "A" => some .rdmaRsp
  | _ => none

def hsSig (h : Hs) : String :=
  let b (x : Bool) := if x then "1" else "0"
  s!"{b h.handling}:{h.drain},{h.shoot},{h.mig},{h.restart},{h.rdma}:{h.toCP}{b h.one}:" ++
  s!"{h.sentDrain},{h.sentShoot},{h.sentMig},{h.sentRestart},{h.sentRdma},{h.rspMMU}"

def handleHs (cfg : List String) (rest : List String) : String :=
  match kvNat? cfg "ngpu", kvNat? cfg "acc", kvNat? cfg "pages" with
  | some ngpu, some acc, some pages =>
    match rest.mapM parseHs with
    | none => "bad"
    | some ops =>
      let r := ops.foldl (fun (st : Hs × List String) o =>
        let h := hsStep st.1 o
        (h, hsSig h :: st.2)) (({ ngpu := ngpu, acc := acc, pages := pages } : Hs), [])
      joinWith " " r.2.reverse
  | _, _, _ => "bad"

/-! ### `hsmap` lines: the page-per-GPU map of one request -/

/-- `g:i,j,k` (pages are named by allocation index; `g:-` = an entry without pages) -/
def parseEntry (s : String) : Option (Nat × List Nat) :=
  match splitTrim s ":" with
  | [g, l] => do pure (← g.toNat?, ← natList? l)
  | _ => none

/-- the page list of the shootdown command, the migrate commands (0-based GPU : page) and the page
    list of the reply to the MMU -/
def handleHsMap (cfg : List String) (rest : List String) : String :=
  match kvNat? cfg "ngpu" with
  | some ngpu =>
    match rest.mapM parseEntry with
    | none => "bad"
    | some m =>
      let o := migOrder ngpu m
      let pl := joinWith "," (o.map fun x => toString x.2)
      s!"sd={pl} cmd={joinWith "," (o.map fun x => s!"{x.1}:{x.2}")} rsp={pl}"
  | none => "bad"

/-- the four kinds of case lines of the base module (`MgpuModel/C19.lean` adds `cp`, `drv`) -/
def handleBase (line : String) : String :=
  match splitTrim line ";" with
  | [] => "bad"
  | first :: rest =>
    match words first with
    | "c19" :: "mig" :: cfg => handleMig cfg rest
    | "c19" :: "prep" :: cfg => handlePrep cfg rest
    | "c19" :: "hs" :: cfg => handleHs cfg rest
    | "c19" :: "hsmap" :: cfg => handleHsMap cfg rest
    | _ => "bad"

end C19
