import MgpuModel.Util
/-! # C09 — the compute-unit side of the MapWGReq / WGCompletionMsg protocol

Two small models (core Lean only), one scenario per case line:

* **timing CU** (`amd/timing/cu`), protocol level. Instruction execution is abstracted: the
  environment (fetch, arbiters, pipelines) decides *when* a wavefront is issued to the scheduler's
  internal unit and when its `s_endpgm` / `s_barrier` is evaluated. Modelled branch by branch:
  `handleMapWGReq` (`AddWf` to `WfPools[simd]`, state Ready), `issueToInternal` (Running),
  `evalSEndPgm` (all others completed → `sendWGCompletionMessage`, on a full port nothing changes
  and the wavefront is retried; mark Completed; `clearWGResource` removes every wavefront of the
  group from its pool / others at barrier → `passBarrier` / somebody executing → Completed /
  `panic("never")`), `evalSBarrier` (barrier buffer never full with ≤ 16 waiting wavefronts),
  default SOPP (`UpdatePCAndSetReady`).
* **emulation CU** (`amd/emu/computeunit.go`), event level with the real time order:
  `processMapWGReq` (queue, `cu.wfs` entry, an `emulationEvent` at the next WHOLE second only if
  `nextTick <= now`), `runEmulation` (all queued groups, one `WGCompleteEvent` a cycle later each),
  `handleWGCompleteEvent` as repaired by `fix:` 776c38a7 (work-group still mapped → delete the
  entry and append the id; others still mapped or nothing finished → return, else ONE message
  with all finished ids; full port → the event is rescheduled a cycle later). The code before
  the repair (delete entry, append id unless present in the list) is kept as `wgCompleteOld` /
  `estepOld` / `erunOld`: there a retry event re-appended an id an earlier message had carried.
  Time is counted in cycles, `P` = cycles per second (10^9 shipped). The engine is Akita's serial
  engine: pending events are fired in time order, ties are broken by a binary heap
  (`container/heap`, strict `<` on the time) — NOT first-in-first-out. The abstract model lets
  *any* minimum-time event fire (`Legal`); the line handler replays Go's heap (`hpush`/`hpop`)
  to choose the one the real engine chooses and checks that the choice is legal. -/
namespace C09.CUSide
open Util

/-! ## timing compute unit -/

inductive WSt
  | ready
  | running
  | barrier
  | done
deriving DecidableEq, Repr

structure Wf where
  simd : Nat
  st : WSt
deriving DecidableEq, Repr

structure WG where
  id : Nat
  src : Nat
  wfs : List Wf
deriving Repr

structure TState where
  caps : List Nat
  pools : List (List (Nat × Nat))
  wgs : List WG
  room : Nat
  sent : List (Nat × Nat)
  fault : Option String
deriving Repr

def updAt {α : Type} : List α → Nat → (α → α) → List α
  | [], _, _ => []
  | a :: l, 0, f => f a :: l
  | a :: l, n+1, f => a :: updAt l n f

/-- `cu.WfPools[loc.SIMDID].AddWf(wf)` for the wavefronts `k, k+1, …` of request `id` -/
def addAll (pools : List (List (Nat × Nat))) (id : Nat) : List Nat → Nat → List (List (Nat × Nat))
  | [], _ => pools
  | s :: rest, k => addAll (updAt pools s (· ++ [(id, k)])) id rest (k+1)

/-- `clearWGResource`: `WfPools[wf.SIMDID].RemoveWf(wf)` for every wavefront of the group -/
def clearAll (pools : List (List (Nat × Nat))) (id : Nat) : List Nat → Nat → List (List (Nat × Nat))
  | [], _ => pools
  | sd :: rest, k => clearAll (updAt pools sd (·.erase (id, k))) id rest (k+1)

def tinit (caps : List Nat) (room : Nat) : TState :=
  { caps := caps, pools := caps.map fun _ => [], wgs := [], room := room, sent := [], fault := none }

/-- `handleMapWGReq` (not sampled) -/
def mapWG (s : TState) (id src : Nat) (simds : List Nat) : TState :=
  if simds.any (fun x => s.pools.length ≤ x) then { s with fault := some "bounds" }
  else { s with pools := addAll s.pools id simds 0,
                wgs := s.wgs ++ [{ id := id, src := src, wfs := simds.map fun x => { simd := x, st := .ready } }] }

def setSt (wfs : List Wf) (w : Nat) (st : WSt) : List Wf := updAt wfs w fun x => { x with st := st }

def onWG (s : TState) (id : Nat) (f : WG → WG) : TState :=
  { s with wgs := s.wgs.map fun g => if g.id = id then f g else g }

def findWG (s : TState) (id : Nat) : Option WG := s.wgs.find? (·.id = id)

/-- `issueToInternal` (and `DoIssue` to a unit): the wavefront is Running -/
def issue (s : TState) (id w : Nat) : TState := onWG s id fun g => { g with wfs := setSt g.wfs w .running }

/-- default SOPP (`s_nop`): `UpdatePCAndSetReady` -/
def nop (s : TState) (id w : Nat) : TState := onWG s id fun g => { g with wfs := setSt g.wfs w .ready }

/-- `setAllWfStateToReady` -/
def release (wfs : List Wf) : List Wf := wfs.map fun x => if x.st = .done then x else { x with st := .ready }

inductive EndRes
  | sent
  | retry
  | pass
  | completed
  | never
  | bad
deriving DecidableEq, Repr

/-- which branch of `evalSEndPgm` wavefront `w` of `g` takes (memory counters are zero) -/
def endBranch (g : WG) (w : Nat) (room : Nat) : EndRes :=
  let others := g.wfs.eraseIdx w
  if others.all (·.st = .done) then (if room = 0 then .retry else .sent)
  else if others.all (fun x => x.st = .barrier ∨ x.st = .done) then .pass
  else if g.wfs.any (fun x => x.st = .running ∨ x.st = .ready) then .completed
  else .never

/-- `evalSEndPgm` -/
def endPgm (s : TState) (id w : Nat) : TState × EndRes :=
  match findWG s id with
  | none => (s, .bad)
  | some g =>
    if g.wfs.length ≤ w then (s, .bad) else
    match endBranch g w s.room with
    | .sent =>
      ({ onWG s id (fun g => { g with wfs := setSt g.wfs w .done }) with
          room := s.room - 1, sent := s.sent ++ [(id, g.src)], pools := clearAll s.pools id (g.wfs.map (·.simd)) 0 }, .sent)
    | .retry => (s, .retry)
    | .pass => (onWG s id fun g => { g with wfs := setSt (release g.wfs) w .done }, .pass)
    | .completed => (onWG s id fun g => { g with wfs := setSt g.wfs w .done }, .completed)
    | _ => ({ s with fault := some "never" }, .never)

/-- `evalSBarrier` (barrier buffer has room): AtBarrier; all unfinished at the barrier → pass -/
def barrier (s : TState) (id w : Nat) : TState :=
  onWG s id fun g =>
    let wfs := setSt g.wfs w .barrier
    if wfs.all (fun x => x.st = .barrier ∨ x.st = .done) then { g with wfs := release wfs } else { g with wfs := wfs }

inductive TOp
  | map (id src : Nat) (simds : List Nat)
  | issue (id w : Nat)
  | nop (id w : Nat)
  | endp (id w : Nat)
  | bar (id w : Nat)
  | room (n : Nat)
deriving Repr

def tstep (s : TState) (o : TOp) : TState :=
  if s.fault.isSome then s else
  match o with
  | .map id src simds => mapWG s id src simds
  | .issue id w => issue s id w
  | .nop id w => nop s id w
  | .endp id w => (endPgm s id w).1
  | .bar id w => barrier s id w
  | .room n => { s with room := n }

def trun (s : TState) (ops : List TOp) : TState := ops.foldl tstep s

/-! ### timing: line protocol -/

def WSt.letter : WSt → String
  | .ready => "R"
  | .running => "N"
  | .barrier => "B"
  | .done => "C"

def pairShow (p : Nat × Nat) : String := s!"{p.1}.{p.2}"

def TState.digest (s : TState) (sentFrom : Nat) : String :=
  let sts := joinWith "/" (s.wgs.map fun g => String.join (g.wfs.map fun x => x.st.letter))
  let pools := joinWith "|" (s.pools.map fun p => joinWith "," (p.map pairShow))
  let snt := joinWith "," ((s.sent.drop sentFrom).map fun p => s!"{p.1}>{p.2}")
  s!"st={sts};pools={pools};sent={snt}"

def parseTOp (o : List String) : Option TOp :=
  match o with
  | ["m", a, b, c] =>
    match a.toNat?, b.toNat?, natList? c with
    | some id, some src, some l => some (.map id src l)
    | _, _, _ => none
  | ["i", a, b] => match a.toNat?, b.toNat? with | some x, some y => some (.issue x y) | _, _ => none
  | ["n", a, b] => match a.toNat?, b.toNat? with | some x, some y => some (.nop x y) | _, _ => none
  | ["e", a, b] => match a.toNat?, b.toNat? with | some x, some y => some (.endp x y) | _, _ => none
  | ["b", a, b] => match a.toNat?, b.toNat? with | some x, some y => some (.bar x y) | _, _ => none
  | ["room", a] => a.toNat?.map .room
  | _ => none

/-- state, number of sent messages already reported, output tokens, fault already reported -/
structure TEnv where
  s : TState
  seen : Nat
  out : List String
  dead : Bool

def tEnvOp (e : TEnv) (o : List String) : TEnv :=
  if e.dead then { e with out := e.out ++ ["X"] } else
  match o with
  | ["t"] =>
    match e.s.fault with
    | some f => { e with out := e.out ++ ["fault:" ++ f], dead := true }
    | none => { e with out := e.out ++ [e.s.digest e.seen], seen := e.s.sent.length }
  | _ =>
    match parseTOp o with
    | none => { e with out := e.out ++ ["bad"] }
    | some op => { e with s := tstep e.s op, out := e.out ++ ["."] }

def handleTiming (first : List String) (ops : List String) : String :=
  match (kv? first "caps").bind (natList? ·) with
  | none => "bad-cfg"
  | some caps =>
    let e0 : TEnv := { s := tinit caps ((kvNat? first "room").getD 4), seen := 0, out := [], dead := false }
    joinWith " " (ops.foldl (fun e o => tEnvOp e (words o)) e0).out

/-! ## emulation compute unit -/

structure Emu where
  P : Nat
  incap : Nat
  outcap : Nat
  now : Nat
  nextTick : Nat
  tickAt : Option Nat
  inbuf : List Nat
  out : List (List Nat)
  queue : List Nat
  wfs : List Nat
  finished : List Nat
  ticks : List Nat
  emus : List Nat
  wgcs : List (Nat × Nat)
  sent : List (List Nat)
  got : List Nat
deriving Repr

def einit (P incap outcap : Nat) : Emu :=
  { P := P, incap := incap, outcap := outcap, now := 0, nextTick := 0, tickAt := none, inbuf := [],
    out := [], queue := [], wfs := [], finished := [], ticks := [], emus := [], wgcs := [],
    sent := [], got := [] }

/-- `math.Ceil(now)` in seconds, on the cycle grid -/
def ceilP (P n : Nat) : Nat := ((n + P - 1) / P) * P

/-- a Go map key set -/
def ins (id : Nat) (l : List Nat) : List Nat := if id ∈ l then l else l ++ [id]

/-- `TickScheduler.TickLater` -/
def tickLater (s : Emu) : Emu :=
  let t := s.now + 1
  match s.tickAt with
  | some n => if t ≤ n then s else { s with tickAt := some t, ticks := s.ticks ++ [t] }
  | none => { s with tickAt := some t, ticks := s.ticks ++ [t] }

/-- `ToDispatcher.Deliver(MapWGReq id)` by the connection at the current time -/
def deliver (s : Emu) (id : Nat) : Emu × Bool :=
  if s.incap ≤ s.inbuf.length then (s, false)
  else
    let s' := { s with inbuf := s.inbuf ++ [id] }
    (if s.inbuf = [] then tickLater s' else s', true)

/-- somebody else's message occupies a slot of the outgoing buffer -/
def fill (s : Emu) : Emu × Bool :=
  if s.outcap ≤ s.out.length then (s, false) else ({ s with out := s.out ++ [[]] }, true)

/-- `ToDispatcher.RetrieveOutgoing()` by the connection (`NotifyPortFree` when it was full) -/
def take (s : Emu) : Emu × Option (List Nat) :=
  match s.out with
  | [] => (s, none)
  | m :: rest =>
    let s' := { s with out := rest }
    (if rest.length + 1 = s.outcap then tickLater s' else s', some m)

/-- `Tick` = `processMapWGReq` -/
def procMap (s : Emu) : Emu :=
  match s.inbuf with
  | [] => s
  | id :: rest =>
    let s := { s with inbuf := rest }
    let s := if s.nextTick ≤ s.now then
        { s with nextTick := ceilP s.P s.now, emus := s.emus ++ [ceilP s.P s.now] } else s
    { s with queue := s.queue ++ [id], wfs := ins id s.wfs, got := s.got ++ [id] }

/-- `runEmulation`: every queued group runs to completion (`runWG`) -/
def runEmu (s : Emu) : Emu :=
  { s with wgcs := s.wgcs ++ s.queue.map (fun id => (s.now + 1, id)),
           wfs := s.queue.foldl (fun w id => ins id w) s.wfs, queue := [] }

/-- `handleWGCompleteEvent`, first half (as repaired by 776c38a7): only the event that finds its
    work-group still mapped (`_, mapped := cu.wfs[wg]`) deletes the entry and records the request
    id; a retry event records nothing -/
def wgRecord (s : Emu) (id : Nat) : Emu :=
  if id ∈ s.wfs then { s with wfs := s.wfs.erase id, finished := s.finished ++ [id] } else s

/-- `handleWGCompleteEvent`, second half: `len(cu.wfs) != 0 || len(cu.finishedMapWGReqs) == 0` →
    return; else one message with every finished id; `Send` fails → retry event a cycle later -/
def wgFlush (s : Emu) (id : Nat) : Emu :=
  if s.wfs ≠ [] ∨ s.finished = [] then s
  else if s.out.length < s.outcap then
    { s with finished := [], out := s.out ++ [s.finished], sent := s.sent ++ [s.finished] }
  else { s with wgcs := s.wgcs ++ [(s.now + 1, id)] }

/-- `handleWGCompleteEvent` (repaired) -/
def wgComplete (s : Emu) (id : Nat) : Emu := wgFlush (wgRecord s id) id

/-- `handleWGCompleteEvent` BEFORE the repair: `delete(cu.wfs, wg)`, the id is appended unless it is
    in `finishedMapWGReqs` — a retry event that fires after another event has sent the batch and
    cleared the list appends its id again -/
def wgCompleteOld (s : Emu) (id : Nat) : Emu :=
  let wfs := s.wfs.erase id
  let fin := if id ∈ s.finished then s.finished else s.finished ++ [id]
  if wfs ≠ [] then { s with wfs := wfs, finished := fin }
  else if s.out.length < s.outcap then
    { s with wfs := wfs, finished := [], out := s.out ++ [fin], sent := s.sent ++ [fin] }
  else { s with wfs := wfs, finished := fin, wgcs := s.wgcs ++ [(s.now + 1, id)] }

def fireTick (s : Emu) (t : Nat) : Emu := procMap { s with ticks := s.ticks.erase t, now := t }
def fireEmu (s : Emu) (t : Nat) : Emu := runEmu { s with emus := s.emus.erase t, now := t }
def fireWgc (s : Emu) (t id : Nat) : Emu := wgComplete { s with wgcs := s.wgcs.erase (t, id), now := t } id
def fireWgcOld (s : Emu) (t id : Nat) : Emu := wgCompleteOld { s with wgcs := s.wgcs.erase (t, id), now := t } id

inductive EOp
  | deliver (id : Nat)
  | fill
  | take
  | tick (t : Nat)
  | emu (t : Nat)
  | wgc (t id : Nat)
deriving DecidableEq, Repr

def estep (s : Emu) : EOp → Emu
  | .deliver id => (deliver s id).1
  | .fill => (fill s).1
  | .take => (take s).1
  | .tick t => fireTick s t
  | .emu t => fireEmu s t
  | .wgc t id => fireWgc s t id

def erun (s : Emu) (ops : List EOp) : Emu := ops.foldl estep s

/-- the same machine with `handleWGCompleteEvent` as it was before the repair -/
def estepOld (s : Emu) : EOp → Emu
  | .wgc t id => fireWgcOld s t id
  | o => estep s o

def erunOld (s : Emu) (ops : List EOp) : Emu := ops.foldl estepOld s

/-- no pending event is earlier than `t` -/
def minOK (s : Emu) (t : Nat) : Bool :=
  s.ticks.all (t ≤ ·) && s.emus.all (t ≤ ·) && s.wgcs.all (t ≤ ·.1)

/-- what a time-ordered engine may do: fire a pending event of minimum time, whatever the
    tie-break; the environment acts at the current time -/
def Legal (s : Emu) : EOp → Prop
  | .tick t => t ∈ s.ticks ∧ minOK s t = true
  | .emu t => t ∈ s.emus ∧ minOK s t = true
  | .wgc t id => (t, id) ∈ s.wgcs ∧ minOK s t = true
  | _ => True

instance (s : Emu) (o : EOp) : Decidable (Legal s o) := by
  cases o <;> simp only [Legal] <;> infer_instance

/-! ### Go's `container/heap` on the event times (`eventHeap.Less` = strict `<`) -/

inductive EK
  | tick
  | emu
  | wgc (id : Nat)
deriving DecidableEq, Repr

abbrev HEv := Nat × EK

def swapAt (h : Array HEv) (i j : Nat) : Array HEv :=
  match h[i]?, h[j]? with
  | some a, some b => (h.setIfInBounds i b).setIfInBounds j a
  | _, _ => h

def lessAt (h : Array HEv) (i j : Nat) : Bool :=
  match h[i]?, h[j]? with
  | some a, some b => a.1 < b.1
  | _, _ => false

/-- `heap.up` -/
def hup (h : Array HEv) : Nat → Nat → Array HEv
  | 0, _ => h
  | fuel+1, j =>
    let i := (j - 1) / 2
    if j = 0 ∨ i = j ∨ !lessAt h j i then h else hup (swapAt h i j) fuel i

/-- `heap.down(h, i, n)` -/
def hdown (h : Array HEv) (n : Nat) : Nat → Nat → Array HEv
  | 0, _ => h
  | fuel+1, i =>
    let j1 := 2 * i + 1
    if n ≤ j1 then h else
    let j := if j1 + 1 < n ∧ lessAt h (j1 + 1) j1 then j1 + 1 else j1
    if !lessAt h j i then h else hdown (swapAt h i j) n fuel j

def hpush (h : Array HEv) (e : HEv) : Array HEv :=
  let h := h.push e
  hup h h.size (h.size - 1)

def hpop (h : Array HEv) : Option (HEv × Array HEv) :=
  if h.size = 0 then none else
  let n := h.size - 1
  let h := swapAt h 0 n
  let h := hdown h n h.size 0
  match h[n]? with
  | some e => some (e, h.pop)
  | none => none

/-! ### emulation: line protocol -/

def natsShow' (l : List Nat) : String := joinWith "," (l.map toString)

def Emu.digest (s : Emu) : String :=
  let wfs := (s.wfs.toArray.qsort (· < ·)).toList
  s!"now={s.now};nt={s.nextTick};q={natsShow' s.queue};wfs={natsShow' wfs};fin={natsShow' s.finished};ev={s.ticks.length}/{s.emus.length}/{s.wgcs.length};in={s.inbuf.length};out={s.out.length}"

structure EEnv where
  s : Emu
  heap : Array HEv
  out : List String
  dead : Bool

/-- push on the heap what `s'` scheduled beyond `s` (events are appended to the three lists) -/
def pushNew (h : Array HEv) (s' : Emu) (nt ne nw : Nat) : Array HEv :=
  let h := (s'.ticks.drop nt).foldl (fun h t => hpush h (t, .tick)) h
  let h := (s'.emus.drop ne).foldl (fun h t => hpush h (t, .emu)) h
  (s'.wgcs.drop nw).foldl (fun h p => hpush h (p.1, .wgc p.2)) h

def eEnvOp (e : EEnv) (o : List String) : EEnv :=
  if e.dead then { e with out := e.out ++ ["X"] } else
  let s := e.s
  match o with
  | ["d", a] =>
    match a.toNat? with
    | none => { e with out := e.out ++ ["bad"] }
    | some id =>
      let r := deliver s id
      { e with s := r.1, heap := pushNew e.heap r.1 s.ticks.length s.emus.length s.wgcs.length,
               out := e.out ++ [if r.2 then "ok" else "full"] }
  | ["fill"] =>
    let r := fill s
    { e with s := r.1, out := e.out ++ [if r.2 then "ok" else "full"] }
  | ["take"] =>
    let r := take s
    { e with s := r.1, heap := pushNew e.heap r.1 s.ticks.length s.emus.length s.wgcs.length,
             out := e.out ++ [match r.2 with | none => "-" | some m => "M" ++ natsShow' m] }
  | ["f"] =>
    match hpop e.heap with
    | none => { e with out := e.out ++ ["idle"] }
    | some ((t, k), h) =>
      let op : EOp := match k with | .tick => .tick t | .emu => .emu t | .wgc id => .wgc t id
      if ¬ Legal s op then { e with out := e.out ++ ["fault:heap-order"], dead := true } else
      -- the erased event leaves the list: count what is left of the old entries
      let nt := s.ticks.length - (if k = .tick then 1 else 0)
      let ne := s.emus.length - (if k = .emu then 1 else 0)
      let nw := s.wgcs.length - (match k with | .wgc _ => 1 | _ => 0)
      let s' := estep s op
      let tok := match k with
        | .tick => s!"t{t}:tick"
        | .emu => s!"t{t}:emu"
        | .wgc id =>
          let what := if s'.sent.length > s.sent.length then "S" ++ natsShow' (s'.sent.getLastD [])
                      else if s'.wgcs.length > nw then "retry" else "wait"
          s!"t{t}:wgc{id}:{what}"
      { e with s := s', heap := pushNew h s' nt ne nw, out := e.out ++ [tok] }
  | ["p"] => { e with out := e.out ++ [s.digest] }
  | _ => { e with out := e.out ++ ["bad"] }

def handleEmu (first : List String) (ops : List String) : String :=
  let P := (kvNat? first "P").getD 1000000000
  let e0 : EEnv := { s := einit P ((kvNat? first "in").getD 1) ((kvNat? first "out").getD 1),
                     heap := #[], out := [], dead := false }
  joinWith " " (ops.foldl (fun e o => eEnvOp e (words o)) e0).out

def handle (first : List String) (ops : List String) : String :=
  match first with
  | _ :: _ :: "timing" :: _ => handleTiming first ops
  | _ :: _ :: "emu" :: _ => handleEmu first ops
  | _ => "bad-kind"

end C09.CUSide
