import MgpuModel.C01_Emu
import MgpuModel.C18_Mem
/-! # C18 — a kernel run over placed memory (`Emu.run` ∘ the multi-GPU memory of `C18_Mem`)

The workload half of C18's first sentence, as far as the Lean emulator of C01 goes. `C01.Emu` runs a
dispatch on ONE virtually addressed memory (`Mem`, an association list the emulator only ever
prepends to). Here the same dispatch runs on the multi-GPU memory of `C18_Mem.lean`: an arbitrary page
table into global physical pages, one DRAM per GPU, every byte routed exactly as the platform routes it
(`locate`: the issuer's local/remote decision, the RDMA address table, the destination's local mapper).

Every work-group runs on some GPU (`gOf i` for the `i`-th work-group of the grid builder's order — any
assignment: one GPU, several GPUs, the ranges of a unified launch). The placed machine executes the
emulator's own instruction step (`C01.Emu.step`, nothing is copied) on the virtual view `st.mem` and
commits the bytes the instruction wrote — the new head of `st.mem` — to the DRAMs, each byte through
`locate` from the work-group's GPU (`commit`). The loops (`runWfP` … `runEP`) are the emulator's loops with
the DRAMs threaded through. That the view every instruction reads is what the placed memories hold
(`Agree`) is proved as an invariant, not assumed (`Props/C18Emu.lean`): every load an instruction
performs returns exactly what `loadBytes` would fetch from the owner GPU's DRAM, whichever GPU asks.

This file is not part of the `c18` line protocol (the driver does not link the emulator); it is the
statement side of `Props/C18Emu.lean`. -/
namespace C18
open C01.Emu (Mem Program Dispatch Wave)

/-- wavefront registers (`C03V.St`) and the emulator's step outcome (`C01.Emu.Ctl`); spelled out because
    `C18.St` / `C18.Ctl` are the RDMA engine's -/
abbrev WSt := C03V.St
abbrev ECtl := C01.Emu.Ctl

/-- the bindings a step added to the emulator's memory (the emulator only prepends; newest first) -/
def newWrites (old new : Mem) : Mem := new.take (new.length - old.length)

/-- commit byte writes (newest first) to the DRAMs in the order they were made, each routed from GPU `g` -/
def commit (c : MemCfg) (pt : PageTable) (g : Nat) : Mem → DRAM → Except MFault DRAM
  | [], d => .ok d
  | w :: ws, d =>
    match commit c pt g ws d with
    | .error e => .error e
    | .ok d' =>
      match locate c pt g w.1 with
      | .error e => .error e
      | .ok (t, pa) => .ok (d'.write t pa w.2)

/-- why a placed run stopped -/
inductive PErr
  /-- the emulator itself faulted (same reason as on flat memory) -/
  | emu (e : String)
  /-- a byte could not be routed -/
  | mem (f : MFault)
deriving DecidableEq, Repr

/-- the multi-GPU memories hold the virtual view `m` on every mapped address: the byte of virtual
    address `v` is in the DRAM of the owner bank of its physical address -/
def Agree (c : MemCfg) (pt : PageTable) (m : Mem) (d : DRAM) : Prop :=
  ∀ v pa, translate c pt v = some pa → d (bank c.S pa) pa = C03V.lookup m v

/-- one instruction of a wavefront running on GPU `g` -/
def stepP (c : MemCfg) (pt : PageTable) (g : Nat) (P : Program) (base : Nat) (st : WSt) (d : DRAM) :
    Except PErr (WSt × ECtl × DRAM) :=
  match C01.Emu.step P base st with
  | .error e => .error (.emu e)
  | .ok (st', ctl) =>
    match commit c pt g (newWrites st.mem st'.mem) d with
    | .error f => .error (.mem f)
    | .ok d' => .ok (st', ctl, d')

/-- `runWf` with the DRAMs -/
def runWfP (c : MemCfg) (pt : PageTable) (g : Nat) (P : Program) (base : Nat) :
    Nat → WSt → DRAM → Except PErr (WSt × ECtl × DRAM)
  | 0, _, _ => .error (.emu "fuel")
  | fuel + 1, st, d =>
    match stepP c pt g P base st d with
    | .error e => .error e
    | .ok (st', .next, d') => runWfP c pt g P base fuel st' d'
    | .ok (st', ctl, d') => .ok (st', ctl, d')

/-- `runWave` with the DRAMs -/
def runWaveP (c : MemCfg) (pt : PageTable) (g : Nat) (P : Program) (base fuel : Nat) (w : Wave) (m l : Mem)
    (d : DRAM) : Except PErr (Wave × Mem × Mem × DRAM) :=
  if w.completed then .ok (w, m, l, d) else
  match runWfP c pt g P base fuel { w.st with mem := m, lds := l } d with
  | .error e => .error e
  | .ok (st', ctl, d') =>
    .ok ({ st := { st' with mem := [], lds := [] }, completed := ctl == .endpgm, atBarrier := ctl == .barrier },
         st'.mem, st'.lds, d')

/-- `pass` with the DRAMs -/
def passP (c : MemCfg) (pt : PageTable) (g : Nat) (P : Program) (base fuel : Nat) :
    List Wave → Mem → Mem → DRAM → Except PErr (List Wave × Mem × Mem × DRAM)
  | [], m, l, d => .ok ([], m, l, d)
  | w :: ws, m, l, d =>
    match runWaveP c pt g P base fuel w m l d with
    | .error e => .error e
    | .ok (w', m', l', d') =>
      match passP c pt g P base fuel ws m' l' d' with
      | .error e => .error e
      | .ok (ws', m'', l'', d'') => .ok (w' :: ws', m'', l'', d'')

/-- `runWG` with the DRAMs -/
def runWGP (c : MemCfg) (pt : PageTable) (g : Nat) (P : Program) (base fuel : Nat) :
    Nat → List Wave → Mem → Mem → DRAM → Except PErr (Mem × DRAM)
  | 0, _, _, _, _ => .error (.emu "rounds")
  | rounds + 1, ws, m, l, d =>
    if C01.Emu.allDone ws then .ok (m, d) else
    match passP c pt g P base fuel ws m l d with
    | .error e => .error e
    | .ok (ws', m', l', d') =>
      if C01.Emu.allDone ws' then .ok (m', d')
      else if ws'.any (fun w => !w.completed && !w.atBarrier) then .error (.emu "not-all-wavefronts-at-barrier")
      else runWGP c pt g P base fuel rounds
        (ws'.map fun w => if w.completed then w else { w with atBarrier := false }) m' l' d'

/-- the work-groups one after the other, the `i`-th on GPU `gOf i` -/
def runWGsP (c : MemCfg) (pt : PageTable) (gOf : Nat → Nat) (P : Program) (D : Dispatch) (fuel : Nat) :
    List C08.WG → Nat → Mem → DRAM → Except PErr (Mem × DRAM)
  | [], _, m, d => .ok (m, d)
  | wg :: rest, i, m, d =>
    match runWGP c pt (gOf i) P D.kernelObject fuel fuel (C01.Emu.wavesOf D wg) m [] d with
    | .error e => .error e
    | .ok (m', d') => runWGsP c pt gOf P D fuel rest (i + 1) m' d'

/-- the memory at launch: the driver's copies of the kernel arguments and of the dispatch packet -/
def launchMem (D : Dispatch) (m : Mem) : Mem :=
  C01.Emu.install D.packetAddr D.packet (C01.Emu.install D.kernargAddr D.kernarg m)

/-- `runE` on placed memory: the driver's two copies are committed from GPU `g0` (whichever GPU's DMA
    engine performs them), then the work-groups run -/
def runEP (c : MemCfg) (pt : PageTable) (g0 : Nat) (gOf : Nat → Nat) (P : Program) (D : Dispatch) (fuel : Nat)
    (m : Mem) (d : DRAM) : Except PErr (Mem × DRAM) :=
  match commit c pt g0 (newWrites m (launchMem D m)) d with
  | .error f => .error (.mem f)
  | .ok d0 => runWGsP c pt gOf P D fuel (C01.Emu.wgList D.geo) 0 (launchMem D m) d0

end C18
