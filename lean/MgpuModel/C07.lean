import MgpuModel.C07_Core
import MgpuModel.C07_Disp
import MgpuModel.C04
/-! # C07 — architectural registers: line protocol of the executable model

`MgpuModel/C07_Core.lean`: the two register stores behind the operand methods, register release, the
allocator's windows. `MgpuModel/C07_Disp.lean`: the register writes that bypass the operand methods
(wavefront dispatch / creation in both modes, scalar-load return). This file: `handle`.

`c07 dec <cdna3> <hex>` prints the register operands the decoder model of property C04 gives the
instruction (`<field>=<RegType>:<RegCount>`), so that operands reaching the stores can be taken
from decodable instructions (harness/c07_disp.go replays them on the real decoder and stores). -/
namespace C07
open Util

def opndStr (name : String) (o : Option C04.Opnd) : List String :=
  match o with
  | some (.reg _ r k) => [s!"{name}={r}:{k}"]
  | _ => []

def handleDec (cfg : List String) : String :=
  match cfg with
  | [c, hex] =>
    match c.toNat?, hexBytes? hex with
    | some c, some bytes =>
      match C04.decode (c != 0) bytes with
      | .ok i =>
        joinWith " " (["ok"] ++ opndStr "src0" i.src0 ++ opndStr "src1" i.src1 ++ opndStr "src2" i.src2 ++
          opndStr "dst" i.dst ++ opndStr "sdst" i.sdst ++ opndStr "addr" i.addr ++ opndStr "data" i.data ++
          opndStr "data1" i.data1 ++ opndStr "base" i.base ++ opndStr "offset" i.offset)
      | .err => "err"
      | .notImpl => "notimpl"
    | _, _ => "bad"
  | _ => "bad"

def handle (line : String) : String :=
  match splitTrim line ";" with
  | [] => "bad"
  | first :: rest =>
    match words first with
    | "c07" :: "alloc" :: cfg => handleAlloc cfg (rest.map words)
    | "c07" :: "efresh" :: _ => handleFresh (rest.map words)
    | "c07" :: "dec" :: cfg => handleDec cfg
    | _ =>
    match initState (words first) with
    | none => "bad"
    | some s =>
      let (s', out) := runOps2 s (rest.map words) []
      joinWith " " ((toHexPad 16 s'.digest.toNat :: out).reverse)

end C07
