import MgpuModel.C01_Emu
/-! # C01 — shipped kernels, the driver's device-to-device copy plan, the page queue of a device

Second deepening.  Three things that the proofs of `MgpuProofs/Props/C01Kern*.lean` are about and that
the harness compares with the real code on every run:

* the byte images of two more SHIPPED kernels, as the real loader (`insts.LoadKernelCodeObjectFromBytes`)
  extracts them: `ReLUForward` of amd/benchmarks/dnn/layer_benchmarks/relu/kernels.hsaco (the `relu`
  workload) and `mul` of amd/benchmarks/dnn/gputensor/operator.hsaco (`GPUOperator.ElementWiseMul`);
  case lines `c01 kcode relu|mul`;
* `Driver.EnqueueMemCopyD2D` after the repair of the tail overrun: whole dwords by `copyKernel`
  (grid = N = num / 4, no launch when that is 0), the remaining `num % 4` bytes through the host
  (a device-to-host copy into a scratch slice followed by a host-to-device copy of that slice);
  case lines `c01 d2dplan`, `c01 d2d` (the emulator run followed by the tail copy), `c01 d2dtail`;
* the free-page queue of a device (`deviceMemoryStateImpl`: `popNextAvailablePAddrs` takes the head,
  `addSinglePAddr` appends), which is where the zero of the never-written hidden kernel arguments comes
  from; case line `c01 pageq`. -/
namespace C01
namespace Emu
open Util

/-- `ReLUForward` (relu/kernels.hsaco), 27 GCN3 instructions, 140 bytes -/
def reluKernelCode : List Nat := [
  0x82,0x00,0x02,0xc0,0x04,0x00,0x00,0x00,0xc3,0x00,0x02,0xc0,0x00,0x00,0x00,0x00,0x03,0x00,0x06,0xc0,
  0x18,0x00,0x00,0x00,0x7f,0x00,0x8c,0xbf,0x02,0xff,0x01,0x86,0xff,0xff,0x00,0x00,0x08,0x01,0x08,0x92,
  0x08,0x00,0x00,0x32,0x00,0x00,0x02,0x32,0x03,0x02,0x88,0x7d,0x6a,0x20,0x80,0xbe,0x13,0x00,0x88,0xbf,
  0x03,0x00,0x0a,0xc0,0x08,0x00,0x00,0x00,0x80,0x02,0x00,0x7e,0x00,0x00,0x91,0xd2,0x9e,0x00,0x02,0x00,
  0x7f,0x00,0x8c,0xbf,0x01,0x02,0x06,0x7e,0x00,0x00,0x04,0x32,0x03,0x03,0x06,0x38,0x00,0x00,0x50,0xdc,
  0x02,0x00,0x00,0x02,0x03,0x02,0x08,0x7e,0x02,0x00,0x00,0x32,0x04,0x03,0x02,0x38,0x70,0x00,0x8c,0xbf,
  0xf2,0x04,0x04,0x0a,0x80,0x04,0x04,0x16,0x00,0x00,0x70,0xdc,0x00,0x02,0x00,0x00,0x00,0x00,0x81,0xbf]

/-- `mul` (gputensor/operator.hsaco), 32 GCN3 instructions, 168 bytes -/
def mulKernelCode : List Nat := [
  0x02,0x00,0x02,0xc0,0x04,0x00,0x00,0x00,0x7f,0x00,0x8c,0xbf,0x00,0xff,0x02,0x86,0xff,0xff,0x00,0x00,
  0xc3,0x00,0x02,0xc0,0x18,0x00,0x00,0x00,0x03,0x00,0x06,0xc0,0x20,0x00,0x00,0x00,0x08,0x02,0x08,0x92,
  0x08,0x00,0x00,0x32,0x7f,0x00,0x8c,0xbf,0x00,0x00,0x02,0x32,0x03,0x02,0x8c,0x7d,0x6a,0x20,0x80,0xbe,
  0x19,0x00,0x88,0xbf,0x03,0x00,0x0a,0xc0,0x00,0x00,0x00,0x00,0x03,0x01,0x0a,0xc0,0x10,0x00,0x00,0x00,
  0x80,0x02,0x00,0x7e,0x00,0x00,0x91,0xd2,0x9e,0x00,0x02,0x00,0x7f,0x00,0x8c,0xbf,0x03,0x02,0x06,0x7e,
  0x02,0x00,0x04,0x32,0x03,0x03,0x06,0x38,0x00,0x00,0x50,0xdc,0x02,0x00,0x00,0x04,0x05,0x02,0x06,0x7e,
  0x04,0x00,0x04,0x32,0x03,0x03,0x06,0x38,0x00,0x00,0x50,0xdc,0x02,0x00,0x00,0x02,0x01,0x02,0x06,0x7e,
  0x00,0x00,0x00,0x32,0x03,0x03,0x02,0x38,0x70,0x00,0x8c,0xbf,0x04,0x05,0x04,0x0a,0x00,0x00,0x70,0xdc,
  0x00,0x02,0x00,0x00,0x00,0x00,0x81,0xbf]

/-! ## `EnqueueMemCopyD2D` (repaired) -/

/-- what `EnqueueMemCopyD2D(queue, dst, src, num)` enqueues: `words > 0` ⇒ one launch of `copyKernel`
    with grid `(words,1,1)` and `KernelMemCopyArgs{src, dst, words}`; `tailLen > 0` ⇒ a device-to-host
    copy of `tailLen` bytes from `src + tailOff` and a host-to-device copy of them to `dst + tailOff` -/
structure D2DPlan where
  words : Nat
  tailOff : Nat
  tailLen : Nat
deriving DecidableEq, Repr

def d2dPlan (num : Nat) : D2DPlan := { words := num / 4, tailOff := num / 4 * 4, tailLen := num % 4 }

/-- a device-to-host copy of `len` bytes at `src` followed by a host-to-device copy of them to `dst` -/
def copyBytes (dst src len : Nat) (m : Mem) : Mem := install dst (readBytes m src len) m

/-! ## the free-page queue of a device -/

inductive QOp where
  /-- `popNextAvailablePAddrs` -/
  | pop
  /-- `addSinglePAddr p` (a page given back by `removePage`) -/
  | push (p : Nat)
deriving DecidableEq, Repr

/-- one operation on the queue; the page handed out, if any.  Popping an empty queue is the
    `mustHaveSpaceLeft` panic: the run stops (`none`). -/
def qstep (q : List Nat) : QOp → Option (List Nat × Option Nat)
  | .pop => match q with
    | [] => none
    | p :: r => some (r, some p)
  | .push p => some (q ++ [p], none)

/-- the pages handed out by a sequence of operations, in order (`none` = out of memory) -/
def qrun : List Nat → List QOp → Option (List Nat × List Nat)
  | q, [] => some (q, [])
  | q, op :: ops =>
    match qstep q op with
    | none => none
    | some (q', out) =>
      match qrun q' ops with
      | none => none
      | some (q'', outs) => some (q'', (match out with | some p => [p] | none => []) ++ outs)

/-! ## line protocol

`c01 kcode relu|mul|copy` → hex of the literal.
`c01 d2dplan num=N` → `words=W tail=OFF:LEN`.
`c01 d2d <keys of c01 emu> tail=<hexdst>:<hexsrc>:<len>` → the `out` regions after the emulator run
followed by the tail copy.  `c01 d2dtail mem=… tail=… out=…` → the same without a kernel launch.
`c01 pageq init=<first>:<count>:<stride> ops=p/p/u<hex>/…` (`p` = pop, `u<hex>` = push) → the pages handed
out, hex, `/`-separated, or `oom`. -/

def parseTail (s : String) : Option (Nat × Nat × Nat) :=
  match s.splitOn ":" with
  | [d, sr, n] => do
    let d ← hexNat? d
    let sr ← hexNat? sr
    let n ← n.toNat?
    pure (d, sr, n)
  | _ => none

def parseQOp (s : String) : Option QOp :=
  if s == "p" then some .pop
  else if s.startsWith "u" then (hexNat? (s.drop 1).toString).map QOp.push
  else none

def handleK (line : String) : String :=
  let t := words line
  match t with
  | ["c01", "kcode", "relu"] => bytesHex reluKernelCode
  | ["c01", "kcode", "mul"] => bytesHex mulKernelCode
  | ["c01", "kcode", "copy"] => bytesHex copyKernelCode
  | "c01" :: "d2dplan" :: _ =>
    match kvNat? t "num" with
    | some n => let p := d2dPlan n; s!"words={p.words} tail={p.tailOff}:{p.tailLen}"
    | none => "bad"
  | "c01" :: "d2dtail" :: _ =>
    match (kv? t "mem").bind (parseList parseRegion), (kv? t "out").bind (parseList parseOut), (kv? t "tail").bind parseTail with
    | some mem, some out, some (d, s, n) =>
      let m0 : Mem := mem.foldl (fun m r => install r.1 r.2 m) []
      let m' := copyBytes d s n m0
      joinWith "/" (out.map fun r => bytesHex (readBytes m' r.1 r.2))
    | _, _, _ => "bad"
  | "c01" :: "d2d" :: _ =>
    match kv? t "arch", (kv? t "code").bind hexBytes?, kvHex? t "co", kvNat? t "entry",
          (kv? t "grid").bind natList?, (kv? t "wg").bind natList?, kv? t "flags", kvNat? t "v5", kvNat? t "wi",
          (kv? t "ka").bind parseRegion, (kv? t "pkt").bind parseRegion,
          (kv? t "mem").bind (parseList parseRegion), (kv? t "out").bind (parseList parseOut), (kv? t "tail").bind parseTail with
    | some arch, some code, some co, some entry, some [gx, gy, gz], some [wx, wy, wz], some flags, some v5, some wi,
      some ka, some pkt, some mem, some out, some (td, ts, tn) =>
      let f := fun (k : Nat) => flags.toList.getD k '0' == '1'
      let D : Dispatch :=
        { geo := ⟨gx, gy, gz, wx, wy, wz⟩, kernelObject := co, entry := entry,
          kernargAddr := ka.1, kernarg := ka.2, packetAddr := pkt.1, packet := pkt.2,
          privSegBuf := f 0, dispatchPtr := f 1, queuePtr := f 2, kernargPtr := f 3, dispatchID := f 4,
          flatScratch := f 5, privSegSize := f 6, wgCountX := f 7, wgCountY := f 8, wgCountZ := f 9,
          wgIDX := f 10, wgIDY := f 11, wgIDZ := f 12, v5 := v5 == 1, vgprWI := wi }
      let m0 : Mem := mem.foldl (fun m r => install r.1 r.2 m) []
      match runE ⟨code, arch == "cdna3"⟩ D defaultFuel m0 with
      | .error e => "fault:" ++ e
      | .ok m' =>
        let m'' := copyBytes td ts tn m'
        joinWith "/" (out.map fun r => bytesHex (readBytes m'' r.1 r.2))
    | _, _, _, _, _, _, _, _, _, _, _, _, _, _ => "bad"
  | "c01" :: "pageq" :: _ =>
    match (kv? t "init").map (fun s => s.splitOn ":"), (kv? t "ops").bind (parseList parseQOp) with
    | some [a, n, st], some ops =>
      match hexNat? a, n.toNat?, hexNat? st with
      | some a, some n, some st =>
        match qrun ((List.range n).map fun i => a + i * st) ops with
        | none => "oom"
        | some (_, outs) => if outs.isEmpty then "-" else joinWith "/" (outs.map toHex)
      | _, _, _ => "bad"
    | _, _ => "bad"
  | _ => "bad"

end Emu
end C01
