/-! # C03V — exact IEEE-754 reference arithmetic (core Lean, kernel-transparent)

Values are unpacked to an exact dyadic rational `±m·2^e`; add / mul / fma are computed
exactly on that representation and rounded ONCE (round-to-nearest-even, denormals kept,
overflow to infinity) by `round`. This is the mathematical definition of the IEEE operations,
not a transcription of the Go code (which relies on the host FPU).  NaN results are always the
canonical quiet NaN: payload propagation is hardware-defined and is not compared. -/
namespace C03V.F

structure Fmt where
  eb : Nat
  mb : Nat
deriving Repr

def f16 : Fmt := ⟨5, 10⟩
def f32 : Fmt := ⟨8, 23⟩
def f64 : Fmt := ⟨11, 52⟩

def Fmt.bias (f : Fmt) : Nat := 2 ^ (f.eb - 1) - 1
def Fmt.expMax (f : Fmt) : Nat := 2 ^ f.eb - 1
def Fmt.width (f : Fmt) : Nat := 1 + f.eb + f.mb
def Fmt.signBit (f : Fmt) : Nat := 2 ^ (f.eb + f.mb)
def Fmt.qnan (f : Fmt) : Nat := f.expMax * 2 ^ f.mb + 2 ^ (f.mb - 1)
def Fmt.infBits (f : Fmt) (neg : Bool) : Nat := (if neg then f.signBit else 0) + f.expMax * 2 ^ f.mb

/-- an exact value: NaN, ±infinity, or `±m·2^e` (`m = 0` is a signed zero) -/
inductive Val where
  | nan
  | inf (neg : Bool)
  | fin (neg : Bool) (m : Nat) (e : Int)
deriving Repr

def unpack (f : Fmt) (bits : Nat) : Val :=
  let m := bits % 2 ^ f.mb
  let e := (bits / 2 ^ f.mb) % 2 ^ f.eb
  let s := (bits / 2 ^ (f.mb + f.eb)) % 2 == 1
  if e == f.expMax then (if m == 0 then .inf s else .nan)
  else if e == 0 then .fin s m (1 - (f.bias : Int) - f.mb)
  else .fin s (m + 2 ^ f.mb) ((e : Int) - f.bias - f.mb)

def isNaNBits (f : Fmt) (bits : Nat) : Bool :=
  (bits / 2 ^ f.mb) % 2 ^ f.eb == f.expMax && bits % 2 ^ f.mb != 0

/-- shift right by `k` with round-to-nearest-even -/
def shrRNE (m k : Nat) : Nat :=
  if k == 0 then m else
  let t := m >>> k
  let rem := m % 2 ^ k
  let half := 2 ^ (k - 1)
  if rem > half || (rem == half && t % 2 == 1) then t + 1 else t

/-- round `±m·2^e` to the nearest representable value of format `f` (ties to even) -/
def round (f : Fmt) (s : Bool) (m : Nat) (e : Int) : Nat :=
  let sb := if s then f.signBit else 0
  if m == 0 then sb else
  let p : Int := (Nat.log2 m : Int) + 1
  let E : Int := e + p - 1                       -- exponent of the leading bit
  let emin : Int := 1 - (f.bias : Int)
  let Ec : Int := if E < emin then emin else E
  let q : Int := Ec - f.mb                       -- exponent of one ulp
  let sh : Int := e - q
  let r : Nat := if sh ≥ 0 then m <<< sh.toNat else shrRNE m (-sh).toNat
  let be : Nat := (Ec + f.bias).toNat            -- biased exponent, ≥ 1
  let bits := if r < 2 ^ f.mb then r else (be - 1) * 2 ^ f.mb + r
  if bits ≥ f.expMax * 2 ^ f.mb then f.infBits s else sb + bits

def pack (f : Fmt) : Val → Nat
  | .nan => f.qnan
  | .inf s => f.infBits s
  | .fin s m e => round f s m e

def negV : Val → Val
  | .nan => .nan
  | .inf s => .inf (!s)
  | .fin s m e => .fin (!s) m e

def absV : Val → Val
  | .nan => .nan
  | .inf _ => .inf false
  | .fin _ m e => .fin false m e

/-- signed integer numerator of a finite value at exponent `e0 ≤ e` -/
def scaled (s : Bool) (m : Nat) (e e0 : Int) : Int :=
  let v : Int := (m <<< (e - e0).toNat : Nat)
  if s then -v else v

def addV : Val → Val → Val
  | .nan, _ => .nan
  | _, .nan => .nan
  | .inf a, .inf b => if a == b then .inf a else .nan
  | .inf a, _ => .inf a
  | _, .inf b => .inf b
  | .fin s1 m1 e1, .fin s2 m2 e2 =>
    if m1 == 0 && m2 == 0 then .fin (s1 && s2) 0 0 else
    if m1 == 0 then .fin s2 m2 e2 else
    if m2 == 0 then .fin s1 m1 e1 else
    let e0 := if e1 < e2 then e1 else e2
    let t := scaled s1 m1 e1 e0 + scaled s2 m2 e2 e0
    if t == 0 then .fin false 0 0 else .fin (t < 0) t.natAbs e0

def mulV : Val → Val → Val
  | .nan, _ => .nan
  | _, .nan => .nan
  | .inf a, .inf b => .inf (a != b)
  | .inf a, .fin s m _ => if m == 0 then .nan else .inf (a != s)
  | .fin s m _, .inf b => if m == 0 then .nan else .inf (s != b)
  | .fin s1 m1 e1, .fin s2 m2 e2 => .fin (s1 != s2) (m1 * m2) (e1 + e2)

def subV (a b : Val) : Val := addV a (negV b)
/-- fused multiply-add: exact product, exact sum, one rounding at `pack` -/
def fmaV (a b c : Val) : Val := addV (mulV a b) c

/-- `some .lt/.eq/.gt`, or `none` when unordered (a NaN operand) -/
def cmpV : Val → Val → Option Ordering
  | .nan, _ => none
  | _, .nan => none
  | .inf a, .inf b => some (if a == b then .eq else if a then .lt else .gt)
  | .inf a, _ => some (if a then .lt else .gt)
  | _, .inf b => some (if b then .gt else .lt)
  | .fin s1 m1 e1, .fin s2 m2 e2 =>
    let e0 := if e1 < e2 then e1 else e2
    let x := scaled s1 m1 e1 e0
    let y := scaled s2 m2 e2 e0
    some (if x < y then .lt else if x == y then .eq else .gt)

def isNaN : Val → Bool
  | .nan => true
  | _ => false

/-- truncate toward zero to an integer (as sign and magnitude) -/
def truncMag (m : Nat) (e : Int) : Nat :=
  if e ≥ 0 then m <<< e.toNat else m >>> (-e).toNat

/-- float → signed integer of `w` bits, saturating, NaN → 0 (ISA v_cvt_i32_f32) -/
def toSInt (w : Nat) : Val → Nat
  | .nan => 0
  | .inf s => if s then 2 ^ (w - 1) else 2 ^ (w - 1) - 1
  | .fin s m e =>
    let t := truncMag m e
    if s then (if t ≥ 2 ^ (w - 1) then 2 ^ (w - 1) else (2 ^ w - t) % 2 ^ w)
    else (if t ≥ 2 ^ (w - 1) then 2 ^ (w - 1) - 1 else t)

/-- float → unsigned integer of `w` bits, saturating, NaN → 0, negative → 0 -/
def toUInt (w : Nat) : Val → Nat
  | .nan => 0
  | .inf s => if s then 0 else 2 ^ w - 1
  | .fin s m e =>
    let t := truncMag m e
    if s then 0 else if t ≥ 2 ^ w then 2 ^ w - 1 else t

def ofUInt (n : Nat) : Val := .fin false n 0
def ofSInt (w n : Nat) : Val := if n ≥ 2 ^ (w - 1) then .fin true (2 ^ w - n) 0 else .fin false n 0

/-- round toward zero to an integral value (keeps the sign of zero) -/
def truncV : Val → Val
  | .fin s m e => if e ≥ 0 then .fin s m e else .fin s (m >>> (-e).toNat) 0
  | v => v

/-- round to the nearest integral value, ties to even -/
def rndneV : Val → Val
  | .fin s m e => if e ≥ 0 then .fin s m e else .fin s (shrRNE m (-e).toNat) 0
  | v => v

/-! ### bit-pattern level operations -/
def add (f : Fmt) (a b : Nat) : Nat := pack f (addV (unpack f a) (unpack f b))
def sub (f : Fmt) (a b : Nat) : Nat := pack f (subV (unpack f a) (unpack f b))
def mul (f : Fmt) (a b : Nat) : Nat := pack f (mulV (unpack f a) (unpack f b))
def fma (f : Fmt) (a b c : Nat) : Nat := pack f (fmaV (unpack f a) (unpack f b) (unpack f c))
/-- unfused multiply-add (two roundings): GCN3 v_mad_f32 / v_mac_f32 -/
def mad (f : Fmt) (a b c : Nat) : Nat := add f (mul f a b) c
def cvt (src dst : Fmt) (a : Nat) : Nat := pack dst (unpack src a)

/-- ISA v_min_f32 (IEEE_MODE clear): a NaN operand yields the other operand; -0 < +0 -/
def fmin (f : Fmt) (a b : Nat) : Nat :=
  let x := unpack f a
  let y := unpack f b
  if isNaN x then b else if isNaN y then a else
  match cmpV x y with
  | some .lt => a
  | some .gt => b
  | _ => if a ≥ f.signBit then a else b      -- equal: prefer the negative zero

def fmax (f : Fmt) (a b : Nat) : Nat :=
  let x := unpack f a
  let y := unpack f b
  if isNaN x then b else if isNaN y then a else
  match cmpV x y with
  | some .gt => a
  | some .lt => b
  | _ => if a ≥ f.signBit then b else a      -- equal: prefer the positive zero

end C03V.F
