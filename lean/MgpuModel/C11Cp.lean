import MgpuModel.Util
/-! # C11 — the command processor's copy / flush path

Hand-written, tick-exact model of `amd/timing/cp`:
`CommandProcessor.Tick` = `tickDispatchers` (idle here), `processReqFromDriver`
(only when the driver port holds a message: `cpMiddleware.Tick`, `ctrlMiddleware.Tick`),
`processRspFromInternal` (the same two again). One `pass` = `cpMiddleware.Handle`
(`processFlushReq` / `processMemCopyReq` on the head of the driver port), `processRspFromDMAs`
(`processMemCopyRsp`), `ctrlMiddleware.processRspFromCaches` (`processCacheFlushRsp` →
`processRegularCacheFlush`). Ports are Akita buffers with capacities; a message (driver request, DMA answer, last cache
acknowledgement) is consumed only when the `Send` it causes succeeds — otherwise the stage reports
no progress and is retried by a later tick. The code before the repair (error of `ToDMA.Send(cloned)`
and of `ToDriver.Send(rsp)` ×3 ignored: the message was dropped, ghost event with `sent = false`) is
kept as `Cp.handleOld / dmaRspOld / cacheRspOld / tickOld`, `CpEnv.stepOld`.
-/
namespace C11
open Util

inductive CpKind | flush | h2d | d2h deriving DecidableEq, Repr

def CpKind.tag : CpKind → String
  | .flush => "f"
  | .h2d => "h"
  | .d2h => "d"

/-- a request of the driver (`FlushReq`, `MemCopyH2DReq`, `MemCopyD2HReq`) -/
structure CpMsg where
  id : Nat
  kind : CpKind
deriving DecidableEq, Repr

/-- the request cloned for the DMA engine: fresh message id `cid`, payload of request `orig` -/
structure CpClone where
  cid : Nat
  orig : Nat
  kind : CpKind
deriving DecidableEq, Repr

/-- ghost event log of the command processor (in program order inside a tick) -/
inductive CpEv where
  /-- `processFlushReq` accepted flush request `f` -/
  | flushStart (f : Nat)
  /-- a `cache.FlushReq` was sent to cache `i` (`numCacheACK++`) -/
  | cacheReq (i : Nat)
  /-- a `cache.FlushRsp` was processed (`numCacheACK--`) -/
  | ack
  /-- the answer to flush request `f` was handed to `ToDriver.Send` (`sent = false`: buffer full, dropped) -/
  | flushDone (f : Nat) (sent : Bool)
  /-- copy request `orig` was cloned as `cid` and handed to `ToDMA.Send` -/
  | fwd (orig cid : Nat) (kind : CpKind) (sent : Bool)
  /-- the DMA engine's answer to clone `cid` produced the answer for request `orig` -/
  | done (orig cid : Nat) (kind : CpKind) (sent : Bool)
deriving DecidableEq, Repr

structure Cp where
  /-- L1I ++ L1S ++ L1V ++ L2 cache ports, flushed in this order -/
  nCaches : Nat := 4
  capIn : Nat := 4096
  capDrv : Nat := 4096
  capDma : Nat := 4096
  capCache : Nat := 4096
  drvIn : List CpMsg := []
  /-- answers to the driver: the original request they carry -/
  drvOut : List CpMsg := []
  dmaOut : List CpClone := []
  /-- `RspTo` ids of the DMA engine's answers -/
  dmaIn : List Nat := []
  cacheOut : List Nat := []
  cacheIn : List Nat := []
  numAck : Nat := 0
  curFlush : Option Nat := none
  /-- `bottomMemCopyH2DReqIDToTopReqMap`: clone id ↦ original request -/
  mapH : List (Nat × Nat) := []
  mapD : List (Nat × Nat) := []
  nextCid : Nat := 0
  fault : Option String := none
  log : List CpEv := []
deriving Repr

/-- `cpMiddleware.flushCache` -/
def Cp.flushCache (s : Cp) (i : Nat) : Cp :=
  if s.fault.isSome then s else
  if s.cacheOut.length < s.capCache then
    { s with cacheOut := s.cacheOut ++ [i], numAck := s.numAck + 1, log := s.log ++ [.cacheReq i] }
  else { s with fault := some "cache_send" }

/-- `ToDriver.Send(rsp)` after `ToDriver.CanSend()` held (or with the error checked): the answer is
    appended -/
def Cp.pushDrv (s : Cp) (m : CpMsg) : Cp := { s with drvOut := s.drvOut ++ [m] }

/-- `cpMiddleware.Handle`: `processFlushReq` / `processMemCopyReq`. A request is taken from the
    driver port only when the `Send` it causes succeeds: a flush without caches whose answer does not
    fit into ToDriver (`err != nil` → `return false`, nothing changed: no cache was asked) and a copy
    while ToDMA is full (`!m.ToDMA.CanSend()`, before the clone is made) leave the state as it is and
    report no progress. (Since round R4 `processFlushReq` also waits while `shootDownInProcess`; this model has
    no TLB shootdown — the flag is constantly false here, the overlap is C19's `CP.Cp.hFlush` / `hCtrl`.) -/
def Cp.handle (s : Cp) : Cp × Bool :=
  if s.fault.isSome then (s, false) else
  match s.drvIn with
  | [] => (s, false)
  | m :: rest =>
    if s.numAck > 0 then (s, false) else
    match m.kind with
    | .flush =>
      let s1 := { s with log := s.log ++ [.flushStart m.id] }
      let s1 := (List.range s1.nCaches).foldl Cp.flushCache s1
      if s1.fault.isSome then (s1, true) else
      if s1.numAck = 0 then
        if s1.drvOut.length < s1.capDrv then
          let s1 := s1.pushDrv m
          ({ s1 with log := s1.log ++ [.flushDone m.id true], curFlush := some m.id, drvIn := rest }, true)
        else (s, false)
      else ({ s1 with curFlush := some m.id, drvIn := rest }, true)
    | k =>
      if s.dmaOut.length < s.capDma then
        let cid := s.nextCid
        let s : Cp := { s with nextCid := s.nextCid + 1 }
        let s : Cp := if k = .h2d then { s with mapH := s.mapH ++ [(cid, m.id)] }
                 else { s with mapD := s.mapD ++ [(cid, m.id)] }
        let s : Cp := { s with dmaOut := s.dmaOut ++ [{ cid := cid, orig := m.id, kind := k }] }
        ({ s with drvIn := rest, log := s.log ++ [.fwd m.id cid k true] }, true)
      else (s, false)

/-- `cpMiddleware.processRspFromDMAs` → `processMemCopyRsp`: the DMA engine's answer stays in ToDMA
    while ToDriver is full (`!m.ToDriver.CanSend()`, before the clone map is touched) -/
def Cp.dmaRsp (s : Cp) : Cp × Bool :=
  if s.fault.isSome then (s, false) else
  match s.dmaIn with
  | [] => (s, false)
  | c :: rest =>
    if s.drvOut.length < s.capDrv then
      match s.mapH.lookup c with
      | some o =>
        let s := { s with mapH := s.mapH.filter (fun e => e.1 != c) }
        let s := s.pushDrv ⟨o, .h2d⟩
        ({ s with dmaIn := rest, log := s.log ++ [.done o c .h2d true] }, true)
      | none =>
        match s.mapD.lookup c with
        | some o =>
          let s := { s with mapD := s.mapD.filter (fun e => e.1 != c) }
          let s := s.pushDrv ⟨o, .d2h⟩
          ({ s with dmaIn := rest, log := s.log ++ [.done o c .d2h true] }, true)
        | none => ({ s with fault := some "never" }, true)
    else (s, false)

/-- `ctrlMiddleware.processRspFromCaches` → `processCacheFlushRsp` → `processRegularCacheFlush`
    (`numCacheACK` is a `uint64`: decrementing 0 wraps). The last acknowledgement stays in ToCaches
    while the flush answer does not fit into ToDriver (`numCacheACK == 1 && … && !ToDriver.CanSend()`). -/
def Cp.cacheRsp (s : Cp) : Cp × Bool :=
  if s.fault.isSome then (s, false) else
  match s.cacheIn with
  | [] => (s, false)
  | _ :: rest =>
    if s.numAck = 1 ∧ ¬ s.drvOut.length < s.capDrv then (s, false) else
    let n := if s.numAck = 0 then 18446744073709551615 else s.numAck - 1
    let s := { s with numAck := n, cacheIn := rest, log := s.log ++ [.ack] }
    if n = 0 then
      match s.curFlush with
      | none => ({ s with fault := some "nilderef" }, true)
      | some f =>
        let s := s.pushDrv ⟨f, .flush⟩
        ({ s with curFlush := none, log := s.log ++ [.flushDone f true] }, true)
    else (s, true)

/-- `cpMiddleware.Tick` then `ctrlMiddleware.Tick` -/
def Cp.pass (s : Cp) : Cp × Bool :=
  let a := s.handle
  let b := a.1.dmaRsp
  let c := b.1.cacheRsp
  (c.1, a.2 || b.2 || c.2)

/-- `CommandProcessor.Tick` (dispatchers idle) -/
def Cp.tick (s : Cp) : Cp × Bool :=
  if s.fault.isSome then (s, false) else
  let a := if s.drvIn.isEmpty then (s, false) else s.pass
  let b := a.1.pass
  (b.1, a.2 || b.2)

/-! ## The code before the repair (`…Old`): the error of `ToDMA.Send(cloned)` and of
`ToDriver.Send(rsp)` (three times) was ignored — the message was dropped when the outgoing buffer was
full (ghost event with `sent = false`) while the request / answer that caused it had been consumed. -/

/-- `ToDriver.Send(rsp)` with the error ignored -/
def Cp.sendDrv (s : Cp) (m : CpMsg) : Cp × Bool :=
  if s.drvOut.length < s.capDrv then ({ s with drvOut := s.drvOut ++ [m] }, true) else (s, false)

/-- `cpMiddleware.Handle` before the repair -/
def Cp.handleOld (s : Cp) : Cp × Bool :=
  if s.fault.isSome then (s, false) else
  match s.drvIn with
  | [] => (s, false)
  | m :: rest =>
    if s.numAck > 0 then (s, false) else
    match m.kind with
    | .flush =>
      let s := { s with log := s.log ++ [.flushStart m.id] }
      let s := (List.range s.nCaches).foldl Cp.flushCache s
      if s.fault.isSome then (s, true) else
      let s := { s with curFlush := some m.id }
      let s := if s.numAck = 0 then
          let r := s.sendDrv m
          { r.1 with log := r.1.log ++ [.flushDone m.id r.2] }
        else s
      ({ s with drvIn := rest }, true)
    | k =>
      let cid := s.nextCid
      let s := { s with nextCid := s.nextCid + 1 }
      let s := if k = .h2d then { s with mapH := s.mapH ++ [(cid, m.id)] }
               else { s with mapD := s.mapD ++ [(cid, m.id)] }
      let ok := decide (s.dmaOut.length < s.capDma)
      let s := if ok then { s with dmaOut := s.dmaOut ++ [{ cid := cid, orig := m.id, kind := k }] } else s
      ({ s with drvIn := rest, log := s.log ++ [.fwd m.id cid k ok] }, true)

/-- `processMemCopyRsp` before the repair -/
def Cp.dmaRspOld (s : Cp) : Cp × Bool :=
  if s.fault.isSome then (s, false) else
  match s.dmaIn with
  | [] => (s, false)
  | c :: rest =>
    match s.mapH.lookup c with
    | some o =>
      let s := { s with mapH := s.mapH.filter (fun e => e.1 != c) }
      let r := s.sendDrv ⟨o, .h2d⟩
      ({ r.1 with dmaIn := rest, log := r.1.log ++ [.done o c .h2d r.2] }, true)
    | none =>
      match s.mapD.lookup c with
      | some o =>
        let s := { s with mapD := s.mapD.filter (fun e => e.1 != c) }
        let r := s.sendDrv ⟨o, .d2h⟩
        ({ r.1 with dmaIn := rest, log := r.1.log ++ [.done o c .d2h r.2] }, true)
      | none => ({ s with fault := some "never" }, true)

/-- `processCacheFlushRsp` → `processRegularCacheFlush` before the repair -/
def Cp.cacheRspOld (s : Cp) : Cp × Bool :=
  if s.fault.isSome then (s, false) else
  match s.cacheIn with
  | [] => (s, false)
  | _ :: rest =>
    let n := if s.numAck = 0 then 18446744073709551615 else s.numAck - 1
    let s := { s with numAck := n, cacheIn := rest, log := s.log ++ [.ack] }
    if n = 0 then
      match s.curFlush with
      | none => ({ s with fault := some "nilderef" }, true)
      | some f =>
        let r := s.sendDrv ⟨f, .flush⟩
        ({ r.1 with curFlush := none, log := r.1.log ++ [.flushDone f r.2] }, true)
    else (s, true)

/-- one pass before the repair -/
def Cp.passOld (s : Cp) : Cp × Bool :=
  let a := s.handleOld
  let b := a.1.dmaRspOld
  let c := b.1.cacheRspOld
  (c.1, a.2 || b.2 || c.2)

/-- `CommandProcessor.Tick` before the repair -/
def Cp.tickOld (s : Cp) : Cp × Bool :=
  if s.fault.isSome then (s, false) else
  let a := if s.drvIn.isEmpty then (s, false) else s.passOld
  let b := a.1.passOld
  (b.1, a.2 || b.2)

/-! ## Environment: the driver, the DMA engine and the caches, in any order -/

structure CpEnv where
  s : Cp := {}
  /-- requests accepted by the driver port so far, in order (ids 0,1,2,…) -/
  sent : List CpMsg := []
  /-- clones taken from `ToDMA`, not yet answered -/
  atDma : List CpClone := []
  /-- cache flush requests taken from `ToCaches`, not yet acknowledged -/
  atCaches : List Nat := []
  /-- answers taken from `ToDriver`, in order -/
  drained : List CpMsg := []
  /-- every clone the DMA side has taken, in order -/
  dmaSeen : List CpClone := []
  /-- clone ids the DMA side has answered, in order -/
  answered : List Nat := []
deriving Repr

inductive CpOp where
  | req (k : CpKind)
  | tick
  | takeDma (k : Nat)
  | takeCache (k : Nat)
  | takeDrv (k : Nat)
  | ack (j : Nat)
  | rsp (j : Nat)
deriving DecidableEq, Repr

def cloneStr (c : CpClone) : String := c.kind.tag ++ toString c.orig
def msgStr (m : CpMsg) : String := m.kind.tag ++ toString m.id

/-- one environment move; the string is what the harness observes on the real component -/
def CpEnv.step (e : CpEnv) : CpOp → CpEnv × String
  | .req k =>
    if e.s.drvIn.length < e.s.capIn then
      let m : CpMsg := { id := e.sent.length, kind := k }
      ({ e with s := { e.s with drvIn := e.s.drvIn ++ [m] }, sent := e.sent ++ [m] }, "ok")
    else (e, "full")
  | .tick =>
    let r := e.s.tick
    ({ e with s := r.1 }, match r.1.fault with
      | some f => "fault:" ++ f
      | none => if r.2 then "t1" else "t0")
  | .takeDma k =>
    let t := e.s.dmaOut.take k
    ({ e with s := { e.s with dmaOut := e.s.dmaOut.drop k }, atDma := e.atDma ++ t, dmaSeen := e.dmaSeen ++ t },
     "xd[" ++ joinWith "," (t.map cloneStr) ++ "]")
  | .takeCache k =>
    let t := e.s.cacheOut.take k
    ({ e with s := { e.s with cacheOut := e.s.cacheOut.drop k }, atCaches := e.atCaches ++ t },
     "xc[" ++ joinWith "," (t.map toString) ++ "]")
  | .takeDrv k =>
    let t := e.s.drvOut.take k
    ({ e with s := { e.s with drvOut := e.s.drvOut.drop k }, drained := e.drained ++ t },
     "xr[" ++ joinWith "," (t.map msgStr) ++ "]")
  | .ack j =>
    match e.atCaches with
    | [] => (e, "none")
    | _ =>
      if e.s.cacheIn.length ≥ e.s.capIn then (e, "full") else
      let j := j % e.atCaches.length
      ({ e with s := { e.s with cacheIn := e.s.cacheIn ++ [e.atCaches.getD j 0] },
                atCaches := e.atCaches.eraseIdx j }, "ok")
  | .rsp j =>
    match e.atDma with
    | [] => (e, "none")
    | _ =>
      if e.s.dmaIn.length ≥ e.s.capIn then (e, "full") else
      let j := j % e.atDma.length
      match e.atDma[j]? with
      | none => (e, "none")
      | some c =>
        ({ e with s := { e.s with dmaIn := e.s.dmaIn ++ [c.cid] }, atDma := e.atDma.eraseIdx j,
                  answered := e.answered ++ [c.cid] }, "ok")

def CpEnv.run (e : CpEnv) : List CpOp → CpEnv
  | [] => e
  | op :: rest => ((e.step op).1).run rest

/-- the environment around the code before the repair -/
def CpEnv.stepOld (e : CpEnv) : CpOp → CpEnv × String
  | .tick =>
    let r := e.s.tickOld
    ({ e with s := r.1 }, match r.1.fault with
      | some f => "fault:" ++ f
      | none => if r.2 then "t1" else "t0")
  | op => e.step op

def CpEnv.runOld (e : CpEnv) : List CpOp → CpEnv
  | [] => e
  | op :: rest => ((e.stepOld op).1).runOld rest

def CpEnv.init (nCaches capIn capDrv capDma capCache : Nat) : CpEnv :=
  { s := { nCaches := nCaches, capIn := capIn, capDrv := capDrv, capDma := capDma, capCache := capCache } }

/-! ## Line protocol: `c11 cpmw caches=N cin= cdrv= cdma= ccache= ; op ; op …`
ops: `f` `h` `d` (deliver one request), `F n` `H n` `D n` (deliver n, answer = number accepted),
`t`, `T n` (n ticks, one progress digit each), `xd k`, `xc k`, `xr k`, `a j`, `r j`. -/

def cpRepeat (e : CpEnv) (op : CpOp) : Nat → CpEnv × List String
  | 0 => (e, [])
  | n + 1 =>
    let r := e.step op
    let q := cpRepeat r.1 op n
    (q.1, r.2 :: q.2)

def cpLineOp (e : CpEnv) (toks : List String) : CpEnv × String :=
  let one (op : CpOp) := e.step op
  let many (op : CpOp) (n : String) (f : List String → String) :=
    let r := cpRepeat e op (n.toNat?.getD 0)
    (r.1, f r.2)
  let cnt (l : List String) := toString (l.filter (· == "ok")).length
  let bits (l : List String) := String.join (l.map fun x => if x == "t1" then "1" else if x == "t0" then "0" else "!" ++ x)
  match toks with
  | ["f"] => one (.req .flush)
  | ["h"] => one (.req .h2d)
  | ["d"] => one (.req .d2h)
  | ["F", n] => many (.req .flush) n cnt
  | ["H", n] => many (.req .h2d) n cnt
  | ["D", n] => many (.req .d2h) n cnt
  | ["t"] => one .tick
  | ["T", n] => many .tick n bits
  | ["xd", k] => one (.takeDma (k.toNat?.getD 0))
  | ["xc", k] => one (.takeCache (k.toNat?.getD 0))
  | ["xr", k] => one (.takeDrv (k.toNat?.getD 0))
  | ["a", j] => one (.ack (j.toNat?.getD 0))
  | ["r", j] => one (.rsp (j.toNat?.getD 0))
  | _ => (e, "bad")

def runCpmw (cfg : List String) (ops : List String) : String :=
  let e := CpEnv.init ((kvNat? cfg "caches").getD 4) ((kvNat? cfg "cin").getD 4096)
    ((kvNat? cfg "cdrv").getD 4096) ((kvNat? cfg "cdma").getD 4096) ((kvNat? cfg "ccache").getD 4096)
  let r := ops.foldl (fun (a : CpEnv × List String) o =>
    let q := cpLineOp a.1 (words o)
    (q.1, q.2 :: a.2)) (e, [])
  joinWith " " r.2.reverse

end C11
