import MgpuModel.C11Sys
/-! # C11 — the closed copy system with SEVERAL GPUs

`MSys` = ONE driver (`MqEnv` with `nGpus = N`: one delay line, one GPU port, flush requests to every GPU)
and, per GPU, a *lane*: command processor + DMA engine + that GPU's memory + its caches' dirty bytes + the
wire between DMA engine and command processor. A lane is a value of the single-GPU system `Sys` and every
move inside a lane IS `Sys.step` (the transitions compared with the real `CommandProcessor` / `DMAEngine`
by the `c11 sys` lines); the `mq` field of a lane is NOT a driver — it is the lane's ghost record of the
requests that were routed to this GPU (`seen`, `outstanding`) and of the answers it gave back (`portIn`).
The driver takes the request at the head of its GPU port and hands it to the GPU that OWNS the physical
address of its page piece (`own`, = `memAllocator.GetDeviceIDByPAddr` of `processMemCopyH2D/D2HCommand`;
a flush request goes to the GPU it names) — the routing `c11OwnerScenario` checks on the real driver. -/
namespace C11
open Util

structure MSys where
  /-- physical address → lane (GPU) that owns it -/
  own : Nat → Nat
  nQ : Nat
  pt : List Page := []
  bufs : List Buf := []
  /-- the ONE driver -/
  mq : MqEnv := {}
  /-- per GPU: command processor, DMA engine, memory, caches (as a `Sys`; its `mq` is ghost) -/
  lanes : List Sys := []
  cmds : List SysCmd := []

/-- moves that happen inside one GPU -/
def SysOp.isLocal : SysOp → Bool
  | .cpTick | .cacheTake _ | .cacheAck _ | .toDma | .dmaTick | .memTake _ | .memDo _ | .dmaOut | .toCpRsp
  | .kwrite _ _ _ => true
  | _ => false

inductive MOp where
  | enq (q : Nat) (h2d : Bool) (addr len salt : Nat)
  | drvTick
  /-- the request at the head of the driver's GPU port reaches the command processor of its GPU -/
  | toCp
  /-- a move inside GPU `g` -/
  | gpu (g : Nat) (op : SysOp)
  /-- the answer at the head of GPU `g`'s driver port reaches the driver -/
  | toDrv (g : Nat)
deriving Repr

def MSys.pieceOf (s : MSys) (r : MqReq) : Option Piece := ({ cmds := s.cmds } : Sys).pieceOf r

/-- the GPU a request of the driver is sent to (`s.lanes.length` = nowhere) -/
def MSys.route (s : MSys) (r : MqReq) : Nat :=
  if r.kind = .flush then r.idx else
  match s.pieceOf r with
  | some p => s.own p.pa
  | none => s.lanes.length

/-- the lane's ghost port is loaded with the request routed to it -/
def Sys.load (s : Sys) (r : MqReq) : Sys := { s with mq := { s.mq with s := { s.mq.s with portOut := [r] } } }

def MSys.step (s : MSys) : MOp → MSys × String
  | .enq q h2d addr len salt =>
    match pieces s.pt len addr 0 len with
    | none => (s, "bad")
    | some pcs =>
      if q < s.nQ ∧ q < s.mq.s.queues.length then
        let kind : MqKind := if h2d then .h2d else .d2h
        let c : SysCmd := { q := q, kind := kind, addr := addr,
                            data := if h2d then (List.range len).map (h2dByte (addr + salt)) else [],
                            len := len, pcs := pcs, flush := needFlushing s.bufs addr len }
        let r := s.mq.step (.enq q { kind := kind, pieces := pcs.length, flush := c.flush })
        ({ s with mq := r.1, cmds := s.cmds ++ [c],
                  lanes := s.lanes.map fun l => (l.step (.enq q h2d addr len salt)).1 }, r.2)
      else (s, "bad")
  | .drvTick =>
    let r := s.mq.step .tick
    ({ s with mq := r.1 }, r.2)
  | .toCp =>
    match s.mq.s.portOut with
    | [] => (s, "none")
    | r :: _ =>
      match s.lanes[s.route r]? with
      | none => (s, "bad-route")
      | some l =>
        if l.cp.s.drvIn.length < l.cp.s.capIn then
          ({ s with mq := (s.mq.step (.take 1)).1, lanes := s.lanes.set (s.route r) ((l.load r).step .toCp).1 },
           "g" ++ toString (s.route r) ++ "[" ++ mqReqStr r ++ "]")
        else (s, "full")
  | .gpu g op =>
    if op.isLocal then
      match s.lanes[g]? with
      | none => (s, "bad")
      | some l =>
        let r := l.step op
        ({ s with lanes := s.lanes.set g r.1 }, r.2)
    else (s, "bad")
  | .toDrv g =>
    match s.lanes[g]? with
    | none => (s, "bad")
    | some l =>
      match l.cp.s.drvOut with
      | [] => (s, "none")
      | m :: _ =>
        match l.reqOfCp m.id with
        | none => (s, "bad-link")
        | some rq =>
          match findIdx? (fun (x : MqReq) => x.id == rq.id) s.mq.outstanding,
                findIdx? (fun (x : MqReq) => x.id == rq.id) l.mq.outstanding with
          | some j, some _ =>
            ({ s with mq := (s.mq.step (.rsp j)).1, lanes := s.lanes.set g (l.step .toDrv).1 }, "ok")
          | _, _ => (s, "bad-link")

def MSys.run (s : MSys) : List MOp → MSys
  | [] => s
  | op :: rest => ((s.step op).1).run rest

structure MCfg where
  /-- per-GPU configuration (command processor, DMA engine) + page table, buffers, queues, latencies -/
  sys : SysCfg := {}
  nGpus : Nat := 2
  own : Nat → Nat

def MSys.init (c : MCfg) : MSys :=
  { own := c.own, nQ := c.sys.nQueues, pt := c.sys.pt, bufs := c.sys.bufs,
    mq := MqEnv.init c.nGpus c.sys.cycH2D c.sys.cycD2H c.sys.nQueues c.sys.warm,
    lanes := List.replicate c.nGpus (Sys.init c.sys) }

def reachMSys (c : MCfg) (ops : List MOp) : MSys := (MSys.init c).run ops

/-- the byte at physical address `a`: in the memory of the GPU that owns `a` -/
def MSys.memGet (s : MSys) (a : Nat) : Nat :=
  match s.lanes[s.own a]? with
  | some l => l.mem.get a
  | none => memByte a

end C11
