import MgpuModel.Util
import MgpuModel.C03S_Types
/-! # C03 (scalar part) — the architectural state around a scalar instruction

Decoding of the five scalar formats, operand fetch and write-back as the ISA defines them
(SGPR pairs little-endian, VCC/EXEC halves, M0, inline constants, 32-bit literal), and the
post-state delta in the canonical order of `harness/emustate.go: delta`. -/
namespace C03S

structure DInst where
  fmt : Nat      -- 0 SOP2, 1 SOPK, 2 SOP1, 3 SOPC, 4 SOPP
  op : Nat
  sdst : Nat
  ssrc0 : Nat
  ssrc1 : Nat
  simm16 : Nat
  lit : Nat
deriving Repr, DecidableEq

def bits (w lo hi : Nat) : Nat := (w / 2 ^ lo) % 2 ^ (hi - lo + 1)

/-- first dword `w`, optional literal dword `lit` -/
def decode (w lit : Nat) : Option DInst :=
  let top9 := w / 2 ^ 23
  if top9 == 0x17D then some ⟨2, bits w 8 15, bits w 16 22, bits w 0 7, 0, 0, lit⟩
  else if top9 == 0x17E then some ⟨3, bits w 16 22, 0, bits w 0 7, bits w 8 15, 0, lit⟩
  else if top9 == 0x17F then some ⟨4, bits w 16 22, 0, 0, 0, bits w 0 15, lit⟩
  else if w / 2 ^ 28 == 0xB then some ⟨1, bits w 23 27, bits w 16 22, 0, 0, bits w 0 15, lit⟩
  else if w / 2 ^ 30 == 2 then some ⟨0, bits w 23 29, bits w 16 22, bits w 0 7, bits w 8 15, 0, lit⟩
  else none

structure MState where
  s : List (Nat × Nat)   -- SGPR cells that are not zero
  vcc : Nat
  exec : Nat
  scc : Nat
  pc : Nat
  m0 : Nat
deriving Repr

def MState.sreg (st : MState) (n : Nat) : Nat := (st.s.lookup n).getD 0

def MState.setS (st : MState) (n v : Nat) : MState :=
  { st with s := (n, v) :: st.s.filter (·.1 != n) }

def two32 : Nat := 4294967296

/-- operand fetch: `width` is the operand width of the opcode (32/64) -/
def readOpnd (st : MState) (code width lit : Nat) : Option Nat :=
  if code ≤ 101 then
    some (if width == 64 then st.sreg code + two32 * st.sreg (code + 1) else st.sreg code)
  else if code == 106 then some (if width == 64 then st.vcc else st.vcc % two32)
  else if code == 107 then (if width == 64 then none else some (st.vcc / two32))
  else if code == 124 then some st.m0
  else if code == 126 then some (if width == 64 then st.exec else st.exec % two32)
  else if code == 127 then (if width == 64 then none else some (st.exec / two32))
  else if 128 ≤ code && code ≤ 192 then some (code - 128)
  else if 193 ≤ code && code ≤ 208 then some (2 ^ 64 - (code - 192))   -- sign-extended
  else if code == 240 then some 0x3f000000
  else if code == 241 then some 0xbf000000
  else if code == 242 then some 0x3f800000
  else if code == 243 then some 0xbf800000
  else if code == 244 then some 0x40000000
  else if code == 245 then some 0xc0000000
  else if code == 246 then some 0x40800000
  else if code == 247 then some 0xc0800000
  else if code == 248 then some 0x3e22f983
  else if code == 255 then some lit
  else none

def writeOpnd (st : MState) (code width v : Nat) : Option MState :=
  if code ≤ 101 then
    let st1 := st.setS code (v % two32)
    some (if width == 64 then st1.setS (code + 1) (v / two32 % two32) else st1)
  else if code == 106 then
    some (if width == 64 then { st with vcc := v } else { st with vcc := st.vcc / two32 * two32 + v % two32 })
  else if code == 107 then
    (if width == 64 then none else some { st with vcc := (v % two32) * two32 + st.vcc % two32 })
  else if code == 124 then some { st with m0 := v % two32 }
  else if code == 126 then
    some (if width == 64 then { st with exec := v } else { st with exec := st.exec / two32 * two32 + v % two32 })
  else if code == 127 then
    (if width == 64 then none else some { st with exec := (v % two32) * two32 + st.exec % two32 })
  else none

def dedupSorted (l : List Nat) : List Nat :=
  let sorted := l.mergeSort (· ≤ ·)
  sorted.foldr (fun x acc => match acc with
    | y :: _ => if x == y then acc else x :: acc
    | [] => [x]) []

/-- every cell that differs, in the order of the harness' `delta` -/
def deltaStr (a b : MState) : String :=
  let idx := dedupSorted ((a.s.map (·.1)) ++ (b.s.map (·.1)))
  let sp := idx.filterMap fun n =>
    if a.sreg n != b.sreg n then some s!"s{n}={Util.toHex (b.sreg n)}" else none
  let p := sp
    ++ (if a.vcc != b.vcc then [s!"vcc={Util.toHex b.vcc}"] else [])
    ++ (if a.exec != b.exec then [s!"exec={Util.toHex b.exec}"] else [])
    ++ (if a.scc != b.scc then [s!"scc={b.scc}"] else [])
    ++ (if a.pc != b.pc then [s!"pc={Util.toHex b.pc}"] else [])
    ++ (if a.m0 != b.m0 then [s!"m0={Util.toHex b.m0}"] else [])
  if p.isEmpty then "-" else " ".intercalate p

/-- semantics of one opcode as seen by the machine: operand widths + the handler function -/
structure Sem where
  dstW : Nat
  src0W : Nat
  src1W : Nat
  f : ScalarIn → ScalarOut

/-- operand fetch: everything the handler can read, as `ReadOperand`/`SCC()`/… return it -/
def fetch (src0W src1W : Nat) (d : DInst) (st : MState) : Option ScalarIn :=
  let needS0 := d.fmt == 0 || d.fmt == 2 || d.fmt == 3
  let needS1 := d.fmt == 0 || d.fmt == 3
  match (if needS0 then readOpnd st d.ssrc0 src0W d.lit else some 0),
        (if needS1 then readOpnd st d.ssrc1 src1W d.lit else some 0),
        (if d.fmt == 1 then readOpnd st d.sdst 32 d.lit else some 0) with
  | some s0, some s1, some dOld =>
    some { src0 := BitVec.ofNat 64 s0, src1 := BitVec.ofNat 64 s1, dstOld := BitVec.ofNat 64 dOld,
           scc := BitVec.ofNat 8 st.scc, vcc := BitVec.ofNat 64 st.vcc, exec := BitVec.ofNat 64 st.exec,
           pc := BitVec.ofNat 64 st.pc, simm16 := BitVec.ofNat 64 d.simm16 }
  | _, _, _ => none

/-- write-back of the special registers of an output record (after `dst`) -/
def commitSpecial (st1 : MState) (o : ScalarOut) : MState :=
  let st2 := match o.exec with | some v => { st1 with exec := v.toNat } | none => st1
  let st3 := match o.vcc with | some v => { st2 with vcc := v.toNat } | none => st2
  let st4 := match o.scc with | some v => { st3 with scc := v.toNat } | none => st3
  match o.pc with | some v => { st4 with pc := v.toNat } | none => st4

/-- write-back of an output record: `dst` first and the special registers after it (the order every
    handler uses) -/
def commit (dstW : Nat) (d : DInst) (st : MState) (o : ScalarOut) : Option MState :=
  match o.dst with
  | some v =>
    if d.fmt == 0 || d.fmt == 1 || d.fmt == 2 then
      (writeOpnd st d.sdst dstW (keep dstW v).toNat).map (commitSpecial · o)
    else none
  | none => some (commitSpecial st o)

/-- fetch operands, run the handler function, commit its output -/
def execute (sem : Sem) (d : DInst) (st : MState) : Option MState := do
  let i ← fetch sem.src0W sem.src1W d st
  commit sem.dstW d st (sem.f i)

/-- `s=4:ffff,5:1` -/
def parseS (t : String) : Option (List (Nat × Nat)) :=
  if t == "" || t == "-" then some [] else
  (t.splitOn ",").mapM fun kv => match kv.splitOn ":" with
    | [k, v] => do let k ← k.toNat?; let v ← Util.hexNat? v; pure (k, v)
    | _ => none

def parseState (toks : List String) : Option MState := do
  let s ← parseS ((Util.kv? toks "s").getD "-")
  let vcc ← Util.kvHex? toks "vcc"
  let exec ← Util.kvHex? toks "exec"
  let scc ← Util.kvNat? toks "scc"
  let pc ← Util.kvHex? toks "pc"
  let m0 ← Util.kvHex? toks "m0"
  pure { s := s.filter (·.2 != 0), vcc := vcc, exec := exec, scc := scc, pc := pc, m0 := m0 }

def leWord (bs : List Nat) : Nat := bs.foldr (fun b acc => b + 256 * acc) 0

def parseInst (hex : String) : Option DInst := do
  let bs ← Util.hexBytes? hex
  if bs.length < 4 then none else
  decode (leWord (bs.take 4)) (leWord ((bs.drop 4).take 4))

end C03S
