import MgpuModel.Util
/-!
# C12.W — the driver's own sleep/wake rule (Akita ticking component)

`Driver` is an Akita `TickingComponent`: the engine handles a tick event by calling `Driver.Tick`
and schedules the next tick (`TickLater`) only if `Tick` reported progress
(`TickingComponent.Handle`). A sleeping component is woken only by
* `Port.Deliver` into an EMPTY incoming buffer (`NotifyRecv`),
* `Port.RetrieveOutgoing` that takes the outgoing buffer out of the FULL state (`NotifyPortFree`),
* `runAsync`'s `TickLater` after an application thread signalled `enqueueSignal`.
"Waiting always terminates" therefore also needs: the driver is never asleep while something
is left for it to do.

* generic part: `Core` (component state + the two port buffers), `Stage` (one stage of `Tick` with
  its progress flag), `runStages` (`madeProgress = stage() || madeProgress`, in order), `Sys`/`step`
  (the sleep/wake protocol; `awake` = a tick event is scheduled);
* `Drv`: transcription of the stages of `Driver.Tick` for Noop and (unified multi-GPU) kernel
  commands — `sendToGPUs`, the default memory-copy middleware's timer, `processReturnReq` /
  `processLaunchKernelReturn`, `processNewCommand` — run against the real `Driver.Tick` by
  `harness/c12_deep.go` (`c12 wake` case lines: progress flag of every tick and the final state).
-/
namespace C12
namespace W

/-- the component as its ports and the engine see it: internal state, incoming buffer (head first),
    outgoing buffer -/
structure Core (D I O : Type) where
  d : D
  inb : List I := []
  outb : List O := []

/-- one stage of `Tick`: new state and its `madeProgress` contribution -/
abbrev Stage (D I O : Type) := Core D I O → Core D I O × Bool

/-- `Tick`: all stages in order (each one is always executed), progress = OR of the flags -/
def runStages {D I O : Type} : List (Stage D I O) → Core D I O → Core D I O × Bool
  | [], c => (c, false)
  | st :: rest, c =>
    let r1 := st c
    let r2 := runStages rest r1.1
    (r2.1, r1.2 || r2.2)

structure Sys (D I O : Type) where
  core : Core D I O
  /-- a tick event of the component is scheduled -/
  awake : Bool := false
  /-- an application thread has changed the command queues and its `enqueueSignal` has not yet
      led to `runAsync`'s `TickLater` (in `C12.K`: some thread `willSignal`, or `r = tick`) -/
  owed : Bool := false

inductive Ev (D I O : Type)
  | deliver (m : I)        -- the connection delivers a message (fails when the buffer is full)
  | retrieve               -- the connection takes the head of the outgoing buffer
  | enq (f : D → D)        -- an application thread changes the queues (`Driver.Enqueue`: no wake-up!)
  | kick                   -- `runAsync`: Pause; TickLater; Continue
  | tick                   -- the engine handles the tick event (if one is scheduled)

def step {D I O : Type} (inCap outCap : Nat) (stages : List (Stage D I O)) (s : Sys D I O) : Ev D I O → Sys D I O
  | .deliver m =>
    if s.core.inb.length < inCap then
      { s with core := { s.core with inb := s.core.inb ++ [m] }, awake := s.awake || s.core.inb.isEmpty }
    else s
  | .retrieve => match s.core.outb with
    | [] => s
    | _ :: rest => { s with core := { s.core with outb := rest }, awake := s.awake || (s.core.outb.length == outCap) }
  | .enq f => { s with core := { s.core with d := f s.core.d }, owed := true }
  | .kick => { s with awake := true, owed := false }
  | .tick =>
    if s.awake then
      let r := runStages stages s.core
      { s with core := r.1, awake := r.2 }
    else s

def run {D I O : Type} (inCap outCap : Nat) (stages : List (Stage D I O)) (s : Sys D I O) (evs : List (Ev D I O)) : Sys D I O :=
  evs.foldl (step inCap outCap stages) s

/-! ## The stages of `Driver.Tick` -/
namespace Drv

/-- `kern n` = a kernel launch that sends `n` `LaunchKernelReq`s (`LaunchKernelCommand`: 1;
    `LaunchUnifiedMultiGPUKernelCommand`: one per member GPU with a non-empty share) -/
inductive Cmd | noop | kern (n : Nat)
deriving DecidableEq, Repr

structure Q where
  cmds : List Cmd := []
  /-- `CommandQueue.IsRunning` -/
  running : Bool := false
  /-- `len(cmd.GetReqs())` of the running head -/
  left : Nat := 0
deriving DecidableEq, Repr

/-- a `LaunchKernelReq` of the head of queue `q` -/
structure Req where
  q : Nat
deriving DecidableEq, Repr
/-- the `LaunchKernelRsp` to a request of the head of queue `q` -/
structure Rsp where
  q : Nat
deriving DecidableEq, Repr

structure D where
  qs : List Q := []
  /-- `Driver.requestsToSend` -/
  toSend : List Req := []
  /-- `defaultMemoryCopyMiddleware.cyclesLeft` (`none` = -1; it starts at 0) -/
  cyc : Option Nat := some 0
deriving DecidableEq, Repr

abbrev C := Core D Rsp Req

/-- `sendToGPUs`: one request per tick, if the port accepts it -/
def sendToGPUs (outCap : Nat) : Stage D Rsp Req := fun c =>
  match c.d.toSend with
  | [] => (c, false)
  | x :: rest =>
    if c.outb.length < outCap then ({ c with d := { c.d with toSend := rest }, outb := c.outb ++ [x] }, true)
    else (c, false)

/-- `defaultMemoryCopyMiddleware.Tick`, timer part (no `GeneralRsp` exists in this model) -/
def mwTick : Stage D Rsp Req := fun c =>
  match c.d.cyc with
  | some (k + 1) => ({ c with d := { c.d with cyc := some k } }, true)
  | some 0 => ({ c with d := { c.d with cyc := none } }, true)
  | none => (c, false)

def updAt (f : Q → Q) : Nat → List Q → List Q
  | _, [] => []
  | 0, q :: qs => f q :: qs
  | i + 1, q :: qs => q :: updAt f i qs

/-- `processLaunchKernelReturn` on the queue whose head owns the request -/
def retQ (q : Q) : Q :=
  if q.running then
    (if q.left ≤ 1 then { cmds := q.cmds.tail, running := false, left := 0 } else { q with left := q.left - 1 })
  else q

/-- `processReturnReq`: the head of the GPU port is retrieved and `processLaunchKernelReturn`
    returns `true` -/
def processReturnReq : Stage D Rsp Req := fun c =>
  match c.inb with
  | [] => (c, false)
  | m :: rest => ({ c with inb := rest, d := { c.d with qs := updAt retQ m.q c.d.qs } }, true)

/-- `processNewCommandFromCmdQueue` of queue number `i`: new queue, requests appended to
    `requestsToSend`, progress -/
def procQ (i : Nat) (q : Q) : Q × List Req × Bool :=
  match q.cmds with
  | [] => (q, [], false)
  | c :: cs =>
    if q.running then (q, [], false)
    else match c with
      | .noop => ({ q with cmds := cs }, [], true)
      | .kern 0 => (q, [], true)      -- no member GPU gets a share: nothing sent, `IsRunning` stays false, `true`
      | .kern (n + 1) => ({ q with running := true, left := n + 1 }, List.replicate (n + 1) ⟨i⟩, true)

def procAll : Nat → List Q → List Q × List Req × Bool
  | _, [] => ([], [], false)
  | i, q :: rest =>
    let r1 := procQ i q
    let r2 := procAll (i + 1) rest
    (r1.1 :: r2.1, r1.2.1 ++ r2.2.1, r1.2.2 || r2.2.2)

/-- `processNewCommand`: one pass over all queues of all contexts -/
def processNewCommand : Stage D Rsp Req := fun c =>
  let r := procAll 0 c.d.qs
  ({ c with d := { c.d with qs := r.1, toSend := c.d.toSend ++ r.2.1 } }, r.2.2)

/-- the stages of `Driver.Tick` in program order (`sendToMMU`, `sendMigrationReqToCP` and
    `parseFromMMU` belong to page migration, property C19, and are idle here) -/
def stages (outCap : Nat) : List (Stage D Rsp Req) :=
  [sendToGPUs outCap, mwTick, processReturnReq, processNewCommand]

/-- a queue whose head could be started now -/
def startable (q : Q) : Prop := q.cmds ≠ [] ∧ q.running = false
instance (q : Q) : Decidable (startable q) := by unfold startable; exact inferInstance

/-- something is left for `Tick` to do: a message waits in the GPU port, a command is runnable, or a
    request can be sent (the middleware's timer is not counted: it only runs after a command was
    started, i.e. after a tick that reported progress, and reports progress itself until it expires) -/
def work (outCap : Nat) (c : C) : Prop :=
  c.inb ≠ [] ∨ (∃ q ∈ c.d.qs, startable q) ∨ (c.d.toSend ≠ [] ∧ c.outb.length < outCap)

def enqCmd (i : Nat) (cmd : Cmd) (d : D) : D := { d with qs := updAt (fun q => { q with cmds := q.cmds ++ [cmd] }) i d.qs }

def init (nq : Nat) : Sys D Rsp Req := { core := { d := { qs := List.replicate nq {} } } }

/-- the seeded variant `c12_wake.go` is aimed at: `processLaunchKernelReturn` reports progress only
    when the command completed (it consumed a message and still says `false`) -/
def processReturnReqLazy : Stage D Rsp Req := fun c =>
  match c.inb with
  | [] => (c, false)
  | m :: rest =>
    let fin := match c.d.qs[m.q]? with
      | some q => decide (q.left ≤ 1)
      | none => true
    ({ c with inb := rest, d := { c.d with qs := updAt retQ m.q c.d.qs } }, fin)

def stagesLazy (outCap : Nat) : List (Stage D Rsp Req) :=
  [sendToGPUs outCap, mwTick, processReturnReqLazy, processNewCommand]

/-! ### case lines of the correspondence (`c12 wake nq=… ; ops`) -/

inductive Op | noop (q : Nat) | kern (q n : Nat) | tick | out | rsp (q : Nat)
deriving DecidableEq, Repr

def parseOp (w : String) : Option Op :=
  match w.splitOn ":" with
  | ["n", q] => q.toNat?.map .noop
  | ["k", q, n] => match q.toNat?, n.toNat? with
    | some q, some n => some (.kern q n)
    | _, _ => none
  | ["t"] => some .tick
  | ["o"] => some .out
  | ["d", q] => q.toNat?.map .rsp
  | _ => none

def cap : Nat := 40960000

/-- the harness calls `Driver.Tick` directly (no engine): every `t` is a tick whatever `awake` says;
    the trace records the progress flag of each tick -/
def runOps (c : C) : List Op → List String → C × List String
  | [], acc => (c, acc.reverse)
  | op :: ops, acc =>
    match op with
    | .noop q => runOps { c with d := enqCmd q .noop c.d } ops acc
    | .kern q n => runOps { c with d := enqCmd q (.kern n) c.d } ops acc
    | .tick => let r := runStages (stages cap) c; runOps r.1 ops ((if r.2 then "1" else "0") :: acc)
    | .out => match c.outb with
      | [] => runOps c ops ("-" :: acc)
      | x :: rest => runOps { c with outb := rest } ops (s!"q{x.q}" :: acc)
    | .rsp q => runOps { c with inb := c.inb ++ [⟨q⟩] } ops acc

def showQ (q : Q) : String := s!"{q.cmds.length}{if q.running then "*" else ""}{q.left}"

/-- `fresh` = the driver has never ticked (the memory-copy middleware's timer still reports progress once) -/
def handleWake (nq : Nat) (fresh : Bool) (ops : List Op) : String :=
  let r := runOps { d := { qs := List.replicate nq {}, cyc := if fresh then some 0 else none } } ops []
  Util.joinWith " " r.2 ++ " | " ++ Util.joinWith "," (r.1.d.qs.map showQ) ++ s!" | in={r.1.inb.length} out={r.1.outb.length}"

end Drv
/-! ## Request bookkeeping of a running memory-copy command (`defaultMemoryCopyMiddleware`)
`processMemCopyH2DCommand`/`…D2H…` add one `FlushReq` per GPU (when a dirty buffer overlaps) and
the copy requests to `cmd.Reqs`. REPAIRED code: each of the three return paths
(`processMemCopyH2DReturn`, `processMemCopyD2HReturn`, `processFlushReturn`) removes the answered
request and then calls `completeCommandIfDone`, which dequeues the command when
`len(cmd.GetReqs()) == 0`. BEFORE the `fix:` commit `processFlushReturn` only removed the request
(`deliverOld`, documentation theorems `…_before_fix…` only). -/
namespace Copy

inductive RKind | flush | copy
deriving DecidableEq, Repr

structure CQ where
  /-- outstanding `FlushReq`s / copy requests in `cmd.Reqs` -/
  f : Nat
  c : Nat
  /-- the command is still at the head of its queue (`IsRunning` set) -/
  queued : Bool := true
deriving DecidableEq, Repr

/-- one response is processed (repaired code): remove the request, then `completeCommandIfDone` -/
def deliver (s : CQ) : RKind → CQ
  | .flush => { s with f := s.f - 1, queued := s.queued && !((s.f - 1) + s.c == 0) }   -- processFlushReturn
  | .copy => { s with c := s.c - 1, queued := s.queued && !(s.f + (s.c - 1) == 0) }     -- processMemCopy…Return

def run (nf nc : Nat) (order : List RKind) : CQ := order.foldl deliver { f := nf, c := nc }

/-- the code BEFORE the fix: `processFlushReturn` only removes the request -/
def deliverOld (s : CQ) : RKind → CQ
  | .flush => { s with f := s.f - 1 }
  | .copy => { s with c := s.c - 1, queued := s.queued && !(s.f + (s.c - 1) == 0) }

def runOld (nf nc : Nat) (order : List RKind) : CQ := order.foldl deliverOld { f := nf, c := nc }

/-- every request is answered exactly once -/
def validOrder (nf nc : Nat) (o : List RKind) : Prop := o.count .flush = nf ∧ o.count .copy = nc
instance (nf nc : Nat) (o : List RKind) : Decidable (validOrder nf nc o) := by unfold validOrder; exact inferInstance

end Copy

end W

end C12
