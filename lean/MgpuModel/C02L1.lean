import MgpuModel.Util
/-!
C02 (second deepening) — private L1 caches across kernel boundaries.

Every compute unit of the timing platform reads global memory through its own write-around L1 vector
cache (Akita `mem/cache/writearound`; the scalar cache is a write-through cache with the same control
stage): a read hit is answered from the cached line, a read miss fills the whole line from the level
below, a write always goes to the level below and updates the line when it is cached (write hit), a
`cache.FlushReq` ends in `hardResetCache` (`directory.Reset()`: every line dropped, whatever the
request's `InvalidateAllCachelines` says). Nothing keeps the L1 caches of different compute units
coherent — inside one kernel that is the programmer's business (race-free kernels do not communicate
between work-groups), ACROSS kernels it is the command processor's: `cpMiddleware.processLaunchKernelReq`
(after the repair made for this property) empties the L1 scalar and vector caches before a kernel
starts on an idle GPU and starts the kernel when every cache has acknowledged.

* `Cp`, `cpTick` — transcription of the part of `cp.CommandProcessor.Tick` that handles kernel launches,
  driver flushes and cache acknowledgements (`processLaunchKernelReq` + `invalidateL1CachesBeforeKernel`,
  `processFlushReq`, `processCacheFlushRsp` / `processRegularCacheFlush`, the tick structure
  `processReqFromDriver; processRspFromInternal`, each running both middlewares); `Cp.fix = false` is
  the command processor as it was (a kernel starts at once, no invalidation);
* `Sys`, `sysStep` — that command processor, the caches (lines with their data) and one memory:
  accesses of running kernels, replacement, the caches performing their flush requests;
* `flat` — the emulator: the same accesses on one flat memory.
The theorems are in `MgpuProofs/Props/C02L1.lean`.
-/
namespace C02.L1
open Util

abbrev Mem := Nat → Nat

def lineOf (ls a : Nat) : Nat := a / ls * ls

def setM (m : Mem) (a v : Nat) : Mem := fun b => if b = a then v else m b

/-- one cached line: its id (first address) and the data it holds (read at addresses of the line only) -/
structure Line where
  id : Nat
  data : Mem

/-! ## the command processor -/

inductive Msg
  | launch (r : Nat)     -- `protocol.LaunchKernelReq` (request number)
  | flush                -- `protocol.FlushReq` of the driver (before a memory copy)
deriving DecidableEq, Repr

inductive Out
  | inval (cache : Nat)      -- `cache.FlushReq` with InvalidateAllCachelines sent by `invalidateCache`
  | flushc (cache : Nat)     -- `cache.FlushReq` sent by `flushCache` (driver flush)
  | start (d r : Nat)        -- `Dispatchers[d].StartDispatching(req r)`
  | flushRsp                 -- `sim.GeneralRsp` for the driver's flush request
deriving DecidableEq, Repr

structure Cp where
  /-- the repaired command processor -/
  fix : Bool
  /-- numbers of L1I, L1S, L1V and L2 caches; cache numbers: L1I first, then L1S, L1V, L2 -/
  nI : Nat
  nS : Nat
  nV : Nat
  nL2 : Nat
  /-- `Dispatchers[d].IsDispatching()` -/
  busy : List Bool
  /-- `numCacheACK` -/
  acks : Nat
  /-- `l1InvalidatedFor` -/
  invFor : Option Nat
  /-- `currFlushRequest != nil` -/
  flushReq : Bool
  /-- incoming buffer of `ToDriver` -/
  inq : List Msg
  /-- incoming buffer of `ToCaches`: number of `cache.FlushRsp` waiting -/
  rsps : Nat
  /-- `processRegularCacheFlush` dereferenced a nil `currFlushRequest` (an acknowledgement nobody asked for) -/
  fault : Bool := false
deriving Repr

def Cp.idle (c : Cp) : Bool := c.busy.all fun b => !b

/-- `findAvailableDispatcher` -/
def firstFree : List Bool → Nat → Option Nat
  | [], _ => none
  | b :: bs, k => if b then firstFree bs (k + 1) else some k

def setAt (l : List Bool) (k : Nat) (v : Bool) : List Bool := l.set k v

def l1Caches (c : Cp) : List Nat := (List.range (c.nS + c.nV)).map fun i => c.nI + i

def allCaches (c : Cp) : List Nat := List.range (c.nI + c.nS + c.nV + c.nL2)

/-- `processLaunchKernelReq` for the request `r` at the head of `ToDriver` -/
def launchReq (c : Cp) (r : Nat) : Cp × List Out :=
  match firstFree c.busy 0 with
  | none => (c, [])
  | some d =>
    let go : Cp × List Out := ({ c with busy := setAt c.busy d true, inq := c.inq.drop 1 }, [.start d r])
    if !c.fix then go
    else if c.acks > 0 then (c, [])
    else if c.invFor = some r then
      ({ c with invFor := none, busy := setAt c.busy d true, inq := c.inq.drop 1 }, [.start d r])
    else if !c.idle then go
    else if (l1Caches c).isEmpty then go
    else ({ c with acks := (l1Caches c).length, invFor := some r }, (l1Caches c).map .inval)

/-- `processFlushReq` (the outgoing buffers are large enough: the sends succeed) -/
def flushReqStep (c : Cp) : Cp × List Out :=
  if c.acks > 0 then (c, [])
  else
    let n := (allCaches c).length
    ({ c with acks := n, flushReq := true, inq := c.inq.drop 1 },
      (allCaches c).map .flushc ++ (if n = 0 then [.flushRsp] else []))

/-- `cpMiddleware.Handle` -/
def mwHandle (c : Cp) : Cp × List Out :=
  match c.inq with
  | [] => (c, [])
  | .launch r :: _ => launchReq c r
  | .flush :: _ => flushReqStep c

/-- `ctrlMiddleware.processRspFromCaches` / `processCacheFlushRsp` (no shoot-down in progress) -/
def cacheRsp (c : Cp) : Cp × List Out :=
  if c.rsps = 0 then (c, [])
  else
    let c1 := { c with acks := c.acks - 1, rsps := c.rsps - 1 }
    if c1.acks = 0 then
      -- the last acknowledgement of a kernel-start invalidation: nobody waits for a response
      if c.invFor.isSome then (c1, [])
      else if c.flushReq then ({ c1 with flushReq := false }, [.flushRsp])
      else ({ c1 with fault := true }, [])
    else (c1, [])

def both (c : Cp) : Cp × List Out :=
  let a := mwHandle c
  let b := cacheRsp a.1
  (b.1, a.2 ++ b.2)

/-- `CommandProcessor.Tick`: `processReqFromDriver` runs both middlewares only when a message waits,
    `processRspFromInternal` always -/
def cpTick (c : Cp) : Cp × List Out :=
  let a := if c.inq.isEmpty then (c, []) else both c
  let b := both a.1
  (b.1, a.2 ++ b.2)

/-! ## caches, memory, kernels -/

/-- an access of a running kernel, issued by compute unit `cu` -/
inductive Acc
  | rd (cu a : Nat)
  | wr (cu a v : Nat)
deriving DecidableEq, Repr

def Acc.cu : Acc → Nat
  | .rd c _ => c
  | .wr c _ _ => c

def Acc.addr : Acc → Nat
  | .rd _ a => a
  | .wr _ a _ => a

def Acc.isWr : Acc → Bool
  | .rd _ _ => false
  | .wr _ _ _ => true

/-- ghost: one logged access: kernel instance, compute unit, address, write? -/
structure Log where
  k : Nat
  cu : Nat
  a : Nat
  w : Bool
deriving DecidableEq, Repr

structure Sys where
  ls : Nat
  cp : Cp
  mem : Mem
  /-- L1V cache of compute unit `cu` (cache number `nI + nS + cu`) -/
  l1 : List (List Line)
  /-- cache numbers with a `cache.FlushReq` not yet performed -/
  creq : List Nat
  /-- kernel instance running on dispatcher `d` (ghost numbering: the n-th kernel started is n) -/
  run : List (Option Nat)
  /-- values returned by the reads, in order -/
  reads : List Nat
  /-- ghost: number of kernels started, kernels finished, for each kernel the kernels that had
      finished when it started, all accesses so far -/
  nk : Nat
  fin : List Nat
  before : List (List Nat)
  log : List Log
  /-- ghost: a conflicting pair of accesses not ordered by kernel completion → start was seen -/
  race : Bool

inductive Ev
  | arrive (m : Msg)            -- the driver's message reaches `ToDriver`
  | tick                        -- `CommandProcessor.Tick`
  | cacheDo (i : Nat)           -- cache `i` performs its flush request (reset) and answers
  | acc (d : Nat) (x : Acc)     -- an access of the kernel running on dispatcher `d`
  | evict (cu ln : Nat)         -- replacement of a line in the L1V cache of `cu`
  | done (d : Nat)              -- the kernel on dispatcher `d` completes
deriving DecidableEq, Repr

def findLine (l : List Line) (ln : Nat) : Option Line := l.find? fun x => x.id == ln

def updL1 (l1 : List (List Line)) (cu : Nat) (f : List Line → List Line) : List (List Line) :=
  l1.mapIdx fun i x => if i = cu then f x else x

/-- a read through the L1V cache of `cu`: value and new cache content -/
def l1Read (ls : Nat) (mem : Mem) (l1 : List (List Line)) (cu a : Nat) : Nat × List (List Line) :=
  match findLine (l1.getD cu []) (lineOf ls a) with
  | some x => (x.data a, l1)
  | none => (mem a, updL1 l1 cu fun l => l ++ [⟨lineOf ls a, mem⟩])

/-- a write: to the level below, and into the line if it is cached (write hit) -/
def l1Write (ls : Nat) (l1 : List (List Line)) (cu a v : Nat) : List (List Line) :=
  updL1 l1 cu fun l => l.map fun x => if x.id = lineOf ls a then { x with data := setM x.data a v } else x

/-- ghost: does access `x` of kernel `k` conflict with a logged access that is not ordered before it? -/
def conflicts (s : Sys) (k : Nat) (x : Acc) : Bool :=
  s.log.any fun e =>
    e.a == x.addr && e.cu != x.cu && (e.w || x.isWr) && e.k != k && !((s.before.getD k []).contains e.k)
    || (e.a == x.addr && e.cu != x.cu && (e.w || x.isWr) && e.k == k)

def applyOuts (s : Sys) (outs : List Out) : Sys :=
  outs.foldl (fun s o => match o with
    | .inval i => { s with creq := s.creq ++ [i] }
    | .flushc i => { s with creq := s.creq ++ [i] }
    | .start d _ =>
      { s with run := s.run.set d (some s.nk), nk := s.nk + 1, before := s.before ++ [s.fin] }
    | .flushRsp => s) s

def sysStep (s : Sys) : Ev → Option Sys
  | .arrive m => some { s with cp := { s.cp with inq := s.cp.inq ++ [m] } }
  | .tick =>
    let r := cpTick s.cp
    some (applyOuts { s with cp := r.1 } r.2)
  | .cacheDo i =>
    if s.creq.contains i then
      let cu := i - (s.cp.nI + s.cp.nS)
      let l1' := if s.cp.nI + s.cp.nS ≤ i ∧ i < s.cp.nI + s.cp.nS + s.cp.nV then updL1 s.l1 cu (fun _ => []) else s.l1
      some { s with creq := s.creq.erase i, l1 := l1', cp := { s.cp with rsps := s.cp.rsps + 1 } }
    else none
  | .acc d x =>
    match s.run.getD d none with
    | none => none
    | some k =>
      let s1 := { s with race := s.race || conflicts s k x, log := s.log ++ [Log.mk k x.cu x.addr x.isWr] }
      match x with
      | .rd cu a =>
        let r := l1Read s.ls s.mem s.l1 cu a
        some { s1 with reads := s.reads ++ [r.1], l1 := r.2 }
      | .wr cu a v => some { s1 with mem := setM s.mem a v, l1 := l1Write s.ls s.l1 cu a v }
  | .evict cu ln => some { s with l1 := updL1 s.l1 cu fun l => l.filter fun x => x.id != ln }
  | .done d =>
    match s.run.getD d none with
    | none => none
    | some k =>
      some { s with run := s.run.set d none, fin := s.fin ++ [k],
                    cp := { s.cp with busy := setAt s.cp.busy d false } }

def sysRun : Sys → List Ev → Option Sys
  | s, [] => some s
  | s, e :: es => match sysStep s e with
    | none => none
    | some s' => sysRun s' es

/-- the emulator: the accesses of the same event sequence on one flat memory -/
def flat : Mem → List Ev → List Nat × Mem
  | m, [] => ([], m)
  | m, .acc _ (.rd _ a) :: es => let r := flat m es; (m a :: r.1, r.2)
  | m, .acc _ (.wr _ a v) :: es => flat (setM m a v) es
  | m, _ :: es => flat m es

def initCp (fix : Bool) (nI nS nV nL2 nd : Nat) : Cp :=
  { fix := fix, nI := nI, nS := nS, nV := nV, nL2 := nL2, busy := List.replicate nd false, acks := 0,
    invFor := none, flushReq := false, inq := [], rsps := 0 }

def initSys (fix : Bool) (ls nI nS nV nL2 nd : Nat) (m : Mem) : Sys :=
  { ls := ls, cp := initCp fix nI nS nV nL2 nd, mem := m, l1 := List.replicate nV [], creq := [],
    run := List.replicate nd none, reads := [], nk := 0, fin := [], before := [], log := [], race := false }

/-- a kernel never starts while another one is running (one queue; or one dispatcher) -/
def noOverlap : Sys → List Ev → Bool
  | _, [] => true
  | s, e :: es =>
    match sysStep s e with
    | none => true
    | some s' =>
      (match e with
       | .tick => decide ((s'.run.filter Option.isSome).length ≤ 1)
       | _ => true) && noOverlap s' es

/-! ## driver: `c02 l1 fix=<0|1> nI= nS= nV= nL2= nd= ; op ; op …`

ops: `L<r>` launch request r arrives, `F` driver flush arrives, `T` tick, `A<i>` cache i performs its
flush request, `D<d>` dispatcher d done. The answer lists, per op, what the command processor did. -/

def outStr : Out → String
  | .inval i => s!"i{i}"
  | .flushc i => s!"f{i}"
  | .start d r => s!"s{d}.{r}"
  | .flushRsp => "R"

def parseOp (t : String) : Option Ev :=
  let t := t.trimAscii.toString
  if t = "T" then some .tick
  else if t = "F" then some (.arrive .flush)
  else if t.startsWith "L" then (t.drop 1).toString.toNat?.map fun r => .arrive (.launch r)
  else if t.startsWith "A" then (t.drop 1).toString.toNat?.map .cacheDo
  else if t.startsWith "D" then (t.drop 1).toString.toNat?.map .done
  else none

def cpStateStr (c : Cp) : String :=
  let b := String.ofList (c.busy.map fun x => if x then '1' else '0')
  s!"{if c.fault then "fault:nilderef " else ""}acks={c.acks} inv={if c.invFor.isSome then 1 else 0} fl={if c.flushReq then 1 else 0} busy={b}"

/-- the command-processor part of `sysStep`, with the outputs of every tick -/
def cpOnly (s : Sys) (e : Ev) : Option (Sys × String) :=
  match e with
  | .tick =>
    let r := cpTick s.cp
    -- printed in a canonical order (the harness cannot see the order across ports): responses to the
    -- driver, cache requests, kernel starts
    let isR : Out → Bool := fun o => match o with | .flushRsp => true | _ => false
    let isS : Out → Bool := fun o => match o with | .start _ _ => true | _ => false
    let l := r.2.filter isR ++ r.2.filter (fun o => !isR o && !isS o) ++ r.2.filter isS
    some (applyOuts { s with cp := r.1 } r.2, if l.isEmpty then "-" else joinWith "," (l.map outStr))
  | .done d =>
    -- the harness's dispatcher simply stops dispatching
    if s.cp.busy.getD d false then
      some ({ s with run := s.run.set d none, cp := { s.cp with busy := setAt s.cp.busy d false } }, "ok")
    else none
  | _ => match sysStep s e with
    | none => none
    | some s' => some (s', "ok")

def handleL1 (t : List String) : String :=
  let line := joinWith " " t
  match line.splitOn ";" with
  | [] => "bad"
  | hd :: ops =>
    let h := words hd
    match kvNat? h "fix", kvNat? h "nI", kvNat? h "nS", kvNat? h "nV", kvNat? h "nL2", kvNat? h "nd" with
    | some fix, some nI, some nS, some nV, some nL2, some nd =>
      match ops.mapM parseOp with
      | none => "bad"
      | some evs =>
        let r := evs.foldl (fun (acc : Option (Sys × List String)) e =>
          match acc with
          | none => none
          | some (s, out) => match cpOnly s e with
            | none => some (s, "rej" :: out)
            | some (s', o) => some (s', o :: out)) (some (initSys (fix = 1) 64 nI nS nV nL2 nd (fun _ => 0), []))
        match r with
        | none => "bad"
        | some (s, out) => joinWith " " out.reverse ++ " | " ++ cpStateStr s.cp
    | _, _, _, _, _, _ => "bad"

end C02.L1
