import MgpuModel.Util
/-!
# C12.K — the repaired hand-off protocol with ANY number of application threads and queues

Generalisation of `C12.step` (one application thread, one queue) to `k` application threads
(`St.apps`) and `m` command queues (`St.qs`); two threads on two queues of one context, two threads
in two contexts and two threads sharing one queue are the instances `k = 2`.

* every application thread runs its own script, a list of `Enqueue(q)` / `DrainCommandQueue(q)` calls
  (any queue per call); each thread has its own program counter and — while it is inside
  `DrainCommandQueue` — its own listener (`subscribed`, `token` = the capacity-1 `signal` channel);
* `CommandQueue.Enqueue` is two atomic actions: the append under `commandsMutex`, then
  `NotifyAllSubscribers` (pc `enqN`), so an enqueue of one thread wakes the waiters of another;
* `NotifyAllSubscribers` runs under `listenerMutex` and every `Notify` is a non-blocking send that
  touches one listener only; it is modelled as one atomic action (`notifyAll`);
* several senders can block on the unbuffered `enqueueSignal`; the rendezvous is the step of the
  sender (`sig`/`sending`) that finds `runAsync` in its `select` (`r = idle`) — which blocked sender
  is served is the scheduler's choice;
* one driver tick event (`Driver.Tick` → `processNewCommand`) passes over ALL queues in order
  (cursor `deq i`), takes the head of each non-empty queue (`Dequeue`: removal, then
  `NotifyAllSubscribers` at pc `notify i`) and re-schedules itself (`TickLater`) iff it made progress
  (`prog`); `Engine.Pause` of `runAsync` is blocked while the event is handled.

The model is core Lean and executable (`runSched`), theorems are in `MgpuProofs/Props/C12_K.lean`.
-/
namespace C12
namespace K

/-- application thread: `idle` = between API calls, `enqN` = inside `CommandQueue.Enqueue` after the
    append, before `NotifyAllSubscribers`; `sig` … `waiting` as in `C12.APc`. -/
inductive APc | idle | enqN | sig | sending | chk | toWait | waiting
deriving DecidableEq, Repr
inductive RPc | idle | tick | chkFlag
deriving DecidableEq, Repr
/-- `runEngine`; `deq i` = inside the driver's tick event, about to look at queue number `i`;
    `notify i` = inside `Dequeue` of queue `i`, after the removal, before `NotifyAllSubscribers`. -/
inductive EPc | none | start | loop | deq (i : Nat) | notify (i : Nat) | afterRun | clear
deriving DecidableEq, Repr

/-- one API call of an application thread -/
inductive Op | enq (q : Nat) | drain (q : Nat)
deriving DecidableEq, Repr

structure App where
  pc : APc := .idle
  /-- API calls still to be made -/
  script : List Op := []
  /-- queue of the API call in progress -/
  q : Nat := 0
  /-- this thread's listener is in `q.listeners` -/
  subscribed : Bool := false
  /-- one notification buffered in this thread's `listener.signal` (capacity 1) -/
  token : Bool := false
  /-- ghost: number of `DrainCommandQueue` calls that returned -/
  returned : Nat := 0
deriving DecidableEq, Repr

structure Qu where
  /-- queued command ids, head first -/
  cmds : List Nat := []
  /-- ghost: ids in submission order -/
  sub : List Nat := []
  /-- ghost: ids in completion (dequeue) order -/
  done : List Nat := []
deriving DecidableEq, Repr

structure St where
  apps : List App := []
  qs : List Qu := []
  nextId : Nat := 1
  r : RPc := .idle
  e : EPc := .none
  /-- a tick event of the driver is in the engine's event queue -/
  evt : Bool := false
  /-- `madeProgress` of the tick being handled -/
  prog : Bool := false
  /-- `Driver.engineRunning` -/
  running : Bool := false
  /-- `Driver.enginePending` -/
  pend : Bool := false
deriving DecidableEq, Repr

inductive Th | app (j : Nat) | async | eng
deriving DecidableEq, Repr

/-- commands queued in queue `q` (no such queue: none) -/
def cmdsAt (qs : List Qu) (q : Nat) : List Nat := match qs[q]? with | some x => x.cmds | none => []
def cmdsOf (s : St) (q : Nat) : List Nat := cmdsAt s.qs q

/-- `Notify` on the listener of one thread: direct hand-off to a receiver already blocked in
    `Wait`, else buffered in the capacity-1 channel (dropped when it is already full). -/
def notify1 (q : Nat) (a : App) : App :=
  if a.subscribed = true ∧ a.q = q then
    (if a.pc = .waiting then { a with pc := .chk } else { a with token := true })
  else a

/-- `NotifyAllSubscribers` of queue `q` -/
def notifyAll (q : Nat) (apps : List App) : List App := apps.map (notify1 q)

/-- apply `f` to queue number `i` (no-op when there is no such queue) -/
def updQ (f : Qu → Qu) : Nat → List Qu → List Qu
  | _, [] => []
  | 0, q :: qs => f q :: qs
  | i + 1, q :: qs => q :: updQ f i qs

def enqQu (id : Nat) (q : Qu) : Qu := { q with cmds := q.cmds ++ [id], sub := q.sub ++ [id] }
def deqQu (q : Qu) : Qu := match q.cmds with
  | [] => q
  | c :: cs => { q with cmds := cs, done := q.done ++ [c] }

/-- one atomic step of application thread `j` whose current record is `a` -/
def stepApp (s : St) (j : Nat) (a : App) : Option St :=
  match a.pc with
  | .idle => match a.script with
    | [] => none
    | .enq q :: rest =>      -- CommandQueue.Enqueue: append under commandsMutex
      some { s with qs := updQ (enqQu s.nextId) q s.qs, nextId := s.nextId + 1,
                    apps := s.apps.set j { a with pc := .enqN, script := rest, q := q } }
    | .drain q :: rest =>    -- DrainCommandQueue: Subscribe (fresh listener, empty channel)
      some { s with apps := s.apps.set j { a with pc := .sig, script := rest, q := q, subscribed := true, token := false } }
  | .enqN =>                 -- … then NotifyAllSubscribers (wakes the waiters of OTHER threads on that queue)
    some { s with apps := notifyAll a.q (s.apps.set j { a with pc := .idle }) }
  | .sig =>                  -- `d.enqueueSignal <- true` (unbuffered)
    if s.r = .idle then some { s with r := .tick, apps := s.apps.set j { a with pc := .chk } }
    else some { s with apps := s.apps.set j { a with pc := .sending } }
  | .sending =>              -- blocked until runAsync is back in its select
    if s.r = .idle then some { s with r := .tick, apps := s.apps.set j { a with pc := .chk } } else none
  | .chk =>                  -- `q.NumCommand() == 0` → return (deferred Unsubscribe)
    if cmdsOf s a.q = [] then
      some { s with apps := s.apps.set j { a with pc := .idle, subscribed := false, token := false, returned := a.returned + 1 } }
    else some { s with apps := s.apps.set j { a with pc := .toWait } }
  | .toWait =>               -- `<-l.signal`
    if a.token then some { s with apps := s.apps.set j { a with pc := .chk, token := false } }
    else some { s with apps := s.apps.set j { a with pc := .waiting } }
  | .waiting => none

def isTickPc : EPc → Bool
  | .deq _ => true | .notify _ => true | _ => false

/-- one atomic step of thread `t`; `none` = the thread is blocked (or does not exist) -/
def step (s : St) : Th → Option St
  | .app j => match s.apps[j]? with
    | none => none
    | some a => stepApp s j a
  | .async => match s.r with
    | .idle => none
    | .tick =>               -- Engine.Pause(); TickLater(); Engine.Continue() — Pause blocks while an event is handled
      if isTickPc s.e then none else some { s with r := .chkFlag, evt := true }
    | .chkFlag =>            -- flag test under engineRunningMutex, then back to the select
      if s.running then some { s with r := .idle, pend := true }
      else some { s with r := .idle, running := true, e := .start }
  | .eng => match s.e with
    | .none => none
    | .start => some { s with e := .loop }
    | .loop => if s.evt then some { s with e := .deq 0, evt := false, prog := false } else some { s with e := .afterRun }
    | .deq i =>
      if i < s.qs.length then
        (if cmdsOf s i = [] then some { s with e := .deq (i + 1) }
         else some { s with e := .notify i, qs := updQ deqQu i s.qs, prog := true })
      else                   -- end of the tick: TickLater iff progress
        some { s with e := .loop, evt := s.evt || s.prog, prog := false }
    | .notify i => some { s with e := .deq (i + 1), apps := notifyAll i s.apps }
    | .afterRun => some { s with e := .clear }
    | .clear => if s.pend then some { s with e := .loop, pend := false }
                else some { s with e := .none, running := false }

def init (scripts : List (List Op)) (nq : Nat) : St :=
  { apps := scripts.map fun sc => { script := sc }, qs := List.replicate nq {} }

/-- a script is acceptable when it is empty or its last call is a `DrainCommandQueue`: `Driver.Enqueue`
    alone does not wake the driver (`// d.enqueueSignal <- true` is commented out in the code). -/
def okScript (sc : List Op) : Bool := match sc.getLast? with
  | none => true
  | some (.drain _) => true
  | some (.enq _) => false

def appDone (a : App) : Prop := a.pc = .idle ∧ a.script = []
instance (a : App) : Decidable (appDone a) := by unfold appDone; exact inferInstance
/-- every application thread has finished its whole script (all its drains returned) -/
def finished (s : St) : Prop := ∀ a ∈ s.apps, appDone a
instance (s : St) : Decidable (finished s) := by unfold finished; exact inferInstance
def stuck (s : St) : Prop := ∀ t, step s t = none

def runSched (s : St) : List Th → Option St
  | [] => some s
  | t :: ts => match step s t with
    | none => none
    | some s' => runSched s' ts

/-- reachable from an initial state whose scripts all end with a drain -/
inductive Reach : St → Prop
  | init (scripts : List (List Op)) (nq : Nat) (h : ∀ sc ∈ scripts, okScript sc = true) : Reach (init scripts nq)
  | step {s s' : St} (t : Th) : Reach s → step s t = some s' → Reach s'

/-- reachable from ANY initial scripts (used for the refuted full statement only) -/
inductive ReachAny : St → Prop
  | init (scripts : List (List Op)) (nq : Nat) : ReachAny (init scripts nq)
  | step {s s' : St} (t : Th) : ReachAny s → step s t = some s' → ReachAny s'

/-! ### gate-level view for one application thread on one queue
The schedule-forcing harness (`harness/c12.go`) parks the real goroutines at the yield points and
records `c12 sched` cases; `harness/c12_deep.go` re-submits every such case as `c12 ksched`, answered
by THIS model with `k = 1`, `m = 1`: a harness move is `step` iterated to the next park point (the
engine pcs `loop`, `deq (i+1)`, `notify`, `clear` and the application pc `enqN` are not park points; a
sender blocked on `enqueueSignal` is served as soon as `runAsync` is back in its `select`). -/

def script1 (rounds : List Nat) : List Op := rounds.flatMap fun k => List.replicate k (Op.enq 0) ++ [Op.drain 0]

def parkedE : EPc → Bool
  | .none => true | .start => true | .deq 0 => true | .afterRun => true | _ => false

def settleE : Nat → St → St
  | 0, s => s
  | n + 1, s => if parkedE s.e then s else
      match step s .eng with
      | none => s
      | some s' => settleE n s'

def settleA (s : St) : St := match s.apps[0]? with
  | some a => if a.pc = .enqN then (match step s (.app 0) with | some s' => s' | none => s) else s
  | none => s

def settleR (s : St) : St :=
  if s.r = .idle then (match s.apps[0]? with
    | some a => if a.pc = .sending then (match step s (.app 0) with | some s' => s' | none => s) else s
    | none => s)
  else s

def macroStep (s : St) (role : String) : Option St :=
  match role with
  | "a" => (step s (.app 0)).map settleA
  | "r" => (step s .async).map settleR
  | "e" => (step s .eng).map (settleE 12)
  | _ => none

def apcName : APc → String
  | .idle => "idle" | .enqN => "enqN" | .sig => "sig" | .sending => "sending" | .chk => "chk" | .toWait => "toWait" | .waiting => "waiting"
def rpcName : RPc → String
  | .idle => "idle" | .tick => "tick" | .chkFlag => "chkFlag"
def epcName : EPc → String
  | .none => "none" | .start => "start" | .loop => "loop" | .deq _ => "deq" | .notify _ => "notify"
  | .afterRun => "afterRun" | .clear => "clear"
def b01 (b : Bool) : String := if b then "1" else "0"

def showSt1 (s : St) : String :=
  match s.apps[0]? with
  | some a => s!"{apcName a.pc}.{rpcName s.r}.{epcName s.e}:{Util.joinWith "," ((cmdsOf s 0).map toString)}:{b01 a.token}:{b01 s.running}{b01 s.pend}:{a.returned}"
  | none => "no-app"

def runTrace1 (s : St) : List String → List String → List String
  | [], acc => acc.reverse
  | w :: ws, acc =>
    if w = "a" ∨ w = "r" ∨ w = "e" then
      match macroStep s w with
      | none => runTrace1 s ws ("-" :: acc)
      | some s' => runTrace1 s' ws (showSt1 s' :: acc)
    else ("bad" :: acc).reverse

/-! ### gate-level view for k application threads on m queues
`harness/c12_gate2.go` parks TWO real application goroutines (plus `runAsync` and `runEngine`) at the
same yield points and records `c12 ksched2` cases. A harness move of role `a<j>` / `r` / `e` is one
`step` of that thread followed by the silent steps up to the next park point:
* the application pc `enqN` is not a park point (`Enqueue` = append + `NotifyAllSubscribers`);
* several threads can be blocked in the send on the unbuffered `enqueueSignal`; Go queues blocked
  senders first-in first-out (`hchan.sendq`), so when `runAsync` is back in its `select` the OLDEST
  blocked sender is served (and `runAsync` parks again at `async.afterRecv`): `GSt.blocked`;
* the engine pcs `loop`, `deq (i+1)`, `notify i`, `clear` are not park points. -/

/-- gate-level state: the protocol state plus the order in which threads blocked on `enqueueSignal` -/
structure GSt where
  st : St
  /-- threads blocked in `d.enqueueSignal <- true`, oldest first -/
  blocked : List Nat := []
deriving DecidableEq, Repr

def initK (scripts : List (List Op)) (nq : Nat) : GSt := { st := init scripts nq }

/-- `step` when the thread can move, else stay -/
def tryStep (s : St) (t : Th) : St := match step s t with
  | some s' => s'
  | none => s

def pcOf (s : St) (j : Nat) : Option APc := (s.apps[j]?).map (·.pc)

/-- enough engine steps to reach the next park point: at most two per queue inside a tick event,
    plus end of tick, `loop`, `afterRun`/`clear` -/
def fuelE (s : St) : Nat := 2 * s.qs.length + 6

/-- `runAsync` is back in its `select`: the oldest blocked sender (if any) is served -/
def serveK (g : GSt) : GSt :=
  if g.st.r = .idle then
    match g.blocked with
    | [] => g
    | j :: rest =>
      if pcOf g.st j = some .sending then { st := tryStep g.st (.app j), blocked := rest } else g
  else g

/-- a move of application thread `j`: not movable while blocked in the send or in `Wait` -/
def macroApp (g : GSt) (j : Nat) : Option GSt :=
  if pcOf g.st j = some .sending then none else
  match step g.st (.app j) with
  | none => none
  | some s1 =>
    if pcOf s1 j = some .enqN then some { g with st := tryStep s1 (.app j) }
    else if pcOf s1 j = some .sending then some { st := s1, blocked := g.blocked ++ [j] }
    else some { g with st := s1 }

/-- `"a0"`, `"a1"`, … ↦ thread number -/
def appRole? (role : String) : Option Nat :=
  if role.startsWith "a" then (role.drop 1).toString.toNat? else none

def macroStepK (g : GSt) (role : String) : Option GSt :=
  if role = "r" then (step g.st .async).map fun s1 => serveK { g with st := s1 }
  else if role = "e" then (step g.st .eng).map fun s1 => { g with st := settleE (fuelE s1) s1 }
  else match appRole? role with
    | some j => macroApp g j
    | none => none

def showApp (a : App) : String := s!"{apcName a.pc}/{b01 a.token}/{a.returned}"

/-- observation of the gate harness: per thread `pc/token/returned` joined by `+`, then `.r.e`,
    the queued command ids of every queue (joined by `|`), the flags `running` `pend` -/
def showStK (g : GSt) : String :=
  let s := g.st
  let qs := (List.range s.qs.length).map fun i => Util.joinWith "," ((cmdsOf s i).map toString)
  s!"{Util.joinWith "+" (s.apps.map showApp)}.{rpcName s.r}.{epcName s.e}:{Util.joinWith "|" qs}:{b01 s.running}{b01 s.pend}"

/-- the gate-level state after a list of moves (a move of a role that cannot move is skipped) -/
def finalK (g : GSt) : List String → GSt
  | [] => g
  | w :: ws => match macroStepK g w with
    | none => finalK g ws
    | some g' => finalK g' ws

def runTraceK (g : GSt) : List String → List String → List String
  | [], acc => acc.reverse
  | w :: ws, acc =>
    if w = "r" ∨ w = "e" ∨ (appRole? w).isSome then
      match macroStepK g w with
      | none => runTraceK g ws ("-" :: acc)
      | some g' => runTraceK g' ws (showStK g' :: acc)
    else ("bad" :: acc).reverse

/-- `e<q>` = `Enqueue` on queue `q`, `d<q>` = `DrainCommandQueue(q)` -/
def parseOpK (w : String) : Option Op :=
  if w.startsWith "e" then (w.drop 1).toString.toNat?.map .enq
  else if w.startsWith "d" then (w.drop 1).toString.toNat?.map .drain
  else none

/-- `e0,d0|e1,d1` ↦ the scripts of thread 0, thread 1, … (`-` = empty script) -/
def parseScriptsK (s : String) : Option (List (List Op)) :=
  (s.splitOn "|").mapM fun sc => if sc = "" ∨ sc = "-" then some [] else (sc.splitOn ",").mapM parseOpK

end K

end C12
