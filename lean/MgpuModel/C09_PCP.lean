import MgpuModel.C09_Disp
import MgpuModel.C09_Part
/-! # C09 — the command processor with the `partition` placement algorithm

Hand transcription (tie H) of `dispatching.partitionAlgorithm` (`partition.go`) *inside* the
command-processor model: the dispatchers of `C09_Disp.lean` with `alg = partitionAlgorithm`, all of
them placing on the one shared `CUResourcePoolImpl` (`List CU`, `reserve` / `free` of `C09_Res.lean`).

* `StartDispatching` (repair 91eb1bb3): the first work-group must fit some CU of the pool when that CU is
  empty, otherwise panic → `fault:oversize` (0 CUs: nothing fits).
* `StartNewKernel`: `numWG`, `numWGPerPartition = (numWG−1)/numCU + 1` (0 CUs and an empty grid: integer
  divide by zero → `fault:div0`), one grid builder per CU skipped to `i·per`, `currWGs` all nil, `numDispatchedWG = 0`;
  **`nextPartition` is not reset** (it survives from the previous kernel).
* `Next`: `allWGDispatched` guard, the loop `for index := range partitions` with
  `i = (index + nextPartition) % len(partitions)`, `nextWG(i)` (own pending / next work-group of partition
  `i`; a used-up partition steals the first pending work-group of any partition), `ReserveResourceForWG`
  on CU `i` **only**; on success `currWGs[src] = nil`, `partitions[src].dispatchedWG++`,
  `numDispatchedWG++`, `nextPartition = i + 1`. A refused work-group stays in `currWGs` (same
  `*WorkGroup`, i.e. same key) and is retried by later calls.
* `HasNext`, `NumWG`, `FreeResources` (= `FreeResourcesForWG` on the CU of the location).
* `DispatcherImpl.Tick` / `CommandProcessor.Tick`: the skeleton of `C09_Disp.lean`, copied for the new
  dispatcher type (overhead counter, ≤ 8 dispatches per tick, `currWG` retry on a full port,
  `kernelCompleted`, `completeKernel`, `processMessagesFromCU` with the repaired partial-consumption
  rule, `findAvailableDispatcher` twice per tick).

The partition bookkeeping is the structure `Part` of `C09_Part.lean` (indices only); `keys[j]` is the
identity of the `*WorkGroup` object held in `currWGs[j]` (fresh from `nextKey` at every `NextWG()` that
yields a work-group), `hist` is a ghost list of the indices placed since `StartNewKernel`.
Work-group indices are **not** mapped in grid order: the index is whatever the partition's grid builder
yields. -/
namespace C09
open Util

instance : Inhabited Part := ⟨{ n := 0, numWG := 0, per := 0, pos := [], cur := [], disp := [], next := 0, nd := 0 }⟩

/-- `partitionAlgorithm` (one per dispatcher; `cuPool` is the shared pool of the command processor) -/
structure PAlg where
  kern : Option Kern      -- the launch the grid builders were set to
  part : Part             -- partitions, currWGs (as indices), counters, nextPartition
  keys : List Nat         -- identity of the work-group object in `currWGs[j]`
  hist : List Nat         -- ghost: indices placed since `StartNewKernel`, newest first
deriving Repr, DecidableEq

/-- `HasNext` -/
def PAlg.hasNext (a : PAlg) : Bool := decide (a.part.nd < a.part.numWG)
/-- `NumWG` -/
def PAlg.numWG (a : PAlg) : Nat := a.part.numWG

/-- `DispatcherImpl` with the partition algorithm -/
structure PDisp where
  alg : PAlg
  kern : Option Kern
  currWG : Option DLoc
  cycleLeft : Nat
  nd : Nat
  nc : Nat
  inflight : List (Nat × DLoc)
  first : Bool
  prev : Nat
deriving Repr, DecidableEq

structure PCP where
  cfg : Cfg
  disps : List PDisp
  pool : List CU
  drvIn : List Kern
  cuIn : List (List Nat)
  cuRoom : Nat
  drvRoom : Nat
  nextReq : Nat
  nextKey : Nat
  fault : Option String
  out : List Ev          -- events of the current op, newest first
  log : List Ev          -- ghost: every event so far, newest first
  done : List Nat := []  -- ghost: request ids whose completion was consumed by the owner
deriving Repr, DecidableEq

instance : Inhabited PAlg := ⟨{ kern := none, part := default, keys := [], hist := [] }⟩
instance : Inhabited PDisp := ⟨{
  alg := default
  kern := none
  currWG := none
  cycleLeft := 0
  nd := 0
  nc := 0
  inflight := []
  first := false
  prev := 0 }⟩

def PCP.disp (cp : PCP) (i : Nat) : PDisp := cp.disps.getD i default
def PCP.setDisp (cp : PCP) (i : Nat) (d : PDisp) : PCP := { cp with disps := cp.disps.set i d }
def PCP.emit (cp : PCP) (e : Ev) : PCP := { cp with out := e :: cp.out, log := e :: cp.log }

/-! ## `partitionAlgorithm` -/

/-- `StartNewKernel` (for `numCU ≥ 1`; the caller reports the divide by zero) -/
def pStartKernel (a : PAlg) (k : Kern) (numCU : Nat) : PAlg :=
  { kern := some k,
    part := { Part.start k.numWG numCU with next := a.part.next },
    keys := List.replicate numCU 0,
    hist := [] }

/-- `nextWG(i)`: the work-group CU `i` should try and the partition it comes from; `nk` is the
    counter the identity of a newly built work-group is drawn from -/
def pNextWG (a : PAlg) (nk i : Nat) : PAlg × Nat × Option (Nat × Nat) :=
  let s := a.part
  if s.disp.getD i 0 ≥ s.per then
    -- `noWGInPartition`: steal the first pending work-group of any partition
    match (List.range s.n).find? (fun j => (s.cur.getD j none).isSome) with
    | some j =>
      match s.cur.getD j none with
      | some w => (a, nk, some (w, j))
      | none => (a, nk, none)
    | none => (a, nk, none)
  else
    match s.cur.getD i none with
    | some w => (a, nk, some (w, i))
    | none =>
      -- `a.currWGs[i] = a.partitions[i].gridBuilder.NextWG()` (nil once the grid is exhausted)
      let p := s.pos.getD i 0
      if p < s.numWG then
        ({ a with part := { s with pos := s.pos.set i (p + 1), cur := s.cur.set i (some p) },
                  keys := a.keys.set i nk }, nk + 1, some (p, i))
      else (a, nk, none)

inductive PRes where
  | placed (cu key idx : Nat) (locs : List Loc)
  | none
  | fault            -- panic("reserving a work-group twice")
deriving Repr, DecidableEq

/-- what the loop of `Next` leaves behind -/
structure PGo where
  alg : PAlg
  pool : List CU
  nk : Nat
  res : PRes
deriving Repr, DecidableEq

/-- the `for index := range a.partitions` loop of `Next` (`fuel` iterations left, `idx` = `index`) -/
def pNextGo (k : Kern) : Nat → Nat → PAlg → List CU → Nat → PGo
  | 0, _, a, pool, nk => ⟨a, pool, nk, .none⟩
  | fuel + 1, idx, a, pool, nk =>
    let i := (idx + a.part.next) % a.part.n
    match pNextWG a nk i with
    | (a1, nk1, none) => pNextGo k fuel (idx + 1) a1 pool nk1
    | (a1, nk1, some (w, src)) =>
      let key := a1.keys.getD src 0
      -- `cu := a.cuPool.GetCU(i); cu.ReserveResourceForWG(wgToDispatch)`
      match reserve (pool.getD i default) key (k.dem w) with
      | (.ok locs, cu') =>
        ⟨{ a1 with part := { a1.part with cur := a1.part.cur.set src none,
                                           disp := a1.part.disp.set src (a1.part.disp.getD src 0 + 1),
                                           nd := a1.part.nd + 1,
                                           next := i + 1 },
                   hist := w :: a1.hist },
          pool.set i cu', nk1, .placed i key w locs⟩
      | (.no, cu') => pNextGo k fuel (idx + 1) a1 (pool.set i cu') nk1
      | (.twice, cu') => ⟨a1, pool.set i cu', nk1, .fault⟩

/-- `algorithm.Next()` of dispatcher `i` -/
def pNext (cp : PCP) (i : Nat) : PCP × Option DLoc :=
  let d := cp.disp i
  let a := d.alg
  match a.kern with
  | none => (cp, none)
  | some k =>
    if a.part.nd ≥ a.part.numWG then (cp, none) else      -- `allWGDispatched`
    let r := pNextGo k a.part.n 0 a cp.pool cp.nextKey
    let cp1 := { cp with pool := r.pool, nextKey := r.nk }
    match r.res with
    | .placed c key idx locs =>
      (cp1.setDisp i { d with alg := r.alg },
        some { cu := c, key := key, launch := k.id, idx := idx, locs := locs })
    | .none => (cp1.setDisp i { d with alg := r.alg }, none)
    | .fault => ({ cp1.setDisp i { d with alg := r.alg } with fault := some "twice" }, none)

/-! ## `DispatcherImpl` (as in `C09_Disp.lean`) -/

/-- `dispatchNextWG` -/
def pDispatchNextWG (cp : PCP) (i : Nat) : PCP × Bool :=
  let d := cp.disp i
  let (cp1, cur) : PCP × Option DLoc := match d.currWG with
    | some dl => (cp, some dl)
    | none =>
      if d.alg.hasNext then
        let r := pNext cp i
        (r.1.setDisp i { r.1.disp i with currWG := r.2 }, r.2)
      else (cp, none)
  match cur with
  | none => (cp1, false)
  | some dl =>
    if cp1.fault.isSome then (cp1, false) else
    if cp1.cuRoom = 0 then (cp1, false) else
    let d1 := cp1.disp i
    let id := cp1.nextReq
    let cp2 := ({ cp1 with cuRoom := cp1.cuRoom - 1, nextReq := id + 1 }).emit
                 (.map id dl.cu dl.launch dl.idx dl.locs)
    let cp3 := cp2.setDisp i { d1 with currWG := none, nd := d1.nd + 1,
                                       inflight := (id, dl) :: d1.inflight, cycleLeft := 0 }
    if dl.locs.length > 16 then ({ cp3 with fault := some "bounds" }, true) else (cp3, true)

/-- the `for i := 0; i < 8; i++` dispatch loop of `Tick` -/
def pDispatchLoop (i : Nat) : Nat → PCP → PCP × Bool
  | 0, cp => (cp, false)
  | n+1, cp =>
    let r := pDispatchNextWG cp i
    if !r.2 || (r.1.disp i).cycleLeft > 0 || r.1.fault.isSome then r
    else ((pDispatchLoop i n r.1).1, true)

/-- `kernelCompleted` -/
def pKernelCompleted (d : PDisp) : Bool :=
  d.currWG.isNone && !d.alg.hasNext && !(decide (d.nc < d.nd))

/-- `completeKernel` -/
def pCompleteKernel (cp : PCP) (i : Nat) : PCP × Bool :=
  let d := cp.disp i
  match d.kern with
  | none => (cp, false)
  | some k =>
    if cp.drvRoom = 0 then (cp, false)
    else ((({ cp with drvRoom := cp.drvRoom - 1 }).emit (.rsp k.id)).setDisp i
            { d with kern := none, prev := d.nd }, true)

/-- one work-group of a completion message that belongs to dispatcher `i`
    (`FreeResources` = `FreeResourcesForWG` on the CU of the location) -/
def pCompleteOne (cp : PCP) (i : Nat) (id : Nat) : PCP :=
  let d := cp.disp i
  match d.inflight.find? (·.1 = id) with
  | none => cp
  | some (_, dl) =>
    let cp1 : PCP := match free (cp.pool.getD dl.cu default) dl.key with
      | some cu' => { cp with pool := cp.pool.set dl.cu cu', done := id :: cp.done }
      | none => { cp with fault := some "notfound", done := id :: cp.done }
    let nc := d.nc + 1
    cp1.setDisp i { d with inflight := d.inflight.filter (·.1 ≠ id), nc := nc,
                           cycleLeft := if nc = d.alg.numWG then cp.cfg.ko else d.cycleLeft }

/-- the loop over `msg.RspTo`: own work-groups are completed, the others are kept -/
def pConsume (i : Nat) : List Nat → PCP → PCP × List Nat
  | [], cp => (cp, [])
  | id :: ids, cp =>
    if (cp.disp i).inflight.any (·.1 = id) then pConsume i ids (pCompleteOne cp i id)
    else
      let r := pConsume i ids cp
      (r.1, id :: r.2)

/-- `processMessagesFromCU` (up to `fuel` = 8 messages) -/
def pProcMsgs (i : Nat) : Nat → PCP → PCP × Bool
  | 0, cp => (cp, false)
  | n+1, cp =>
    match cp.cuIn with
    | [] => (cp, false)
    | ids :: rest =>
      if !(ids.any fun id => (cp.disp i).inflight.any (·.1 = id)) then (cp, false)   -- count == 0
      else
        let r := pConsume i ids cp
        if r.1.fault.isSome then (r.1, true) else
        if r.2 = [] then ((pProcMsgs i n { r.1 with cuIn := rest }).1, true)
        else ({ r.1 with cuIn := r.2 :: rest }, true)

/-- `DispatcherImpl.Tick` -/
def pDispTick (cp : PCP) (i : Nat) : PCP × Bool :=
  let d := cp.disp i
  if d.cycleLeft > 0 then (cp.setDisp i { d with cycleLeft := d.cycleLeft - 1 }, true)
  else
    let r1 : PCP × Bool :=
      if d.kern.isSome then
        if pKernelCompleted d then pCompleteKernel cp i else pDispatchLoop i 8 cp
      else (cp, false)
    if r1.1.fault.isSome then r1 else
    let r2 := pProcMsgs i 8 r1.1
    (r2.1, r1.2 || r2.2)

/-- `StartDispatching` (`numCU ≥ 1`) -/
def pStartDispatching (cfg : Cfg) (numCU : Nat) (d : PDisp) (k : Kern) : PDisp :=
  { d with
    alg := pStartKernel d.alg k numCU,
    kern := some k,
    nd := 0,
    nc := 0,
    cycleLeft := if !d.first then cfg.klo
                 else if d.prev > 0 ∧ cfg.thr > 0 then scaled cfg.sklo cfg.thr d.prev else cfg.sklo,
    first := true }

/-- `findAvailableDispatcher` -/
def pFindAvailable (ds : List PDisp) : Option Nat := ds.findIdx? (·.kern.isNone)

/-- `cpMiddleware.Handle` for a launch request at the head of `ToDriver`. `StartDispatching` first
    checks that the first work-group fits some CU of the pool when that CU is empty (`launchFits`,
    panic → `fault:oversize`; any CU of the pool, although `partition` later ties a work-group to the CU
    of its partition); with an empty pool and an empty grid `StartNewKernel` divides by zero -/
def pHandleLaunch (cp : PCP) : PCP × Bool :=
  match cp.drvIn with
  | [] => (cp, false)
  | k :: rest =>
    match pFindAvailable cp.disps with
    | none => (cp, false)
    | some i =>
      -- `mustBeAbleToPlaceWorkGroups` comes before `StartNewKernel` (with no CU nothing fits)
      if !launchFits cp.pool k then ({ cp with fault := some "oversize" }, false) else
      if cp.pool.length = 0 then ({ cp with fault := some "div0" }, false) else
      (({ cp with drvIn := rest }).setDisp i (pStartDispatching cp.cfg cp.pool.length (cp.disp i) k), true)

def pTickDispatchers : List Nat → PCP → PCP × Bool
  | [], cp => (cp, false)
  | i :: is, cp =>
    if cp.fault.isSome then (cp, false) else
    let r := pDispTick cp i
    let r' := pTickDispatchers is r.1
    (r'.1, r.2 || r'.2)

/-- `CommandProcessor.Tick` -/
def pcpTick (cp : PCP) : PCP × Bool :=
  let r1 := pTickDispatchers (List.range cp.disps.length) cp
  if r1.1.fault.isSome then r1 else
  let r2 := pHandleLaunch r1.1
  if r2.1.fault.isSome then (r2.1, r1.2 || r2.2) else
  let r3 := pHandleLaunch r2.1
  (r3.1, r1.2 || r2.2 || r3.2)

/-! ## environment operations (the `Op` vocabulary of `C09_Disp.lean`) -/

def pstep (cp : PCP) : Op → PCP
  | .tick => (pcpTick cp).1
  | .launch k => { cp with drvIn := cp.drvIn ++ [k] }
  | .complete ids => { cp with cuIn := cp.cuIn ++ [ids] }
  | .cuRoom n => { cp with cuRoom := n }
  | .drvRoom n => { cp with drvRoom := n }

def prun (cp : PCP) (ops : List Op) : PCP := ops.foldl pstep cp

def mkPCP (cfg : Cfg) (nd : Nat) (pool : List CU) : PCP :=
  { cfg := cfg, disps := List.replicate nd default, pool := pool, drvIn := [], cuIn := [],
    cuRoom := 4096, drvRoom := 4096, nextReq := 0, nextKey := 0, fault := none, out := [], log := [] }

/-! ## case lines: `c09 cp alg=partition …` (same ops and output format as round-robin / greedy) -/

structure PEnv where
  cp : PCP
  nLaunch : Nat
  outst : List Nat
  cuRoomSet : Nat
  drvRoomSet : Nat
  out : List String

def pEvShow : Ev → String
  | .map req cu launch idx locs => s!"M{req}:{cu}:{launch}:{idx}:{locsShow locs}"
  | .rsp launch => s!"R{launch}"

def PDisp.show (d : PDisp) : String :=
  let k := match d.kern with | some k => toString k.id | none => "-"
  s!"({k} c{d.cycleLeft} {d.nd}/{d.nc} i{d.inflight.length} w{if d.currWG.isSome then 1 else 0})"

def PCP.show (cp : PCP) : String :=
  joinWith "" (cp.disps.map PDisp.show) ++ " " ++ joinWith "" (cp.pool.map CU.show)

def ppick (l : List Nat) (k : Nat) : Option Nat := if l = [] then none else l[k % l.length]?

def pTickLoop : Nat → Nat → Nat → PCP → List Ev → Nat → PCP × List Ev × Nat
  | 0, _, _, cp, evs, p => (cp, evs, p)
  | n+1, cuR, drvR, cp, evs, p =>
    let r := pcpTick { cp with cuRoom := cuR, drvRoom := drvR, out := [] }
    let evs' := evs ++ r.1.out.reverse
    if r.1.fault.isSome then (r.1, evs', p)
    else pTickLoop n cuR drvR r.1 evs' (if r.2 then p + 1 else p)

def pEnvTicks (e : PEnv) (n : Nat) (many : Bool) : PEnv :=
  let r := pTickLoop n e.cuRoomSet e.drvRoomSet e.cp [] 0
  let evs := r.2.1
  let maps := evs.filterMap fun ev => match ev with | .map req _ _ _ _ => some req | _ => none
  let head := if many then s!"T*{n}={r.2.2}" else s!"T{r.2.2}"
  let tok := head :: evs.map pEvShow
  let tok := match r.1.fault with | some f => tok ++ ["fault:" ++ f] | none => tok
  { e with cp := r.1, outst := e.outst ++ maps, out := e.out ++ [joinWith "," tok] }

def pEnvOp (e : PEnv) (o : List String) : PEnv :=
  if e.cp.fault.isSome then { e with out := e.out ++ ["X"] } else
  match o with
  | ["tick"] => pEnvTicks e 1 false
  | ["ticks", a] =>
    match a.toNat? with
    | some n => pEnvTicks e n true
    | none => { e with out := e.out ++ ["bad"] }
  | ["launch", a, b, c, d, f] =>
    match a.toNat?, b.toNat?, c.toNat?, d.toNat?, f.toNat? with
    | some gx, some wx, some s, some v, some l =>
      let k : Kern := { id := e.nLaunch, gx := gx, wx := wx, s := s, v := v, l := l }
      { e with cp := pstep e.cp (.launch k), nLaunch := e.nLaunch + 1, out := e.out ++ [s!"L{e.nLaunch}"] }
    | _, _, _, _, _ => { e with out := e.out ++ ["bad"] }
  | ["done", a] =>
    match a.toNat? with
    | some k =>
      match ppick e.outst k with
      | none => { e with out := e.out ++ ["d-"] }
      | some id => { e with cp := pstep e.cp (.complete [id]), outst := e.outst.filter (· ≠ id),
                            out := e.out ++ [s!"d{id}"] }
    | none => { e with out := e.out ++ ["bad"] }
  | ["doneb", a] =>
    match natList? a with
    | some ks =>
      let (ids, rest) := ks.foldl (fun (acc : List Nat × List Nat) k =>
        match ppick acc.2 k with
        | none => acc
        | some id => (acc.1 ++ [id], acc.2.filter (· ≠ id))) ([], e.outst)
      if ids = [] then { e with out := e.out ++ ["d-"] }
      else { e with cp := pstep e.cp (.complete ids), outst := rest,
                    out := e.out ++ ["d" ++ joinWith "+" (ids.map toString)] }
    | none => { e with out := e.out ++ ["bad"] }
  | ["room", "cu", a] =>
    match a.toNat? with
    | some n => { e with cuRoomSet := n, out := e.out ++ ["r"] }
    | none => { e with out := e.out ++ ["bad"] }
  | ["room", "drv", a] =>
    match a.toNat? with
    | some n => { e with drvRoomSet := n, out := e.out ++ ["r"] }
    | none => { e with out := e.out ++ ["bad"] }
  | ["probe"] => { e with out := e.out ++ [e.cp.show] }
  | _ => { e with out := e.out ++ ["bad"] }

/-- `c09 cp alg=partition nd=<n> klo= ko= sklo= thr= cus=<cu>|<cu>… ; ops` -/
def handlePCP (first : List String) (ops : List String) : String :=
  let nd := (kvNat? first "nd").getD 8
  let cfg : Cfg := { greedy := false, klo := (kvNat? first "klo").getD 0,
                     ko := (kvNat? first "ko").getD 3600, sklo := (kvNat? first "sklo").getD 0,
                     thr := (kvNat? first "thr").getD 0 }
  match kv? first "cus" with
  | none => "bad-cfg"
  | some cs =>
    let cus := if cs = "-" then some [] else (cs.splitOn "|").mapM parseCU
    match cus with
    | none => "bad-cfg"
    | some l =>
      if l.any Option.isNone then "fault:granularity" else
      let pool := l.filterMap id
      let e0 : PEnv := { cp := mkPCP cfg nd pool, nLaunch := 0, outst := [], cuRoomSet := 4096,
                         drvRoomSet := 4096, out := [] }
      joinWith " " (ops.foldl (fun e o => pEnvOp e (words o)) e0).out

end C09
