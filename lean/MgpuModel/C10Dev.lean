import MgpuModel.C10
/-!
# C10 (composition) — the allocator layer over an ABSTRACT device memory state

`memoryAllocatorImpl` talks to a device's memory through the interface `deviceMemoryState`
(`devicememstateinterface.go`): `Device.allocatePage`, `Device.allocateMultiplePages`, `addSinglePAddr`.
`MgpuModel/C10.lean` fixes that interface to the default FIFO free list (`Pool`); here the same allocator code
(`allocatePages`, `removePage`, `Free`, `allocateMultiplePagesWithGivenVAddrs` with the repaired release of the
replaced page, `Remap`, `Distribute`) is written once over an interface `Iface σ`, for ONE process and plain (CPU/GPU)
devices — no unified device, no page migration. `buddyIface` instantiates it with the buddy model
(`MgpuModel/C10Buddy.lean`), `fifoIface` with the FIFO free list (the sanity check that the generic code is the code of
`C10.step`: `Props/C10Comp.lean`). Not part of `handle`: no case line is answered by this file. Core Lean only.
-/
namespace C10.Comp
open C10

/-- `deviceMemoryState` as the allocator uses it (through `Device`) -/
structure Iface (σ : Type) where
  /-- Device.allocatePage (mustHaveSpaceLeft + one page) -/
  allocPage : σ → Except Fault (Nat × σ)
  /-- Device.allocateMultiplePages -/
  allocMulti : σ → Nat → Except Fault (List Nat × σ)
  /-- addSinglePAddr -/
  addSingle : σ → Nat → Except Fault σ

structure GState (σ : Type) where
  ps : Nat
  devs : List Dev                -- static ranges, device ID = index
  mem : List σ                   -- the memory state of each device
  pid : Nat                      -- the one process
  cursor : Nat                   -- its nextVAddr
  mirror : List (Nat × Page)     -- vAddrToPageMapping
  npages : List (Nat × Nat)      -- allocationNumPages
  pt : List Page                 -- vm.PageTable
  gpu : Nat                      -- the context's current device

variable {σ : Type}

/-- the loop of allocatePages -/
def allocLoop (I : Iface σ) (d : Nat) : Nat → Nat → GState σ → Except Fault (GState σ)
  | 0, _, s => .ok s
  | k + 1, v, s =>
    match s.mem[d]? with
    | none => .error .nilderef
    | some m =>
      match I.allocPage m with
      | .error e => .error e
      | .ok (p, m') =>
        match devOf s.devs p with
        | none => .error .noDevice
        | some dev =>
          let pg : Page := { pid := s.pid, vaddr := v, paddr := p, dev := dev, unified := false, migrating := false }
          match ptInsert s.pt pg with
          | .error e => .error e
          | .ok pt' =>
            allocLoop I d k (v + s.ps) { s with mem := s.mem.set d m', pt := pt', mirror := (v, pg) :: s.mirror }

/-- MemoryAllocator.Allocate -/
def allocate (I : Iface σ) (s : GState σ) (bytes d : Nat) : Except Fault (Nat × GState σ) :=
  if bytes = 0 then .error .zeroBytes else
  let n := numPagesOf s.ps bytes
  match allocLoop I d n s.cursor s with
  | .error e => .error e
  | .ok s' => .ok (s.cursor, { s' with cursor := s.cursor + s.ps * n, npages := (s.cursor, n) :: s'.npages })

/-- removePage -/
def removePage (I : Iface σ) (s : GState σ) (v : Nat) : Except Fault (GState σ) :=
  match lookup s.mirror v with
  | none => .error .mirrorMissing
  | some pg =>
    match devOf s.devs pg.paddr with
    | none => .error .noDevice
    | some d =>
      match ptRemove s.pt pg.pid pg.vaddr with
      | .error e => .error e
      | .ok pt' =>
        match s.mem[d]? with
        | none => .error .nilderef
        | some m =>
          match I.addSingle m pg.paddr with
          | .error e => .error e
          | .ok m' => .ok { s with mem := s.mem.set d m', pt := pt' }

def removePages (I : Iface σ) : List Nat → GState σ → Except Fault (GState σ)
  | [], s => .ok s
  | v :: vs, s =>
    match removePage I s v with
    | .error e => .error e
    | .ok s' => removePages I vs s'

def freeVAddrs (s : GState σ) (ptr : Nat) : List Nat :=
  ptr :: (List.range ((lookup s.npages ptr).getD 0 - 1)).map fun i => ptr + (i + 1) * s.ps

/-- MemoryAllocator.Free -/
def free (I : Iface σ) (s : GState σ) (ptr : Nat) : Except Fault (GState σ) :=
  removePages I (freeVAddrs s ptr) { s with npages := (ptr, 0) :: s.npages }

/-- the repaired end of one iteration of allocateMultiplePagesWithGivenVAddrs: the page the allocator's record names
goes back to the device that owns it (when the record belongs to the calling process) -/
def releaseReplaced (I : Iface σ) (s : GState σ) (replaced : Option Page) : Except Fault (GState σ) :=
  match replaced with
  | some old =>
    if old.pid = s.pid then
      match devOf s.devs old.paddr with
      | none => .error .noDevice
      | some d =>
        match s.mem[d]? with
        | none => .error .nilderef
        | some m =>
          match I.addSingle m old.paddr with
          | .error e => .error e
          | .ok m' => .ok { s with mem := s.mem.set d m' }
    else .ok s
  | none => .ok s

/-- the loop of allocateMultiplePagesWithGivenVAddrs -/
def remapLoop (I : Iface σ) : List Nat → List Nat → GState σ → Except Fault (GState σ)
  | v :: vs, p :: ps, s =>
    match devOf s.devs p with
    | none => .error .noDevice
    | some dev =>
      let pg : Page := { pid := s.pid, vaddr := v, paddr := p, dev := dev, unified := false, migrating := false }
      match ptUpdate s.pt pg with
      | .error e => .error e
      | .ok pt' =>
        match releaseReplaced I { s with pt := pt', mirror := (v, pg) :: s.mirror } (lookup s.mirror v) with
        | .error e => .error e
        | .ok s1 => remapLoop I vs ps s1
  | _, _, s => .ok s

/-- MemoryAllocator.Remap -/
def remap (I : Iface σ) (s : GState σ) (addr bytes d : Nat) : Except Fault (GState σ) :=
  let vs := remapVAddrs s.ps addr bytes
  match s.mem[d]? with
  | none => .error .nilderef
  | some m =>
    match I.allocMulti m vs.length with
    | .error e => .error e
    | .ok (ps, m') => remapLoop I vs ps { s with mem := s.mem.set d m' }

def remapAll (I : Iface σ) (ids : List Nat) : List (Nat × Nat × Nat) → GState σ → Except Fault (GState σ)
  | [], s => .ok s
  | (a, b, i) :: rest, s =>
    match remap I s a b (ids.getD i 0) with
    | .error e => .error e
    | .ok s' => remapAll I ids rest s'

/-- Driver.Distribute -/
def distribute (I : Iface σ) (s : GState σ) (addr bytes : Nat) (ids : List Nat) : Except Fault (GState σ) :=
  if ids.length = 1 then .ok s
  else if addr % s.ps ≠ 0 then .error .unaligned
  else if ids.length = 0 then .error .divzero
  else remapAll I ids (distPlan s.ps addr bytes ids.length) s

/-- driver operations of the one context -/
inductive DOp
  | sel (gpu : Nat)
  | alloc (bytes : Nat)
  | free (ptr : Nat)
  | remap (addr bytes dev : Nat)
  | dist (addr bytes : Nat) (ids : List Nat)
  | rmpage (v : Nat)
deriving Repr

def step (I : Iface σ) (s : GState σ) : DOp → Except Fault (GState σ)
  | .sel g => if g ≥ s.devs.length then .error .selRange else .ok { s with gpu := g }
  | .alloc bytes =>
    match allocate I s bytes s.gpu with
    | .error e => .error e
    | .ok (_, s') => .ok s'
  | .free ptr => free I s ptr
  | .remap a b d => remap I s a b d
  | .dist a b ids => distribute I s a b ids
  | .rmpage v => removePage I s v

def run (I : Iface σ) : GState σ → List DOp → Except Fault (GState σ)
  | s, [] => .ok s
  | s, op :: ops =>
    match step I s op with
    | .error e => .error e
    | .ok s' => run I s' ops

/-! ## instance 1: buddy devices -/

def bfault : Buddy.Fault → Fault
  | .oom => .oom | .bounds => .bounds | .noDevice => .noDevice

def liftB {α : Type} : Except Buddy.Fault α → Except Fault α
  | .ok a => .ok a
  | .error e => .error (bfault e)

/-- Device.allocatePage / allocateMultiplePages / addSinglePAddr on a `deviceBuddyMemoryState` (with the allocator's
`deviceIDByPAddr` check of every page handed out, as in `Buddy.popOne` / `Buddy.amOp`) -/
def buddyIface : Iface Buddy.State where
  allocPage := fun m => liftB (Buddy.popOne m)
  allocMulti := fun m n => liftB (Buddy.amOp m n)
  addSingle := fun m p => liftB (Buddy.addSingle m p)

/-- RegisterDevice of devices of `4096 * 2^F` bytes (one exponent per device), the first at `b` -/
def bdevsFrom : Nat → List Nat → List Dev
  | _, [] => []
  | b, F :: Fs => { kind := .gpu, base := b, size := 4096 * 2 ^ F, actual := [] } :: bdevsFrom (b + 4096 * 2 ^ F) Fs

/-- Build + RegisterGPU with the buddy allocator selected: device 0 (the CPU) starts at 4096 (`kind` is not read by
this layer), every device owns a fresh buddy state; one process, its context on device 1 -/
def binit (Fs : List Nat) : GState Buddy.State :=
  { ps := 4096, devs := bdevsFrom 4096 Fs, mem := (bdevsFrom 4096 Fs).map fun d => Buddy.init d.base d.size,
    pid := 1, cursor := 4096, mirror := [], npages := [], pt := [], gpu := 1 }

/-! ## instance 2: the FIFO free list of `deviceMemoryStateImpl` -/

def fifoIface : Iface (List Nat) where
  allocPage := fun m => match m with | p :: fs => .ok (p, fs) | [] => .error .oom
  allocMulti := fun m n =>
    if m.isEmpty then .error .oom else if m.length < n then .error .bounds else .ok (m.take n, m.drop n)
  addSingle := fun m p => .ok (m ++ [p])

end C10.Comp
