import MgpuModel.C06_Lanes
/-! # C06 — memory / LDS handlers: access direction facts, and what a read-modify-write handler needs

`seq_eq_par` (and everything derived from it) needs `LoadOrStore h`: the body performs no store, or does
not look at memory. For the implemented DS / FLAT handlers this is no longer a hypothesis about an
abstract `h`: `translate/lanebody.go` extracts, for every method of the DS / FLAT files, every LDS and
`storageAccessor` access with its DIRECTION (`Gen.Lane.memFacts`), and `memFactOK` decides that a handler
only loads or only stores, inside the guarded lane loop, through no helper that itself touches memory.

`RaceFree` is the weaker hypothesis under which the sequential loop still equals the parallel map; it is
what an atomic (`ds_add_rtn_u32`, `flat_atomic_*`) would have to satisfy. -/
namespace C06

/-- one syntactic memory access inside a handler -/
structure MemAccess where
  line : Nat
  /-- LDS (`lds[…]`) or memory (`u.storageAccessor`) -/
  isLds : Bool
  isWrite : Bool
  inLoop : Bool
deriving DecidableEq, Repr

/-- access facts of one method of the DS / FLAT files -/
structure MemFact where
  arch : String
  name : String
  accesses : List MemAccess
  /-- `u.<callee>(state, …)` calls (address helpers) -/
  callees : List String
deriving DecidableEq, Repr

inductive MemClass where
  /-- touches neither LDS nor memory (address helpers, dispatchers) -/
  | noAccess
  /-- only reads: its lane body performs no store -/
  | loadOnly
  /-- only writes: its lane body does not look at memory -/
  | storeOnly
  /-- reads and writes (an atomic / read-modify-write), or accesses outside the lane loop -/
  | mixed
deriving DecidableEq, Repr

def memClass (f : MemFact) : MemClass :=
  if f.accesses.isEmpty then .noAccess
  else if !f.accesses.all (·.inLoop) then .mixed
  else if f.accesses.all (fun a => !a.isWrite) then .loadOnly
  else if f.accesses.all (·.isWrite) then .storeOnly
  else .mixed

/-- a handler is load-only or store-only, and every helper it hands `state` to touches no memory -/
def memFactOK (all : List MemFact) (f : MemFact) : Bool :=
  memClass f != .mixed &&
  f.callees.all fun c => all.any fun g => g.arch == f.arch && g.name == c && memClass g == .noAccess

/-! ## What an atomic would need -/

/-- addresses the OTHER active lanes store to (computed on the original state) -/
def otherStoreAddrs {υ} (h : Handler υ) (u : υ) (exec : Nat → Bool) (n : Nat) (s : VState) (l : Nat) : List Nat :=
  (List.range n).flatMap fun k => if k ≠ l ∧ exec k = true then (laneOut h u s k).stores.map (·.1) else []

/-- **Race freedom**: every active lane's body gives the same result on any memory that agrees with the
    original one outside the addresses the other active lanes store to. `LoadOrStore` handlers satisfy it
    for every state; a read-modify-write handler satisfies it exactly when no active lane reads an address
    another active lane writes (e.g. pairwise distinct atomic addresses). -/
def RaceFree {υ} (h : Handler υ) (u : υ) (exec : Nat → Bool) (s : VState) : Prop :=
  ∀ l, l < 64 → exec l = true → ∀ m' : Nat → Nat,
    (∀ a, a ∉ otherStoreAddrs h u exec 64 s l → m' a = s.mem a) →
    h.f u { laneIn h s l with mem := m' } = h.f u (laneIn h s l)

/-- a model of `ds_add_rtn_u32 v2, v0, v1` (NOT implemented by either ALU): one byte cell for brevity —
    returns the old value of `mem[v0]` in `v2` and stores `old + v1` -/
def hDsAddRtn : Handler Unit :=
  { f := fun _ a =>
      let ad := a.regs 0
      { writes := [(2, a.mem ad)], bit := false, loads := [(ad, 1)], stores := [(ad, (a.mem ad + a.regs 1) % 256)] }
    mask := .none }

/-! ## Translated DS / FLAT lane bodies

`translate/lanemem.go` translates the statements inside the lane loop of every DS / FLAT handler: integer
address arithmetic with the expression translator of `alu.go`; Go byte slices as `List (BitVec 8)`;
`lds[a:b]` / `u.storageAccessor.Read/Write` as loads / stores; `var buf [N]byte` declared OUTSIDE the loop
(a staging array every lane reuses) as an input AND an output, so that "lane `i` does not see what an
earlier lane left in the staging array" is a proof obligation (`MemLaneUniform`), not an assumption. -/

abbrev Bytes := List (BitVec 8)

/-- uniform inputs of a DS / FLAT body -/
structure MemUni where
  /-- `inst.Offset0`, `inst.Offset1` (uint32) -/
  offset0 : BitVec 32
  offset1 : BitVec 32
  /-- `hasSAddr, scalarBase := u.flatPrecomputeScalarBase(state)` -/
  hasSAddr : Bool
  scalarBase : BitVec 64
  /-- `len(lds)` (Go `int`) -/
  ldsLen : BitVec 64
deriving Repr, DecidableEq

structure MemRawIn where
  i : Nat
  /-- `state.ReadOperand(inst.Addr, i)` -/
  addr : BitVec 64
  /-- the bytes of lane `i`'s `inst.Data` / `inst.Data1` registers: `ReadOperandBytes(inst.Data, i, n) = data.take n` -/
  data : Bytes
  data1 : Bytes
  /-- LDS (DS) or memory (FLAT) as the loads of this iteration see it -/
  mem : Nat → BitVec 8
  /-- the staging array (`var buf [N]byte` outside the loop) as the previous iteration left it -/
  stage : Bytes

structure MemRawOut where
  /-- bytes handed to `state.WriteOperandBytes(inst.Dst, i, ·)` -/
  dst : Option Bytes
  /-- `(address, length)` of every read of LDS / memory, in program order -/
  loads : List (Nat × Nat)
  /-- `(address, byte)` stores in program order -/
  stores : List (Nat × BitVec 8)
  stage : Bytes
  /-- a `log.Panicf` was reached (CDNA3 LDS bounds checks) -/
  fault : Bool

namespace GoB

/-- `m[a:a+n]` -/
def readMem (m : Nat → BitVec 8) (a n : Nat) : Bytes := (List.range n).map fun k => m (a + k)

/-- `copy(m[a:…], bs)` as byte stores -/
def storeBytes (a : Nat) (bs : Bytes) : List (Nat × BitVec 8) := bs.zipIdx.map fun (b, k) => (a + k, b)

/-- `copy(dst[lo:hi], src)`: `min(hi-lo, len(src))` bytes -/
def copyInto (dst : Bytes) (lo hi : Nat) (src : Bytes) : Bytes :=
  let n := min (hi - lo) src.length
  dst.take lo ++ src.take n ++ dst.drop (lo + n)

def getByte (x : Bytes) (k : Nat) : BitVec 8 := x.getD k 0#8
def setByte (x : Bytes) (k : Nat) (b : BitVec 8) : Bytes := x.set k b

/-- little-endian bytes (`binary.LittleEndian.PutUint32`, `insts.Uint32ToBytes`) -/
def le32 (v : BitVec 32) : Bytes := (List.range 4).map fun k => (v >>> (8 * k)).setWidth 8
def le64 (v : BitVec 64) : Bytes := (List.range 8).map fun k => (v >>> (8 * k)).setWidth 8

/-- `binary.LittleEndian.Uint16/32/64`, `insts.BytesToUint32/64` -/
def u16 (bs : Bytes) : BitVec 16 :=
  (getByte bs 0).setWidth 16 ||| ((getByte bs 1).setWidth 16 <<< 8)
def u32 (bs : Bytes) : BitVec 32 :=
  (List.range 4).foldl (fun acc k => acc ||| ((getByte bs k).setWidth 32 <<< (8 * k))) 0#32
def u64 (bs : Bytes) : BitVec 64 :=
  (List.range 8).foldl (fun acc k => acc ||| ((getByte bs k).setWidth 64 <<< (8 * k))) 0#64

end GoB

/-- one translated DS / FLAT handler -/
structure MemHandler where
  arch : String
  name : String
  isLds : Bool
  /-- length of the staging array declared outside the loop (0: none) -/
  stageLen : Nat
  raw : MemUni → MemRawIn → MemRawOut

/-- **Lane-uniformity of a memory body**: the result of iteration `i` does not depend on `i` nor on what
    the previous iteration left in the staging array (any `stageLen` bytes `g`), and the staging array keeps
    its length. -/
def MemLaneUniform (h : MemHandler) : Prop :=
  ∀ (u : MemUni) (r : MemRawIn) (g : Fin h.stageLen → BitVec 8),
    let o := h.raw u { r with stage := List.ofFn g }
    let o0 := h.raw u { r with i := 0, stage := List.replicate h.stageLen 0#8 }
    o.dst = o0.dst ∧ o.loads = o0.loads ∧ o.stores = o0.stores ∧ o.fault = o0.fault ∧ o.stage.length = h.stageLen

/-- a memory body only loads (no store on any input) or only stores (no read, result independent of memory) -/
def MemLoadOrStore (h : MemHandler) : Prop :=
  (∀ u r, (h.raw u r).stores = []) ∨
  (∀ u r m, (h.raw u r).loads = [] ∧ h.raw u { r with mem := m } = h.raw u r)

/-- where the operands of a memory instruction live in the lane's row -/
structure MemOps where
  /-- first register and register count of the address operand (1: 32-bit LDS address / SADDR offset, 2: 64-bit) -/
  addrReg : Nat
  addrN : Nat
  dataReg : Nat
  data1Reg : Nat
  dstReg : Nat
  uni : MemUni

def regBytes (regs : Nat → Nat) (r : Nat) (n : Nat) : Bytes :=
  (List.range (4 * n)).map fun k => BitVec.ofNat 8 (regs (r + k / 4) / 2 ^ (8 * (k % 4)))

/-- bytes → 32-bit register writes starting at register `r` (`WriteOperandBytes`) -/
def bytesToWrites (r : Nat) (bs : Bytes) : List (Nat × Nat) :=
  (List.range ((bs.length + 3) / 4)).map fun w =>
    (r + w, (List.range 4).foldl (fun acc k => acc + (bs.getD (4 * w + k) 0#8).toNat * 2 ^ (8 * k)) 0)

/-- **a translated memory handler as an instance of the generic skeleton** -/
def MemHandler.toHandler (h : MemHandler) : Handler MemOps :=
  { f := fun ops a =>
      let o := h.raw ops.uni
        { i := 0
          addr := (if ops.addrN ≤ 1 then BitVec.ofNat 64 (a.regs ops.addrReg % 4294967296)
                   else BitVec.ofNat 64 (a.regs ops.addrReg % 4294967296 + 4294967296 * (a.regs (ops.addrReg + 1) % 4294967296)))
          data := regBytes a.regs ops.dataReg 4, data1 := regBytes a.regs ops.data1Reg 4
          mem := fun k => BitVec.ofNat 8 (a.mem k)
          stage := List.replicate h.stageLen 0#8 }
      { writes := (match o.dst with | some bs => bytesToWrites ops.dstReg bs | none => [])
        bit := false
        loads := o.loads
        stores := o.stores.map fun s => (s.1, s.2.toNat) }
    mask := .none }

end C06
