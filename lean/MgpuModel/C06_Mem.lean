import MgpuModel.C06_Lanes
/-! # C06 — memory / LDS handlers: access direction facts, and what a read-modify-write handler needs

`seq_eq_par` (and everything derived from it) needs `LoadOrStore h`: the body performs no store, or does
not look at memory. For the implemented DS / FLAT handlers this is no longer a hypothesis about an
abstract `h`: `translate/lanebody.go` extracts, for every method of the DS / FLAT files, every LDS and
`storageAccessor` access with its DIRECTION (`Gen.Lane.memFacts`), and `memFactOK` decides that a handler
only loads or only stores, inside the guarded lane loop, through no helper that itself touches memory.

`RaceFree` is the weaker hypothesis under which the sequential loop still equals the parallel map; it is
what an atomic (`ds_add_rtn_u32`, `flat_atomic_*`) would have to satisfy. -/
namespace C06

/-- one syntactic memory access inside a handler -/
structure MemAccess where
  line : Nat
  /-- LDS (`lds[…]`) or memory (`u.storageAccessor`) -/
  isLds : Bool
  isWrite : Bool
  inLoop : Bool
deriving DecidableEq, Repr

/-- access facts of one method of the DS / FLAT files -/
structure MemFact where
  arch : String
  name : String
  accesses : List MemAccess
  /-- `u.<callee>(state, …)` calls (address helpers) -/
  callees : List String
deriving DecidableEq, Repr

inductive MemClass where
  /-- touches neither LDS nor memory (address helpers, dispatchers) -/
  | noAccess
  /-- only reads: its lane body performs no store -/
  | loadOnly
  /-- only writes: its lane body does not look at memory -/
  | storeOnly
  /-- reads and writes (an atomic / read-modify-write), or accesses outside the lane loop -/
  | mixed
deriving DecidableEq, Repr

def memClass (f : MemFact) : MemClass :=
  if f.accesses.isEmpty then .noAccess
  else if !f.accesses.all (·.inLoop) then .mixed
  else if f.accesses.all (fun a => !a.isWrite) then .loadOnly
  else if f.accesses.all (·.isWrite) then .storeOnly
  else .mixed

/-- a handler is load-only or store-only, and every helper it hands `state` to touches no memory -/
def memFactOK (all : List MemFact) (f : MemFact) : Bool :=
  memClass f != .mixed &&
  f.callees.all fun c => all.any fun g => g.arch == f.arch && g.name == c && memClass g == .noAccess

/-! ## What an atomic would need -/

/-- addresses the OTHER active lanes store to (computed on the original state) -/
def otherStoreAddrs {υ} (h : Handler υ) (u : υ) (exec : Nat → Bool) (n : Nat) (s : VState) (l : Nat) : List Nat :=
  (List.range n).flatMap fun k => if k ≠ l ∧ exec k = true then (laneOut h u s k).stores.map (·.1) else []

/-- **Race freedom**: every active lane's body gives the same result on any memory that agrees with the
    original one outside the addresses the other active lanes store to. `LoadOrStore` handlers satisfy it
    for every state; a read-modify-write handler satisfies it exactly when no active lane reads an address
    another active lane writes (e.g. pairwise distinct atomic addresses). -/
def RaceFree {υ} (h : Handler υ) (u : υ) (exec : Nat → Bool) (s : VState) : Prop :=
  ∀ l, l < 64 → exec l = true → ∀ m' : Nat → Nat,
    (∀ a, a ∉ otherStoreAddrs h u exec 64 s l → m' a = s.mem a) →
    h.f u { laneIn h s l with mem := m' } = h.f u (laneIn h s l)

/-- a model of `ds_add_rtn_u32 v2, v0, v1` (NOT implemented by either ALU): one byte cell for brevity —
    returns the old value of `mem[v0]` in `v2` and stores `old + v1` -/
def hDsAddRtn : Handler Unit :=
  { f := fun _ a =>
      let ad := a.regs 0
      { writes := [(2, a.mem ad)], bit := false, loads := [(ad, 1)], stores := [(ad, (a.mem ad + a.regs 1) % 256)] }
    mask := .none }

end C06
