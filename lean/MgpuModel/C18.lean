import MgpuModel.C18_Base
import MgpuModel.C18_Sys
import MgpuModel.C18_Mem
import MgpuModel.C18_Plat
/-! # C18 — line-protocol entry point

`C18_Base.lean`: the tick-exact RDMA engine, work-group distribution, owner maps (case lines
`c18 rdma|wg|own`). `C18_Sys.lean`: n engines composed through a network with arbitrary requesters
and responders (`c18 sys`). `C18_Mem.lean`: virtual memory over an arbitrary page placement
(`c18 mem`). `C18_Plat.lean`: the routing configuration of the platform builders, regenerated from
their sources (`c18 plat`, `c18 platx`). -/
namespace C18
open Util

def handle (line : String) : String :=
  match splitTrim line ";" with
  | [] => "bad"
  | first :: rest =>
    match words first with
    | "c18" :: "rdma" :: cfg => handleRdma cfg rest
    | "c18" :: "wg" :: cfg => handleWg cfg
    | "c18" :: "own" :: cfg => handleOwn cfg
    | "c18" :: "sys" :: cfg => handleSys cfg rest
    | "c18" :: "mem" :: cfg => handleMem cfg rest
    | "c18" :: "plat" :: cfg => handlePlat cfg
    | "c18" :: "platx" :: cfg => handlePlatX cfg
    | "c18" :: "runner" :: cfg => handleRunner cfg
    | _ => "bad"

end C18
