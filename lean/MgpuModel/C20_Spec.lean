import MgpuModel.C20_Sys
/-! # C20 — specification-side predicates and totals over the system model -/
namespace C20

/-- a parent/child layer with nothing left to do: nothing undispatched or unfinished, every child
    back in the free list, every port buffer empty -/
def levelIdle {α : Type} (l : Level α) : Bool :=
  l.undisp.isEmpty && l.unfin == 0 && l.free.length == l.n && l.pOut.isEmpty && l.pIn.isEmpty &&
  (List.range l.n).all (fun j => (get l.cIn j).isEmpty && get l.cOut j == 0)

/-- "the run terminated with every device, SM and sub-core idle and all kernels reported finished" -/
def finished (s : Sys) : Bool :=
  levelIdle s.l0 &&
  (List.range s.G).all (fun g => levelIdle (get s.l1 g) && (get s.gpus g).fin == 0) &&
  (List.range (s.G * s.S)).all (fun m => levelIdle (get s.l2 m) && (get s.sms m).fin == 0) &&
  (List.range (s.G * s.S * s.C)).all (fun u => (get s.subs u).rem == 0 && (get s.subs u).fin == 0)

/-! ## totals of a trace -/
def sum (l : List Nat) : Nat := l.foldr (· + ·) 0

def instsOfBlock (b : Block) : Nat := sum b
def instsOfKernel (k : Kernel) : Nat := sum (k.map instsOfBlock)
def instsOfTrace (t : List Kernel) : Nat := sum (t.map instsOfKernel)
def warpsOfKernel (k : Kernel) : Nat := sum (k.map List.length)
def warpsOfTrace (t : List Kernel) : Nat := sum (t.map warpsOfKernel)
def blocksOfTrace (t : List Kernel) : Nat := sum (t.map List.length)

/-- total weight `w` of the units that are inside one layer: undispatched, in the parent's outgoing
    buffer, or in a child's incoming buffer -/
def Level.weight {α : Type} (w : α → Nat) (l : Level α) : Nat :=
  sum (l.undisp.map w) + sum (l.pOut.map (fun p => w p.2)) + sum (l.cIn.map (fun b => sum (b.map w)))

/-- instructions that have not reached a sub-core yet -/
def pendingInsts (s : Sys) : Nat :=
  s.l0.weight instsOfKernel + sum (s.l1.map (Level.weight instsOfBlock)) + sum (s.l2.map (Level.weight id))

/-- instructions received by sub-cores (`Subcore.instsCount`, what `GetTotalInstsCount` reports) -/
def receivedInsts (s : Sys) : Nat := sum (s.subs.map (·.insts))

/-- instructions executed by sub-cores: received minus still to execute (`instsCount − unfinishedInstsCount`) -/
def executedInsts (s : Sys) : Nat := sum (s.subs.map (fun c => c.insts - c.rem))

/-- warps that have not reached an SM yet -/
def pendingWarps (s : Sys) : Nat :=
  s.l0.weight warpsOfKernel + sum (s.l1.map (Level.weight List.length))

/-- warps received by SMs (`SM.warpsCount`) -/
def receivedWarps (s : Sys) : Nat := sum (s.sms.map (·.warps))

/-- a fair round: every component that is awake handles its tick, in a fixed order -/
def stepIfAwake (a : Sys × List Ev) (e : Ev) : Sys × List Ev :=
  if awakeOf a.1 e then (step a.1 e, a.2 ++ [e]) else a

/-- `n` fair rounds; also returns the events that were handled, in order -/
def rounds : Nat → Sys × List Ev → Sys × List Ev
  | 0, a => a
  | n + 1, a => rounds n ((allEvs a.1).foldl stepIfAwake a)

end C20
