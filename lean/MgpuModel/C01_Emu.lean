import MgpuModel.Util
import MgpuModel.C04
import MgpuModel.C03S
import MgpuModel.C03V
import MgpuModel.C08
/-! # C01 — executable Lean emulator (`Emu.run`)

The composition the property rests on, as one executable function:
decode (`C04.decode`) ∘ per-instruction semantics (`C03S.execute` with the ISA table `C03S.Spec`,
`C03V.exec`) ∘ grid partition and lane ids (`C08.enumFrom`, `C08.formWfs`, `C08.decodeId`,
`C08.laneRegs`) ∘ the wavefront loop of `emu.ComputeUnit.runWG` (amd/emu/computeunit.go):
`initWfRegs`, `runWfUntilBarrier` (fuel-indexed), `resolveBarrier`, repeat.

Nothing of the other modules is copied: the decoder, the two ISA specifications and the grid model
are imported and called.  What is written here is only the glue the Go emulator has around its ALU:
operand plumbing between a decoded `C04.Inst` and the scalar specification, committing the cell
writes the vector specification returns, register initialisation and the wavefront / barrier loop.

Memory is a finite map `address ↦ byte` represented as an association list in which the FIRST binding
of an address is the current one (this is the representation `C03V.St.mem` reads through
`C03V.lookup`); a store prepends.  Addresses are the virtual addresses the kernel sees (the real
emulator translates them page by page; property C19). -/
namespace C01
namespace Emu
open C03V (St Wr Cell)

/-- finite map address ↦ byte; first binding wins (`C03V.lookup`) -/
abbrev Mem := List (Nat × Nat)

/-- the bytes of `co.Data` and the architecture that selects the decoder / ISA variants -/
structure Program where
  code : List Nat
  cdna3 : Bool

/-- what `initWfRegs` and the grid builder read from the dispatch packet and the code object -/
structure Dispatch where
  geo : C08.Geo
  /-- `pkt.KernelObject`: device address of `co.Data` -/
  kernelObject : Nat
  /-- `co.KernelCodeEntryByteOffset` -/
  entry : Nat
  /-- `pkt.KernargAddress` and the kernel-argument image the driver copied there -/
  kernargAddr : Nat
  kernarg : List Nat
  /-- `wf.PacketAddress` and the image of the dispatch packet the driver copied there -/
  packetAddr : Nat
  packet : List Nat
  privSegBuf : Bool
  dispatchPtr : Bool
  queuePtr : Bool
  kernargPtr : Bool
  dispatchID : Bool
  flatScratch : Bool
  privSegSize : Bool
  wgCountX : Bool
  wgCountY : Bool
  wgCountZ : Bool
  wgIDX : Bool
  wgIDY : Bool
  wgIDZ : Bool
  /-- code object V5 (packed work-item ids) -/
  v5 : Bool
  /-- `co.EnableVgprWorkItemID()` -/
  vgprWI : Nat

/-! ## committing the writes of the vector specification -/

/-- one cell write of `C03V.exec` applied to the state (what the Go handler does through
    `WriteOperand` / `SetVCC` / the storage accessor) -/
def applyWr (st : St) (w : Wr) : St :=
  match w.1 with
  | .s i => { st with s := st.s.setIfInBounds i w.2 }
  | .v r l => { st with v := st.v.setIfInBounds (r * 64 + l) w.2 }
  | .vcc => { st with vcc := w.2 }
  | .exec => { st with exec := w.2 }
  | .scc => { st with scc := w.2 }
  | .pc => { st with pc := w.2 }
  | .m0 => { st with m0 := w.2 }
  | .lds a => { st with lds := (a, w.2) :: st.lds }
  | .mem a => { st with mem := (a, w.2) :: st.mem }

def applyWrs (st : St) (ws : List Wr) : St := ws.foldl applyWr st

/-! ## scalar instructions: `C04.Inst` → `C03S.DInst`, state ↔ `C03S.MState` -/

def opndCode : Option C04.Opnd → Nat
  | some (.reg c _ _) => c
  | some (.int c _) => c
  | some (.float c) => c
  | some (.lit c _) => c
  | none => 0

def opndLit : Option C04.Opnd → Option Nat
  | some (.lit _ v) => some v
  | _ => none

/-- the operand fields of a decoded scalar instruction, in the shape the scalar ISA machine takes -/
def toDInst (i : C04.Inst) : C03S.DInst :=
  { fmt := i.ft, op := i.opcode, sdst := opndCode i.dst, ssrc0 := opndCode i.src0, ssrc1 := opndCode i.src1,
    simm16 := (match i.simm16 with | some (.int _ v) => v.toNat | _ => 0),
    lit := (opndLit i.src0).getD ((opndLit i.src1).getD 0) }

/-- the scalar view of a wavefront state -/
def toM (st : St) : C03S.MState :=
  { s := (List.range st.s.size).map fun i => (i, st.rs i),
    vcc := st.vcc, exec := st.exec, scc := st.scc, pc := st.pc, m0 := st.m0 }

/-- write the scalar view back -/
def ofM (st : St) (m : C03S.MState) : St :=
  { st with s := Array.ofFn (n := st.s.size) (fun i => m.sreg i.val),
            vcc := m.vcc, exec := m.exec, scc := m.scc, pc := m.pc, m0 := m.m0 }

/-- one scalar instruction: the ISA function of `C03S.Spec` run by `C03S.execute` -/
def execScalar (st : St) (i : C04.Inst) : Option St :=
  let d := toDInst i
  match C03S.specSem d with
  | none => none
  | some sem => (C03S.execute sem d (toM st)).map (ofM st)

/-! ## one instruction -/

inductive Ctl where
  | next
  | barrier
  | endpgm
deriving DecidableEq, Repr

/-- the 8 bytes `runWfUntilBarrier` fetches at `pc` (`base` = address of `co.Data`) -/
def fetch (P : Program) (base pc : Nat) : List Nat := (P.code.drop (pc - base)).take 8

/-- loop body of `runWfUntilBarrier`: fetch, decode, advance PC, then S_BARRIER / S_ENDPGM / execute.
    `st.mem` / `st.lds` hold the global memory and the work-group's LDS while a wavefront runs. -/
def step (P : Program) (base : Nat) (st : St) : Except String (St × Ctl) :=
  if st.pc < base then .error "pc-below-code" else
  let buf := fetch P base st.pc
  match C04.decode P.cdna3 buf with
  | .err => .error "decode"
  | .notImpl => .error "decode-notimpl"
  | .ok i =>
    let st1 := { st with pc := st.pc + i.size }
    if i.ft == Gen.FT_SOPP && i.opcode == 10 then .ok (st1, .barrier)
    else if i.ft == Gen.FT_SOPP && i.opcode == 1 then .ok (st1, .endpgm)
    else if i.ft ≤ Gen.FT_SOPP then
      match execScalar st1 i with
      | none => .error ("nospec:" ++ i.name)
      | some st2 => .ok (st2, .next)
    else
      match C03V.exec P.cdna3 st1 (buf.take i.size) with
      | none => .error ("nospec:" ++ i.name)
      | some (_, ws) => .ok (applyWrs st1 ws, .next)

/-- `runWfUntilBarrier`: at most `fuel` instructions -/
def runWf (P : Program) (base : Nat) : Nat → St → Except String (St × Ctl)
  | 0, _ => .error "fuel"
  | fuel + 1, st =>
    match step P base st with
    | .error e => .error e
    | .ok (st', .next) => runWf P base fuel st'
    | .ok (st', c) => .ok (st', c)

/-! ## wavefronts of a work-group -/

structure Wave where
  /-- registers; the `mem` / `lds` fields are empty while the wavefront is not running -/
  st : St
  completed : Bool := false
  atBarrier : Bool := false

/-- one wavefront until barrier / end (skipped when already completed), on the shared memory and LDS -/
def runWave (P : Program) (base fuel : Nat) (w : Wave) (m l : Mem) : Except String (Wave × Mem × Mem) :=
  if w.completed then .ok (w, m, l) else
  match runWf P base fuel { w.st with mem := m, lds := l } with
  | .error e => .error e
  | .ok (st', c) =>
    .ok ({ st := { st' with mem := [], lds := [] }, completed := c == .endpgm, atBarrier := c == .barrier },
         st'.mem, st'.lds)

/-- the inner loop of `runWG`: every wavefront in order -/
def pass (P : Program) (base fuel : Nat) : List Wave → Mem → Mem → Except String (List Wave × Mem × Mem)
  | [], m, l => .ok ([], m, l)
  | w :: ws, m, l =>
    match runWave P base fuel w m l with
    | .error e => .error e
    | .ok (w', m', l') =>
      match pass P base fuel ws m' l' with
      | .error e => .error e
      | .ok (ws', m'', l'') => .ok (w' :: ws', m'', l'')

def allDone (ws : List Wave) : Bool := ws.all (·.completed)

/-- `runWG` after `initWfs`: `for !allCompleted { run every wavefront; resolveBarrier }`; `rounds`
    bounds the number of barrier phases -/
def runWG (P : Program) (base fuel : Nat) : Nat → List Wave → Mem → Mem → Except String Mem
  | 0, _, _, _ => .error "rounds"
  | rounds + 1, ws, m, l =>
    if allDone ws then .ok m else
    match pass P base fuel ws m l with
    | .error e => .error e
    | .ok (ws', m', l') =>
      if allDone ws' then .ok m'
      else if ws'.any (fun w => !w.completed && !w.atBarrier) then .error "not-all-wavefronts-at-barrier"
      else runWG P base fuel rounds (ws'.map fun w => if w.completed then w else { w with atBarrier := false }) m' l'

/-! ## `initWfRegs` -/

def two32 : Nat := 4294967296

/-- the scalar registers `initWfRegs` fills, as (register index, dword), in source order -/
def sgprInit (D : Dispatch) (wgid : C08.Coord) : List (Nat × Nat) :=
  let g := D.geo
  let p0 := if D.privSegBuf then 4 else 0
  let l1 := if D.dispatchPtr then [(p0, D.packetAddr % two32), (p0 + 1, D.packetAddr / two32 % two32)] else []
  let p1 := if D.dispatchPtr then p0 + 2 else p0
  let p2 := if D.queuePtr then p1 + 2 else p1
  let l3 := if D.kernargPtr then [(p2, D.kernargAddr % two32), (p2 + 1, D.kernargAddr / two32 % two32)] else []
  let p3 := if D.kernargPtr then p2 + 2 else p2
  let p4 := if D.dispatchID then p3 + 2 else p3
  let p5 := if D.flatScratch then p4 + 2 else p4
  let p6 := if D.privSegSize then p5 + 1 else p5
  let l7 := if D.wgCountX then [(p6, (g.gx + g.wx - 1) / g.wx % two32)] else []
  let p7 := if D.wgCountX then p6 + 1 else p6
  let l8 := if D.wgCountY then [(p7, (g.gy + g.wy - 1) / g.wy % two32)] else []
  let p8 := if D.wgCountY then p7 + 1 else p7
  let l9 := if D.wgCountZ then [(p8, (g.gz + g.wz - 1) / g.wz % two32)] else []
  let p9 := if D.wgCountZ then p8 + 1 else p8
  let l10 := if D.wgIDX then [(p9, wgid.1 % two32)] else []
  let p10 := if D.wgIDX then p9 + 1 else p9
  let l11 := if D.wgIDY then [(p10, wgid.2.1 % two32)] else []
  let p11 := if D.wgIDY then p10 + 1 else p10
  let l12 := if D.wgIDZ then [(p11, wgid.2.2 % two32)] else []
  l1 ++ l3 ++ l7 ++ l8 ++ l9 ++ l10 ++ l11 ++ l12

/-- v0 / v1 / v2 of lane `lane` of the wavefront whose first work-item has flattened id `first` -/
def vgprInit (D : Dispatch) (first r lane : Nat) : Nat :=
  let c := C08.laneRegs D.v5 D.vgprWI (C08.decodeId D.geo.wx D.geo.wy (first + lane))
  if r == 0 then c.1 else if r == 1 then c.2.1 else if r == 2 then c.2.2 else 0

/-- `NewWavefront` + `initWfRegs` -/
def initWave (D : Dispatch) (wg : C08.WG) (wf : C08.Wf) : Wave :=
  { st :=
      { s := (sgprInit D wg.id).foldl (fun a p => a.setIfInBounds p.1 p.2) (Array.replicate 128 0),
        v := Array.ofFn (n := 256 * 64) fun k => if k.val < 3 * 64 then vgprInit D wf.first (k.val / 64) (k.val % 64) else 0,
        vcc := 0, exec := wf.mask, scc := 0, m0 := 0, pc := D.kernelObject + D.entry, lds := [], mem := [] } }

/-- the work-groups of the dispatch in the order the grid builder produces them -/
def wgList (g : C08.Geo) : List C08.WG := (C08.enumFrom g (fun _ => true) (g.total + 1) ⟨0, 0, 0⟩).1

/-- `initWfs`: the wavefronts of a work-group -/
def wavesOf (D : Dispatch) (wg : C08.WG) : List Wave :=
  (C08.formWfs D.geo.wx D.geo.wy (C08.spawn wg.sz)).map (initWave D wg)

/-- the driver's host-to-device copy of a byte image -/
def install (a : Nat) (bs : List Nat) (m : Mem) : Mem := (bs.zipIdx.map fun p => (a + p.2, p.1)) ++ m

/-- the whole dispatch; work-groups one after the other (a work-group runs to completion inside one
    `runWG` call), fresh zero LDS per work-group -/
def runE (P : Program) (D : Dispatch) (fuel : Nat) (m : Mem) : Except String Mem :=
  (wgList D.geo).foldlM (fun m wg => runWG P D.kernelObject fuel fuel (wavesOf D wg) m [])
    (install D.packetAddr D.packet (install D.kernargAddr D.kernarg m))

/-- instruction / barrier-phase budget of `run` -/
def defaultFuel : Nat := 1000000

/-- `Emu.run`: final memory; the initial memory when the emulator faults -/
def run (P : Program) (D : Dispatch) (m : Mem) : Mem :=
  match runE P D defaultFuel m with
  | .ok m' => m'
  | .error _ => m


/-! ## the driver's `copyKernel`

The byte image the loader extracts from `amd/driver/memcopy.hsaco` (symbol `copyKernel`, 27 GCN3
instructions, 140 bytes).  The correspondence case `c01 copycode` compares it with the bytes the real
`insts.LoadKernelCodeObjectFromBytes` returns on every run; the proofs in `MgpuProofs/C01Copy*.lean`
are about this literal. -/
def copyKernelCode : List Nat := [
  0x02,0x00,0x02,0xc0,0x04,0x00,0x00,0x00, 0x7f,0x00,0x8c,0xbf, 0x00,0xff,0x00,0x86,0xff,0xff,0x00,0x00,
  0x08,0x00,0x08,0x92, 0x83,0x00,0x02,0xc0,0x10,0x00,0x00,0x00, 0x03,0x00,0x06,0xc0,0x18,0x00,0x00,0x00,
  0x08,0x00,0x00,0x32, 0x7f,0x00,0x8c,0xbf, 0x00,0x00,0x00,0x32, 0x02,0x00,0x88,0x7d, 0x6a,0x20,0x80,0xbe,
  0x12,0x00,0x88,0xbf, 0x03,0x00,0x0a,0xc0,0x00,0x00,0x00,0x00, 0x80,0x02,0x02,0x7e, 0x00,0x03,0x04,0x7e,
  0x00,0x00,0x91,0xd2,0x9e,0x02,0x02,0x00, 0x7f,0x00,0x8c,0xbf, 0x01,0x02,0x06,0x7e, 0x00,0x00,0x04,0x32,
  0x03,0x03,0x06,0x38, 0x00,0x00,0x50,0xdc,0x02,0x00,0x00,0x02, 0x03,0x02,0x06,0x7e, 0x02,0x00,0x00,0x32,
  0x03,0x03,0x02,0x38, 0x70,0x00,0x8c,0xbf, 0x00,0x00,0x70,0xdc,0x00,0x02,0x00,0x00, 0x00,0x00,0x81,0xbf]

/-! ## line protocol

`c01 copycode` → the hex of `copyKernelCode`.
`c01 emu arch=gcn3|cdna3 code=<hex> co=<hexaddr> entry=N grid=a,b,c wg=a,b,c flags=<13 x 0/1> v5=0|1 wi=N
 ka=<hexaddr>:<hex> pkt=<hexaddr>:<hex> mem=<hexaddr>:<hex>/… out=<hexaddr>:<len>/…`
→ the bytes of the `out` regions after the run, `<hex>/<hex>…`, or `fault:<reason>`.
`flags` in the order of `initWfRegs`: PrivateSegmentBuffer DispatchPtr QueuePtr KernargSegmentPtr DispatchID
FlatScratchInit PrivateSegmentSize GridWorkgroupCountX/Y/Z WorkGroupIDX/Y/Z. -/
open Util

def parseRegion (s : String) : Option (Nat × List Nat) :=
  match s.splitOn ":" with
  | [a, h] => do
    let a ← hexNat? a
    let bs ← if h == "" || h == "-" then some [] else hexBytes? h
    pure (a, bs)
  | _ => none

def parseOut (s : String) : Option (Nat × Nat) :=
  match s.splitOn ":" with
  | [a, n] => do
    let a ← hexNat? a
    let n ← n.toNat?
    pure (a, n)
  | _ => none

def parseList {α : Type} (f : String → Option α) (s : String) : Option (List α) :=
  if s == "" || s == "-" then some [] else (s.splitOn "/").mapM f

def readBytes (m : Mem) (a n : Nat) : List Nat := (List.range n).map fun i => C03V.lookup m (a + i)

def handle (line : String) : String :=
  let t := words line
  if t == ["c01", "copycode"] then bytesHex copyKernelCode else
  match kv? t "arch", (kv? t "code").bind hexBytes?, kvHex? t "co", kvNat? t "entry",
        (kv? t "grid").bind natList?, (kv? t "wg").bind natList?, kv? t "flags", kvNat? t "v5", kvNat? t "wi",
        (kv? t "ka").bind parseRegion, (kv? t "pkt").bind parseRegion,
        (kv? t "mem").bind (parseList parseRegion), (kv? t "out").bind (parseList parseOut) with
  | some arch, some code, some co, some entry, some [gx, gy, gz], some [wx, wy, wz], some flags, some v5, some wi,
    some ka, some pkt, some mem, some out =>
    let f := fun (k : Nat) => flags.toList.getD k '0' == '1'
    let D : Dispatch :=
      { geo := ⟨gx, gy, gz, wx, wy, wz⟩, kernelObject := co, entry := entry,
        kernargAddr := ka.1, kernarg := ka.2, packetAddr := pkt.1, packet := pkt.2,
        privSegBuf := f 0, dispatchPtr := f 1, queuePtr := f 2, kernargPtr := f 3, dispatchID := f 4,
        flatScratch := f 5, privSegSize := f 6, wgCountX := f 7, wgCountY := f 8, wgCountZ := f 9,
        wgIDX := f 10, wgIDY := f 11, wgIDZ := f 12, v5 := v5 == 1, vgprWI := wi }
    let m0 : Mem := mem.foldl (fun m r => install r.1 r.2 m) []
    match runE ⟨code, arch == "cdna3"⟩ D defaultFuel m0 with
    | .error e => "fault:" ++ e
    | .ok m' =>
      joinWith "/" (out.map fun r => bytesHex (readBytes m' r.1 r.2))
  | _, _, _, _, _, _, _, _, _, _, _, _, _ => "bad"

end Emu
end C01
