import MgpuModel.Util
/-!
# C10 (extension) — the buddy allocator `deviceBuddyMemoryState`

Transcription, branch by branch, of
`amd/driver/internal/devicebuddymemstate.go` + `buddystructures.go`, seen through
`Device.allocatePage` / `Device.allocateMultiplePages` (`mustHaveSpaceLeft`) and the allocator's
`deviceIDByPAddr` check on every page it hands out.

* `freeList []list.List` = `free : List (List Nat)`, index = level (level 0 = the whole storage), FIFO
  (`PushBack` / `Remove(Front())`); `removeByValue` removes the first occurrence.
* the bit fields `bfBlockSplit` / `bfMergeList` = the lists of set indices; `updateBit` is XOR (`toggle`);
  `newBitField(1<<order)` allocates `2^order/64+1` words, so an index `≥ nbits = 64*(2^order/64+1)` is a Go
  index-out-of-range panic (`Fault.bounds`).
* `blockTracking map[uint64]*blockTracker`: trackers are shared pointers = tracker ids (index into `trk`),
  `track` maps a page to its tracker id (assignment overrides, `delete` removes).
* Go panics are `Fault`s: `not enough memory available` / `out of memory` = `oom`, slice index = `bounds`,
  `device not found` (a page outside every device, `deviceIDByPAddr`) = `noDevice`.
* the code hard-codes 4096 and 12 in `allocateMultiplePages`; the page size of the device is fixed to 2^12
  here as well (the only value the driver is built with in the harness).
* `uint64`: the only subtractions are `ptr - initialAddress` and `addr - sizeOfLevel` (`usub`, wraps).
  Additions are assumed not to overflow (addresses < 2^63).

Core Lean only.
-/
namespace C10.Buddy
open Util

inductive Fault
  | oom | bounds | noDevice
deriving DecidableEq, Repr

def Fault.str : Fault → String
  | .oom => "fault:oom" | .bounds => "fault:bounds" | .noDevice => "fault:no_device"

structure State where
  /-- initialAddress -/
  base : Nat
  /-- storageSize -/
  size : Nat
  /-- freeList, index = level -/
  free : List (List Nat)
  /-- number of addressable bits of each bit field: 64 * (2^order / 64 + 1) -/
  nbits : Nat
  /-- set bits of bfBlockSplit -/
  split : List Nat
  /-- set bits of bfMergeList -/
  merge : List Nat
  /-- blockTracking: page ↦ tracker id -/
  track : List (Nat × Nat)
  /-- the trackers: id ↦ (initialAddr, numOfPages) -/
  trk : List (Nat × Nat)
deriving DecidableEq, Repr

/-! ## small helpers -/

/-- the `for order = 12; (1 << order) < bytes; order++ {}` loops, as `order - 12`:
the least `k` with `bytes ≤ 4096 * 2^k` (fuel = `bytes`, always enough) -/
def ordGo (bytes : Nat) : Nat → Nat → Nat
  | 0, k => k
  | f + 1, k => if bytes ≤ 4096 * 2 ^ k then k else ordGo bytes f (k + 1)

def ordOf (bytes : Nat) : Nat := ordGo bytes bytes 0

/-- uint64 subtraction -/
def usub (a b : Nat) : Nat := if b ≤ a then a - b else 18446744073709551616 - (b - a)

/-- freeList[l] -/
def lvl (free : List (List Nat)) (l : Nat) : List Nat := free.getD l []

def setLvl (free : List (List Nat)) (l : Nat) (x : List Nat) : List (List Nat) := free.set l x

/-- sizeOfLevel -/
def szl (size l : Nat) : Nat := size / 2 ^ l

/-- indexInLevelOf -/
def idxIn (base size p l : Nat) : Nat := usub p base / szl size l

/-- indexOfBlock -/
def indexOfBlock (base size p l : Nat) : Nat := 2 ^ l + idxIn base size p l - 1

/-- buddyOf -/
def buddyOf (base size a l : Nat) : Nat :=
  if idxIn base size a l % 2 = 0 then a + szl size l else usub a (szl size l)

/-- bitField.updateBit on the set-of-indices representation -/
def toggle (bits : List Nat) (i : Nat) : List Nat := if i ∈ bits then bits.erase i else i :: bits

/-- updateSplitBlockBitField -/
def flipSplit (s : State) (i : Nat) : Except Fault State :=
  if i < s.nbits then .ok { s with split := toggle s.split i } else .error .bounds

/-- updateMergeListBitField -/
def flipMerge (s : State) (i : Nat) : Except Fault State :=
  if i < s.nbits then .ok { s with merge := toggle s.merge i } else .error .bounds

/-- freeList[l].PushBack(a) -/
def push (s : State) (l a : Nat) : State := { s with free := setLvl s.free l (lvl s.free l ++ [a]) }

/-! ## setStorageSize, then setInitialAddress (Device.SetTotalMemSize, then RegisterDevice) -/

def init (base size : Nat) : State :=
  let order := ordOf size
  { base := base, size := size,
    free := [base] :: List.replicate order [],
    nbits := 64 * (2 ^ order / 64 + 1),
    split := [], merge := [], track := [], trk := [] }

/-! ## allocateMultiplePages -/

/-- the search loop `for { if i < 0 {panic}; if freeList[i].Len() != 0 {break}; i-- }` from `i` downwards -/
def findLevel (free : List (List Nat)) : Nat → Option Nat
  | 0 => if lvl free 0 ≠ [] then some 0 else none
  | i + 1 => if lvl free (i + 1) ≠ [] then some (i + 1) else findLevel free i

/-- the split loop `for i < level { split-bit; merge-bit; i++; freeList[i].PushBack(buddyOf(block, i)) }`,
`k = level - i` iterations left -/
def splitLoop (block : Nat) : Nat → Nat → State → Except Fault State
  | 0, _, s => .ok s
  | k + 1, i, s =>
    match flipSplit s (indexOfBlock s.base s.size block i) with
    | .error e => .error e
    | .ok s1 =>
      match flipMerge s1 (indexOfBlock s.base s.size block i) with
      | .error e => .error e
      | .ok s2 => splitLoop block k (i + 1) (push s2 (i + 1) (buddyOf s.base s.size block (i + 1)))

/-- the pages `block, block+4096, …` (n of them) -/
def pagesFrom (block : Nat) : Nat → List Nat
  | 0 => []
  | n + 1 => block :: pagesFrom (block + 4096) n

/-- blockTracking[p] = tracker id -/
def setTrack (t : List (Nat × Nat)) (p id : Nat) : List (Nat × Nat) := (p, id) :: t.filter (fun e => e.1 != p)

/-- the body of `allocateMultiplePages` below its zero-page guard (before the repair of the zero-page leak this
was the whole function: for `n = 0` it takes a one-page block and records a tracker without pages) -/
def allocMultiPos (s : State) (n : Nat) : Except Fault (List Nat × State) :=
  let fl := s.free.length - 1
  let ord := ordOf (n * 4096)
  if fl < ord then .error .oom else          -- level < 0: the search panics at once
  let level := fl - ord
  match findLevel s.free level with
  | none => .error .oom                       -- "not enough memory available"
  | some i =>
    let block := (lvl s.free i).headD 0
    let s0 : State := { s with free := setLvl s.free i (lvl s.free i).tail }
    -- repaired: the parent's merge bit is toggled whenever a block leaves a free list (`if i > 0`);
    -- before the repair only when no split followed (`if i == level && i > 0`): `allocMultiOld`
    match (if 0 < i then flipMerge s0 (indexOfBlock s.base s.size block (i - 1)) else .ok s0) with
    | .error e => .error e
    | .ok s1 =>
      match splitLoop block (level - i) i s1 with
      | .error e => .error e
      | .ok s2 =>
        let pages := pagesFrom block n
        let id := s2.trk.length
        .ok (pages, { s2 with trk := s2.trk ++ [(block, n)],
                              track := pages.foldl (fun t p => setTrack t p id) s2.track })

/-- `deviceBuddyMemoryState.allocateMultiplePages` (repaired): `if numPages <= 0 { return nil }` — a request
for no page takes no block and records no tracker -/
def allocMulti (s : State) (n : Nat) : Except Fault (List Nat × State) :=
  if n = 0 then .ok ([], s) else allocMultiPos s n

/-! ## addSinglePAddr / freeBlock -/

/-- levelOfBlock: `n` from `len(freeList)-1` downwards; `checkBit` may index out of range -/
def levelOf (s : State) (addr : Nat) : Nat → Except Fault Nat
  | 0 => .ok 0
  | n + 1 =>
    let ix := indexOfBlock s.base s.size addr n
    if ix < s.nbits then (if ix ∈ s.split then .ok (n + 1) else levelOf s addr n) else .error .bounds

/-- the loop of freeBlock, from `level` upwards (towards level 0) -/
def freeLoop : Nat → Nat → State → Except Fault State
  | 0, addr, s => .ok (push s 0 addr)
  | lv + 1, addr, s =>
    let ix := indexOfBlock s.base s.size addr lv
    match flipMerge s ix with
    | .error e => .error e
    | .ok s1 =>
      if ix ∈ s1.merge then .ok (push s1 (lv + 1) addr)       -- blockOrBuddyIsAllocated
      else
        match flipSplit s1 ix with
        | .error e => .error e
        | .ok s2 =>
          let buddy := buddyOf s.base s.size addr (lv + 1)
          let s3 : State := { s2 with free := setLvl s2.free (lv + 1) ((lvl s2.free (lv + 1)).erase buddy) }
          freeLoop lv (if buddy < addr then buddy else addr) s3

def freeBlock (s : State) (addr : Nat) : Except Fault State :=
  match levelOf s addr (s.free.length - 1) with
  | .error e => .error e
  | .ok level => freeLoop level addr s

def addSingle (s : State) (addr : Nat) : Except Fault State :=
  match s.track.find? (fun e => e.1 == addr) with
  | none => .ok s
  | some (_, id) =>
    let s1 : State := { s with track := s.track.filter (fun e => e.1 != addr) }
    match s1.trk[id]? with
    | none => .ok s1
    | some (ia, num) =>
      -- removePage: numOfPages--; return numOfPages == 0
      let s2 : State := { s1 with trk := s1.trk.set id (ia, num - 1) }
      if num = 1 then freeBlock s2 ia else .ok s2

/-! ## device level: Device.allocatePage / allocateMultiplePages, the allocator's device check -/

/-- noAvailablePAddrs -/
def noAvail (s : State) : Bool := s.free.all (·.isEmpty)

/-- isPAddrOnDevice for this device (the other devices lie below `base`) -/
def inDev (s : State) (p : Nat) : Bool := decide (s.base ≤ p) && decide (p < s.base + s.size)

/-- Device.allocatePage + deviceIDByPAddr -/
def popOne (s : State) : Except Fault (Nat × State) :=
  if noAvail s then .error .oom else
  match allocMulti s 1 with
  | .error e => .error e
  | .ok (ps, s') =>
    let p := ps.headD 0
    if inDev s' p then .ok (p, s') else .error .noDevice

/-- memoryAllocatorImpl.allocatePages: k × allocatePage -/
def popN : Nat → State → Except Fault (List Nat × State)
  | 0, s => .ok ([], s)
  | k + 1, s =>
    match popOne s with
    | .error e => .error e
    | .ok (p, s1) =>
      match popN k s1 with
      | .error e => .error e
      | .ok (ps, s2) => .ok (p :: ps, s2)

/-- Device.allocateMultiplePages + deviceIDByPAddr of every page (Remap of n pages) -/
def amOp (s : State) (n : Nat) : Except Fault (List Nat × State) :=
  if noAvail s then .error .oom else
  match allocMulti s n with
  | .error e => .error e
  | .ok (ps, s') => if ps.all (inDev s') then .ok (ps, s') else .error .noDevice

/-- Free / RemovePage: addSinglePAddr of each page in order -/
def addAll : List Nat → State → Except Fault State
  | [], s => .ok s
  | p :: ps, s =>
    match addSingle s p with
    | .error e => .error e
    | .ok s1 => addAll ps s1

inductive Op
  | pop (k : Nat)
  | am (n : Nat)
  | add (ps : List Nat)
deriving DecidableEq, Repr

/-- one device-level operation: the pages it returns and the new state -/
def step (s : State) : Op → Except Fault (List Nat × State)
  | .pop k => popN k s
  | .am n => amOp s n
  | .add ps =>
    match addAll ps s with
    | .error e => .error e
    | .ok s' => .ok ([], s')

/-- the pages handed out by the successful prefix of a history (in order) and the state after it -/
def runOut : State → List Op → List Nat × State
  | s, [] => ([], s)
  | s, op :: ops =>
    match step s op with
    | .error _ => ([], s)
    | .ok (ps, s') => ((ps ++ (runOut s' ops).1), (runOut s' ops).2)

/-- the first fault of a history, if any -/
def runFault : State → List Op → Option Fault
  | _, [] => none
  | s, op :: ops =>
    match step s op with
    | .error e => some e
    | .ok (_, s') => runFault s' ops

/-- allocation requests (`pop`, `am`), as opposed to `add` -/
def Op.isAlloc : Op → Bool
  | .add _ => false
  | _ => true

/-- result of `runLive` -/
structure LiveRun where
  /-- every `add` returned only pages that were live, each once -/
  legal : Bool
  /-- pages handed out and not yet given back -/
  live : List Nat
  st : State

/-- histories that also return pages: `live` = pages handed out and not yet given back; an `add` of a page that
is not live (or twice the same page) makes the history illegal. A fault ends the history. -/
def runLive : State → List Nat → List Op → LiveRun
  | s, live, [] => ⟨true, live, s⟩
  | s, live, op :: ops =>
    match op with
    | .add ps =>
      if ps.Nodup ∧ ∀ p ∈ ps, p ∈ live then
        match step s op with
        | .error _ => ⟨true, live, s⟩
        | .ok (_, s') => runLive s' (live.filter (fun p => !ps.contains p)) ops
      else ⟨false, live, s⟩
    | _ =>
      match step s op with
      | .error _ => ⟨true, live, s⟩
      | .ok (ps, s') => runLive s' (live ++ ps) ops

/-- page `p` lies inside the free block `(a, l)` -/
def inBlock (size a l p : Nat) : Prop := a ≤ p ∧ p < a + szl size l

instance (size a l p : Nat) : Decidable (inBlock size a l p) := by unfold inBlock; infer_instance

/-- no live page lies inside a block of a free list -/
def NoLiveInFree (s : State) (live : List Nat) : Prop :=
  ∀ p ∈ live, ∀ l, l < s.free.length → ∀ a ∈ lvl s.free l, ¬ inBlock s.size a l p

instance (s : State) (live : List Nat) : Decidable (NoLiveInFree s live) := by unfold NoLiveInFree; infer_instance

/-- no block is listed twice and the free blocks `[a, a + size/2^l)` are pairwise disjoint -/
def FreeDisjoint (s : State) : Prop :=
  (∀ l, l < s.free.length → (lvl s.free l).Nodup) ∧
  ∀ l, l < s.free.length → ∀ l', l' < s.free.length → ∀ a ∈ lvl s.free l, ∀ a' ∈ lvl s.free l',
    (l ≠ l' ∨ a ≠ a') → a + szl s.size l ≤ a' ∨ a' + szl s.size l' ≤ a

instance (s : State) : Decidable (FreeDisjoint s) := by unfold FreeDisjoint; infer_instance

/-! ## the code before the repair (`if i == level && i > 0`): kept for the `_before_fix` witnesses -/

def allocMultiOld (s : State) (n : Nat) : Except Fault (List Nat × State) :=
  let fl := s.free.length - 1
  let ord := ordOf (n * 4096)
  if fl < ord then .error .oom else
  let level := fl - ord
  match findLevel s.free level with
  | none => .error .oom
  | some i =>
    let block := (lvl s.free i).headD 0
    let s0 : State := { s with free := setLvl s.free i (lvl s.free i).tail }
    match (if i = level ∧ 0 < i then flipMerge s0 (indexOfBlock s.base s.size block (i - 1)) else .ok s0) with
    | .error e => .error e
    | .ok s1 =>
      match splitLoop block (level - i) i s1 with
      | .error e => .error e
      | .ok s2 =>
        let pages := pagesFrom block n
        let id := s2.trk.length
        .ok (pages, { s2 with trk := s2.trk ++ [(block, n)],
                              track := pages.foldl (fun t p => setTrack t p id) s2.track })

def popOneOld (s : State) : Except Fault (Nat × State) :=
  if noAvail s then .error .oom else
  match allocMultiOld s 1 with
  | .error e => .error e
  | .ok (ps, s') =>
    let p := ps.headD 0
    if inDev s' p then .ok (p, s') else .error .noDevice

def popNOld : Nat → State → Except Fault (List Nat × State)
  | 0, s => .ok ([], s)
  | k + 1, s =>
    match popOneOld s with
    | .error e => .error e
    | .ok (p, s1) =>
      match popNOld k s1 with
      | .error e => .error e
      | .ok (ps, s2) => .ok (p :: ps, s2)

def amOpOld (s : State) (n : Nat) : Except Fault (List Nat × State) :=
  if noAvail s then .error .oom else
  match allocMultiOld s n with
  | .error e => .error e
  | .ok (ps, s') => if ps.all (inDev s') then .ok (ps, s') else .error .noDevice

def stepOld (s : State) : Op → Except Fault (List Nat × State)
  | .pop k => popNOld k s
  | .am n => amOpOld s n
  | .add ps =>
    match addAll ps s with
    | .error e => .error e
    | .ok s' => .ok ([], s')

def runLiveOld : State → List Nat → List Op → LiveRun
  | s, live, [] => ⟨true, live, s⟩
  | s, live, op :: ops =>
    match op with
    | .add ps =>
      if ps.Nodup ∧ ∀ p ∈ ps, p ∈ live then
        match stepOld s op with
        | .error _ => ⟨true, live, s⟩
        | .ok (_, s') => runLiveOld s' (live.filter (fun p => !ps.contains p)) ops
      else ⟨false, live, s⟩
    | _ =>
      match stepOld s op with
      | .error _ => ⟨true, live, s⟩
      | .ok (ps, s') => runLiveOld s' (live ++ ps) ops

/-! ## the code before the repair of the zero-page leak (`allocateMultiplePages` without its `numPages <= 0`
guard): kept for the `_before_fix` witness -/

def amOpNoGuard (s : State) (n : Nat) : Except Fault (List Nat × State) :=
  if noAvail s then .error .oom else
  match allocMultiPos s n with
  | .error e => .error e
  | .ok (ps, s') => if ps.all (inDev s') then .ok (ps, s') else .error .noDevice

def stepNoGuard (s : State) : Op → Except Fault (List Nat × State)
  | .am n => amOpNoGuard s n
  | op => step s op

def runLiveNoGuard : State → List Nat → List Op → LiveRun
  | s, live, [] => ⟨true, live, s⟩
  | s, live, op :: ops =>
    match op with
    | .add ps =>
      if ps.Nodup ∧ ∀ p ∈ ps, p ∈ live then
        match stepNoGuard s op with
        | .error _ => ⟨true, live, s⟩
        | .ok (_, s') => runLiveNoGuard s' (live.filter (fun p => !ps.contains p)) ops
      else ⟨false, live, s⟩
    | _ =>
      match stepNoGuard s op with
      | .error _ => ⟨true, live, s⟩
      | .ok (ps, s') => runLiveNoGuard s' (live ++ ps) ops

/-! ## line protocol

`c10 buddy base=<hex> size=<hex> v=<0|1> ; pop <k> ; am <n> ; add <hex>,<hex>,… ; …`
answer per op: `=<hex>,<hex>,…` (pages returned) or `ok` (add), then the free-block dump
`0:<hex>,… 1:… …` (verbose) or `#<fnv of the dump>`; the first fault (`fault:oom|bounds|no_device`) ends
the history. -/

def dump (s : State) : String :=
  joinWith " " ((List.range s.free.length).map fun l => s!"{l}:" ++ joinWith "," ((lvl s.free l).map toHex))

def fnvStr (s : String) : Nat :=
  s.foldl (fun h c => ((h ^^^ c.toNat) * 1099511628211) % 18446744073709551616) 14695981039346656037

def hexList? (s : String) : Option (List Nat) :=
  if s = "" || s = "-" then some [] else (s.splitOn ",").mapM hexNat?

def parseOp (t : List String) : Option Op :=
  match t with
  | ["pop", k] => k.toNat?.map .pop
  | ["am", n] => n.toNat?.map .am
  | ["add", ps] => (hexList? ps).map .add
  | _ => none

/-- `amadd n p,p,…`: what ONE repaired `Remap` of `n` pages does to the device it remaps onto when the replaced
pages `p,…` live on the same device — `allocateMultiplePages(n)`, then `addSinglePAddr` of every replaced page;
one answer (the pages handed out, the free blocks after both) -/
def amAdd (s : State) (n : Nat) (ps : List Nat) : Except Fault (List Nat × State) :=
  match step s (.am n) with
  | .error e => .error e
  | .ok (out, s1) =>
    match step s1 (.add ps) with
    | .error e => .error e
    | .ok (_, s2) => .ok (out, s2)

def runTrace (verbose : Bool) : State → List (List String) → List String → List String
  | _, [], acc => acc.reverse
  | s, t :: ts, acc =>
    let res : Option (Except Fault (List Nat × State) × Bool) :=
      match t with
      | ["amadd", n, ps] =>
        match n.toNat?, hexList? ps with
        | some n, some ps => some (amAdd s n ps, false)
        | _, _ => none
      | _ =>
        match parseOp t with
        | none => none
        | some op => some (step s op, match op with | .add _ => true | _ => false)
    match res with
    | none => ("bad-op" :: acc).reverse
    | some (.error e, _) => (e.str :: acc).reverse
    | some (.ok (ps, s'), isAdd) =>
      let r := if isAdd then "ok" else "=" ++ joinWith "," (ps.map toHex)
      let d := dump s'
      let o := if verbose then r ++ " " ++ d else r ++ " #" ++ toHex (fnvStr d)
      runTrace verbose s' ts (o :: acc)

def handle (line : String) : String :=
  match splitTrim line ";" with
  | [] => "bad"
  | first :: rest =>
    let t := words first
    match kvHex? t "base", kvHex? t "size", kvNat? t "v" with
    | some base, some size, some v =>
      if size = 0 then "bad" else
      joinWith " ; " (runTrace (v == 1) (init base size) (rest.map words) [])
    | _, _, _ => "bad"

end C10.Buddy
