import MgpuModel.C03S_Types
/-! # C03 (scalar part) — the ISA, transcribed independently of the Go code

One function per opcode, written from the instruction descriptions of the GCN3 ("Vega"/VI
numbering used by the shared decoder) and CDNA3 manuals (chapters "SOP2/SOPK/SOP1/SOPC/SOPP
instructions"): 32-bit operations use the low 32 bits of their operands and produce 32 bits,
`SCC` is written exactly where the manual says so.  The manuals define all of these opcodes
identically for both architectures, so there is one specification.

`MgpuProofs/C03SMeaning.lean` proves the *meaning lemmas* (arithmetic readings over `Nat`/`Int`)
of these definitions so that they are not merely a second copy of the code. -/
namespace C03S
namespace Spec

def lo (x : BitVec 64) : BitVec 32 := x.setWidth 32
def w32 (d : BitVec 32) : BitVec 64 := d.setWidth 64
def bit (b : Bool) : BitVec 8 := if b then 1#8 else 0#8
/-- the SCC bit as a carry -/
def cin (i : ScalarIn) : Nat := if i.scc == 0#8 then 0 else 1
/-- SIMM16 sign-extended -/
def imm32 (i : ScalarIn) : BitVec 32 := (i.simm16.setWidth 16).signExtend 32
def imm64 (i : ScalarIn) : BitVec 64 := (i.simm16.setWidth 16).signExtend 64

def ret32 (d : BitVec 32) (scc : Bool) : ScalarOut :=
  { dst := some (w32 d), scc := some (bit scc), vcc := none, exec := none, pc := none }
def ret32n (d : BitVec 32) : ScalarOut :=
  { dst := some (w32 d), scc := none, vcc := none, exec := none, pc := none }
def ret64 (d : BitVec 64) (scc : Bool) : ScalarOut :=
  { dst := some d, scc := some (bit scc), vcc := none, exec := none, pc := none }
def ret64n (d : BitVec 64) : ScalarOut :=
  { dst := some d, scc := none, vcc := none, exec := none, pc := none }
def retScc (scc : Bool) : ScalarOut :=
  { dst := none, scc := some (bit scc), vcc := none, exec := none, pc := none }
def retPc (pc : BitVec 64) : ScalarOut :=
  { dst := none, scc := none, vcc := none, exec := none, pc := some pc }
def nothing : ScalarOut := ScalarOut.nothing

/-! ## SOP2 -/

/-- D = S0 + S1; SCC = unsigned carry out -/
def s_add_u32 (i : ScalarIn) : ScalarOut :=
  let a := lo i.src0; let b := lo i.src1
  ret32 (a + b) (decide (a.toNat + b.toNat ≥ 4294967296))
/-- D = S0 − S1; SCC = unsigned borrow -/
def s_sub_u32 (i : ScalarIn) : ScalarOut :=
  let a := lo i.src0; let b := lo i.src1
  ret32 (a - b) (decide (a.toNat < b.toNat))
/-- the exact signed sum / difference does not fit 32 bits -/
def addOvf (a b : BitVec 32) : Bool := decide (a.toInt + b.toInt ≥ 2147483648 ∨ a.toInt + b.toInt < -2147483648)
def subOvf (a b : BitVec 32) : Bool := decide (a.toInt - b.toInt ≥ 2147483648 ∨ a.toInt - b.toInt < -2147483648)
/-- D = S0 + S1; SCC = signed overflow -/
def s_add_i32 (i : ScalarIn) : ScalarOut :=
  let a := lo i.src0; let b := lo i.src1
  ret32 (a + b) (addOvf a b)
/-- D = S0 − S1; SCC = signed overflow -/
def s_sub_i32 (i : ScalarIn) : ScalarOut :=
  let a := lo i.src0; let b := lo i.src1
  ret32 (a - b) (subOvf a b)
/-- D = S0 + S1 + SCC; SCC = unsigned carry out -/
def s_addc_u32 (i : ScalarIn) : ScalarOut :=
  let a := lo i.src0; let b := lo i.src1
  ret32 (a + b + BitVec.ofNat 32 (cin i)) (decide (a.toNat + b.toNat + cin i ≥ 4294967296))
/-- D = S0 − S1 − SCC; SCC = unsigned borrow -/
def s_subb_u32 (i : ScalarIn) : ScalarOut :=
  let a := lo i.src0; let b := lo i.src1
  ret32 (a - b - BitVec.ofNat 32 (cin i)) (decide (a.toNat < b.toNat + cin i))
/-- D = min (signed); SCC = 1 iff S0 is the minimum (strictly) -/
def s_min_i32 (i : ScalarIn) : ScalarOut :=
  let a := lo i.src0; let b := lo i.src1
  if a.slt b then ret32 a true else ret32 b false
def s_min_u32 (i : ScalarIn) : ScalarOut :=
  let a := lo i.src0; let b := lo i.src1
  if a.ult b then ret32 a true else ret32 b false
def s_max_i32 (i : ScalarIn) : ScalarOut :=
  let a := lo i.src0; let b := lo i.src1
  if b.slt a then ret32 a true else ret32 b false
def s_max_u32 (i : ScalarIn) : ScalarOut :=
  let a := lo i.src0; let b := lo i.src1
  if b.ult a then ret32 a true else ret32 b false
/-- D = SCC ? S0 : S1; SCC unchanged -/
def s_cselect_b32 (i : ScalarIn) : ScalarOut :=
  if i.scc != 0#8 then ret32n (lo i.src0) else ret32n (lo i.src1)
def s_cselect_b64 (i : ScalarIn) : ScalarOut :=
  if i.scc != 0#8 then ret64n i.src0 else ret64n i.src1

/-- bitwise operations: SCC = (D ≠ 0) -/
def logic32 (f : BitVec 32 → BitVec 32 → BitVec 32) (i : ScalarIn) : ScalarOut :=
  let d := f (lo i.src0) (lo i.src1)
  ret32 d (d != 0#32)
def logic64 (f : BitVec 64 → BitVec 64 → BitVec 64) (i : ScalarIn) : ScalarOut :=
  let d := f i.src0 i.src1
  ret64 d (d != 0#64)
def s_and_b32 := logic32 (· &&& ·)
def s_and_b64 := logic64 (· &&& ·)
def s_or_b32 := logic32 (· ||| ·)
def s_or_b64 := logic64 (· ||| ·)
def s_xor_b32 := logic32 (· ^^^ ·)
def s_xor_b64 := logic64 (· ^^^ ·)
def s_andn2_b32 := logic32 (fun a b => a &&& ~~~b)
def s_andn2_b64 := logic64 (fun a b => a &&& ~~~b)
def s_orn2_b32 := logic32 (fun a b => a ||| ~~~b)
def s_orn2_b64 := logic64 (fun a b => a ||| ~~~b)

/-- shifts use S1[4:0] (32-bit) / S1[5:0] (64-bit); SCC = (D ≠ 0) -/
def s_lshl_b32 := logic32 (fun a b => a <<< (b.toNat % 32))
def s_lshl_b64 := logic64 (fun a b => a <<< (b.toNat % 64))
def s_lshr_b32 := logic32 (fun a b => a >>> (b.toNat % 32))
def s_lshr_b64 := logic64 (fun a b => a >>> (b.toNat % 64))
def s_ashr_i32 := logic32 (fun a b => a.sshiftRight (b.toNat % 32))
def s_ashr_i64 := logic64 (fun a b => a.sshiftRight (b.toNat % 64))

/-- D = ((1 << S0[4:0]) − 1) << S1[4:0]; SCC unchanged -/
def s_bfm_b32 (i : ScalarIn) : ScalarOut :=
  let a := lo i.src0; let b := lo i.src1
  ret32n (((1#32 <<< (a.toNat % 32)) - 1#32) <<< (b.toNat % 32))
/-- D = S0 * S1 (low 32 bits); SCC unchanged -/
def s_mul_i32 (i : ScalarIn) : ScalarOut := ret32n (lo i.src0 * lo i.src1)
/-- D = (S0 * S1) >> 32, unsigned; SCC unchanged -/
def s_mul_hi_u32 (i : ScalarIn) : ScalarOut :=
  ret32n (BitVec.ofNat 32 ((lo i.src0).toNat * (lo i.src1).toNat / 4294967296))

def bfeOffset (b : BitVec 32) : Nat := b.toNat % 32
def bfeWidth (b : BitVec 32) : Nat := (b.toNat / 65536) % 128
/-- D.u = (S0.u >> S1[4:0]) & ((1 << S1[22:16]) − 1); SCC = (D ≠ 0) -/
def s_bfe_u32 (i : ScalarIn) : ScalarOut :=
  let a := lo i.src0; let b := lo i.src1
  let d := BitVec.ofNat 32 ((a.toNat / 2 ^ bfeOffset b) % 2 ^ bfeWidth b)
  ret32 d (d != 0#32)
/-- D.i = (S0.i >> S1[4:0]) & ((1 << S1[22:16]) − 1), sign-extended from the top bit of the
    field; the shift of the *signed* S0 is arithmetic, so a field reaching beyond bit 31 is
    filled with the sign of S0 (field effectively clipped to the 32 − offset available bits) -/
def s_bfe_i32 (i : ScalarIn) : ScalarOut :=
  let a := lo i.src0; let b := lo i.src1
  let n := min (bfeWidth b) (32 - bfeOffset b)
  let f := (a.toNat / 2 ^ bfeOffset b) % 2 ^ n
  let v : Int := if n = 0 then 0 else if f ≥ 2 ^ (n - 1) then (f : Int) - 2 ^ n else f
  let d := BitVec.ofInt 32 v
  ret32 d (d != 0#32)

/-! ## SOP1 -/

def s_mov_b32 (i : ScalarIn) : ScalarOut := ret32n (lo i.src0)
def s_mov_b64 (i : ScalarIn) : ScalarOut := ret64n i.src0
/-- D = ~S0; SCC = (D ≠ 0) -/
def s_not_b32 (i : ScalarIn) : ScalarOut :=
  let d := ~~~(lo i.src0)
  ret32 d (d != 0#32)
/-- D[31:0] = S0[0:31]; SCC unchanged -/
def s_brev_b32 (i : ScalarIn) : ScalarOut := ret32n (lo i.src0).reverse
/-- D = PC + 4 = address of the next instruction (which is what `state.PC()` holds) -/
def s_getpc_b64 (i : ScalarIn) : ScalarOut := ret64n i.pc
/-- D = EXEC; EXEC = f(S0, EXEC); SCC = (EXEC ≠ 0) -/
def saveexec (f : BitVec 64 → BitVec 64 → BitVec 64) (i : ScalarIn) : ScalarOut :=
  let e := f i.src0 i.exec
  { dst := some i.exec, scc := some (bit (e != 0#64)), vcc := none, exec := some e, pc := none }
def s_and_saveexec_b64 := saveexec (· &&& ·)
def s_or_saveexec_b64 := saveexec (· ||| ·)
def s_xor_saveexec_b64 := saveexec (· ^^^ ·)
def s_andn2_saveexec_b64 := saveexec (fun s e => s &&& ~~~e)
def s_orn2_saveexec_b64 := saveexec (fun s e => s ||| ~~~e)
def s_nand_saveexec_b64 := saveexec (fun s e => ~~~(s &&& e))
def s_nor_saveexec_b64 := saveexec (fun s e => ~~~(s ||| e))
def s_xnor_saveexec_b64 := saveexec (fun s e => ~~~(s ^^^ e))
/-- D = |S0| (two's complement: |−2³¹| = −2³¹); SCC = (D ≠ 0) -/
def s_abs_i32 (i : ScalarIn) : ScalarOut :=
  let a := lo i.src0
  let d := if a.slt 0#32 then -a else a
  ret32 d (d != 0#32)

/-! ## SOPC: SCC = comparison -/

def cmp (f : BitVec 32 → BitVec 32 → Bool) (i : ScalarIn) : ScalarOut := retScc (f (lo i.src0) (lo i.src1))
def s_cmp_eq_i32 := cmp (· == ·)
def s_cmp_lg_i32 := cmp (· != ·)
def s_cmp_gt_i32 := cmp (fun a b => b.slt a)
def s_cmp_ge_i32 := cmp (fun a b => b.sle a)
def s_cmp_lt_i32 := cmp (fun a b => a.slt b)
def s_cmp_le_i32 := cmp (fun a b => a.sle b)
def s_cmp_eq_u32 := cmp (· == ·)
def s_cmp_lg_u32 := cmp (· != ·)
def s_cmp_gt_u32 := cmp (fun a b => b.ult a)
def s_cmp_ge_u32 := cmp (fun a b => b.ule a)
def s_cmp_lt_u32 := cmp (fun a b => a.ult b)
def s_cmp_le_u32 := cmp (fun a b => a.ule b)

/-! ## SOPK -/

/-- D = signext(SIMM16) -/
def s_movk_i32 (i : ScalarIn) : ScalarOut := ret32n (imm32 i)
/-- if SCC then D = signext(SIMM16) -/
def s_cmovk_i32 (i : ScalarIn) : ScalarOut := if i.scc != 0#8 then ret32n (imm32 i) else nothing
/-- SCC = (D.i == signext(SIMM16)) -/
def s_cmpk_eq_i32 (i : ScalarIn) : ScalarOut := retScc (lo i.dstOld == imm32 i)
def s_cmpk_lg_i32 (i : ScalarIn) : ScalarOut := retScc (lo i.dstOld != imm32 i)
/-- D = D * signext(SIMM16) -/
def s_mulk_i32 (i : ScalarIn) : ScalarOut := ret32n (lo i.dstOld * imm32 i)

/-! ## SOPP.  `i.pc` is the address of the next instruction (PC + 4), so a taken branch goes to
    `i.pc + signext(SIMM16) * 4` = PC + 4 + SIMM16·4. -/

def s_nop (_ : ScalarIn) : ScalarOut := nothing
def s_waitcnt (_ : ScalarIn) : ScalarOut := nothing
def target (i : ScalarIn) : BitVec 64 := i.pc + imm64 i * 4#64
def s_branch (i : ScalarIn) : ScalarOut := retPc (target i)
def cbranch (c : ScalarIn → Bool) (i : ScalarIn) : ScalarOut := if c i then retPc (target i) else nothing
def s_cbranch_scc0 := cbranch (fun i => i.scc == 0#8)
def s_cbranch_scc1 := cbranch (fun i => i.scc != 0#8)
def s_cbranch_vccz := cbranch (fun i => i.vcc == 0#64)
def s_cbranch_vccnz := cbranch (fun i => i.vcc != 0#64)
def s_cbranch_execz := cbranch (fun i => i.exec == 0#64)
def s_cbranch_execnz := cbranch (fun i => i.exec != 0#64)

/-! ## The opcode table (format numbers as in `insts.FormatType`: SOP2 0, SOPK 1, SOP1 2,
    SOPC 3, SOPP 4) -/

structure Op where
  name : String
  fmt : Nat
  op : Nat
  dstW : Nat
  src0W : Nat
  src1W : Nat
  f : ScalarIn → ScalarOut

def ops : List Op := [
  ⟨"s_add_u32", 0, 0, 32, 32, 32, s_add_u32⟩, ⟨"s_sub_u32", 0, 1, 32, 32, 32, s_sub_u32⟩,
  ⟨"s_add_i32", 0, 2, 32, 32, 32, s_add_i32⟩, ⟨"s_sub_i32", 0, 3, 32, 32, 32, s_sub_i32⟩,
  ⟨"s_addc_u32", 0, 4, 32, 32, 32, s_addc_u32⟩, ⟨"s_subb_u32", 0, 5, 32, 32, 32, s_subb_u32⟩,
  ⟨"s_min_i32", 0, 6, 32, 32, 32, s_min_i32⟩, ⟨"s_min_u32", 0, 7, 32, 32, 32, s_min_u32⟩,
  ⟨"s_max_i32", 0, 8, 32, 32, 32, s_max_i32⟩, ⟨"s_max_u32", 0, 9, 32, 32, 32, s_max_u32⟩,
  ⟨"s_cselect_b32", 0, 10, 32, 32, 32, s_cselect_b32⟩, ⟨"s_cselect_b64", 0, 11, 64, 64, 64, s_cselect_b64⟩,
  ⟨"s_and_b32", 0, 12, 32, 32, 32, s_and_b32⟩, ⟨"s_and_b64", 0, 13, 64, 64, 64, s_and_b64⟩,
  ⟨"s_or_b32", 0, 14, 32, 32, 32, s_or_b32⟩, ⟨"s_or_b64", 0, 15, 64, 64, 64, s_or_b64⟩,
  ⟨"s_xor_b32", 0, 16, 32, 32, 32, s_xor_b32⟩, ⟨"s_xor_b64", 0, 17, 64, 64, 64, s_xor_b64⟩,
  ⟨"s_andn2_b32", 0, 18, 32, 32, 32, s_andn2_b32⟩, ⟨"s_andn2_b64", 0, 19, 64, 64, 64, s_andn2_b64⟩,
  ⟨"s_orn2_b32", 0, 20, 32, 32, 32, s_orn2_b32⟩, ⟨"s_orn2_b64", 0, 21, 64, 64, 64, s_orn2_b64⟩,
  ⟨"s_lshl_b32", 0, 28, 32, 32, 32, s_lshl_b32⟩, ⟨"s_lshl_b64", 0, 29, 64, 64, 32, s_lshl_b64⟩,
  ⟨"s_lshr_b32", 0, 30, 32, 32, 32, s_lshr_b32⟩, ⟨"s_lshr_b64", 0, 31, 64, 64, 32, s_lshr_b64⟩,
  ⟨"s_ashr_i32", 0, 32, 32, 32, 32, s_ashr_i32⟩, ⟨"s_ashr_i64", 0, 33, 64, 64, 32, s_ashr_i64⟩,
  ⟨"s_bfm_b32", 0, 34, 32, 32, 32, s_bfm_b32⟩, ⟨"s_mul_i32", 0, 36, 32, 32, 32, s_mul_i32⟩,
  ⟨"s_bfe_u32", 0, 37, 32, 32, 32, s_bfe_u32⟩, ⟨"s_bfe_i32", 0, 38, 32, 32, 32, s_bfe_i32⟩,
  ⟨"s_mul_hi_u32", 0, 44, 32, 32, 32, s_mul_hi_u32⟩,
  ⟨"s_movk_i32", 1, 0, 32, 0, 0, s_movk_i32⟩, ⟨"s_cmovk_i32", 1, 1, 32, 0, 0, s_cmovk_i32⟩,
  ⟨"s_cmpk_eq_i32", 1, 2, 32, 0, 0, s_cmpk_eq_i32⟩, ⟨"s_cmpk_lg_i32", 1, 3, 32, 0, 0, s_cmpk_lg_i32⟩,
  ⟨"s_mulk_i32", 1, 15, 32, 0, 0, s_mulk_i32⟩,
  ⟨"s_mov_b32", 2, 0, 32, 32, 0, s_mov_b32⟩, ⟨"s_mov_b64", 2, 1, 64, 64, 0, s_mov_b64⟩,
  ⟨"s_not_b32", 2, 4, 32, 32, 0, s_not_b32⟩, ⟨"s_brev_b32", 2, 8, 32, 32, 0, s_brev_b32⟩,
  ⟨"s_getpc_b64", 2, 28, 64, 0, 0, s_getpc_b64⟩,
  ⟨"s_and_saveexec_b64", 2, 32, 64, 64, 0, s_and_saveexec_b64⟩, ⟨"s_or_saveexec_b64", 2, 33, 64, 64, 0, s_or_saveexec_b64⟩,
  ⟨"s_xor_saveexec_b64", 2, 34, 64, 64, 0, s_xor_saveexec_b64⟩, ⟨"s_andn2_saveexec_b64", 2, 35, 64, 64, 0, s_andn2_saveexec_b64⟩,
  ⟨"s_orn2_saveexec_b64", 2, 36, 64, 64, 0, s_orn2_saveexec_b64⟩, ⟨"s_nand_saveexec_b64", 2, 37, 64, 64, 0, s_nand_saveexec_b64⟩,
  ⟨"s_nor_saveexec_b64", 2, 38, 64, 64, 0, s_nor_saveexec_b64⟩, ⟨"s_xnor_saveexec_b64", 2, 39, 64, 64, 0, s_xnor_saveexec_b64⟩,
  ⟨"s_abs_i32", 2, 48, 32, 32, 0, s_abs_i32⟩,
  ⟨"s_cmp_eq_i32", 3, 0, 0, 32, 32, s_cmp_eq_i32⟩, ⟨"s_cmp_lg_i32", 3, 1, 0, 32, 32, s_cmp_lg_i32⟩,
  ⟨"s_cmp_gt_i32", 3, 2, 0, 32, 32, s_cmp_gt_i32⟩, ⟨"s_cmp_ge_i32", 3, 3, 0, 32, 32, s_cmp_ge_i32⟩,
  ⟨"s_cmp_lt_i32", 3, 4, 0, 32, 32, s_cmp_lt_i32⟩, ⟨"s_cmp_le_i32", 3, 5, 0, 32, 32, s_cmp_le_i32⟩,
  ⟨"s_cmp_eq_u32", 3, 6, 0, 32, 32, s_cmp_eq_u32⟩, ⟨"s_cmp_lg_u32", 3, 7, 0, 32, 32, s_cmp_lg_u32⟩,
  ⟨"s_cmp_gt_u32", 3, 8, 0, 32, 32, s_cmp_gt_u32⟩, ⟨"s_cmp_ge_u32", 3, 9, 0, 32, 32, s_cmp_ge_u32⟩,
  ⟨"s_cmp_lt_u32", 3, 10, 0, 32, 32, s_cmp_lt_u32⟩, ⟨"s_cmp_le_u32", 3, 11, 0, 32, 32, s_cmp_le_u32⟩,
  ⟨"s_nop", 4, 0, 0, 0, 0, s_nop⟩, ⟨"s_branch", 4, 2, 0, 0, 0, s_branch⟩,
  ⟨"s_cbranch_scc0", 4, 4, 0, 0, 0, s_cbranch_scc0⟩, ⟨"s_cbranch_scc1", 4, 5, 0, 0, 0, s_cbranch_scc1⟩,
  ⟨"s_cbranch_vccz", 4, 6, 0, 0, 0, s_cbranch_vccz⟩, ⟨"s_cbranch_vccnz", 4, 7, 0, 0, 0, s_cbranch_vccnz⟩,
  ⟨"s_cbranch_execz", 4, 8, 0, 0, 0, s_cbranch_execz⟩, ⟨"s_cbranch_execnz", 4, 9, 0, 0, 0, s_cbranch_execnz⟩,
  ⟨"s_waitcnt", 4, 12, 0, 0, 0, s_waitcnt⟩ ]

def find (fmt op : Nat) : Option Op := ops.find? (fun o => o.fmt == fmt && o.op == op)

/-! ## Architected destinations, from the "SCC"/"D" columns of the manuals' opcode tables (written
    independently of the semantic functions above; `MgpuProofs/Props/C03S.lean: spec_respects_writes`
    checks the two against each other) -/

def wD : Writes := ⟨true, false, false, false, false⟩      -- destination only
def wDS : Writes := ⟨true, true, false, false, false⟩      -- destination and SCC
def wS : Writes := ⟨false, true, false, false, false⟩      -- SCC only
def wDSE : Writes := ⟨true, true, false, true, false⟩      -- destination, SCC and EXEC
def wP : Writes := ⟨false, false, false, false, true⟩      -- PC only
def wNone : Writes := ⟨false, false, false, false, false⟩

def writes (fmt op : Nat) : Writes :=
  match fmt with
  | 0 => -- SOP2: s_cselect_b32/b64, s_bfm_b32, s_mul_i32, s_mul_hi_u32 leave SCC alone
    if op == 10 || op == 11 || op == 34 || op == 36 || op == 44 then wD else wDS
  | 1 => -- SOPK: s_cmpk_* write SCC only; s_movk/s_cmovk/s_mulk write D only
    if op == 2 || op == 3 then wS else wD
  | 2 => -- SOP1: s_*_saveexec_b64 write D, EXEC, SCC; s_not_b32 and s_abs_i32 write D, SCC
    if 32 ≤ op && op ≤ 39 then wDSE else if op == 4 || op == 48 then wDS else wD
  | 3 => wS   -- SOPC
  | 4 => if op == 0 || op == 12 then wNone else wP   -- SOPP: s_nop, s_waitcnt / branches
  | _ => wNone

end Spec
end C03S
