import MgpuModel.Util
import MgpuModel.C10Buddy
import MgpuModel.C10BuddyX
/-!
# C10 — device memory management (driver/internal allocator, Distribute, Context.buffers)

Transcription of `amd/driver/internal/{memoryallocator,device,devicememstateinterface}.go`,
`amd/driver/{api,distributor,context}.go` and `Driver.preparePageForMigration`, as the code is
*after* the `fix:` commits of this property (Free releases every page of the allocation;
Remap/AllocatePageWithGivenVAddr record the owning device; removeFreedBuffers filters; Remap / Distribute give
the physical page they replace back to its device — `remapLoopOld` … `runOld` keep the code before that repair).
The allocator's mirror `vAddrToPageMapping` is keyed by the virtual address only, exactly as in Go.
A Go panic is a `Fault`; it ends the history (`Except`).  Core Lean only.
-/
namespace C10
open Util

inductive Fault
  | oom | bounds | nilderef | ptMissing | ptExists | migMissing | mirrorMissing | noDevice
  | zeroBytes | unaligned | divzero | unifyEmpty | unifyNonGpu | selRange | badOp
deriving DecidableEq, Repr

def Fault.str : Fault → String
  | .oom => "fault:oom" | .bounds => "fault:bounds" | .nilderef => "fault:nilderef"
  | .ptMissing => "fault:pt_missing" | .ptExists => "fault:pt_exists" | .migMissing => "fault:mig_missing"
  | .mirrorMissing => "fault:mirror_missing" | .noDevice => "fault:no_device" | .zeroBytes => "fault:zero_bytes"
  | .unaligned => "fault:unaligned" | .divzero => "fault:divzero" | .unifyEmpty => "fault:unify_empty"
  | .unifyNonGpu => "fault:unify_nongpu" | .selRange => "fault:sel_range" | .badOp => "bad-op"

/-- vm.Page (PageSize = ps and Valid = true are constant) -/
structure Page where
  pid : Nat
  vaddr : Nat
  paddr : Nat
  dev : Nat
  unified : Bool
  migrating : Bool
deriving DecidableEq, Repr

inductive Kind
  | cpu | gpu | unified
deriving DecidableEq, Repr

/-- static part of internal.Device: type, physical range, ActualGPUs (device IDs) -/
structure Dev where
  kind : Kind
  base : Nat
  size : Nat
  actual : List Nat
deriving Repr

/-- dynamic part of the devices: `availablePAddrs` (FIFO) and `nextActualGPUIndex`, indexed by device ID -/
structure Pool where
  frees : List (List Nat)
  nexts : List Nat
deriving Repr

structure Buf where
  vaddr : Nat
  size : Nat
  freed : Bool
deriving DecidableEq, Repr

structure Ctx where
  pid : Nat
  gpu : Nat
  bufs : List Buf
deriving Repr

structure State where
  ps : Nat                       -- 1 <<< log2PageSize
  total : Nat                    -- totalStorageByteSize
  devs : List Dev                -- device ID = index
  pool : Pool
  cursors : List (Nat × Nat)     -- processMemoryStates: pid ↦ nextVAddr (first match)
  mirror : List (Nat × Page)     -- vAddrToPageMapping: vaddr ↦ page (first match; never deleted)
  npages : List (Nat × Nat)      -- allocationNumPages: vaddr ↦ pages (first match; 0 = deleted)
  pt : List Page                 -- vm.PageTable: keyed by (pid, vaddr)
  ctxs : List Ctx
  npid : Nat
  leaked : Nat := 0              -- GHOST (no Go counterpart, never read by `step`): physical pages replaced in a
                                 -- page-table entry and not given back (AllocatePageWithGivenVAddr / migration;
                                 -- Remap when the allocator's record of the address belongs to another process)
deriving Repr

/-! ## page table (Akita `vm.pageTableImpl`, modelled) -/

def ptFind (pt : List Page) (pid v : Nat) : Option Page :=
  pt.find? fun p => p.pid == pid && p.vaddr == v

def ptInsert (pt : List Page) (pg : Page) : Except Fault (List Page) :=
  match ptFind pt pg.pid pg.vaddr with
  | some _ => .error .ptExists
  | none => .ok (pt ++ [pg])

def ptUpdate (pt : List Page) (pg : Page) : Except Fault (List Page) :=
  match ptFind pt pg.pid pg.vaddr with
  | none => .error .ptMissing
  | some _ => .ok (pt.map fun p => if p.pid == pg.pid && p.vaddr == pg.vaddr then pg else p)

def ptRemove (pt : List Page) (pid v : Nat) : Except Fault (List Page) :=
  match ptFind pt pid v with
  | none => .error .ptMissing
  | some _ => .ok (pt.filter fun p => !(p.pid == pid && p.vaddr == v))

/-! ## devices -/

def inRange (d : Dev) (p : Nat) : Bool := decide (d.base ≤ p) && decide (p < d.base + d.size)

/-- deviceIDByPAddr: the device whose physical range contains `p` (ranges are disjoint) -/
def devOfFrom : List Dev → Nat → Nat → Option Nat
  | [], _, _ => none
  | d :: ds, i, p => if inRange d p then some i else devOfFrom ds (i + 1) p

def devOf (devs : List Dev) (p : Nat) : Option Nat := devOfFrom devs 0 p

/-- popNextAvailablePAddrs on the free list of device `j` -/
def popAt (frees : List (List Nat)) (j : Nat) : Option (Nat × List (List Nat)) :=
  match frees[j]? with
  | some (p :: fs) => some (p, frees.set j fs)
  | _ => none

def hasFree (frees : List (List Nat)) (j : Nat) : Bool :=
  match frees[j]? with
  | some (_ :: _) => true
  | _ => false

/-- allocateUnifiedGPUPage's selection loop: the *last* GPU, in the order starting at the cursor,
that has a free page (there is no `break`) -/
def selectGPU (frees : List (List Nat)) (actual : List Nat) (nx : Nat) : Option Nat :=
  (List.range actual.length).foldl (fun sel i =>
    let j := actual.getD ((nx + i) % actual.length) 0
    if hasFree frees j then some j else sel) none

/-- Device.allocatePage -/
def allocPage (devs : List Dev) (pool : Pool) (d : Nat) : Except Fault (Nat × Pool) :=
  match devs[d]? with
  | none => .error .nilderef
  | some dv =>
    if dv.kind = .unified then
      let nx := pool.nexts.getD d 0
      match selectGPU pool.frees dv.actual nx with
      | none => .error .oom
      | some j =>
        match popAt pool.frees j with
        | none => .error .oom
        | some (p, fr) => .ok (p, { frees := fr, nexts := pool.nexts.set d ((nx + 1) % dv.actual.length) })
    else
      match popAt pool.frees d with
      | none => .error .oom
      | some (p, fr) => .ok (p, { pool with frees := fr })

/-- deviceMemoryStateImpl.allocateMultiplePages: `n` pops; popping an empty slice is a bounds panic -/
def popN (frees : List (List Nat)) (j : Nat) : Nat → Except Fault (List Nat × List (List Nat))
  | 0 => .ok ([], frees)
  | n + 1 =>
    match popAt frees j with
    | none => .error .bounds
    | some (p, fr) =>
      match popN fr j n with
      | .error e => .error e
      | .ok (ps, fr') => .ok (p :: ps, fr')

/-- Device.allocateMultiplePages -/
def allocMulti (devs : List Dev) (pool : Pool) (d n : Nat) : Except Fault (List Nat × Pool) :=
  match devs[d]? with
  | none => .error .nilderef
  | some dv =>
    if dv.kind = .unified then
      let nx := pool.nexts.getD d 0
      match dv.actual[nx]? with
      | none => .error .bounds
      | some j =>
        if !hasFree pool.frees j then .error .oom else
        match popN pool.frees j n with
        | .error e => .error e
        | .ok (ps, fr) => .ok (ps, { frees := fr, nexts := pool.nexts.set d ((nx + 1) % dv.actual.length) })
    else
      if !hasFree pool.frees d then .error .oom else
      match popN pool.frees d n with
      | .error e => .error e
      | .ok (ps, fr) => .ok (ps, { pool with frees := fr })

/-! ## memoryAllocatorImpl -/

def lookup {α : Type} (l : List (Nat × α)) (k : Nat) : Option α :=
  match l.find? (fun e => e.1 == k) with
  | some e => some e.2
  | none => none

def cursorOf (s : State) (pid : Nat) : Nat := (lookup s.cursors pid).getD s.ps

def numPagesOf (ps bytes : Nat) : Nat := (bytes - 1) / ps + 1

/-- the loop of allocatePages: `k` more pages, next virtual address `v` -/
def allocLoop (pid d : Nat) (unified : Bool) : Nat → Nat → State → Except Fault State
  | 0, _, s => .ok s
  | k + 1, v, s =>
    match allocPage s.devs s.pool d with
    | .error e => .error e
    | .ok (p, pool') =>
      match devOf s.devs p with
      | none => .error .noDevice
      | some dev =>
        let pg : Page := { pid := pid, vaddr := v, paddr := p, dev := dev, unified := unified, migrating := false }
        match ptInsert s.pt pg with
        | .error e => .error e
        | .ok pt' =>
          allocLoop pid d unified k (v + s.ps)
            { s with pool := pool', pt := pt', mirror := (v, pg) :: s.mirror }

/-- allocatePages -/
def allocatePages (s : State) (n pid d : Nat) (unified : Bool) : Except Fault (Nat × State) :=
  let v := cursorOf s pid
  match allocLoop pid d unified n v s with
  | .error e => .error e
  | .ok s' => .ok (v, { s' with cursors := (pid, v + s.ps * n) :: s'.cursors, npages := (v, n) :: s'.npages })

/-- MemoryAllocator.Allocate -/
def allocate (s : State) (pid bytes d : Nat) : Except Fault (Nat × State) :=
  if bytes = 0 then .error .zeroBytes else allocatePages s (numPagesOf s.ps bytes) pid d false

/-- MemoryAllocator.AllocateUnified (device 1, Unified flag) -/
def allocateUnified (s : State) (pid bytes : Nat) : Except Fault (Nat × State) :=
  if bytes = 0 then .error .zeroBytes else allocatePages s (numPagesOf s.ps bytes) pid 1 true

/-- removePage -/
def removePage (s : State) (v : Nat) : Except Fault State :=
  match lookup s.mirror v with
  | none => .error .mirrorMissing
  | some pg =>
    match devOf s.devs pg.paddr with
    | none => .error .noDevice
    | some d =>
      match ptRemove s.pt pg.pid pg.vaddr with
      | .error e => .error e
      | .ok pt' =>
        .ok { s with pool := { s.pool with frees := s.pool.frees.modify d (· ++ [pg.paddr]) }, pt := pt' }

def removePages : List Nat → State → Except Fault State
  | [], s => .ok s
  | v :: vs, s =>
    match removePage s v with
    | .error e => .error e
    | .ok s' => removePages vs s'

/-- the virtual pages `Free(ptr)` removes: the first page always, then the rest of the allocation -/
def freeVAddrs (s : State) (ptr : Nat) : List Nat :=
  ptr :: (List.range ((lookup s.npages ptr).getD 0 - 1)).map fun i => ptr + (i + 1) * s.ps

/-- MemoryAllocator.Free -/
def free (s : State) (ptr : Nat) : Except Fault State :=
  removePages (freeVAddrs s ptr) { s with npages := (ptr, 0) :: s.npages }

/-- the end of one iteration of the loop of allocateMultiplePagesWithGivenVAddrs (repaired): the physical page the
page table named before goes back (`addSinglePAddr`) to the device that owns it — when the allocator's record
`replaced` of the virtual address (read BEFORE it was overwritten; the record is keyed by the virtual address only)
exists and belongs to the calling process. Otherwise the replaced page is not given back (ghost `leaked`). -/
def releaseReplaced (s : State) (pid : Nat) (replaced : Option Page) : Except Fault State :=
  match replaced with
  | some old =>
    if old.pid = pid then
      match devOf s.devs old.paddr with
      | none => .error .noDevice
      | some d => .ok { s with pool := { s.pool with frees := s.pool.frees.modify d (· ++ [old.paddr]) } }
    else .ok { s with leaked := s.leaked + 1 }
  | none => .ok { s with leaked := s.leaked + 1 }

/-- the loop of allocateMultiplePagesWithGivenVAddrs -/
def remapLoop (pid : Nat) (unified : Bool) : List Nat → List Nat → State → Except Fault State
  | v :: vs, p :: ps, s =>
    match devOf s.devs p with
    | none => .error .noDevice
    | some dev =>
      let pg : Page := { pid := pid, vaddr := v, paddr := p, dev := dev, unified := unified, migrating := false }
      match ptUpdate s.pt pg with
      | .error e => .error e
      | .ok pt' =>
        match releaseReplaced { s with pt := pt', mirror := (v, pg) :: s.mirror } pid (lookup s.mirror v) with
        | .error e => .error e
        | .ok s1 => remapLoop pid unified vs ps s1
  | _, _, s => .ok s

def remapVAddrs (ps addr bytes : Nat) : List Nat :=
  (List.range ((bytes + ps - 1) / ps)).map fun i => addr + i * ps

/-- MemoryAllocator.Remap -/
def remap (s : State) (pid addr bytes d : Nat) : Except Fault State :=
  let vs := remapVAddrs s.ps addr bytes
  match allocMulti s.devs s.pool d vs.length with
  | .error e => .error e
  | .ok (ps, pool') => remapLoop pid false vs ps { s with pool := pool' }

/-- MemoryAllocator.AllocatePageWithGivenVAddr -/
def allocGiven (s : State) (pid d v : Nat) (unified : Bool) : Except Fault (Page × State) :=
  match allocPage s.devs s.pool d with
  | .error e => .error e
  | .ok (p, pool') =>
    match devOf s.devs p with
    | none => .error .noDevice
    | some dev =>
      let pg : Page := { pid := pid, vaddr := v, paddr := p, dev := dev, unified := unified, migrating := false }
      match ptUpdate s.pt pg with
      | .error e => .error e
      | .ok pt' =>
        -- the replaced page is NOT given back (the page migration controller still reads it): ghost `leaked`
        .ok (pg, { s with pool := pool', pt := pt', mirror := (v, pg) :: s.mirror, leaked := s.leaked + 1 })

/-- Driver.preparePageForMigration (gpu = zero-based GPU index) -/
def prepareMigration (s : State) (pid v gpu : Nat) : Except Fault ((Nat × Nat) × State) :=
  match ptFind s.pt pid (v / s.ps * s.ps) with
  | none => .error .migMissing
  | some old =>
    match allocGiven s pid (gpu + 1) v true with
    | .error e => .error e
    | .ok (pg, s') =>
      let pg' := { pg with dev := gpu + 1, migrating := true }
      match ptUpdate s'.pt pg' with
      | .error e => .error e
      | .ok pt' => .ok ((pg.paddr, old.paddr), { s' with pt := pt' })

/-- MemoryAllocator.ReleasePhysicalPage (added by the repair of finding `C10-migration-keeps-replaced-page`):
`addSinglePAddr` on the device whose range contains the page (`deviceIDByPAddr` panics when none does). The driver
calls it with the old page of a migrated page when it handles the page's `PageMigrationRspToDriver` (C19 proves that
discipline); it is NOT one of the history operations `Op`: the conservation theorems over `run` are about the calls
that take or overwrite pages, `releasePage` is the call that puts a kept page back (ghost `leaked` − 1). -/
def releasePage (s : State) (p : Nat) : Except Fault State :=
  match devOf s.devs p with
  | none => .error .noDevice
  | some d => .ok { s with pool := { s.pool with frees := s.pool.frees.modify d (· ++ [p]) }, leaked := s.leaked - 1 }

/-- a page migration from its preparation to its completion: `preparePageForMigration`, (the page migration
controller copies the page,) `ReleasePhysicalPage` of the old page -/
def migrateComplete (s : State) (pid v gpu : Nat) : Except Fault ((Nat × Nat) × State) :=
  match prepareMigration s pid v gpu with
  | .error e => .error e
  | .ok ((n, o), s1) =>
    match releasePage s1 o with
    | .error e => .error e
    | .ok s2 => .ok ((n, o), s2)

/-! ## distributorImpl.Distribute -/

/-- the Remap calls `Distribute` issues, as (address, byteSize, index into gpuIDs) -/
def distPlan (ps addr bytes n : Nat) : List (Nat × Nat × Nat) :=
  let pages := numPagesOf ps bytes
  let per := pages / n
  let use := if per > 0 then min (pages / per) n else 0
  let rem := pages % n
  let last := use - 1
  ((List.range use).map fun i => (addr + i * per * ps, per * ps, i)) ++
  ((List.range rem).map fun i => (addr + (per * use + i) * ps, ps, last))

/-- byteAllocatedOnEachGPU -/
def distBytes (ps bytes n : Nat) : List Nat :=
  let plan := distPlan ps 0 bytes n
  (List.range n).map fun g => ((plan.filter fun r => r.2.2 == g).map fun r => r.2.1).sum

def remapAll (pid : Nat) (ids : List Nat) : List (Nat × Nat × Nat) → State → Except Fault State
  | [], s => .ok s
  | (a, b, i) :: rest, s =>
    match remap s pid a b (ids.getD i 0) with
    | .error e => .error e
    | .ok s' => remapAll pid ids rest s'

/-- Driver.Distribute -/
def distribute (s : State) (pid addr bytes : Nat) (ids : List Nat) : Except Fault (List Nat × State) :=
  if ids.length = 1 then .ok ([bytes], s)
  else if addr % s.ps ≠ 0 then .error .unaligned
  else if ids.length = 0 then .error .divzero
  else
    match remapAll pid ids (distPlan s.ps addr bytes ids.length) s with
    | .error e => .error e
    | .ok s' => .ok (distBytes s.ps bytes ids.length, s')

/-! ## Context.buffers -/

/-- Context.removeFreedBuffers (after the fix: filter into a new slice) -/
def removeFreedBuffers (bufs : List Buf) : List Buf := bufs.filter fun b => !b.freed

/-- the loop as it was before the fix, on an explicit slice model: `range` evaluates the slice
(pointer, length `n0`) once; `append(c.buffers[:i], c.buffers[i+1:]...)` shifts the tail left inside
the same backing array (the stale last element stays), and `c.buffers[i+1:]` with `i+1 > len` panics.
`arr` = backing array, `len` = current length of c.buffers. -/
def rfbOldLoop : Nat → Nat → List Buf → Nat → Option (List Buf × Nat)
  | 0, _, arr, len => some (arr, len)
  | k + 1, i, arr, len =>
    match arr[i]? with
    | none => none
    | some b =>
      if b.freed then
        if i + 1 > len then none
        else rfbOldLoop k (i + 1) (arr.take i ++ (arr.take len).drop (i + 1) ++ arr.drop (len - 1)) (len - 1)
      else rfbOldLoop k (i + 1) arr len

def removeFreedBuffersOld (bufs : List Buf) : Option (List Buf) :=
  match rfbOldLoop bufs.length 0 bufs bufs.length with
  | none => none
  | some (arr, len) => some (arr.take len)

/-! ## Driver API level -/

inductive Op
  | init
  | initpid (ctx : Nat)
  | sel (ctx gpu : Nat)
  | unify (ctx : Nat) (ids : List Nat)
  | alloc (ctx bytes : Nat)
  | allocu (ctx bytes : Nat)
  | free (ctx ptr : Nat)
  | remap (ctx addr bytes dev : Nat)
  | dist (ctx addr bytes : Nat) (ids : List Nat)
  | mig (ctx v gpu : Nat)
  | rmpage (v : Nat)
  | apg (ctx dev v : Nat) (unified : Bool)
  | rfb (ctx : Nat)
deriving Repr

def setCtx (s : State) (i : Nat) (c : Ctx) : State := { s with ctxs := s.ctxs.set i c }

/-- RegisterDevice: the new device starts at `total`; its free list is every page start below its end -/
def registerDevice (s : State) (kind : Kind) (size : Nat) (actual : List Nat) : State :=
  { s with
    devs := s.devs ++ [{ kind := kind, base := s.total, size := size, actual := actual }]
    pool := { frees := s.pool.frees ++ [(List.range ((size + s.ps - 1) / s.ps)).map fun i => s.total + i * s.ps],
              nexts := s.pool.nexts ++ [0] }
    total := s.total + size }

/-- Driver.CreateUnifiedGPU -/
def unify (s : State) (ids : List Nat) : Except Fault (Nat × State) :=
  if ids.isEmpty then .error .unifyEmpty else
  match ids.findSome? (fun id => match s.devs[id]? with
      | none => some Fault.bounds
      | some d => if d.kind = .gpu then none else some Fault.unifyNonGpu) with
  | some e => .error e
  | none => .ok (s.devs.length, registerDevice s .unified 0 ids)

inductive Res
  | ok
  | ptr (v : Nat)
  | id (n : Nat)
  | bytes (l : List Nat)
  | mig (new old : Nat)

def step (s : State) : Op → Except Fault (Res × State)
  | .init => .ok (.ok, { s with npid := s.npid + 1, ctxs := s.ctxs ++ [{ pid := s.npid + 1, gpu := 1, bufs := [] }] })
  | .initpid c =>
    match s.ctxs[c]? with
    | none => .error .badOp
    | some cx => .ok (.ok, { s with ctxs := s.ctxs ++ [{ pid := cx.pid, gpu := 1, bufs := [] }] })
  | .sel c g =>
    match s.ctxs[c]? with
    | none => .error .badOp
    | some cx => if g ≥ s.devs.length then .error .selRange else .ok (.ok, setCtx s c { cx with gpu := g })
  | .unify _ ids =>
    match unify s ids with
    | .error e => .error e
    | .ok (id, s') => .ok (.id id, s')
  | .alloc c bytes =>
    match s.ctxs[c]? with
    | none => .error .badOp
    | some cx =>
      match allocate s cx.pid bytes cx.gpu with
      | .error e => .error e
      | .ok (v, s') => .ok (.ptr v, setCtx s' c { cx with bufs := cx.bufs ++ [{ vaddr := v, size := bytes, freed := false }] })
  | .allocu c bytes =>
    match s.ctxs[c]? with
    | none => .error .badOp
    | some cx =>
      match allocateUnified s cx.pid bytes with
      | .error e => .error e
      | .ok (v, s') => .ok (.ptr v, setCtx s' c { cx with bufs := cx.bufs ++ [{ vaddr := v, size := bytes, freed := false }] })
  | .free c ptr =>
    match s.ctxs[c]? with
    | none => .error .badOp
    | some cx =>
      match free s ptr with
      | .error e => .error e
      | .ok s' => .ok (.ok, setCtx s' c { cx with bufs := cx.bufs.map fun b => if b.vaddr = ptr then { b with freed := true } else b })
  | .remap c addr bytes d =>
    match s.ctxs[c]? with
    | none => .error .badOp
    | some cx =>
      match remap s cx.pid addr bytes d with
      | .error e => .error e
      | .ok s' => .ok (.ok, s')
  | .dist c addr bytes ids =>
    match s.ctxs[c]? with
    | none => .error .badOp
    | some cx =>
      match distribute s cx.pid addr bytes ids with
      | .error e => .error e
      | .ok (bs, s') => .ok (.bytes bs, s')
  | .mig c v g =>
    match s.ctxs[c]? with
    | none => .error .badOp
    | some cx =>
      match prepareMigration s cx.pid v g with
      | .error e => .error e
      | .ok ((n, o), s') => .ok (.mig n o, s')
  | .rmpage v =>
    match removePage s v with
    | .error e => .error e
    | .ok s' => .ok (.ok, s')
  | .apg c d v u =>
    match s.ctxs[c]? with
    | none => .error .badOp
    | some cx =>
      match allocGiven s cx.pid d v u with
      | .error e => .error e
      | .ok (pg, s') => .ok (.ptr pg.paddr, s')
  | .rfb c =>
    match s.ctxs[c]? with
    | none => .error .badOp
    | some cx => .ok (.ok, setCtx s c { cx with bufs := removeFreedBuffers cx.bufs })

/-- a whole history; the first fault ends it -/
def run : State → List Op → Except Fault State
  | s, [] => .ok s
  | s, op :: ops =>
    match step s op with
    | .error e => .error e
    | .ok (_, s') => run s' ops

/-- driver.Builder.Build + RegisterGPU: page size, CPU and GPU sizes in bytes -/
def initState (ps cpu : Nat) (gpus : List Nat) : State :=
  let s0 : State := { ps := ps, total := ps, devs := [], pool := { frees := [], nexts := [] }, cursors := [],
                      mirror := [], npages := [], pt := [], ctxs := [], npid := 0, leaked := 0 }
  gpus.foldl (fun s g => registerDevice s .gpu g []) (registerDevice s0 .cpu cpu [])

/-! ## conservation of physical pages (derived quantities: not part of `dump`, no effect on `step`) -/

/-- every physical page start of the devices, as `RegisterDevice` queued them (Build + RegisterGPU list) -/
def allPages (ps cpu : Nat) (gpus : List Nat) : List Nat := (initState ps cpu gpus).pool.frees.flatten

/-- the physical pages mapped by the page table -/
def livePages (s : State) : List Nat := s.pt.map (·.paddr)

/-- physical pages of `all` that are neither on a free list nor mapped: lost to the allocator -/
def lostPages (all : List Nat) (s : State) : List Nat :=
  all.filter fun p => !(s.pool.frees.flatten.contains p) && !((livePages s).contains p)

/-- an operation that gives back (or keeps) every physical page it handles: everything except
AllocatePageWithGivenVAddr and page migration, whose replaced page is still read by the page migration controller -/
def Op.keepsPages : Op → Bool
  | .mig _ _ _ => false
  | .apg _ _ _ _ => false
  | _ => true

/-- an operation that overwrites no page-table entry in place -/
def Op.noRehome : Op → Bool
  | .remap _ _ _ _ => false
  | .dist _ _ _ _ => false
  | .mig _ _ _ => false
  | .apg _ _ _ _ => false
  | _ => true

/-! ## the code before the repair of the Remap leak (kept for the `_before_fix` witnesses): the loop of
allocateMultiplePagesWithGivenVAddrs overwrote the entry and never gave the replaced page back -/

def remapLoopOld (pid : Nat) (unified : Bool) : List Nat → List Nat → State → Except Fault State
  | v :: vs, p :: ps, s =>
    match devOf s.devs p with
    | none => .error .noDevice
    | some dev =>
      let pg : Page := { pid := pid, vaddr := v, paddr := p, dev := dev, unified := unified, migrating := false }
      match ptUpdate s.pt pg with
      | .error e => .error e
      | .ok pt' => remapLoopOld pid unified vs ps { s with pt := pt', mirror := (v, pg) :: s.mirror, leaked := s.leaked + 1 }
  | _, _, s => .ok s

def remapOld (s : State) (pid addr bytes d : Nat) : Except Fault State :=
  let vs := remapVAddrs s.ps addr bytes
  match allocMulti s.devs s.pool d vs.length with
  | .error e => .error e
  | .ok (ps, pool') => remapLoopOld pid false vs ps { s with pool := pool' }

def remapAllOld (pid : Nat) (ids : List Nat) : List (Nat × Nat × Nat) → State → Except Fault State
  | [], s => .ok s
  | (a, b, i) :: rest, s =>
    match remapOld s pid a b (ids.getD i 0) with
    | .error e => .error e
    | .ok s' => remapAllOld pid ids rest s'

def distributeOld (s : State) (pid addr bytes : Nat) (ids : List Nat) : Except Fault (List Nat × State) :=
  if ids.length = 1 then .ok ([bytes], s)
  else if addr % s.ps ≠ 0 then .error .unaligned
  else if ids.length = 0 then .error .divzero
  else
    match remapAllOld pid ids (distPlan s.ps addr bytes ids.length) s with
    | .error e => .error e
    | .ok s' => .ok (distBytes s.ps bytes ids.length, s')

def stepOld (s : State) : Op → Except Fault (Res × State)
  | .remap c addr bytes d =>
    match s.ctxs[c]? with
    | none => .error .badOp
    | some cx =>
      match remapOld s cx.pid addr bytes d with
      | .error e => .error e
      | .ok s' => .ok (.ok, s')
  | .dist c addr bytes ids =>
    match s.ctxs[c]? with
    | none => .error .badOp
    | some cx =>
      match distributeOld s cx.pid addr bytes ids with
      | .error e => .error e
      | .ok (bs, s') => .ok (.bytes bs, s')
  | op => step s op

def runOld : State → List Op → Except Fault State
  | s, [] => .ok s
  | s, op :: ops =>
    match stepOld s op with
    | .error e => .error e
    | .ok (_, s') => runOld s' ops

/-! ## composition: the allocator layer over an ABSTRACT device memory state

`memoryAllocatorImpl` talks to a device's memory through the interface `deviceMemoryState`
(`devicememstateinterface.go`): `Device.allocatePage`, `Device.allocateMultiplePages`, `addSinglePAddr`. The model above
fixes that interface to the default FIFO free list (`Pool`); here the same allocator code (`allocatePages`, `removePage`,
`Free`, `allocateMultiplePagesWithGivenVAddrs` with the repaired release of the replaced page, `Remap`, `Distribute`) is
written once over an interface `Iface σ`, for ONE process and plain (CPU/GPU) devices — no unified device, no page
migration. `buddyIface` instantiates it with the buddy model (`MgpuModel/C10Buddy.lean`): the `c10 comp …` case lines
(whole-driver histories on buddy devices, harness/c10_comp.go); `fifoIface` with the FIFO free list. -/
namespace Comp

/-- `deviceMemoryState` as the allocator uses it (through `Device`) -/
structure Iface (σ : Type) where
  /-- Device.allocatePage (mustHaveSpaceLeft + one page) -/
  allocPage : σ → Except Fault (Nat × σ)
  /-- Device.allocateMultiplePages -/
  allocMulti : σ → Nat → Except Fault (List Nat × σ)
  /-- addSinglePAddr -/
  addSingle : σ → Nat → Except Fault σ

structure GState (σ : Type) where
  ps : Nat
  devs : List Dev                -- static ranges, device ID = index
  mem : List σ                   -- the memory state of each device
  pid : Nat                      -- the one process
  cursor : Nat                   -- its nextVAddr
  mirror : List (Nat × Page)     -- vAddrToPageMapping
  npages : List (Nat × Nat)      -- allocationNumPages
  pt : List Page                 -- vm.PageTable
  gpu : Nat                      -- the context's current device

variable {σ : Type}

/-- the loop of allocatePages -/
def allocLoop (I : Iface σ) (d : Nat) : Nat → Nat → GState σ → Except Fault (GState σ)
  | 0, _, s => .ok s
  | k + 1, v, s =>
    match s.mem[d]? with
    | none => .error .nilderef
    | some m =>
      match I.allocPage m with
      | .error e => .error e
      | .ok (p, m') =>
        match devOf s.devs p with
        | none => .error .noDevice
        | some dev =>
          let pg : Page := { pid := s.pid, vaddr := v, paddr := p, dev := dev, unified := false, migrating := false }
          match ptInsert s.pt pg with
          | .error e => .error e
          | .ok pt' =>
            allocLoop I d k (v + s.ps) { s with mem := s.mem.set d m', pt := pt', mirror := (v, pg) :: s.mirror }

/-- MemoryAllocator.Allocate -/
def allocate (I : Iface σ) (s : GState σ) (bytes d : Nat) : Except Fault (Nat × GState σ) :=
  if bytes = 0 then .error .zeroBytes else
  let n := numPagesOf s.ps bytes
  match allocLoop I d n s.cursor s with
  | .error e => .error e
  | .ok s' => .ok (s.cursor, { s' with cursor := s.cursor + s.ps * n, npages := (s.cursor, n) :: s'.npages })

/-- removePage: `addSinglePAddr` first, then `pageTable.Remove` -/
def removePage (I : Iface σ) (s : GState σ) (v : Nat) : Except Fault (GState σ) :=
  match lookup s.mirror v with
  | none => .error .mirrorMissing
  | some pg =>
    match devOf s.devs pg.paddr with
    | none => .error .noDevice
    | some d =>
      match s.mem[d]? with
      | none => .error .nilderef
      | some m =>
        match I.addSingle m pg.paddr with
        | .error e => .error e
        | .ok m' =>
          match ptRemove s.pt pg.pid pg.vaddr with
          | .error e => .error e
          | .ok pt' => .ok { s with mem := s.mem.set d m', pt := pt' }

def removePages (I : Iface σ) : List Nat → GState σ → Except Fault (GState σ)
  | [], s => .ok s
  | v :: vs, s =>
    match removePage I s v with
    | .error e => .error e
    | .ok s' => removePages I vs s'

def freeVAddrs (s : GState σ) (ptr : Nat) : List Nat :=
  ptr :: (List.range ((lookup s.npages ptr).getD 0 - 1)).map fun i => ptr + (i + 1) * s.ps

/-- MemoryAllocator.Free -/
def free (I : Iface σ) (s : GState σ) (ptr : Nat) : Except Fault (GState σ) :=
  removePages I (freeVAddrs s ptr) { s with npages := (ptr, 0) :: s.npages }

/-- the repaired end of one iteration of allocateMultiplePagesWithGivenVAddrs: the page the allocator's record names
goes back to the device that owns it (when the record belongs to the calling process) -/
def releaseReplaced (I : Iface σ) (s : GState σ) (replaced : Option Page) : Except Fault (GState σ) :=
  match replaced with
  | some old =>
    if old.pid = s.pid then
      match devOf s.devs old.paddr with
      | none => .error .noDevice
      | some d =>
        match s.mem[d]? with
        | none => .error .nilderef
        | some m =>
          match I.addSingle m old.paddr with
          | .error e => .error e
          | .ok m' => .ok { s with mem := s.mem.set d m' }
    else .ok s
  | none => .ok s

/-- the loop of allocateMultiplePagesWithGivenVAddrs -/
def remapLoop (I : Iface σ) : List Nat → List Nat → GState σ → Except Fault (GState σ)
  | v :: vs, p :: ps, s =>
    match devOf s.devs p with
    | none => .error .noDevice
    | some dev =>
      let pg : Page := { pid := s.pid, vaddr := v, paddr := p, dev := dev, unified := false, migrating := false }
      match ptUpdate s.pt pg with
      | .error e => .error e
      | .ok pt' =>
        match releaseReplaced I { s with pt := pt', mirror := (v, pg) :: s.mirror } (lookup s.mirror v) with
        | .error e => .error e
        | .ok s1 => remapLoop I vs ps s1
  | _, _, s => .ok s

/-- MemoryAllocator.Remap -/
def remap (I : Iface σ) (s : GState σ) (addr bytes d : Nat) : Except Fault (GState σ) :=
  let vs := remapVAddrs s.ps addr bytes
  match s.mem[d]? with
  | none => .error .nilderef
  | some m =>
    match I.allocMulti m vs.length with
    | .error e => .error e
    | .ok (ps, m') => remapLoop I vs ps { s with mem := s.mem.set d m' }

def remapAll (I : Iface σ) (ids : List Nat) : List (Nat × Nat × Nat) → GState σ → Except Fault (GState σ)
  | [], s => .ok s
  | (a, b, i) :: rest, s =>
    match remap I s a b (ids.getD i 0) with
    | .error e => .error e
    | .ok s' => remapAll I ids rest s'

/-- Driver.Distribute -/
def distribute (I : Iface σ) (s : GState σ) (addr bytes : Nat) (ids : List Nat) : Except Fault (GState σ) :=
  if ids.length = 1 then .ok s
  else if addr % s.ps ≠ 0 then .error .unaligned
  else if ids.length = 0 then .error .divzero
  else remapAll I ids (distPlan s.ps addr bytes ids.length) s

/-- driver operations of the one context -/
inductive DOp
  | sel (gpu : Nat)
  | alloc (bytes : Nat)
  | free (ptr : Nat)
  | remap (addr bytes dev : Nat)
  | dist (addr bytes : Nat) (ids : List Nat)
  | rmpage (v : Nat)
deriving Repr

def step (I : Iface σ) (s : GState σ) : DOp → Except Fault (GState σ)
  | .sel g => if g ≥ s.devs.length then .error .selRange else .ok { s with gpu := g }
  | .alloc bytes =>
    match allocate I s bytes s.gpu with
    | .error e => .error e
    | .ok (_, s') => .ok s'
  | .free ptr => free I s ptr
  | .remap a b d => remap I s a b d
  | .dist a b ids => distribute I s a b ids
  | .rmpage v => removePage I s v

def run (I : Iface σ) : GState σ → List DOp → Except Fault (GState σ)
  | s, [] => .ok s
  | s, op :: ops =>
    match step I s op with
    | .error e => .error e
    | .ok s' => run I s' ops

/-! ## instance 1: buddy devices -/

def bfault : Buddy.Fault → Fault
  | .oom => .oom | .bounds => .bounds | .noDevice => .noDevice

def liftB {α : Type} : Except Buddy.Fault α → Except Fault α
  | .ok a => .ok a
  | .error e => .error (bfault e)

/-- Device.allocatePage / allocateMultiplePages / addSinglePAddr on a `deviceBuddyMemoryState` (with the allocator's
`deviceIDByPAddr` check of every page handed out, as in `Buddy.popOne` / `Buddy.amOp`) -/
def buddyIface : Iface Buddy.State where
  allocPage := fun m => liftB (Buddy.popOne m)
  allocMulti := fun m n => liftB (Buddy.amOp m n)
  addSingle := fun m p => liftB (Buddy.addSingle m p)

/-- RegisterDevice of devices of `4096 * 2^F` bytes (one exponent per device), the first at `b` -/
def bdevsFrom : Nat → List Nat → List Dev
  | _, [] => []
  | b, F :: Fs => { kind := .gpu, base := b, size := 4096 * 2 ^ F, actual := [] } :: bdevsFrom (b + 4096 * 2 ^ F) Fs

/-- Build + RegisterGPU with the buddy allocator selected: device 0 (the CPU) starts at 4096 (`kind` is not read by
this layer), every device owns a fresh buddy state; one process, its context on device 1 -/
def binit (Fs : List Nat) : GState Buddy.State :=
  { ps := 4096, devs := bdevsFrom 4096 Fs, mem := (bdevsFrom 4096 Fs).map fun d => Buddy.init d.base d.size,
    pid := 1, cursor := 4096, mirror := [], npages := [], pt := [], gpu := 1 }

/-! ## instance 2: the FIFO free list of `deviceMemoryStateImpl` -/

def fifoIface : Iface (List Nat) where
  allocPage := fun m => match m with | p :: fs => .ok (p, fs) | [] => .error .oom
  allocMulti := fun m n =>
    if m.isEmpty then .error .oom else if m.length < n then .error .bounds else .ok (m.take n, m.drop n)
  addSingle := fun m p => .ok (m ++ [p])

end Comp

/-! ## line protocol -/

def flg (b : Bool) (c : String) : String := if b then c else "-"

def insertSorted (pg : Page) : List Page → List Page
  | [] => [pg]
  | q :: qs => if pg.pid < q.pid || (pg.pid == q.pid && pg.vaddr ≤ q.vaddr) then pg :: q :: qs else q :: insertSorted pg qs

def dump (s : State) : String :=
  let es := s.pt.foldl (fun acc pg => insertSorted pg acc) []
  let pt := joinWith "," (es.map fun e => s!"p{e.pid}:{toHex e.vaddr}>{toHex e.paddr}@{e.dev}{flg e.unified "u"}{flg e.migrating "m"}")
  let fr := joinWith " " ((List.range s.devs.length).map fun i =>
    let d := s.devs.getD i { kind := .cpu, base := 0, size := 0, actual := [] }
    let fl := s.pool.frees.getD i []
    let body := if fl.length > 64 then s!"#{fl.length}:{toHex (fl.headD 0)}:{toHex (fl.getLastD 0)}"
                else joinWith "," (fl.map toHex)
    s!"d{i}[{toHex d.base}+{toHex d.size}]n{s.pool.nexts.getD i 0}:{body}")
  let cx := joinWith " " ((List.range s.ctxs.length).map fun i =>
    let c := s.ctxs.getD i { pid := 0, gpu := 0, bufs := [] }
    let bs := joinWith "," (c.bufs.map fun b => s!"{toHex b.vaddr}+{b.size}{flg b.freed "f"}")
    s!"c{i}=p{c.pid}[{bs}]")
  "PT{" ++ pt ++ "} FR{" ++ fr ++ "} CX{" ++ cx ++ "}"

def fnvStr (s : String) : Nat :=
  s.foldl (fun h c => ((h ^^^ c.toNat) * 1099511628211) % 18446744073709551616) 14695981039346656037

def Res.str : Res → String
  | .ok => "ok"
  | .ptr v => "=" ++ toHex v
  | .id n => s!"={n}"
  | .bytes l => "=" ++ joinWith "," (l.map toString)
  | .mig n o => s!"={toHex n}/{toHex o}"

def idList? (s : String) : Option (List Nat) := natList? s

def parseOp (t : List String) : Option Op :=
  match t with
  | ["init"] => some .init
  | ["initpid", c] => c.toNat?.map .initpid
  | ["sel", c, g] => do some (.sel (← c.toNat?) (← g.toNat?))
  | ["unify", c, ids] => do some (.unify (← c.toNat?) (← idList? ids))
  | ["alloc", c, b] => do some (.alloc (← c.toNat?) (← hexNat? b))
  | ["allocu", c, b] => do some (.allocu (← c.toNat?) (← hexNat? b))
  | ["free", c, p] => do some (.free (← c.toNat?) (← hexNat? p))
  | ["remap", c, a, b, d] => do some (.remap (← c.toNat?) (← hexNat? a) (← hexNat? b) (← d.toNat?))
  | ["dist", c, a, b, ids] => do some (.dist (← c.toNat?) (← hexNat? a) (← hexNat? b) (← idList? ids))
  | ["mig", c, v, g] => do some (.mig (← c.toNat?) (← hexNat? v) (← g.toNat?))
  | ["rmpage", v] => (hexNat? v).map .rmpage
  | ["apg", c, d, v, u] => do some (.apg (← c.toNat?) (← d.toNat?) (← hexNat? v) ((← u.toNat?) == 1))
  | ["rfb", c] => c.toNat?.map .rfb
  | _ => none

/-! ## `c10 comp fs=<F>,<F>,… v=<0|1> ; op ; …`: whole-driver histories of one context on buddy devices of
`4096 * 2^F` bytes (device 0 = CPU). Ops in the syntax of the other lines, context 0 only (`sel 0 g`, `alloc 0 b`,
`free 0 p`, `remap 0 a b d`, `dist 0 a b ids`, `rmpage v`). Answer per op: the result, then the page table and the
free blocks of every device's buddy state. -/
namespace Comp

def toDOp : Op → Option DOp
  | .sel 0 g => some (.sel g)
  | .alloc 0 b => some (.alloc b)
  | .free 0 p => some (.free p)
  | .remap 0 a b d => some (.remap a b d)
  | .dist 0 a b ids => some (.dist a b ids)
  | .rmpage v => some (.rmpage v)
  | _ => none

def resStr (s : GState Buddy.State) : DOp → String
  | .alloc _ => "=" ++ toHex s.cursor
  | .dist _ b ids => "=" ++ joinWith "," ((if ids.length = 1 then [b] else distBytes s.ps b ids.length).map toString)
  | _ => "ok"

def bdump (s : GState Buddy.State) : String :=
  let es := s.pt.foldl (fun acc pg => insertSorted pg acc) []
  "PT{" ++ joinWith "," (es.map fun e => s!"{toHex e.vaddr}>{toHex e.paddr}@{e.dev}") ++ "} BD{" ++
    joinWith " | " (s.mem.map Buddy.dump) ++ "}"

def runTrace (verbose : Bool) : GState Buddy.State → List (List String) → List String → List String
  | _, [], acc => acc.reverse
  | s, t :: ts, acc =>
    match (parseOp t).bind toDOp with
    | none => ("bad-op" :: acc).reverse
    | some op =>
      match step buddyIface s op with
      | .error e => (e.str :: acc).reverse
      | .ok s' =>
        let d := bdump s'
        let o := if verbose then resStr s op ++ " " ++ d else resStr s op ++ " #" ++ toHex (fnvStr d)
        runTrace verbose s' ts (o :: acc)

def handle (first : String) (rest : List String) : String :=
  let t := words first
  match (kv? t "fs").bind idList?, kvNat? t "v" with
  | some fs, some v => joinWith " ; " (runTrace (v == 1) (binit fs) (rest.map words) [])
  | _, _ => "bad"

end Comp

/-- run the ops, collecting the per-step outputs and the last dump; stops at the first fault -/
def runTrace (verbose : Bool) : State → List (List String) → List String → String → List String × String
  | _, [], acc, last => (acc.reverse, last)
  | s, t :: ts, acc, last =>
    match parseOp t with
    | none => (("bad-op" :: acc).reverse, last)
    | some op =>
      match step s op with
      | .error e => ((e.str :: acc).reverse, last)
      | .ok (r, s') =>
        let d := dump s'
        let o := if verbose then r.str ++ " " ++ d else r.str ++ " #" ++ toHex (fnvStr d)
        runTrace verbose s' ts (o :: acc) d

/-- `c10 lost l2= cpu= gpus= ; op ; …` lines: after every step the ghost counter of physical pages that were
replaced and not given back, and the physical pages that are neither free nor mapped (`rel <paddr>` =
ReleasePhysicalPage) -/
def runLost (all : List Nat) : State → List (List String) → List String → List String
  | _, [], acc => acc.reverse
  | s, ["rel", p] :: ts, acc =>
    -- `rel <hex paddr>`: MemoryAllocator.ReleasePhysicalPage (not a history operation of `step`)
    match (hexNat? p).map (releasePage s) with
    | none => ("bad-op" :: acc).reverse
    | some (.error e) => (e.str :: acc).reverse
    | some (.ok s') =>
      runLost all s' ts (s!"k={s'.leaked} lost={joinWith "," ((lostPages all s').map toHex)}" :: acc)
  | s, t :: ts, acc =>
    match parseOp t with
    | none => ("bad-op" :: acc).reverse
    | some op =>
      match step s op with
      | .error e => (e.str :: acc).reverse
      | .ok (_, s') =>
        runLost all s' ts (s!"k={s'.leaked} lost={joinWith "," ((lostPages all s').map toHex)}" :: acc)

def handleLost (first : String) (rest : List String) : String :=
  let t := words first
  match kvNat? t "l2", kvNat? t "cpu", (kv? t "gpus").bind idList? with
  | some l2, some cpu, some gpus =>
    let ps := 2 ^ l2
    let s0 := initState ps (cpu * ps) (gpus.map (· * ps))
    joinWith " ; " (runLost (allPages ps (cpu * ps) (gpus.map (· * ps))) s0 (rest.map words) [])
  | _, _, _ => "bad"

/-- `c10 reg l2= cpub=<hex bytes> gpub=<hex bytes>,…`: Build + RegisterGPU with sizes given in BYTES (not
necessarily page multiples): the dump of the devices and their free lists -/
def handleReg (first : String) : String :=
  let t := words first
  match kvNat? t "l2", kvHex? t "cpub", (kv? t "gpub").bind Buddy.hexList? with
  | some l2, some cpu, some gpus => dump (initState (2 ^ l2) cpu gpus)
  | _, _, _ => "bad"

def handle (line : String) : String :=
  match splitTrim line ";" with
  | [] => "bad"
  | first :: rest =>
    let t := words first
    -- `c10 buddy …` lines: the buddy allocator's own model (MgpuModel/C10Buddy.lean)
    if t.getD 1 "" == "buddy" then (if kvNat? t "x" == some 1 then Buddy.handleX line else Buddy.handle line) else
    if t.getD 1 "" == "lost" then handleLost first rest else
    if t.getD 1 "" == "reg" then handleReg first else
    if t.getD 1 "" == "comp" then Comp.handle first rest else
    match kvNat? t "l2", kvNat? t "cpu", (kv? t "gpus").bind idList?, kvNat? t "v" with
    | some l2, some cpu, some gpus, some v =>
      let ps := 2 ^ l2
      let s0 := initState ps (cpu * ps) (gpus.map (· * ps))
      let (outs, last) := runTrace (v == 1) s0 (rest.map words) [] ""
      joinWith " ; " outs ++ " | " ++ last
    | _, _, _, _ => "bad"

end C10
