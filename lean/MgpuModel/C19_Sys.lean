import MgpuModel.C19World
import MgpuModel.C19_Cp
import MgpuModel.C19_Drv
/-! # C19 — the migration handshake as ONE closed system

`Sys` composes the pieces that are tied to the code separately:

* `drv : DR.Drv` — the migration stages of `Driver.Tick` (`C19_Drv.lean`, `c19 drv` lines),
* `cp g : CP.Cp` — the control path of the command processor of GPU `g` (`C19_Cp.lean`, `c19 cp` lines),
* `w : World` — the two page migration controllers with their memories and network (`C19World.lean`,
  `c19 mig` lines); controller `i` belongs to GPU `i` (`i < 2`),

with glue that is NOT code: Akita connections (the head of an outgoing buffer moves to the destination's
incoming buffer when there is room, at any later time), abstract acknowledging components per GPU — the
RDMA engine, the compute units, the address translators, the caches, the TLBs: each takes the requests
the command processor sends it and answers every request exactly once, in any order, after any delay —
and an MMU that sends one migration request at a time. The components carry ghost flags: a component is
*quiet* from the moment it acknowledges a drain / flush until the moment it takes a restart request
(the most pessimistic reading: it may run until it acknowledges, and runs again as soon as it sees the
restart). Nothing here is executed by the correspondence; the step functions used are the tied ones. -/
namespace C19
namespace SY
open CP (Cp Cls K Sub Cmd Ans)
open DR (Drv MmuReq MigCmd)

def upd {α : Type} (f : Nat → α) (g : Nat) (v : α) : Nat → α := fun x => if x = g then v else f x

/-- the acknowledging components of one GPU: requests taken and not yet answered, per class, and the
    ghost sets of quiet components (RDMA engine: index 0) -/
structure Comps where
  pRdma : List Sub := []
  pCU : List Sub := []
  pAT : List Sub := []
  pCache : List Sub := []
  pTLB : List Sub := []
  qRdma : List Nat := []
  qCU : List Nat := []
  qAT : List Nat := []
  qCache : List Nat := []
  qTLB : List Nat := []
deriving Repr, Inhabited

def Comps.pend (m : Comps) : Cls → List Sub
  | .rdma => m.pRdma
  | .cu => m.pCU
  | .at => m.pAT
  | .cache => m.pCache
  | .tlb => m.pTLB
  | .pmc => []
def Comps.setPend (m : Comps) (c : Cls) (l : List Sub) : Comps :=
  match c with
  | .rdma => { m with pRdma := l }
  | .cu => { m with pCU := l }
  | .at => { m with pAT := l }
  | .cache => { m with pCache := l }
  | .tlb => { m with pTLB := l }
  | .pmc => m
def Comps.quiet (m : Comps) : Cls → List Nat
  | .rdma => m.qRdma
  | .cu => m.qCU
  | .at => m.qAT
  | .cache => m.qCache
  | .tlb => m.qTLB
  | .pmc => []
def Comps.setQuiet (m : Comps) (c : Cls) (l : List Nat) : Comps :=
  match c with
  | .rdma => { m with qRdma := l }
  | .cu => { m with qCU := l }
  | .at => { m with qAT := l }
  | .cache => { m with qCache := l }
  | .tlb => { m with qTLB := l }
  | .pmc => m

structure Sys where
  drv : Drv := {}
  cp : Nat → Cp := fun _ => {}
  cm : Nat → Comps := fun _ => {}
  w : World := {}
  /-- completions collected from controller `g`, not yet delivered to the PMC port of CP `g` -/
  back : Nat → Nat := fun _ => 0
  /-- the MMU: ids of the requests it sent (accepted by the driver's port), of the answers it took -/
  mmuSent : List Nat := []
  mmuGot : List Nat := []

inductive Mv
  /-- stage `k` of `Driver.Tick` / the whole tick -/
  | dstage (k : Nat)
  | dtick
  /-- stage `k` of one pass of CP `g` / its whole tick -/
  | cstage (g k : Nat)
  | ctick (g : Nat)
  /-- connection: head of the driver's GPU port → the driver port of its command processor -/
  | toCp
  /-- connection: head of CP `g`'s driver port → the driver's GPU port -/
  | toDrv (g : Nat)
  /-- a component of class `c` of GPU `g` takes the head of the CP's outgoing buffer -/
  | take (g : Nat) (c : Cls)
  /-- the `j`-th pending request of class `c` of GPU `g` is acknowledged -/
  | ack (g : Nat) (c : Cls) (j : Nat)
  /-- the page migration controller of GPU `g` takes the request of its CP -/
  | pmcTake (g : Nat)
  /-- its completion is picked up / delivered to the CP -/
  | pmcColl (g : Nat)
  | pmcBack (g : Nat)
  /-- a move inside the two-controller system -/
  | world (o : Op)
  | mmuSend (r : MmuReq)
  | mmuTake

def cstageFn (k : Nat) : Cp → Cp × Bool := CP.stages.getD k (fun s => (s, false))
def dstageFn (k : Nat) : Drv → Drv × Bool := DR.stages.getD k (fun d => (d, false))

def quietOn (m : Comps) (c : Cls) (x : Sub) : Comps :=
  match x.k with
  | .flush => m.setQuiet c (x.i :: m.quiet c)
  | _ => m
def quietOff (m : Comps) (c : Cls) (x : Sub) : Comps :=
  match x.k with
  | .restart => m.setQuiet c ((m.quiet c).filter (· != x.i))
  | _ => m

/-- a component of class `cl` takes the head of the command processor's outgoing buffer -/
def takeG (c : Cp) (m : Comps) (cl : Cls) : Cp × Comps :=
  if cl = .pmc then (c, m) else
  match c.out cl with
  | [] => (c, m)
  | x :: rest => (c.setOut cl rest, quietOff (m.setPend cl (m.pend cl ++ [x])) cl x)

/-- the `j`-th pending request of class `cl` is acknowledged (if the incoming buffer has room) -/
def ackG (c : Cp) (m : Comps) (cl : Cls) (j : Nat) : Cp × Comps :=
  let p := m.pend cl
  match p[j % p.length]? with
  | none => (c, m)
  | some x =>
    if (c.inn cl).length < c.capIn then
      (c.setIn cl (c.inn cl ++ [⟨x.k, x.i, 0⟩]), quietOn (m.setPend cl (p.eraseIdx (j % p.length))) cl x)
    else (c, m)

def step (s : Sys) : Mv → Sys
  | .dstage k => { s with drv := (dstageFn k s.drv).1 }
  | .dtick => { s with drv := s.drv.tick.1 }
  | .cstage g k => { s with cp := upd s.cp g (cstageFn k (s.cp g)).1 }
  | .ctick g => { s with cp := upd s.cp g (s.cp g).tick.1 }
  | .toCp =>
    match s.drv.gpuOut with
    | [] => s
    | (g, c) :: rest =>
      if (s.cp g).drvIn.length < (s.cp g).capIn then
        { s with drv := { s.drv with gpuOut := rest }, cp := upd s.cp g { s.cp g with drvIn := (s.cp g).drvIn ++ [c] } }
      else s
  | .toDrv g =>
    match (s.cp g).drvOut with
    | [] => s
    | a :: rest =>
      if s.drv.gpuIn.length < s.drv.capGpuIn then
        { s with drv := { s.drv with gpuIn := s.drv.gpuIn ++ [a] }, cp := upd s.cp g { s.cp g with drvOut := rest } }
      else s
  | .take g c =>
    let r := takeG (s.cp g) (s.cm g) c
    { s with cp := upd s.cp g r.1, cm := upd s.cm g r.2 }
  | .ack g c j =>
    let r := ackG (s.cp g) (s.cm g) c j
    { s with cp := upd s.cp g r.1, cm := upd s.cm g r.2 }
  | .pmcTake g =>
    match (s.cp g).pmcOut with
    | [] => s
    | x :: rest =>
      match s.drv.migLog.find? (·.id == x.tag) with
      | none => s
      | some m =>
        if g < 2 then
          { s with cp := upd s.cp g { s.cp g with pmcOut := rest },
                   w := s.w.step (.submit g m.rd m.wr m.size m.peer) }
        else s
  | .pmcColl g =>
    if g < 2 ∧ (s.w.sys.pmc g).ctlOut ≠ [] then
      { s with w := s.w.step (.coll g), back := upd s.back g (s.back g + 1) }
    else s
  | .pmcBack g =>
    if 0 < s.back g ∧ (s.cp g).pmcIn.length < (s.cp g).capIn then
      { s with back := upd s.back g (s.back g - 1),
               cp := upd s.cp g { s.cp g with pmcIn := (s.cp g).pmcIn ++ [⟨.flush, 0, 0⟩] } }
    else s
  | .world o => { s with w := s.w.step o }
  | .mmuSend r =>
    if s.drv.mmuIn.length < 1 then
      { s with drv := { s.drv with mmuIn := s.drv.mmuIn ++ [r] }, mmuSent := s.mmuSent ++ [r.id] }
    else s
  | .mmuTake =>
    match s.drv.mmuOut with
    | [] => s
    | a :: rest => { s with drv := { s.drv with mmuOut := rest }, mmuGot := s.mmuGot ++ [a.1] }

/-! ## what the environment may do -/

def Op.isColl : Op → Bool
  | .coll _ => true
  | _ => false

/-- frames of device `d` (GPU `d-1`) lie inside the memory of controller `d-1`: free ones and mapped ones -/
def FramesIn (a : Alloc) (s : C19.Sys) : Prop :=
  ∀ d, d = 1 ∨ d = 2 →
    (∀ f ∈ a.free.getD d [], f + (1 <<< a.lg) ≤ (s.mem (d - 1)).size) ∧
    (∀ pg ∈ a.table, pg.dev = d → pg.paddr + (1 <<< a.lg) ≤ (s.mem (d - 1)).size)

/-- the allocator keeps its frames where its address ranges say: every device with a range has a free list, a
    free frame of device `d` and the frame of a page recorded on device `d` lie in the range of device `d` — so
    `deviceIDByPAddr` (`Alloc.deviceOf`) finds the device a frame came from when `ReleasePhysicalPage` gives
    it back -/
def RangeOK (a : Alloc) : Prop :=
  a.range.length ≤ a.free.length ∧
  (∀ d, d < a.free.length → ∀ f ∈ a.free.getD d [], a.deviceOf f = some d) ∧
  (∀ pg ∈ a.table, a.deviceOf pg.paddr = some pg.dev)

/-- number of pages a request wants on GPU `g` (0-based) -/
def wants (ngpu : Nat) (r : MmuReq) (g : Nat) : Nat := ((migOrder ngpu r.map).filter (·.1 = g)).length

/-- a migration request the MMU may send in state `s`: the previous answer was taken (the shipped MMU has
    one request outstanding), fresh id, a registered process, host and requesters among the two GPUs that
    have a modelled controller and different from each other, distinct pages that the table maps to the
    host, a page size equal to the allocator's (a multiple of 64), enough free frames on the requesters,
    a non-empty duplicate-free list of existing accessing GPUs, at least one page (and fewer than 2^64
    pages and accessing GPUs: the counters are `uint64`) -/
def MmuOK (s : Sys) (r : MmuReq) : Prop :=
  s.mmuGot.length = s.mmuSent.length ∧ r.id = s.mmuSent.length ∧
  r.pid ∈ s.drv.pids ∧ (r.host = 1 ∨ r.host = 2) ∧
  (∀ x ∈ migOrder s.drv.ngpu r.map, x.1 < 2 ∧ x.1 + 1 ≠ r.host ∧
      x.2 = (x.2 >>> s.drv.alloc.lg) <<< s.drv.alloc.lg ∧
      ∃ pg, s.drv.alloc.find r.pid x.2 = some pg ∧ pg.dev = r.host) ∧
  ((migOrder s.drv.ngpu r.map).map (·.2)).Nodup ∧ migOrder s.drv.ngpu r.map ≠ [] ∧
  r.pageSize = 1 <<< s.drv.alloc.lg ∧ r.pageSize % unit = 0 ∧
  (∀ g, g < 2 → wants s.drv.ngpu r g ≤ (s.drv.alloc.free.getD (g + 1) []).length) ∧
  r.acc ≠ [] ∧ r.acc.Nodup ∧ (∀ a ∈ r.acc, 1 ≤ a ∧ a ≤ s.drv.ngpu) ∧
  (migOrder s.drv.ngpu r.map).length < CP.w64 ∧ r.acc.length < CP.w64

def Mv.ok (s : Sys) : Mv → Prop
  | .world o => o.honest = true ∧ o.isSubmit = false ∧ Op.isColl o = false
  | .mmuSend r => MmuOK s r
  | _ => True

/-- sizes and capacities: every class has at least one component (a class without components never
    acknowledges: the command processor waits for ever) and every buffer holds a whole fan-out
    (shipped: 4096) -/
structure CfgOK (c : Cp) : Prop where
  hCU : 0 < c.nCU
  hAT : 0 < c.nAT
  hTLB : 0 < c.nTLB
  hCache : 0 < c.nCache
  capIn : 1 ≤ c.capIn ∧ c.nCU ≤ c.capIn ∧ c.nAT ≤ c.capIn ∧ c.nTLB ≤ c.capIn ∧ c.nCache ≤ c.capIn
  capDrv : 1 ≤ c.capDrv
  capRdma : 1 ≤ c.capRdma
  capPMC : 1 ≤ c.capPMC
  capCU : c.nCU ≤ c.capCU
  capAT : c.nAT ≤ c.capAT
  capTLB : c.nTLB ≤ c.capTLB
  capCache : c.nCache ≤ c.capCache
  small : c.nCU < CP.w64 ∧ c.nAT < CP.w64 ∧ c.nTLB < CP.w64 ∧ c.nCache < CP.w64

/-- an initial state: `ngpu ≥ 2` GPUs, every CP idle and well configured, the driver idle with an
    allocator whose frames lie inside the two memories and inside the address ranges of their devices,
    process 1 registered -/
structure Init (s : Sys) : Prop where
  ngpu : 2 ≤ s.drv.ngpu ∧ s.drv.ngpu < CP.w64 ∧ s.drv.nPmc = s.drv.ngpu
  caps : s.drv.ngpu + 1 ≤ s.drv.capGpuIn ∧ s.drv.ngpu + 1 ≤ s.drv.capGpuOut
  drv : s.drv = { ngpu := s.drv.ngpu, nPmc := s.drv.nPmc, capGpuIn := s.drv.capGpuIn, capGpuOut := s.drv.capGpuOut,
                  alloc := s.drv.alloc, pids := s.drv.pids }
  cfg : ∀ g, CfgOK (s.cp g)
  cp : ∀ g, s.cp g = { nCU := (s.cp g).nCU, nAT := (s.cp g).nAT, nTLB := (s.cp g).nTLB, nI := (s.cp g).nI,
                       nS := (s.cp g).nS, nV := (s.cp g).nV, n2 := (s.cp g).n2, capIn := (s.cp g).capIn,
                       capDrv := (s.cp g).capDrv, capRdma := (s.cp g).capRdma, capCU := (s.cp g).capCU,
                       capAT := (s.cp g).capAT, capCache := (s.cp g).capCache, capTLB := (s.cp g).capTLB,
                       capPMC := (s.cp g).capPMC }
  cm : ∀ g, s.cm g = {}
  w : ∃ m0 m1, s.w = { sys := { m0 := m0, m1 := m1 } }
  back : ∀ g, s.back g = 0
  mmu : s.mmuSent = [] ∧ s.mmuGot = []
  frames : FramesIn s.drv.alloc s.w.sys
  lg : (1 <<< s.drv.alloc.lg) % unit = 0 ∧ 0 < (1 <<< s.drv.alloc.lg)
  ranges : RangeOK s.drv.alloc

/-- the states reachable from an initial state by valid moves -/
inductive Reach : Sys → Prop
  | init {s : Sys} : Init s → Reach s
  | step {s : Sys} (m : Mv) : Reach s → m.ok s → Reach (step s m)

def run (s : Sys) (ms : List Mv) : Sys := ms.foldl step s

end SY
end C19
