/-! # C03 (scalar part) — the interface between a scalar handler and the machine state.

A scalar handler of either ALU reads its operands through `state.ReadOperand(inst.X, 0)`,
`SCC()`, `VCC()`, `EXEC()`, `PC()` and writes through `WriteOperand(inst.Dst, 0, v)`, `SetSCC`,
`SetVCC`, `SetEXEC`, `SetPC`.  `ScalarIn` is everything it can read, `ScalarOut` everything it
can write, with `none` = "not written" so that the frame is part of the value.  Both the
translated Go handlers (`Gen.<arch>.run_*`) and the ISA transcription (`C03S.Spec.*`) are
functions `ScalarIn → ScalarOut`. -/
namespace C03S

structure ScalarIn where
  /-- `ReadOperand(inst.Src0, 0)`: 64 bits; an inline integer arrives sign-extended, a literal and
      a 32-bit register zero-extended -/
  src0 : BitVec 64
  src1 : BitVec 64
  /-- `ReadOperand(inst.Dst, 0)` (SOPK compare/multiply read their destination) -/
  dstOld : BitVec 64
  scc : BitVec 8
  vcc : BitVec 64
  exec : BitVec 64
  /-- `state.PC()`: both compute units advance PC past the instruction before the ALU runs, so
      this is the address of the NEXT instruction (instruction address + 4 for these formats) -/
  pc : BitVec 64
  /-- `ReadOperand(inst.SImm16, 0)`: the raw 16-bit field, zero-extended -/
  simm16 : BitVec 64
deriving Repr, DecidableEq

structure ScalarOut where
  /-- value passed to `WriteOperand(inst.Dst, 0, ·)` (the register file keeps the low
      `dstWidth` bits) -/
  dst : Option (BitVec 64)
  scc : Option (BitVec 8)
  vcc : Option (BitVec 64)
  exec : Option (BitVec 64)
  pc : Option (BitVec 64)
deriving Repr, DecidableEq

def ScalarOut.nothing : ScalarOut := { dst := none, scc := none, vcc := none, exec := none, pc := none }

/-- what `WriteOperand` keeps of a value for a destination of `w` bits -/
def keep (w : Nat) (v : BitVec 64) : BitVec 64 := if w == 32 then (v.setWidth 32).setWidth 64 else v

/-- the architectural effect of an output record on a destination of `w` bits -/
def ScalarOut.norm (w : Nat) (o : ScalarOut) : ScalarOut := { o with dst := o.dst.map (keep w) }

/-- SCC is one bit -/
def ScalarIn.sccOk (i : ScalarIn) : Prop := i.scc = 0#8 ∨ i.scc = 1#8

/-- The architectural input of a scalar instruction: the SCC register is ONE bit (a `Bool`), all
    other fields as in `ScalarIn`.  `ScalarIn` (what the Go handlers see: `SCC() byte`) is obtained by
    `toIn`; `MgpuProofs/Props/C03S.lean: scc_is_bit` proves that every state reachable by executing
    scalar instructions from a state whose SCC is a bit has an input of this form. -/
structure ArchIn where
  src0 : BitVec 64
  src1 : BitVec 64
  dstOld : BitVec 64
  scc : Bool
  vcc : BitVec 64
  exec : BitVec 64
  pc : BitVec 64
  simm16 : BitVec 64
deriving Repr, DecidableEq

def ArchIn.toIn (a : ArchIn) : ScalarIn :=
  { src0 := a.src0, src1 := a.src1, dstOld := a.dstOld, scc := if a.scc then 1#8 else 0#8,
    vcc := a.vcc, exec := a.exec, pc := a.pc, simm16 := a.simm16 }

/-- the cells a scalar opcode may write (its architected destinations) -/
structure Writes where
  dst : Bool
  scc : Bool
  vcc : Bool
  exec : Bool
  pc : Bool
deriving Repr, DecidableEq

/-- what is written to SCC, if anything, is 0 or 1 -/
def SccBit (o : Option (BitVec 8)) : Prop := o = none ∨ o = some 0#8 ∨ o = some 1#8

/-- the output record touches only the cells `w` allows and keeps SCC a bit -/
def ScalarOut.WritesOnly (o : ScalarOut) (w : Writes) : Prop :=
  (w.dst = false → o.dst = none) ∧ (w.scc = false → o.scc = none) ∧ (w.vcc = false → o.vcc = none) ∧
  (w.exec = false → o.exec = none) ∧ (w.pc = false → o.pc = none) ∧ SccBit o.scc

/-! Go helpers used by translated handlers -/
namespace Go
/-- `bitops.ExtractBitsFromU32(n, lo, hi)` with `int` positions (Go: shift count ≥ width gives 0;
    a negative count panics — never reached with the constant arguments in the handlers) -/
def extractBitsU32 (n : BitVec 32) (lo hi : BitVec 64) : BitVec 32 :=
  let mask : BitVec 32 := ((1#32 <<< (hi - lo + 1#64).toNat) - 1#32) <<< lo.toNat
  (n &&& mask) >>> lo.toNat
end Go

end C03S
