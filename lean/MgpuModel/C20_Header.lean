import MgpuModel.C20_Parse
import MgpuModel.C20_Sys
/-! # C20 — trace header (`readTraceHeader` / `updateTraceHeaderParam`), `kernelslist.g`
(`generateExcutions` / `BuildExecFromText`) and the benchmark builder (`generateKernelTrace`)

Lines are `List Char` as in `C20_Parse.lean` (the lines `bufio.Scanner` delivers).  `fmt.Sscanf` is
modelled *exactly* for the verbs used here: every verb first skips Go white space; `%d` = optional
sign, maximal run of decimal digits (no `_`), `strconv.ParseInt` range, then the range of the field;
`%v` = optional sign (signed fields only), Go base prefix (`0x 0b 0o`, a leading `0` = octal), maximal
run of digits of that base and `_`, `strconv.underscoreOK`, range; literal characters of the format
must match the input exactly; input after the last verb/literal is ignored; any scan error makes the
caller `log.Panic` (= `fault:panic`). -/
namespace C20

/-! ## Go white space: `isSpaceC`, `skipSp` live in `C20_Parse.lean` -/

/-- `strings.TrimSpace` -/
def trimSp (s : List Char) : List Char := ((skipSp s).reverse.dropWhile isSpaceC).reverse

/-- `strings.Split(s, string(d))` -/
def splitOnC (d : Char) : List Char → List (List Char)
  | [] => [[]]
  | c :: r =>
    if c = d then [] :: splitOnC d r
    else match splitOnC d r with
      | h :: t => (c :: h) :: t
      | [] => [[c]]

/-! ## exact `Sscanf` verbs -/

/-- `%d` into a signed field of `bits` bits: value and rest of the input; `none` = scan error -/
def scanD (bits : Nat) (s : List Char) : Option (Int × List Char) :=
  let sg := splitSign (skipSp s)
  let run := sg.2.takeWhile (isDigit 10)
  if run.isEmpty then none
  else
    let i := signed sg.1 (valOf 10 run)
    if fits 64 i && fits bits i then some (i, sg.2.dropWhile (isDigit 10)) else none

/-- `%v` into a `uint64` (no sign is accepted) -/
def scanVU (s : List Char) : Option (Nat × List Char) :=
  match scanVMag (skipSp s) with
  | none => none
  | some (m, rest) => if m < 18446744073709551616 then some (m, rest) else none

/-- `Sscanf(v, "(%d,%d,%d)", &d[0], &d[1], &d[2])`: the closing parenthesis is required -/
def scanDim (v : List Char) : Option (Int × Int × Int) :=
  match v with
  | '(' :: r0 =>
    match scanD 32 r0 with
    | some (a, ',' :: r1) =>
      match scanD 32 r1 with
      | some (b, ',' :: r2) =>
        match scanD 32 r2 with
        | some (c, ')' :: _) => some (a, b, c)
        | _ => none
      | _ => none
    | _ => none
  | _ => none

/-! ## the header -/
structure KernelFileHeader where
  kernelName : List Char := []
  kernelID : Int := 0
  gridDim : Int × Int × Int := (0, 0, 0)
  blockDim : Int × Int × Int := (0, 0, 0)
  shmem : Int := 0
  nregs : Int := 0
  binaryVersion : Int := 0
  cudaStreamID : Int := 0
  shmemBaseAddr : Int := 0
  localMemBaseAddr : Int := 0
  nvbitVersion : List Char := []
  accelsimTracerVersion : List Char := []
  enableLineinfo : Bool := false
deriving DecidableEq, Repr

/-- `_, err = Sscanf(value, "%d", &int32)`; `err != nil` → `log.Panic` -/
def scanD1 (value : List Char) : Except Fault Int :=
  match scanD 32 value with
  | some (i, _) => .ok i
  | none => .error .panic

def scanV1 (value : List Char) : Except Fault Int :=
  match scanVI value with
  | some (i, _) => .ok i
  | none => .error .panic

def scanDim1 (value : List Char) : Except Fault (Int × Int × Int) :=
  match scanDim value with
  | some d => .ok d
  | none => .error .panic

/-- `updateTraceHeaderParam`, branch by branch -/
def updateParam (h : KernelFileHeader) (key value : List Char) : Except Fault KernelFileHeader :=
  if key = "kernel name".toList then .ok { h with kernelName := value }
  else if key = "kernel id".toList then (scanD1 value).map (fun i => { h with kernelID := i })
  else if key = "grid dim".toList then (scanDim1 value).map (fun d => { h with gridDim := d })
  else if key = "block dim".toList then (scanDim1 value).map (fun d => { h with blockDim := d })
  else if key = "shmem".toList then (scanD1 value).map (fun i => { h with shmem := i })
  else if key = "nregs".toList then (scanD1 value).map (fun i => { h with nregs := i })
  else if key = "binary version".toList then (scanD1 value).map (fun i => { h with binaryVersion := i })
  else if key = "cuda stream id".toList then (scanD1 value).map (fun i => { h with cudaStreamID := i })
  else if key = "shmem base_addr".toList then (scanV1 value).map (fun i => { h with shmemBaseAddr := i })
  else if key = "local mem base_addr".toList then (scanV1 value).map (fun i => { h with localMemBaseAddr := i })
  else if key = "nvbit version".toList then .ok { h with nvbitVersion := value }
  else if key = "accelsim tracer version".toList then .ok { h with accelsimTracerVersion := value }
  else if key = "enable lineinfo".toList then .ok { h with enableLineinfo := decide (value = ['1']) }
  else .error .panic -- "Unknown key"

/-- one line that starts with `-`, BEFORE the repair: `elems := strings.Split(text, "=")`,
    `key := strings.TrimSpace(elems[0])[1:]`, `value := strings.TrimSpace(elems[1])` (index panic when
    there is no `=`; what follows a second `=` was dropped) -/
def headerLineOld (h : KernelFileHeader) (text : List Char) : Except Fault KernelFileHeader :=
  let elems := splitOnC '=' text
  let key := (trimSp (elems.headD [])).drop 1
  match elems[1]? with
  | none => .error .bounds
  | some v => updateParam h key (trimSp v)

/-- the text behind the first `d` (`none`: no `d`) — `strings.SplitN(text, d, 2)[1]` -/
def afterFirst (d : Char) : List Char → Option (List Char)
  | [] => none
  | c :: r => if c = d then some r else afterFirst d r

/-- one line that starts with `-` (repaired): `elems := strings.SplitN(text, "=", 2)` — the text before the first `=`
    and everything behind it —, `key := strings.TrimSpace(elems[0])[1:]`, `value := strings.TrimSpace(elems[1])`
    (index panic when there is no `=`) -/
def headerLine (h : KernelFileHeader) (text : List Char) : Except Fault KernelFileHeader :=
  let key := (trimSp (text.takeWhile (fun c => c != '='))).drop 1
  match afterFirst '=' text with
  | none => .error .bounds
  | some v => updateParam h key (trimSp v)

/-- `readTraceHeader` over the lines of the file: returns the header and the lines the body parser
    sees (the line that ended the header is re-examined by `goToNextlineWithPrefixIncludingNow`) -/
def readHeader : KernelFileHeader → List (List Char) → Except Fault (KernelFileHeader × List (List Char))
  | h, [] => .ok (h, [])
  | h, l :: ls =>
    if l.isEmpty then readHeader h ls
    else if l.head? = some '-' then
      match headerLine h l with
      | .ok h' => readHeader h' ls
      | .error f => .error f
    else .ok (h, l :: ls)

/-- `ReadTrace`: header, then `readThreadblocks` (the repaired reader of `C20_Parse.lean`) -/
def parseFile (lines : List (List Char)) : Except Fault (KernelFileHeader × List TBT) :=
  match readHeader {} lines with
  | .error f => .error f
  | .ok (h, rest) =>
    match parseBody false true rest with
    | .error f => .error f
    | .ok ts => .ok (h, ts)

/-! ## `kernelslist.g` -/
inductive Exec
  | kernel (file : List Char)
  | memcpy (dir : List Char) (addr len : Nat)   -- `Direction`: the text in front of the first comma
deriving DecidableEq, Repr

def h2d : List Char := "MemcpyHtoD".toList
def d2h : List Char := "MemcpyDtoH".toList

/-- `TraceReader.BuildExecFromText` (repaired: the direction is kept whatever it is; `dirSel` = what becomes of the
    direction text, the identity) -/
def buildExecWith (dirSel : List Char → List Char) (text : List Char) : Except Fault Exec :=
  if hasPrefix "Memcpy" text then
    let d := text.takeWhile (fun c => c != ',')
    match text.dropWhile (fun c => c != ',') with
    | [] => .error .bounds                       -- textSplited[1]
    | _ :: rest =>
      match scanVU rest with                     -- Sscanf(rest, "%v,%v", &Address, &Length)
      | some (a, ',' :: r1) =>
        match scanVU r1 with
        | some (n, _) => .ok (.memcpy (dirSel d) a n)
        | none => .error .panic
      | _ => .error .panic
  else if hasPrefix "kernel" text then .ok (.kernel text)
  else .error .panic                             -- "Unknown execution type"

def buildExec (text : List Char) : Except Fault Exec := buildExecWith id text

/-- before the repair: `switch directionStr { case H2D: …; case D2H: … }` — any other direction became "" -/
def buildExecOld (text : List Char) : Except Fault Exec :=
  buildExecWith (fun d => if d = h2d ∨ d = d2h then d else []) text

/-- `generateExcutions` over the lines of `kernelslist.g` -/
def readKernelsList : List (List Char) → Except Fault (List Exec)
  | [] => .ok []
  | l :: ls =>
    if l.isEmpty then readKernelsList ls
    else
      match buildExec l with
      | .error f => .error f
      | .ok e =>
        match readKernelsList ls with
        | .error f => .error f
        | .ok es => .ok (e :: es)

/-! ## the benchmark builder -/

/-- `BenchmarkBuilder.generateKernelTrace`: the `nvidiaconfig.Kernel` handed to the driver; the
    instruction count of a warp is `len(w.Instructions)`, not the `insts = N` field -/
def kernelOf (ts : List TBT) : Kernel := ts.map (fun t => t.warps.map (fun w => w.insts.length))

inductive BenchExec
  | kernel (k : Kernel)
  | memcpy (dir : List Char) (addr len : Nat)
deriving DecidableEq, Repr

/-- the loop of `BenchmarkBuilder.Build` over the exec metas; `files name` = the lines of the trace
    file of that name (no lines when the file does not exist) -/
def benchExecs (files : List Char → List (List Char)) : List Exec → Except Fault (List BenchExec)
  | [] => .ok []
  | .memcpy d a n :: r =>
    match benchExecs files r with
    | .error f => .error f
    | .ok bs => .ok (.memcpy d a n :: bs)
  | .kernel f :: r =>
    match parseFile (files f) with
    | .error e => .error e
    | .ok (_, ts) =>
      match benchExecs files r with
      | .error e => .error e
      | .ok bs => .ok (.kernel (kernelOf ts) :: bs)

/-- `BenchmarkBuilder.Build`: the whole `kernelslist.g` is read first, then the trace files in order -/
def buildBench (files : List Char → List (List Char)) (klist : List (List Char)) : Except Fault (List BenchExec) :=
  match readKernelsList klist with
  | .error f => .error f
  | .ok es => benchExecs files es

/-- what `Run(driver)` of every exec hands to `Driver.RunKernel`, in order (`ExecMemcpy.Run` does nothing) -/
def driverKernels : List BenchExec → List Kernel
  | [] => []
  | .kernel k :: r => k :: driverKernels r
  | .memcpy _ _ _ :: r => driverKernels r

/-! ## spec side: serialisation -/

/-- `0x%016x` -/
def hex16 (n : Nat) : List Char := '0' :: 'x' :: pad 16 (showNat 16 n)

def renderDim (d : Int × Int × Int) : List Char :=
  '(' :: (showInt d.1 ++ ',' :: (showInt d.2.1 ++ ',' :: (showInt d.2.2 ++ [')'])))

/-- `-key = value` -/
def renderKV (key : String) (value : List Char) : List Char := '-' :: (key.toList ++ (' ' :: '=' :: ' ' :: value))

/-- the header block of a `.traceg` file as the Accel-Sim tracer writes it -/
def renderHeader (h : KernelFileHeader) : List (List Char) :=
  [renderKV "kernel name" h.kernelName,
   renderKV "kernel id" (showInt h.kernelID),
   renderKV "grid dim" (renderDim h.gridDim),
   renderKV "block dim" (renderDim h.blockDim),
   renderKV "shmem" (showInt h.shmem),
   renderKV "nregs" (showInt h.nregs),
   renderKV "binary version" (showInt h.binaryVersion),
   renderKV "cuda stream id" (showInt h.cudaStreamID),
   renderKV "shmem base_addr" (hex16 h.shmemBaseAddr.toNat),
   renderKV "local mem base_addr" (hex16 h.localMemBaseAddr.toNat),
   renderKV "nvbit version" h.nvbitVersion,
   renderKV "accelsim tracer version" h.accelsimTracerVersion,
   renderKV "enable lineinfo" (if h.enableLineinfo then ['1'] else ['0']),
   []]

/-- one line of `kernelslist.g` (`MemcpyHtoD,0x00007fb0fc400000,200000` / `kernel-1.traceg`) -/
def renderExec : Exec → List Char
  | .kernel f => f
  | .memcpy d a n => d ++ ',' :: (hex16 a ++ ',' :: showNat 10 n)

def renderKernelsList (es : List Exec) : List (List Char) := es.map renderExec

/-- an instruction line of a `.traceg` file: it starts with the hexadecimal PC (header lines start
    with `-`, comments with `#`, the structure lines with `thread block`, `warp`, `insts`) -/
def isInstLine (l : List Char) : Bool :=
  match l with
  | c :: _ => isDigit 16 c
  | [] => false

/-- the `Direction` that survives `BuildExecFromText`: all of it (repaired) -/
def keptDir (d : List Char) : List Char := d

/-- … before the repair -/
def keptDirOld (d : List Char) : List Char := if d = h2d ∨ d = d2h then d else []

end C20
