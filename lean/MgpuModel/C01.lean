import MgpuModel.Util
import MgpuModel.C01_Emu
import MgpuModel.C01_Kernels
import MgpuModel.C01_Kernels2
import MgpuModel.C01_Kernels3
/-! # C01 — kernel-argument marshalling of the driver

Model of `amd/driver/kernel.go`: `createAQLPacket`, `prepareLocalMemory` and the
serialisation of the patched argument struct (`binary.Write(…, LittleEndian, …)` in
`memorycopy.go` / `memorycopyglobalstorage.go`, i.e. the fields in order, packed).

An argument struct is a list of top-level fields. A field of Go type `driver.LocalPtr`
(a `uint32`) carries the *size* of a dynamic LDS region on entry and is overwritten
with the running LDS offset; every other field (including a nested struct that
happens to contain a `LocalPtr`) is opaque bytes. The running offset is a Go
`uint32`, so additions wrap modulo 2^32 — modelled as such. -/
namespace C01
open Util

/-- 2^32: Go's `uint32` arithmetic in `ldsSize += uint32(ldsPtr)` -/
abbrev W : Nat := 4294967296

inductive Field where
  | localPtr (v : Nat)          -- driver.LocalPtr: size on entry, offset on exit
  | plain (bytes : List Nat)    -- anything else, as its little-endian byte image
deriving Repr, DecidableEq

/-- `k` bytes of `n`, little endian -/
def le (n : Nat) : Nat → List Nat
  | 0 => []
  | k + 1 => n % 256 :: le (n / 256) k

/-- value of a little-endian byte list -/
def leVal : List Nat → Nat
  | [] => 0
  | b :: bs => b + 256 * leVal bs

def encodeField : Field → List Nat
  | .localPtr v => le v 4
  | .plain bs => bs

/-- byte image of an argument struct: fields in order, packed -/
def encode : List Field → List Nat
  | [] => []
  | f :: fs => encodeField f ++ encode fs

/-- sum of the dynamic LDS sizes requested by a field list -/
def dynSum : List Field → Nat
  | [] => 0
  | .localPtr v :: fs => v + dynSum fs
  | .plain _ :: fs => dynSum fs

/-- the loop of `prepareLocalMemory`: returns the patched fields and the final `ldsSize` -/
def patch : Nat → List Field → List Field × Nat
  | lds, [] => ([], lds)
  | lds, .localPtr sz :: fs =>
    let r := patch ((lds + sz) % W) fs
    (.localPtr lds :: r.1, r.2)
  | lds, .plain bs :: fs =>
    let r := patch lds fs
    (.plain bs :: r.1, r.2)

/-- a launch request as `EnqueueLaunchKernel` receives it -/
structure Req where
  static : Nat      -- co.GroupSegmentByteSize
  gx : Nat
  gy : Nat
  gz : Nat
  wx : Nat
  wy : Nat
  wz : Nat
  co : Nat          -- device address of the code object
  ka : Nat          -- device address of the kernarg buffer
  fields : List Field

/-- the fields of `HsaKernelDispatchPacket` the driver fills -/
structure Packet where
  gridX : Nat
  gridY : Nat
  gridZ : Nat
  wgX : Nat
  wgY : Nat
  wgZ : Nat
  groupSegmentSize : Nat
  kernelObject : Nat
  kernargAddress : Nat
deriving Repr, DecidableEq

/-- `createAQLPacket` followed by `prepareLocalMemory`: the packet and the kernarg byte image -/
def marshal (r : Req) : Packet × List Nat :=
  let p := patch (r.static % W) r.fields
  ({ gridX := r.gx, gridY := r.gy, gridZ := r.gz, wgX := r.wx, wgY := r.wy, wgZ := r.wz,
     groupSegmentSize := p.2, kernelObject := r.co, kernargAddress := r.ka },
   encode p.1)

/-! ## line protocol
`c01 kernarg static=N grid=a,b,c wg=a,b,c co=N ka=N fields=L:<size>/P:<hex>/…` (fields may be `-`)
→ `gss=N grid=a,b,c wg=a,b,c co=N ka=N img=<hex>` -/

def parseField (s : String) : Option Field :=
  if s.startsWith "L:" then (String.toNat? (s.drop 2).toString).map Field.localPtr
  else if s.startsWith "P:" then (hexBytes? (s.drop 2).toString).map Field.plain
  else none

def parseFields (s : String) : Option (List Field) :=
  if s = "-" || s = "" then some [] else (s.splitOn "/").mapM parseField

def handle (line : String) : String :=
  let t := words line
  match t with
  | "c01" :: "kernarg" :: _ =>
    match kvNat? t "static", (kv? t "grid").bind natList?, (kv? t "wg").bind natList?,
          kvNat? t "co", kvNat? t "ka", (kv? t "fields").bind parseFields with
    | some st, some [gx, gy, gz], some [wx, wy, wz], some co, some ka, some fs =>
      let (p, img) := marshal { static := st, gx := gx, gy := gy, gz := gz, wx := wx, wy := wy, wz := wz,
                                co := co, ka := ka, fields := fs }
      s!"gss={p.groupSegmentSize} grid={p.gridX},{p.gridY},{p.gridZ} wg={p.wgX},{p.wgY},{p.wgZ} co={p.kernelObject} ka={p.kernargAddress} img={bytesHex img}"
    | _, _, _, _, _, _ => "bad"
  | "c01" :: "emu" :: _ => Emu.handle line
  | "c01" :: "copycode" :: _ => Emu.handle line
  | ["c01", "ttcode"] => Util.bytesHex Emu.transposeKernelCode
  | ["c01", "kcode", "relufwd"] => Util.bytesHex Emu.reluFwdKernelCode
  | "c01" :: "kcode" :: _ => Emu.handleK line
  | "c01" :: "d2dplan" :: _ => Emu.handleK line
  | "c01" :: "d2d" :: _ => Emu.handleK line
  | "c01" :: "d2dtail" :: _ => Emu.handleK line
  | "c01" :: "pageq" :: _ => Emu.handleK line
  | _ => "bad"

end C01
