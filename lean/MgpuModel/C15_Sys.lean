import MgpuModel.C15_Core
/-! # C15 — the closed system around the reorder buffer, and the abstract FIFO specification

`Sys` composes the tick-exact ROB model (`C15.St`, driven only through `C15.step`) with
* an **arbitrary lower memory system**: it takes forwarded requests from the Bottom port one at
  a time (`memTake`), keeps them in a set of outstanding requests and answers any of them, in
  any order, with any payload, at any time (`memAnswer j p`), each at most once (an answered
  request leaves the set; a request may also never be answered). A response the Bottom port
  refuses (incoming buffer full) stays outstanding — port back-pressure upward;
* an arbitrary requester: offers requests at any time (`arrive`, refused when the Top port's
  incoming buffer is full) and takes responses at any time (`takeRsp`; not taking = back-pressure
  downward);
* an arbitrary controller: flush / restart messages at any time (`ctl`), taking acknowledgements
  at any time (`takeAck`).

`Spec` is the abstract specification: a FIFO of accepted requests, each with the ticket of its
forwarded copy and (once the lower level answered) the payload; responses leave from the head
only. Nothing here is executed by the driver; the ROB component of `Sys` is `C15.step` itself.
-/
namespace C15

/-- events of the closed system -/
inductive Ev where
  | tick
  | arrive (q : ReqIn)
  | memTake
  | memAnswer (j : Nat) (p : Rsp)
  | ctl (m : Ctl)
  | takeRsp
  | takeAck
deriving Repr

structure Sys where
  rob : St := {}
  /-- requests the lower memory has taken and not answered yet -/
  mem : List BReq := []
  /-- responses the requester has taken from the Top port, in order (ghost) -/
  out : List TRsp := []
deriving Repr

def sysStep (c : Cfg) (σ : Sys) : Ev → Sys
  | .tick => { σ with rob := step c σ.rob .tick }
  | .arrive q => { σ with rob := step c σ.rob (.top q) }
  | .memTake =>
    match σ.rob.botOut with
    | [] => σ
    | b :: _ => { σ with rob := step c σ.rob .drainBot, mem := σ.mem ++ [b] }
  | .memAnswer j p =>
    match σ.mem[j]? with
    | none => σ
    | some b =>
      if σ.rob.botIn.length < c.botInCap then
        { σ with rob := step c σ.rob (.bot b.id p), mem := σ.mem.eraseIdx j }
      else σ
  | .ctl m => { σ with rob := step c σ.rob (.ctl m) }
  | .takeRsp =>
    match σ.rob.topOut with
    | [] => σ
    | r :: _ => { σ with rob := step c σ.rob .drainTop, out := σ.out ++ [r] }
  | .takeAck => { σ with rob := step c σ.rob .drainCtl }

def sysRun (c : Cfg) (evs : List Ev) : Sys := evs.foldl (sysStep c) {}

/-- the closed system around the ROB as it was before repair 7c2f5a70 (`tickOld`: a flushing ROB
    leaves its outgoing buffers alone); every other event as in `sysStep` -/
def sysStepOld (c : Cfg) (σ : Sys) : Ev → Sys
  | .tick => { σ with rob := (tickOld c σ.rob).1 }
  | e => sysStep c σ e

def sysRunOld (c : Cfg) (evs : List Ev) : Sys := evs.foldl (sysStepOld c) {}

/-- the `Op` the ROB sees for an event (`none`: the event was refused / had no effect) -/
def evOp (c : Cfg) (σ : Sys) : Ev → Option Op
  | .tick => some .tick
  | .arrive q => some (.top q)
  | .memTake => if σ.rob.botOut = [] then none else some .drainBot
  | .memAnswer j p =>
    match σ.mem[j]? with
    | none => none
    | some b => if σ.rob.botIn.length < c.botInCap then some (.bot b.id p) else none
  | .ctl m => some (.ctl m)
  | .takeRsp => if σ.rob.topOut = [] then none else some .drainTop
  | .takeAck => some .drainCtl

/-! ## The abstract specification -/

/-- the request fields the forwarded copy must carry unchanged (and nothing else is required
    of it): kind, address, PID; the access size of a read; data and dirty mask of a write -/
def SameFields (r : Req) (b : BReq) : Prop :=
  b.write = r.write ∧ b.addr = r.addr ∧ b.pid = r.pid ∧
  (r.write = false → b.size = r.size) ∧ (r.write = true → b.data = r.data ∧ b.mask = r.mask)

structure Spec where
  /-- pending requests, oldest first: request, ticket of its forwarded copy, payload if answered -/
  queue : List (Req × Nat × Option Rsp) := []
  /-- history: accepted requests with the copy handed to the lower level -/
  fwd : List (Req × BReq) := []
  /-- history: answers of the lower level that were matched to a pending request -/
  answers : List (Nat × Rsp) := []
  /-- history: responses sent to the requester, in order -/
  out : List TRsp := []
  /-- history: ids of requests thrown away by a flush -/
  flushed : List Nat := []

namespace Spec

/-- one step of the specification with buffer capacity `cap` -/
inductive Step (cap : Nat) : Spec → Spec → Prop where
  /-- accept a request with a new id while there is room; hand a copy with the same fields
      and a new ticket to the lower level -/
  | accept (S : Spec) (r : Req) (b : BReq)
      (hid : r.id ∉ S.fwd.map (·.1.id)) (htk : b.id ∉ S.fwd.map (·.2.id))
      (hroom : S.queue.length < cap) (hf : SameFields r b) :
      Step cap S { S with queue := S.queue ++ [(r, b.id, none)], fwd := S.fwd ++ [(r, b)] }
  /-- the lower level answers the (so far unanswered) pending request at any position -/
  | answer (S : Spec) (i : Nat) (r : Req) (k : Nat) (p : Rsp)
      (hq : S.queue[i]? = some (r, k, none)) :
      Step cap S { S with queue := S.queue.set i (r, k, some p), answers := S.answers ++ [(k, p)] }
  /-- the head request has its payload: respond with the request's own id, to its sender -/
  | respond (S : Spec) (r : Req) (k : Nat) (p : Rsp) (rest : List (Req × Nat × Option Rsp))
      (hq : S.queue = (r, k, some p) :: rest) :
      Step cap S { S with queue := rest, out := S.out ++ [⟨r.id, r.src, p⟩] }
  /-- flush: every pending request is thrown away -/
  | flush (S : Spec) :
      Step cap S { S with queue := [], flushed := S.flushed ++ S.queue.map (·.1.id) }

/-- finitely many steps (one ROB tick performs several; a late answer performs none) -/
inductive Star (cap : Nat) : Spec → Spec → Prop where
  | refl (S : Spec) : Star cap S S
  | tail {S T U : Spec} : Star cap S T → Step cap T U → Star cap S U

end Spec

/-- the abstraction function: what the specification sees of a ROB state -/
def St.abs (s : St) : Spec :=
  { queue := s.txs.map (fun t => (t.req, t.botId, t.rsp)),
    fwd := s.fwd, answers := s.answered, out := s.delivered, flushed := s.discarded }

end C15
