import MgpuModel.Util
/-! # C08 — model of grid partitioning (work-groups, wavefronts, lanes)

Transcribes, branch by branch:
* `kernels.gridBuilderImpl`: `countWG`, `NextWG` (cursor, optional filter), `Skip`,
  `spawnWorkItems`, `formWavefronts` (as repaired: one wavefront per 64-block of flattened ids;
  the pinned pre-repair version is kept as `formStepOld` for the refutation witness);
* lane-id initialisation of `emu.ComputeUnit.initWfRegs` and `cu.WfDispatcherImpl.initRegisters`
  (x,y,z from `FirstWiFlatID + lane` with the full work-group pitch; V5 packing);
* `driver.Driver.distributeWGToGPUs` and the work-group filter closure;
* `dispatching.partitionAlgorithm` (`StartNewKernel`, `Next`, `nextWG`).
Sizes are `Nat` (the Go code uses uint16/uint32/int; all quantities of the property are far below
2^31 — grid ≤ 2^32 per axis is the dispatch packet's limit and is not modelled as wrap-around). -/
namespace C08
open Util

/-- dispatch geometry: grid size and work-group size per axis -/
structure Geo where
  gx : Nat
  gy : Nat
  gz : Nat
  wx : Nat
  wy : Nat
  wz : Nat
deriving Repr, DecidableEq

/-- the grid builder's cursor (`xid`,`yid`,`zid`) -/
structure Cur where
  x : Nat
  y : Nat
  z : Nat
deriving Repr, DecidableEq

abbrev Coord := Nat × Nat × Nat

/-- a produced work-group: its id and its current (clipped) size -/
structure WG where
  id : Coord
  sz : Coord
deriving Repr, DecidableEq

/-- `(g-1)/w + 1` — number of work-groups along one axis (`countWG`, driver, filter closure) -/
def nwg (g w : Nat) : Nat := (g - 1) / w + 1

def Geo.nx (g : Geo) : Nat := nwg g.gx g.wx
def Geo.ny (g : Geo) : Nat := nwg g.gy g.wy
def Geo.nz (g : Geo) : Nat := nwg g.gz g.wz
def Geo.total (g : Geo) : Nat := g.nx * g.ny * g.nz

/-- one pass of the loop body of `NextWG` (no filter): `none` = return nil (cursor unchanged),
    otherwise the group and the advanced cursor -/
def nextWG (g : Geo) (c : Cur) : Option (WG × Cur) :=
  if g.gx ≤ c.x * g.wx ∨ g.gy ≤ c.y * g.wy ∨ g.gz ≤ c.z * g.wz then none else
  let xs := min (g.gx - c.x * g.wx) g.wx
  let ys := min (g.gy - c.y * g.wy) g.wy
  let zs := min (g.gz - c.z * g.wz) g.wz
  let c' : Cur :=
    if g.gx ≤ c.x * g.wx + xs then
      if g.gy ≤ c.y * g.wy + ys then ⟨0, 0, c.z + 1⟩ else ⟨0, c.y + 1, c.z⟩
    else ⟨c.x + 1, c.y, c.z⟩
  some (⟨(c.x, c.y, c.z), (xs, ys, zs)⟩, c')

/-- `NextWG` with a filter: loop until the filter accepts or the grid is exhausted.
    `fuel` bounds the loop; `g.total + 1` is always enough (theorem `nextWGf_spec`). -/
def nextWGf (g : Geo) (p : Coord → Bool) : Nat → Cur → Option (WG × Cur)
  | 0, _ => none
  | fuel + 1, c =>
    match nextWG g c with
    | none => none
    | some (wg, c') => if p wg.id then some (wg, c') else nextWGf g p fuel c'

/-- `k` successive calls of `NextWG` (this is `Skip k` when the results are dropped);
    the cursor does not move once nil is returned -/
def enumFrom (g : Geo) (p : Coord → Bool) : Nat → Cur → List WG × Cur
  | 0, c => ([], c)
  | k + 1, c =>
    match nextWGf g p (g.total + 1) c with
    | none => ([], c)
    | some (wg, c') => let r := enumFrom g p k c'; (wg :: r.1, r.2)

/-- `Skip n` -/
def skip (g : Geo) (p : Coord → Bool) (n : Nat) (c : Cur) : Cur := (enumFrom g p n c).2

/-- the coordinates visited by the counting loops of `countWG` (x outermost) -/
def countLoop (g : Geo) : List Coord :=
  (List.range g.nx).flatMap fun i => (List.range g.ny).flatMap fun j => (List.range g.nz).map fun k => (i, j, k)

/-- `countWG` -/
def countWG (g : Geo) (p : Option (Coord → Bool)) : Nat :=
  match p with
  | none => g.nx * g.ny * g.nz
  | some p => (countLoop g).countP p

/-- `spawnWorkItems`: z outermost, x fastest -/
def spawn (sz : Coord) : List Coord :=
  (List.range sz.2.2).flatMap fun z => (List.range sz.2.1).flatMap fun y => (List.range sz.1).map fun x => (x, y, z)

/-- flattened in-group id with the FULL work-group pitch (`inWGID`, `FlattenedID`) -/
def flatId (wx wy : Nat) (it : Coord) : Nat := it.2.2 * wx * wy + it.2.1 * wx + it.1

structure Wf where
  first : Nat
  mask : Nat
  cnt : Nat
deriving Repr, DecidableEq

/-- one iteration of the loop of `formWavefronts` (repaired code); wavefronts are kept newest
    first, `formWfs` reverses at the end -/
def formStep (wx wy : Nat) (wfs : List Wf) (it : Coord) : List Wf :=
  let id := flatId wx wy it
  match wfs with
  | w :: rest =>
    if id / 64 ≠ w.first / 64 then ⟨id - id % 64, 1 <<< (id % 64), 1⟩ :: w :: rest
    else ⟨w.first, w.mask ||| (1 <<< (id % 64)), w.cnt + 1⟩ :: rest
  | [] => [⟨id - id % 64, 1 <<< (id % 64), 1⟩]

def formWfsRev (wx wy : Nat) (items : List Coord) : List Wf := items.foldl (formStep wx wy) []
def formWfs (wx wy : Nat) (items : List Coord) : List Wf := (formWfsRev wx wy items).reverse

/-- the loop body as pinned before the repair: a new wavefront only when `id % 64 = 0` -/
def formStepOld (wx wy : Nat) (wfs : List Wf) (it : Coord) : List Wf :=
  let id := flatId wx wy it
  let wfs := if id % 64 = 0 then ⟨id, 0, 0⟩ :: wfs else wfs
  match wfs with
  | w :: rest => ⟨w.first, w.mask ||| (1 <<< (id % 64)), w.cnt + 1⟩ :: rest
  | [] => []   -- nil dereference in Go; unreachable: the first item has id 0
def formWfsOld (wx wy : Nat) (items : List Coord) : List Wf := (items.foldl (formStepOld wx wy) []).reverse

/-- x,y,z as both `initWfRegs` and `initRegisters` compute them from a flattened id -/
def decodeId (wx wy i : Nat) : Coord :=
  (i % (wx * wy) % wx, i % (wx * wy) / wx, i / (wx * wy))

/-- enabled lanes of a mask -/
def lanesOf (mask : Nat) : List Nat := (List.range 64).filter fun l => mask.testBit l

/-- the coordinates that the enabled lanes of the wavefronts are initialised with -/
def laneCoords (wx wy : Nat) (wfs : List Wf) : List Coord :=
  wfs.flatMap fun w => (lanesOf w.mask).map fun l => decodeId wx wy (w.first + l)

/-- registers v0,v1,v2 of one lane after initialisation (both modes after the V5 repair of the
    timing dispatcher): packed for V5 code objects, else x / y if enabled / z if enabled -/
def laneRegs (v5 : Bool) (en : Nat) (c : Coord) : Nat × Nat × Nat :=
  if v5 then ((c.1 % 2^32) ||| ((c.2.1 <<< 10) % 2^32) ||| ((c.2.2 <<< 20) % 2^32), 0, 0)
  else (c.1 % 2^32, if en > 0 then c.2.1 % 2^32 else 0, if en > 1 then c.2.2 % 2^32 else 0)

/-- what a V5 kernel extracts from the packed register -/
def unpackV5 (v : Nat) : Coord := (v % 1024, v / 1024 % 1024, v / 1048576 % 1024)

/-- `distributeWGToGPUs`: cumulative ranges proportional to CU counts -/
def wgDist (wgPerCU : Nat) : List Nat → Nat → List Nat
  | [], acc => [acc]
  | c :: cs, acc => acc :: wgDist wgPerCU cs (acc + c * wgPerCU)

def wgPerCU (total sumCU : Nat) : Nat := (total - 1) / sumCU + 1

/-- the `WGFilter` closure of GPU `i` -/
def gpuFilter (g : Geo) (dist : List Nat) (i : Nat) (c : Coord) : Bool :=
  let f := c.2.2 * g.nx * g.ny + c.2.1 * g.nx + c.1
  decide (dist.getD i 0 ≤ f) && decide (f < dist.getD (i + 1) 0)

/-! ## partition algorithm -/

structure PState where
  rem : Array (List WG)        -- what the grid builder of partition i still yields
  cur : Array (Option WG)      -- currWGs
  disp : Array Nat             -- partitions[i].dispatchedWG
  per : Nat                    -- numWGPerPartition
  numWG : Nat
  next : Nat                   -- nextPartition
  nd : Nat                     -- numDispatchedWG

/-- `StartNewKernel`: partition `i` owns a builder that skipped `i*per` groups -/
def pStart (l : List WG) (numWG ncu : Nat) : PState :=
  let per := (numWG - 1) / ncu + 1
  { rem := Array.ofFn (n := ncu) fun i => l.drop (i.val * per),
    cur := Array.replicate ncu none,
    disp := Array.replicate ncu 0,
    per := per, numWG := numWG, next := 0, nd := 0 }

/-- `nextWG(i)`: the group CU `i` should try, and the partition it comes from -/
def pNextWG (s : PState) (i : Nat) : PState × Option (WG × Nat) :=
  if s.disp.getD i 0 ≥ s.per then
    match (List.range s.cur.size).find? fun j => (s.cur.getD j none).isSome with
    | some j => match s.cur.getD j none with
      | some wg => (s, some (wg, j))
      | none => (s, none)
    | none => (s, none)
  else match s.cur.getD i none with
    | some wg => (s, some (wg, i))
    | none =>
      match s.rem.getD i [] with
      | [] => (s, none)
      | wg :: r => ({ s with rem := s.rem.setIfInBounds i r, cur := s.cur.setIfInBounds i (some wg) }, some (wg, i))

/-- `Next`: `fails` = outcomes of the successive reservations (true = refused; all succeed once
    the list is used up). Result: new state, remaining outcomes, `(cu, wg)` if dispatched. -/
def pNext (s : PState) (fails : List Bool) : PState × List Bool × Option (Nat × WG) :=
  if s.nd ≥ s.numWG then (s, fails, none) else
  let n := s.cur.size
  let rec go (k : Nat) (idx : Nat) (s : PState) (fails : List Bool) : PState × List Bool × Option (Nat × WG) :=
    match k with
    | 0 => (s, fails, none)
    | k + 1 =>
      let i := (idx + s.next) % n
      match pNextWG s i with
      | (s, none) => go k (idx + 1) s fails
      | (s, some (wg, from_)) =>
        let (refused, fails) := match fails with
          | [] => (false, [])
          | f :: r => (f, r)
        if refused then go k (idx + 1) s fails
        else ({ s with cur := s.cur.setIfInBounds from_ none,
                       disp := s.disp.setIfInBounds from_ (s.disp.getD from_ 0 + 1),
                       nd := s.nd + 1, next := i + 1 }, fails, some (i, wg))
  go n 0 s fails

/-- `k` successive calls of `Next` against one stream of reservation outcomes (the stream is
    threaded through the calls; a call that dispatches nothing — every offer refused, or the kernel
    finished — is simply followed by the next call, as the dispatcher does every tick).
    Result: final state, unused outcomes, the `(cu, wg)` hand-outs in order. -/
def pRun : Nat → PState → List Bool → PState × List Bool × List (Nat × WG)
  | 0, s, f => (s, f, [])
  | k + 1, s, f =>
    match pNext s f with
    | (s', f', none) => pRun k s' f'
    | (s', f', some d) => let r := pRun k s' f'; (r.1, r.2.1, d :: r.2.2)

/-! ## fixed-width arithmetic of the launch path

The dispatch packet holds `GridSize*` as `uint32` and `WorkgroupSize*` as `uint16` (inputs are
`g < 2^32`, `w < 2^16` by type). REPAIRED code (`numWGInDim` in `kernels/gridbuilder.go` and
`driver/driver.go`): the per-axis count is `(int(g)+int(w)-1)/int(w)` and the product of the three
counts is an `int` product (64 bits; modelled as the low 64 bits of the `Nat` product);
`wgPerCU = (total+CUs-1)/CUs`. The code as pinned before the repair (`(g-1)/uint32(w)+1` and the
product IN `uint32`, `countWG` converting a `uint32` difference) is kept with the suffix `Old`.
(Wrap-around subtraction is written with `if`, never as `+ 2^32`.) -/

/-- `numWGInDim`: `(int(g) + int(w) - 1) / int(w)`; 0 for an empty axis -/
def nwgI (g w : Nat) : Nat := (g + w - 1) / w

/-- `numWGX * numWGY * numWGZ` in `int`: the low 64 bits of the product -/
def Geo.totalI (g : Geo) : Nat :=
  (nwgI g.gx g.wx * nwgI g.gy g.wy % 18446744073709551616) * nwgI g.gz g.wz % 18446744073709551616

/-- `(totalWGCount + totalCUCount - 1) / totalCUCount` -/
def wgPerCUI (total sumCU : Nat) : Nat := (total + sumCU - 1) / sumCU

/-- the `WGFilter` closure of the repaired driver -/
def gpuFilterI (g : Geo) (dist : List Nat) (i : Nat) (c : Coord) : Bool :=
  let nx := nwgI g.gx g.wx
  let ny := nwgI g.gy g.wy
  let f := c.2.2 * nx * ny + c.2.1 * nx + c.1
  decide (dist.getD i 0 ≤ f) && decide (f < dist.getD (i + 1) 0)

/-- `distributeWGToGPUs` of the repaired driver: fault or the cumulative ranges -/
def distI (g : Geo) (cus : List Nat) : Except String (List Nat) :=
  if g.wx = 0 ∨ g.wy = 0 ∨ g.wz = 0 ∨ cus.sum = 0 then .error "div0" else
  let dist := wgDist (wgPerCUI g.totalI cus.sum) cus 0
  if dist.getLast! < g.totalI then .error "not_all_allocated" else .ok dist

/-- the GPUs that receive a launch request (non-empty range) -/
def launched (d : List Nat) (n : Nat) : List Nat :=
  (List.range n).filter fun i => decide (d.getD (i + 1) 0 - d.getD i 0 ≠ 0)

/-- what the launch path does not check and the model assumes: no empty axis, typed ranges, and
    fewer than 2^63 work-groups (the `int` product does not overflow) -/
def Geo.NoWrap (g : Geo) : Prop :=
  (1 ≤ g.gx ∧ g.gx < 4294967296) ∧ (1 ≤ g.gy ∧ g.gy < 4294967296) ∧ (1 ≤ g.gz ∧ g.gz < 4294967296) ∧
  (1 ≤ g.wx ∧ g.wx < 65536) ∧ (1 ≤ g.wy ∧ g.wy < 65536) ∧ (1 ≤ g.wz ∧ g.wz < 65536) ∧
  g.nx * g.ny * g.nz < 9223372036854775808

instance (g : Geo) : Decidable g.NoWrap := by unfold Geo.NoWrap; exact inferInstance

/-! ### the pinned code before the repair -/

/-- `(g-1)/uint32(w) + 1` in `uint32`: `g-1` wraps to `2^32-1` for `g = 0` -/
def nwg32Old (g w : Nat) : Nat := ((if g = 0 then 4294967295 else g - 1) / w + 1) % 4294967296

/-- `int(GridSize-1)/int(w) + 1` of the old `countWG`: the subtraction is `uint32`, the rest 64-bit -/
def nwg64Old (g w : Nat) : Nat := (if g = 0 then 4294967295 else g - 1) / w + 1

/-- `int(numWGX * numWGY * numWGZ)` of the old `distributeWGToGPUs`: the product wraps in `uint32` -/
def Geo.total32Old (g : Geo) : Nat :=
  (nwg32Old g.gx g.wx * nwg32Old g.gy g.wy % 4294967296) * nwg32Old g.gz g.wz % 4294967296

/-- `(totalWGCount-1)/totalCUCount + 1` with Go's `int` division (toward zero): for a total that
    wrapped to 0 this is `(-1)/n + 1` = 1 (0 when `n = 1`) -/
def wgPerCU64Old (total sumCU : Nat) : Nat :=
  if total = 0 then (if sumCU = 1 then 0 else 1) else (total - 1) / sumCU + 1

def gpuFilter32Old (g : Geo) (dist : List Nat) (i : Nat) (c : Coord) : Bool :=
  let nx := nwg32Old g.gx g.wx
  let ny := nwg32Old g.gy g.wy
  let f := c.2.2 * nx * ny + c.2.1 * nx + c.1
  decide (dist.getD i 0 ≤ f) && decide (f < dist.getD (i + 1) 0)

def dist32Old (g : Geo) (cus : List Nat) : Except String (List Nat) :=
  if g.wx = 0 ∨ g.wy = 0 ∨ g.wz = 0 ∨ cus.sum = 0 then .error "div0" else
  let dist := wgDist (wgPerCU64Old g.total32Old cus.sum) cus 0
  if dist.getLast! < g.total32Old then .error "not_all_allocated" else .ok dist

/-! ## line protocol -/

def coordStr (c : Coord) : String := s!"{c.1}.{c.2.1}.{c.2.2}"
def wgStr (w : WG) : String := coordStr w.id ++ "/" ++ coordStr w.sz

def parse3 (s : String) : Option Coord :=
  match natList? s with
  | some [a, b, c] => some (a, b, c)
  | _ => none

def mix (h v : Nat) : Nat := ((h ^^^ v) * 1099511628211) % 18446744073709551616

structure Split where
  dist : List Nat
  filt : Option (Coord → Bool)

/-- the driver's split for a CU vector: `Except fault (dist, filter of gpu or none = not launched)` -/
def split (g : Geo) (cus : List Nat) (gpu : Nat) : Except String Split :=
  let sum := cus.sum
  if sum = 0 then .error "div0" else
  let dist := wgDist (wgPerCU g.total sum) cus 0
  if dist.getLast! < g.total then .error "not_all_allocated" else
  if dist.getD (gpu + 1) 0 - dist.getD gpu 0 = 0 then .ok ⟨dist, none⟩
  else .ok ⟨dist, some (gpuFilter g dist gpu)⟩

def distStr (d : List Nat) : String := joinWith "," (d.map toString)

def geoOf (t : List String) : Option Geo :=
  match (kv? t "g").bind parse3, (kv? t "w").bind parse3 with
  | some (gx, gy, gz), some (wx, wy, wz) => some ⟨gx, gy, gz, wx, wy, wz⟩
  | _, _ => none

def cusOf (t : List String) : Option (List Nat) := (kv? t "cu").bind natList?

def runPart (l : List WG) (numWG ncu : Nat) (fails : List Bool) (cap : Nat) : List String :=
  let rec loop (k : Nat) (s : PState) (fails : List Bool) (acc : Array String) : Array String :=
    match k with
    | 0 => if s.nd < s.numWG then acc.push "stuck" else acc
    | k + 1 =>
      if s.nd < s.numWG then
        match pNext s fails with
        | (s, fails, none) => loop k s fails (acc.push "-")
        | (s, fails, some (i, wg)) => loop k s fails (acc.push s!"{i}:{wgStr wg}")
      else acc
  (loop cap (pStart l numWG ncu) fails #[]).toList

end C08
