import MgpuModel.Util
import MgpuModel.C05_Engine
/-!
# C05.Par — Akita's parallel engine: which events run together

`ParallelEngine.Run` works in ROUNDS: `determineWhatToRun` picks the earliest time over all
queues (primary queues first when the earliest primary and secondary times are equal) and
`runRound` starts one goroutine per event of the chosen class whose time equals that time; it
waits for all of them (`waitGroup.Wait`) before the next round. An event a handler schedules for
the same time lands in a queue that the round has already scanned, so it runs in a LATER round.

The partition of the events into rounds is therefore a function of the script; what is NOT
determined is the order (and interleaving) of the handlers inside one round. `Props/C05Par.lean`
proves the model-level form of the property's clause "with the parallel engine the functional
results remain identical": if the handlers of one round commute (events of different components,
each touching its own component), every order gives the same state — and a kernel-checked witness
shows the hypothesis cannot be dropped.

`roundsOf` is the executable round structure (case line `c05 par`, real `sim.ParallelEngine`);
the events of a round are listed by ascending id, adjacent rounds of the same time and class are
merged (the real engine's log cannot tell them apart).
-/
namespace C05
namespace Par
open Util
open Eng (Ev Follow Prog followsOf mkEv cmp)

structure St where
  now : Nat := 0
  /-- events in the primary queues (a bag; the per-queue heaps only matter for the order inside a round) -/
  prim : List Ev := []
  /-- events in the secondary queues -/
  sec : List Ev := []
  /-- ghost: the rounds run so far: time, secondary?, the events of the round -/
  rounds : List (Nat × Bool × List Ev) := []
deriving Repr

/-- `earliestTimeInQueueGroup` (`none` = `math.MaxFloat64`, the group is empty) -/
def earliest (l : List Ev) : Option Nat :=
  l.foldl (fun acc e => match acc with
    | none => some e.time
    | some t => if cmp Gen.C05Engine.parEarliest e.time t then some e.time else some t) none

/-- `primaryTime <= secondaryTime` on times where `none` is `MaxFloat64` -/
def primaryFirst : Option Nat → Option Nat → Bool
  | some p, some s => cmp Gen.C05Engine.parPrimaryFirst p s
  | some _, none => true
  | none, some _ => false
  | none, none => true

/-- what one handler does: schedule its follow-ups (`Schedule` panics — and kills the process,
    the handler runs in its own goroutine — for a time before `now`; scripts avoid that) -/
def handleOne (prog : Prog) (now : Nat) (acc : List Ev × List Ev) (e : Ev) : List Ev × List Ev :=
  (followsOf prog e.id).foldl (fun a f =>
    let ev := mkEv now f
    if ev.sec then (a.1, a.2 ++ [ev]) else (a.1 ++ [ev], a.2)) acc

/-- one round; `none` = no more events -/
def round (prog : Prog) (s : St) : Option St :=
  if s.prim.isEmpty && s.sec.isEmpty then none
  else
    let pt := earliest s.prim
    let st := earliest s.sec
    let secondary := !primaryFirst pt st
    let now := (if secondary then st else pt).getD 0
    let pool := if secondary then s.sec else s.prim
    let inRound := pool.filter fun e => cmp Gen.C05Engine.parInRound e.time now
    let rest := pool.filter fun e => !cmp Gen.C05Engine.parInRound e.time now
    let base : List Ev × List Ev := if secondary then (s.prim, rest) else (rest, s.sec)
    let after := inRound.foldl (handleOne prog now) base
    some { now := now, prim := after.1, sec := after.2, rounds := s.rounds ++ [(now, secondary, inRound)] }

def run (prog : Prog) : Nat → St → St
  | 0, s => s
  | n + 1, s => match round prog s with
    | none => s
    | some s' => run prog n s'

def insertNat (x : Nat) : List Nat → List Nat
  | [] => [x]
  | y :: ys => if x ≤ y then x :: y :: ys else y :: insertNat x ys
def sortNat (l : List Nat) : List Nat := l.foldr insertNat []

/-- merge adjacent rounds of the same time and class -/
def mergeRounds : List (Nat × Bool × List Nat) → List (Nat × Bool × List Nat)
  | [] => []
  | r :: rs =>
    match mergeRounds rs with
    | [] => [r]
    | r2 :: rest => if r.1 = r2.1 ∧ r.2.1 = r2.2.1 then (r.1, r.2.1, r.2.2 ++ r2.2.2) :: rest else r :: r2 :: rest

def showRounds (rs : List (Nat × Bool × List Ev)) : String :=
  joinWith " " ((mergeRounds (rs.map fun r => (r.1, r.2.1, r.2.2.map (·.id)))).map fun r =>
    s!"{r.1}{if r.2.1 then "s" else "p"}:{joinWith "," ((sortNat r.2.2).map toString)}")

def handlePar (first : List String) (rest : List String) : String :=
  match (kv? first "init").map (fun v => if v = "" then [] else v.splitOn ","), kvNat? first "fuel" with
  | some evs, some fuel =>
    match evs.mapM Eng.parseEv, Eng.parseProg rest with
    | some evs, some prog =>
      let s0 : St := { prim := evs.filter (!·.sec), sec := evs.filter (·.sec) }
      let s := run prog fuel s0
      showRounds s.rounds ++ s!" | now={s.now} left={s.prim.length + s.sec.length}"
    | _, _ => "bad"
  | _, _ => "bad"

end Par
end C05
