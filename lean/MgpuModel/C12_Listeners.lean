import MgpuModel.Util
/-!
# C12.L — the listener list of one command queue (`CommandQueue.listeners`)

`C12.K` keeps one `subscribed` flag per application thread; the code keeps a LIST of listeners per
queue: `Subscribe` appends a fresh listener (empty capacity-1 `signal`), `Unsubscribe` closes it and
removes the first entry that is this listener (`append(l[:i], l[i+1:]...)`; `panic("not subscribed")`
when there is none), `NotifyAllSubscribers` (called by `Enqueue` and `Dequeue`) gives every listed
listener one notification (a non-blocking send: kept when the channel is empty, dropped when it
already holds one), `Wait` takes it. Sequential model of exactly that, run against the real
`CommandQueue` by `harness/c12_lmodel.go` (`c12 listeners` case lines).
-/
namespace C12
namespace L

structure Lst where
  id : Nat
  /-- one notification buffered in `signal` -/
  token : Bool := false
  /-- ghost: the queue changed since this listener was created / last returned from `Wait` -/
  owed : Bool := false
deriving DecidableEq, Repr

structure St where
  ls : List Lst := []
  next : Nat := 0
  /-- `len(q.commands)` -/
  queued : Nat := 0
deriving DecidableEq, Repr

inductive Op | sub | unsub (id : Nat) | enq | deq | wait (id : Nat)
deriving DecidableEq, Repr

/-- index of the first listener with this id (`for i, l := range q.listeners { if l == listener`) -/
def findIdx (id : Nat) : List Lst → Option Nat
  | [] => none
  | l :: rest => if l.id = id then some 0 else (findIdx id rest).map (· + 1)

def notifyAll (ls : List Lst) : List Lst := ls.map fun l => { l with token := true, owed := true }

def waitOn (id : Nat) : List Lst → List Lst
  | [] => []
  | l :: rest => if l.id = id then { l with token := false, owed := false } :: rest else l :: waitOn id rest

/-- one API call; the answer is `ok`, `hang` (a `Wait` that would block for ever) or a panic -/
def step (s : St) : Op → St × String
  | .sub => ({ s with ls := s.ls ++ [{ id := s.next }], next := s.next + 1 }, "ok")
  | .unsub id => match findIdx id s.ls with
    | none => (s, "fault:not_subscribed")
    | some i => ({ s with ls := s.ls.eraseIdx i }, "ok")
  | .enq => ({ s with ls := notifyAll s.ls, queued := s.queued + 1 }, "ok")
  | .deq => match s.queued with
    | 0 => (s, "fault:index_out_of_range")
    | n + 1 => ({ s with ls := notifyAll s.ls, queued := n }, "ok")
  | .wait id => match s.ls.find? (·.id = id) with
    | none => (s, "hang")
    | some l => if l.token then ({ s with ls := waitOn id s.ls }, "ok") else (s, "hang")

def run (s : St) (ops : List Op) : St := ops.foldl (fun s op => (step s op).1) s

def parseOp (w : String) : Option Op :=
  match w.splitOn ":" with
  | ["s"] => some .sub
  | ["u", i] => i.toNat?.map .unsub
  | ["e"] => some .enq
  | ["d"] => some .deq
  | ["w", i] => i.toNat?.map .wait
  | _ => none

def showTokens (s : St) : String :=
  if s.ls.isEmpty then "-" else String.join (s.ls.map fun l => if l.token then "1" else "0")

def trace (s : St) : List Op → List String → List String
  | [], acc => acc.reverse
  | op :: ops, acc =>
    let r := step s op
    trace r.1 ops ((r.2 ++ "/" ++ showTokens r.1) :: acc)

def handleLine (rest : List String) : String :=
  match (rest.flatMap Util.words).mapM parseOp with
  | some ops => Util.joinWith " " (trace {} ops [])
  | none => "bad"

end L
end C12
