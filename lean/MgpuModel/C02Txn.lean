import MgpuModel.Util
import MgpuModel.C02Wf
/-! C02 (second deepening) — stub, filled in by the Txn part. -/
namespace C02.Txn
open Util

def handleTxn (_t : List String) : String := "bad"

end C02.Txn
