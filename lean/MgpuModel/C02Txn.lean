import MgpuModel.Util
import MgpuModel.C14_Vmu
/-!
C02 (transaction path) — the vector memory unit of the timing compute unit between the coalescer and
the `ToVectorMem` port (`amd/timing/cu/vectormemoryunit.go`), one tick = one `VectorMemoryUnit.Run`:

  `sendRequest`            (repaired unit) the OLDEST transaction of `transactionsInOrder` goes to the
                           port, a younger head of the post-pipeline buffer is popped and set aside;
                           up to 16 rounds, as long as the port accepts
  `transactionPipeline.Tick`  Akita `pipelining` pipeline, `cyclePerStage = 1`: lane 0 first, every lane
                           from the last stage backwards; the last stage moves into the post-pipeline
                           buffer only when `CanPush`
  `insertTransactionToPipeline`  waiting transactions enter the first lane whose first stage is free
                           (none while something is set aside: `canAcceptTransaction`); a coalescing
                           penalty stalls the insertion for some ticks
  `execute`                the coalescer's transactions of a newly executed instruction join the
                           waiting list (they can enter the pipeline in the next tick at the earliest)

The scenario gives, per tick, the number of free slots of the port's outgoing buffer and the
transactions that arrive; the model answers the order in which the transactions leave the unit.

The unit itself is NOT transcribed a second time: `tick` is built from the cycle function of the C14 model
of the same unit (`C14.Vmu.cycle`, `issue`, `take`: `MgpuModel/C14_Vmu.lean`, proved a FIFO for every width
in `Props/C14Vmu.lean`); this file only adds the scenario encoding of the C02 harness (free port slots per
tick, arrivals with penalties). The unit BEFORE the repair (`sendRequest` took whatever stood at the head of
the post-pipeline buffer: with more than one lane a full buffer let younger transactions overtake older
ones) is kept as `C02.Txn.Old` — the refuted statements are about it.
-/
namespace C02.Txn
open Util

/-- a transaction: its position in the coalescer's (issue) order, and the coalescing penalty charged
    after it has entered the pipeline -/
structure Item where
  idx : Nat
  pen : Nat
deriving Repr, DecidableEq

/-- one lane of the pipeline; head = LAST stage (next to the post-pipeline buffer), last element =
    stage 0 (entry) -/
abbrev Lane := List (Option Item)

structure Cfg where
  w : Nat
  s : Nat
  b : Nat
deriving Repr, DecidableEq

/-- `equipVectorMemoryUnit`: width < 1 becomes 1, buffer size < 8 becomes 8 -/
def mkCfg (w s b : Nat) : Cfg := ⟨max w 1, s, max b 8⟩

/-- input of one tick: free slots of the port's outgoing buffer when the tick starts, and the coalescing
    penalties of the transactions the coalescer appends in this tick -/
structure Tk where
  p : Nat
  arr : List Nat
deriving Repr, DecidableEq

/-! ## the unit before the repair -/
namespace Old

/-- `pipelineImpl.Tick` below an already processed stage `a`: the stages of `rest` are visited from the
    exit side; an item moves forward when the stage in front of it is (now) empty. Returns the lane
    including `a`. -/
def advance (a : Option Item) : Lane → Lane
  | [] => [a]
  | b :: rest =>
    match a, b with
    | none, some x => some x :: advance none rest
    | _, _ => a :: advance b rest

/-- `pipelineImpl.Tick` for one lane; `cap` = capacity of the shared post-pipeline buffer -/
def tickLane (cap : Nat) (post : List Item) : Lane → List Item × Lane
  | [] => (post, [])
  | none :: rest => (post, advance none rest)
  | some it :: rest =>
    if post.length < cap then (post ++ [it], advance none rest)
    else (post, advance (some it) rest)

/-- the lanes are ticked in lane order, each seeing the buffer as the earlier lanes left it -/
def tickLanes (cap : Nat) (post : List Item) : List Lane → List Item × List Lane
  | [] => (post, [])
  | l :: ls =>
    let r1 := tickLane cap post l
    let r2 := tickLanes cap r1.1 ls
    (r2.1, r1.2 :: r2.2)

/-- put `x` into stage 0 (the last element) of a lane if it is empty -/
def acceptLane (x : Item) : Lane → Option Lane
  | [] => none
  | [s] => if s.isNone then some [some x] else none
  | s :: r :: rest => (acceptLane x (r :: rest)).map (s :: ·)

/-- `Accept`: the first lane whose stage 0 is free; `none` = `CanAccept()` is false -/
def acceptLanes (x : Item) : List Lane → Option (List Lane)
  | [] => none
  | l :: ls =>
    match acceptLane x l with
    | some l' => some (l' :: ls)
    | none => (acceptLanes x ls).map (l :: ·)

/-- `insertTransactionToPipeline` after the stall check: returns what is left waiting, the lanes and
    the new stall -/
def insertGo : List Item → List Lane → List Item × List Lane × Nat
  | [], lanes => ([], lanes, 0)
  | x :: rest, lanes =>
    match acceptLanes x lanes with
    | none => (x :: rest, lanes, 0)
    | some lanes' => if x.pen > 0 then (rest, lanes', x.pen) else insertGo rest lanes'

structure St where
  lanes : List Lane
  post : List Item := []
  waiting : List Item := []
  stall : Nat := 0
  out : List Item := []
  next : Nat := 0
deriving Repr

def init (c : Cfg) : St := { lanes := List.replicate c.w (List.replicate c.s none) }

/-- number the arriving transactions -/
def mkItems (next : Nat) : List Nat → List Item
  | [] => []
  | p :: ps => ⟨next, p⟩ :: mkItems (next + 1) ps

/-- `sendRequest` -/
def send (p : Nat) (s : St) : St :=
  let k := min 16 (min p s.post.length)
  { s with out := s.out ++ s.post.take k, post := s.post.drop k }

def pipe (c : Cfg) (s : St) : St :=
  let r := tickLanes c.b s.post s.lanes
  { s with post := r.1, lanes := r.2 }

def insert (s : St) : St :=
  if s.stall > 0 then { s with stall := s.stall - 1 }
  else
    let r := insertGo s.waiting s.lanes
    { s with waiting := r.1, lanes := r.2.1, stall := r.2.2 }

def arrive (arr : List Nat) (s : St) : St :=
  { s with waiting := s.waiting ++ mkItems s.next arr, next := s.next + arr.length }

def tick (c : Cfg) (s : St) (t : Tk) : St := arrive t.arr (insert (pipe c (send t.p s)))

def run (c : Cfg) (ts : List Tk) : St := ts.foldl (tick c) (init c)

/-- the departure order, as issue indices -/
def departed (c : Cfg) (ts : List Tk) : List Nat := (run c ts).out.map (·.idx)

/-- per tick: post-buffer fill / waiting transactions after the tick -/
def traceOf (c : Cfg) (ts : List Tk) : List String :=
  (ts.foldl (fun (acc : St × List String) t =>
    let s := tick c acc.1 t
    (s, s!"{s.post.length}/{s.waiting.length}" :: acc.2)) (init c, [])).2.reverse

end Old

/-! ## the repaired unit: the C14 model of `VectorMemoryUnit.Run` under the C02 scenario encoding -/

/-- capacity of the outgoing buffer of `ToVectorMem` (`NewComputeUnit`) -/
def portCap : Nat := 64

/-- the configuration of the C14 model: lanes, stages, post-pipeline buffer, port, burst of `sendRequest` -/
def vcfg (c : Cfg) : C14.Vmu.Cfg := ⟨c.w, c.s, c.b, portCap, 16⟩

abbrev St := C14.Vmu.St

def init (c : Cfg) : St := C14.Vmu.St.init (vcfg c)

/-- the memory side has taken requests from the port: `p` slots are free when the tick starts (never
    more requests than the port holds; the harness reports the real number of free slots) -/
def freeSlots (p : Nat) (s : St) : St := C14.Vmu.take s (s.out.length - (portCap - p))

/-- the coalescer's transactions of this tick, one by one with their penalties -/
def arrive (arr : List Nat) (s : St) : St := arr.foldl (fun s pen => C14.Vmu.issue s 1 pen) s

def tick (c : Cfg) (s : St) (t : Tk) : St := arrive t.arr (C14.Vmu.cycle (vcfg c) (freeSlots t.p s))

def run (c : Cfg) (ts : List Tk) : St := ts.foldl (tick c) (init c)

/-- the departure order, as issue indices (`sent`: every transaction put on the port, in order) -/
def departed (c : Cfg) (ts : List Tk) : List Nat := (run c ts).sent

/-! ## case lines -/

/-- `<cnt>x<pen>+<cnt>x<pen>…` -/
def parseArr (s : String) : Option (List Nat) :=
  (s.splitOn "+").foldl (fun acc g => do
    let l ← acc
    match g.splitOn "x" with
    | [c, p] => do
      let c ← c.toNat?
      let p ← p.toNat?
      pure (l ++ List.replicate c p)
    | _ => none) (some [])

/-- one token `<p>[:<arrivals>][*<repeat>]` -/
def parseTok (s : String) : Option (List Tk) := do
  let (body, rep) ← match s.splitOn "*" with
    | [b] => some (b, 1)
    | [b, r] => r.toNat?.map (b, ·)
    | _ => none
  let t ← match body.splitOn ":" with
    | [p] => p.toNat?.map (⟨·, []⟩ : Nat → Tk)
    | [p, a] => do
      let p ← p.toNat?
      let a ← parseArr a
      pure (⟨p, a⟩ : Tk)
    | _ => none
  pure (List.replicate rep t)

def parseEv (s : String) : Option (List Tk) :=
  (s.splitOn ",").foldl (fun acc g => do
    let l ← acc
    let t ← parseTok g
    pure (l ++ t)) (some [])

/-- per tick: post-buffer fill / waiting transactions / transactions set aside, after the tick -/
def traceOf (c : Cfg) (ts : List Tk) : List String :=
  (ts.foldl (fun (acc : St × List String) t =>
    let s := tick c acc.1 t
    (s, s!"{s.post.length}/{s.waiting.length}/{s.aside.length}" :: acc.2)) (init c, [])).2.reverse

def natsStr (l : List Nat) : String := joinWith "," (l.map toString)

/-- `c02 txn w=<w> s=<s> b=<b> n=<transactions> ev=<tick tokens>` →
    `ord=<departure order> left=<k> tr=<post/waiting/aside per tick>` -/
def handleTxn (t : List String) : String :=
  match kvNat? t "w", kvNat? t "s", kvNat? t "b", kvNat? t "n", (kv? t "ev").bind parseEv with
  | some w, some s, some b, some n, some ts =>
    let c := mkCfg w s b
    if s = 0 ∨ n ≠ (ts.map (·.arr.length)).sum then "bad" else
    let st := run c ts
    s!"ord={natsStr st.sent} left={n - st.sent.length} tr={joinWith "." (traceOf c ts)}"
  | _, _, _, _, _ => "bad"

end C02.Txn
