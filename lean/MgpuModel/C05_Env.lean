import MgpuModel.Util
import MgpuModel.C05_Sched
/-!
# C05.Env — the hand-off in an environment with trailing events, and ANY tick-time policy

`T` has one component (the driver), so after the last command the engine comes to rest one cycle
later. In a real simulation other components (command processor, caches, compute units) still
have events after a command completes. `Env` is `T` with

* `bg`: pending events of OTHER components (their times, ascending); completing a command at
  cycle `t` leaves `B` trailing events at `t+1 … t+B`; the engine pops the earliest event (the
  driver's tick first when the times are equal);
* `pol`: the time `runAsync` gives the tick it schedules for a kick when no future tick of the
  driver is pending (`TickScheduler` has ONE `nextTickTime`: a pending future tick is kept, as in
  `TickLater`). `pol now = now + 1` is `TickLater`, `pol now = now` is `TickNow`.

It is used for one statement (`Props/C05Env.lean`): NO choice of `pol` makes simulated time
independent of the host schedule — the defect of `completion_times_refuted` cannot be repaired by
changing the time of the kick's tick; the blocking structure of the hand-off has to change
(`C05.R`). With `B = 0` and `pol now = now + 1` the model is `T` (`Env.step_eq_T`).
-/
namespace C05
namespace Env
open C12 (APc RPc EPc Th)

structure St where
  t : T.St := {}
  /-- pending events of other components, ascending -/
  bg : List Nat := []
deriving DecidableEq, Repr

/-- the kick of `runAsync`: a pending future tick is kept, otherwise the policy chooses -/
def kick (pol : Nat → Nat) (now next : Nat) : Nat := if next ≥ now + 1 then next else pol now

def insertT (x : Nat) : List Nat → List Nat
  | [] => [x]
  | y :: ys => if x ≤ y then x :: y :: ys else y :: insertT x ys

/-- `B` trailing events after a completion at cycle `now` -/
def trailTimes : Nat → Nat → List Nat
  | 0, _ => []
  | B + 1, t => t :: trailTimes B (t + 1)

def trail (B now : Nat) (bg : List Nat) : List Nat :=
  (trailTimes B (now + 1)).foldl (fun acc x => insertT x acc) bg

/-- the protocol step with the clock, the policy for the kick and the trailing events -/
def base (pol : Nat → Nat) (B : Nat) (s : St) (th : Th) : Option St :=
  match C12.step s.t.p th with
  | none => none
  | some p' =>
    let t' := T.advance s.t th p'
    match th with
    | .async =>
      if s.t.p.r = .tick then some { s with t := { t' with next := kick pol s.t.now s.t.next } }
      else some { s with t := t' }
    | .eng =>
      if s.t.p.e = .deq ∧ s.t.p.cmds ≠ [] then some { t := t', bg := trail B s.t.now s.bg }
      else some { s with t := t' }
    | .app => some { s with t := t' }

def step (pol : Nat → Nat) (B : Nat) (s : St) (th : Th) : Option St :=
  match th, s.bg with
  | .eng, b :: rest =>
    if s.t.p.e = .loop ∧ (s.t.p.evt = false ∨ b < s.t.next) then
      some { t := { s.t with now := b }, bg := rest }      -- an event of another component
    else base pol B s th
  | _, _ => base pol B s th

def init (rounds : List Nat) : St := { t := T.init rounds }

def runSched (pol : Nat → Nat) (B : Nat) (s : St) : List Th → Option St
  | [] => some s
  | th :: ts => match step pol B s th with
    | none => none
    | some s' => runSched pol B s' ts

/-- the simulation is at rest: hand-off quiescent and no event of any component pending -/
def atRest (s : St) : Prop := T.quiescent s.t ∧ s.bg = []
instance (s : St) : Decidable (atRest s) := by unfold atRest; exact inferInstance

end Env
end C05
