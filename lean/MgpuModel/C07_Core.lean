import MgpuModel.Util
import MgpuModel.Gen.Tables
import MgpuModel.C09_Res
/-! # C07 — architectural registers: the two register stores and the flat-cells spec

Hand-written transcription (tie H, re-checked by the per-run correspondence) of

* `emu.Wavefront`: `readFromRegFile`, `readRegOperand`, `ReadReg`, `WriteReg`, `ReadOperand`,
  `WriteOperand`, `ReadOperandBytes`, `WriteOperandBytes`  (amd/emu/wavefront.go)
* `cu.SimpleRegisterFile.{Read,Write,getRegOffset}` (amd/timing/cu/registerfile.go),
  `cu.CURegFileAccessor.{ReadReg,WriteReg}`, `padTo8` (amd/timing/cu/regfileaccessor.go),
  `wavefront.Wavefront.{ReadOperand,WriteOperand,ReadOperandBytes,WriteOperandBytes}`
  (amd/timing/wavefront/wavefront.go), `SchedulerImpl.resetRegisterValue` (amd/timing/cu/scheduler.go)

branch by branch, as the code is AFTER the `fix:` commits of this property. Registers are named by
their `insts.RegType` number; sizes come from the regenerated table `Gen.regs`. Go panics are the
outcomes `Fault.*`. The stores' fall-back tests `reg.Name == "vcclo"/"vcchi"` are modelled as
`RegType == VCCLO/VCCHI` (names in `insts.Regs` identify the type: checked by the harness on every
run). Special registers are stored with their Go widths (`UInt64`, `UInt32`, `UInt8`). -/
namespace C07
open Gen

abbrev File := Array UInt8

inductive Fault where
  | bounds | unsupported | nonreg | noreg
deriving Repr, DecidableEq, Inhabited

def Fault.str : Fault → String
  | .bounds => "fault:bounds"
  | .unsupported => "fault:unsupported"
  | .nonreg => "fault:nonreg"
  | .noreg => "fault:noreg"

/-! ## bytes -/

/-- little-endian value of a byte string -/
def leNat : List UInt8 → Nat
  | [] => 0
  | b :: bs => b.toNat + 256 * leNat bs

/-- the `k` little-endian bytes of `v` (truncating, like `binary.LittleEndian.PutUintXX`) -/
def toLE : Nat → Nat → List UInt8
  | 0, _ => []
  | k + 1, v => UInt8.ofNat (v % 256) :: toLE k (v / 256)

def zeros (n : Nat) : List UInt8 := List.replicate n 0

/-- Go `copy(dst, src)` into a zeroed `dst` of length `n` -/
def copyInto (n : Nat) (src : List UInt8) : List UInt8 := src.take n ++ zeros (n - src.length)

/-- byte `p` of a file (0 beyond the end; every use below is guarded by an explicit bounds test) -/
def get (f : File) (p : Nat) : UInt8 := f.getD p 0

/-- `file[off : off+n]` -/
def rd (f : File) (off n : Nat) : List UInt8 := (List.range n).map fun k => get f (off + k)

/-- `copy(file[off:], d)` -/
def wr (f : File) (off : Nat) : List UInt8 → File
  | [] => f
  | b :: bs => wr (f.setIfInBounds off b) (off + 1) bs

/-- `binary.LittleEndian.Uint32(data)` -/
def u32 (d : List UInt8) : Except Fault Nat :=
  if d.length < 4 then .error .bounds else .ok (leNat (d.take 4))

/-- `binary.LittleEndian.Uint64(data)` -/
def u64 (d : List UInt8) : Except Fault Nat :=
  if d.length < 8 then .error .bounds else .ok (leNat (d.take 8))

/-! ## `insts.Reg` -/

def isVReg (r : Nat) : Bool := R_V0 ≤ r && r ≤ R_V255
def isSReg (r : Nat) : Bool := R_S0 ≤ r && r ≤ R_S101
/-- `RegIndex` (the −1 of the non-indexed registers is never used) -/
def regIndex (r : Nat) : Nat := if isSReg r then r - R_S0 else r - R_V0
/-- `Reg.ByteSize` -/
def byteSize (r : Nat) : Nat := match regs[r]? with | some i => i.bytes | none => 0
def knownReg (r : Nat) : Bool := r < regs.size

/-- `numBytes := reg.ByteSize; if regCount >= 2 { numBytes *= regCount }` -/
def numBytes (r rc : Nat) : Nat := if rc ≥ 2 then byteSize r * rc else byteSize r

def MASK_HI : Nat := 0xFFFFFFFF00000000
def MASK_LO : Nat := 0x00000000FFFFFFFF

/-- `v &= 0xffffffff00000000; v |= uint64(x)` -/
def setLo (v : UInt64) (x : Nat) : UInt64 := UInt64.ofNat ((v.toNat &&& MASK_HI) ||| x)
/-- `v &= 0x00000000ffffffff; v |= uint64(x) << 32` -/
def setHi (v : UInt64) (x : Nat) : UInt64 := UInt64.ofNat ((v.toNat &&& MASK_LO) ||| (x <<< 32))
/-- `uint32(v)` -/
def lo32 (v : UInt64) : Nat := v.toNat % 4294967296
/-- `uint32(v >> 32)` -/
def hi32 (v : UInt64) : Nat := (v.toNat >>> 32) % 4294967296

/-! ## the emulator's store -/

structure EmuRF where
  sfile : File
  vfile : File
  vcc : UInt64
  exec : UInt64
  scc : UInt8
  m0 : UInt32

namespace EmuRF

/-- `readFromRegFile` -/
def readFromRegFile (file : File) (offset bsz rc : Nat) : Except Fault Nat :=
  let nb := if rc ≥ 2 then bsz * rc else bsz
  if nb == 4 then
    if offset + 4 ≤ file.size then .ok (leNat (rd file offset 4)) else .error .bounds
  else
    if offset + 8 ≤ file.size then .ok (leNat (rd file offset 8)) else .error .bounds

/-- `ReadReg` -/
def readReg (e : EmuRF) (r rc lane : Nat) : Except Fault (List UInt8) :=
  let nb := numBytes r rc
  if nb > 64 then .error .bounds else           -- `buf[:numBytes]`, `var buf [64]byte`
  if isSReg r then
    let offset := regIndex r * 4
    if offset + nb ≤ e.sfile.size then .ok (rd e.sfile offset nb) else .error .bounds
  else if isVReg r then
    let offset := lane * 256 * 4 + regIndex r * 4
    if offset + nb ≤ e.vfile.size then .ok (rd e.vfile offset nb) else .error .bounds
  else if r == R_SCC then
    if nb == 0 then .error .bounds else .ok (e.scc :: zeros (nb - 1))
  else if r == R_VCC then .ok (copyInto nb (toLE 8 e.vcc.toNat))
  else if r == R_VCCLO && rc == 1 then .ok (copyInto nb (toLE 4 (lo32 e.vcc)))
  else if r == R_VCCHI && rc ≤ 1 then .ok (copyInto nb (toLE 4 (hi32 e.vcc)))
  else if r == R_VCCLO && rc == 2 then .ok (copyInto nb (toLE 8 e.vcc.toNat))
  else if r == R_EXEC then .ok (copyInto nb (toLE 8 e.exec.toNat))
  else if r == R_EXECLO && rc == 2 then .ok (copyInto nb (toLE 8 e.exec.toNat))
  else if r == R_EXECLO then .ok (copyInto nb (toLE 4 (lo32 e.exec)))
  else if r == R_EXECHI && rc ≤ 1 then .ok (copyInto nb (toLE 4 (hi32 e.exec)))
  else if r == R_M0 then .ok (copyInto nb (toLE 4 e.m0.toNat))
  else if r == R_VCCLO then       -- `reg.Name == "vcclo"`
    if rc == 1 then .ok (copyInto nb (toLE 4 (lo32 e.vcc))) else .ok (copyInto nb (toLE 8 e.vcc.toNat))
  else if r == R_VCCHI then       -- `reg.Name == "vcchi"`
    if rc == 1 then .ok (copyInto nb (toLE 4 (hi32 e.vcc))) else .ok (copyInto nb (toLE 8 e.vcc.toNat))
  else .error .unsupported

/-- `readRegOperand` -/
def readRegOperand (e : EmuRF) (r rc lane : Nat) : Except Fault Nat :=
  if isVReg r then readFromRegFile e.vfile (lane * 256 * 4 + regIndex r * 4) (byteSize r) rc
  else if isSReg r then readFromRegFile e.sfile (regIndex r * 4) (byteSize r) rc
  else if r == R_SCC then .ok e.scc.toNat
  else if r == R_VCC then .ok e.vcc.toNat
  else if r == R_VCCLO then (if rc ≤ 1 then .ok (lo32 e.vcc) else .ok e.vcc.toNat)
  else if r == R_VCCHI then (if rc ≤ 1 then .ok (hi32 e.vcc) else .ok e.vcc.toNat)
  else if r == R_EXEC then .ok e.exec.toNat
  else if r == R_EXECLO then (if rc == 2 then .ok e.exec.toNat else .ok (lo32 e.exec))
  else if r == R_EXECHI then (if rc ≤ 1 then .ok (hi32 e.exec) else .ok e.exec.toNat)
  else if r == R_M0 then .ok e.m0.toNat
  else match e.readReg r rc lane with
    | .error f => .error f
    | .ok buf => .ok (leNat (copyInto 8 buf))      -- pad to 8 / first 8 bytes

/-- `WriteReg`; the state is returned also when the call panics (the masking statement of a
    half-register write runs before `BytesToUint32` can panic) -/
def writeReg (e : EmuRF) (r rc lane : Nat) (data : List UInt8) : EmuRF × Option Fault :=
  let nb := numBytes r rc
  let w64 (set : UInt64 → EmuRF) : EmuRF × Option Fault :=
    match u64 data with | .ok x => (set (UInt64.ofNat x), none) | .error f => (e, some f)
  let wLo (cur : UInt64) (set : UInt64 → EmuRF) : EmuRF × Option Fault :=
    match u32 data with
    | .ok x => (set (setLo cur x), none)
    | .error f => (set (UInt64.ofNat (cur.toNat &&& MASK_HI)), some f)
  let wHi (cur : UInt64) (set : UInt64 → EmuRF) : EmuRF × Option Fault :=
    match u32 data with
    | .ok x => (set (setHi cur x), none)
    | .error f => (set (UInt64.ofNat (cur.toNat &&& MASK_LO)), some f)
  let setVcc (v : UInt64) : EmuRF := { e with vcc := v }
  let setExec (v : UInt64) : EmuRF := { e with exec := v }
  if isSReg r then
    let offset := regIndex r * 4
    if offset + nb ≤ e.sfile.size then ({ e with sfile := wr e.sfile offset (data.take nb) }, none)
    else (e, some .bounds)
  else if isVReg r then
    let offset := lane * 256 * 4 + regIndex r * 4
    if offset + nb ≤ e.vfile.size then ({ e with vfile := wr e.vfile offset (data.take nb) }, none)
    else (e, some .bounds)
  else if r == R_SCC then
    match data with | [] => (e, some .bounds) | b :: _ => ({ e with scc := b }, none)
  else if r == R_VCC then w64 setVcc
  else if r == R_VCCLO && rc == 2 then w64 setVcc
  else if r == R_VCCLO && rc == 1 then wLo e.vcc setVcc
  else if r == R_VCCHI && rc == 1 then wHi e.vcc setVcc
  else if r == R_EXEC then w64 setExec
  else if r == R_EXECLO && rc == 2 then w64 setExec
  else if r == R_EXECLO then wLo e.exec setExec
  else if r == R_EXECHI && rc ≤ 1 then wHi e.exec setExec
  else if r == R_M0 then
    match u32 data with | .ok x => ({ e with m0 := UInt32.ofNat x }, none) | .error f => (e, some f)
  else if r == R_VCCLO then (if rc ≤ 1 then wLo e.vcc setVcc else w64 setVcc)
  else if r == R_VCCHI then (if rc ≤ 1 then wHi e.vcc setVcc else w64 setVcc)
  else (e, some .unsupported)

/-- `ReadOperand` on a register operand -/
def readOperand (e : EmuRF) (r rc lane : Nat) : Except Fault Nat := e.readRegOperand r rc lane

/-- `WriteOperand` -/
def writeOperand (e : EmuRF) (r rc lane v : Nat) : EmuRF × Option Fault :=
  let nb := numBytes r rc
  if nb > 8 then (e, some .bounds)            -- `data[:numBytes]` of an 8-byte slice
  else e.writeReg r rc lane ((toLE 8 v).take nb)

/-- `ReadOperandBytes` -/
def readOperandBytes (e : EmuRF) (r rc lane n : Nat) : Except Fault (List UInt8) :=
  match e.readReg r rc lane with
  | .error f => .error f
  | .ok buf => .ok (if buf.length > n then buf.take n else buf)

/-- `WriteOperandBytes` -/
def writeOperandBytes (e : EmuRF) (r rc lane : Nat) (d : List UInt8) : EmuRF × Option Fault :=
  e.writeReg r rc lane d

end EmuRF

/-! ## the timing store: one compute unit's register files and its resident wavefronts -/

structure TWf where
  simd : Nat
  soff : Nat          -- `SRegOffset` (bytes)
  voff : Nat          -- `VRegOffset` (bytes)
  ns : Nat            -- `CodeObject.WFSgprCount`
  nv : Nat            -- `CodeObject.WIVgprCount`
  vcc : UInt64 := 0
  exec : UInt64 := 0
  scc : UInt8 := 0
  m0 : UInt32 := 0
deriving Inhabited

structure TimingRF where
  sfile : File
  vfiles : Array File
  wfs : Array TWf

/-- `ByteSizePerLane` of the vector register files (cubuilder.go) -/
def LANE_STRIDE : Nat := 1024

namespace TimingRF

/-- `SimpleRegisterFile.getRegOffset` (`isV` selects the vector file: lane stride 1024, the scalar
    file is never asked for a vector register and vice versa) -/
def getRegOffset (r offset lane : Nat) : Nat :=
  if isSReg r then regIndex r * 4 + offset else regIndex r * 4 + lane * LANE_STRIDE + offset

/-- `padTo8` -/
def padTo8 (d : List UInt8) : List UInt8 := if d.length ≥ 8 then d else copyInto 8 d

def vfileOf (t : TimingRF) (w : TWf) : File := t.vfiles.getD w.simd #[]

/-- `CURegFileAccessor.ReadReg` for wavefront `w` (followed by `SimpleRegisterFile.Read`) -/
def readReg (t : TimingRF) (w : TWf) (r rc lane waveOffset : Nat) : Except Fault (List UInt8) :=
  if r == R_SCC then .ok [w.scc]
  else if r == R_VCC then .ok (toLE 8 w.vcc.toNat)
  else if r == R_VCCLO then (if rc ≥ 2 then .ok (toLE 8 w.vcc.toNat) else .ok (toLE 4 (lo32 w.vcc)))
  else if r == R_VCCHI then (if rc ≥ 2 then .ok (toLE 8 w.vcc.toNat) else .ok (toLE 4 (hi32 w.vcc)))
  else if r == R_EXEC then .ok (toLE 8 w.exec.toNat)
  else if r == R_EXECLO then (if rc ≥ 2 then .ok (toLE 8 w.exec.toNat) else .ok (toLE 4 (lo32 w.exec)))
  else if r == R_EXECHI then (if rc ≥ 2 then .ok (toLE 8 w.exec.toNat) else .ok (toLE 4 (hi32 w.exec)))
  else if r == R_M0 then .ok (toLE 4 w.m0.toNat)
  else if isSReg r || isVReg r then
    let file := if isSReg r then t.sfile else t.vfileOf w
    let dataLen := if rc ≥ 2 then byteSize r * rc else byteSize r
    -- SimpleRegisterFile.Read
    let offset := getRegOffset r waveOffset lane
    let rc' := if rc == 0 then 1 else rc
    let size := rc' * 4
    if offset + size ≤ file.size then .ok (copyInto dataLen (rd file offset size)) else .error .bounds
  else .error .unsupported

/-- write to a 64-bit special register through one of its names: whole (`regCount >= 2 ||
    len(data) >= 8`), low half, or high half -/
def write64 (cur : UInt64) (rc : Nat) (data : List UInt8) (high : Bool) : Except Fault UInt64 :=
  if rc ≥ 2 || data.length ≥ 8 then
    match u64 (padTo8 data) with | .ok x => .ok (UInt64.ofNat x) | .error f => .error f
  else
    match u32 data with
    | .error f => .error f
    | .ok x =>
      if high then .ok (UInt64.ofNat ((x <<< 32) ||| (cur.toNat &&& MASK_LO)))
      else .ok (UInt64.ofNat ((cur.toNat &&& MASK_HI) ||| x))

def setWf (t : TimingRF) (wi : Nat) (w : TWf) : TimingRF := { t with wfs := t.wfs.setIfInBounds wi w }

/-- `CURegFileAccessor.WriteReg` for wavefront number `wi` (followed by `SimpleRegisterFile.Write`) -/
def writeReg (t : TimingRF) (wi : Nat) (r rc lane waveOffset : Nat) (data : List UInt8) :
    TimingRF × Option Fault :=
  let w := t.wfs.getD wi default
  let upd (x : Except Fault UInt64) (set : UInt64 → TWf) : TimingRF × Option Fault :=
    match x with | .ok v => (t.setWf wi (set v), none) | .error f => (t, some f)
  if r == R_SCC then
    match data with | [] => (t, some .bounds) | b :: _ => (t.setWf wi { w with scc := b }, none)
  else if r == R_VCC || r == R_VCCLO then upd (write64 w.vcc rc data false) fun v => { w with vcc := v }
  else if r == R_VCCHI then upd (write64 w.vcc rc data true) fun v => { w with vcc := v }
  else if r == R_EXEC || r == R_EXECLO then upd (write64 w.exec rc data false) fun v => { w with exec := v }
  else if r == R_EXECHI then upd (write64 w.exec rc data true) fun v => { w with exec := v }
  else if r == R_M0 then
    match u32 data with
    | .ok x => (t.setWf wi { w with m0 := UInt32.ofNat x }, none)
    | .error f => (t, some f)
  else if isSReg r || isVReg r then
    -- SimpleRegisterFile.Write
    let file := if isSReg r then t.sfile else t.vfileOf w
    let offset := getRegOffset r waveOffset lane
    let rc' := if rc == 0 then 1 else rc
    let size := rc' * 4
    if offset + size ≤ file.size then
      if data.length < size then (t, some .bounds)         -- `access.Data[0:RegCount*4]`
      else
        let file' := wr file offset (data.take size)
        if isSReg r then ({ t with sfile := file' }, none)
        else ({ t with vfiles := t.vfiles.setIfInBounds w.simd file' }, none)
    else (t, some .bounds)
  else (t, some .unsupported)

def waveOffset (w : TWf) (r : Nat) : Nat := if isVReg r then w.voff else w.soff

/-- `wavefront.Wavefront.ReadOperand` on a register operand -/
def readOperand (t : TimingRF) (wi r rc lane : Nat) : Except Fault Nat :=
  let w := t.wfs.getD wi default
  match t.readReg w r rc lane (waveOffset w r) with
  | .error f => .error f
  | .ok buf => .ok (leNat ((if buf.length < 8 then copyInto 8 buf else buf).take 8))

/-- `wavefront.Wavefront.WriteOperand` -/
def writeOperand (t : TimingRF) (wi r rc lane v : Nat) : TimingRF × Option Fault :=
  let w := t.wfs.getD wi default
  let nb := numBytes r rc
  if nb > 8 then (t, some .bounds)
  else t.writeReg wi r rc lane (waveOffset w r) ((toLE 8 v).take nb)

/-- `wavefront.Wavefront.ReadOperandBytes` -/
def readOperandBytes (t : TimingRF) (wi r rc lane n : Nat) : Except Fault (List UInt8) :=
  let w := t.wfs.getD wi default
  match t.readReg w r rc lane (waveOffset w r) with
  | .error f => .error f
  | .ok buf => .ok (if buf.length > n then buf.take n else buf)

/-- `wavefront.Wavefront.WriteOperandBytes` -/
def writeOperandBytes (t : TimingRF) (wi r rc lane : Nat) (d : List UInt8) : TimingRF × Option Fault :=
  let w := t.wfs.getD wi default
  t.writeReg wi r rc lane (waveOffset w r) d

/-- the 64 `copy(vRegStorage[offset:], data)` of `resetRegisterValue`, lane by lane; a lane whose
    offset lies beyond the file panics and leaves the earlier lanes cleared -/
def clearLanes (file : File) (voff nv : Nat) : Nat → Nat → File × Option Fault
  | 0, _ => (file, none)
  | k + 1, lane =>
    let offset := voff + LANE_STRIDE * lane
    if offset ≤ file.size then clearLanes (wr file offset (zeros (nv * 4))) voff nv k (lane + 1)
    else (file, some .bounds)

/-- the vector half of `resetRegisterValue` (`if wf.CodeObject.WIVgprCount > 0 { … }`) -/
def releaseV (t : TimingRF) (w : TWf) : TimingRF × Option Fault :=
  if w.nv > 0 then
    let r := clearLanes (t.vfileOf w) w.voff w.nv 64 0
    ({ t with vfiles := t.vfiles.setIfInBounds w.simd r.1 }, r.2)
  else (t, none)

/-- the scalar half (`if wf.CodeObject.WFSgprCount > 0 { copy(sRegStorage[offset:], data) }`) -/
def releaseS (t : TimingRF) (w : TWf) : TimingRF × Option Fault :=
  if w.ns > 0 then
    if w.soff ≤ t.sfile.size then ({ t with sfile := wr t.sfile w.soff (zeros (w.ns * 4)) }, none)
    else (t, some .bounds)
  else (t, none)

/-- `SchedulerImpl.resetRegisterValue` -/
def release (t : TimingRF) (wi : Nat) : TimingRF × Option Fault :=
  let w := t.wfs.getD wi default
  let r := releaseV t w
  match r.2 with
  | some f => (r.1, some f)
  | none => releaseS r.1 w

end TimingRF

/-! ## line protocol -/
open Util

/-- the harness's fill stream (an LCG; byte = bits 16..23) -/
def fillLoop : Nat → UInt32 → File → File
  | 0, _, f => f
  | n + 1, x, f =>
    let x' := x * 1664525 + 1013904223
    fillLoop n x' (f.push (x' >>> 16).toUInt8)

def fillFile (size seed fid : Nat) : File :=
  if seed == 0 then Array.replicate size 0
  else fillLoop size (seed.toUInt32 * 2654435761 + fid.toUInt32 * 40503 + 12345) (Array.emptyWithCapacity size)

def fnvBytes (h : UInt64) (f : File) : UInt64 := f.foldl (fun h b => (h ^^^ b.toUInt64) * 1099511628211) h
def fnvList (h : UInt64) (l : List UInt8) : UInt64 := l.foldl (fun h b => (h ^^^ b.toUInt64) * 1099511628211) h

def specialBytes (vcc exec : UInt64) (scc : UInt8) (m0 : UInt32) : List UInt8 :=
  toLE 8 vcc.toNat ++ toLE 8 exec.toNat ++ [scc] ++ toLE 4 m0.toNat

def hexOf (bs : List UInt8) : String := if bs.isEmpty then "-" else bytesHex (bs.map (·.toNat))
def unhex? (s : String) : Option (List UInt8) :=
  if s == "-" then some [] else (hexBytes? s).map fun l => l.map UInt8.ofNat

inductive St where
  | emu (e : EmuRF)
  | tim (t : TimingRF)

def St.digest : St → UInt64
  | .emu e =>
    fnvList (fnvBytes (fnvBytes 14695981039346656037 e.sfile) e.vfile) (specialBytes e.vcc e.exec e.scc e.m0)
  | .tim t =>
    let h := t.vfiles.foldl fnvBytes (fnvBytes 14695981039346656037 t.sfile)
    t.wfs.foldl (fun h w => fnvList h (specialBytes w.vcc w.exec w.scc w.m0)) h

def resStr (f : Option Fault) : String := match f with | none => "ok" | some f => f.str

def intOperand (s : String) : Option Nat :=
  match s.toInt? with
  | some (.ofNat n) => some (n % 18446744073709551616)
  | some (.negSucc n) => some (18446744073709551616 - (n + 1) % 18446744073709551616)
  | none => none

/-- one op; returns the new state and the output token -/
def stepOp (s : St) (f : List String) : St × String :=
  match f with
  | ["dig"] => (s, toHexPad 16 s.digest.toNat)
  | ["set", w, vcc, exec, scc, m0] =>
    match w.toNat?, hexNat? vcc, hexNat? exec, hexNat? scc, hexNat? m0 with
    | some w, some vcc, some exec, some scc, some m0 =>
      match s with
      | .emu e => (.emu { e with vcc := UInt64.ofNat vcc, exec := UInt64.ofNat exec, scc := UInt8.ofNat scc, m0 := UInt32.ofNat m0 }, "ok")
      | .tim t =>
        if w < t.wfs.size then
          let x := t.wfs.getD w default
          (.tim (t.setWf w { x with vcc := UInt64.ofNat vcc, exec := UInt64.ofNat exec, scc := UInt8.ofNat scc, m0 := UInt32.ofNat m0 }), "ok")
        else (s, "bad")
    | _, _, _, _, _ => (s, "bad")
  | ["rel", w] =>
    match s, w.toNat? with
    | .tim t, some w =>
      if w < t.wfs.size then let (t', f) := t.release w; (.tim t', resStr f) else (s, "bad")
    | _, _ => (s, "bad")
  | ["ci", w, v] =>
    match w.toNat?, intOperand v with
    | some w, some v =>
      (match s with | .emu _ => (s, toHex v) | .tim t => if w < t.wfs.size then (s, toHex v) else (s, "bad"))
    | _, _ => (s, "bad")
  | ["cl", w, v] =>
    match w.toNat?, hexNat? v with
    | some w, some v =>
      (match s with | .emu _ => (s, toHex (v % 4294967296)) | .tim t => if w < t.wfs.size then (s, toHex (v % 4294967296)) else (s, "bad"))
    | _, _ => (s, "bad")
  | ["cw", w, _] =>
    match w.toNat? with
    | some w =>
      (match s with | .emu _ => (s, Fault.nonreg.str) | .tim t => if w < t.wfs.size then (s, Fault.nonreg.str) else (s, "bad"))
    | _ => (s, "bad")
  | op :: w :: reg :: rc :: lane :: rest =>
    match w.toNat?, reg.toNat?, rc.toNat?, lane.toNat? with
    | some w, some r, some rc, some lane =>
      let inRange := match s with | .emu _ => true | .tim t => w < t.wfs.size
      if !(op == "r" || op == "w" || op == "rb" || op == "wb") then (s, "bad")
      else if !inRange then (s, "bad")
      else if !knownReg r then
        (if op == "r" || rest.length == 1 then (s, Fault.noreg.str) else (s, "bad"))
      else
      match op, rest with
      | "r", [] =>
        let x := match s with | .emu e => e.readOperand r rc lane | .tim t => t.readOperand w r rc lane
        (s, match x with | .ok v => toHex v | .error f => f.str)
      | "rb", [n] =>
        match n.toNat? with
        | some n =>
          let x := match s with | .emu e => e.readOperandBytes r rc lane n | .tim t => t.readOperandBytes w r rc lane n
          (s, match x with | .ok b => hexOf b | .error f => f.str)
        | none => (s, "bad")
      | "w", [v] =>
        match hexNat? v with
        | some v =>
          (match s with
           | .emu e => let (e', f) := e.writeOperand r rc lane v; (.emu e', resStr f)
           | .tim t => let (t', f) := t.writeOperand w r rc lane v; (.tim t', resStr f))
        | none => (s, "bad")
      | "wb", [d] =>
        match unhex? d with
        | some d =>
          (match s with
           | .emu e => let (e', f) := e.writeOperandBytes r rc lane d; (.emu e', resStr f)
           | .tim t => let (t', f) := t.writeOperandBytes w r rc lane d; (.tim t', resStr f))
        | none => (s, "bad")
      | _, _ => (s, "bad")
    | _, _, _, _ => (s, "bad")
  | _ => (s, "bad")

def runOps (s : St) (ops : List (List String)) (out : List String) : St × List String :=
  match ops with
  | [] => (s, out)
  | o :: rest => let (s', tok) := stepOp s o; runOps s' rest (tok :: out)

def parseWf (s : String) : Option TWf :=
  match (s.splitOn ":").mapM String.toNat? with
  | some [simd, soff, voff, ns, nv] => some { simd := simd, soff := soff, voff := voff, ns := ns, nv := nv }
  | _ => none

def S_FILE_BYTES : Nat := 3200 * 4
def V_FILE_BYTES : Nat := 16384 * 4

def initState (hdr : List String) : Option St :=
  match hdr with
  | "c07" :: "emu" :: cfg =>
    match kvNat? cfg "fill" with
    | some fill => some (.emu { sfile := fillFile (4 * 102) fill 0, vfile := fillFile (4 * 64 * 256) fill 1, vcc := 0, exec := 0, scc := 0, m0 := 0 })
    | none => none
  | "c07" :: "tim" :: cfg =>
    match kvNat? cfg "fill", kvNat? cfg "nsimd", kv? cfg "wf" with
    | some fill, some nsimd, some wf =>
      if nsimd < 1 || nsimd > 4 then none else
      match (wf.splitOn ",").mapM parseWf with
      | some wfs =>
        if wfs.all (·.simd < nsimd) then
          some (.tim { sfile := fillFile S_FILE_BYTES fill 0,
                       vfiles := (Array.range nsimd).map fun i => fillFile V_FILE_BYTES fill (i + 1),
                       wfs := wfs.toArray })
        else none
      | none => none
    | _, _, _ => none
  | _ => none

/-! ## register windows from the resource allocator (`CUResourceImpl`, model: `MgpuModel/C09_Res.lean`)

`c07 alloc <cu> ; r <key> <nwf> <s> <v> <l> ; f <key> ; …` — `ReserveResourceForWG` /
`FreeResourcesForWG` calls on one registered CU; the answer ends with the register windows of all
live wavefronts as the CU's dispatcher will create them (`wfdispatcher.go`: `SIMDID`, `SRegOffset`,
`VRegOffset` := the `WfLocation`; `WFSgprCount` / `WIVgprCount` from the code object) and two
decidable checks on them: inside the shipped register files, pairwise byte-disjoint. -/

/-- the timing wavefronts of all resident work-groups, in reservation order -/
def wfsOfCU (cu : C09.CU) : List TWf :=
  cu.resident.flatMap fun e => e.2.2.map fun l =>
    { simd := l.simd, soff := l.soff, voff := l.voff, ns := e.2.1.s, nv := e.2.1.v }

/-- the wavefront's windows lie inside the scalar file / one lane row of a vector file of an
    `nsimd`-SIMD compute unit -/
def winInsideB (nsimd : Nat) (w : TWf) : Bool :=
  decide (w.soff + 4 * w.ns ≤ 3200 * 4) && decide (w.voff + 4 * w.nv ≤ LANE_STRIDE) && decide (w.simd < nsimd)

/-- the windows of two wavefronts share no byte (an empty window is disjoint from everything) -/
def winDisjB (w w' : TWf) : Bool :=
  (w.ns == 0 || w'.ns == 0 || decide (w.soff + 4 * w.ns ≤ w'.soff) || decide (w'.soff + 4 * w'.ns ≤ w.soff)) &&
  (w.simd != w'.simd || w.nv == 0 || w'.nv == 0 || decide (w.voff + 4 * w.nv ≤ w'.voff) ||
    decide (w'.voff + 4 * w'.nv ≤ w.voff))

def allDisjB : List TWf → Bool
  | [] => true
  | w :: rest => rest.all (winDisjB w) && allDisjB rest

def wfStr (w : TWf) : String := s!"{w.simd}:{w.soff}:{w.voff}:{w.ns}:{w.nv}"

def allocOp (st : Option C09.CU × List String) (o : List String) : Option C09.CU × List String :=
  match st.1 with
  | none => (none, st.2 ++ ["X"])
  | some cu =>
    match o with
    | ["r", k, a, b, c, d] =>
      match k.toNat?, a.toNat?, b.toNat?, c.toNat?, d.toNat? with
      | some key, some nwf, some s, some v, some l =>
        match C09.reserve cu key { nwf := nwf, s := s, v := v, l := l } with
        | (.ok locs, cu') => (some cu', st.2 ++ ["ok:" ++ C09.locsShow locs])
        | (.no, cu') => (some cu', st.2 ++ ["no"])
        | (.twice, _) => (none, st.2 ++ ["fault:twice"])
      | _, _, _, _, _ => (some cu, st.2 ++ ["bad"])
    | ["f", k] =>
      match k.toNat? with
      | some key =>
        match C09.free cu key with
        | some cu' => (some cu', st.2 ++ ["f"])
        | none => (none, st.2 ++ ["fault:notfound"])
      | none => (some cu, st.2 ++ ["bad"])
    | _ => (some cu, st.2 ++ ["bad"])

def handleAlloc (cfg : List String) (ops : List (List String)) : String :=
  match cfg with
  | [c] =>
    match C09.parseCU c with
    | none => "bad-cfg"
    | some none => "fault:granularity"
    | some (some cu) =>
      let r := ops.foldl allocOp (some cu, [])
      match r.1 with
      | none => Util.joinWith " " (r.2 ++ ["dead"])
      | some cu' =>
        let ws := wfsOfCU cu'
        Util.joinWith " " (r.2 ++ [
          "wf=" ++ (if ws.isEmpty then "-" else Util.joinWith "," (ws.map wfStr)),
          "inside=" ++ (if ws.all (winInsideB cu'.vmasks.length) then "1" else "0"),
          "disjoint=" ++ (if allDisjB ws then "1" else "0")])
  | _ => "bad-cfg"

end C07
