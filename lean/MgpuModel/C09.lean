import MgpuModel.C09_Disp
import MgpuModel.C09_Part
import MgpuModel.C09_CU
import MgpuModel.C09_PCP
/-! # C09 — line-protocol handler

Three kinds of case lines (one scenario per line, ops separated by `;`):
* `c09 mask <n> ; next <len> <st> ; set <off> <len> <st> ; conv <a> <b> ; count <st>` — a raw
  `resourceMaskImpl` (`n = u` for the unlimited mask);
* `c09 res <cu> ; r <key> <nwf> <s> <v> <l> ; f <key> ; p` — `ReserveResourceForWG` /
  `FreeResourcesForWG` sequences on one registered CU (`p` prints the masks);
* `c09 cp alg=rr|greedy nd=<n> klo= ko= sklo= thr= cus=<cu>|<cu>… ; launch gx wx s v l ; tick ;
  done k ; doneb k,k,… ; room cu|drv n ; probe` — the command processor with harness CUs.
* `c09 part gx=<n> wx=<n> ncu=<n> fails=<0/1…>` — the partition placement algorithm alone
  (`MgpuModel/C09_Part.lean`).
A fault (Go panic) ends the scenario: the op prints `fault:<kind>` and later ops print `X`. -/
namespace C09
open Util

/-! ### mask scenarios -/

def maskOp (st : Option Mask × List String) (o : List String) : Option Mask × List String :=
  match st.1 with
  | none => (none, st.2 ++ ["X"])
  | some m =>
    match o with
    | ["next", a, b] =>
      match a.toNat?, b.toNat? with
      | some len, some s =>
        let r := m.nextRegion len s
        (some r.2, st.2 ++ [match r.1 with | some off => s!"at{off}" | none => "none"])
      | _, _ => (some m, st.2 ++ ["bad"])
    | ["set", a, b, c] =>
      match a.toNat?, b.toNat?, c.toNat? with
      | some off, some n, some s =>
        match m with
        | .lim l => if setOutOfRange l off n then (none, st.2 ++ ["fault:bounds"])
                    else (some (m.setStatus off n s), st.2 ++ [(m.setStatus off n s).show])
        | .unl _ => (some m, st.2 ++ [m.show])
      | _, _, _ => (some m, st.2 ++ ["bad"])
    | ["conv", a, b] =>
      match a.toNat?, b.toNat? with
      | some x, some y => (some (m.convert x y), st.2 ++ [(m.convert x y).show])
      | _, _ => (some m, st.2 ++ ["bad"])
    | ["count", a] =>
      match a.toNat? with
      | some s => (some m, st.2 ++ [toString (m.count s)])
      | none => (some m, st.2 ++ ["bad"])
    | _ => (some m, st.2 ++ ["bad"])

def handleMask (first : List String) (ops : List String) : String :=
  match first with
  | [_, _, n] =>
    let m0 : Option Mask := if n = "u" then some (.unl 0) else n.toNat?.map fun k => .lim (List.replicate k 0)
    match m0 with
    | none => "bad-cfg"
    | some m => joinWith " " (ops.foldl (fun st o => maskOp st (words o)) (some m, [])).2
  | _ => "bad-cfg"

/-! ### reserve/free scenarios on one CU -/

def resOp (st : Option CU × List String) (o : List String) : Option CU × List String :=
  match st.1 with
  | none => (none, st.2 ++ ["X"])
  | some cu =>
    match o with
    | ["r", k, a, b, c, d] =>
      match k.toNat?, a.toNat?, b.toNat?, c.toNat?, d.toNat? with
      | some key, some nwf, some s, some v, some l =>
        match reserve cu key { nwf := nwf, s := s, v := v, l := l } with
        | (.ok locs, cu') => (some cu', st.2 ++ ["ok:" ++ locsShow locs])
        | (.no, cu') => (some cu', st.2 ++ ["no"])
        | (.twice, _) => (none, st.2 ++ ["fault:twice"])
      | _, _, _, _, _ => (some cu, st.2 ++ ["bad"])
    | ["f", k] =>
      match k.toNat? with
      | some key =>
        match free cu key with
        | some cu' => (some cu', st.2 ++ ["f"])
        | none => (none, st.2 ++ ["fault:notfound"])
      | none => (some cu, st.2 ++ ["bad"])
    | ["p"] => (some cu, st.2 ++ [cu.show])
    | _ => (some cu, st.2 ++ ["bad"])

def handleRes (first : List String) (ops : List String) : String :=
  match first with
  | [_, _, c] =>
    match parseCU c with
    | none => "bad-cfg"
    | some none => "fault:granularity"
    | some (some cu) => joinWith " " (ops.foldl (fun st o => resOp st (words o)) (some cu, [])).2
  | _ => "bad-cfg"

/-! ### command-processor scenarios -/

/-- environment around the CP: the launches delivered so far, the MapWGReqs the CUs have not yet
    answered (emission order), the port-room settings -/
structure Env where
  cp : CP
  nLaunch : Nat
  outst : List Nat
  cuRoomSet : Nat
  drvRoomSet : Nat
  out : List String

def Ev.show : Ev → String
  | .map req cu launch idx locs => s!"M{req}:{cu}:{launch}:{idx}:{locsShow locs}"
  | .rsp launch => s!"R{launch}"

def Disp.show (d : Disp) : String :=
  let k := match d.kern with | some k => toString k.id | none => "-"
  s!"({k} c{d.cycleLeft} {d.nd}/{d.nc} i{d.inflight.length} w{if d.currWG.isSome then 1 else 0})"

def CP.show (cp : CP) : String :=
  joinWith "" (cp.disps.map Disp.show) ++ " " ++ joinWith "" (cp.pool.map CU.show)

/-- pick the `k`-th (mod length) element of the outstanding list -/
def pick (l : List Nat) (k : Nat) : Option Nat := if l = [] then none else l[k % l.length]?

/-- `n` ticks with the port rooms restored before each; events of all of them, and how many
    reported progress -/
def tickLoop : Nat → Nat → Nat → CP → List Ev → Nat → CP × List Ev × Nat
  | 0, _, _, cp, evs, p => (cp, evs, p)
  | n+1, cuR, drvR, cp, evs, p =>
    let r := cpTick { cp with cuRoom := cuR, drvRoom := drvR, out := [] }
    let evs' := evs ++ r.1.out.reverse
    if r.1.fault.isSome then (r.1, evs', p)
    else tickLoop n cuR drvR r.1 evs' (if r.2 then p + 1 else p)

def envTicks (e : Env) (n : Nat) (many : Bool) : Env :=
  let r := tickLoop n e.cuRoomSet e.drvRoomSet e.cp [] 0
  let evs := r.2.1
  let maps := evs.filterMap fun ev => match ev with | .map req _ _ _ _ => some req | _ => none
  let head := if many then s!"T*{n}={r.2.2}" else s!"T{r.2.2}"
  let tok := head :: evs.map Ev.show
  let tok := match r.1.fault with | some f => tok ++ ["fault:" ++ f] | none => tok
  { e with cp := r.1, outst := e.outst ++ maps, out := e.out ++ [joinWith "," tok] }

def envOp (e : Env) (o : List String) : Env :=
  if e.cp.fault.isSome then { e with out := e.out ++ ["X"] } else
  match o with
  | ["tick"] => envTicks e 1 false
  | ["ticks", a] =>
    match a.toNat? with
    | some n => envTicks e n true
    | none => { e with out := e.out ++ ["bad"] }
  | ["launch", a, b, c, d, f] =>
    match a.toNat?, b.toNat?, c.toNat?, d.toNat?, f.toNat? with
    | some gx, some wx, some s, some v, some l =>
      let k : Kern := { id := e.nLaunch, gx := gx, wx := wx, s := s, v := v, l := l }
      { e with cp := step e.cp (.launch k), nLaunch := e.nLaunch + 1, out := e.out ++ [s!"L{e.nLaunch}"] }
    | _, _, _, _, _ => { e with out := e.out ++ ["bad"] }
  | ["done", a] =>
    match a.toNat? with
    | some k =>
      match pick e.outst k with
      | none => { e with out := e.out ++ ["d-"] }
      | some id => { e with cp := step e.cp (.complete [id]), outst := e.outst.filter (· ≠ id),
                            out := e.out ++ [s!"d{id}"] }
    | none => { e with out := e.out ++ ["bad"] }
  | ["doneb", a] =>
    match natList? a with
    | some ks =>
      -- distinct outstanding requests, picked one after the other
      let (ids, rest) := ks.foldl (fun (acc : List Nat × List Nat) k =>
        match pick acc.2 k with
        | none => acc
        | some id => (acc.1 ++ [id], acc.2.filter (· ≠ id))) ([], e.outst)
      if ids = [] then { e with out := e.out ++ ["d-"] }
      else { e with cp := step e.cp (.complete ids), outst := rest,
                    out := e.out ++ ["d" ++ joinWith "+" (ids.map toString)] }
    | none => { e with out := e.out ++ ["bad"] }
  | ["room", "cu", a] =>
    match a.toNat? with
    | some n => { e with cuRoomSet := n, out := e.out ++ ["r"] }
    | none => { e with out := e.out ++ ["bad"] }
  | ["room", "drv", a] =>
    match a.toNat? with
    | some n => { e with drvRoomSet := n, out := e.out ++ ["r"] }
    | none => { e with out := e.out ++ ["bad"] }
  | ["probe"] => { e with out := e.out ++ [e.cp.show] }
  | _ => { e with out := e.out ++ ["bad"] }

def handleCP (first : List String) (ops : List String) : String :=
  let alg := (kv? first "alg").getD "rr"
  -- the partition placement algorithm has its own command-processor model (`MgpuModel/C09_PCP.lean`)
  if alg = "partition" then handlePCP first ops else
  let nd := (kvNat? first "nd").getD 8
  let cfg : Cfg := { greedy := alg = "greedy", klo := (kvNat? first "klo").getD 0,
                     ko := (kvNat? first "ko").getD 3600, sklo := (kvNat? first "sklo").getD 0,
                     thr := (kvNat? first "thr").getD 0 }
  match kv? first "cus" with
  | none => "bad-cfg"
  | some cs =>
    let cus := if cs = "-" then some [] else (cs.splitOn "|").mapM parseCU
    match cus with
    | none => "bad-cfg"
    | some l =>
      if l.any Option.isNone then "fault:granularity" else
      let pool := l.filterMap id
      let e0 : Env := { cp := mkCP cfg nd pool, nLaunch := 0, outst := [], cuRoomSet := 4096,
                        drvRoomSet := 4096, out := [] }
      joinWith " " (ops.foldl (fun e o => envOp e (words o)) e0).out

def handle (line : String) : String :=
  match splitTrim line ";" with
  | [] => "bad"
  | first :: ops =>
    match words first with
    | _ :: "mask" :: _ => handleMask (words first) ops
    | _ :: "res" :: _ => handleRes (words first) ops
    | _ :: "cp" :: _ => handleCP (words first) ops
    | _ :: "part" :: _ => handlePart (words first)
    | _ :: "cuside" :: _ => CUSide.handle (words first) ops
    | [_, "const"] =>
      -- what the shipped CU reports to the pool, and the register files `cu.MakeBuilder` allocates
      -- (`byte_offsets_disjoint'` is about exactly these sizes)
      s!"wf={natsShow shippedWf} s={shippedSRegs} v={natsShow shippedVRegs} l={shippedLDS}" ++
      s!" sfile={shippedSRegs * 4} vfile={natsShow (shippedVRegs.map (· * 4))}" ++
      s!" stride={natsShow (shippedVRegs.map fun _ => 1024)} pool={shippedWf.headD 0} simd={shippedWf.length}"
    | _ => "bad-kind"

end C09
