import MgpuModel.C15_Sys
import MgpuModel.C14_Flush
/-! # C15 — the reorder buffer composed with the compute unit's flush / restart

One memory path of the shipped shader array: the compute unit's scalar-memory port
(`cu.ToScalarMem`, modelled by property C14's `C14.Flush.St` — in-flight list, shadow list, the
re-send after a restart, the return handler that matches a response by request ID) connected to
the Top port of the L1S reorder buffer (`C15.Sys`: the tick-exact ROB model, the arbitrary
at-most-once lower memory), and the command processor's page-migration protocol
(`cp/ctrlMiddleware.go`): flush request to the compute unit → acknowledgement →
`DiscardTransactions` to the reorder buffer → acknowledgement → (caches, TLBs) → `Restart` to the
reorder buffer → acknowledgement → restart request to the compute unit.

The compute unit is stepped by `C14.Flush.step`, the reorder buffer and the memory by
`C15.sysStep`; the only new transitions are the two directions of the connection:
`xfer` moves the head of the compute unit's outgoing buffer into the Top port (the ROB numbers
the request `n`; `idOf[n]` remembers the compute unit's request ID — in the real code the ROB
keeps the ID string in `reqFromTop.Meta().ID` and copies it into `RspTo`), `back` moves the head
of the Top port's outgoing buffer into the compute unit's incoming buffer as a response naming
that request ID. The vector and instruction paths of the compute unit stay open (any `C14` event).
-/
namespace C15.Cu

structure Cfg where
  rob : C15.Cfg
  cu : C14.Flush.Cfg := {}

structure Comp where
  cu : C14.Flush.St := C14.Flush.St.init
  sys : Sys := {}
  /-- the compute unit's request ID (record, generation) of the request the ROB numbered `n` -/
  idOf : List C14.Flush.Req := []
  /-- the request ID each response of the ROB names (by the ROB's number of the request): the ID
      the request object carried when `bottomUp` built the response -/
  named : List (Nat × C14.Flush.Req) := []
  /-- ghost: the command processor's protocol state towards the ROB: 0 idle, 1 discard sent,
      2 discard acknowledged, 3 restart sent, 4 restart acknowledged -/
  robPh : Nat := 0

/-- the request the compute unit sends for request ID `r` (the ROB copies address / size / PID and
    never looks at them; the record id and generation are put there so that the forwarded copy is
    recognisable in the `fwd` log) -/
def reqOf (r : C14.Flush.Req) : ReqIn :=
  { write := false, addr := r.1, size := 4, data := [], mask := [], pid := r.2, cwc := false, src := 1 }

/-- The request ID the request object of record `i` carries **now**. The compute unit re-sends a
    saved record with the *same* request object and overwrites its ID (`info.Req.ID = …Generate()`
    in `send…ShadowBufferAccesses`), so a copy of the object that still sits in a port buffer or in
    the ROB's transaction (`reqFromTop` is that pointer) shows the new ID: the ROB reads
    `reqFromTop.Meta().ID` when `bottomUp` builds the response (`nameRsps`). Current generation = that of the record
    while it is in the in-flight or shadow list; afterwards the last generation sent. -/
def curGen (ch : C14.Flush.Chan) (i : Nat) : Nat :=
  match (ch.inf ++ ch.sh).find? (fun e => e.id == i) with
  | some e => e.gen
  | none => ((ch.sent.filter (fun r => r.1 == i)).map (·.2)).foldl max 0

/-- the responses a ROB tick has built are stamped with the request IDs of that moment -/
def nameRsps (σ : Comp) (sys' : Sys) : List (Nat × C14.Flush.Req) :=
  (sys'.rob.delivered.drop σ.sys.rob.delivered.length).map fun d =>
    (d.rspTo, match σ.idOf[d.rspTo]? with
              | some r => (r.1, curGen σ.cu.s r.1)
              | none => (0, 0))

/-- the request ID the response to the ROB's request number `n` names -/
def nameOf (σ : Comp) (n : Nat) : Option C14.Flush.Req := (σ.named.find? (fun x => x.1 == n)).map (·.2)

inductive CEv where
  /-- any event of the compute unit except traffic on the connected path -/
  | cu (o : C14.Flush.Op)
  /-- the connection moves the head request of the compute unit's scalar port to the ROB -/
  | xfer
  /-- the connection moves the head response of the ROB's Top port to the compute unit -/
  | back
  /-- tick of the ROB, the lower memory taking / answering, control message, acknowledgement taken -/
  | rob (e : Ev)
deriving Repr

/-- events of the compute unit that belong to the connection (performed by `xfer` / `back` only) -/
def isLink : C14.Flush.Op → Bool
  | .take .s _ => true
  | .deliver .s _ _ => true
  | .foreign .s _ => true
  | _ => false

def robPhStep (σ : Comp) (c : Cfg) : CEv → Nat
  | .rob (.ctl m) =>
    if σ.sys.rob.ctlIn.length < c.rob.ctlInCap then
      (if m.discard ∧ σ.robPh = 0 then 1 else if ¬ m.discard ∧ m.restart ∧ σ.robPh = 2 then 3 else σ.robPh)
    else σ.robPh
  | .rob .takeAck =>
    if σ.sys.rob.ctlOut = 0 then σ.robPh
    else if σ.robPh = 1 then 2 else if σ.robPh = 3 then 4 else σ.robPh
  | .cu .cpRestart => if σ.cu.cpIn.length < c.cu.capCP ∧ σ.robPh = 4 then 0 else σ.robPh
  | _ => σ.robPh

def cstep (c : Cfg) (σ : Comp) (ev : CEv) : Comp :=
  match ev with
  | .cu o =>
    if isLink o then σ else { σ with cu := C14.Flush.step c.cu σ.cu o, robPh := robPhStep σ c ev }
  | .xfer =>
    match σ.cu.s.out with
    | [] => σ
    | r :: _ =>
      if σ.cu.fault then σ
      else if σ.sys.rob.topIn.length < c.rob.topInCap then
        { σ with cu := C14.Flush.step c.cu σ.cu (.take .s 1)
                 sys := sysStep c.rob σ.sys (.arrive (reqOf r))
                 idOf := σ.idOf ++ [r] }
      else σ
  | .back =>
    match σ.sys.rob.topOut with
    | [] => σ
    | d :: _ =>
      match nameOf σ d.rspTo with
      | none => σ
      | some r =>
        if σ.cu.fault then σ
        else if σ.cu.s.inp.length < c.cu.capS then
          { σ with cu := C14.Flush.step c.cu σ.cu (.deliver .s r.1 r.2)
                   sys := sysStep c.rob σ.sys .takeRsp }
        else σ
  | .rob e =>
    match e with
    | .arrive _ => σ
    | .takeRsp => σ
    | .tick =>
      let sys' := sysStep c.rob σ.sys .tick
      { σ with sys := sys', named := σ.named ++ nameRsps σ sys' }
    | e => { σ with sys := sysStep c.rob σ.sys e, robPh := robPhStep σ c ev }

def crun (c : Cfg) (evs : List CEv) : Comp := evs.foldl (cstep c) {}

/-- the environment's side of the contract: the compute unit's own legality (`C14.Flush.legalB`:
    units run only while not paused, the command processor's flush / restart protocol), and the
    command processor's order between the two components: `DiscardTransactions` reaches the ROB
    only after the compute unit acknowledged its flush, `Restart` only after the discard was
    acknowledged, and the compute unit is restarted only after the ROB acknowledged its restart. -/
def legalB (_c : Cfg) (σ : Comp) : CEv → Bool
  | .cu o =>
    !isLink o &&
    (match o with
     | .issS _ _ | .issV _ _ | .fetch _ | .usendS | .usendV _ => !σ.cu.isPaused
     | .deliver .f i g => decide ((i, g) ∈ σ.cu.f.sent)
     | .deliver .v i g => decide ((i, g) ∈ σ.cu.v.sent)
     | .cpFlush => decide (σ.cu.cp = .idle) && decide (σ.robPh = 0)
     | .cpRestart => decide (σ.cu.cp = .acked) && decide (σ.robPh = 4)
     | _ => true)
  | .xfer => true
  | .back => true
  | .rob (.ctl m) =>
    (m.discard && !m.restart && decide (σ.cu.cp = .acked) && decide (σ.robPh = 0)) ||
    (!m.discard && m.restart && decide (σ.robPh = 2))
  | .rob (.arrive _) => false
  | .rob .takeRsp => false
  | .rob _ => true

def legalRunB (c : Cfg) : Comp → List CEv → Bool
  | _, [] => true
  | σ, e :: es => legalB c σ e && legalRunB c (cstep c σ e) es

/-! ## line protocol: `c15 cu cap= width= pb= cb= caps= nw= ; op ; …`

Compute-unit events are written as in `c14 flush` lines (`is w n`, `us`, `t`, `cf`, `cr`, `tk c n`);
`tk s 1` is the connection's `xfer`, `de s i g` its `back` (the real response names request
`(i, g)`; the model must have exactly that response at the head of the Top port). ROB side:
`rt` tick, `mt` the memory takes a forwarded request, `ma j` it answers its `j`-th outstanding
one, `rF` / `rS` discard / restart message, `ra` acknowledgement taken. -/

def evOut (c : Cfg) (nw : Nat) (σ : Comp) (t : List String) : Comp × String :=
  match t with
  | ["rt"] =>
    let r := tick c.rob σ.sys.rob
    let σ' := cstep c σ (.rob .tick)
    (σ', match r.1.fault with
         | some f => "fault:" ++ faultName f
         | none => s!"t{b01 r.2}:{r.1.txs.length},{r.1.table.length},{b01 r.1.flushing}")
  | ["mt"] => (cstep c σ (.rob .memTake), if σ.sys.rob.botOut.isEmpty then "m0" else "m1")
  | ["ma", j] =>
    match j.toNat? with
    | none => (σ, "bad")
    | some j =>
      if σ.sys.mem.isEmpty then (σ, "none") else
      let j := j % σ.sys.mem.length
      let σ' := cstep c σ (.rob (.memAnswer j (.data [])))
      (σ', if σ'.sys.mem.length < σ.sys.mem.length then "ok" else "full")
  | ["rF"] =>
    let σ' := cstep c σ (.rob (.ctl ⟨true, false⟩))
    (σ', if σ'.sys.rob.ctlIn.length > σ.sys.rob.ctlIn.length then "ok" else "full")
  | ["rS"] =>
    let σ' := cstep c σ (.rob (.ctl ⟨false, true⟩))
    (σ', if σ'.sys.rob.ctlIn.length > σ.sys.rob.ctlIn.length then "ok" else "full")
  | ["ra"] => (cstep c σ (.rob .takeAck), if σ.sys.rob.ctlOut = 0 then "c[]" else "c[done]")
  | ["tk", "s", _] =>
    match σ.cu.s.out with
    | [] => (σ, "k-")
    | r :: _ =>
      if σ.sys.rob.topIn.length < c.rob.topInCap then (cstep c σ .xfer, s!"k{r.1}.{r.2}")
      else (σ, "kfull")
  | ["de", "s", i, g] =>
    match σ.sys.rob.topOut, i.toNat?, g.toNat? with
    | d :: _, some i, some g =>
      if nameOf σ d.rspTo = some (i, g) then
        let σ' := cstep c σ .back
        (σ', if σ'.sys.rob.topOut.length < σ.sys.rob.topOut.length then "d1" else "d0")
      else (σ, s!"d?{d.rspTo}:{((nameOf σ d.rspTo).map (fun r => s!"{r.1}.{r.2}")).getD "-"}")
    | _, _, _ => (σ, "d?-")
  | _ =>
    match C14.Flush.parseOp t with
    | none => (σ, "x")
    | some o =>
      if isLink o then (σ, "x")
      else (cstep c σ (.cu o), C14.Flush.opOut c.cu nw σ.cu o)

def handle (first : List String) (ops : List String) : String :=
  match parseCfg first with
  | none => "bad-cfg"
  | some rc =>
    let c : Cfg := { rob := rc, cu := { capS := (Util.kvNat? first "caps").getD 32 } }
    let nw := (Util.kvNat? first "nw").getD 1
    let r := ops.foldl (fun (acc : Comp × Array String) o =>
      if acc.1.cu.fault then acc else
      let (σ', out) := evOut c nw acc.1 (Util.words o)
      (σ', acc.2.push out)) (({} : Comp), #[])
    Util.joinWith " ; " r.2.toList

end C15.Cu
