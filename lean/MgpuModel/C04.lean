import MgpuModel.Util
import MgpuModel.Gen.Tables
/-! # C04 — instruction decoding

Hand-written transcription (tie H) of `insts.Disassembler.Decode` and the 13 `decodeXXX`
functions of amd/insts/disassembler.go, `getOperand` of operand.go, over the tables that are
REGENERATED from the Go sources on every run (`Gen.formats`, `Gen.rowsBefore/After`, `Gen.regs`).

Structure chosen so that "bytes beyond the reported size never matter" is visible: a 4-byte
format is decoded from the first dword alone into either a finished instruction or a
continuation that consumes exactly one trailing dword.
-/
namespace C04
open Gen

def extractBits (w lo hi : Nat) : Nat := (w / 2 ^ lo) % 2 ^ (hi - lo + 1)

/-! ## Formats -/

/-- `initFormatList`: any order sorted by non-increasing mask; we take a stable sort of the
    source order as the canonical representative (order-independence is a theorem). -/
def insertByMask (f : Format) : List Format → List Format
  | [] => [f]
  | g :: r => if g.mask < f.mask then f :: g :: r else g :: insertByMask f r

def sortByMask (l : List Format) : List Format := l.foldl (fun acc f => insertByMask f acc) []

def formatList : List Format := sortByMask formats

def isVOP3bOpcode (op : Nat) : Bool :=
  op == 281 || op == 282 || op == 283 || op == 284 || op == 285 || op == 286 || op == 480 || op == 481 ||
  op == 488 || op == 489   -- v_mad_u64_u32 / v_mad_i64_i32 carry out to SDST (added by the C03 repair)

def formatOf (ft : Nat) : Option Format := formats.find? (·.ft == ft)

/-- `matchFormat` over an explicit format list -/
def matchFormatIn (l : List Format) (w : Nat) : Option Format :=
  match l.find? (fun f => f.ft != FT_VOP3b && (w ^^^ f.encoding) &&& f.mask == 0) with
  | none => none
  | some f =>
    if f.ft == FT_VOP3a && isVOP3bOpcode (extractBits w f.opLo f.opHi) then formatOf FT_VOP3b
    else some f

def matchFormat (w : Nat) : Option Format := matchFormatIn formatList w

/-! ## Decode table -/

def lastRow (rows : List Row) (ft op : Nat) : Option Row :=
  rows.foldl (fun acc r => if r.ft == ft && r.opcode == op then some r else acc) none

/-- rows of format `copyFrom` registered before the copy loop runs. (Go iterates the map, i.e.
    the de-duplicated rows; keeping duplicates here in source order yields the same `lookUp`,
    because the last registration wins on both sides.) -/
def copySources : List Row := rowsBefore.filter (·.ft == copyFrom)

def copies : List Row :=
  if hasCopyLoop then copySources.map fun r =>
    { name := r.name, opcode := r.opcode + copyOffset, ft := copyTo, exe := copyExe,
      dstW := copyWidths.getD 0 0, src0W := copyWidths.getD 1 0, src1W := copyWidths.getD 2 0,
      src2W := copyWidths.getD 3 0, sdstW := copyWidths.getD 4 0 }
  else []

def allRows : List Row := rowsBefore ++ copies ++ rowsAfter

/-- `lookUp`: map semantics — the last `addInstType` for (format, opcode) wins -/
def lookUp (ft op : Nat) : Option Row := lastRow allRows ft op

/-- `lookUp` of a disassembler with `IsCDNA3`: the rows of `initializeCDNA3DecodeTable`
    (`Gen.cdna3Rows`: opcodes that CDNA3 defines differently, e.g. VOP1 0x38 = `v_mov_b64`) are
    consulted first; `lookUp` of the shared table otherwise. -/
def lookUpArch (cdna3 : Bool) (ft op : Nat) : Option Row :=
  if cdna3 then
    (match lastRow cdna3Rows ft op with
     | some r => some r
     | none => lookUp ft op)
  else lookUp ft op

/-! ## Operands -/

inductive Opnd where
  | reg (code idx count : Nat)
  | int (code : Nat) (v : Int)
  | float (code : Nat)
  | lit (code : Nat) (v : Nat)
deriving Repr, DecidableEq, Inhabited

def Opnd.isLit : Opnd → Bool
  | .lit .. => true
  | _ => false

def Opnd.setCount (o : Opnd) (n : Nat) : Opnd :=
  match o with
  | .reg c i _ => .reg c i n
  | o => o   -- Go sets RegCount on the struct whatever the kind; only registers print it

def sreg (code idx count : Nat) : Opnd := .reg code (R_S0 + idx) count
def vreg (code idx count : Nat) : Opnd := .reg code (R_V0 + idx) count

/-- `getOperand`; `none` = error "cannot find Operand" -/
def getOperand (n : Nat) : Option Opnd :=
  if n ≤ 101 then some (sreg n n 0)
  else if n == 102 then some (.reg n R_FlatSratchLo 0)
  else if n == 103 then some (.reg n R_FlatSratchHi 0)
  else if n == 104 then some (.reg n R_XnackMaskLo 0)
  else if n == 105 then some (.reg n R_XnackMaskHi 0)
  else if n == 106 then some (.reg n R_VCCLO 0)
  else if n == 107 then some (.reg n R_VCCHI 0)
  else if n == 108 then some (.reg n R_TbaLo 0)
  else if n == 109 then some (.reg n R_TbaHi 0)
  else if n == 110 then some (.reg n R_TmaLo 0)
  else if n == 111 then some (.reg n R_TmaHi 0)
  else if 112 ≤ n && n < 123 then some (.reg n (R_Timp0 + (n - 112)) 0)
  else if n == 124 then some (.reg n R_M0 0)
  else if n == 126 then some (.reg n R_EXECLO 0)
  else if n == 127 then some (.reg n R_EXECHI 0)
  else if 128 ≤ n && n ≤ 192 then some (.int n ((n : Int) - 128))
  else if 193 ≤ n && n ≤ 208 then some (.int n (192 - (n : Int)))
  else if 240 ≤ n && n ≤ 248 then some (.float n)
  else if n == 251 then some (.reg n R_VCCZ 0)
  else if n == 252 then some (.reg n R_EXECZ 0)
  else if n == 253 then some (.reg n R_SCC 0)
  else if n == 255 then some (.lit n 0)
  else if 256 ≤ n && n ≤ 511 then some (vreg n (n - 256) 0)
  else none

/-! ## Instructions -/

structure Inst where
  name : String := ""
  ft : Nat := 0
  opcode : Nat := 0
  size : Nat := 0
  src0 : Option Opnd := none
  src1 : Option Opnd := none
  src2 : Option Opnd := none
  dst : Option Opnd := none
  sdst : Option Opnd := none
  addr : Option Opnd := none
  data : Option Opnd := none
  data1 : Option Opnd := none
  base : Option Opnd := none
  offset : Option Opnd := none
  simm16 : Option Opnd := none
  saddr : Option Opnd := none
  abs : Nat := 0
  omod : Nat := 0
  neg : Nat := 0
  opSel : Nat := 0
  opSelHi : Nat := 0
  offset0 : Nat := 0
  offset1 : Nat := 0
  slc : Bool := false
  glc : Bool := false
  tfe : Bool := false
  imm : Bool := false
  clamp : Bool := false
  gds : Bool := false
  vmcnt : Nat := 0
  lkgmcnt : Nat := 0
  isSdwa : Bool := false
  dstSel : Nat := 0
  dstUnused : Nat := 0
  src0Sel : Nat := 0
  src1Sel : Nat := 0
  src0Neg : Bool := false
  src0Abs : Bool := false
  src1Neg : Bool := false
  src1Abs : Bool := false
  src2Neg : Bool := false
  src2Abs : Bool := false
deriving Repr, DecidableEq, Inhabited

inductive Outcome where
  | ok (i : Inst)
  | err
  | notImpl
deriving Repr, DecidableEq, Inhabited

/-- result of decoding the first dword of a 4-byte format -/
inductive Dec4 where
  | done (i : Inst)                      -- complete, size 4
  | more (k : Nat → Outcome)             -- consumes exactly one trailing dword (size 8)
  | err

def setLit (o : Opnd) (v : Nat) : Opnd :=
  match o with
  | .lit c _ => .lit c v
  | o => o

def with64 (w : Nat) (o : Opnd) : Opnd := if w == 64 then o.setCount 2 else o

def containsSub (s sub : String) : Bool := (s.splitOn sub).length > 1

/-! ### 4-byte formats -/

def decodeSOP2 (i : Inst) (w : Nat) : Dec4 :=
  match getOperand (extractBits w 0 7), getOperand (extractBits w 8 15), getOperand (extractBits w 16 22) with
  | some s0, some s1, some d =>
    let wide := containsSub i.name "64"
    let fin (s0 s1 : Opnd) : Inst :=
      { i with
               src0 := some (if wide then s0.setCount 2 else s0),
               src1 := some (if wide then s1.setCount 2 else s1),
               dst := some (if wide then d.setCount 2 else d) }
    if s0.isLit || s1.isLit then
      .more fun l => .ok (fin (setLit s0 l) (setLit s1 l))
    else .done (fin s0 s1)
  | _, _, _ => .err

def decodeSOPC (i : Inst) (w : Nat) : Dec4 :=
  match getOperand (extractBits w 0 7), getOperand (extractBits w 8 15) with
  | some s0, some s1 =>
    if s0.isLit || s1.isLit then
      .more fun l => .ok { i with src0 := some (setLit s0 l), src1 := some (setLit s1 l) }
    else .done { i with src0 := some s0, src1 := some s1 }
  | _, _ => .err

def decodeSOP1 (i : Inst) (row : Row) (w : Nat) : Dec4 :=
  match getOperand (extractBits w 0 7), getOperand (extractBits w 16 22) with
  | some s0, some d =>
    let s0 := with64 row.src0W s0
    let d := with64 row.dstW d
    if s0.isLit then .more fun l => .ok { i with src0 := some (setLit s0 l), dst := some d }
    else .done { i with src0 := some s0, dst := some d }
  | _, _ => .err

/-- `decodeSOPK` before the repair: every SOPK opcode was a 4-byte instruction, also `s_setreg_imm32_b32` (opcode 20),
    whose 32-bit SIMM32 follows the first dword (kept for `setreg_imm32_missized_before_fix`). -/
def decodeSOPKOld (i : Inst) (w : Nat) : Dec4 :=
  match getOperand (extractBits w 16 22) with
  | some d => .done { i with simm16 := some (.int 0 (extractBits w 0 15)), dst := some d }
  | none => .err

/-- repaired: opcode 20 (`s_setreg_imm32_b32`) consumes the dword behind the first one and keeps it in `Src0` as a
    literal constant -/
def decodeSOPK (i : Inst) (w : Nat) : Dec4 :=
  match getOperand (extractBits w 16 22) with
  | some d =>
    if i.opcode == 20 then
      .more fun l => .ok { i with simm16 := some (.int 0 (extractBits w 0 15)), dst := some d, src0 := some (.lit 0 l) }
    else .done { i with simm16 := some (.int 0 (extractBits w 0 15)), dst := some d }
  | none => .err

def decodeSOPP (i : Inst) (w : Nat) : Dec4 :=
  let imm := extractBits w 0 15
  let i := { i with simm16 := some (.int 0 imm) }
  if i.opcode == 12 then .done { i with vmcnt := extractBits imm 0 3, lkgmcnt := extractBits imm 8 12 }
  else .done i

def decodeVOP1 (i : Inst) (row : Row) (w : Nat) : Dec4 :=
  let dv := extractBits w 17 24
  match getOperand (extractBits w 0 8), (if i.opcode == 2 then getOperand dv else getOperand (dv + 256)) with
  | some s0, some d =>
    let s0 := with64 row.src0W s0
    let d := with64 row.dstW d
    let d := if i.opcode == 4 || i.opcode == 16 then d.setCount 2 else d
    let fin (s0 : Opnd) : Inst :=
      { i with src0 := some (if i.opcode == 15 then s0.setCount 2 else s0), dst := some d }
    if s0.isLit then .more fun l => .ok (fin (setLit s0 l)) else .done (fin s0)
  | _, _ => .err

def decodeVOPC (i : Inst) (row : Row) (w : Nat) : Dec4 :=
  match getOperand (extractBits w 0 8) with
  | some s0 =>
    let b := extractBits w 9 16
    let s1 := with64 row.src1W (vreg b b 0)
    if s0.isLit then .more fun l => .ok { i with src0 := some (with64 row.src0W (setLit s0 l)), src1 := some s1 }
    else .done { i with src0 := some (with64 row.src0W s0), src1 := some s1 }
  | none => .err

def sdwaSel (s : Nat) : Nat :=
  match s with
  | 0 => 0xff | 1 => 0xff00 | 2 => 0xff0000 | 3 => 0xff000000
  | 4 => 0xffff | 5 => 0xFFFF0000 | 6 => 0xFFFFFFFF | _ => 0

def isKOpcode (op : Nat) : Bool := op == 23 || op == 36 || op == 24 || op == 37

/-- SRC0 of an SDWA encoding before the repair: the "SRC0 is an SGPR" flag was read from bit 30 of the SDWA dword
    (the ISA has S0 at bit 23; kept for `sdwa_s0_misread_before_fix`) -/
def sdwaSrc0Old (sd : Nat) : Opnd :=
  if extractBits sd 30 30 != 0 then sreg (extractBits sd 0 7) (extractBits sd 0 7) 0
  else vreg (extractBits sd 0 7) (extractBits sd 0 7) 0

def decodeVOP2 (i : Inst) (w : Nat) : Dec4 :=
  let ob := extractBits w 0 8
  let b1 := extractBits w 9 16
  let bd := extractBits w 17 24
  let d := vreg bd bd 0
  if ob == 249 then
    .more fun sd =>
      let s0b := extractBits sd 0 7
      -- panics for unsupported modifiers come first, in source order
      if extractBits sd 13 13 == 1 then .notImpl
      else if extractBits sd 19 19 == 1 then .notImpl
      else if extractBits sd 20 20 == 1 then .notImpl
      else if extractBits sd 21 21 == 1 then .notImpl
      else if extractBits sd 27 27 == 1 then .notImpl
      else if extractBits sd 28 28 == 1 then .notImpl
      else if extractBits sd 29 29 == 1 then .notImpl
      else
      let du := extractBits sd 11 12
      let s1 := if extractBits sd 31 31 != 0 then sreg b1 b1 0 else vreg b1 b1 0
      -- S0 is bit 23 of the SDWA dword (repaired: the decoder used to read bit 30, `sdwaSrc0Old`)
      let s0 := if extractBits sd 23 23 != 0 then sreg s0b s0b 0 else vreg s0b s0b 0
      if isKOpcode i.opcode then .err else
      .ok { i with isSdwa := true, src0 := some s0, src1 := some s1, dst := some d,
                   dstSel := sdwaSel (extractBits sd 8 10),
                   dstUnused := (if du == 3 then 0 else du),
                   src0Sel := sdwaSel (extractBits sd 16 18),
                   src1Sel := sdwaSel (extractBits sd 24 26) }
  else
    match getOperand ob with
    | none => .err
    | some s0 =>
      let s1 := vreg b1 b1 0
      if isKOpcode i.opcode then
        .more fun l => .ok { i with imm := true, src0 := some (setLit s0 l), src1 := some s1,
                                    dst := some d, src2 := some (.lit 0 l) }
      else if s0.isLit then
        .more fun l => .ok { i with src0 := some (setLit s0 l), src1 := some s1, dst := some d }
      else .done { i with src0 := some s0, src1 := some s1, dst := some d }

/-- `decodeVOP2` before the repair of the S0 bit (kept for `sdwa_s0_misread_before_fix`) -/
def decodeVOP2Old (i : Inst) (w : Nat) : Dec4 :=
  let ob := extractBits w 0 8
  let b1 := extractBits w 9 16
  let bd := extractBits w 17 24
  let d := vreg bd bd 0
  if ob == 249 then
    .more fun sd =>
      -- panics for unsupported modifiers come first, in source order
      if extractBits sd 13 13 == 1 then .notImpl
      else if extractBits sd 19 19 == 1 then .notImpl
      else if extractBits sd 20 20 == 1 then .notImpl
      else if extractBits sd 21 21 == 1 then .notImpl
      else if extractBits sd 27 27 == 1 then .notImpl
      else if extractBits sd 28 28 == 1 then .notImpl
      else if extractBits sd 29 29 == 1 then .notImpl
      else
      let du := extractBits sd 11 12
      let s1 := if extractBits sd 31 31 != 0 then sreg b1 b1 0 else vreg b1 b1 0
      let s0 := sdwaSrc0Old sd
      if isKOpcode i.opcode then .err else
      .ok { i with isSdwa := true, src0 := some s0, src1 := some s1, dst := some d,
                   dstSel := sdwaSel (extractBits sd 8 10),
                   dstUnused := (if du == 3 then 0 else du),
                   src0Sel := sdwaSel (extractBits sd 16 18),
                   src1Sel := sdwaSel (extractBits sd 24 26) }
  else
    match getOperand ob with
    | none => .err
    | some s0 =>
      let s1 := vreg b1 b1 0
      if isKOpcode i.opcode then
        .more fun l => .ok { i with imm := true, src0 := some (setLit s0 l), src1 := some s1,
                                    dst := some d, src2 := some (.lit 0 l) }
      else if s0.isLit then
        .more fun l => .ok { i with src0 := some (setLit s0 l), src1 := some s1, dst := some d }
      else .done { i with src0 := some s0, src1 := some s1, dst := some d }

/-! ### 8-byte formats -/

/-- Address register count of the CDNA3 FLAT decode before the SEG repair (kept for reference). -/
def decodeFLATAddrCntOld (cdna3 : Bool) (sa : Nat) : Nat :=
  if cdna3 then (if sa != 0x7F then 1 else 2) else (if sa != 0x7F && sa != 0 then 1 else 2)

def decodeFLAT (cdna3 : Bool) (i : Inst) (lo hi : Nat) : Outcome :=
  let raw := extractBits lo 0 12
  let off0 := if raw &&& (1 <<< 12) != 0 then raw ||| 0xFFFFE000 else raw
  let ab := extractBits hi 0 7
  let sa := extractBits hi 16 22
  -- CDNA3: SEG (bits 14:15 of the first dword) 0 is the FLAT segment, which does not use SADDR
  -- (before the repair every SADDR != 0x7F gave a one-register address: `decodeFLATAddrCntOld`).
  let seg := extractBits lo 14 15
  let addrCnt := if cdna3 then (if sa != 0x7F && seg != 0 then 1 else 2) else (if sa != 0x7F && sa != 0 then 1 else 2)
  let db := extractBits hi 24 31
  let tb := extractBits hi 8 15
  let cnt : Nat :=
    if i.opcode == 21 || i.opcode == 29 || (80 ≤ i.opcode && i.opcode ≤ 93) then 2
    else if i.opcode == 22 || i.opcode == 30 then 3
    else if i.opcode == 23 || i.opcode == 31 then 4 else 0
  .ok { i with offset0 := off0,
               slc := extractBits lo 17 17 != 0, glc := extractBits lo 16 16 != 0,
               tfe := extractBits hi 23 23 != 0,
               saddr := some (.int 0 sa), addr := some (vreg ab ab addrCnt),
               dst := some (vreg db db cnt), data := some (vreg tb tb cnt) }

/-- immediate OFFSET of SMEM: 20 bits unsigned on GCN3; on GFX9+ (`d.IsCDNA3`) a 21-bit signed byte
    offset (repaired: the decoder used to read 20 unsigned bits on both) -/
def smemImm (cdna3 : Bool) (hi : Nat) : Int :=
  if cdna3 then
    (if extractBits hi 0 20 ≥ 2 ^ 20 then (extractBits hi 0 20 : Int) - 2 ^ 21 else (extractBits hi 0 20 : Int))
  else (extractBits hi 0 19 : Int)

def decodeSMEM (cdna3 : Bool) (i : Inst) (lo hi : Nat) : Outcome :=
  let imm := extractBits lo 17 17 != 0
  let bb := extractBits lo 0 5 * 2
  match getOperand (extractBits lo 6 12) with
  | none => .err
  | some dt =>
    let op := i.opcode
    let dt :=
      if op == 0 then dt.setCount 1
      else if op == 1 || op == 9 || op == 17 || op == 25 then dt.setCount 2
      else if op == 2 || op == 10 || op == 18 || op == 26 then dt.setCount 4
      else if op == 3 || op == 11 || op == 19 || op == 27 then dt.setCount 8
      else if op == 4 || op == 12 || op == 20 || op == 28 then dt.setCount 16
      else dt
    let o := extractBits hi 0 19
    .ok { i with glc := extractBits lo 16 16 != 0, imm := imm,
                 base := some (sreg bb bb 2), data := some dt,
                 offset := some (if imm then .int 0 (smemImm cdna3 hi) else sreg o o 1) }

def regCountOfWidth (w : Nat) : Nat := if w == 64 then 2 else if w == 96 then 3 else if w == 128 then 4 else 1

def dsSeparateOffsets (op : Nat) : Bool :=
  op == 14 || op == 15 || op == 46 || op == 47 || op == 55 || op == 56 || op == 78 || op == 79 ||
  op == 110 || op == 111 || op == 119 || op == 120

def decodeDS (i : Inst) (row : Row) (lo hi : Nat) : Outcome :=
  let o0 := extractBits lo 0 7
  let o1 := extractBits lo 8 15
  let o0' := if dsSeparateOffsets i.opcode then o0 else (o0 + o1 * 256) % 2 ^ 32
  let ab := extractBits hi 0 7
  let d0 := extractBits hi 8 15
  let d1 := extractBits hi 16 23
  let db := extractBits hi 24 31
  .ok { i with offset0 := o0', offset1 := o1, gds := extractBits lo 16 16 != 0,
               addr := some (vreg ab ab 1),
               data := if row.src0W > 0 then some (vreg d0 d0 (regCountOfWidth row.src0W)) else none,
               data1 := if row.src1W > 0 then some (vreg d1 d1 (regCountOfWidth row.src1W)) else none,
               dst := if row.dstW > 0 then some (vreg db db (regCountOfWidth row.dstW)) else none }

def decodeVOP3b (i : Inst) (row : Row) (lo hi : Nat) : Outcome :=
  let dst := if i.opcode > 255 then
      let b := extractBits lo 0 7
      some (vreg b b (if row.dstW == 64 then 2 else 1))
    else none
  match getOperand (extractBits lo 8 14), getOperand (extractBits hi 0 8), getOperand (extractBits hi 9 17) with
  | some sd, some s0, some s1 =>
    let base : Inst := { i with dst := dst, sdst := some (with64 row.sdstW sd),
                                clamp := extractBits lo 15 15 != 0,
                                src0 := some (with64 row.src0W s0), src1 := some (with64 row.src1W s1),
                                omod := extractBits hi 27 28, neg := extractBits hi 29 31 }
    if i.opcode > 255 && row.src2W > 0 then
      match getOperand (extractBits hi 18 26) with
      | some s2 => .ok { base with src2 := some (with64 row.src2W s2) }
      | none => .err
    else .ok base
  | _, _, _ => .err

def decodeVOP3a (i : Inst) (row : Row) (lo hi : Nat) : Outcome :=
  let b := extractBits lo 0 7
  match (if i.opcode ≤ 255 then getOperand b else some (vreg b b 0)),
        getOperand (extractBits hi 0 8), getOperand (extractBits hi 9 17) with
  | some d, some s0, some s1 =>
    let abs := extractBits lo 8 10
    let neg := extractBits hi 29 31
    let base : Inst := { i with dst := some (with64 row.dstW d), abs := abs,
                                src0Abs := abs &&& 1 > 0, src1Abs := abs &&& 2 > 0, src2Abs := abs &&& 4 > 0,
                                clamp := extractBits lo 15 15 != 0,
                                src0 := some (with64 row.src0W s0), src1 := some (with64 row.src1W s1),
                                omod := extractBits hi 27 28, neg := neg,
                                src0Neg := neg &&& 1 > 0, src1Neg := neg &&& 2 > 0, src2Neg := neg &&& 4 > 0 }
    let base : Inst :=
      if i.opcode == 944 then
        { base with opSel := extractBits lo 11 13, opSelHi := extractBits hi 27 28 ||| (extractBits lo 14 14 <<< 2) }
      else if 945 ≤ i.opcode && i.opcode ≤ 946 then
        { base with opSel := extractBits lo 11 12, opSelHi := extractBits hi 27 28 }
      else base
    if row.src2W != 0 then
      match getOperand (extractBits hi 18 26) with
      | some s2 => .ok { base with src2 := some (with64 row.src2W s2) }
      | none => .err
    else .ok base
  | _, _, _ => .err

/-! ### Decode -/

def Outcome.setSize (o : Outcome) (n : Nat) : Outcome :=
  match o with
  | .ok i => .ok { i with size := n }
  | o => o



def dec4 (i : Inst) (row : Row) (w : Nat) : Option Dec4 :=
  if i.ft == FT_SOP2 then some (decodeSOP2 i w)
  else if i.ft == FT_VOP2 then some (decodeVOP2 i w)
  else if i.ft == FT_VOP1 then some (decodeVOP1 i row w)
  else if i.ft == FT_SOPP then some (decodeSOPP i w)
  else if i.ft == FT_VOPC then some (decodeVOPC i row w)
  else if i.ft == FT_SOPC then some (decodeSOPC i w)
  else if i.ft == FT_SOP1 then some (decodeSOP1 i row w)
  else if i.ft == FT_SOPK then some (decodeSOPK i w)
  else none

def dec8 (cdna3 : Bool) (i : Inst) (row : Row) (lo hi : Nat) : Option Outcome :=
  if i.ft == FT_SMEM then some (decodeSMEM cdna3 i lo hi)
  else if i.ft == FT_FLAT then some (decodeFLAT cdna3 i lo hi)
  else if i.ft == FT_VOP3a then some (decodeVOP3a i row lo hi)
  else if i.ft == FT_VOP3b then some (decodeVOP3b i row lo hi)
  else if i.ft == FT_DS then some (decodeDS i row lo hi)
  else none

/-- `Decode` on the first dword `w0` and, when the buffer has at least 8 bytes, the second
    dword `w1?`. Sizes: every 8-byte format reports 8; a 4-byte format reports 4, or 8 when it
    consumed one trailing dword (literal, SDWA or K constant). A format with no decoder for a
    table row would `log.Panicf` (`notImpl`). `decodeRow`: decoding once format and row are known. -/
def decodeRow (cdna3 : Bool) (f : Format) (row : Row) (w0 : Nat) (w1? : Option Nat) : Outcome :=
  let i : Inst := { name := row.name, ft := f.ft, opcode := row.opcode }
  if f.size == 8 then
    match w1? with
    | none => .err
    | some w1 => ((dec8 cdna3 i row w0 w1).getD .notImpl).setSize 8
  else
    match dec4 i row w0 with
    | none => .notImpl
    | some (.done i) => .ok { i with size := 4 }
    | some .err => .err
    | some (.more k) =>
      match w1? with
      | none => .err
      | some w1 => (k w1).setSize 8

def decodeCore (look : Nat → Nat → Option Row) (cdna3 : Bool) (w0 : Nat) (w1? : Option Nat) : Outcome :=
  match matchFormat w0 with
  | none => .err
  | some f =>
    match look f.ft (extractBits w0 f.opLo f.opHi) with
    | none => .err
    | some row => decodeRow cdna3 f row w0 w1?

def le32 (b : List Nat) (off : Nat) : Nat :=
  b.getD off 0 + b.getD (off + 1) 0 * 256 + b.getD (off + 2) 0 * 65536 + b.getD (off + 3) 0 * 16777216

def decodeWith (look : Nat → Nat → Option Row) (cdna3 : Bool) (buf : List Nat) : Outcome :=
  if buf.length < 4 then .err
  else decodeCore look cdna3 (le32 buf 0) (if buf.length ≥ 8 then some (le32 buf 4) else none)

def decode (cdna3 : Bool) (buf : List Nat) : Outcome := decodeWith (lookUpArch cdna3) cdna3 buf

/-! ### The decoder before the two repairs of this round (`decodeSOPKOld`, `decodeVOP2Old`), kept so that the
refutation of the full round trip for the code as it was stays a checked statement (`…_before_fix_refuted`). -/

def dec4Old (i : Inst) (row : Row) (w : Nat) : Option Dec4 :=
  if i.ft == FT_VOP2 then some (decodeVOP2Old i w)
  else if i.ft == FT_SOPK then some (decodeSOPKOld i w)
  else dec4 i row w

def decodeRowOld (cdna3 : Bool) (f : Format) (row : Row) (w0 : Nat) (w1? : Option Nat) : Outcome :=
  let i : Inst := { name := row.name, ft := f.ft, opcode := row.opcode }
  if f.size == 8 then
    match w1? with
    | none => .err
    | some w1 => ((dec8 cdna3 i row w0 w1).getD .notImpl).setSize 8
  else
    match dec4Old i row w0 with
    | none => .notImpl
    | some (.done i) => .ok { i with size := 4 }
    | some .err => .err
    | some (.more k) =>
      match w1? with
      | none => .err
      | some w1 => (k w1).setSize 8

def decodeOld (cdna3 : Bool) (buf : List Nat) : Outcome :=
  if buf.length < 4 then .err
  else
    let w0 := le32 buf 0
    match matchFormat w0 with
    | none => .err
    | some f =>
      match lookUpArch cdna3 f.ft (extractBits w0 f.opLo f.opHi) with
      | none => .err
      | some row => decodeRowOld cdna3 f row w0 (if buf.length ≥ 8 then some (le32 buf 4) else none)

/-! ## Spec-side encoder and expected instruction

Field packing as in the ISA manuals ("Microcode formats": SOP2, SOPK, SOP1, SOPC, SOPP, VOP2, VOP1,
VOPC, SMEM). Independent of `Gen.formats`: the encoding constants are written out here, so the
round-trip theorem `decode_encode` also checks the regenerated format table against them. -/

/-- an instruction description: format, opcode and the architected fields (only the fields of
    `ft` are used); `lit` = the one 32-bit literal that follows the first dword, if any -/
structure Desc where
  ft : Nat
  op : Nat
  sdst : Nat := 0
  ssrc0 : Nat := 0
  ssrc1 : Nat := 0
  simm16 : Nat := 0
  src0 : Nat := 0
  vsrc1 : Nat := 0
  vdst : Nat := 0
  sbase : Nat := 0
  sdata : Nat := 0
  imm : Nat := 0
  glc : Nat := 0
  offset : Nat := 0
  lit : Option Nat := none
  -- VOP3a / VOP3b (second dword: SRC0 9 bits = `src0`, SRC1, SRC2, OMOD, NEG; first dword: VDST = `vdst`,
  -- ABS + OP_SEL (VOP3a) or SDST = `sdst` (VOP3b), CLAMP)
  src1 : Nat := 0
  src2 : Nat := 0
  abs : Nat := 0
  neg : Nat := 0
  omod : Nat := 0
  clamp : Nat := 0
  opsel : Nat := 0
  -- DS (OFFSET0, OFFSET1, GDS; ADDR, DATA0, DATA1, VDST = `vdst`)
  offset0 : Nat := 0
  offset1 : Nat := 0
  gds : Nat := 0
  addr : Nat := 0
  data0 : Nat := 0
  data1 : Nat := 0
  -- FLAT / GLOBAL / SCRATCH (OFFSET 13 bits = `offset`, SEG, GLC = `glc`, SLC; ADDR = `addr`, DATA, SADDR, NV/TFE,
  -- VDST = `vdst`)
  seg : Nat := 0
  slc : Nat := 0
  data : Nat := 0
  saddr : Nat := 0
  tfe : Nat := 0
  -- VOP2 with an SDWA second dword (`sdwa = 1`: the SRC0 field of the first dword says 249 and `src0` is the
  -- 8-bit SRC0 of the SDWA dword; S0/S1 say that SRC0/VSRC1 name an SGPR)
  sdwa : Nat := 0
  s0 : Nat := 0
  s1 : Nat := 0
  dstSel : Nat := 0
  dstUnused : Nat := 0
  src0Sel : Nat := 0
  src1Sel : Nat := 0
deriving Repr, DecidableEq, Inhabited

def bytes32 (w : Nat) : List Nat := [w % 256, w / 256 % 256, w / 65536 % 256, w / 16777216 % 256]

/-- first dword -/
def encWord (d : Desc) : Nat :=
  if d.ft == FT_SOP2 then 0x80000000 + d.op * 2 ^ 23 + d.sdst * 2 ^ 16 + d.ssrc1 * 2 ^ 8 + d.ssrc0
  else if d.ft == FT_SOPK then 0xB0000000 + d.op * 2 ^ 23 + d.sdst * 2 ^ 16 + d.simm16
  else if d.ft == FT_SOP1 then 0xBE800000 + d.sdst * 2 ^ 16 + d.op * 2 ^ 8 + d.ssrc0
  else if d.ft == FT_SOPC then 0xBF000000 + d.op * 2 ^ 16 + d.ssrc1 * 2 ^ 8 + d.ssrc0
  else if d.ft == FT_SOPP then 0xBF800000 + d.op * 2 ^ 16 + d.simm16
  else if d.ft == FT_VOP2 then d.op * 2 ^ 25 + d.vdst * 2 ^ 17 + d.vsrc1 * 2 ^ 9 + (if d.sdwa == 1 then 249 else d.src0)
  else if d.ft == FT_VOP1 then 0x7E000000 + d.vdst * 2 ^ 17 + d.op * 2 ^ 9 + d.src0
  else if d.ft == FT_VOPC then 0x7C000000 + d.op * 2 ^ 17 + d.vsrc1 * 2 ^ 9 + d.src0
  else if d.ft == FT_SMEM then 0xC0000000 + d.op * 2 ^ 18 + d.imm * 2 ^ 17 + d.glc * 2 ^ 16 + d.sdata * 2 ^ 6 + d.sbase
  else if d.ft == FT_VOP3a then 0xD0000000 + d.op * 2 ^ 16 + d.clamp * 2 ^ 15 + d.opsel * 2 ^ 11 + d.abs * 2 ^ 8 + d.vdst
  else if d.ft == FT_VOP3b then 0xD0000000 + d.op * 2 ^ 16 + d.clamp * 2 ^ 15 + d.sdst * 2 ^ 8 + d.vdst
  else if d.ft == FT_DS then 0xD8000000 + d.op * 2 ^ 17 + d.gds * 2 ^ 16 + d.offset1 * 2 ^ 8 + d.offset0
  else if d.ft == FT_FLAT then 0xDC000000 + d.op * 2 ^ 18 + d.slc * 2 ^ 17 + d.glc * 2 ^ 16 + d.seg * 2 ^ 14 + d.offset
  else 0

/-- the SDWA dword ("VOP_SDWA" of the GFX9 ISA: SRC0 [7:0], DST_SEL [10:8], DST_U [12:11], CLMP [13], OMOD [15:14],
    SRC0_SEL [18:16], SRC0_SEXT [19], SRC0_NEG [20], SRC0_ABS [21], S0 [23], SRC1_SEL [26:24], SRC1_SEXT [27],
    SRC1_NEG [28], SRC1_ABS [29], S1 [31]); a description carries only the fields the decoder supports -/
def sdwaWord (d : Desc) : Nat :=
  d.s1 * 2 ^ 31 + d.src1Sel * 2 ^ 24 + d.s0 * 2 ^ 23 + d.src0Sel * 2 ^ 16 + d.dstUnused * 2 ^ 11 + d.dstSel * 2 ^ 8 + d.src0

/-- second dword of the 8-byte vector / memory formats -/
def hiWord (d : Desc) : Nat :=
  if d.ft == FT_VOP3a || d.ft == FT_VOP3b then d.neg * 2 ^ 29 + d.omod * 2 ^ 27 + d.src2 * 2 ^ 18 + d.src1 * 2 ^ 9 + d.src0
  else if d.ft == FT_DS then d.vdst * 2 ^ 24 + d.data1 * 2 ^ 16 + d.data0 * 2 ^ 8 + d.addr
  else if d.ft == FT_FLAT then d.vdst * 2 ^ 24 + d.tfe * 2 ^ 23 + d.saddr * 2 ^ 16 + d.data * 2 ^ 8 + d.addr
  else 0

/-- second dword: the second half of an 8-byte format, the SDWA dword, or the literal -/
def encSecond (d : Desc) : Option Nat :=
  if d.ft == FT_SMEM then some d.offset
  else if d.ft == FT_VOP3a || d.ft == FT_VOP3b || d.ft == FT_DS || d.ft == FT_FLAT then some (hiWord d)
  else if d.ft == FT_VOP2 && d.sdwa == 1 then some (sdwaWord d)
  else d.lit

def encode (d : Desc) : List Nat :=
  bytes32 (encWord d) ++ (match encSecond d with | some l => bytes32 l | none => [])

/-- does the description need a literal dword (a source field says 255, or a VOP2 "K" opcode) -/
def usesLit (d : Desc) : Bool :=
  if d.ft == FT_SOP2 || d.ft == FT_SOPC then d.ssrc0 == 255 || d.ssrc1 == 255
  else if d.ft == FT_SOP1 then d.ssrc0 == 255
  else if d.ft == FT_VOP1 || d.ft == FT_VOPC then d.src0 == 255
  else if d.ft == FT_VOP2 then d.sdwa != 1 && (d.src0 == 255 || isKOpcode d.op)
  else if d.ft == FT_SOPK then d.op == 20   -- s_setreg_imm32_b32: the ISA puts SIMM32 behind the first dword
  else false

/-- operand code fits its field and denotes an operand -/
def codeOK (n bound : Nat) : Bool := decide (n < bound) && (getOperand n).isSome

def fieldsOK (d : Desc) : Bool :=
  if d.ft == FT_SOP2 then codeOK d.ssrc0 256 && codeOK d.ssrc1 256 && codeOK d.sdst 128
  else if d.ft == FT_SOPK then codeOK d.sdst 128 && decide (d.simm16 < 65536)
  else if d.ft == FT_SOP1 then codeOK d.ssrc0 256 && codeOK d.sdst 128
  else if d.ft == FT_SOPC then codeOK d.ssrc0 256 && codeOK d.ssrc1 256
  else if d.ft == FT_SOPP then decide (d.simm16 < 65536)
  else if d.ft == FT_VOP2 then
    if d.sdwa == 1 then
      decide (d.src0 < 256) && decide (d.vsrc1 < 256) && decide (d.vdst < 256) && decide (d.s0 < 2) && decide (d.s1 < 2) &&
      decide (d.dstSel < 7) && decide (d.dstUnused < 3) && decide (d.src0Sel < 7) && decide (d.src1Sel < 7) &&
      !isKOpcode d.op
    else codeOK d.src0 512 && decide (d.vsrc1 < 256) && decide (d.vdst < 256)
  else if d.ft == FT_VOP1 then codeOK d.src0 512 && decide (d.vdst < 256) && (d.op != 2 || (getOperand d.vdst).isSome)
  else if d.ft == FT_VOPC then codeOK d.src0 512 && decide (d.vsrc1 < 256)
  else if d.ft == FT_SMEM then
    decide (d.sbase < 64) && codeOK d.sdata 128 && decide (d.imm < 2) && decide (d.glc < 2) &&
    (if d.imm == 1 then decide (d.offset < 2 ^ 20) else decide (d.offset ≤ 101))
  else if d.ft == FT_VOP3a then
    (if d.op ≤ 255 then codeOK d.vdst 256 else decide (d.vdst < 256)) &&
    codeOK d.src0 512 && codeOK d.src1 512 && codeOK d.src2 512 &&
    decide (d.abs < 8) && decide (d.neg < 8) && decide (d.omod < 4) && decide (d.clamp < 2) && decide (d.opsel < 16)
  else if d.ft == FT_VOP3b then
    decide (d.vdst < 256) && codeOK d.sdst 128 && codeOK d.src0 512 && codeOK d.src1 512 && codeOK d.src2 512 &&
    decide (d.neg < 8) && decide (d.omod < 4) && decide (d.clamp < 2)
  else if d.ft == FT_DS then
    decide (d.offset0 < 256) && decide (d.offset1 < 256) && decide (d.gds < 2) && decide (d.addr < 256) &&
    decide (d.data0 < 256) && decide (d.data1 < 256) && decide (d.vdst < 256)
  else if d.ft == FT_FLAT then
    decide (d.offset < 2 ^ 13) && decide (d.seg < 4) && decide (d.glc < 2) && decide (d.slc < 2) && decide (d.tfe < 2) &&
    decide (d.addr < 256) && decide (d.data < 256) && decide (d.saddr < 128) && decide (d.vdst < 256)
  else false

/-- well-formed description: the opcode is in the decode table for the format, every field fits
    and every operand code denotes an operand, and there is a (32-bit) literal exactly when the
    instruction uses one. There is room for one literal only, so "at most one literal" is built
    into `Desc`; two scalar sources may both say 255 and then share it. -/
def wellFormed (d : Desc) : Bool :=
  (lookUp d.ft d.op).isSome && fieldsOK d && (d.lit.isSome == usesLit d) &&
  (match d.lit with | some l => decide (l < 2 ^ 32) | none => true)

def opndOf (n : Nat) : Opnd := (getOperand n).getD default

def withLit (l : Option Nat) (o : Opnd) : Opnd :=
  match l with
  | some v => setLit o v
  | none => o

/-- the instruction a description denotes once its table row is known -/
def instOfRow (d : Desc) (row : Row) : Inst :=
    let i : Inst := { name := row.name, ft := d.ft, opcode := d.op,
                      size := if (encSecond d).isSome then 8 else 4 }
    if d.ft == FT_SOP2 then
      let cnt (o : Opnd) : Opnd := if containsSub row.name "64" then o.setCount 2 else o
      { i with src0 := some (cnt (withLit d.lit (opndOf d.ssrc0))),
               src1 := some (cnt (withLit d.lit (opndOf d.ssrc1))),
               dst := some (cnt (opndOf d.sdst)) }
    else if d.ft == FT_SOPK then
      { i with simm16 := some (.int 0 d.simm16), dst := some (opndOf d.sdst),
               src0 := (if d.op == 20 then some (.lit 0 (d.lit.getD 0)) else none) }
    else if d.ft == FT_SOP1 then
      { i with src0 := some (withLit d.lit (with64 row.src0W (opndOf d.ssrc0))),
               dst := some (with64 row.dstW (opndOf d.sdst)) }
    else if d.ft == FT_SOPC then
      { i with src0 := some (withLit d.lit (opndOf d.ssrc0)), src1 := some (withLit d.lit (opndOf d.ssrc1)) }
    else if d.ft == FT_SOPP then
      let i := { i with simm16 := some (.int 0 d.simm16) }
      if d.op == 12 then { i with vmcnt := d.simm16 % 16, lkgmcnt := d.simm16 / 256 % 32 } else i
    else if d.ft == FT_VOP2 then
      if d.sdwa == 1 then
        { i with isSdwa := true,
                 src0 := some (if d.s0 != 0 then sreg d.src0 d.src0 0 else vreg d.src0 d.src0 0),
                 src1 := some (if d.s1 != 0 then sreg d.vsrc1 d.vsrc1 0 else vreg d.vsrc1 d.vsrc1 0),
                 dst := some (vreg d.vdst d.vdst 0),
                 dstSel := sdwaSel d.dstSel, dstUnused := d.dstUnused,
                 src0Sel := sdwaSel d.src0Sel, src1Sel := sdwaSel d.src1Sel }
      else
      let i := { i with src0 := some (withLit d.lit (opndOf d.src0)), src1 := some (vreg d.vsrc1 d.vsrc1 0),
                        dst := some (vreg d.vdst d.vdst 0) }
      if isKOpcode d.op then { i with imm := true, src2 := some (.lit 0 (d.lit.getD 0)) } else i
    else if d.ft == FT_VOP1 then
      let s0 := withLit d.lit (with64 row.src0W (opndOf d.src0))
      let dd := with64 row.dstW (if d.op == 2 then opndOf d.vdst else vreg (d.vdst + 256) d.vdst 0)
      { i with src0 := some (if d.op == 15 then s0.setCount 2 else s0),
               dst := some (if d.op == 4 || d.op == 16 then dd.setCount 2 else dd) }
    else if d.ft == FT_VOPC then
      { i with src0 := some (with64 row.src0W (withLit d.lit (opndOf d.src0))),
               src1 := some (with64 row.src1W (vreg d.vsrc1 d.vsrc1 0)) }
    else if d.ft == FT_SMEM then
      let dt := opndOf d.sdata
      let op := d.op
      let dt :=
        if op == 0 then dt.setCount 1
        else if op == 1 || op == 9 || op == 17 || op == 25 then dt.setCount 2
        else if op == 2 || op == 10 || op == 18 || op == 26 then dt.setCount 4
        else if op == 3 || op == 11 || op == 19 || op == 27 then dt.setCount 8
        else if op == 4 || op == 12 || op == 20 || op == 28 then dt.setCount 16
        else dt
      { i with glc := d.glc != 0, imm := d.imm != 0, base := some (sreg (d.sbase * 2) (d.sbase * 2) 2),
               data := some dt,
               offset := some (if d.imm != 0 then .int 0 d.offset else sreg d.offset d.offset 1) }
    else if d.ft == FT_VOP3a then
      let dd := if d.op ≤ 255 then opndOf d.vdst else vreg d.vdst d.vdst 0
      let base : Inst :=
        { i with dst := some (with64 row.dstW dd), abs := d.abs,
                 src0Abs := d.abs &&& 1 > 0, src1Abs := d.abs &&& 2 > 0, src2Abs := d.abs &&& 4 > 0,
                 clamp := d.clamp != 0,
                 src0 := some (with64 row.src0W (opndOf d.src0)), src1 := some (with64 row.src1W (opndOf d.src1)),
                 omod := d.omod, neg := d.neg,
                 src0Neg := d.neg &&& 1 > 0, src1Neg := d.neg &&& 2 > 0, src2Neg := d.neg &&& 4 > 0 }
      -- VOP3P (packed) rows: OP_SEL in bits 11.., OP_SEL_HI shares the OMOD field (+ bit 14 for three sources)
      let base : Inst :=
        if d.op == 944 then { base with opSel := d.opsel % 8, opSelHi := d.omod ||| ((d.opsel / 8) <<< 2) }
        else if 945 ≤ d.op && d.op ≤ 946 then { base with opSel := d.opsel % 4, opSelHi := d.omod }
        else base
      if row.src2W != 0 then { base with src2 := some (with64 row.src2W (opndOf d.src2)) } else base
    else if d.ft == FT_VOP3b then
      let base : Inst :=
        { i with dst := (if d.op > 255 then some (vreg d.vdst d.vdst (if row.dstW == 64 then 2 else 1)) else none),
                 sdst := some (with64 row.sdstW (opndOf d.sdst)), clamp := d.clamp != 0,
                 src0 := some (with64 row.src0W (opndOf d.src0)), src1 := some (with64 row.src1W (opndOf d.src1)),
                 omod := d.omod, neg := d.neg }
      if d.op > 255 && row.src2W > 0 then { base with src2 := some (with64 row.src2W (opndOf d.src2)) } else base
    else if d.ft == FT_DS then
      { i with offset0 := (if dsSeparateOffsets d.op then d.offset0 else d.offset0 + d.offset1 * 256),
               offset1 := d.offset1, gds := d.gds != 0, addr := some (vreg d.addr d.addr 1),
               data := (if row.src0W > 0 then some (vreg d.data0 d.data0 (regCountOfWidth row.src0W)) else none),
               data1 := (if row.src1W > 0 then some (vreg d.data1 d.data1 (regCountOfWidth row.src1W)) else none),
               dst := (if row.dstW > 0 then some (vreg d.vdst d.vdst (regCountOfWidth row.dstW)) else none) }
    else i

/-- sign extension of the 13-bit FLAT offset to the 32-bit `Offset0` -/
def signExt13 (raw : Nat) : Nat := if raw &&& (1 <<< 12) != 0 then raw ||| 0xFFFFE000 else raw

/-- registers moved by a FLAT / GLOBAL / SCRATCH opcode (dwordx2 loads/stores and 64-bit atomics: 2, x3: 3, x4: 4;
    the decoder leaves 0 for the others) -/
def flatDataCount (op : Nat) : Nat :=
  if op == 21 || op == 29 || (80 ≤ op && op ≤ 93) then 2
  else if op == 22 || op == 30 then 3
  else if op == 23 || op == 31 then 4 else 0

/-- address registers: a 64-bit VGPR pair, or one 32-bit VGPR offset when a scalar base is in use.
    CDNA3: SADDR = 0x7F is "off", and the FLAT segment (SEG = 0) never uses SADDR; GCN3: SADDR 0x7F or 0 is "off". -/
def flatAddrCount (c : Bool) (seg saddr : Nat) : Nat :=
  if c then (if saddr != 0x7F && seg != 0 then 1 else 2) else (if saddr != 0x7F && saddr != 0 then 1 else 2)

/-- the instruction a description denotes on an architecture once its table row is known (FLAT is the one format
    whose operands depend on the architecture) -/
def instOfRowArch (c : Bool) (d : Desc) (row : Row) : Inst :=
  if d.ft == FT_FLAT then
    { name := row.name, ft := d.ft, opcode := d.op, size := 8,
      offset0 := signExt13 d.offset, slc := d.slc != 0, glc := d.glc != 0, tfe := d.tfe != 0,
      saddr := some (.int 0 d.saddr), addr := some (vreg d.addr d.addr (flatAddrCount c d.seg d.saddr)),
      dst := some (vreg d.vdst d.vdst (flatDataCount d.op)), data := some (vreg d.data d.data (flatDataCount d.op)) }
  else instOfRow d row

/-- the instruction a well-formed description denotes on an architecture (what decoding its
    encoding must give): the row is the one the architecture's `lookUp` returns -/
def instOf (c : Bool) (d : Desc) : Inst :=
  match lookUpArch c d.ft d.op with
  | none => default
  | some row => instOfRowArch c d row

/-- the two classes of well-formed descriptions on which the decoder departed from the ISA's packing before the two
    repairs: `s_setreg_imm32_b32` (SOPK 20) is followed by a 32-bit SIMM32 that the decoder did not consume (size 4),
    and the SDWA dword's S0 flag is bit 23, where the decoder read bit 30. No theorem excludes them any more. -/
def deviatesOld (d : Desc) : Bool :=
  (d.ft == FT_SOPK && d.op == 20) || (d.ft == FT_VOP2 && d.sdwa == 1 && d.s0 == 1)

/-! ## Converse direction: canonical form of the bytes `Decode` reads, description read back from an instruction

`normRow` clears every bit the decoder of a (format, row) does not read and drops a second dword that is not consumed;
`descOf` reads the description back from a decoded instruction. Theorems: `MgpuProofs/Props/C04Conv.lean`. -/

/-- clear bits `lo..hi` -/
def clr (w lo hi : Nat) : Nat := w - extractBits w lo hi * 2 ^ lo

/-- does a 4-byte format consume the dword behind the first one (literal, SDWA dword, K constant) -/
def usesSecond4 (ft : Nat) (row : Row) (w0 : Nat) : Bool :=
  if ft == FT_SOP2 || ft == FT_SOPC then extractBits w0 0 7 == 255 || extractBits w0 8 15 == 255
  else if ft == FT_SOP1 then extractBits w0 0 7 == 255
  else if ft == FT_VOP1 || ft == FT_VOPC then extractBits w0 0 8 == 255
  else if ft == FT_VOP2 then extractBits w0 0 8 == 249 || extractBits w0 0 8 == 255 || isKOpcode row.opcode
  else if ft == FT_SOPK then row.opcode == 20
  else false

/-- SDWA dword: OMOD (14..15) and the reserved bits 22 and 30 are not read; DST_UNUSED 3 is decoded like 0 -/
def normSdwa (sd : Nat) : Nat :=
  let a := clr (clr (clr sd 14 15) 22 22) 30 30
  if extractBits sd 11 12 == 3 then clr a 11 12 else a

def normRow (c : Bool) (ft : Nat) (row : Row) (w0 : Nat) (w1? : Option Nat) : Nat × Option Nat :=
  if ft == FT_SMEM then
    -- first dword: bits 13..15 (SOE/NV and a reserved bit) are not read; second dword: a 20-bit offset
    -- (21 bits for a CDNA3 immediate)
    (clr w0 13 15,
     w1?.map fun w1 => if c && extractBits w0 17 17 != 0 then extractBits w1 0 20 else extractBits w1 0 19)
  else if ft == FT_VOP3a then
    -- OP_SEL bits 11..14 are read only by the packed rows 944 (all four) and 945/946 (11..12); SRC2 only by
    -- three-source rows
    ((if row.opcode == 944 then w0 else if 945 ≤ row.opcode && row.opcode ≤ 946 then clr w0 13 14 else clr w0 11 14),
     w1?.map fun w1 => if row.src2W != 0 then w1 else clr w1 18 26)
  else if ft == FT_VOP3b then
    ((if row.opcode > 255 then w0 else clr w0 0 7),
     w1?.map fun w1 => if row.opcode > 255 && row.src2W > 0 then w1 else clr w1 18 26)
  else if ft == FT_DS then
    -- bit 25 is neither encoding nor opcode; DATA0 / DATA1 / VDST are read only when the row has that operand
    (clr w0 25 25,
     w1?.map fun w1 =>
       let a := if row.src0W > 0 then w1 else clr w1 8 15
       let b := if row.src1W > 0 then a else clr a 16 23
       if row.dstW > 0 then b else clr b 24 31)
  else if ft == FT_FLAT then
    -- bit 13 (LDS) and bit 25 are not read; SEG (14..15) is read only by a CDNA3 disassembler, only when
    -- SADDR ≠ 0x7F, and then only as "SEG ≠ 0" (canonical value 1)
    (let a := clr (clr (clr w0 13 13) 14 15) 25 25
     match w1? with
     | none => a
     | some w1 =>
       if c && extractBits w1 16 22 != 0x7F && extractBits w0 14 15 != 0 then a + 2 ^ 14 else a,
     w1?)
  else if ft == FT_VOP2 && extractBits w0 0 8 == 249 then (w0, w1?.map normSdwa)
  else (w0, if usesSecond4 ft row w0 then w1? else none)

/-! ## reading a description back from an instruction -/

def Opnd.code : Opnd → Nat
  | .reg c _ _ => c
  | .int c _ => c
  | .float c => c
  | .lit c _ => c

def ocode (o : Option Opnd) : Nat :=
  match o with
  | some x => x.code
  | none => 0

def olit (o : Option Opnd) : Option Nat :=
  match o with
  | some (.lit _ v) => some v
  | _ => none

def oint (o : Option Opnd) : Int :=
  match o with
  | some (.int _ v) => v
  | _ => 0

def ocount (o : Option Opnd) : Nat :=
  match o with
  | some (.reg _ _ n) => n
  | _ => 0

/-- 1 when the operand is a scalar register `s<k>` (register index from `R_S0` up), 0 for a VGPR -/
def oIsSreg (o : Option Opnd) : Nat :=
  match o with
  | some (.reg _ idx _) => if idx ≥ R_S0 then 1 else 0
  | _ => 0

def orr (a b : Option Nat) : Option Nat :=
  match a with
  | some v => some v
  | none => b

def b2n (b : Bool) : Nat := if b then 1 else 0

/-- inverse of `sdwaSel` (the reserved selector 7 gives mask 0) -/
def selInv (m : Nat) : Nat :=
  if m == 0xff then 0 else if m == 0xff00 then 1 else if m == 0xff0000 then 2 else if m == 0xff000000 then 3
  else if m == 0xffff then 4 else if m == 0xFFFF0000 then 5 else if m == 0xFFFFFFFF then 6 else 7

/-- the description a decoded instruction came from (fields the decoder does not read: 0) -/
def descOf (c : Bool) (i : Inst) : Desc :=
  let d : Desc := { ft := i.ft, op := i.opcode }
  if i.ft == FT_SOP2 then
    { d with ssrc0 := ocode i.src0, ssrc1 := ocode i.src1, sdst := ocode i.dst, lit := orr (olit i.src0) (olit i.src1) }
  else if i.ft == FT_SOPK then { d with sdst := ocode i.dst, simm16 := (oint i.simm16).toNat, lit := olit i.src0 }
  else if i.ft == FT_SOP1 then { d with ssrc0 := ocode i.src0, sdst := ocode i.dst, lit := olit i.src0 }
  else if i.ft == FT_SOPC then
    { d with ssrc0 := ocode i.src0, ssrc1 := ocode i.src1, lit := orr (olit i.src0) (olit i.src1) }
  else if i.ft == FT_SOPP then { d with simm16 := (oint i.simm16).toNat }
  else if i.ft == FT_VOP2 then
    if i.isSdwa then
      { d with sdwa := 1, src0 := ocode i.src0, vsrc1 := ocode i.src1, vdst := ocode i.dst, s0 := oIsSreg i.src0, s1 := oIsSreg i.src1,
               dstSel := selInv i.dstSel, dstUnused := i.dstUnused, src0Sel := selInv i.src0Sel,
               src1Sel := selInv i.src1Sel }
    else
      { d with src0 := ocode i.src0, vsrc1 := ocode i.src1, vdst := ocode i.dst, lit := orr (olit i.src0) (olit i.src2) }
  else if i.ft == FT_VOP1 then
    { d with src0 := ocode i.src0, vdst := (if i.opcode == 2 then ocode i.dst else ocode i.dst - 256), lit := olit i.src0 }
  else if i.ft == FT_VOPC then { d with src0 := ocode i.src0, vsrc1 := ocode i.src1, lit := olit i.src0 }
  else if i.ft == FT_SMEM then
    { d with sbase := ocode i.base / 2, sdata := ocode i.data, imm := b2n i.imm, glc := b2n i.glc,
             offset := (if i.imm then (oint i.offset % 2 ^ 21).toNat else ocode i.offset) }
  else if i.ft == FT_VOP3a then
    { d with vdst := ocode i.dst, abs := i.abs, clamp := b2n i.clamp,
             opsel := (if i.opcode == 944 then i.opSel + i.opSelHi / 4 * 8
                       else if 945 ≤ i.opcode && i.opcode ≤ 946 then i.opSel else 0),
             src0 := ocode i.src0, src1 := ocode i.src1, src2 := ocode i.src2, omod := i.omod, neg := i.neg }
  else if i.ft == FT_VOP3b then
    { d with vdst := ocode i.dst, sdst := ocode i.sdst, clamp := b2n i.clamp,
             src0 := ocode i.src0, src1 := ocode i.src1, src2 := ocode i.src2, omod := i.omod, neg := i.neg }
  else if i.ft == FT_DS then
    { d with offset0 := (if dsSeparateOffsets i.opcode then i.offset0 else i.offset0 % 256), offset1 := i.offset1,
             gds := b2n i.gds, addr := ocode i.addr, data0 := ocode i.data, data1 := ocode i.data1, vdst := ocode i.dst }
  else if i.ft == FT_FLAT then
    { d with offset := i.offset0 % 8192, seg := (if c && ocount i.addr == 1 then 1 else 0),
             glc := b2n i.glc, slc := b2n i.slc, tfe := b2n i.tfe,
             addr := ocode i.addr, data := ocode i.data, saddr := (oint i.saddr).toNat, vdst := ocode i.dst }
  else d

/-- the formats that have a decoder -/
def ft13 : List Nat :=
  [FT_SOP2, FT_SOPK, FT_SOP1, FT_SOPC, FT_SOPP, FT_VOP2, FT_VOP1, FT_VOPC, FT_SMEM, FT_VOP3a, FT_VOP3b, FT_DS, FT_FLAT]

/-- canonical form of the words a decode looks at: the format is matched and the row looked up as `Decode` does, then
    `normRow`; words that match no format / no row are left alone (they are errors whatever the other bits say) -/
def normCore (c : Bool) (w0 : Nat) (w1? : Option Nat) : Nat × Option Nat :=
  match matchFormat w0 with
  | none => (w0, w1?)
  | some f =>
    match lookUpArch c f.ft (extractBits w0 f.opLo f.opHi) with
    | none => (w0, w1?)
    | some row => if ft13.contains f.ft then normRow c f.ft row w0 w1? else (w0, w1?)

/-- the two dwords `Decode` looks at (the second one only when the buffer has 8 bytes) -/
def wordsOf (b : List Nat) : Nat × Option Nat := (le32 b 0, if b.length ≥ 8 then some (le32 b 4) else none)

def bytesOf (p : Nat × Option Nat) : List Nat :=
  bytes32 p.1 ++ (match p.2 with | some l => bytes32 l | none => [])

/-- canonical form of a byte string: the words `Decode` reads, with every bit it ignores cleared and an unused second
    dword (and everything behind) dropped -/
def normBytes (c : Bool) (b : List Nat) : List Nat := bytesOf (normCore c (wordsOf b).1 (wordsOf b).2)

def formatByName (s : String) : Option Nat := (formats.find? (·.name == s)).map (·.ft)

/-- `c04 enc|inst <format> k=v …` → description -/
def parseDesc (fmt : String) (toks : List String) : Option Desc :=
  match formatByName fmt, Util.kvNat? toks "op" with
  | some ft, some op =>
    let g (k : String) : Nat := (Util.kvNat? toks k).getD 0
    some { ft := ft, op := op, sdst := g "sdst", ssrc0 := g "ssrc0", ssrc1 := g "ssrc1",
           simm16 := g "simm16", src0 := g "src0", vsrc1 := g "vsrc1", vdst := g "vdst",
           sbase := g "sbase", sdata := g "sdata", imm := g "imm", glc := g "glc", offset := g "offset",
           lit := Util.kvHex? toks "lit",
           src1 := g "src1", src2 := g "src2", abs := g "abs", neg := g "neg", omod := g "omod", clamp := g "clamp",
           opsel := g "opsel", offset0 := g "offset0", offset1 := g "offset1", gds := g "gds", addr := g "addr",
           data0 := g "data0", data1 := g "data1", seg := g "seg", slc := g "slc", data := g "data",
           saddr := g "saddr", tfe := g "tfe", sdwa := g "sdwa", s0 := g "s0", s1 := g "s1",
           dstSel := g "dstsel", dstUnused := g "dstunused", src0Sel := g "src0sel", src1Sel := g "src1sel" }
  | _, _ => none



/-! ## Canonical print (shared format with the harness) -/
open Util

def floatStr (code : Nat) : String :=
  match code with
  | 240 => "0.5" | 241 => "-0.5" | 242 => "1" | 243 => "-1" | 244 => "2" | 245 => "-2"
  | 246 => "4" | 247 => "-4" | 248 => "0.15915494309189535" | _ => "?"

def regName (idx : Nat) : String := (regs.getD idx { idx := 0, name := "?", bytes := 0, isBool := false }).name

def Opnd.str : Opnd → String
  | .reg c i n => s!"{regName i}x{n}c{c}"
  | .int c v => s!"i{v}c{c}"
  | .float c => s!"f{floatStr c}c{c}"
  | .lit c v => s!"l{toHex v}c{c}"

def optField (k : String) (o : Option Opnd) : List String :=
  match o with
  | some x => [k ++ "=" ++ x.str]
  | none => []

def natField (k : String) (n : Nat) : List String := if n == 0 then [] else [s!"{k}={n}"]
def flag (k : String) (b : Bool) : List String := if b then [k] else []

def Inst.str (i : Inst) : String :=
  joinWith " " (
    [i.name, s!"ft={i.ft}", s!"op={i.opcode}", s!"size={i.size}"] ++
    optField "src0" i.src0 ++ optField "src1" i.src1 ++ optField "src2" i.src2 ++
    optField "dst" i.dst ++ optField "sdst" i.sdst ++ optField "addr" i.addr ++
    optField "data" i.data ++ optField "data1" i.data1 ++ optField "base" i.base ++
    optField "offset" i.offset ++ optField "simm16" i.simm16 ++ optField "saddr" i.saddr ++
    natField "abs" i.abs ++ natField "omod" i.omod ++ natField "neg" i.neg ++
    natField "opsel" i.opSel ++ natField "opselhi" i.opSelHi ++
    natField "off0" i.offset0 ++ natField "off1" i.offset1 ++
    natField "vmcnt" i.vmcnt ++ natField "lkgmcnt" i.lkgmcnt ++
    flag "slc" i.slc ++ flag "glc" i.glc ++ flag "tfe" i.tfe ++ flag "imm" i.imm ++
    flag "clamp" i.clamp ++ flag "gds" i.gds ++
    (if i.isSdwa then [s!"sdwa={toHex i.dstSel}/{i.dstUnused}/{toHex i.src0Sel}/{toHex i.src1Sel}"] else []) ++
    flag "s0neg" i.src0Neg ++ flag "s0abs" i.src0Abs ++ flag "s1neg" i.src1Neg ++
    flag "s1abs" i.src1Abs ++ flag "s2neg" i.src2Neg ++ flag "s2abs" i.src2Abs)

def Outcome.str : Outcome → String
  | .ok i => "ok " ++ i.str
  | .err => "err"
  | .notImpl => "notimpl"

def handle (line : String) : String :=
  match words line with
  | ["c04", "dec", arch, hex] =>
    match (if hex == "-" then some [] else hexBytes? hex) with
    | some bs => (decode (arch == "cdna3") bs).str
    | none => "bad"
  | ["c04", "operand", n] =>
    match n.toNat? with
    | some n => match getOperand n with
      | some o => o.str
      | none => "err"
    | none => "bad"
  | ["c04", "match", hex] =>
    match hexNat? hex with
    | some w => match matchFormat w with
      | some f => f.name
      | none => "err"
    | none => "bad"
  | "c04" :: "enc" :: fmt :: toks =>
    match parseDesc fmt toks with
    | some d => bytesHex (encode d)
    | none => "bad"
  | "c04" :: "inst" :: fmt :: toks =>
    match parseDesc fmt toks with
    | some d =>
      if wellFormed d then "ok " ++ (instOf false d).str else "illformed"
    | none => "bad"
  | "c04" :: "inst3" :: fmt :: toks =>   -- the same on a CDNA3 disassembler
    match parseDesc fmt toks with
    | some d =>
      if wellFormed d then "ok " ++ (instOf true d).str else "illformed"
    | none => "bad"
  | ["c04", "norm", arch, hex] =>      -- canonical form of the bytes (ignored bits cleared, unused bytes dropped)
    match hexBytes? hex with
    | some bs => if bs.length < 4 then "short" else bytesHex (normBytes (arch == "cdna3") bs)
    | none => "bad"
  | ["c04", "desc", arch, hex] =>      -- ISA encoding of the description read back from the decoded instruction
    match hexBytes? hex with
    | some bs =>
      match decode (arch == "cdna3") bs with
      | .ok i => bytesHex (encode (descOf (arch == "cdna3") i))
      | _ => "-"
    | none => "bad"
  | ["c04", "nrows"] => toString (allRows.filter fun r => (lookUp r.ft r.opcode).map (·.name) == some r.name).length
  | _ => "bad"

end C04
