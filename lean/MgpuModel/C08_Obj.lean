import MgpuModel.C08_Base
/-! # C08 — object identity of work-groups and wavefronts

Every `NextWG()` starts with `NewWorkGroup()` (one id from the global generator, also when the call
ends with nil), and `formWavefronts` calls `NewWavefront()` once per wavefront of the produced
group. Several grid builders (the partition algorithm owns one per CU plus the counting one) share
the generator. `nextObj` is one call with the generator at `c`; `objRun` is any interleaving of calls
on any number of builders. A work-group object is identified by its UID; the wavefronts carry
their own UIDs and the UID of the group they point back to (`wf.WG`). -/
namespace C08
open Util

structure ObjWG where
  wg : WG
  uid : Nat
  wfs : List Nat        -- UIDs of `wg.Wavefronts`, in order
deriving Repr, DecidableEq

/-- a grid builder: geometry, filter, cursor -/
structure Bld where
  g : Geo
  p : Coord → Bool
  cur : Cur

/-- one `NextWG()` of builder `b` with the generator at `c` -/
def nextObj (b : Bld) (c : Nat) : Option ObjWG × Bld × Nat :=
  match nextWGf b.g b.p (b.g.total + 1) b.cur with
  | none => (none, b, c + 1)
  | some (wg, cur') =>
    let nwf := (formWfs b.g.wx b.g.wy (spawn wg.sz)).length
    (some ⟨wg, c, (List.range nwf).map (c + 1 + ·)⟩, { b with cur := cur' }, c + 1 + nwf)

/-- calls `NextWG()` on builder `i` for every `i` of the list, in that order -/
def objRun : List Nat → Array Bld → Nat → List (Option ObjWG) × Array Bld × Nat
  | [], bs, c => ([], bs, c)
  | i :: is, bs, c =>
    match bs[i]? with
    | none => objRun is bs c
    | some b =>
      let r := nextObj b c
      let rest := objRun is (bs.setIfInBounds i r.2.1) r.2.2
      (r.1 :: rest.1, rest.2.1, rest.2.2)

/-- all UIDs an object carries: its own and its wavefronts' -/
def ObjWG.uids (o : ObjWG) : List Nat := o.uid :: o.wfs

def objStr (base : Nat) : Option ObjWG → String
  | none => "nil"
  | some o => s!"{wgStr o.wg}@{o.uid - base}[{joinWith "," (o.wfs.map fun u => toString (u - base))}]"

def handleObj (t : List String) : Option String :=
  match t with
  | "c08" :: "obj" :: _ =>
    match geoOf t, kvNat? t "nb", (kv? t "calls").bind natList?, kvNat? t "skip" with
    | some g, some nb, some calls, some sk =>
      let all := fun (_ : Coord) => true
      -- builder `i` has skipped `i*sk` groups (as `StartNewKernel` does); the skipped calls draw ids too
      let bs : Array Bld := Array.ofFn (n := nb) fun _ => ⟨g, all, ⟨0, 0, 0⟩⟩
      let pre := (List.range nb).flatMap fun i => List.replicate (i * sk) i
      let r0 := objRun pre bs 0
      let r := objRun calls r0.2.1 r0.2.2
      some s!"objs={joinWith ";" (r.1.map (objStr r0.2.2))}"
    | _, _, _, _ => some "bad"
  | _ => none

end C08
