import MgpuModel.Util
/-!
C02 (sixth replacement point) — the LDS path.

In emulation a DS instruction is executed by `emu.ComputeUnit.runWG`: `cu.alu.SetLDS(wf.LDS)` once per
wavefront, then `alu.Run(wf)` per instruction. In timing mode the same `alu.Run` is called by the exec
stage of `cu.LDSUnit` (`amd/timing/cu/ldsunit.go`), a three-stage pipeline (read → exec → write) fed by
a `DecodeUnit`; the unit does `u.alu.SetLDS(u.toExec.WG.LDS)` immediately before `u.alu.Run(u.toExec)`,
waits 14 more cycles, and the write stage calls `ComputeUnit.UpdatePCAndSetReady`.

This file has
* (a) the DS handlers `runDS*` of `amd/emu/aluds.go` (GCN3: opcodes 13, 14, 30, 54, 55, 78, 118, 119) and
  `amd/emu/cdna3/ds.go` (the same eight plus 223 `ds_write_b128`, 255 `ds_read_b128`, with explicit
  `log.Panicf` range checks computed in uint32) as last-writer-wins write lists + a fault predicate,
* (b) the LDS unit as a state machine `U` with ghost lists `accepted`, `ran`, `completed`, the decode
  unit in front of it, and the architectural state `Arch` both simulators act on,
* (c) the driver `handleLds` for case lines `c02 lds …`.
-/
namespace C02.Lds
open Util

def M32 : Nat := 4294967296

/-- one cell write: `(0, a)` is LDS byte `a`, `(lane, r)` is VGPR `r` of a lane -/
structure Wr where
  cell : Nat × Nat
  val : Nat
deriving Repr, DecidableEq

abbrev St := Nat × Nat → Nat

def upd (f : St) (w : Wr) : St := fun c => if c = w.cell then w.val else f c

/-- apply writes in list order (later wins) -/
def applyW (ws : List Wr) (f : St) : St := ws.foldl upd f

/-! ## (a) the DS instructions -/

/-- what a DS opcode does: store or load, bytes per access, one or two accesses, offset scale -/
structure Shape where
  write : Bool
  width : Nat
  two : Bool
  mul : Nat
deriving Repr, DecidableEq

/-- the `switch inst.Opcode` of `runDS` (GCN3) / of `cdna3.ALU.runDS` -/
def shapeOf (cdna3 : Bool) : Nat → Option Shape
  | 13 => some ⟨true, 4, false, 1⟩
  | 14 => some ⟨true, 4, true, 4⟩
  | 30 => some ⟨true, 1, false, 1⟩
  | 54 => some ⟨false, 4, false, 1⟩
  | 55 => some ⟨false, 4, true, 4⟩
  | 78 => some ⟨true, 8, true, 8⟩
  | 118 => some ⟨false, 8, false, 1⟩
  | 119 => some ⟨false, 8, true, 8⟩
  | 223 => if cdna3 then some ⟨true, 16, false, 1⟩ else none
  | 255 => if cdna3 then some ⟨false, 16, false, 1⟩ else none
  | _ => none

/-- a decoded DS instruction + the EXEC mask it runs under. `off0` is `inst.Offset0` after
    `combineDSOffsets` (16 bits for the one-address forms, 8 bits for the `*2*` forms). -/
structure Inst where
  opc : Nat
  cdna3 : Bool
  exec : Nat
  off0 : Nat
  off1 : Nat
  ra : Nat
  d0 : Nat
  d1 : Nat
  vd : Nat
deriving Repr, DecidableEq

/-- `for i := 0; i < 64; i++ { if exec&(1<<i) == 0 { continue } …` -/
def lanes (exec : Nat) : List Nat := (List.range 64).filter fun l => exec.testBit l

/-- `uint32(state.ReadOperand(inst.Addr, i)) + inst.OffsetK*mul` (uint32 arithmetic) -/
def addr0 (sh : Shape) (i : Inst) (rf : St) (l : Nat) : Nat := (rf (l, i.ra) % M32 + i.off0 * sh.mul) % M32
def addr1 (sh : Shape) (i : Inst) (rf : St) (l : Nat) : Nat := (rf (l, i.ra) % M32 + i.off1 * sh.mul) % M32

def addrsOf (sh : Shape) (i : Inst) (rf : St) (l : Nat) : List Nat :=
  addr0 sh i rf l :: (if sh.two then [addr1 sh i rf l] else [])

def byteOf (w b : Nat) : Nat := w / 256 ^ b % 256

/-- `copy(lds[a:a+w], state.ReadOperandBytes(reg, lane, w))` -/
def accW (rf : St) (l a reg w : Nat) : List Wr :=
  (List.range w).map fun b => ⟨(0, a + b), byteOf (rf (l, reg + b / 4)) (b % 4)⟩

def laneLdsW (sh : Shape) (i : Inst) (rf : St) (l : Nat) : List Wr :=
  accW rf l (addr0 sh i rf l) i.d0 sh.width ++
    (if sh.two then accW rf l (addr1 sh i rf l) i.d1 sh.width else [])

/-- the LDS byte writes of the instruction: lane ascending, address 0 before address 1 -/
def ldsWrites (sh : Shape) (i : Inst) (rf : St) : List Wr :=
  if sh.write then (lanes i.exec).flatMap (laneLdsW sh i rf) else []

def le32 (m : St) (a : Nat) : Nat :=
  m (0, a) + 256 * m (0, a + 1) + 65536 * m (0, a + 2) + 16777216 * m (0, a + 3)

/-- `copy(buf[..], lds[a:a+w])` followed by `WriteOperandBytes(inst.Dst, lane, buf)` -/
def accR (lds : St) (l a reg w : Nat) : List Wr :=
  (List.range (w / 4)).map fun j => ⟨(l, reg + j), le32 lds (a + 4 * j)⟩

def laneVgprW (sh : Shape) (i : Inst) (rf lds : St) (l : Nat) : List Wr :=
  accR lds l (addr0 sh i rf l) i.vd sh.width ++
    (if sh.two then accR lds l (addr1 sh i rf l) (i.vd + sh.width / 4) sh.width else [])

/-- the VGPR writes of a read: every lane reads its own address register before it writes -/
def vgprWrites (sh : Shape) (i : Inst) (rf lds : St) : List Wr :=
  if sh.write then [] else (lanes i.exec).flatMap (laneVgprW sh i rf lds)

/-- the panic of one lane. GCN3: the slice expression `lds[a:a+w]` (`a+w` wraps in uint32, then
    low > high) / the index `lds[a]`. CDNA3: first the explicit checks `a+w > uint32(len(lds))` of all
    accesses of the lane (uint32: a wrapped sum passes), then the slices. -/
def laneFault (sh : Shape) (i : Inst) (size : Nat) (rf : St) (l : Nat) : Option String :=
  let as := addrsOf sh i rf l
  if i.cdna3 && as.any (fun a => decide ((a + sh.width) % M32 > size)) then some "explicit"
  else if as.any (fun a => decide (a + sh.width > size)) then some "bounds"
  else none

/-- the first lane that panics decides (partial effects of earlier lanes die with the process) -/
def faultOf (sh : Shape) (i : Inst) (size : Nat) (rf : St) : Option String :=
  (lanes i.exec).findSome? (laneFault sh i size rf)

/-- the out-of-range condition, as a predicate -/
def outOfRange (sh : Shape) (i : Inst) (size : Nat) (rf : St) : Prop :=
  ∃ l ∈ lanes i.exec, ∃ a ∈ addrsOf sh i rf l, a + sh.width > size

/-! ## (b) architectural state, the shared ALU, the LDS unit -/

/-- an instruction instance: the instruction, the wavefront whose VGPRs it uses and the work-group
    whose LDS buffer it uses (`wf.LDS` in the emulator, `wf.WG.LDS` in the timing CU) -/
structure Job where
  inst : Inst
  wf : Nat
  wg : Nat
deriving Repr

structure Arch where
  /-- work-group → content of its LDS buffer -/
  ldsOf : Nat → St
  /-- work-group → `len` of its LDS buffer -/
  sizeOf : Nat → Nat
  /-- wavefront → VGPRs -/
  rfOf : Nat → St
  /-- `alu.lds`: the buffer the last `SetLDS` installed in the (shared) ALU -/
  cur : Nat
  /-- a panic ends the simulation -/
  fault : Option String

def setLDS (wg : Nat) (a : Arch) : Arch := { a with cur := wg }

/-- `alu.Run(wf)` for a DS instruction: acts on the buffer the ALU currently points to -/
def aluRun (j : Job) (a : Arch) : Arch :=
  match a.fault with
  | some _ => a
  | none =>
    match shapeOf j.inst.cdna3 j.inst.opc with
    | none => { a with fault := some "explicit" }
    | some sh =>
      match faultOf sh j.inst (a.sizeOf a.cur) (a.rfOf j.wf) with
      | some f => { a with fault := some f }
      | none =>
        { a with
          ldsOf := fun g => if g = a.cur then applyW (ldsWrites sh j.inst (a.rfOf j.wf)) (a.ldsOf a.cur)
                            else a.ldsOf g
          rfOf := fun w => if w = j.wf then
                              applyW (vgprWrites sh j.inst (a.rfOf j.wf) (a.ldsOf a.cur)) (a.rfOf j.wf)
                            else a.rfOf w }

/-- the emulator, per instruction: `cu.alu.SetLDS(wf.LDS)` … `alu.Run(wf)` -/
def emuExec (j : Job) (a : Arch) : Arch := aluRun j (setLDS j.wg a)

/-- the emulator as `runWG` is written: `SetLDS` once, then the wavefront's instructions -/
def emuRunWf (wg : Nat) (js : List Job) (a : Arch) : Arch := js.foldl (fun a j => aluRun j a) (setLDS wg a)

/-- `runExecStage`: `u.alu.SetLDS(u.toExec.WG.LDS); u.alu.Run(u.toExec)` -/
def timingExec (j : Job) (a : Arch) : Arch := aluRun j (setLDS j.wg a)

/-- the emulator executing the instruction instances `ids` one after the other -/
def emuSeq (prog : Nat → Job) (ids : List Nat) (a : Arch) : Arch := ids.foldl (fun a id => emuExec (prog id) a) a

/-- `cu.LDSUnit`; `accepted`, `ran`, `completed` are ghost histories -/
structure U where
  toRead : Option Nat := none
  toExec : Option Nat := none
  toWrite : Option Nat := none
  cycleLeft : Nat := 0
  accepted : List Nat := []
  ran : List Nat := []
  completed : List Nat := []
deriving Repr, DecidableEq

def idle : U := {}

/-- `CanAcceptWave` -/
def canAccept (u : U) : Bool := u.toRead.isNone

/-- `AcceptWave` -/
def accept (u : U) (id : Nat) : U := { u with toRead := some id, accepted := u.accepted ++ [id] }

/-- what the decode unit does: `if execUnit.CanAcceptWave() { execUnit.AcceptWave(wave) }` -/
def tryAccept (u : U) (id : Nat) : U := if canAccept u then accept u id else u

/-- `runWriteStage`: `UpdatePCAndSetReady(u.toWrite)` -/
def runWriteStage (u : U) : U :=
  match u.toWrite with
  | none => u
  | some w => { u with completed := u.completed ++ [w], toWrite := none }

/-- `runExecStage`; the second component is the instruction handed to `alu.Run` in this call -/
def runExecStage (u : U) : U × Option Nat :=
  match u.toExec with
  | none => (u, none)
  | some e =>
    if u.toWrite.isSome then (u, none)
    else if u.cycleLeft = 0 then ({ u with ran := u.ran ++ [e], cycleLeft := 14 }, some e)
    else if u.cycleLeft - 1 = 0 then ({ u with cycleLeft := 0, toWrite := some e, toExec := none }, none)
    else ({ u with cycleLeft := u.cycleLeft - 1 }, none)

/-- `runReadStage` -/
def runReadStage (u : U) : U :=
  match u.toRead with
  | none => u
  | some r =>
    match u.toExec with
    | none => { u with toExec := some r, toRead := none }
    | some _ => u

/-- `LDSUnit.Run`: write stage, exec stage, read stage — in this order -/
def tick (u : U) : U × Option Nat :=
  let x := runExecStage (runWriteStage u)
  (runReadStage x.1, x.2)

def ticks : Nat → U → U
  | 0, u => u
  | n + 1, u => ticks n (tick u).1

inductive Op
  | tick
  | accept (id : Nat)
deriving Repr, DecidableEq

def stepU (u : U) : Op → U
  | .tick => (tick u).1
  | .accept id => tryAccept u id

def runU (ops : List Op) (u : U) : U := ops.foldl stepU u

/-- the unit together with the state the ALU acts on -/
def step (prog : Nat → Job) (s : U × Arch) : Op → U × Arch
  | .tick =>
    let x := tick s.1
    (x.1, match x.2 with
          | some e => timingExec (prog e) s.2
          | none => s.2)
  | .accept id => (tryAccept s.1 id, s.2)

def run (prog : Nat → Job) (ops : List Op) (s : U × Arch) : U × Arch := ops.foldl (step prog) s

/-- ids are fresh: every `accept` offers an instruction instance the unit has not accepted before -/
def Valid : List Op → U → Prop
  | [], _ => True
  | .tick :: ops, u => Valid ops (tick u).1
  | .accept id :: ops, u => id ∉ u.accepted ∧ Valid ops (tryAccept u id)

/-- instructions in the pipeline -/
def pending (u : U) : Nat := u.toWrite.toList.length + u.toExec.toList.length + u.toRead.toList.length

/-- `cu.LDSDecoder` in front of the unit: `toDecode` (at most 4), `Run` offers every queued wavefront -/
structure DU where
  toDecode : List Nat := []
  u : U := {}
deriving Repr

def decCanAccept (d : DU) : Bool := d.toDecode.length < 4

def decAccept (d : DU) (id : Nat) : DU := { d with toDecode := d.toDecode ++ [id] }

/-- `DecodeUnit.Run` -/
def decRun (d : DU) : DU :=
  d.toDecode.foldl (fun acc w =>
    if canAccept acc.u then { acc with u := accept acc.u w }
    else { acc with toDecode := acc.toDecode ++ [w] }) { toDecode := [], u := d.u }

/-- one cycle of the compute unit: `cu.LDSUnit.Run()` then `cu.LDSDecoder.Run()` -/
def cuTick (d : DU) : DU := decRun { d with u := (tick d.u).1 }

/-! ## (c) driver -/

def memByte (seed a : Nat) : Nat :=
  let x := (a * 2654435761 + seed * 40503 + 12345) % M32
  let y := (x ^^^ (x / 65536)) * 73244475 % M32
  (y / 256) % 256

def dataWord (seed lane j : Nat) : Nat :=
  let x := (seed * 7919 + lane * 104729 + j * 1299709 + 17) % M32
  ((x ^^^ (x / 8192)) * 2246822519) % M32

def prefill (c : Nat × Nat) : Nat := (2684354560 + c.1 * 256 + c.2) % M32

def hexList? (s : String) : Option (List Nat) :=
  if s = "" || s = "-" then some [] else (s.splitOn ",").mapM hexNat?

/-- the register file of a case line: address register from the line (active lanes) or a
    seed-derived word (inactive lanes), two data windows, everything else `prefill` -/
def caseRf (i : Inst) (seed : Nat) (vals : List Nat) : St :=
  let ls := lanes i.exec
  let arr : Array Nat := ((List.range 64).map fun l => dataWord seed l 99).toArray
  let arr := (ls.zip vals).foldl (fun (a : Array Nat) p => a.setIfInBounds p.1 (p.2 % M32)) arr
  fun c =>
    if c.2 = i.ra then arr.getD c.1 0
    else if i.d0 ≤ c.2 ∧ c.2 < i.d0 + 4 then dataWord seed c.1 (c.2 - i.d0)
    else if i.d1 ≤ c.2 ∧ c.2 < i.d1 + 4 then dataWord seed c.1 (4 + c.2 - i.d1)
    else prefill c

/-- the driver's evaluation of LDS byte writes: an array instead of a function (`arrApply_getD`) -/
def arrApply (ws : List Wr) (arr : Array Nat) : Array Nat :=
  ws.foldl (fun a w => a.setIfInBounds w.cell.2 w.val) arr

/-- bytes that differ from the initial image, as runs `addr:hexbytes` -/
def diffRuns (init fin : Array Nat) : String :=
  let step := fun (acc : Option (Nat × String) × List String) (k : Nat) =>
    let a := init.getD k 0
    let b := fin.getD k 0
    if a = b then
      match acc.1 with
      | some (s, h) => (none, s!"{toHex s}:{h}" :: acc.2)
      | none => acc
    else
      match acc.1 with
      | some (s, h) => (some (s, h ++ toHexPad 2 b), acc.2)
      | none => (some (k, toHexPad 2 b), acc.2)
  let r := (List.range init.size).foldl step (none, [])
  let out := match r.1 with
    | some (s, h) => s!"{toHex s}:{h}" :: r.2
    | none => r.2
  if out.isEmpty then "-" else joinWith " " out.reverse

/-- VGPR writes of a read are lane-ascending, register-ascending and hit each cell once -/
def vDelta (ws : List Wr) (rf : St) : String :=
  let parts := ws.filterMap fun w =>
    if w.val = rf w.cell then none else some s!"{w.cell.1}.{w.cell.2}={toHex w.val}"
  if parts.isEmpty then "-" else joinWith " " parts

/-- what `alu.Run` leaves, printed: `fault:<kind>` or `<lds byte runs> ; <vgpr delta>` -/
def effStr (i : Inst) (size seed : Nat) (rf : St) : String :=
  match shapeOf i.cdna3 i.opc with
  | none => "fault:explicit"
  | some sh =>
    match faultOf sh i size rf with
    | some f => "fault:" ++ f
    | none =>
      let init : Array Nat := ((List.range size).map (memByte seed)).toArray
      let lds0 : St := fun c => init.getD c.2 0
      let fin := arrApply (ldsWrites sh i rf) init
      s!"{diffRuns init fin} ; {vDelta (vgprWrites sh i rf lds0) rf}"

def isFault (s : String) : Bool := s.startsWith "fault:"

/-- first index (1-based) at which `p` holds along the trace -/
def firstIdx (l : List U) (p : U → Bool) : Option Nat :=
  (l.zip (List.range l.length)).findSome? fun x => if p x.1 then some (x.2 + 1) else none

/-- the unit states after 1, 2, …, n cycles of the compute unit -/
def trace (dec : Bool) (n : Nat) : List U :=
  let d0 : DU := if dec then decAccept {} 0 else { u := accept idle 0 }
  ((List.range n).foldl (fun (acc : DU × List U) _ =>
    let d := if dec then cuTick acc.1 else { acc.1 with u := (tick acc.1.u).1 }
    (d, d.u :: acc.2)) (d0, [])).2.reverse

def handleInst (t : List String) : String :=
  match kvNat? t "opc", kv? t "arch", kvHex? t "exec", kvNat? t "off0", kvNat? t "off1", kvNat? t "size",
        kvNat? t "seed", kvNat? t "ra", kvNat? t "d0", kvNat? t "d1", kvNat? t "vd",
        hexList? ((kv? t "a").getD ""), kvNat? t "ticks", kvNat? t "dec" with
  | some opc, some arch, some exec, some off0, some off1, some size, some seed, some ra, some d0, some d1,
    some vd, some vals, some n, some dec =>
    let i : Inst := ⟨opc, arch = "cdna3", exec, off0, off1, ra, d0, d1, vd⟩
    let rf := caseRf i seed vals
    let e := effStr i size seed rf
    let tr := trace (dec = 1) n
    -- alu.Run happens in the first cycle whose state has the instruction in `ran`
    let ranAt := firstIdx tr fun u => !u.ran.isEmpty
    let doneAt := firstIdx tr fun u => !u.completed.isEmpty
    let last := tr.getLast?.getD (if dec = 1 then idle else accept idle 0)
    let tt :=
      match ranAt with
      | none => s!"- ; - run=0 done@- pc+=0"
      | some _ =>
        if isFault e then e
        else
          match doneAt with
          | some k => s!"{e} run={last.ran.length} done@{k} pc+=8"
          | none => s!"{e} run={last.ran.length} done@- pc+=0"
    s!"E {e} | T {tt}"
  | _, _, _, _, _, _, _, _, _, _, _, _, _, _ => "bad"

def optStr : Option Nat → String
  | none => "-"
  | some x => toString x

def natsStr (l : List Nat) : String := if l.isEmpty then "-" else joinWith "," (l.map toString)

def uStr (u : U) : String := s!"{optStr u.toRead}/{optStr u.toExec}/{optStr u.toWrite}/{u.cycleLeft}"

/-- `c02 lds sched dec=<0|1> ops=<a|t…>`: `a` offers a new wavefront (to the decode unit, or directly
    to the LDS unit behind its `CanAcceptWave` guard), `t` is one cycle; the answer is the pipeline
    registers after every operation and the three histories -/
def handleSched (t : List String) : String :=
  match kvNat? t "dec", kv? t "ops" with
  | some dec, some ops =>
    let r := ops.toList.foldl (fun (acc : DU × Nat × Nat × List String) c =>
      let (d, next, rej, out) := acc
      let (d', next', rej') :=
        if c = 'a' then
          if dec = 1 then
            if decCanAccept d then (decAccept d next, next + 1, rej) else (d, next, rej + 1)
          else if canAccept d.u then ({ d with u := accept d.u next }, next + 1, rej) else (d, next, rej + 1)
        else if dec = 1 then (cuTick d, next, rej) else ({ d with u := (tick d.u).1 }, next, rej)
      let s := if dec = 1 then s!"{natsStr d'.toDecode}>{uStr d'.u}" else uStr d'.u
      (d', next', rej', s :: out)) (({} : DU), 0, 0, [])
    let (d, _, rej, out) := r
    s!"{joinWith " " out.reverse} | acc={natsStr d.u.accepted} ran={natsStr d.u.ran} done={natsStr d.u.completed} rej={rej}"
  | _, _ => "bad"

def handleLds (t : List String) : String :=
  match t with
  | "sched" :: r => handleSched r
  | _ => handleInst t

end C02.Lds
