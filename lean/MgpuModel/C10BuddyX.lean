import MgpuModel.C10Buddy
/-!
# C10 (extension, second deepening) — the buddy allocator's initialisation and hidden state

* `newDeviceBuddyMemoryState`, `setStorageSize`, `setInitialAddress` transcribed as they are, in BOTH call orders
  (`Device.SetTotalMemSize` then `RegisterDevice` is what the driver does; the other order is the `initFlag`
  path of the Go code). `init_order` (MgpuProofs/Props/C10Tie.lean) proves both give `Buddy.init`.
* `dumpX`: the free lists PLUS the set bits of both bit fields and the tracker of every tracked page — the
  case lines `c10 buddy … x=1 [rev=1]` compare this hidden state with the real one after every
  device-level call (harness/c10_cons.go drives a stand-alone `internal.Device`).

Core Lean only.
-/
namespace C10.Buddy
open Util

/-- `deviceBuddyMemoryState` before it is usable: `freeList` may be empty, the bit fields nil (`nbits = none`) -/
structure Raw where
  initFlag : Bool
  base : Nat
  size : Nat
  free : List (List Nat)
  nbits : Option Nat
deriving DecidableEq, Repr

/-- newDeviceBuddyMemoryState -/
def raw0 : Raw := { initFlag := false, base := 0, size := 0, free := [], nbits := none }

/-- setInitialAddress: with free lists present the address is queued at level 0, otherwise remembered (`initFlag`) -/
def setInitialAddress (r : Raw) (addr : Nat) : Raw :=
  if r.free.length ≠ 0 then
    { r with base := addr, free := setLvl r.free 0 (lvl r.free 0 ++ [addr]), initFlag := false }
  else { r with base := addr, initFlag := true }

/-- setStorageSize: `order+1` fresh lists, two bit fields of `1 << order` bits; with `initFlag` the remembered
address is queued at level 0 -/
def setStorageSize (r : Raw) (size : Nat) : Raw :=
  let order := ordOf size
  let fresh : List (List Nat) := List.replicate (order + 1) []
  { r with size := size,
           free := if r.initFlag then setLvl fresh 0 (lvl fresh 0 ++ [r.base]) else fresh,
           nbits := some (64 * (2 ^ order / 64 + 1)) }

def Raw.toState (r : Raw) : State :=
  { base := r.base, size := r.size, free := r.free, nbits := r.nbits.getD 0,
    split := [], merge := [], track := [], trk := [] }

/-- the driver's order -/
def initFwd (base size : Nat) : State := (setInitialAddress (setStorageSize raw0 size) base).toState

/-- the other order -/
def initRev (base size : Nat) : State := (setStorageSize (setInitialAddress raw0 base) size).toState

/-! ## hidden state in the dump -/

def insertNat (x : Nat) : List Nat → List Nat
  | [] => [x]
  | y :: ys => if x ≤ y then x :: y :: ys else y :: insertNat x ys

def sortNat (l : List Nat) : List Nat := l.foldl (fun acc x => insertNat x acc) []

def insertTrk (x : Nat × Nat × Nat) : List (Nat × Nat × Nat) → List (Nat × Nat × Nat)
  | [] => [x]
  | y :: ys => if x.1 ≤ y.1 then x :: y :: ys else y :: insertTrk x ys

/-- tracked pages, sorted, each with its tracker `(initialAddr, numOfPages)` -/
def trackedOf (s : State) : List (Nat × Nat × Nat) :=
  s.track.foldl (fun acc e =>
    match s.trk[e.2]? with
    | some (ia, num) => insertTrk (e.1, ia, num) acc
    | none => insertTrk (e.1, 0, 0) acc) []

def dumpX (s : State) : String :=
  dump s ++ " S:" ++ joinWith "," ((sortNat s.split).map toString) ++
    " M:" ++ joinWith "," ((sortNat s.merge).map toString) ++
    " T:" ++ joinWith "," ((trackedOf s).map fun e => s!"{toHex e.1}>{toHex e.2.1}/{e.2.2}") ++
    s!" N:{s.nbits}"

def runTraceX (verbose : Bool) : State → List (List String) → List String → List String
  | _, [], acc => acc.reverse
  | s, t :: ts, acc =>
    match parseOp t with
    | none => ("bad-op" :: acc).reverse
    | some op =>
      match step s op with
      | .error e => (e.str :: acc).reverse
      | .ok (ps, s') =>
        let r := match op with
          | .add _ => "ok"
          | _ => "=" ++ joinWith "," (ps.map toHex)
        let d := dumpX s'
        let o := if verbose then r ++ " " ++ d else r ++ " #" ++ toHex (fnvStr d)
        runTraceX verbose s' ts (o :: acc)

/-- `c10 buddy base=<hex> size=<hex> v=<0|1> x=1 [rev=1] ; op ; …`: first answer = the dump of the fresh device -/
def handleX (line : String) : String :=
  match splitTrim line ";" with
  | [] => "bad"
  | first :: rest =>
    let t := words first
    match kvHex? t "base", kvHex? t "size", kvNat? t "v" with
    | some base, some size, some v =>
      if size = 0 then "bad" else
      let s0 := if kvNat? t "rev" == some 1 then initRev base size else initFwd base size
      joinWith " ; " (("new " ++ dumpX s0) :: runTraceX (v == 1) s0 (rest.map words) [])
    | _, _, _ => "bad"

end C10.Buddy
