import MgpuModel.Util
/-! # C11 — several command queues copying at once: ONE delay line for the requests of all queues

Hand-written, tick-exact model of the copy-relevant part of `Driver.Tick` with
`defaultMemoryCopyMiddleware`:
`sendToGPUs` (head of `requestsToSend` → GPU port), `defaultMemoryCopyMiddleware.Tick` (the delay
line: `cyclesLeft` / `awaitingReqs`, then ONE answer from the GPU port: `processFlushReturn` /
`processMemCopyH2DReturn` / `processMemCopyD2HReturn` → `completeCommandIfDone`), `processNewCommand`
(every queue that is not running starts its head command: `processMemCopyH2DCommand` /
`processMemCopyD2HCommand` append the page pieces to the SHARED `awaitingReqs` and RESTART the shared
`cyclesLeft`; flush requests go straight to `requestsToSend`; a command without any request
completes at once — before the repair it left its queue running for ever: `Mq.startOld`, `tickOld`,
`MqEnv.stepOld`).
-/
namespace C11
open Util

inductive MqKind | flush | h2d | d2h deriving DecidableEq, Repr

def MqKind.tag : MqKind → String
  | .flush => "f"
  | .h2d => "h"
  | .d2h => "d"

/-- a request message of a copy command -/
structure MqReq where
  id : Nat
  /-- queue of the command it belongs to -/
  q : Nat
  /-- ghost: sequence number of that command on its queue -/
  seq : Nat
  kind : MqKind
  /-- page piece number (copy) or GPU number (flush) -/
  idx : Nat
deriving DecidableEq, Repr

/-- a copy command: direction, number of page pieces, whether `needFlushing` holds -/
structure MqCmd where
  kind : MqKind
  pieces : Nat
  flush : Bool
deriving DecidableEq, Repr

structure MqQueue where
  cmds : List MqCmd := []
  running : Bool := false
  /-- `cmd.Reqs` of the head command: ids of its unanswered requests -/
  reqs : List Nat := []
  /-- ghost: number of commands completed on this queue -/
  done : Nat := 0
deriving DecidableEq, Repr

structure Mq where
  nGpus : Nat := 1
  cycH2D : Nat := 0
  cycD2H : Nat := 0
  cyclesLeft : Int := 0
  awaiting : List MqReq := []
  toSend : List MqReq := []
  portOut : List MqReq := []
  /-- answers in the GPU port: id of the original request -/
  portIn : List Nat := []
  queues : List MqQueue := []
  nextId : Nat := 0
  fault : Option String := none
  /-- ghost: every request ever created, in creation order -/
  created : List MqReq := []
  /-- ghost: ids of the answers processed, in order -/
  answered : List Nat := []
  /-- ghost: completed commands (queue, sequence number), in completion order -/
  completed : List (Nat × Nat) := []
deriving Repr

/-- `Driver.sendToGPUs` (the GPU port's outgoing buffer holds 40960000 messages) -/
def Mq.sendToGPUs (s : Mq) : Mq × Bool :=
  match s.toSend with
  | [] => (s, false)
  | r :: rest =>
    if s.portOut.length < 40960000 then ({ s with toSend := rest, portOut := s.portOut ++ [r] }, true)
    else (s, false)

/-- the delay line of `defaultMemoryCopyMiddleware.Tick` -/
def Mq.delay (s : Mq) : Mq × Bool :=
  if s.cyclesLeft > 0 then ({ s with cyclesLeft := s.cyclesLeft - 1 }, true)
  else if s.cyclesLeft = 0 then
    ({ s with toSend := s.toSend ++ s.awaiting, awaiting := [], cyclesLeft := -1 }, true)
  else (s, false)

/-- `findCommandByReq` + removal from `cmd.Reqs` + `completeCommandIfDone` over the queue list:
    the first queue whose current request list holds `id`; `qi` = index of the head of `qs` -/
def mqAnswer (id : Nat) : Nat → List MqQueue → Option (List MqQueue × Option (Nat × Nat))
  | _, [] => none
  | qi, q :: rest =>
    if q.cmds ≠ [] ∧ q.reqs.contains id then
      let reqs := q.reqs.filter (· != id)
      if reqs.isEmpty then
        some ({ q with cmds := q.cmds.tail, running := false, reqs := [], done := q.done + 1 } :: rest, some (qi, q.done))
      else some ({ q with reqs := reqs } :: rest, none)
    else
      match mqAnswer id (qi + 1) rest with
      | none => none
      | some (rest', c) => some (q :: rest', c)

/-- `processGeneralRsp` on the head of the GPU port -/
def Mq.response (s : Mq) : Mq × Bool :=
  match s.portIn with
  | [] => (s, false)
  | id :: rest =>
    match mqAnswer id 0 s.queues with
    | none => ({ s with fault := some "cannot_find_command" }, true)
    | some (qs, c) =>
      ({ s with portIn := rest, queues := qs, answered := s.answered ++ [id],
                completed := s.completed ++ c.toList }, true)

/-- requests of one command: flush requests (one per GPU, sent at once) and page pieces (delayed) -/
def mqFlushReqs (s : Mq) (qi seq : Nat) (c : MqCmd) : List MqReq :=
  if c.flush then (List.range s.nGpus).map fun g => { id := s.nextId + g, q := qi, seq := seq, kind := .flush, idx := g }
  else []

def mqPieceReqs (base qi seq : Nat) (c : MqCmd) : List MqReq :=
  (List.range c.pieces).map fun p => { id := base + p, q := qi, seq := seq, kind := c.kind, idx := p }

/-- `processMemCopyH2DCommand` / `processMemCopyD2HCommand` for the head command of queue `qi`.
    They end with `completeCommandIfDone`: a command for which no request was created (a copy of 0
    bytes that needs no flush) completes at once — the queue is not left running, the command is
    dequeued (the shared timer is restarted all the same). -/
def Mq.start (s : Mq) (qi : Nat) (q : MqQueue) : Mq × MqQueue × Bool :=
  match q.cmds with
  | [] => (s, q, false)
  | c :: rest =>
    if q.running then (s, q, false) else
    let fl := mqFlushReqs s qi q.done c
    let ps := mqPieceReqs (s.nextId + fl.length) qi q.done c
    let s' := { s with toSend := s.toSend ++ fl, awaiting := s.awaiting ++ ps,
                       nextId := s.nextId + fl.length + ps.length,
                       cyclesLeft := if c.kind = .h2d then (s.cycH2D : Int) else (s.cycD2H : Int),
                       created := s.created ++ fl ++ ps }
    if (fl ++ ps).isEmpty then
      ({ s' with completed := s'.completed ++ [(qi, q.done)] },
       { q with cmds := rest, running := false, reqs := [], done := q.done + 1 }, true)
    else (s', { q with running := true, reqs := (fl ++ ps).map (·.id) }, true)

/-- `Mq.start` before the repair: the queue is marked running also when no request was created -/
def Mq.startOld (s : Mq) (qi : Nat) (q : MqQueue) : Mq × MqQueue × Bool :=
  match q.cmds with
  | [] => (s, q, false)
  | c :: _ =>
    if q.running then (s, q, false) else
    let fl := mqFlushReqs s qi q.done c
    let ps := mqPieceReqs (s.nextId + fl.length) qi q.done c
    ({ s with toSend := s.toSend ++ fl, awaiting := s.awaiting ++ ps,
              nextId := s.nextId + fl.length + ps.length,
              cyclesLeft := if c.kind = .h2d then (s.cycH2D : Int) else (s.cycD2H : Int),
              created := s.created ++ fl ++ ps },
     { q with running := true, reqs := (fl ++ ps).map (·.id) }, true)

/-- `processNewCommand`: all queues in order -/
def mqStartAll (s : Mq) : Nat → List MqQueue → Mq × List MqQueue × Bool
  | _, [] => (s, [], false)
  | qi, q :: rest =>
    let r := s.start qi q
    let t := mqStartAll r.1 (qi + 1) rest
    (t.1, r.2.1 :: t.2.1, r.2.2 || t.2.2)

def Mq.startAll (s : Mq) : Mq × Bool :=
  let r := mqStartAll s 0 s.queues
  ({ r.1 with queues := r.2.1 }, r.2.2)

/-- `Driver.Tick` (copy-relevant stages) -/
def Mq.tick (s : Mq) : Mq × Bool :=
  if s.fault.isSome then (s, false) else
  let a := s.sendToGPUs
  let b := a.1.delay
  let c := b.1.response
  -- `madeProgress = m.processGeneralRsp(req)` overwrites the delay line's flag
  let mw := if b.1.portIn.isEmpty then b.2 else c.2
  if c.1.fault.isSome then (c.1, true) else
  let d := c.1.startAll
  (d.1, a.2 || mw || d.2)

/-! the driver before the repair -/

def mqStartAllOld (s : Mq) : Nat → List MqQueue → Mq × List MqQueue × Bool
  | _, [] => (s, [], false)
  | qi, q :: rest =>
    let r := s.startOld qi q
    let t := mqStartAllOld r.1 (qi + 1) rest
    (t.1, r.2.1 :: t.2.1, r.2.2 || t.2.2)

def Mq.startAllOld (s : Mq) : Mq × Bool :=
  let r := mqStartAllOld s 0 s.queues
  ({ r.1 with queues := r.2.1 }, r.2.2)

def Mq.tickOld (s : Mq) : Mq × Bool :=
  if s.fault.isSome then (s, false) else
  let a := s.sendToGPUs
  let b := a.1.delay
  let c := b.1.response
  let mw := if b.1.portIn.isEmpty then b.2 else c.2
  if c.1.fault.isSome then (c.1, true) else
  let d := c.1.startAllOld
  (d.1, a.2 || mw || d.2)

/-! ## Environment: the application enqueues, the GPU side takes requests and answers in any order -/

structure MqEnv where
  s : Mq := {}
  /-- requests taken from the GPU port, not yet answered -/
  outstanding : List MqReq := []
  /-- every request the GPU side has taken, in order -/
  seen : List MqReq := []
  /-- commands enqueued so far (queue, command), in order -/
  enq : List (Nat × MqCmd) := []
deriving Repr

inductive MqOp where
  | enq (q : Nat) (c : MqCmd)
  | tick
  | take (k : Nat)
  | rsp (j : Nat)
deriving DecidableEq, Repr

def mqReqStr (r : MqReq) : String := r.kind.tag ++ toString r.q ++ "." ++ toString r.idx

/-- the completions of one tick as the harness observes them (queue lengths before / after the
    tick): one `!q<i>` per completed command, by queue index -/
def mqDoneStr (newDone : List (Nat × Nat)) : String :=
  String.join (((newDone.map (·.1)).mergeSort (· ≤ ·)).map fun q => "!q" ++ toString q)

def MqEnv.step (e : MqEnv) : MqOp → MqEnv × String
  | .enq qi c =>
    if qi < e.s.queues.length then
      ({ e with s := { e.s with queues := e.s.queues.modify qi fun q => { q with cmds := q.cmds ++ [c] } },
                enq := e.enq ++ [(qi, c)] }, "ok")
    else (e, "bad")
  | .tick =>
    let r := e.s.tick
    let newDone := r.1.completed.drop e.s.completed.length
    ({ e with s := r.1 },
      match r.1.fault with
      | some f => "fault:" ++ f
      | none => (if r.2 then "t1" else "t0") ++ mqDoneStr newDone)
  | .take k =>
    let t := e.s.portOut.take k
    ({ e with s := { e.s with portOut := e.s.portOut.drop k }, outstanding := e.outstanding ++ t, seen := e.seen ++ t },
     "x[" ++ joinWith "," (t.map mqReqStr) ++ "]")
  | .rsp j =>
    match e.outstanding with
    | [] => (e, "none")
    | _ =>
      let j := j % e.outstanding.length
      match e.outstanding[j]? with
      | none => (e, "none")
      | some r =>
        ({ e with s := { e.s with portIn := e.s.portIn ++ [r.id] }, outstanding := e.outstanding.eraseIdx j }, "ok")

def MqEnv.run (e : MqEnv) : List MqOp → MqEnv
  | [] => e
  | op :: rest => ((e.step op).1).run rest

/-- the environment around the driver before the repair -/
def MqEnv.stepOld (e : MqEnv) : MqOp → MqEnv × String
  | .tick =>
    let r := e.s.tickOld
    let newDone := r.1.completed.drop e.s.completed.length
    ({ e with s := r.1 },
      match r.1.fault with
      | some f => "fault:" ++ f
      | none => (if r.2 then "t1" else "t0") ++ mqDoneStr newDone)
  | op => e.step op

def MqEnv.runOld (e : MqEnv) : List MqOp → MqEnv
  | [] => e
  | op :: rest => ((e.stepOld op).1).runOld rest

/-- `warm`: the driver has already ticked (a fresh driver starts with `cyclesLeft = 0`, the first tick
    makes it `-1`) -/
def MqEnv.init (nGpus cycH2D cycD2H nQueues : Nat) (warm : Bool) : MqEnv :=
  { s := { nGpus := nGpus, cycH2D := cycH2D, cycD2H := cycD2H, queues := List.replicate nQueues {},
           cyclesLeft := if warm then -1 else 0 } }

/-! ## Line protocol: `c11 mq gpus=G h2d=A d2h=B queues=N warm=0|1 ; op ; op …`
ops: `e q h|d pieces F|-` (enqueue), `t`, `x k` (GPU side takes k requests), `r j` (answer the j-th
outstanding request). -/

def mqLineOp (e : MqEnv) (toks : List String) : MqEnv × String :=
  match toks with
  | ["e", q, k, p, f] =>
    match q.toNat?, p.toNat? with
    | some q, some p =>
      e.step (.enq q { kind := if k == "h" then .h2d else .d2h, pieces := p, flush := f == "F" })
    | _, _ => (e, "bad")
  | ["t"] => e.step .tick
  | ["x", k] => e.step (.take (k.toNat?.getD 0))
  | ["r", j] => e.step (.rsp (j.toNat?.getD 0))
  | _ => (e, "bad")

def runMq (cfg : List String) (ops : List String) : String :=
  let e := MqEnv.init ((kvNat? cfg "gpus").getD 1) ((kvNat? cfg "h2d").getD 0) ((kvNat? cfg "d2h").getD 0)
    ((kvNat? cfg "queues").getD 1) ((kvNat? cfg "warm").getD 0 == 1)
  let r := ops.foldl (fun (a : MqEnv × List String) o =>
    let q := mqLineOp a.1 (words o)
    (q.1, q.2 :: a.2)) (e, [])
  joinWith " " r.2.reverse

end C11
