import MgpuModel.Util
import MgpuModel.C14_Flush
import MgpuModel.C14_Vmu
import MgpuModel.C14_Arb
/-! # C14 — barriers, wait counts and wavefront termination

Hand-written transcription (tie H) of the timing scheduler's *internal instruction* logic
(`amd/timing/cu/scheduler.go`: `issueToInternal`, `EvaluateInternalInst`, `evalSBarrier`,
`passBarrier`, `evalSWaitCnt`, `evalSEndPgm`, `sendWGCompletionMessage`), of the counter updates
of the memory-return handlers and of `handleWfCompletionEvent` (`computeunit.go`), over an
abstract compute-unit state, plus the emulator's `runWG` / `resolveBarrier` loop
(`amd/emu/computeunit.go`).

`Cfg.fixA` / `Cfg.fixB` select the code before or after the two repairs made for this
property (`fixA`: a barrier waits only for unfinished wavefronts; `fixB`: wavefronts released by
an ending wavefront leave `internalExecuting`, and a wavefront released earlier in the same
evaluation round is not evaluated again). `Cfg.cur` is the code as it is now; the pre-repair
variants are kept for the refutation witnesses only.

Ghost fields (`arr`, `bar`, `sent`) are never read by a transition.
-/
namespace C14
open Util

inductive WfState where
  | dispatching
  | ready
  | running
  | completed
  | atBarrier
  | sampled
deriving DecidableEq, Repr, Inhabited

/-- one wavefront as the scheduler sees it -/
structure Wf where
  id : Nat
  wg : Nat
  state : WfState
  /-- SOPP opcode of the instruction the wavefront holds (1 s_endpgm, 10 s_barrier,
      12 s_waitcnt, anything else: the `default` branch) -/
  op : Nat
  lk : Int
  vm : Int
  /-- OutstandingScalarMemAccess / OutstandingVectorMemAccess (Go `int`) -/
  osc : Int
  ovc : Int
  /-- PC in units of 4 bytes: +1 at every `UpdatePCAndSetReady` -/
  pc : Nat
  inPool : Bool
  /-- ghost: barriers issued / barriers passed -/
  arr : Nat
  bar : Nat
deriving DecidableEq, Repr, Inhabited

structure Cfg where
  fixA : Bool
  fixB : Bool
  bufSize : Nat
  aceCap : Nat
deriving DecidableEq, Repr

/-- the code as it is now -/
def Cfg.cur : Cfg := { fixA := true, fixB := true, bufSize := 16, aceCap := 4 }
/-- the code before the repairs -/
def Cfg.old : Cfg := { fixA := false, fixB := false, bufSize := 16, aceCap := 4 }

structure State where
  wfs : List Wf
  /-- `internalExecuting` (wavefront ids) -/
  exec : List Nat
  /-- `barrierBuffer` -/
  buf : List Nat
  /-- outgoing buffer of the ToACE port: `some g` = completion message of work-group `g`,
      `none` = somebody else's message -/
  out : List (Option Nat)
  /-- ghost: all completion messages ever sent -/
  sent : List Nat
  /-- `panic("never")` was reached -/
  fault : Bool
deriving DecidableEq, Repr, Inhabited

def getWf (wfs : List Wf) (i : Nat) : Option Wf := wfs.find? (fun w => w.id == i)

def wgOf (wfs : List Wf) (i : Nat) : Option Nat := (getWf wfs i).map (·.wg)

/-- apply `f` to the wavefront with id `i` -/
def updWf (wfs : List Wf) (i : Nat) (f : Wf → Wf) : List Wf :=
  wfs.map (fun w => if w.id = i then f w else w)

/-- `ComputeUnit.UpdatePCAndSetReady` -/
def setReady (w : Wf) : Wf := { w with state := .ready, pc := w.pc + 1 }

/-- `wf.State = wavefront.WfAtBarrier` -/
def park (w : Wf) : Wf := { w with state := .atBarrier }

/-- what `setAllWfStateToReady` does to one wavefront of the released group -/
def release (g : Nat) (w : Wf) : Wf :=
  if w.wg = g ∧ w.state ≠ .completed then { setReady w with bar := w.bar + 1 } else w

/-- `passBarrier`: `removeAllWfFromBarrierBuffer` then `setAllWfStateToReady` -/
def passBarrier (g : Nat) (s : State) : State :=
  { s with
    buf := s.buf.filter (fun i => wgOf s.wfs i != some g)
    wfs := s.wfs.map (release g) }

/-- `areAllWfInWGAtBarrier` -/
def allAtBarrier (c : Cfg) (g : Nat) (wfs : List Wf) : Bool :=
  wfs.all (fun w => w.wg != g || w.state == .atBarrier || (c.fixA && w.state == .completed))

/-- `areAllOtherWfsInWGCompleted` -/
def othersCompleted (g i : Nat) (wfs : List Wf) : Bool :=
  wfs.all (fun w => w.id == i || w.wg != g || w.state == .completed)

/-- `areAllOtherWfsInWGAtBarrier` -/
def othersAtBarrier (g i : Nat) (wfs : List Wf) : Bool :=
  wfs.all (fun w => w.id == i || w.wg != g || w.state == .atBarrier || w.state == .completed)

/-- `atLeaseOneWfIsExecuting` -/
def someExecuting (g : Nat) (wfs : List Wf) : Bool :=
  wfs.any (fun w => w.wg == g && (w.state == .running || w.state == .ready))

/-- `clearWGResource` -/
def clearPool (g : Nat) (wfs : List Wf) : List Wf :=
  wfs.map (fun w => if w.wg = g then { w with inPool := false } else w)

/-- result of evaluating one internal instruction -/
structure Ev where
  s : State
  progress : Bool
  completed : Bool
  pass : Bool

/-- `evalSBarrier` -/
def evalSBarrier (c : Cfg) (s : State) (w : Wf) : Ev :=
  let s1 := { s with wfs := updWf s.wfs w.id park }
  if allAtBarrier c w.wg s1.wfs then
    ⟨passBarrier w.wg s1, true, true, true⟩
  else if s1.buf.length < c.bufSize then
    ⟨{ s1 with buf := s1.buf ++ [w.id] }, true, true, false⟩
  else
    ⟨s1, false, false, false⟩

/-- `evalSWaitCnt` -/
def evalSWaitCnt (s : State) (w : Wf) : Ev :=
  if w.osc > w.lk ∨ w.ovc > w.vm then ⟨s, false, false, false⟩
  else ⟨{ s with wfs := updWf s.wfs w.id setReady }, true, true, false⟩

def complete (v : Wf) : Wf := { v with state := .completed }

/-- `evalSEndPgm` (with `sendWGCompletionMessage`) -/
def evalSEndPgm (c : Cfg) (s : State) (w : Wf) : Ev :=
  if w.ovc > 0 ∨ w.osc > 0 then ⟨s, false, false, false⟩
  else if othersCompleted w.wg w.id s.wfs then
    if s.out.length < c.aceCap then
      ⟨{ s with out := s.out ++ [some w.wg], sent := s.sent ++ [w.wg],
                wfs := clearPool w.wg (updWf s.wfs w.id complete) }, true, true, false⟩
    else ⟨s, false, false, false⟩
  else if othersAtBarrier w.wg w.id s.wfs then
    let s1 := passBarrier w.wg s
    ⟨{ s1 with wfs := updWf s1.wfs w.id complete }, true, true, c.fixB⟩
  else if someExecuting w.wg s.wfs then
    ⟨{ s with wfs := updWf s.wfs w.id complete }, true, true, false⟩
  else ⟨{ s with fault := true }, false, false, false⟩

/-- the `switch executing.Inst().Opcode` of `EvaluateInternalInst` -/
def evalInst (c : Cfg) (s : State) (w : Wf) : Ev :=
  if w.op = 1 then evalSEndPgm c s w
  else if w.op = 10 then evalSBarrier c s w
  else if w.op = 12 then evalSWaitCnt s w
  else ⟨{ s with wfs := updWf s.wfs w.id setReady }, true, true, false⟩

/-- the bookkeeping after the switch: on a barrier pass the group's wavefronts leave
    `newExecuting`; an instruction that did not complete is kept -/
def finishOne (i g : Nat) (e : Ev) : State :=
  let s2 := if e.pass then { e.s with exec := e.s.exec.filter (fun j => wgOf e.s.wfs j != some g) } else e.s
  if e.completed then s2 else { s2 with exec := s2.exec ++ [i] }

/-- one iteration of the loop of `EvaluateInternalInst`; during the loop `s.exec` is
    `newExecuting` -/
def evalOne (c : Cfg) (sp : State × Bool) (i : Nat) : State × Bool :=
  if sp.1.fault then sp else
  match getWf sp.1.wfs i with
  | none => sp
  | some w =>
    if c.fixB && w.state == .ready then sp else
    (finishOne i w.wg (evalInst c sp.1 w), sp.2 || (evalInst c sp.1 w).progress)

/-- `EvaluateInternalInst`: new state and `madeProgress` -/
def evalInternal (c : Cfg) (s : State) : State × Bool :=
  s.exec.foldl (evalOne c) ({ s with exec := [] }, false)

/-- environment and scheduler events -/
inductive Op where
  /-- `issueToInternal` of an instruction with SOPP opcode `op` -/
  | issue (i op : Nat) (lk vm : Int)
  /-- issue to an execution unit (`DoIssue`): the wavefront is Running -/
  | issueUnit (i : Nat)
  /-- the execution unit finishes: `UpdatePCAndSetReady` -/
  | unitDone (i : Nat)
  /-- a memory instruction leaves its unit (`vector`: both counters, else the scalar one) -/
  | memIssue (i : Nat) (vector : Bool)
  /-- memory response; `kind` 0 flat load, 1 flat store, 2 non-flat load, 3 scalar load,
      other: a response nobody waits for; `last` = not `CanWaitForCoalesce` -/
  | memRet (i kind : Nat) (last : Bool)
  | eval
  /-- the dispatcher side takes `k` messages from ToACE -/
  | drain (k : Nat)
  /-- `handleWfCompletionEvent` (sampling) -/
  | wfComp (i : Nat)
deriving Repr, DecidableEq

def memRetWf (kind : Nat) (last : Bool) (w : Wf) : Wf :=
  if !last then w
  else if kind = 0 ∨ kind = 1 then { w with ovc := w.ovc - 1, osc := w.osc - 1 }
  else if kind = 2 then { w with ovc := w.ovc - 1 }
  else if kind = 3 then { w with osc := w.osc - 1 }
  else w

/-- `handleWfCompletionEvent`; the Bool says the event was rescheduled (send failed) -/
def wfComp (c : Cfg) (s : State) (i : Nat) : State × Bool :=
  match getWf s.wfs i with
  | none => (s, false)
  | some w =>
    let s1 := { s with wfs := updWf s.wfs i complete }
    if othersCompleted w.wg i s1.wfs then
      if s1.out.length < c.aceCap then
        ({ s1 with out := s1.out ++ [some w.wg], sent := s1.sent ++ [w.wg], wfs := clearPool w.wg s1.wfs }, false)
      else (s1, true)
    else (s1, false)

/-- what `issueToInternal` does to the wavefront -/
def issueWf (op : Nat) (lk vm : Int) (w : Wf) : Wf :=
  { w with
    state := .running
    op := op
    lk := lk
    vm := vm
    arr := if op = 10 then w.arr + 1 else w.arr }

/-- one event; the string is the token the harness prints for it -/
def step (c : Cfg) (s : State) : Op → State × String
  | .issue i op lk vm =>
    ({ s with
        wfs := updWf s.wfs i (issueWf op lk vm)
        exec := s.exec ++ [i] }, "i")
  | .issueUnit i =>
    ({ s with wfs := updWf s.wfs i (fun w => { w with state := .running, op := 99, lk := 0, vm := 0 }) }, "u")
  | .unitDone i => ({ s with wfs := updWf s.wfs i setReady }, "d")
  | .memIssue i v =>
    ({ s with wfs := updWf s.wfs i (fun w =>
        if v then { w with osc := w.osc + 1, ovc := w.ovc + 1 } else { w with osc := w.osc + 1 }) }, "m")
  | .memRet i kind last => ({ s with wfs := updWf s.wfs i (memRetWf kind last) }, "r")
  | .eval =>
    let r := evalInternal c s
    (r.1, if r.2 then "p1" else "p0")
  | .drain k =>
    let got := s.out.take k
    ({ s with out := s.out.drop k },
      if got.isEmpty then "o-" else
      "o" ++ joinWith "." (got.map (fun m => match m with | some g => toString g | none => "f")))
  | .wfComp i =>
    let r := wfComp c s i
    (r.1, if r.2 then "w1" else "w0")

def run (c : Cfg) (s : State) (ops : List Op) : State := ops.foldl (fun s o => (step c s o).1) s

/-! ## the compute unit around the scheduler: pipeline flush and the sampled-completion path

`flushPipeline` (`computeunit.go`, page migration) calls `setWavesToReady` — every wavefront that is
resident in a wavefront pool and has not ended becomes `WfReady`, its PC is **not** advanced, so the
instruction it held is fetched, decoded and issued again — and then `Scheduler.Flush`
(`barrierBuffer = nil; internalExecuting = nil`). `schedFlush` is that effect on the scheduler's
state (the memory side of the flush is `C14.Flush`). Ghost: an `s_barrier` that had been issued and
not yet passed is un-issued (`arr - 1`): the wavefront will arrive at that barrier again.

With `-wf-sampling`, once the sampling engine is stable, `handleMapWGReq` does not dispatch the
wavefronts of a work-group: each gets the state `WfSampledCompleted` and one `WfCompletionEvent` at
the predicted time; `handleWfCompletionEvent` (`wfComp`) marks it `WfCompleted` and, when all the
others of the group are, sends the completion message — or re-schedules the event for the next cycle
when the port is full. The scheduler's functions only ever look at `wg.Wfs`, one slice per
work-group, so the wavefronts of sampled groups are kept in their own list `sw` (they are in no
pool, the scheduler never sees them); the two sides share the ToACE port (`out`, `sent`). `uni…`
below is the same machine over ONE wavefront list; the driver runs both on every `samp` case line
and reports a difference. -/

/-- `setWavesToReady` on one wavefront -/
def flushWf (w : Wf) : Wf :=
  if w.inPool && w.state != .completed then
    { w with
      state := .ready
      arr := if w.state == .atBarrier || (w.state == .running && w.op == 10) then w.arr - 1 else w.arr }
  else w

/-- the scheduler side of `flushPipeline`: `setWavesToReady`, then `Scheduler.Flush` -/
def schedFlush (s : State) : State := { s with wfs := s.wfs.map flushWf, exec := [], buf := [] }

/-- scheduler state + the sampled work-groups + the engine's queue of `WfCompletionEvent`s -/
structure XState where
  s : State
  /-- wavefronts of work-groups that are not simulated (`WfSampledCompleted` → `WfCompleted`) -/
  sw : List Wf
  /-- scheduled and not yet handled `WfCompletionEvent`s (wavefront ids) -/
  evq : List Nat
deriving Repr, DecidableEq

inductive XOp where
  | base (o : Op)
  /-- `flushPipeline` -/
  | flush
  /-- the engine handles the scheduled `WfCompletionEvent` of wavefront `i` -/
  | fire (i : Nat)
deriving Repr, DecidableEq

/-- `handleWfCompletionEvent` on a sampled work-group: `wfComp` over the group lists `sw`, the port
    and the log are the compute unit's -/
def fireS (c : Cfg) (x : XState) (i : Nat) : XState × Bool :=
  let r := wfComp c { x.s with wfs := x.sw } i
  ({ s := { x.s with out := r.1.out, sent := r.1.sent }
     sw := r.1.wfs
     evq := x.evq.erase i ++ (if r.2 then [i] else []) }, r.2)

def xstep (c : Cfg) (x : XState) : XOp → XState × String
  | .base o => let r := step c x.s o; ({ x with s := r.1 }, r.2)
  | .flush => ({ x with s := schedFlush x.s }, "f")
  | .fire i =>
    if x.evq.contains i then
      let r := fireS c x i
      (r.1, if r.2 then "e1" else "e0")
    else (x, "e-")

def xrun (c : Cfg) (x : XState) (ops : List XOp) : XState := ops.foldl (fun x o => (xstep c x o).1) x

/-- the same machine over one wavefront list (what a transcription with a single global list of
    wavefronts gives): `uni` = all wavefronts in id order -/
structure UState where
  u : State
  evq : List Nat
deriving Repr, DecidableEq

def ustep (c : Cfg) (x : UState) : XOp → UState × String
  | .base o => let r := step c x.u o; ({ x with u := r.1 }, r.2)
  | .flush => ({ x with u := schedFlush x.u }, "f")
  | .fire i =>
    if x.evq.contains i then
      let r := wfComp c x.u i
      ({ u := r.1, evq := x.evq.erase i ++ (if r.2 then [i] else []) }, if r.2 then "e1" else "e0")
    else (x, "e-")

/-- merge two id-sorted wavefront lists -/
def mergeWfs : List Wf → List Wf → List Wf
  | [], b => b
  | a, [] => a
  | x :: a, y :: b => if x.id ≤ y.id then x :: mergeWfs a (y :: b) else y :: mergeWfs (x :: a) b
termination_by a b => a.length + b.length

/-- all wavefronts of the compute unit in id order -/
def XState.all (x : XState) : List Wf := mergeWfs x.s.wfs x.sw

/-! ## the emulator: `runWG` / `runWfUntilBarrier` / `resolveBarrier`

A wavefront's program is abstracted to the number of barriers it executes before `s_endpgm`. -/

structure EWf where
  todo : Nat
  atBarrier : Bool
  completed : Bool
  /-- ghost: barriers passed -/
  bar : Nat
deriving DecidableEq, Repr

/-- `runWfUntilBarrier` -/
def emuRunWf (w : EWf) : EWf :=
  if w.completed then w
  else match w.todo with
    | 0 => { w with completed := true }
    | n + 1 => { w with todo := n, atBarrier := true }

/-- `resolveBarrier`: `none` = `log.Panic("not all wavefronts at barrier")` -/
def emuResolve (fix : Bool) (wfs : List EWf) : Option (List EWf) :=
  if wfs.all (·.completed) then some wfs
  else if wfs.all (fun w => (fix && w.completed) || w.atBarrier) then
    some (wfs.map (fun w => if fix && w.completed then w else { w with atBarrier := false, bar := w.bar + 1 }))
  else none

/-- `runWG` with a bound on the number of rounds of the `for !isAllWfCompleted` loop;
    `none` = panic; the Bool says the loop ended -/
def emuRunWG (fix : Bool) : Nat → List EWf → Option (List EWf × Bool)
  | 0, wfs => some (wfs, wfs.all (·.completed))
  | fuel + 1, wfs =>
    if wfs.all (·.completed) then some (wfs, true)
    else match emuResolve fix (wfs.map emuRunWf) with
      | none => none
      | some wfs' => emuRunWG fix fuel wfs'

/-! ## line protocol -/

def stateOfChar : Char → Option WfState
  | 'D' => some .dispatching
  | 'R' => some .ready
  | 'N' => some .running
  | 'C' => some .completed
  | 'B' => some .atBarrier
  | 'S' => some .sampled
  | _ => none

def charOfState : WfState → Char
  | .dispatching => 'D'
  | .ready => 'R'
  | .running => 'N'
  | .completed => 'C'
  | .atBarrier => 'B'
  | .sampled => 'S'

def parseWf (id : Nat) (s : String) : Option Wf :=
  match s.splitOn ":" with
  | [wg, st, op, lk, vm, osc, ovc] => do
    let wg ← wg.toNat?
    let st ← stateOfChar (st.front)
    let op ← op.toNat?
    let lk ← lk.toInt?
    let vm ← vm.toInt?
    let osc ← osc.toInt?
    let ovc ← ovc.toInt?
    pure { id := id, wg := wg, state := st, op := op, lk := lk, vm := vm, osc := osc, ovc := ovc,
           pc := 0, inPool := true, arr := 0, bar := 0 }
  | _ => none

def parseWfs (s : String) : Option (List Wf) :=
  let parts := s.splitOn ","
  (List.zip (List.range parts.length) parts).mapM (fun p => parseWf p.1 p.2)

def parseState (toks : List String) : Option State := do
  let ace ← kvNat? toks "ace"
  let buf ← (kv? toks "buf").bind natList?
  let exec ← (kv? toks "exec").bind natList?
  let wfs ← (kv? toks "wfs").bind parseWfs
  pure { wfs := wfs, exec := exec, buf := buf, out := List.replicate ace none, sent := [], fault := false }

def parseOp (toks : List String) : Option Op :=
  match toks with
  | ["is", i, op, lk, vm] => do pure (.issue (← i.toNat?) (← op.toNat?) (← lk.toInt?) (← vm.toInt?))
  | ["iu", i] => do pure (.issueUnit (← i.toNat?))
  | ["ud", i] => do pure (.unitDone (← i.toNat?))
  | ["mi", i, k] => do pure (.memIssue (← i.toNat?) (k == "v"))
  | ["mr", i, k, last] => do
    let kind := if k == "vl" then 0 else if k == "vs" then 1 else if k == "vn" then 2 else if k == "sl" then 3 else 9
    pure (.memRet (← i.toNat?) kind ((← last.toNat?) != 0))
  | ["ev"] => some .eval
  | ["dr", k] => do pure (.drain (← k.toNat?))
  | ["wc", i] => do pure (.wfComp (← i.toNat?))
  | _ => none

def letters (s : State) : String := String.ofList (s.wfs.map (fun w => charOfState w.state))

def idsStr (l : List Nat) : String := if l.isEmpty then "-" else joinWith "," (l.map toString)

def dumpWf (w : Wf) : String :=
  String.singleton (charOfState w.state) ++ ":" ++ toString w.pc ++ ":" ++ toString w.osc ++ ":" ++
    toString w.ovc ++ ":" ++ (if w.inPool then "1" else "0")

def dump (s : State) : String :=
  "buf=" ++ idsStr s.buf ++ " exec=" ++ idsStr s.exec ++ " wfs=" ++ joinWith "," (s.wfs.map dumpWf) ++
  " out=" ++ (if s.out.isEmpty then "-" else
    joinWith "." (s.out.map (fun m => match m with | some g => toString g | none => "f")))

/-- `c14 emu fix=<0|1> todo=<n,n,...>`: the emulator loop -/
def handleEmu (toks : List String) : String :=
  match kvNat? toks "fix", (kv? toks "todo").bind natList? with
  | some f, some todo =>
    let wfs : List EWf := todo.map (fun t => { todo := t, atBarrier := false, completed := false, bar := 0 })
    let brief := kvNat? toks "brief" == some 1
    match emuRunWG (f != 0) (todo.foldl max 0 + 2) wfs with
    | none => "panic"
    | some (w, done) =>
      if brief then (if done then "done" else "loop")
      else (if done then "done " else "loop ") ++ joinWith "," (w.map (fun x => toString x.bar))
  | _, _ => "bad"

/-! ## ghost layer: the memory accesses that are *really* outstanding

The scheduler model (`C14.step`) only has the two counters `osc` / `ovc` of a wavefront. This file
adds, next to a scheduler state, the set of memory instructions of every wavefront whose responses
have not all arrived, and annotated events that say *which* instruction a response belongs to. Nothing
here is read by a transition of `C14.step`: `gstep` runs `step` on the erased event and updates the
ghost besides (`(gstep c gs o).s = (step c gs.s o.erase).1` by definition), so every theorem about
`run` applies to the scheduler component of a ghost run.

A memory instruction is split by the coalescer / the scalar unit into `n + 1` transactions; all but
the last carry `CanWaitForCoalesce`, and the return handlers decrement the counters when the response
of the *last* transaction arrives (`memRetWf … last`). `issueFlat` (issue side, tied to
`VectorMemoryUnit.executeFlatLoad/Store`) counts one instruction on both counters; the scalar unit
counts one on the LGKM counter. -/

/-- one memory instruction whose responses have not all arrived -/
structure Acc where
  /-- responses still to come from the transactions flagged `CanWaitForCoalesce` -/
  rest : Nat
  /-- the response of the last transaction (the one that decrements the counters) is still to come -/
  lastPending : Bool
deriving DecidableEq, Repr

/-- the really outstanding memory instructions of one wavefront, oldest first, per memory path:
    FLAT instructions (vector memory port) and scalar loads (scalar memory port) -/
structure GWf where
  qv : List Acc
  qs : List Acc
deriving DecidableEq, Repr

/-- really outstanding vector-memory instructions (what `vmcnt` is meant to count) -/
def GWf.trueVM (q : GWf) : Nat := q.qv.length
/-- really outstanding LGKM accesses (FLAT instructions count on both, as `issueFlat` does) -/
def GWf.trueLGKM (q : GWf) : Nat := q.qv.length + q.qs.length

structure GState where
  s : State
  /-- ghost: wavefront id ↦ really outstanding accesses -/
  g : Nat → GWf

/-- events with the information the scheduler does not see -/
inductive GOp where
  /-- any event that is not a counted memory issue / return -/
  | plain (o : Op)
  /-- `memIssue i vector`; the instruction has `n` transactions besides its last one -/
  | memIssue (i : Nat) (vector : Bool) (n : Nat)
  /-- `memRet i kind last` (kind 0/1 FLAT load/store, 3 scalar load): the response belongs to the
      instruction at position `k` of the queue of its memory path; `last` = it is the response of
      the instruction's last transaction -/
  | memRet (i kind k : Nat) (last : Bool)
deriving Repr, DecidableEq

def GOp.erase : GOp → Op
  | .plain o => o
  | .memIssue i v _ => .memIssue i v
  | .memRet i kind _ last => .memRet i kind last

/-- a response arrives for the instruction at position `k` of queue `q`: one response fewer to
    wait for; an instruction all of whose responses have arrived leaves the queue -/
def accRet : List Acc → Nat → Bool → List Acc
  | [], _, _ => []
  | a :: q, 0, last =>
    let a' : Acc := if last then { a with lastPending := false } else { a with rest := a.rest - 1 }
    if a'.rest = 0 ∧ a'.lastPending = false then q else a' :: q
  | a :: q, k + 1, last => a :: accRet q k last

def gIssue (q : GWf) (vector : Bool) (n : Nat) : GWf :=
  if vector then { q with qv := q.qv ++ [⟨n, true⟩] } else { q with qs := q.qs ++ [⟨n, true⟩] }

def gRet (q : GWf) (kind k : Nat) (last : Bool) : GWf :=
  if kind = 0 ∨ kind = 1 then { q with qv := accRet q.qv k last }
  else if kind = 3 then { q with qs := accRet q.qs k last }
  else q

/-- one annotated event: the scheduler does `step` on the erased event -/
def gstep (c : Cfg) (gs : GState) (o : GOp) : GState :=
  { s := (step c gs.s o.erase).1
    g := match o with
      | .plain _ => gs.g
      | .memIssue i v n => fun j => if j = i then gIssue (gs.g i) v n else gs.g j
      | .memRet i kind k last => fun j => if j = i then gRet (gs.g i) kind k last else gs.g j }

def grun (c : Cfg) (gs : GState) (ops : List GOp) : GState := ops.foldl (gstep c) gs

/-- the queue a response of `kind` belongs to -/
def pathQueue (q : GWf) (kind : Nat) : List Acc := if kind = 3 then q.qs else q.qv

/-- the annotation is consistent: a `plain` event is not a counted memory event, and a response
    belongs to a transaction that is really outstanding -/
def respOK (gs : GState) : GOp → Bool
  | .plain (.memIssue _ _) => false
  | .plain (.memRet _ kind _) => decide (kind > 3)
  | .plain _ => true
  | .memIssue _ _ _ => true
  | .memRet i kind k last =>
    (kind == 0 || kind == 1 || kind == 3) &&
    match (pathQueue (gs.g i) kind)[k]? with
    | none => false
    | some a => if last then a.lastPending else decide (a.rest > 0)

/-- **in-order returns** (what the reorder buffer of property C15 provides on each memory path):
    the response that arrives belongs to the oldest outstanding instruction of its path, and the
    response of an instruction's last transaction arrives after those of its other transactions -/
def inOrder (gs : GState) : GOp → Bool
  | .memRet i kind k last =>
    k == 0 && (!last || match (pathQueue (gs.g i) kind)[0]? with
      | none => false
      | some a => a.rest == 0)
  | _ => true

def respOKRun (c : Cfg) : GState → List GOp → Bool
  | _, [] => true
  | gs, o :: ops => respOK gs o && respOKRun c (gstep c gs o) ops

def inOrderRun (c : Cfg) : GState → List GOp → Bool
  | _, [] => true
  | gs, o :: ops => inOrder gs o && inOrderRun c (gstep c gs o) ops


/-! ### `c14 ghost n=<W> ; gi <i> <v|s> <n> ; gr <i> <kind> <k> <last> ; …`

`W` fresh wavefronts; after every annotated event the counters of the wavefront concerned and its
really outstanding accesses `ovc:osc:trueVM:trueLGKM`; at the end whether every annotation was
consistent (`ok`) and whether the responses returned in order (`ord`). -/

def parseGOp (toks : List String) : Option GOp :=
  match toks with
  | ["gi", i, v, n] => do pure (.memIssue (← i.toNat?) (v == "v") (← n.toNat?))
  | ["gr", i, kind, k, last] => do
    pure (.memRet (← i.toNat?) (← kind.toNat?) (← k.toNat?) ((← last.toNat?) != 0))
  | _ => none

def GOp.wf : GOp → Nat
  | .plain _ => 0
  | .memIssue i _ _ => i
  | .memRet i _ _ _ => i

def handleGhost (toks : List String) (ops : List String) : String :=
  match kvNat? toks "n" with
  | none => "bad"
  | some n =>
    let wfs : List Wf := (List.range n).map (fun i =>
      { id := i, wg := 0, state := .ready, op := 99, lk := 0, vm := 0, osc := 0, ovc := 0,
        pc := 0, inPool := true, arr := 0, bar := 0 })
    let gs0 : GState :=
      { s := { wfs := wfs, exec := [], buf := [], out := [], sent := [], fault := false }
        g := fun _ => ⟨[], []⟩ }
    let r := ops.foldl (fun (acc : GState × Bool × Bool × Array String) o =>
      match parseGOp (words o) with
      | none => (acc.1, acc.2.1, acc.2.2.1, acc.2.2.2.push "x")
      | some op =>
        let gs := acc.1
        let gs' := gstep Cfg.cur gs op
        let i := op.wf
        let tok := match getWf gs'.s.wfs i with
          | none => "-"
          | some w => s!"{w.ovc}:{w.osc}:{(gs'.g i).trueVM}:{(gs'.g i).trueLGKM}"
        (gs', acc.2.1 && respOK gs op, acc.2.2.1 && inOrder gs op, acc.2.2.2.push tok))
      (gs0, true, true, #[])
    joinWith " " (r.2.2.2.toList ++ [s!"ok={r.2.1} ord={r.2.2.1}"])

/-- `VectorMemoryUnit.executeFlatLoad/Store`: issuing one FLAT access counts exactly one more
    outstanding vector access and one more outstanding scalar (LGKM) access, unbounded. -/
def issueFlat (vm lgkm : Nat) : Nat × Nat := (vm + 1, lgkm + 1)

/-! ### `c14 samp ace=<k> wfs=<wg:state:op:lk:vm:osc:ovc,...> ; op ; …`

Wavefronts given in state `S` belong to sampled work-groups: they are in no pool and each has one
`WfCompletionEvent` scheduled (in id order). Ops: those of `abs`, `fl` (`flushPipeline`), `fe i`
(the engine handles the event of wavefront `i`). Answer: per op `<result>/<state letters>` (all
wavefronts in id order), then the final state and the event queue; `split=ok` says that the machine
with one global wavefront list agreed after every op. -/

def parseXOp (toks : List String) : Option XOp :=
  match toks with
  | ["fl"] => some .flush
  | ["fe", i] => do pure (.fire (← i.toNat?))
  | _ => (parseOp toks).map .base

def xletters (l : List Wf) : String := String.ofList (l.map (fun w => charOfState w.state))

def xdump (s : State) (all : List Wf) (evq : List Nat) : String :=
  "buf=" ++ idsStr s.buf ++ " exec=" ++ idsStr s.exec ++ " wfs=" ++ joinWith "," (all.map dumpWf) ++
  " out=" ++ (if s.out.isEmpty then "-" else
    joinWith "." (s.out.map (fun m => match m with | some g => toString g | none => "f"))) ++
  " evq=" ++ idsStr evq

def handleSamp (toks : List String) (ops : List String) : String :=
  match parseState toks with
  | none => "bad-cfg"
  | some s0 =>
    let sw := (s0.wfs.filter (fun w => w.state == .sampled)).map (fun w => { w with inPool := false })
    let nw := s0.wfs.filter (fun w => w.state != .sampled)
    let evq := sw.map (·.id)
    let x0 : XState := { s := { s0 with wfs := nw }, sw := sw, evq := evq }
    let u0 : UState :=
      { u := { s0 with wfs := s0.wfs.map (fun w => if w.state == .sampled then { w with inPool := false } else w) }
        evq := evq }
    let r := ops.foldl (fun (acc : XState × UState × Bool × Array String) o =>
      let (x, u, ok, out) := acc
      if x.s.fault then acc else
      match parseXOp (words o) with
      | none => (x, u, ok, out.push "x")
      | some op =>
        let (x', tok) := xstep Cfg.cur x op
        let (u', tok') := ustep Cfg.cur u op
        let same := tok == tok' && x'.all == u'.u.wfs && x'.s.exec == u'.u.exec && x'.s.buf == u'.u.buf &&
          x'.s.out == u'.u.out && x'.s.sent == u'.u.sent && x'.evq == u'.evq && x'.s.fault == u'.u.fault
        if x'.s.fault then (x', u', ok && same, out.push "fault:never")
        else (x', u', ok && same, out.push (tok ++ "/" ++ xletters x'.all))) (x0, u0, true, #[])
    let (x, _, ok, out) := r
    let tail := if ok then "split=ok" else "split=DIFF"
    if x.s.fault then joinWith " " (out.toList ++ [tail])
    else joinWith " " (out.toList ++ [xdump x.s x.all x.evq, tail])

def handle (line : String) : String :=
  match splitTrim line ";" with
  | [] => "bad"
  | first :: ops =>
    let toks := words first
    if toks.contains "flush" then Flush.handle toks ops else
    if toks.contains "samp" then handleSamp toks ops else
    if toks.contains "vmu" then Vmu.handle toks ops else
    if toks.contains "arb" then Arb.handle toks else
    if toks.contains "issue" then
      match kvNat? toks "v", kvNat? toks "s" with
      | some v, some sc => let r := issueFlat v sc; s!"ok=true v={r.1} s={r.2}"
      | _, _ => "bad"
    else
    if toks.contains "ghost" then handleGhost toks ops else
    if toks.contains "emu" then handleEmu toks else
    match parseState toks with
    | none => "bad-cfg"
    | some s0 =>
      let r := ops.foldl (fun (acc : State × Array String) o =>
        let s := acc.1
        if s.fault then acc else
        if words o == ["fl"] then
          let s' := schedFlush s
          (s', acc.2.push ("f/" ++ letters s'))
        else
        match parseOp (words o) with
        | none => (s, acc.2.push "x")
        | some op =>
          let (s', tok) := step Cfg.cur s op
          if s'.fault then (s', acc.2.push "fault:never")
          else (s', acc.2.push (tok ++ "/" ++ letters s'))) (s0, #[])
      if r.1.fault then joinWith " " r.2.toList
      else joinWith " " (r.2.toList ++ [dump r.1])

end C14
