import MgpuModel.C03S
import MgpuModel.C03V
/-! # C03 — instruction execution conforms to the ISA: dispatcher for the two sub-modules.
    Case lines are `c03 s …` (scalar handlers, translated from Go + Lean ISA spec) and
    `c03 v …` (vector / memory handlers, hand-written Lean ISA spec). -/
namespace C03
def handle (line : String) : String :=
  match (line.splitOn " ").filter (· ≠ "") with
  | _ :: "s" :: _ => C03S.handle line
  | _ :: "v" :: _ => C03V.handle line
  | _ => "bad"
end C03
