import MgpuModel.C19_Sys
/-! # C19 — the closed system with a monitor at the driver's ports (ghost counters only)

`Cnt` is what a monitor plugged between the driver and its two ports would count along a run of `SY.Sys`:
the commands that entered the outgoing buffer of the GPU port, per kind; the acknowledgements
`processReturnReq` took out of its incoming buffer, per kind; the requests `parseFromMMU` took out of the
MMU port. The monitor only LOOKS at the three buffers before and after a move (`Cnt.obs`): the model of
the system is not changed, `stepC` runs `SY.step` and updates the counters from the difference. A whole
driver tick is observed stage by stage (the five stages of `Drv.tick`). -/
namespace C19
namespace SY
open CP (Cp Cls K Sub Cmd Ans)
open DR (Drv MmuReq MigCmd)

structure Cnt where
  /-- the requests `parseFromMMU` took, oldest first -/
  reqs : List MmuReq := []
  /-- commands that entered the GPU port: drain, shootdown, migrate, GPU restart, RDMA restart -/
  cD : Nat := 0
  cS : Nat := 0
  cM : Nat := 0
  cG : Nat := 0
  cA : Nat := 0
  /-- acknowledgements `processReturnReq` consumed, same order -/
  aD : Nat := 0
  aS : Nat := 0
  aM : Nat := 0
  aG : Nat := 0
  aA : Nat := 0
deriving Repr, Inhabited

def isD : Cmd → Bool
  | .drain => true
  | _ => false
def isS : Cmd → Bool
  | .shoot _ => true
  | _ => false
def isM : Cmd → Bool
  | .mig _ => true
  | _ => false
def isG : Cmd → Bool
  | .restart => true
  | _ => false
def isA : Cmd → Bool
  | .rdmaRestart => true
  | _ => false

/-- number of commands of a kind in a list of (GPU, command) -/
def cnt (f : Cmd → Bool) (l : List (Nat × Cmd)) : Nat := (l.filter (fun x => f x.2)).length

def cntA (a : Ans) (l : List Ans) : Nat := (l.filter (· == a)).length

/-- what appeared at the end of the GPU port's outgoing buffer -/
def newOut (d d' : Drv) : List (Nat × Cmd) := d'.gpuOut.drop d.gpuOut.length
/-- what disappeared from the head of the GPU port's incoming buffer -/
def eaten (d d' : Drv) : List Ans := d.gpuIn.take (d.gpuIn.length - d'.gpuIn.length)
/-- what disappeared from the head of the MMU port's incoming buffer -/
def tookReq (d d' : Drv) : List MmuReq := d.mmuIn.take (d.mmuIn.length - d'.mmuIn.length)

def Cnt.obs (c : Cnt) (d d' : Drv) : Cnt :=
  { reqs := c.reqs ++ tookReq d d',
    cD := c.cD + cnt isD (newOut d d'), cS := c.cS + cnt isS (newOut d d'), cM := c.cM + cnt isM (newOut d d'),
    cG := c.cG + cnt isG (newOut d d'), cA := c.cA + cnt isA (newOut d d'),
    aD := c.aD + cntA .drain (eaten d d'), aS := c.aS + cntA .shoot (eaten d d'), aM := c.aM + cntA .mig (eaten d d'),
    aG := c.aG + cntA .restart (eaten d d'), aA := c.aA + cntA .rdmaRestart (eaten d d') }

/-- one move of the system, observed -/
def stepO (x : Sys × Cnt) (m : Mv) : Sys × Cnt := (step x.1 m, x.2.obs x.1.drv (step x.1 m).drv)

/-- one move of the monitored system; a driver tick is observed after each of its five stages -/
def stepC (x : Sys × Cnt) : Mv → Sys × Cnt
  | .dtick => [Mv.dstage 0, .dstage 1, .dstage 2, .dstage 3, .dstage 4].foldl stepO x
  | m => stepO x m

def runC (x : Sys × Cnt) (ms : List Mv) : Sys × Cnt := ms.foldl stepC x

/-- monitored runs: the counters start at 0 in an initial state -/
inductive ReachC : Sys × Cnt → Prop
  | init {s : Sys} : Init s → ReachC (s, {})
  | step {x : Sys × Cnt} (m : Mv) : ReachC x → m.ok x.1 → ReachC (stepC x m)

/-- accessing GPUs / pages of a list of requests -/
def sumAcc (l : List MmuReq) : Nat := (l.map (fun r => r.acc.length)).sum
def sumPages (ngpu : Nat) (l : List MmuReq) : Nat := (l.map (fun r => (migOrder ngpu r.map).length)).sum

def curAcc (d : Drv) : Nat :=
  match d.cur with
  | some r => r.acc.length
  | none => 0
def curPages (d : Drv) : Nat :=
  match d.cur with
  | some r => (migOrder d.ngpu r.map).length
  | none => 0

/-- commands of the request being served that do not exist yet: the shootdowns while drains are
    outstanding, the migrate commands until the last shootdown acknowledgement, … -/
def pendS (d : Drv) : Nat := if 0 < d.drain then curAcc d else 0
def pendM (d : Drv) : Nat := if 0 < d.drain ∨ 0 < d.shoot then curPages d else 0
def pendG (d : Drv) : Nat := if 0 < d.drain ∨ 0 < d.shoot ∨ 0 < d.mig then curAcc d else 0
def pendA (d : Drv) : Nat := if 0 < d.drain ∨ 0 < d.shoot ∨ 0 < d.mig ∨ 0 < d.restart then d.ngpu else 0

/-- the counting invariant of monitored runs -/
structure CI (s : Sys) (c : Cnt) : Prop where
  ids : c.reqs.map (·.id) = s.drv.taken
  cur : ∀ r, s.drv.cur = some r → c.reqs.getLast? = some r
  nm : cnt isM s.drv.toSend = 0
  d1 : c.cD + cnt isD s.drv.toSend = s.drv.ngpu * c.reqs.length
  d2 : c.aD + s.drv.drain = s.drv.ngpu * c.reqs.length
  s1 : c.cS + cnt isS s.drv.toSend + pendS s.drv = sumAcc c.reqs
  s2 : c.aS + s.drv.shoot + pendS s.drv = sumAcc c.reqs
  m1 : c.cM + s.drv.toCP.length + pendM s.drv = sumPages s.drv.ngpu c.reqs
  m2 : c.aM + s.drv.mig + pendM s.drv = sumPages s.drv.ngpu c.reqs
  g1 : c.cG + cnt isG s.drv.toSend + pendG s.drv = sumAcc c.reqs
  g2 : c.aG + s.drv.restart + pendG s.drv = sumAcc c.reqs
  a1 : c.cA + cnt isA s.drv.toSend + pendA s.drv = s.drv.ngpu * c.reqs.length
  a2 : c.aA + s.drv.rdma + pendA s.drv = s.drv.ngpu * c.reqs.length

end SY
end C19
