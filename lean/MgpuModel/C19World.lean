import MgpuModel.C19_Base
/-! # C19 — the closed system `World`

`World` = the system `Sys` of `MgpuModel/C19.lean` (two controllers ticked by `tick`, two byte
memories, a network and two memory controllers that hold messages arbitrarily long and release them
in any order, the control side) together with a ghost list `live` of the migration requests that
were submitted and whose completion was not collected yet, each with the image of its source range
at submission. The moves are the honest operations of `step` (no stray/foreign messages); a
submission must satisfy the harness's validity rule (`c19Env.op "s"` / `inflightOverlap`). Nothing
here is executed by the driver; the functions `step`/`tick` are the ones the correspondence ties to
the Go code. -/
namespace C19

/-- a request between its submission and the collection of its completion -/
structure Live where
  /-- the requesting controller -/
  p : Nat
  r : MigReq
  /-- bytes of the source range when the request was submitted -/
  snap : List Nat
deriving Repr, Inhabited

structure World where
  sys : Sys := {}
  live : List Live := []
deriving Inhabited

/-- the operations of a well-behaved environment, addressed to controller / memory 0 or 1 -/
def Op.honest : Op → Bool
  | .tick i => i < 2
  | .submit i _ _ _ _ => i < 2
  | .ctl i => i < 2
  | .pick i => i < 2
  | .dnet _ => true
  | .mtake i => i < 2
  | .mdo i _ => i < 2
  | .mrsp i _ => i < 2
  | .coll i => i < 2
  | _ => false

def Op.isSubmit : Op → Bool
  | .submit .. => true
  | _ => false

/-- `[a, a+n)` and `[b, b+m)` do not meet -/
def disjoint (a n b m : Nat) : Prop := a + n ≤ b ∨ b + m ≤ a

instance (a n b m : Nat) : Decidable (disjoint a n b m) := by unfold disjoint; exact inferInstance

/-- the harness's validity rule for a submission (`q.valid`): a positive multiple of 64 bytes, the
    peer is the other controller, both ranges inside the storages, the destination range meets no
    destination range (same memory) and no source range (same memory) of a request in flight, the
    source range meets no destination range of a request in flight -/
def validSubmit (w : World) (i rd wr size peer : Nat) : Prop :=
  i < 2 ∧ peer = 1 - i ∧ 0 < size ∧ size % unit = 0 ∧
  rd + size ≤ (w.sys.mem peer).size ∧ wr + size ≤ (w.sys.mem i).size ∧
  ∀ ℓ ∈ w.live,
    (ℓ.p = i → disjoint wr size ℓ.r.wr ℓ.r.size) ∧
    (ℓ.p = peer → disjoint wr size ℓ.r.rd ℓ.r.size ∧ disjoint rd size ℓ.r.wr ℓ.r.size)

def Op.valid (w : World) : Op → Prop
  | .submit i rd wr size peer => validSubmit w i rd wr size peer
  | o => o.honest = true

/-- one move of the closed system: `step` on the system, bookkeeping of the requests in flight -/
def World.step (w : World) (o : Op) : World :=
  let s' := (C19.step w.sys o).1
  match o with
  | .submit i rd wr size peer =>
    { sys := s',
      live := w.live ++ [⟨i, ⟨w.sys.nreq, rd, wr, size, peer⟩, readBytes (w.sys.mem peer) rd size⟩] }
  | .coll i =>
    match (w.sys.pmc i).ctlOut with
    | [] => { sys := s', live := w.live }
    | c :: _ => { sys := s', live := w.live.filter fun ℓ => ℓ.r.id != c }
  | _ => { sys := s', live := w.live }

/-- the worlds reachable from two arbitrary memories by valid moves -/
inductive WReach : World → Prop
  | init (m0 m1 : Mem) : WReach { sys := { m0 := m0, m1 := m1 } }
  | step {w : World} (o : Op) : WReach w → o.valid w → WReach (w.step o)

/-- a move that changes the state: a tick that reports progress, or an environment move that is not
    a no-op (`-`, `full`) -/
def productive (s : Sys) : Op → Bool
  | .tick i => (tick (s.pmc i)).2
  | .ctl i => !(s.cq i).isEmpty && (s.pmc i).ctlIn.length < 1
  | .pick i => !(s.pmc i).remOut.isEmpty
  | .dnet j =>
    match s.net[j % s.net.length]? with
    | none => false
    | some m => (s.pmc (dstOf m)).remIn.length < 1
  | .mtake i => !(s.pmc i).memOut.isEmpty
  | .mdo i _ => !(s.mq i).isEmpty
  | .mrsp i _ => !(s.mr i).isEmpty && (s.pmc i).memIn.length < 1
  | .coll i => !(s.pmc i).ctlOut.isEmpty
  | _ => false

/-! ## the progress measure: every message is weighted by the number of hops it still has to make -/

/-- hops a request makes once it is started: each of its `size/64` chunks travels 23 queues, then
    the completion is queued and sent -/
def wReq (r : MigReq) : Nat := 24 * (r.size / unit) + 4

def wCtl : CMsg → Nat
  | .mig r => wReq r + 2
  | .junk => 1

def wRemOut : RMsg → Nat
  | .req _ => 22
  | .rsp _ => 11
  | .junk _ => 3

def wNet : RMsg → Nat
  | .req _ => 21
  | .rsp _ => 10
  | .junk _ => 2

def wRemIn : RMsg → Nat
  | .req _ => 20
  | .rsp _ => 9
  | .junk _ => 1

def wMemOut : MReq → Nat
  | .read .. => 17
  | .write .. => 6

def wMq : MReq → Nat
  | .read .. => 16
  | .write .. => 5

def wMr : MRsp → Nat
  | .data .. => 15
  | .done _ => 4
  | .junk => 2

def wMemIn : MRsp → Nat
  | .data .. => 14
  | .done _ => 3
  | .junk => 1

def sumW {α : Type} (f : α → Nat) (l : List α) : Nat := (l.map f).sum

/-- the weight of what one controller holds -/
def pmcMeasure (p : Pmc) : Nat :=
  23 * p.toPull.length + sumW wRemOut p.remOut + sumW wRemIn p.remIn + 19 * p.curPull.length +
  sumW (fun m => wMemOut m + 1) p.toRead + sumW wMemOut p.memOut + sumW wMemIn p.memIn +
  13 * p.dataReady.length + 12 * p.toRsp.length + 8 * p.recvData.length +
  sumW (fun m => wMemOut m + 1) p.writeReqs +
  (if p.wdone.isSome then 2 else 0) + (if p.toCtrl.isSome then 2 else 0) +
  (match p.cur with
    | some r => if p.handling then 3 else wReq r
    | none => 0) +
  sumW wCtl p.ctlIn + p.ctlOut.length

/-- the progress measure of the closed system -/
def measure (s : Sys) : Nat :=
  pmcMeasure s.p0 + pmcMeasure s.p1 + sumW wNet s.net +
  sumW wMq s.mq0 + sumW wMq s.mq1 + sumW wMr s.mr0 + sumW wMr s.mr1 +
  sumW (fun c => wCtl c + 1) s.cq0 + sumW (fun c => wCtl c + 1) s.cq1

/-! ## the driver's handshake as a closed system

`HsW` = the handshake counters of `MgpuModel/C19.lean` (`Hs`, `hsStep` = one delivered message
followed by ticks until quiescence) together with what the GPUs and the MMU did so far. The GPUs are
honest: a response of a kind is delivered only when a command of that kind is outstanding; the order
is arbitrary. MMU requests may arrive at any time (a request that finds the port full is not accepted). -/

structure HsW where
  h : Hs
  /-- responses delivered so far, by kind -/
  gotDrain : Nat := 0
  gotShoot : Nat := 0
  gotMig : Nat := 0
  gotRestart : Nat := 0
  gotRdma : Nat := 0
  /-- requests taken from the MMU port (`parseFromMMU`) -/
  taken : Nat := 0
  /-- phases completed: all drain acks, all shootdown acks, all restart acks, all RDMA-restart acks
      (the migration phases completed are counted by `rspMMU`) -/
  nD : Nat := 0
  nS : Nat := 0
  nR : Nat := 0
  nA : Nat := 0
deriving Repr

def HsW.enabled (w : HsW) : HsOp → Prop
  | .fromMMU => True
  | .drainRsp => w.gotDrain < w.h.sentDrain
  | .shootRsp => w.gotShoot < w.h.sentShoot
  | .migRsp => w.gotMig < w.h.sentMig
  | .restartRsp => w.gotRestart < w.h.sentRestart
  | .rdmaRsp => w.gotRdma < w.h.sentRdma

instance (w : HsW) (o : HsOp) : Decidable (w.enabled o) := by
  cases o <;> simp only [HsW.enabled] <;> exact inferInstance

def HsW.step (w : HsW) (o : HsOp) : HsW :=
  let d := hsDeliver w.h o
  let took := !d.handling && d.mmuIn = 1
  let w := { w with h := hsSettle d, taken := if took then w.taken + 1 else w.taken }
  match o with
  | .fromMMU => w
  | .drainRsp => { w with gotDrain := w.gotDrain + 1, nD := if d.drain = 0 then w.nD + 1 else w.nD }
  | .shootRsp => { w with gotShoot := w.gotShoot + 1, nS := if d.shoot = 0 then w.nS + 1 else w.nS }
  | .migRsp => { w with gotMig := w.gotMig + 1 }
  | .restartRsp => { w with gotRestart := w.gotRestart + 1, nR := if d.restart = 0 then w.nR + 1 else w.nR }
  | .rdmaRsp => { w with gotRdma := w.gotRdma + 1, nA := if d.rdma = 0 then w.nA + 1 else w.nA }

/-- reachable handshake states for `ngpu` GPUs, `acc` accessing GPUs and `pages` pages per request -/
inductive HsReach (ngpu acc pages : Nat) : HsW → Prop
  | init : HsReach ngpu acc pages { h := { ngpu := ngpu, acc := acc, pages := pages } }
  | step {w : HsW} (o : HsOp) : HsReach ngpu acc pages w → w.enabled o → HsReach ngpu acc pages (w.step o)

end C19
