import MgpuModel.Util
import MgpuModel.C02Wf
import MgpuModel.C02Lds
import MgpuModel.C02Cfg
import MgpuModel.C02Bar
import MgpuModel.C02L1
import MgpuModel.C02L1c
import MgpuModel.C02Txn
import MgpuModel.C02Arb
/-!
C02 — timing mode is functionally transparent.  Component models, each a pair
(emulator side, timing side):

* wavefront register initialisation: `emu.ComputeUnit.initWfRegs` / `cu.WfDispatcherImpl.initRegisters`
* FLAT loads: `emu.ALUImpl.runFlatLoad*` / `defaultCoalescer.generateMemTransactions` +
  `ComputeUnit.handleVectorDataLoadReturn` (responses in any order)
* FLAT stores: `runFlatStore*` / coalescer write requests with dirty masks (applied in any order)
* SMEM loads: `runSLOADDWORD*` / `ScalarUnit.executeSMEMLoad` + `handleScalarDataLoadReturn`
* the outstanding-access counter of `VectorMemoryUnit.executeFlat*` / `handleVectorData*`.

Everything is a list of last-writer-wins cell writes (`Wr`) applied to a state `St`
(cells are `(lane, vgpr)`, `(0, sgpr)` or `(0, byte address)`).  Addresses are `Nat`
(the Go code wraps at 2^64; the harness keeps addresses below 2^48).
-/
namespace C02
open Util

/-- one cell write; `key` is the cache line (or chunk) the timing side groups it under -/
structure Wr where
  key : Nat
  cell : Nat × Nat
  val : Nat
deriving Repr, DecidableEq

abbrev St := Nat × Nat → Nat

def upd (f : St) (w : Wr) : St := fun c => if c = w.cell then w.val else f c

/-- apply writes in list order (later wins) -/
def applyW (ws : List Wr) (f : St) : St := ws.foldl upd f

/-- the value the last write to `c` carries (what the driver evaluates; `applyW_eq_lastW`) -/
def lastW (ws : List Wr) (c : Nat × Nat) : Option Nat :=
  ws.foldl (fun acc w => if c = w.cell then some w.val else acc) none

/-- the timing side: one batch per key, batches in the order `ord` -/
def grouped (ws : List Wr) (ord : List Nat) (f : St) : St :=
  ord.foldl (fun f k => applyW (ws.filter (fun w => w.key = k)) f) f

/-- `cacheLineID`: addr >> l << l -/
def lineOf (ls a : Nat) : Nat := a / ls * ls

/-- `findOrCreate…Req`: a new line is appended unless a request for it exists -/
def addLine (l : List Nat) (x : Nat) : List Nat := if x ∈ l then l else l ++ [x]
def dedup (l : List Nat) : List Nat := l.foldl addLine []

def M64 : Nat := 18446744073709551616
def M32 : Nat := 4294967296

/-- `readFlatAddr` / `flatAddrWithScalar`: imm is Offset0 (13-bit offset sign-extended to 32 bits) -/
def effAddr (sa : Bool) (sbase imm v : Nat) : Nat :=
  let base := if sa then (sbase + v % M32) % M64 else v % M64
  let off := if imm ≥ 2147483648 then imm + (M64 - M32) else imm
  (base + off) % M64

/-- active lanes in ascending order with their effective address -/
def active (exec : Nat) (addr : Nat → Nat) : List (Nat × Nat) :=
  ((List.range 64).filter (fun i => exec.testBit i)).map (fun i => (i, addr i))

/-! ## FLAT loads -/

inductive LKind | ubyte | sbyte | ushort | sshort | dword
deriving Repr, DecidableEq

def LKind.width : LKind → Nat
  | .ubyte => 1 | .sbyte => 1 | .ushort => 2 | .sshort => 2 | .dword => 4

/-- opcode → (kind, register count) — `instRegCount` -/
def loadOp : Nat → Option (LKind × Nat)
  | 16 => some (.ubyte, 1) | 17 => some (.sbyte, 1) | 18 => some (.ushort, 1) | 19 => some (.sshort, 1)
  | 20 => some (.dword, 1) | 21 => some (.dword, 2) | 22 => some (.dword, 3) | 23 => some (.dword, 4)
  | _ => none

/-- FLAT load opcodes `runFlat` of the emulator ALUs has a case for: all of `loadOp` after the repair;
    before it opcodes 19 (sshort) and 22 (dwordx3) were missing (the timing side always had them) -/
def emuHasLoad (opc : Nat) : Bool := (loadOp opc).isSome
def emuHasLoadOld (opc : Nat) : Bool := (loadOp opc).isSome && opc != 19 && opc != 22

def sext8 (b : Nat) : Nat := if b ≥ 128 then b + 4294967040 else b
def sext16 (h : Nat) : Nat := if h ≥ 32768 then h + 4294901760 else h

/-- the 32-bit register value from the bytes `g 0, g 1, …` -/
def valOf (k : LKind) (g : Nat → Nat) : Nat :=
  match k with
  | .ubyte => g 0
  | .sbyte => sext8 (g 0)
  | .ushort => g 0 + 256 * g 1
  | .sshort => sext16 (g 0 + 256 * g 1)
  | .dword => g 0 + 256 * g 1 + 65536 * g 2 + 16777216 * g 3

/-- the return path before the repair: opcode 18 one byte, 17 and 19 the raw dword -/
def valOfOld (k : LKind) (g : Nat → Nat) : Nat :=
  match k with
  | .ubyte => g 0
  | .ushort => g 0
  | _ => g 0 + 256 * g 1 + 65536 * g 2 + 16777216 * g 3

structure Acc where
  lane : Nat
  j : Nat
  addr : Nat
deriving Repr, DecidableEq

/-- per active lane, per destination register: the dword it accesses -/
def accesses (act : List (Nat × Nat)) (cnt : Nat) : List Acc :=
  act.flatMap fun p => (List.range cnt).map fun j => ⟨p.1, j, p.2 + 4 * j⟩

/-- the emulator: lane-ascending, each lane reads its bytes from memory -/
def emuLoadW (k : LKind) (dst ls : Nat) (m : Nat → Nat) (accs : List Acc) : List Wr :=
  accs.map fun x => ⟨lineOf ls x.addr, (x.lane, dst + x.j), valOf k (fun i => m (x.addr + i))⟩

def emuLoad (k : LKind) (dst ls : Nat) (m : Nat → Nat) (accs : List Acc) (rf : St) : St :=
  applyW (emuLoadW k dst ls m accs) rf

/-- `generateReadReqs`: lines in first-touch order -/
def loadLines (ls : Nat) (accs : List Acc) : List Nat := dedup (accs.map fun x => lineOf ls x.addr)

/-- `addLaneInfo` of the transaction for line `ln` -/
def txnLanes (ls : Nat) (accs : List Acc) (ln : Nat) : List Acc :=
  accs.filter fun x => lineOf ls x.addr = ln

/-- the data of the response: the whole line -/
def lineData (m : Nat → Nat) (ls ln : Nat) : List Nat := (List.range ls).map fun i => m (ln + i)

/-- `handleVectorDataLoadReturn` for one response -/
def retW (vf : LKind → (Nat → Nat) → Nat) (k : LKind) (dst ls : Nat) (m : Nat → Nat) (ln : Nat)
    (lanes : List Acc) : List Wr :=
  let d := lineData m ls ln
  lanes.map fun x => ⟨ln, (x.lane, dst + x.j), vf k (fun i => d.getD (x.addr % ls + i) 0)⟩

/-- responses handled in the order `ord` (a list of lines) -/
def timingLoadG (vf : LKind → (Nat → Nat) → Nat) (k : LKind) (dst ls : Nat) (m : Nat → Nat)
    (accs : List Acc) (ord : List Nat) (rf : St) : St :=
  ord.foldl (fun rf ln => applyW (retW vf k dst ls m ln (txnLanes ls accs ln)) rf) rf

def timingLoad := timingLoadG valOf
def timingLoadOld := timingLoadG valOfOld

/-- an access that runs over the end of its line: the return path slices past the response -/
def loadStraddles (k : LKind) (ls : Nat) (accs : List Acc) : Bool :=
  accs.any fun x => decide (x.addr % ls + k.width > ls)

/-! ## FLAT stores -/

def byteOf (w b : Nat) : Nat := w / 256 ^ b % 256

/-- store opcode → (bytes written per data register, register count): `runFlatStore*` /
    `instRegCount` + `storeByteSize`. -/
def storeOp : Nat → Option (Nat × Nat)
  | 24 => some (1, 1) | 26 => some (2, 1)
  | 28 => some (4, 1) | 29 => some (4, 2) | 30 => some (4, 3) | 31 => some (4, 4)
  | _ => none

/-- the coalescer before the repair merged the whole data dword for byte and short stores too -/
def storeOpTimingOld : Nat → Option (Nat × Nat)
  | 24 => some (4, 1) | 26 => some (4, 1)
  | 28 => some (4, 1) | 29 => some (4, 2) | 30 => some (4, 3) | 31 => some (4, 4)
  | _ => none

/-- byte writes in the emulator's order: lane ascending, then address ascending; `bw` = bytes written
    per data register (1, 2 or 4);
    key = line of the dword the byte belongs to (the request the coalescer merges it into) -/
def storeW (ls bw cnt : Nat) (act : List (Nat × Nat)) (data : Nat → Nat → Nat) : List Wr :=
  (accesses act cnt).flatMap fun x =>
    (List.range bw).map fun b => ⟨lineOf ls x.addr, (0, x.addr + b), byteOf (data x.lane x.j) b⟩

def emuStore (ls bw cnt : Nat) (act : List (Nat × Nat)) (data : Nat → Nat → Nat) (m : St) : St :=
  applyW (storeW ls bw cnt act data) m

def storeLines (ls cnt : Nat) (act : List (Nat × Nat)) : List Nat :=
  dedup ((accesses act cnt).map fun x => lineOf ls x.addr)

/-- the write request for line `k` is the sub-list of byte writes merged into it, in merge
    order (Data = last byte per offset, DirtyMask = touched offsets: `summ`); the memory applies
    the requests in the order `ord` -/
def timingStore (ls bw cnt : Nat) (act : List (Nat × Nat)) (data : Nat → Nat → Nat) (ord : List Nat)
    (m : St) : St :=
  grouped (storeW ls bw cnt act data) ord m

/-- `addressRangeMustFallInReq` panics when the stored bytes run over the end of the line -/
def storeStraddles (ls bw cnt : Nat) (act : List (Nat × Nat)) : Bool :=
  (accesses act cnt).any fun x => decide (x.addr % ls + bw > ls)

/-- Data/DirtyMask view of a request: `summ ws c = some b` iff offset c is dirty with byte b -/
def summ (ws : List Wr) : Nat × Nat → Option Nat := lastW ws
def applyReq (s : Nat × Nat → Option Nat) (m : St) : St := fun c => (s c).getD (m c)

/-! ## SMEM loads -/

/-- `(base + offset) &^ 3`: the two low bits of a scalar-load address are ignored (both modes, after
    the repair; before it both used the raw sum) -/
def smemAddr (a : Nat) : Nat := a / 4 * 4

def le32 (m : Nat → Nat) (a : Nat) : Nat :=
  m a + 256 * m (a + 1) + 65536 * m (a + 2) + 16777216 * m (a + 3)

/-- the `for bytesLeft > 0` loop of `executeSMEMLoad`: (address, size) per cache line -/
def chunks (ls : Nat) : Nat → Nat → Nat → List (Nat × Nat)
  | 0, _, _ => []
  | fuel + 1, curr, left =>
    if left = 0 then [] else
      let c := min left (ls - curr % ls)
      (curr, c) :: chunks ls fuel (curr + c) (left - c)

def smemEmuW (reg start n : Nat) (m : Nat → Nat) : List Wr :=
  (List.range (n / 4)).map fun i => ⟨0, (0, reg + i), le32 m (start + 4 * i)⟩

/-- `handleScalarDataLoadReturn` for the response of one chunk -/
def chunkW (reg start : Nat) (m : Nat → Nat) (c : Nat × Nat) : List Wr :=
  (List.range (c.2 / 4)).map fun i => ⟨0, (0, reg + (c.1 - start) / 4 + i), le32 m (c.1 + 4 * i)⟩

def timingSmem (reg start : Nat) (m : Nat → Nat) (ord : List (Nat × Nat)) (s : St) : St :=
  ord.foldl (fun s c => applyW (chunkW reg start m c) s) s

def emuSmem (reg start n : Nat) (m : Nat → Nat) (s : St) : St := applyW (smemEmuW reg start n m) s

/-- RegCount = len/4 = 0 is turned into 1 by the register file, which then slices 4 bytes -/
def smemFaults (cs : List (Nat × Nat)) : Bool := cs.any fun c => decide (c.2 < 4)

/-- opcode → bytes in the emulator (x1..x16) and in timing (`executeSMEMInst`: x1..x16 after the
    repair; `smemTimingBytesOld` = before it, no case for opcode 4) -/
def smemEmuBytes : Nat → Option Nat
  | 0 => some 4 | 1 => some 8 | 2 => some 16 | 3 => some 32 | 4 => some 64 | _ => none
def smemTimingBytes : Nat → Option Nat
  | 0 => some 4 | 1 => some 8 | 2 => some 16 | 3 => some 32 | 4 => some 64 | _ => none
def smemTimingBytesOld : Nat → Option Nat
  | 0 => some 4 | 1 => some 8 | 2 => some 16 | 3 => some 32 | _ => none

/-! ## outstanding-access counter -/

structure Txn where
  id : Nat
  last : Bool
deriving Repr, DecidableEq

structure CSt where
  inflight : List Txn := []
  counter : Int := 0
  next : Nat := 0
deriving Repr

inductive COp
  | issue (n : Nat)      -- a vector memory instruction coalesced into n transactions
  | ret (id : Nat)       -- the response for transaction id arrives
deriving Repr

def mkTxns (base n : Nat) : List Txn := (List.range n).map fun i => ⟨base + i, i + 1 == n⟩

def removeFirst (id : Nat) : List Txn → Option (Txn × List Txn)
  | [] => none
  | t :: ts => if t.id = id then some (t, ts) else
      match removeFirst id ts with
      | some (x, r) => some (x, t :: r)
      | none => none

def cstep (s : CSt) : COp → CSt
  | .issue n =>
    if n = 0 then s else
      { inflight := s.inflight ++ mkTxns s.next n, counter := s.counter + 1, next := s.next + n }
  | .ret id =>
    match removeFirst id s.inflight with
    | none => s
    | some (t, rest) => { s with inflight := rest, counter := if t.last then s.counter - 1 else s.counter }

def crun (ops : List COp) (s : CSt) : CSt := ops.foldl cstep s

/-- the responses come back in request order: every `ret` names the oldest transaction -/
def inOrder : List COp → CSt → Prop
  | [], _ => True
  | .issue n :: ops, s => inOrder ops (cstep s (.issue n))
  | .ret id :: ops, s => (∃ t rest, s.inflight = t :: rest ∧ t.id = id) ∧ inOrder ops (cstep s (.ret id))

/-! ## wavefront register initialisation -/

structure Flags where
  privSegBuf : Bool
  dispatchPtr : Bool
  queuePtr : Bool
  kernarg : Bool
  dispatchID : Bool
  flatScratch : Bool
  privSegSize : Bool
  cntX : Bool
  cntY : Bool
  cntZ : Bool
  idX : Bool
  idY : Bool
  idZ : Bool
deriving Repr, DecidableEq

structure Args where
  packetAddr : Nat
  kernargAddr : Nat
  gx : Nat
  gy : Nat
  gz : Nat
  wx : Nat
  wy : Nat
  wz : Nat
  ix : Nat
  iy : Nat
  iz : Nat
deriving Repr

def w64 (ptr v : Nat) : List Wr := [⟨0, (0, ptr / 4), v % M32⟩, ⟨0, (0, ptr / 4 + 1), v / M32 % M32⟩]
def w32 (ptr v : Nat) : List Wr := [⟨0, (0, ptr / 4), v % M32⟩]
/-- the work-group-count SGPR of both modes (repaired): `uint32((uint64(GridSize) + uint64(WorkgroupSize) - 1) /
    uint64(WorkgroupSize))` — the ceiling division in 64 bits, truncated to the register -/
def wgCount (g w : Nat) : Nat := (g + w - 1) % M64 / w % M32
/-- before the repair: `(GridSize + uint32(WorkgroupSize) - 1) / uint32(WorkgroupSize)` in `uint32`
    (the sum wraps for `GridSize > 2^32 − WorkgroupSize`) -/
def wgCountOld (g w : Nat) : Nat := (g + w - 1) % M32 / w

/-- the SGPR set-up; `advQ`, `advP` = how far the cursor moves for an enabled queue pointer /
    private segment size (the dispatcher of the timing CU: 8 and 4; the emulator before the
    repair: 0 and 0, now 8 and 4) -/
def initS (advQ advP : Nat) (f : Flags) (a : Args) : List Wr :=
  let p1 := if f.privSegBuf then 16 else 0
  let s1 := if f.dispatchPtr then w64 p1 a.packetAddr else []
  let p2 := if f.dispatchPtr then p1 + 8 else p1
  let p3 := if f.queuePtr then p2 + advQ else p2
  let s3 := if f.kernarg then w64 p3 a.kernargAddr else []
  let p4 := if f.kernarg then p3 + 8 else p3
  let p5 := if f.dispatchID then p4 + 8 else p4
  let p6 := if f.flatScratch then p5 + 8 else p5
  let p7 := if f.privSegSize then p6 + advP else p6
  let s7 := if f.cntX then w32 p7 (wgCount a.gx a.wx) else []
  let p8 := if f.cntX then p7 + 4 else p7
  let s8 := if f.cntY then w32 p8 (wgCount a.gy a.wy) else []
  let p9 := if f.cntY then p8 + 4 else p8
  let s9 := if f.cntZ then w32 p9 (wgCount a.gz a.wz) else []
  let p10 := if f.cntZ then p9 + 4 else p9
  let s10 := if f.idX then w32 p10 a.ix else []
  let p11 := if f.idX then p10 + 4 else p10
  let s11 := if f.idY then w32 p11 a.iy else []
  let p12 := if f.idY then p11 + 4 else p11
  let s12 := if f.idZ then w32 p12 a.iz else []
  s1 ++ s3 ++ s7 ++ s8 ++ s9 ++ s10 ++ s11 ++ s12

def emuInitS : Flags → Args → List Wr := initS 8 4
def emuInitSOld : Flags → Args → List Wr := initS 0 0
def timingInitS : Flags → Args → List Wr := initS 8 4

/-- work-item ids of lane `l` of the wavefront starting at flattened id `first` -/
def wiX (first sx sy l : Nat) : Nat := (first + l) % (sx * sy) % sx
def wiY (first sx sy l : Nat) : Nat := (first + l) % (sx * sy) / sx
def wiZ (first sx sy l : Nat) : Nat := (first + l) / (sx * sy)

def packV5 (x y z : Nat) : Nat := (x % M32) ||| ((y <<< 10) % M32) ||| ((z <<< 20) % M32)

/-- emulator: `if V5 {…} else {…}` -/
def emuInitV (v5 : Bool) (en first sx sy : Nat) : List Wr :=
  (List.range 64).flatMap fun l =>
    let x := wiX first sx sy l
    let y := wiY first sx sy l
    let z := wiZ first sx sy l
    if v5 then [⟨0, (l, 0), packV5 x y z⟩]
    else [⟨0, (l, 0), x % M32⟩] ++ (if en > 0 then [⟨0, (l, 1), y % M32⟩] else []) ++
         (if en > 1 then [⟨0, (l, 2), z % M32⟩] else [])

/-- timing dispatcher: `if V5 {…; continue}` followed by the three separate writes -/
def timingInitV (v5 : Bool) (en first sx sy : Nat) : List Wr :=
  (List.range 64).flatMap fun l =>
    let x := wiX first sx sy l
    let y := wiY first sx sy l
    let z := wiZ first sx sy l
    if v5 then [⟨0, (l, 0), packV5 x y z⟩]
    else
      let a : List Wr := [⟨0, (l, 0), x % M32⟩]
      let b : List Wr := if en > 0 then [⟨0, (l, 1), y % M32⟩] else []
      let c : List Wr := if en > 1 then [⟨0, (l, 2), z % M32⟩] else []
      a ++ b ++ c

/-! ## driver -/

/-- pseudo-random byte of the memory image `seed` at address `a` (same function in the harness) -/
def memByte (seed a : Nat) : Nat :=
  let x := (a * 2654435761 + seed * 40503 + 12345) % M32
  let y := (x ^^^ (x / 65536)) * 73244475 % M32
  (y / 256) % 256

def dataWord (seed lane j : Nat) : Nat :=
  let x := (seed * 7919 + lane * 104729 + j * 1299709 + 17) % M32
  ((x ^^^ (x / 8192)) * 2246822519) % M32

def prefill (c : Nat × Nat) : Nat := (2684354560 + c.1 * 256 + c.2) % M32

def insertSorted (c : Nat × Nat) : List (Nat × Nat) → List (Nat × Nat)
  | [] => [c]
  | d :: ds => if c = d then d :: ds
               else if c.1 < d.1 ∨ (c.1 = d.1 ∧ c.2 < d.2) then c :: d :: ds
               else d :: insertSorted c ds

def cellsOf (ws : List Wr) : List (Nat × Nat) := ws.foldl (fun acc w => insertSorted w.cell acc) []

/-- final values of the written cells that differ from `init`, as `lane.reg=hex` -/
def deltaStr (ws : List Wr) (init : Nat × Nat → Nat) : String :=
  let parts := (cellsOf ws).filterMap fun c =>
    match lastW ws c with
    | some v => if v = init c then none else some s!"{c.1}.{c.2}={toHex v}"
    | none => none
  if parts.isEmpty then "-" else joinWith " " parts

/-- final bytes of the written addresses as runs `addr:hexbytes` -/
def runsStr (ws : List Wr) : String :=
  let cells := cellsOf ws
  let vals := cells.map fun c => (c.2, (lastW ws c).getD 0)
  let rec go : List (Nat × Nat) → Option (Nat × Nat × String) → List String → List String
    | [], none, out => out
    | [], some (s, _, h), out => s!"{toHex s}:{h}" :: out
    | (a, v) :: rest, none, out => go rest (some (a, a + 1, toHexPad 2 v)) out
    | (a, v) :: rest, some (s, e, h), out =>
      if a = e then go rest (some (s, e + 1, h ++ toHexPad 2 v)) out
      else go rest (some (a, a + 1, toHexPad 2 v)) (s!"{toHex s}:{h}" :: out)
  let l := (go vals none []).reverse
  if l.isEmpty then "-" else joinWith " " l

def pickOrd {α : Type} (l : List α) (idx : List Nat) : List α := idx.filterMap fun i => l[i]?

def hexList? (s : String) : Option (List Nat) :=
  if s = "" || s = "-" then some [] else (s.splitOn ",").mapM hexNat?

def mix (h v : Nat) : Nat := ((h ^^^ v) * 1099511628211) % M64

def bitsOf (n i : Nat) : Bool := n.testBit i

def sgprStr (ws : List Wr) : String :=
  joinWith "," ((List.range 24).map fun i => toHex ((lastW ws (0, i)).getD 0))

def vgprHash (ws : List Wr) : String :=
  toHex (((List.range 64).flatMap fun l => (List.range 3).map fun r => (l, r)).foldl
    (fun h c => mix h ((lastW ws c).getD 0)) 14695981039346656037)

def handleInit (t : List String) : String :=
  match kvNat? t "v5", kvHex? t "flags", kvHex? t "rsrc2", kvHex? t "pa", kvHex? t "ka",
        natList? ((kv? t "g").getD ""), natList? ((kv? t "w").getD ""), natList? ((kv? t "id").getD ""),
        kvNat? t "first", kvNat? t "sx", kvNat? t "sy" with
  | some v5, some fl, some r2, some pa, some ka, some [gx, gy, gz], some [wx, wy, wz], some [ix, iy, iz],
    some first, some sx, some sy =>
    let f : Flags := ⟨bitsOf fl 0, bitsOf fl 1, bitsOf fl 2, bitsOf fl 3, bitsOf fl 4, bitsOf fl 5, bitsOf fl 6,
      bitsOf fl 7, bitsOf fl 8, bitsOf fl 9, bitsOf r2 7, bitsOf r2 8, bitsOf r2 9⟩
    let a : Args := ⟨pa, ka, gx, gy, gz, wx, wy, wz, ix % M32, iy % M32, iz % M32⟩
    let en := r2 / 2048 % 4
    let es := emuInitS f a
    let ts := timingInitS f a
    let ev := emuInitV (v5 = 1) en first sx sy
    let tv := timingInitV (v5 = 1) en first sx sy
    s!"E s={sgprStr es} v={vgprHash ev} | T s={sgprStr ts} v={vgprHash tv}"
  | _, _, _, _, _, _, _, _, _, _, _ => "bad"

def laneAddr (exec : Nat) (vals : List Nat) (sa : Bool) (sbase imm : Nat) : Nat → Nat :=
  let lanes := (List.range 64).filter (fun i => exec.testBit i)
  let arr := (lanes.zip vals).toArray
  fun i => match arr.find? (fun p => p.1 = i) with
    | some p => effAddr sa sbase imm p.2
    | none => 0

def handleLd (t : List String) : String :=
  match kvNat? t "opc", kvNat? t "lg", kvHex? t "exec", kvNat? t "dst", kvNat? t "sa", kvHex? t "sbase",
        kvHex? t "imm", kvNat? t "seed", hexList? ((kv? t "a").getD ""), natList? ((kv? t "ord").getD "") with
  | some opc, some lg, some exec, some dst, some sa, some sbase, some imm, some seed, some vals, some ord =>
    match loadOp opc with
    | none => "bad"
    | some (k, cnt) =>
      let ls := 2 ^ lg
      let m := memByte seed
      let act := active exec (laneAddr exec vals (sa = 1) sbase imm)
      let accs := accesses act cnt
      let lines := loadLines ls accs
      let e := if emuHasLoad opc then deltaStr (emuLoadW k dst ls m accs) prefill else "unsupported"
      let txs := joinWith "," (lines.map fun ln => s!"{toHex ln}:{(txnLanes ls accs ln).length}")
      let tws := (pickOrd lines ord).flatMap fun ln => retW valOf k dst ls m ln (txnLanes ls accs ln)
      let tt := if loadStraddles k ls accs then "fault:bounds" else deltaStr tws prefill
      s!"E {e} | T txns={txs} {tt}"
  | _, _, _, _, _, _, _, _, _, _ => "bad"

def handleSt (t : List String) : String :=
  match kvNat? t "opc", kvNat? t "lg", kvHex? t "exec", kvNat? t "sa", kvHex? t "sbase",
        kvHex? t "imm", kvNat? t "seed", hexList? ((kv? t "a").getD ""), natList? ((kv? t "ord").getD "") with
  | some opc, some lg, some exec, some sa, some sbase, some imm, some seed, some vals, some ord =>
    match storeOp opc with
    | none => "bad"
    | some (bw, cnt) =>
      let ls := 2 ^ lg
      let act := active exec (laneAddr exec vals (sa = 1) sbase imm)
      let ws := storeW ls bw cnt act (dataWord seed)
      let lines := storeLines ls cnt act
      let e := runsStr ws
      let txs := joinWith "," (lines.map fun ln =>
        let r := ws.filter (fun w => w.key = ln)
        s!"{toHex ln}:{(cellsOf r).length}")
      let tws := (pickOrd lines ord).flatMap fun ln => ws.filter (fun w => w.key = ln)
      if storeStraddles ls bw cnt act then s!"E {e} | T fault:explicit"
      else s!"E {e} | T txns={txs} {runsStr tws}"
  | _, _, _, _, _, _, _, _, _ => "bad"

def sregStr (ws : List Wr) : String :=
  let cells := cellsOf ws
  if cells.isEmpty then "-" else
    joinWith " " (cells.map fun c => s!"s{c.2}={toHex ((lastW ws c).getD 0)}")

def handleSm (t : List String) : String :=
  match kvNat? t "opc", kvNat? t "lg", kvNat? t "sdst", kvHex? t "start", kvNat? t "seed",
        natList? ((kv? t "ord").getD "") with
  | some opc, some lg, some reg, some start0, some seed, some ord =>
    let ls := 2 ^ lg
    let m := memByte seed
    let start := smemAddr start0
    let e := match smemEmuBytes opc with
      | some n => sregStr (smemEmuW reg start n m)
      | none => "unsupported"
    let tt := match smemTimingBytes opc with
      | none => "unsupported"
      | some n =>
        let cs := chunks ls (n + 1) start n
        let cstr := joinWith "," (cs.map fun (c : Nat × Nat) => s!"{toHex c.1}:{c.2}")
        if smemFaults (pickOrd cs ord) then s!"chunks={cstr} fault:bounds"
        else s!"chunks={cstr} " ++ sregStr ((pickOrd cs ord).flatMap (chunkW reg start m))
    s!"E {e} | T {tt}"
  | _, _, _, _, _, _ => "bad"

/-- `cnt ns=2,3 ord=…` : issue the instructions, then return the transactions in the order given
    (indices into the issue order); output the counter and in-flight size after every response -/
def handleCnt (t : List String) : String :=
  match natList? ((kv? t "ns").getD ""), natList? ((kv? t "ord").getD "") with
  | some ns, some ord =>
    let s0 := crun (ns.map COp.issue) {}
    let r := ord.foldl (fun (acc : CSt × List String) id =>
      let s := cstep acc.1 (.ret id)
      (s, s!"{s.counter}/{s.inflight.length}" :: acc.2)) (s0, [s!"{s0.counter}/{s0.inflight.length}"])
    joinWith " " r.2.reverse
  | _, _ => "bad"

def handle (line : String) : String :=
  match words line with
  | "c02" :: "init" :: t => handleInit t
  | "c02" :: "ld" :: t => handleLd t
  | "c02" :: "st" :: t => handleSt t
  | "c02" :: "sm" :: t => handleSm t
  | "c02" :: "cnt" :: t => handleCnt t
  | "c02" :: "wf" :: t => Wf.handleWf t
  | "c02" :: "lds" :: t => Lds.handleLds t
  | "c02" :: "cfg" :: t => Cfg.handleCfg t
  | "c02" :: "bar" :: t => Bar.handleBar t
  | "c02" :: "l1" :: "cache" :: t => L1c.handle t
  | "c02" :: "l1" :: t => L1.handleL1 t
  | "c02" :: "txn" :: t => Txn.handleTxn t
  | "c02" :: "arb" :: t => Arb.handleArb t
  | _ => "bad"

end C02
