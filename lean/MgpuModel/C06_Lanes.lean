/-! # C06 — the skeleton every vector handler follows (`Lanes` model)

The Go handlers of both ALUs (`amd/emu/aluv*.go`, `aluds.go`, `alu_flat.go`, `amd/emu/cdna3/*.go`) all
have the shape

```go
exec := state.EXEC()
var vcc uint64                       // or: vcc := state.VCC()      (mask result, optional)
for i := 0; i < 64; i++ {
    if exec&(1<<uint(i)) == 0 { continue }
    … state.ReadOperand(inst.SrcK, i) …  carry := (oldVCC >> i) & 1 …  mem.Read(addr_i) …
    state.WriteOperand(inst.Dst, i, v)   vcc |= 1 << uint(i)          mem.Write(addr_i, data_i)
}
state.SetVCC(vcc)                    // or WriteOperand(inst.SDst, 0, sdst)
```

It is modelled *as the Go code runs it*: a sequential fold over the lanes on ONE mutable state, the body
skipped when the EXEC bit is clear. What the body may touch is captured by the types: it sees `LaneIn`
(its own VGPR row, its own bit of the mask source, memory) and returns `LaneOut` (writes to its own row,
its own result bit, the accesses it performs). The per-lane function `f` is a parameter, so every theorem
covers transcendental / 64-bit / float handlers for which no exact reference exists. Whether a real
handler *has* this shape is the regenerated obligation `all_vector_handlers_fit` (facts extracted from the
Go source on every run) plus the extensional check of tie H in `harness/c06.go`. -/
namespace C06

/-- what the body of lane `i` can see -/
structure LaneIn where
  /-- lane `i`'s own VGPR row: register index ↦ 32-bit value -/
  regs : Nat → Nat
  /-- bit `i` of the mask the handler reads (VCC / an SGPR pair: carry-in, `v_cndmask`, `v_div_fmas`) -/
  mbit : Bool
  /-- memory (FLAT) or LDS (DS) as this lane's load sees it, byte addressed -/
  mem : Nat → Nat

/-- what the body of lane `i` does -/
structure LaneOut where
  /-- `(register, value)` writes to lane `i`'s own VGPR row, in program order -/
  writes : List (Nat × Nat)
  /-- result bit for this lane (compare result, carry-out); ignored when the handler has no mask result -/
  bit : Bool
  /-- `(address, length)` read accesses this lane performs (`storageAccessor.Read`, `lds[a:a+n]`) -/
  loads : List (Nat × Nat)
  /-- `(address, byte)` byte stores this lane performs, in program order -/
  stores : List (Nat × Nat)

/-- how a handler produces its 64-bit mask result -/
inductive MaskMode where
  /-- no mask result (plain VOP1/2/3, DS, FLAT) -/
  | none
  /-- `var vcc uint64` (zero) … `vcc |= 1<<i` … `SetVCC(vcc)`: inactive lanes' bits become 0; a carry-in is
      read from the value the register had BEFORE the instruction (`oldVCC := state.VCC()`) -/
  | fresh
  /-- `vcc := state.VCC()` … `vcc |= 1<<i` / `vcc &^= 1<<i` … `SetVCC(vcc)`: inactive lanes' bits are kept;
      a carry-in is bit `i` of the SAME variable (CDNA3 `v_addc/v_subb` until they were repaired to
      `fresh`: the ISA writes 0 for inactive lanes) -/
  | inplace
deriving DecidableEq, Repr

/-- a vector handler: its per-lane body and the way the mask result is built. `υ` = uniform operands
    (SGPRs, literals, inline constants, instruction modifiers) read identically by every lane. -/
structure Handler (υ : Type) where
  f : υ → LaneIn → LaneOut
  mask : MaskMode

/-- one memory / LDS access as the harness's access log records it -/
structure Access where
  lane : Nat
  isWrite : Bool
  addr : Nat
  len : Nat
deriving DecidableEq, Repr

/-- architectural state a vector instruction works on -/
structure VState where
  /-- lane ↦ register ↦ value -/
  vgpr : Nat → Nat → Nat
  /-- mask source operand (VCC or the SGPR pair named by src2), one bit per lane; never written in the loop -/
  cin : Nat → Bool
  /-- mask destination (VCC / SDST pair), one bit per lane; the accumulator variable of the Go loop -/
  mout : Nat → Bool
  /-- byte memory (FLAT) or LDS (DS) -/
  mem : Nat → Nat
  /-- access log -/
  log : List Access

def writeCells (cells : Nat → Nat) (ws : List (Nat × Nat)) : Nat → Nat :=
  ws.foldl (fun c (w : Nat × Nat) => fun r => if r = w.1 then w.2 else c r) cells

/-- byte stores applied in order (later store to the same address wins) -/
def applyStores (m : Nat → Nat) (ws : List (Nat × Nat)) : Nat → Nat :=
  ws.foldl (fun c (w : Nat × Nat) => fun a => if a = w.1 then w.2 else c a) m

def accesses (i : Nat) (o : LaneOut) : List Access :=
  o.loads.map (fun a => ⟨i, false, a.1, a.2⟩) ++ o.stores.map (fun a => ⟨i, true, a.1, 1⟩)

/-- the view lane `i`'s body gets of the current state -/
def laneIn {υ} (h : Handler υ) (s : VState) (i : Nat) : LaneIn :=
  { regs := s.vgpr i
    mbit := (match h.mask with | .inplace => s.mout i | _ => s.cin i)
    mem := s.mem }

def laneOut {υ} (h : Handler υ) (u : υ) (s : VState) (i : Nat) : LaneOut := h.f u (laneIn h s i)

/-- the loop body for lane `i` on the current (mutable) state -/
def stepLane {υ} (h : Handler υ) (u : υ) (i : Nat) (s : VState) : VState :=
  let o := laneOut h u s i
  { vgpr := fun l => if l = i then writeCells (s.vgpr i) o.writes else s.vgpr l
    cin := s.cin
    mout := (match h.mask with
      | .none => s.mout
      | _ => fun l => if l = i then o.bit else s.mout l)
    mem := applyStores s.mem o.stores
    log := s.log ++ accesses i o }

/-- `for i := 0; i < n; i++ { if exec&(1<<i) == 0 { continue }; body }` -/
def seqLoop {υ} (h : Handler υ) (u : υ) (exec : Nat → Bool) : Nat → VState → VState
  | 0, s => s
  | n + 1, s =>
    let s' := seqLoop h u exec n s
    if exec n then stepLane h u n s' else s'

/-- what happens before the loop: `var vcc uint64` starts the accumulator at zero -/
def prologue {υ} (h : Handler υ) (s : VState) : VState :=
  match h.mask with
  | .fresh => { s with mout := fun _ => false }
  | _ => s

def vexecB {υ} (h : Handler υ) (u : υ) (exec : Nat → Bool) (s : VState) : VState :=
  seqLoop h u exec 64 (prologue h s)

/-- a vector instruction under a 64-bit EXEC mask -/
def vexec {υ} (h : Handler υ) (u : υ) (exec : BitVec 64) (s : VState) : VState :=
  vexecB h u (fun i => exec.getLsbD i) s

/-! ## The specification: every active lane independently applies its body to the ORIGINAL state -/

def activeStores {υ} (h : Handler υ) (u : υ) (exec : Nat → Bool) (n : Nat) (s : VState) : List (Nat × Nat) :=
  (List.range n).flatMap fun l => if exec l then (laneOut h u s l).stores else []

def activeAccesses {υ} (h : Handler υ) (u : υ) (exec : Nat → Bool) (n : Nat) (s : VState) : List Access :=
  (List.range n).flatMap fun l => if exec l then accesses l (laneOut h u s l) else []

def parMap {υ} (h : Handler υ) (u : υ) (exec : Nat → Bool) (n : Nat) (s : VState) : VState :=
  { vgpr := fun l => if l < n ∧ exec l = true then writeCells (s.vgpr l) (laneOut h u s l).writes else s.vgpr l
    cin := s.cin
    mout := (match h.mask with
      | .none => s.mout
      | _ => fun l => if l < n ∧ exec l = true then (laneOut h u s l).bit else s.mout l)
    mem := applyStores s.mem (activeStores h u exec n s)
    log := s.log ++ activeAccesses h u exec n s }

/-- A handler either only loads (its body performs no store, so memory is constant during the loop) or
    only stores (its body does not look at memory). Every implemented DS/FLAT opcode is one or the other;
    an atomic / read-modify-write DS op would be neither and is outside the skeleton. -/
def LoadOrStore {υ} (h : Handler υ) : Prop :=
  (∀ u a, (h.f u a).stores = []) ∨ (∀ u a m, h.f u { a with mem := m } = h.f u a)

/-- active lanes' store addresses are pairwise distinct -/
def ActiveAddrsDisjoint {υ} (h : Handler υ) (u : υ) (exec : Nat → Bool) (s : VState) : Prop :=
  ((activeStores h u exec 64 (prologue h s)).map (·.1)).Nodup

/-! ## Concrete handlers for the correspondence (`handle` in `C06.lean`) -/

def u32 (x : Nat) : Nat := x % 4294967296

/-- `v_add_co_u32 v2, vcc, v0, v1` (GCN3 `runVADDI32Regular`, CDNA3 `runVADDI32`): fresh VCC = carry -/
def hAdd : Handler Unit :=
  { f := fun _ a => { writes := [(2, u32 (a.regs 0 + a.regs 1))], bit := decide (a.regs 0 + a.regs 1 > 4294967295), loads := [], stores := [] }
    mask := .fresh }

/-- `v_addc_co_u32 v2, vcc, v0, v1, vcc`; both ALUs build a fresh VCC from `oldVCC` (CDNA3 updated in place
    before its repair; `hAddc .inplace` is that old behaviour).
    The carry-out is `src0 + src1 + carry > 0xFFFFFFFF` in both ALUs (the GCN3 handler used to compute
    `src0 > MaxUint32 - carry - src1` in `uint64`, which wrapped for `src1 = 0xffffffff` with carry-in 1;
    repaired by a `fix:` commit found by C03's vector module). -/
def hAddc (m : MaskMode) : Handler Unit :=
  { f := fun _ a =>
      let c := if a.mbit then 1 else 0
      { writes := [(2, u32 (a.regs 0 + a.regs 1 + c))], bit := decide (a.regs 0 + a.regs 1 + c > 4294967295),
        loads := [], stores := [] }
    mask := m }

/-- `v_cmp_lt_u32 vcc, v0, v1` -/
def hCmpLt : Handler Unit :=
  { f := fun _ a => { writes := [], bit := decide (a.regs 0 < a.regs 1), loads := [], stores := [] }
    mask := .fresh }

/-- `v_cndmask_b32 v2, v0, v1, vcc` -/
def hCndmask : Handler Unit :=
  { f := fun _ a => { writes := [(2, if a.mbit then a.regs 1 else a.regs 0)], bit := false, loads := [], stores := [] }
    mask := .none }

def le32 (x : Nat) : List Nat := [x % 256, x / 256 % 256, x / 65536 % 256, x / 16777216 % 256]

/-- `ds_write_b32 v0, v1 offset:off`: four byte stores at `v0 + off` -/
def hDsWrite : Handler Nat :=
  { f := fun off a =>
      let ad := u32 (a.regs 0 + off)
      { writes := [], bit := false, loads := [], stores := (le32 (a.regs 1)).zipIdx.map (fun (b, k) => (ad + k, b)) }
    mask := .none }

/-- `ds_read_b32 v2, v0 offset:off` -/
def hDsRead : Handler Nat :=
  { f := fun off a =>
      let ad := u32 (a.regs 0 + off)
      { writes := [(2, a.mem ad + 256 * a.mem (ad + 1) + 65536 * a.mem (ad + 2) + 16777216 * a.mem (ad + 3))]
        bit := false, loads := [(ad, 4)], stores := [] }
    mask := .none }

end C06
