import MgpuModel.C09_Res
/-! # C09 — dispatchers and the command processor's dispatch path

Hand transcription (tie H) of
* `dispatching.roundRobinAlgorithm` / `greedyAlgorithm` (`StartNewKernel`, `HasNext`, `Next`,
  `FreeResources`) over the shared `CUResourcePoolImpl`;
* `dispatching.DispatcherImpl` (`StartDispatching` incl. `mustBeAbleToPlaceWorkGroups` /
  `CUResourcePoolImpl.CheckWGFitsInACU` of the repair 91eb1bb3: a launch whose first work-group fits no
  CU even when the CU is empty panics — `fault:oversize`; `Tick`, `dispatchNextWG`, `kernelCompleted`,
  `completeKernel`, `processMessagesFromCU` — as repaired: a completion message that also carries
  work-groups of other dispatchers is consumed partially and the rest stays at the head of the
  port for its owners; the pinned code panicked here);
* `cp.CommandProcessor.Tick` (`tickDispatchers`, then `cpMiddleware.Handle` twice per tick:
  `processLaunchKernelReq` / `findAvailableDispatcher`).
The grid is one-dimensional (`gx` work-items in groups of `wx`; property C08 covers the grid
builder): work-group `i` has `⌈min(wx, gx − i·wx)/64⌉` wavefronts. Every `NextWG()` call creates a
fresh `*WorkGroup`; the model draws its key from `nextKey`. Akita ports are modelled by what the
dispatchers see of them: the number of free slots of the two outgoing buffers (`cuRoom`,
`drvRoom`, set by the environment) and the incoming FIFOs (`cuIn`, `drvIn`). -/
namespace C09
open Util

/-- `LaunchKernelReq` -/
structure Kern where
  id : Nat
  gx : Nat
  wx : Nat
  s : Nat
  v : Nat
  l : Nat
deriving Repr, DecidableEq

/-- `gridBuilderImpl.countWG` (1-D, no filter) -/
def Kern.numWG (k : Kern) : Nat := (k.gx - 1) / k.wx + 1

/-- number of wavefronts of work-group `i` -/
def Kern.nwfOf (k : Kern) (i : Nat) : Nat := (min k.wx (k.gx - i * k.wx) + 63) / 64

def Kern.dem (k : Kern) (i : Nat) : Dem := { nwf := k.nwfOf i, s := k.s, v := k.v, l := k.l }

/-- `dispatchLocation` (valid) -/
structure DLoc where
  cu : Nat
  key : Nat
  launch : Nat
  idx : Nat
  locs : List Loc
deriving Repr, DecidableEq

/-- `roundRobinAlgorithm` / `greedyAlgorithm` -/
structure Alg where
  kern : Option Kern
  pos : Nat
  currWG : Option (Nat × Nat)
  nextCU : Nat
  numDispatched : Nat
deriving Repr, DecidableEq

def Alg.numWG (a : Alg) : Nat := match a.kern with | some k => k.numWG | none => 0
def Alg.hasNext (a : Alg) : Bool := decide (a.numDispatched < a.numWG)

/-- `DispatcherImpl` -/
structure Disp where
  alg : Alg
  kern : Option Kern
  currWG : Option DLoc
  cycleLeft : Nat
  nd : Nat
  nc : Nat
  inflight : List (Nat × DLoc)
  first : Bool
  prev : Nat
deriving Repr, DecidableEq

structure Cfg where
  greedy : Bool
  klo : Nat
  ko : Nat
  sklo : Nat
  thr : Nat
deriving Repr, DecidableEq

inductive Ev where
  | map (req cu launch idx : Nat) (locs : List Loc)
  | rsp (launch : Nat)
deriving Repr, DecidableEq

structure CP where
  cfg : Cfg
  disps : List Disp
  pool : List CU
  drvIn : List Kern
  cuIn : List (List Nat)
  cuRoom : Nat
  drvRoom : Nat
  nextReq : Nat
  nextKey : Nat
  fault : Option String
  out : List Ev          -- events of the current op, newest first
  log : List Ev          -- ghost: every event so far, newest first
  done : List Nat := []  -- ghost: request ids whose completion was consumed by the owner, newest first
deriving Repr, DecidableEq

instance : Inhabited CU := ⟨{ wfFree := [], smask := Mask.unl 0, vmasks := [], lmask := Mask.unl 0, nextSIMD := 0, resident := [] }⟩
instance : Inhabited Alg := ⟨{ kern := none, pos := 0, currWG := none, nextCU := 0, numDispatched := 0 }⟩
instance : Inhabited Disp := ⟨{
  alg := default
  kern := none
  currWG := none
  cycleLeft := 0
  nd := 0
  nc := 0
  inflight := []
  first := false
  prev := 0 }⟩

def CP.disp (cp : CP) (i : Nat) : Disp := cp.disps.getD i default
def CP.setDisp (cp : CP) (i : Nat) (d : Disp) : CP := { cp with disps := cp.disps.set i d }
def CP.emit (cp : CP) (e : Ev) : CP := { cp with out := e :: cp.out, log := e :: cp.log }

inductive TryRes where
  | placed (cu : Nat) (locs : List Loc)
  | none
  | fault
deriving Repr, DecidableEq

/-- the `for i := 0; i < NumCU; i++` loop of `Next`: try the CUs in the given order -/
def tryCUs (key : Nat) (d : Dem) : List Nat → List CU → TryRes × List CU
  | [], pool => (.none, pool)
  | c :: cs, pool =>
    match reserve (pool.getD c default) key d with
    | (.ok locs, cu') => (.placed c locs, pool.set c cu')
    | (.twice, cu') => (.fault, pool.set c cu')
    | (.no, cu') => tryCUs key d cs (pool.set c cu')

/-- CU visiting order of `Next` -/
def cuOrder (greedy : Bool) (n nextCU : Nat) : List Nat :=
  if greedy then List.range n else (List.range n).map (fun i => (nextCU + i) % n)

/-- `algorithm.Next()` of dispatcher `i` (round-robin or greedy) -/
def algNext (cp : CP) (i : Nat) : CP × Option DLoc :=
  let d := cp.disp i
  let a := d.alg
  match a.kern with
  | none => (cp, none)
  | some k =>
    -- `if a.currWG == nil { a.currWG = a.gridBuilder.NextWG() }`
    let (wg, a1, nk) : (Nat × Nat) × Alg × Nat := match a.currWG with
      | some w => (w, a, cp.nextKey)
      | none => ((cp.nextKey, a.pos), { a with currWG := some (cp.nextKey, a.pos), pos := a.pos + 1 }, cp.nextKey + 1)
    let n := cp.pool.length
    let r := tryCUs wg.1 (k.dem wg.2) (cuOrder cp.cfg.greedy n a1.nextCU) cp.pool
    let cp1 := { cp with pool := r.2, nextKey := nk }
    match r.1 with
    | .placed c locs =>
      let a2 := { a1 with currWG := none, numDispatched := a1.numDispatched + 1,
                          nextCU := if cp.cfg.greedy then a1.nextCU else (c + 1) % n }
      (cp1.setDisp i { d with alg := a2 },
        some { cu := c, key := wg.1, launch := k.id, idx := wg.2, locs := locs })
    | .none => (cp1.setDisp i { d with alg := a1 }, none)
    | .fault => ({ cp1.setDisp i { d with alg := a1 } with fault := some "twice" }, none)

/-- `dispatchNextWG` -/
def dispatchNextWG (cp : CP) (i : Nat) : CP × Bool :=
  let d := cp.disp i
  let (cp1, cur) : CP × Option DLoc := match d.currWG with
    | some dl => (cp, some dl)
    | none =>
      if d.alg.hasNext then
        let r := algNext cp i
        (r.1.setDisp i { r.1.disp i with currWG := r.2 }, r.2)
      else (cp, none)
  match cur with
  | none => (cp1, false)
  | some dl =>
    if cp1.fault.isSome then (cp1, false) else
    if cp1.cuRoom = 0 then (cp1, false) else
    let d1 := cp1.disp i
    let id := cp1.nextReq
    let cp2 := ({ cp1 with cuRoom := cp1.cuRoom - 1, nextReq := id + 1 }).emit
                 (.map id dl.cu dl.launch dl.idx dl.locs)
    -- `d.cycleLeft = d.latencyTable[len(d.currWG.locations)]`: 17 zero entries
    let cp3 := cp2.setDisp i { d1 with currWG := none, nd := d1.nd + 1,
                                       inflight := (id, dl) :: d1.inflight, cycleLeft := 0 }
    if dl.locs.length > 16 then ({ cp3 with fault := some "bounds" }, true) else (cp3, true)

/-- the `for i := 0; i < 8; i++` dispatch loop of `Tick` -/
def dispatchLoop (i : Nat) : Nat → CP → CP × Bool
  | 0, cp => (cp, false)
  | n+1, cp =>
    let r := dispatchNextWG cp i
    if !r.2 || (r.1.disp i).cycleLeft > 0 || r.1.fault.isSome then r
    else ((dispatchLoop i n r.1).1, true)

/-- `kernelCompleted` -/
def kernelCompleted (d : Disp) : Bool :=
  d.currWG.isNone && !d.alg.hasNext && !(decide (d.nc < d.nd))

/-- `completeKernel` -/
def completeKernel (cp : CP) (i : Nat) : CP × Bool :=
  let d := cp.disp i
  match d.kern with
  | none => (cp, false)
  | some k =>
    if cp.drvRoom = 0 then (cp, false)
    else ((({ cp with drvRoom := cp.drvRoom - 1 }).emit (.rsp k.id)).setDisp i
            { d with kern := none, prev := d.nd }, true)

/-- one work-group of a completion message that belongs to dispatcher `i` -/
def completeOne (cp : CP) (i : Nat) (id : Nat) : CP :=
  let d := cp.disp i
  match d.inflight.find? (·.1 = id) with
  | none => cp
  | some (_, dl) =>
    let cp1 : CP := match free (cp.pool.getD dl.cu default) dl.key with
      | some cu' => { cp with pool := cp.pool.set dl.cu cu', done := id :: cp.done }
      | none => { cp with fault := some "notfound", done := id :: cp.done }
    let nc := d.nc + 1
    cp1.setDisp i { d with inflight := d.inflight.filter (·.1 ≠ id), nc := nc,
                           cycleLeft := if nc = d.alg.numWG then cp.cfg.ko else d.cycleLeft }

/-- the loop over `msg.RspTo`: own work-groups are completed, the others are kept -/
def consume (i : Nat) : List Nat → CP → CP × List Nat
  | [], cp => (cp, [])
  | id :: ids, cp =>
    if (cp.disp i).inflight.any (·.1 = id) then consume i ids (completeOne cp i id)
    else
      let r := consume i ids cp
      (r.1, id :: r.2)

/-- `processMessagesFromCU` (up to `fuel` = 8 messages) -/
def procMsgs (i : Nat) : Nat → CP → CP × Bool
  | 0, cp => (cp, false)
  | n+1, cp =>
    match cp.cuIn with
    | [] => (cp, false)
    | ids :: rest =>
      if !(ids.any fun id => (cp.disp i).inflight.any (·.1 = id)) then (cp, false)   -- count == 0
      else
        let r := consume i ids cp
        if r.1.fault.isSome then (r.1, true) else
        if r.2 = [] then ((procMsgs i n { r.1 with cuIn := rest }).1, true)
        else ({ r.1 with cuIn := r.2 :: rest }, true)

/-- `DispatcherImpl.Tick` -/
def dispTick (cp : CP) (i : Nat) : CP × Bool :=
  let d := cp.disp i
  if d.cycleLeft > 0 then (cp.setDisp i { d with cycleLeft := d.cycleLeft - 1 }, true)
  else
    let r1 : CP × Bool :=
      if d.kern.isSome then
        if kernelCompleted d then completeKernel cp i else dispatchLoop i 8 cp
      else (cp, false)
    if r1.1.fault.isSome then r1 else
    let r2 := procMsgs i 8 r1.1
    (r2.1, r1.2 || r2.2)

/-- `int(float64(sklo) * (float64(thr) / float64(prev)))` -/
def scaled (sklo thr prev : Nat) : Nat :=
  (Float.ofNat sklo * (Float.ofNat thr / Float.ofNat prev)).toUInt64.toNat

/-- `StartDispatching` -/
def startDispatching (cfg : Cfg) (d : Disp) (k : Kern) : Disp :=
  { d with
    alg := { d.alg with numDispatched := 0, kern := some k, pos := 0 },
    kern := some k,
    nd := 0,
    nc := 0,
    cycleLeft := if !d.first then cfg.klo
                 else if d.prev > 0 ∧ cfg.thr > 0 then scaled cfg.sklo cfg.thr d.prev else cfg.sklo,
    first := true }

/-- `findAvailableDispatcher` -/
def findAvailable (ds : List Disp) : Option Nat := ds.findIdx? (·.kern.isNone)

/-- `mustBeAbleToPlaceWorkGroups` / `CUResourcePoolImpl.CheckWGFitsInACU` (repair 91eb1bb3): the first
    work-group of the grid (`min(wx, gx)` work-items — never smaller than the others; an empty grid has
    no first work-group and is not checked) must fit at least one registered CU when that CU runs
    nothing else. With no CU registered nothing fits. -/
def launchFits (pool : List CU) (k : Kern) : Bool :=
  k.gx == 0 || pool.any (fun cu => fitsEmpty cu (k.dem 0))

/-- `cpMiddleware.Handle` for a launch request at the head of `ToDriver`. `StartDispatching` panics
    (`log.Panicf("%s cannot dispatch kernel %s: …")`, outcome `fault:oversize`) when the first work-group
    fits no CU — before `StartNewKernel`, before the request is retrieved from the port. (A faulted
    state is terminal; applying the function again to it changes nothing: `handleLaunch_fault_idem`.) -/
def handleLaunch (cp : CP) : CP × Bool :=
  match cp.drvIn with
  | [] => (cp, false)
  | k :: rest =>
    match findAvailable cp.disps with
    | none => (cp, false)
    | some i =>
      if !launchFits cp.pool k then ({ cp with fault := some "oversize" }, false) else
      (({ cp with drvIn := rest }).setDisp i (startDispatching cp.cfg (cp.disp i) k), true)

/-- the pinned code before the repair: no fit check, an oversize work-group is retried for ever -/
def handleLaunchOld (cp : CP) : CP × Bool :=
  match cp.drvIn with
  | [] => (cp, false)
  | k :: rest =>
    match findAvailable cp.disps with
    | none => (cp, false)
    | some i => (({ cp with drvIn := rest }).setDisp i (startDispatching cp.cfg (cp.disp i) k), true)

def tickDispatchers : List Nat → CP → CP × Bool
  | [], cp => (cp, false)
  | i :: is, cp =>
    if cp.fault.isSome then (cp, false) else
    let r := dispTick cp i
    let r' := tickDispatchers is r.1
    (r'.1, r.2 || r'.2)

/-- `CommandProcessor.Tick` -/
def cpTick (cp : CP) : CP × Bool :=
  let r1 := tickDispatchers (List.range cp.disps.length) cp
  if r1.1.fault.isSome then r1 else
  let r2 := handleLaunch r1.1
  let r3 := handleLaunch r2.1
  (r3.1, r1.2 || r2.2 || r3.2)

/-- `CommandProcessor.Tick` before the repair -/
def cpTickOld (cp : CP) : CP × Bool :=
  let r1 := tickDispatchers (List.range cp.disps.length) cp
  if r1.1.fault.isSome then r1 else
  let r2 := handleLaunchOld r1.1
  let r3 := handleLaunchOld r2.1
  (r3.1, r1.2 || r2.2 || r3.2)

/-! ## environment operations -/

inductive Op where
  | tick
  | launch (k : Kern)              -- a LaunchKernelReq is delivered to `ToDriver`
  | complete (ids : List Nat)      -- a WGCompletionMsg is delivered to `ToCUs`
  | cuRoom (n : Nat)               -- free slots of the `ToCUs` outgoing buffer become `n`
  | drvRoom (n : Nat)
deriving Repr, DecidableEq

def step (cp : CP) : Op → CP
  | .tick => (cpTick cp).1
  | .launch k => { cp with drvIn := cp.drvIn ++ [k] }
  | .complete ids => { cp with cuIn := cp.cuIn ++ [ids] }
  | .cuRoom n => { cp with cuRoom := n }
  | .drvRoom n => { cp with drvRoom := n }

def run (cp : CP) (ops : List Op) : CP := ops.foldl step cp

/-- one op / a run of the pinned code before the repair -/
def stepOld (cp : CP) : Op → CP
  | .tick => (cpTickOld cp).1
  | o => step cp o

def runOld (cp : CP) (ops : List Op) : CP := ops.foldl stepOld cp

def mkCP (cfg : Cfg) (nd : Nat) (pool : List CU) : CP :=
  { cfg := cfg, disps := List.replicate nd default, pool := pool, drvIn := [], cuIn := [],
    cuRoom := 4096, drvRoom := 4096, nextReq := 0, nextKey := 0, fault := none, out := [], log := [] }

end C09
