import MgpuModel.C13Core
/-!
# C13 — the metadata layouts field by field, in their declared widths

`C13.lean` reads the header with `Nat`-valued little-endian reads because that is what the
driver executes against the real loader.  This file gives the same data a *typed* form:
every field in the width `KernelCodeObjectMeta` declares (uint16/32/64, bool), the two
`compute_pgm_rsrc` words cut into the bit-fields the accessor methods of `hsaco.go` return,
and everything the loader skips as explicit "ignored" fields.  `encodeHeader`/`decodeHeader`
and `encodeKd`/`decodeKd` are total functions between the typed values and bytes; the
round-trip and injectivity theorems are in `MgpuProofs/Props/C13Deep.lean`.

Nothing here changes an answer of `C13.handle` on an existing case line; the accessor
functions are tied to the Go methods by the new `c13 acc` / `c13 kdacc` case lines.
-/
namespace C13

/-! ## `compute_pgm_rsrc1` / `compute_pgm_rsrc2` as bit-fields -/

/-- COMPUTE_PGM_RSRC1 as the loader slices it -/
structure Rsrc1 where
  /-- bits 0..5 (`WorkItemVgprCount`, granulated) -/
  vgprGran : BitVec 6
  /-- bits 6..9 (`WavefrontSgprCount`, granulated) -/
  sgprGran : BitVec 4
  /-- bits 10..11 (`Priority`) -/
  priority : BitVec 2
  /-- bits 12..31 (float modes, priv, dx10 clamp, debug, ieee, …): stored, no accessor -/
  upper : BitVec 20
  deriving DecidableEq, Repr

def Rsrc1.enc (f : Rsrc1) : BitVec 32 :=
  BitVec.ofNat 32 (f.vgprGran.toNat + 64 * f.sgprGran.toNat + 1024 * f.priority.toNat + 4096 * f.upper.toNat)

def Rsrc1.dec (w : BitVec 32) : Rsrc1 :=
  { vgprGran := w.extractLsb' 0 6, sgprGran := w.extractLsb' 6 4, priority := w.extractLsb' 10 2,
    upper := w.extractLsb' 12 20 }

/-- COMPUTE_PGM_RSRC2 as the loader slices it -/
structure Rsrc2 where
  /-- bit 0 (`EnableSgprPrivateSegmentWaveByteOffset`) -/
  privSegWaveOffset : Bool
  /-- bits 1..5 (`UserSgprCount`) -/
  userSgpr : BitVec 5
  /-- bit 6 (trap handler): stored, no accessor -/
  trapHandler : Bool
  /-- bit 7 -/
  wgIdX : Bool
  /-- bit 8 -/
  wgIdY : Bool
  /-- bit 9 -/
  wgIdZ : Bool
  /-- bit 10 -/
  wgInfo : Bool
  /-- bits 11..12 (`EnableVgprWorkItemID`) -/
  vgprWorkItemId : BitVec 2
  /-- bit 13 -/
  excAddrWatch : Bool
  /-- bit 14 -/
  excMemViol : Bool
  /-- bits 15..31 (LDS size, exception enables): stored, no accessor -/
  upper : BitVec 17
  deriving DecidableEq, Repr

def Rsrc2.enc (f : Rsrc2) : BitVec 32 :=
  BitVec.ofNat 32 (f.privSegWaveOffset.toNat + 2 * f.userSgpr.toNat + 64 * f.trapHandler.toNat +
    128 * f.wgIdX.toNat + 256 * f.wgIdY.toNat + 512 * f.wgIdZ.toNat + 1024 * f.wgInfo.toNat +
    2048 * f.vgprWorkItemId.toNat + 8192 * f.excAddrWatch.toNat + 16384 * f.excMemViol.toNat +
    32768 * f.upper.toNat)

def Rsrc2.dec (w : BitVec 32) : Rsrc2 :=
  { privSegWaveOffset := w.getLsbD 0, userSgpr := w.extractLsb' 1 5, trapHandler := w.getLsbD 6,
    wgIdX := w.getLsbD 7, wgIdY := w.getLsbD 8, wgIdZ := w.getLsbD 9, wgInfo := w.getLsbD 10,
    vgprWorkItemId := w.extractLsb' 11 2, excAddrWatch := w.getLsbD 13, excMemViol := w.getLsbD 14,
    upper := w.extractLsb' 15 17 }

/-- what `parseV5KernelDescriptor` does to rsrc2, said on the fields: bit 0 cleared,
user_sgpr_count := 2 when the kernel has arguments, workgroup id X and Y forced,
work-item id 0 raised to 1; everything else kept -/
def Rsrc2.norm (f : Rsrc2) (kernargPtr : Bool) : Rsrc2 :=
  { f with privSegWaveOffset := false
           userSgpr := if kernargPtr then 2#5 else f.userSgpr
           wgIdX := true
           wgIdY := true
           vgprWorkItemId := if f.vgprWorkItemId = 0#2 then 1#2 else f.vgprWorkItemId }

/-- the ten `enable_sgpr_*` bits of `kernel_code_properties` the V2/V3 path keeps -/
structure Enables where
  privSegBuf : Bool
  dispatchPtr : Bool
  queuePtr : Bool
  kernargPtr : Bool
  dispatchID : Bool
  flatScratch : Bool
  privSegSize : Bool
  gridX : Bool
  gridY : Bool
  gridZ : Bool
  deriving DecidableEq, Repr

/-! ## V2/V3 header (`amd_kernel_code_t`), typed -/

/-- every field `parseV2V3Header` keeps, in the width `KernelCodeObjectMeta` declares -/
structure HeaderV where
  cvMajor : BitVec 32
  cvMinor : BitVec 32
  machineKind : BitVec 16
  mvMajor : BitVec 16
  mvMinor : BitVec 16
  mvStepping : BitVec 16
  entry : BitVec 64
  rsrc1 : Rsrc1
  rsrc2 : Rsrc2
  en : Enables
  priv : BitVec 32
  lds : BitVec 32
  kernarg : BitVec 64
  wfSgpr : BitVec 16
  wiVgpr : BitVec 16
  deriving DecidableEq, Repr

/-- every byte of the header region `[0, 88)` that `parseV2V3Header` does not interpret,
plus whatever follows byte 88 -/
structure HdrIgnored where
  /-- bytes 24..31 kernel_code_prefetch_byte_offset -/
  prefetchOff : BitVec 64
  /-- bytes 32..39 kernel_code_prefetch_byte_size -/
  prefetchSize : BitVec 64
  /-- bytes 40..47 max_scratch_backing_memory_byte_size -/
  maxScratch : BitVec 64
  /-- bits 10..31 of the flags word at 56: the upper 6 bits of byte 57, bytes 58 and 59 -/
  propsHi : BitVec 22
  /-- bytes 68..71 gds_segment_byte_size -/
  gds : BitVec 32
  /-- bytes 80..83 workgroup_fbarrier_count -/
  barrier : BitVec 32
  /-- bytes 88.. : the rest of `amd_kernel_code_t` (88..255) and then the code -/
  tail : Bytes
  deriving DecidableEq, Repr

def HeaderV.toMeta (h : HeaderV) : Meta :=
  { cvMajor := h.cvMajor.toNat, cvMinor := h.cvMinor.toNat, machineKind := h.machineKind.toNat,
    mvMajor := h.mvMajor.toNat, mvMinor := h.mvMinor.toNat, mvStepping := h.mvStepping.toNat,
    entry := h.entry.toNat, rsrc1 := h.rsrc1.enc.toNat, rsrc2 := h.rsrc2.enc.toNat, rsrc3 := 0,
    enPrivSegBuf := h.en.privSegBuf, enDispatchPtr := h.en.dispatchPtr, enQueuePtr := h.en.queuePtr,
    enKernargPtr := h.en.kernargPtr, enDispatchID := h.en.dispatchID, enFlatScratch := h.en.flatScratch,
    enPrivSegSize := h.en.privSegSize, enGridX := h.en.gridX, enGridY := h.en.gridY, enGridZ := h.en.gridZ,
    priv := h.priv.toNat, lds := h.lds.toNat, kernarg := h.kernarg.toNat,
    wfSgpr := h.wfSgpr.toNat, wiVgpr := h.wiVgpr.toNat }

def HeaderV.ofMeta (m : Meta) : HeaderV :=
  { cvMajor := BitVec.ofNat 32 m.cvMajor, cvMinor := BitVec.ofNat 32 m.cvMinor,
    machineKind := BitVec.ofNat 16 m.machineKind, mvMajor := BitVec.ofNat 16 m.mvMajor,
    mvMinor := BitVec.ofNat 16 m.mvMinor, mvStepping := BitVec.ofNat 16 m.mvStepping,
    entry := BitVec.ofNat 64 m.entry, rsrc1 := Rsrc1.dec (BitVec.ofNat 32 m.rsrc1),
    rsrc2 := Rsrc2.dec (BitVec.ofNat 32 m.rsrc2),
    en := ⟨m.enPrivSegBuf, m.enDispatchPtr, m.enQueuePtr, m.enKernargPtr, m.enDispatchID, m.enFlatScratch,
      m.enPrivSegSize, m.enGridX, m.enGridY, m.enGridZ⟩,
    priv := BitVec.ofNat 32 m.priv, lds := BitVec.ofNat 32 m.lds, kernarg := BitVec.ofNat 64 m.kernarg,
    wfSgpr := BitVec.ofNat 16 m.wfSgpr, wiVgpr := BitVec.ofNat 16 m.wiVgpr }

/-- serialise: the typed header and the ignored fields, byte for byte (`renderHeader` is the
layout writer of `C13.lean`) -/
def encodeHeader (h : HeaderV) (g : HdrIgnored) : Bytes :=
  renderHeader h.toMeta g.prefetchOff.toNat g.prefetchSize.toNat g.maxScratch.toNat g.propsHi.toNat
    g.gds.toNat g.barrier.toNat g.tail

/-- parse: `parseV2V3Header` (the function the driver runs), typed; `none` = Go's slice panic -/
def decodeHeader (d : Bytes) : Option HeaderV := (parseV2V3Header? d).map HeaderV.ofMeta

/-- the bytes `decodeHeader` does not look at -/
def ignoredOfHeader (d : Bytes) : HdrIgnored :=
  { prefetchOff := BitVec.ofNat 64 (u64 d 24), prefetchSize := BitVec.ofNat 64 (u64 d 32),
    maxScratch := BitVec.ofNat 64 (u64 d 40), propsHi := BitVec.ofNat 22 (u32 d 56 / 1024),
    gds := BitVec.ofNat 32 (u32 d 68), barrier := BitVec.ofNat 32 (u32 d 80), tail := d.drop 88 }

/-- a typed header carries the signature `isV2V3Header` asks for -/
def HeaderV.genuine (h : HeaderV) : Prop :=
  h.cvMajor = 1#32 ∧ h.cvMinor.toNat ≤ 2 ∧ h.machineKind = 1#16 ∧ 7 ≤ h.mvMajor.toNat ∧ h.mvMajor.toNat ≤ 9 ∧
  h.entry = 256#64


/-! ## V5 kernel descriptor, typed, in the ABI layout (which the repaired loader reads) -/

/-- what `parseV5KernelDescriptor` reads: sizes @0/4/8, entry @16, compute_pgm_rsrc3 @44,
rsrc1 @48, rsrc2 @52 -/
structure KdV where
  lds : BitVec 32
  priv : BitVec 32
  kernarg : BitVec 32
  entry : BitVec 64
  rsrc3 : BitVec 32
  rsrc1 : Rsrc1
  rsrc2 : Rsrc2
  deriving DecidableEq, Repr

/-- the descriptor bytes the loader never reads: 12..15, 24..43, 56..63 -/
structure KdIgnored where
  reserved12 : BitVec 32
  reserved24 : BitVec 64
  reserved32 : BitVec 64
  reserved40 : BitVec 32
  /-- bytes 56..57: kernel_code_properties (the loader derives the enables itself) -/
  props : BitVec 16
  /-- bytes 58..59: kernarg_preload -/
  preload : BitVec 16
  reserved60 : BitVec 32
  deriving DecidableEq, Repr

/-- serialise with the ABI writer `renderKd` -/
def encodeKd (k : KdV) (g : KdIgnored) : Bytes :=
  renderKd { lds := k.lds.toNat, priv := k.priv.toNat, kernarg := k.kernarg.toNat, reserved12 := g.reserved12.toNat,
             entry := k.entry.toNat, reserved24 := g.reserved24.toNat, reserved32 := g.reserved32.toNat,
             reserved40 := g.reserved40.toNat, rsrc3 := k.rsrc3.toNat, rsrc1 := k.rsrc1.enc.toNat,
             rsrc2 := k.rsrc2.enc.toNat, props := g.props.toNat, preload := g.preload.toNat,
             reserved60 := g.reserved60.toNat }

/-- the metadata the loader derives from a typed descriptor -/
def KdV.derived (k : KdV) : Meta :=
  { lds := k.lds.toNat, priv := k.priv.toNat, kernarg := k.kernarg.toNat, entry := k.entry.toNat,
    rsrc3 := k.rsrc3.toNat, rsrc1 := k.rsrc1.enc.toNat,
    rsrc2 := (k.rsrc2.norm (decide (k.kernarg.toNat > 0))).enc.toNat,
    wiVgpr := (k.rsrc1.vgprGran.toNat + 1) * 4, wfSgpr := (k.rsrc1.sgprGran.toNat + 1) * 8,
    enKernargPtr := decide (k.kernarg.toNat > 0) }

/-- read the typed descriptor back out of loaded metadata (rsrc2 comes back normalised) -/
def KdV.ofMeta (m : Meta) : KdV :=
  { lds := BitVec.ofNat 32 m.lds, priv := BitVec.ofNat 32 m.priv, kernarg := BitVec.ofNat 32 m.kernarg,
    entry := BitVec.ofNat 64 m.entry, rsrc3 := BitVec.ofNat 32 m.rsrc3,
    rsrc1 := Rsrc1.dec (BitVec.ofNat 32 m.rsrc1), rsrc2 := Rsrc2.dec (BitVec.ofNat 32 m.rsrc2) }

def decodeKd (d : Bytes) : Option KdV := (parseV5KernelDescriptor? d).map KdV.ofMeta

def ignoredOfKd (d : Bytes) : KdIgnored :=
  { reserved12 := BitVec.ofNat 32 (u32 d 12), reserved24 := BitVec.ofNat 64 (u64 d 24),
    reserved32 := BitVec.ofNat 64 (u64 d 32), reserved40 := BitVec.ofNat 32 (u32 d 40),
    props := BitVec.ofNat 16 (u16 d 56), preload := BitVec.ofNat 16 (u16 d 58),
    reserved60 := BitVec.ofNat 32 (u32 d 60) }

/-! ## which bytes are interpreted -/

/-- header bytes `parseV2V3Header` reads in full; byte 57 is read only through its two low
bits (flag bits 8 and 9) -/
def hdrFullBytes : List Nat :=
  List.range' 0 24 ++ List.range' 48 9 ++ List.range' 60 8 ++ List.range' 72 8 ++ List.range' 84 4

/-- header bytes below 88 that are never interpreted (and the six upper bits of byte 57) -/
def hdrIgnoredBytes : List Nat := List.range' 24 24 ++ [58, 59] ++ List.range' 68 4 ++ List.range' 80 4

/-- descriptor bytes `parseV5KernelDescriptor` copies verbatim -/
def kdFullBytes : List Nat := List.range' 0 12 ++ List.range' 16 8 ++ List.range' 44 8

/-- descriptor bytes of the word that is rewritten (`fixRsrc2`) -/
def kdRewrittenBytes : List Nat := List.range' 52 4

/-- descriptor bytes never read -/
def kdIgnoredBytes : List Nat := List.range' 12 4 ++ List.range' 24 20 ++ List.range' 56 8

end C13
