import MgpuModel.C07
/-! # C07 — the specification: a wavefront's architectural registers as a flat record of cells

`Cells` knows nothing about byte arrays, offsets or lane strides. An access (`Acc`) names a register
kind, the operand's `RegCount` and a lane; `Acc.cells` lists the cells it denotes under the ISA
reading (multi-register operands are `s[n..n+k)` / `v[n..n+k)` of the lane, `vcc`/`exec` are the
pair (low half, high half)); `Cells.readBytes` / `Cells.writeBytes` read and replace exactly those. -/
namespace C07
open Gen

structure Cells where
  s : Nat → Nat            -- SGPR i (32-bit value)
  v : Nat → Nat → Nat      -- VGPR i of a lane: `v lane i`
  vcc : UInt64
  exec : UInt64
  scc : UInt8
  m0 : UInt32

/-- identity of one architectural cell -/
inductive CellId where
  | s (i : Nat)
  | v (lane i : Nat)
  | vccLo | vccHi | execLo | execHi
  | scc
  | m0
deriving DecidableEq, Repr

/-- the 64-bit register made of two 32-bit halves -/
def mk64 (lo hi : Nat) : UInt64 := UInt64.ofNat (lo % 4294967296 + 4294967296 * (hi % 4294967296))

/-- value of a cell (32-bit, `scc`: 8-bit) -/
def Cells.cell (c : Cells) : CellId → Nat
  | .s i => c.s i
  | .v l i => c.v l i
  | .vccLo => lo32 c.vcc
  | .vccHi => hi32 c.vcc
  | .execLo => lo32 c.exec
  | .execHi => hi32 c.exec
  | .scc => c.scc.toNat
  | .m0 => c.m0.toNat

/-- register kinds the stores implement -/
inductive Kind where
  | s (i : Nat) | v (i : Nat) | scc | m0 | vcc | vcclo | vcchi | exec | execlo | exechi
deriving DecidableEq, Repr

/-- the `insts.RegType` of a kind -/
def Kind.reg : Kind → Nat
  | .s i => R_S0 + i
  | .v i => R_V0 + i
  | .scc => R_SCC
  | .m0 => R_M0
  | .vcc => R_VCC
  | .vcclo => R_VCCLO
  | .vcchi => R_VCCHI
  | .exec => R_EXEC
  | .execlo => R_EXECLO
  | .exechi => R_EXECHI

/-- one operand access: register kind, `Operand.RegCount`, lane -/
structure Acc where
  k : Kind
  rc : Nat
  lane : Nat

/-- number of registers of an operand: `RegCount` 0 (the decoder's default) means one -/
def cnt (rc : Nat) : Nat := if rc = 0 then 1 else rc

/-- the supported subset, for a wavefront that owns `ns` SGPRs and `nv` VGPRs: up to 16 consecutive
    registers inside the allocation, lanes 0..63; the 32-bit names of a 64-bit register alone or
    (low name only) as the pair; everything else as one register -/
def Acc.Supported (a : Acc) (ns nv : Nat) : Prop :=
  match a.k with
  | .s i => a.rc ≤ 16 ∧ i + cnt a.rc ≤ ns
  | .v i => a.rc ≤ 16 ∧ i + cnt a.rc ≤ nv ∧ a.lane < 64
  | .vcclo | .execlo => a.rc ≤ 2
  | _ => a.rc ≤ 1

instance (a : Acc) (ns nv : Nat) : Decidable (a.Supported ns nv) := by
  unfold Acc.Supported; cases a.k <;> exact inferInstance

/-- the cells an access denotes, in operand order -/
def Acc.cells (a : Acc) : List CellId :=
  match a.k with
  | .s i => (List.range (cnt a.rc)).map fun j => .s (i + j)
  | .v i => (List.range (cnt a.rc)).map fun j => .v a.lane (i + j)
  | .scc => [.scc]
  | .m0 => [.m0]
  | .vcc => [.vccLo, .vccHi]
  | .vcclo => if a.rc = 2 then [.vccLo, .vccHi] else [.vccLo]
  | .vcchi => [.vccHi]
  | .exec => [.execLo, .execHi]
  | .execlo => if a.rc = 2 then [.execLo, .execHi] else [.execLo]
  | .exechi => [.execHi]

/-- width of a cell in bytes -/
def CellId.bytes : CellId → Nat
  | .scc => 1
  | _ => 4

/-- operand width in bytes -/
def Acc.width (a : Acc) : Nat := (a.cells.map CellId.bytes).sum

/-- `k` consecutive registers of `g` from `i`, as bytes -/
def regsBytes (g : Nat → Nat) (i k : Nat) : List UInt8 := (List.range k).flatMap fun j => toLE 4 (g (i + j))

/-- replace registers `i..i+k` of `g` by the dwords of `d` -/
def updRegs (g : Nat → Nat) (i k : Nat) (d : List UInt8) : Nat → Nat :=
  fun j => if i ≤ j ∧ j < i + k then leNat ((d.drop (4 * (j - i))).take 4) else g j

/-- the bytes an access reads -/
def Cells.readBytes (c : Cells) (a : Acc) : List UInt8 :=
  match a.k with
  | .s i => regsBytes c.s i (cnt a.rc)
  | .v i => regsBytes (c.v a.lane) i (cnt a.rc)
  | .scc => [c.scc]
  | .m0 => toLE 4 c.m0.toNat
  | .vcc => toLE 4 (lo32 c.vcc) ++ toLE 4 (hi32 c.vcc)
  | .vcclo => if a.rc = 2 then toLE 4 (lo32 c.vcc) ++ toLE 4 (hi32 c.vcc) else toLE 4 (lo32 c.vcc)
  | .vcchi => toLE 4 (hi32 c.vcc)
  | .exec => toLE 4 (lo32 c.exec) ++ toLE 4 (hi32 c.exec)
  | .execlo => if a.rc = 2 then toLE 4 (lo32 c.exec) ++ toLE 4 (hi32 c.exec) else toLE 4 (lo32 c.exec)
  | .exechi => toLE 4 (hi32 c.exec)

/-- the state after an access wrote the bytes `d` (`d.length = a.width`) -/
def Cells.writeBytes (c : Cells) (a : Acc) (d : List UInt8) : Cells :=
  match a.k with
  | .s i => { c with s := updRegs c.s i (cnt a.rc) d }
  | .v i => { c with v := fun l => if l = a.lane then updRegs (c.v l) i (cnt a.rc) d else c.v l }
  | .scc => { c with scc := d.headD 0 }
  | .m0 => { c with m0 := UInt32.ofNat (leNat d) }
  | .vcc => { c with vcc := mk64 (leNat (d.take 4)) (leNat (d.drop 4)) }
  | .vcclo =>
    if a.rc = 2 then { c with vcc := mk64 (leNat (d.take 4)) (leNat (d.drop 4)) }
    else { c with vcc := mk64 (leNat d) (hi32 c.vcc) }
  | .vcchi => { c with vcc := mk64 (lo32 c.vcc) (leNat d) }
  | .exec => { c with exec := mk64 (leNat (d.take 4)) (leNat (d.drop 4)) }
  | .execlo =>
    if a.rc = 2 then { c with exec := mk64 (leNat (d.take 4)) (leNat (d.drop 4)) }
    else { c with exec := mk64 (leNat d) (hi32 c.exec) }
  | .exechi => { c with exec := mk64 (lo32 c.exec) (leNat d) }

/-- `ReadOperand`: the first 64 bits, zero-extended -/
def Cells.read (c : Cells) (a : Acc) : Nat := leNat ((c.readBytes a).take 8)

/-- `WriteOperand` of a value (operands of at most 64 bits) -/
def Cells.write (c : Cells) (a : Acc) (v : Nat) : Cells := c.writeBytes a ((toLE 8 v).take a.width)

end C07
