import MgpuModel.Util
import MgpuModel.C12_Wake
import MgpuModel.C12_K
import MgpuModel.C12_Full
import MgpuModel.C12_Listeners
/-!
# C12 — command queues are FIFO and waiting on them terminates

Three models (core Lean only):

* `C12` (this namespace, top level): small-step interleaving model of the REPAIRED hand-off
  protocol of `amd/driver` — one application thread (`enqueue*; DrainCommandQueue`, several
  rounds), `runAsync`, `runEngine` — with program counters at the `verifYield` points.
  `Listener.signal` has capacity 1, `runEngine` re-runs when `enginePending` is set.
* `C12.Orig`: transcription of the protocol BEFORE the two `fix:` commits (unbuffered signal, no
  pending flag); only used for the `…_refuted_original` documentation theorems.
* `C12.Q`: sequential model of `Driver.processNewCommand` over several queues (head-of-queue
  processing, `IsRunning`), used for FIFO / one-at-a-time / isolation.
-/
namespace C12
open Util

/-! ## The repaired protocol -/

/-- application thread: `idle` = between API calls (harness gate `app.idle`), `sig` = parked at
    `drain.beforeSignal`, `sending` = blocked in `d.enqueueSignal <- true`, `chk` = parked at
    `drain.beforeCheck`, `toWait` = parked at `drain.beforeWait`, `waiting` = blocked in `<-l.signal`. -/
inductive APc | idle | sig | sending | chk | toWait | waiting
deriving DecidableEq, Repr
/-- `runAsync`: `idle` = blocked in its `select`, `tick` = parked at `async.afterRecv`,
    `chkFlag` = parked at `async.beforeFlag`. -/
inductive RPc | idle | tick | chkFlag
deriving DecidableEq, Repr
/-- `runEngine`: `none` = no engine goroutine, `start` = `engine.start`, `loop` = `SerialEngine.Run`
    about to test `noMoreEvent`, `deq` = inside the driver's tick event (holding `pauseLock`), `notify` =
    inside `Dequeue` after the removal, before `NotifyAllSubscribers`, `afterRun` = `engine.afterRun`,
    `clear` = about to take `engineRunningMutex`. -/
inductive EPc | none | start | loop | deq | notify | afterRun | clear
deriving DecidableEq, Repr

structure St where
  /-- queued command ids, head first (`CommandQueue.commands`) -/
  cmds : List Nat := []
  /-- script of the application thread: per Drain round, how many commands are still to be enqueued -/
  rounds : List Nat := []
  /-- ghost: next fresh command id -/
  nextId : Nat := 1
  /-- ghost: ids in submission order -/
  submitted : List Nat := []
  /-- ghost: ids in completion (dequeue) order -/
  completed : List Nat := []
  /-- ghost: number of DrainCommandQueue calls that returned -/
  returned : Nat := 0
  a : APc := .idle
  r : RPc := .idle
  e : EPc := .none
  /-- the application thread's listener is in `q.listeners` -/
  subscribed : Bool := false
  /-- one notification buffered in `listener.signal` (capacity 1) -/
  token : Bool := false
  /-- a tick event of the driver is in the engine's event queue (or being handled and made progress) -/
  evt : Bool := false
  /-- `Driver.engineRunning` -/
  running : Bool := false
  /-- `Driver.enginePending` -/
  pend : Bool := false
deriving DecidableEq, Repr

inductive Th | app | async | eng
deriving DecidableEq, Repr

/-- one atomic step of thread `t`; `none` = the thread is blocked (or does not exist) -/
def step (s : St) : Th → Option St
  | .app => match s.a with
    | .idle => match s.rounds with
      | [] => none
      | 0 :: ks =>          -- DrainCommandQueue: Subscribe (fresh listener, empty channel)
        some { s with a := .sig, rounds := ks, subscribed := true, token := false }
      | (k + 1) :: ks =>    -- Enqueue one command (no listener is subscribed: nothing to notify)
        some { s with rounds := k :: ks, cmds := s.cmds ++ [s.nextId], submitted := s.submitted ++ [s.nextId],
                      nextId := s.nextId + 1 }
    | .sig =>               -- `d.enqueueSignal <- true` (unbuffered: rendezvous with runAsync's select)
      if s.r = .idle then some { s with a := .chk, r := .tick } else some { s with a := .sending }
    | .sending => none
    | .chk =>               -- `q.NumCommand() == 0` → return (deferred Unsubscribe)
      if s.cmds = [] then some { s with a := .idle, subscribed := false, token := false, returned := s.returned + 1 }
      else some { s with a := .toWait }
    | .toWait =>            -- `<-l.signal`
      if s.token then some { s with a := .chk, token := false } else some { s with a := .waiting }
    | .waiting => none
  | .async => match s.r with
    | .idle => none
    | .tick =>              -- Engine.Pause(); TickLater(); Engine.Continue() — Pause blocks while an event is handled
      if s.e = .deq ∨ s.e = .notify then none else some { s with r := .chkFlag, evt := true }
    | .chkFlag =>           -- flag test under engineRunningMutex, then back to the select
      let s1 : St := if s.running then { s with pend := true } else { s with running := true, e := .start }
      if s.a = .sending then some { s1 with r := .tick, a := .chk }   -- a sender is already waiting
      else some { s1 with r := .idle }
  | .eng => match s.e with
    | .none => none
    | .start => some { s with e := .loop }
    | .loop => if s.evt then some { s with e := .deq } else some { s with e := .afterRun }
    | .deq => match s.cmds with
      | [] => some { s with e := .loop, evt := false }     -- tick without progress: no new tick scheduled
      | c :: cs => some { s with e := .notify, cmds := cs, completed := s.completed ++ [c] }
    | .notify =>            -- `select { case l.signal <- true: default: }` for the subscribed listener
      if s.subscribed then
        if s.a = .waiting then some { s with e := .loop, a := .chk }   -- direct hand-off to the blocked receiver
        else some { s with e := .loop, token := true }                 -- buffered (or dropped if already full)
      else some { s with e := .loop }
    | .afterRun => some { s with e := .clear }
    | .clear => if s.pend then some { s with e := .loop, pend := false }
                else some { s with e := .none, running := false }

def init (rounds : List Nat) : St := { rounds := rounds }

def finished (s : St) : Prop := s.a = .idle ∧ s.rounds = []
instance (s : St) : Decidable (finished s) := by unfold finished; exact inferInstance
def stuck (s : St) : Prop := ∀ t, step s t = none
/-- the application thread is blocked inside DrainCommandQueue (or has not finished its script) -/
def appBlocked (s : St) : Prop := s.a = .waiting ∨ s.a = .sending

def runSched (s : St) : List Th → Option St
  | [] => some s
  | t :: ts => match step s t with
    | none => none
    | some s' => runSched s' ts

/-- reachable from an initial state -/
inductive Reach : St → Prop
  | init (rounds : List Nat) : Reach (init rounds)
  | step {s s' : St} (t : Th) : Reach s → step s t = some s' → Reach s'

/-! ### gate-level view used by the correspondence harness
The harness parks goroutines only at the yield points; the engine pcs `loop`, `notify`, `clear`
are not park points, so one harness move of the engine is `step` iterated until the next park point
(a thin wrapper around `step`). -/

def parkedPc (s : St) : Th → Bool
  | .eng => s.e = .none || s.e = .start || s.e = .deq || s.e = .afterRun
  | _ => true

def settle : Nat → St → Th → St
  | 0, s, _ => s
  | n + 1, s, t => if parkedPc s t then s else
      match step s t with
      | none => s
      | some s' => settle n s' t

def macroStep (s : St) (t : Th) : Option St :=
  match step s t with
  | none => none
  | some s' => some (settle 8 s' t)

def apcName : APc → String
  | .idle => "idle" | .sig => "sig" | .sending => "sending" | .chk => "chk" | .toWait => "toWait" | .waiting => "waiting"
def rpcName : RPc → String
  | .idle => "idle" | .tick => "tick" | .chkFlag => "chkFlag"
def epcName : EPc → String
  | .none => "none" | .start => "start" | .loop => "loop" | .deq => "deq" | .notify => "notify"
  | .afterRun => "afterRun" | .clear => "clear"

def b01 (b : Bool) : String := if b then "1" else "0"

def showSt (s : St) : String :=
  s!"{apcName s.a}.{rpcName s.r}.{epcName s.e}:{joinWith "," (s.cmds.map toString)}:{b01 s.token}:{b01 s.running}{b01 s.pend}:{s.returned}"

def parseTh : String → Option Th
  | "a" => some .app | "r" => some .async | "e" => some .eng | _ => none

/-- run a gate-level schedule; a step of a blocked thread prints `-` and leaves the state unchanged -/
def runTrace (s : St) : List String → List String → List String
  | [], acc => acc.reverse
  | w :: ws, acc =>
    match parseTh w with
    | none => ("bad" :: acc).reverse
    | some t =>
      match macroStep s t with
      | none => runTrace s ws ("-" :: acc)
      | some s' => runTrace s' ws (showSt s' :: acc)

/-! ## The protocol before the two fixes (documentation only) -/
namespace Orig

inductive APc | sub | sig | chk | toWait | waiting | done deriving DecidableEq, Repr
inductive RPc | idle | tick | chkFlag deriving DecidableEq, Repr
inductive EPc | none | start | loop | deq | notify | afterRun | clear deriving DecidableEq, Repr

structure St where
  cmds : Nat
  rounds : List Nat
  a : APc := .sub
  r : RPc := .idle
  e : EPc := .none
  subscribed : Bool := false
  evt : Bool := false
  running : Bool := false
deriving DecidableEq, Repr

inductive Th | app | async | eng deriving DecidableEq, Repr

/-- unbuffered `Listener.signal` (a Notify only succeeds against a receiver already blocked in Wait),
    no pending flag: `runAsync` just `continue`s when `engineRunning` is set. -/
def step (s : St) : Th → Option St
  | .app => match s.a with
    | .sub => some { s with a := .sig, subscribed := true }
    | .sig => if s.r = .idle then some { s with a := .chk, r := .tick } else none
    | .chk => if s.cmds = 0 then some { s with a := .done, subscribed := false } else some { s with a := .toWait }
    | .toWait => some { s with a := .waiting }          -- enters `<-l.signal`
    | .waiting => none                                   -- only a Notify can move it
    | .done => match s.rounds with
      | [] => none
      | k :: ks => some { s with a := .sub, rounds := ks, cmds := s.cmds + k }
  | .async => match s.r with
    | .idle => none
    | .tick => some { s with r := .chkFlag, evt := true }
    | .chkFlag => if s.running then some { s with r := .idle }
                  else some { s with r := .idle, running := true, e := .start }
  | .eng => match s.e with
    | .none => none
    | .start => some { s with e := .loop }
    | .loop => if s.evt then some { s with e := .deq } else some { s with e := .afterRun }
    | .deq => if s.cmds = 0 then some { s with e := .loop, evt := false }
              else some { s with e := .notify, cmds := s.cmds - 1 }
    | .notify => if s.subscribed && s.a == .waiting then some { s with e := .loop, a := .chk }
                 else some { s with e := .loop }        -- `select { … default: }` drops it
    | .afterRun => some { s with e := .clear }
    | .clear => some { s with e := .none, running := false }

def stuck (s : St) : Bool := (step s .app).isNone && (step s .async).isNone && (step s .eng).isNone
def finished (s : St) : Bool := s.a == .done && s.rounds.isEmpty

def runSched (s : St) : List Th → Option St
  | [] => some s
  | t :: ts => match step s t with
    | none => none
    | some s' => runSched s' ts

open _root_.C12.Orig.Th in
/-- (1) the notification of the last Dequeue lands between the emptiness check and Wait -/
def lostNotify : List Th :=
  [app, app, async, async,        -- subscribe, signal; runAsync schedules a tick and starts the engine
   app,                           -- NumCommand() = 1 ≠ 0
   eng, eng, eng, eng,            -- engine: start, loop, Dequeue, Notify (nobody is waiting yet → dropped)
   app,                           -- now blocks in Wait
   eng, eng, eng, eng, eng]       -- engine finds no more work and exits

open _root_.C12.Orig.Th in
/-- (2) Engine.Run has returned but engineRunning is still true when the next drain signals -/
def engineExitRace : List Th :=
  [app, app, async, async, app,            -- round 1: subscribe, signal, tick scheduled, engine started, check (1 cmd)
   app,                                    -- block in Wait
   eng, eng, eng, eng,                     -- start, loop, Dequeue, Notify → app woken
   app,                                    -- check: 0 commands → round 1 drain returns
   eng, eng, eng,                          -- loop, tick without progress, loop → Run() returns (afterRun)
   app, app, app, async,                   -- round 2: enqueue 1, subscribe, signal; runAsync schedules the tick
   async,                                  -- … and sees engineRunning == true → does not start an engine
   eng, eng,                               -- runEngine clears the flag and exits
   app, app]                               -- check (1 cmd), block in Wait forever

end Orig

/-! ## Head-of-queue processing over several queues (`Driver.processNewCommand`) -/
namespace Q

/-- command kinds: `noop` completes inside the tick that starts it; `kern` sets `IsRunning` and
    completes when its response arrives. -/
inductive Kind | noop | kern deriving DecidableEq, Repr

structure Cmd where
  id : Nat
  kind : Kind
deriving DecidableEq, Repr

structure Queue where
  cmds : List Cmd := []
  /-- `CommandQueue.IsRunning` -/
  running : Bool := false
  /-- ghost: ids in submission order -/
  sub : List Nat := []
  /-- ghost: ids in the order their processing started (`logCmdStart`) -/
  started : List Nat := []
  /-- ghost: ids in the order they were dequeued (completed) -/
  done : List Nat := []
deriving DecidableEq, Repr

structure St where
  /-- all queues of all contexts, in the iteration order of `processNewCommand` -/
  qs : List Queue := []
  nextId : Nat := 1
deriving DecidableEq, Repr

inductive Op
  | enq (q : Nat) (k : Kind)
  | tick                 -- one `processNewCommand` pass over all queues
  | rsp (q : Nat)        -- the LaunchKernelRsp of queue q's running head is processed (`processLaunchKernelReturn`)
deriving DecidableEq, Repr

def init (n : Nat) : St := { qs := List.replicate n {} }

def enqQueue (id : Nat) (k : Kind) (q : Queue) : Queue :=
  { q with cmds := q.cmds ++ [⟨id, k⟩], sub := q.sub ++ [id] }

/-- `processNewCommandFromCmdQueue` -/
def procQueue (q : Queue) : Queue :=
  match q.cmds with
  | [] => q
  | c :: cs =>
    if q.running then q
    else match c.kind with
      | .noop => { q with cmds := cs, started := q.started ++ [c.id], done := q.done ++ [c.id] }
      | .kern => { q with running := true, started := q.started ++ [c.id] }

/-- `processLaunchKernelReturn` for the head of the queue -/
def rspQueue (q : Queue) : Queue :=
  match q.cmds with
  | [] => q
  | c :: cs => if q.running then { q with cmds := cs, running := false, done := q.done ++ [c.id] } else q

/-- apply `f` to the queue number `i` (no-op when there is no such queue) -/
def updAt (f : Queue → Queue) : Nat → List Queue → List Queue
  | _, [] => []
  | 0, q :: qs => f q :: qs
  | i + 1, q :: qs => q :: updAt f i qs

def step (s : St) : Op → St
  | .enq i k => if i < s.qs.length then { qs := updAt (enqQueue s.nextId k) i s.qs, nextId := s.nextId + 1 } else s
  | .tick => { s with qs := s.qs.map procQueue }
  | .rsp i => { s with qs := updAt rspQueue i s.qs }

def run (s : St) (ops : List Op) : St := ops.foldl step s

def showIds (l : List Nat) : String := joinWith "," (l.map toString)

def showQ (q : Queue) : String :=
  showIds (q.cmds.map (·.id)) ++ (if q.running then "*" else "") ++ "/" ++ showIds q.started ++ "/" ++ showIds q.done

def parseOp (w : String) : Option Op :=
  match w.splitOn ":" with
  | ["n", q] => q.toNat?.map fun q => .enq q .noop
  | ["k", q] => q.toNat?.map fun q => .enq q .kern
  | ["t"] => some .tick
  | ["r", q] => q.toNat?.map .rsp
  | _ => none

end Q

/-! ## Sync skeletons the models were written against (tie R) -/

def expectedSkeleton : String → String
  | "CommandQueue.Subscribe" => "make(closeSignal,0) make(signal,1) lock(listenerMutex) unlock(listenerMutex) return"
  | "CommandQueue.Unsubscribe" => "call(Close) lock(listenerMutex) defer-unlock(listenerMutex) for{ if(l==listener){ return } } panic"
  | "CommandQueue.NotifyAllSubscribers" => "lock(listenerMutex) defer-unlock(listenerMutex) for{ call(Notify) }"
  | "CommandQueue.Enqueue" => "lock(commandsMutex) unlock(commandsMutex) call(NotifyAllSubscribers)"
  | "CommandQueue.Dequeue" => "yield(queue.dequeue) lock(commandsMutex) unlock(commandsMutex) call(NotifyAllSubscribers) return"
  | "CommandQueue.NumCommand" => "lock(commandsMutex) unlock(commandsMutex) return"
  | "CommandQueueStatusListener.Notify" => "select{ recv(closeSignal) | send(signal) | default } yield(listener.afterNotify)"
  | "CommandQueueStatusListener.Wait" => "recv(signal)"
  | "CommandQueueStatusListener.Close" => "close(closeSignal)"
  | "Driver.Enqueue" => "call(Enqueue)"
  | "Driver.DrainCommandQueue" => "call(Subscribe) defer-call(Unsubscribe) yield(drain.beforeSignal) send(enqueueSignal) yield(drain.afterSignal) for{ yield(drain.beforeCheck) if(q.NumCommand()==0){ call(NumCommand) return } yield(drain.beforeWait) call(Wait) yield(drain.afterWait) }"
  | "Driver.Run" => "go(runAsync)"
  | "Driver.runAsync" => "for{ select{ recv(driverStopped) return | recv(enqueueSignal) yield(async.afterRecv) call(Pause) call(TickLater) call(Continue) yield(async.beforeFlag) lock(engineRunningMutex) if(d.engineRunning){ set(enginePending=true) unlock(engineRunningMutex) continue } set(engineRunning=true) go(runEngine) unlock(engineRunningMutex) } }"
  | "Driver.runEngine" => "defer-func yield(engine.start) lock(engineMutex) defer-unlock(engineMutex) for{ call(Run) if(err!=nil){ panic } yield(engine.afterRun) lock(engineRunningMutex) if(!d.enginePending){ set(engineRunning=false) unlock(engineRunningMutex) yield(engine.exit) return } set(enginePending=false) unlock(engineRunningMutex) }"
  | "Driver.processNewCommandFromCmdQueue" => "if(q.NumCommand()==0){ call(NumCommand) return } if(q.IsRunning){ return } call(processOneCommand) return"
  | "Driver.processNoopCommand" => "call(Dequeue) return"
  | "Builder.Build" => "make(enqueueSignal,0) make(driverStopped,0) return"
  | "SerialEngine.Run" => "lock(singleRunLock) defer-unlock(singleRunLock) for{ if(e.noMoreEvent()){ call(noMoreEvent) return } lock(pauseLock) call(nextEvent) if(evt.Time()<now){ panic } call(Handle) unlock(pauseLock) }"
  | "SerialEngine.Pause" => "lock(isPausedLock) defer-unlock(isPausedLock) if(e.isPaused){ return } lock(pauseLock) set(isPaused=true)"
  | "SerialEngine.Continue" => "lock(isPausedLock) defer-unlock(isPausedLock) if(!e.isPaused){ return } unlock(pauseLock) set(isPaused=false)"
  | "TickingComponent.Handle" => "call(Tick) if(madeProgress){ call(TickLater) } return"
  | _ => "unknown-function"

def handle (line : String) : String :=
  let segs := splitTrim line ";"
  match segs with
  | [] => "bad"
  | first :: rest =>
    let t := words first
    match t with
    | ["c12", "skeleton", fn] => expectedSkeleton fn
    | "c12" :: "sched" :: _ =>
      match (kv? t "rounds").bind (natList? ·) with
      | some rounds => joinWith " " (runTrace (init rounds) (rest.flatMap words) [])
      | none => "bad"
    | "c12" :: "ksched" :: _ =>
      match (kv? t "rounds").bind (natList? ·) with
      | some rounds => joinWith " " (K.runTrace1 (K.init [K.script1 rounds] 1) (rest.flatMap words) [])
      | none => "bad"
    | "c12" :: "ksched2" :: _ =>
      match kvNat? t "nq", (kv? t "scripts").bind K.parseScriptsK with
      | some nq, some scripts => joinWith " " (K.runTraceK (K.initK scripts nq) (rest.flatMap words) [])
      | _, _ => "bad"
    | "c12" :: "full" :: _ => W.Full.handleLine t rest
    | "c12" :: "listeners" :: _ => L.handleLine rest
    | "c12" :: "wake" :: _ =>
      match kvNat? t "nq", (rest.flatMap words).mapM W.Drv.parseOp with
      | some nq, some ops => W.Drv.handleWake nq ((kv? t "fresh") == some "true") ops
      | _, _ => "bad"
    | "c12" :: "q" :: _ =>
      match kvNat? t "n" with
      | some n =>
        match (rest.flatMap words).mapM Q.parseOp with
        | some ops =>
          let s := Q.run (Q.init n) ops
          joinWith " | " (s.qs.map Q.showQ)
        | none => "bad"
      | none => "bad"
    | _ => "bad"

end C12
