import MgpuModel.C14
import MgpuModel.C14_Vmu
import MgpuModel.C15_Sys
/-! # C14 — the vector memory path composed: scheduler counters ∥ vector memory unit ∥ reorder buffer ∥ any memory

`waitcnt_tracks_truth` (`Props/C14.lean`) has the hypothesis `inOrderRun`: every response belongs to
the oldest outstanding instruction of its wavefront and an instruction's last transaction is
answered last. This file builds the machine in which that hypothesis is a *consequence*:

* `g`   — the scheduler with its ghost queues (`C14.gstep`, unchanged),
* `vmu` — the repaired vector memory unit (`C14.Vmu`, unchanged: `issue`, `cycle`, `take`),
* `sys` — the reorder buffer in its closed system (`C15.sysStep`, unchanged): the ROB model, an
  arbitrary lower memory that answers every forwarded request at most once, in any order, at any
  time,
* the connection `ToVectorMem → ROB.Top`: the head of the unit's port buffer is offered to the ROB
  and leaves the port only when the ROB's Top port admits it (`conn`),
* the return path: the compute unit takes the head response of the ROB's Top port and runs the
  return handler for the transaction the response names (`ret`).

Ghosts (read by no component): `table` — for every transaction ever created (index = the unit's
creation index = the id the ROB's Top port gives the request, proved) its wavefront, kind,
instruction and last flag; `oi i` — the identities of the outstanding FLAT instructions of wavefront
`i`, parallel to the ghost queue `(g.g i).qv`; `adm` — which transaction the `k`-th request admitted
by the ROB carried; `log` — the annotated events the scheduler saw.

The annotation of a response (`k` = position of its instruction among the outstanding ones) is
COMPUTED from the identity of the transaction the ROB's response names (`idxOf ins (oi wf)`), it is
not assumed to be 0. -/
namespace C14

/-- the part of `inOrder` that `waitcnt_tracks_truth` really needs: the response of an instruction's
    LAST transaction arrives after the responses of its other transactions. Nothing is required
    about the order of responses that belong to different instructions. -/
def lastLast (gs : GState) : GOp → Bool
  | .memRet i kind k last =>
    !last || match (pathQueue (gs.g i) kind)[k]? with
      | none => false
      | some a => a.rest == 0
  | _ => true

def lastLastRun (c : Cfg) : GState → List GOp → Bool
  | _, [] => true
  | gs, o :: ops => lastLast gs o && lastLastRun c (gstep c gs o) ops

end C14

namespace C14.Chain
open C14

/-- ghost record of one transaction -/
structure Txn where
  wf : Nat
  /-- 0 = FLAT load, 1 = FLAT store -/
  kind : Nat
  /-- identity of the instruction: creation index of its first transaction -/
  ins : Nat
  /-- not flagged `CanWaitForCoalesce` -/
  last : Bool
deriving Repr, DecidableEq

structure CSys where
  g : GState
  vmu : Vmu.St
  sys : C15.Sys
  table : List Txn
  /-- ghost: the transaction (creation index) behind the `k`-th request the ROB's Top port admitted -/
  adm : List Nat
  oi : Nat → List Nat
  log : List GOp

/-- events of the composed machine -/
inductive CEv where
  /-- any scheduler-level event that is not a FLAT issue / FLAT return: evaluation rounds, issue of
      other instructions, the scalar memory path (annotated), draining … -/
  | other (o : GOp)
  /-- wavefront `i` executes a FLAT load (`store = false`) / store of `n + 1` transactions with
      coalescing penalty `p`: counters ++ (`memIssue`), the transactions wait in the unit -/
  | flat (i : Nat) (store : Bool) (n p : Nat)
  /-- one cycle of `VectorMemoryUnit.Run` -/
  | vcyc
  /-- the connection offers the head of `ToVectorMem` (a request with these fields) to the ROB -/
  | conn (q : C15.ReqIn)
  /-- the ROB ticks -/
  | robTick
  /-- the lower memory takes a forwarded request -/
  | memTake
  /-- the lower memory answers its `j`-th outstanding request with payload `p` -/
  | memAnswer (j : Nat) (p : C15.Rsp)
  /-- the compute unit takes the head response of the ROB's Top port: return handler -/
  | ret
deriving Repr

def kindOf (store : Bool) : Nat := if store then 1 else 0

/-- the transactions of one instruction: `n` flagged `CanWaitForCoalesce`, then the last one -/
def newTxns (i kind ins n : Nat) : List Txn :=
  List.replicate n ⟨i, kind, ins, false⟩ ++ [⟨i, kind, ins, true⟩]

def upd (f : Nat → List Nat) (i : Nat) (v : List Nat) : Nat → List Nat := fun j => if j = i then v else f j

/-- the annotated return event for the transaction a response names -/
def retOp (σ : CSys) (t : Txn) : GOp := .memRet t.wf t.kind ((σ.oi t.wf).idxOf t.ins) t.last

/-- the transaction a response with `RspTo = id` answers: the ROB restores the id its Top port gave
    the request (`C15.sys_response_is_the_answer`), the `id`-th admitted request carried transaction
    `adm[id]` -/
def txnOf (σ : CSys) (id : Nat) : Option Txn := (σ.adm[id]?).bind (fun ti => σ.table[ti]?)

/-- one event of the composed machine around a vector memory unit whose cycle is `cyc` -/
def cstepG (c : Cfg) (rc : C15.Cfg) (cyc : Vmu.St → Vmu.St) (σ : CSys) : CEv → CSys
  | .other o => { σ with g := gstep c σ.g o, log := σ.log ++ [o] }
  | .flat i store n p =>
    { σ with g := gstep c σ.g (.memIssue i true n), log := σ.log ++ [.memIssue i true n],
             vmu := Vmu.issue σ.vmu (n + 1) p,
             table := σ.table ++ newTxns i (kindOf store) σ.vmu.next n,
             oi := upd σ.oi i (σ.oi i ++ [σ.vmu.next]) }
  | .vcyc => { σ with vmu := cyc σ.vmu }
  | .conn q =>
    match σ.vmu.out with
    | [] => σ
    | e :: _ =>
      if σ.sys.rob.topIn.length < rc.topInCap then
        { σ with vmu := Vmu.take σ.vmu 1, sys := C15.sysStep rc σ.sys (.arrive q), adm := σ.adm ++ [e] }
      else σ
  | .robTick => { σ with sys := C15.sysStep rc σ.sys .tick }
  | .memTake => { σ with sys := C15.sysStep rc σ.sys .memTake }
  | .memAnswer j p => { σ with sys := C15.sysStep rc σ.sys (.memAnswer j p) }
  | .ret =>
    match σ.sys.rob.topOut with
    | [] => σ
    | r :: _ =>
      match txnOf σ r.rspTo with
      | none => σ
      | some t =>
        let g' := gstep c σ.g (retOp σ t)
        { σ with sys := C15.sysStep rc σ.sys .takeRsp, g := g', log := σ.log ++ [retOp σ t],
                 oi := if ((g'.g t.wf).qv.length < (σ.g.g t.wf).qv.length) then
                         upd σ.oi t.wf ((σ.oi t.wf).eraseIdx ((σ.oi t.wf).idxOf t.ins))
                       else σ.oi }

/-- the composed machine with the repaired unit -/
def cstep (c : Cfg) (vc : Vmu.Cfg) (rc : C15.Cfg) (σ : CSys) (e : CEv) : CSys :=
  cstepG c rc (Vmu.cycle vc) σ e

def crun (c : Cfg) (vc : Vmu.Cfg) (rc : C15.Cfg) (σ : CSys) (evs : List CEv) : CSys :=
  evs.foldl (cstep c vc rc) σ

/-- the same machine around the unit BEFORE repair 1640e206 (`C14.Vmu.Old.cycle`) -/
def crunOld (c : Cfg) (vc : Vmu.Cfg) (rc : C15.Cfg) (σ : CSys) (evs : List CEv) : CSys :=
  evs.foldl (cstepG c rc (Vmu.Old.cycle vc)) σ

/-- the start: a fresh scheduler state, an empty unit, an empty ROB and memory -/
def CSys.init (vc : Vmu.Cfg) (gs : GState) : CSys :=
  { g := gs, vmu := Vmu.St.init vc, sys := {}, table := [], adm := [], oi := fun _ => [], log := [] }

/-- an `other` event is not a FLAT issue / FLAT return -/
def nonFlat : GOp → Bool
  | .plain _ => true
  | .memIssue _ v _ => !v
  | .memRet _ kind _ _ => kind == 3

/-- **the residual assumption on the events outside the vector memory path**: they are not FLAT
    issues / returns, they are consistently annotated, and the *scalar* memory path (scalar unit →
    its own cache; not behind this unit and this ROB) returns in order -/
def sideOK (c : Cfg) (vc : Vmu.Cfg) (rc : C15.Cfg) : CSys → List CEv → Bool
  | _, [] => true
  | σ, e :: es =>
    (match e with
     | .other o => nonFlat o && respOK σ.g o && inOrder σ.g o
     | _ => true) && sideOK c vc rc (cstep c vc rc σ e) es

end C14.Chain
