import MgpuModel.C08_Base
/-! # C08 — the partition algorithm against compute units with finite room

`pNext` (C08_Base) takes the reservation outcomes from an arbitrary boolean stream. Here the
outcomes come from where they come from in the simulator: CU `i` has `free[i]` work-group slots,
`ReserveResourceForWG` on CU `i` succeeds iff a slot is free and takes it,
`partitionAlgorithm.FreeResources(location)` gives the slot of a finished work-group back.
`pNextF` is the loop of `Next` with the reservation asked from a function `ok : CU → Bool`
(theorem `pNextF_is_pNext`: it is `pNext` run against the stream of the outcomes it meets).
Operations of a run: `next` (one call of `Next`) and `free cu k` (the `k`-th resident work-group of
CU `cu` completes and `FreeResources` is called for it). -/
namespace C08
open Util

/-- the loop of `Next` with the reservation outcome of CU `i` given by `ok i`; also returns the
    outcomes it met, in order (`true` = refused) -/
def pNextF.go (n : Nat) (ok : Nat → Bool) : Nat → Nat → PState → List Bool → PState × List Bool × Option (Nat × WG)
  | 0, _, s, seen => (s, seen, none)
  | k + 1, idx, s, seen =>
    let i := (idx + s.next) % n
    match pNextWG s i with
    | (s, none) => pNextF.go n ok k (idx + 1) s seen
    | (s, some (wg, from_)) =>
      if ok i then
        ({ s with cur := s.cur.setIfInBounds from_ none,
                  disp := s.disp.setIfInBounds from_ (s.disp.getD from_ 0 + 1),
                  nd := s.nd + 1, next := i + 1 }, seen ++ [false], some (i, wg))
      else pNextF.go n ok k (idx + 1) s (seen ++ [true])

/-- `Next` against reservation outcomes `ok`: new state, the outcomes met, the dispatch -/
def pNextF (s : PState) (ok : Nat → Bool) : PState × List Bool × Option (Nat × WG) :=
  if s.nd ≥ s.numWG then (s, [], none) else pNextF.go s.cur.size ok s.cur.size 0 s []

structure RState where
  p : PState
  free : Array Nat            -- free work-group slots of CU i
  res : Array (List WG)       -- work-groups resident on CU i, oldest first

inductive ROp
  | next
  | free (cu k : Nat)
deriving Repr, DecidableEq

/-- start of a kernel on CUs with `caps[i]` slots each (the number of CUs is `caps.length`) -/
def rStart (l : List WG) (numWG : Nat) (caps : List Nat) : RState :=
  { p := pStart l numWG caps.length, free := caps.toArray, res := Array.replicate caps.length [] }

/-- one operation; the result carries the dispatch of a `next` -/
def rStep (s : RState) : ROp → RState × Option (Nat × WG)
  | .next =>
    match pNextF s.p (fun i => decide (0 < s.free.getD i 0)) with
    | (p', _, none) => ({ s with p := p' }, none)
    | (p', _, some (i, wg)) =>
      ({ p := p', free := s.free.setIfInBounds i (s.free.getD i 0 - 1),
         res := s.res.setIfInBounds i (s.res.getD i [] ++ [wg]) }, some (i, wg))
  | .free cu k =>
    if k < (s.res.getD cu []).length then
      ({ s with free := s.free.setIfInBounds cu (s.free.getD cu 0 + 1),
                res := s.res.setIfInBounds cu ((s.res.getD cu []).eraseIdx k) }, none)
    else (s, none)

/-- a run: final state and the hand-outs `(cu, wg)` in order -/
def rRun : List ROp → RState → RState × List (Nat × WG)
  | [], s => (s, [])
  | op :: ops, s =>
    match rStep s op with
    | (s', none) => rRun ops s'
    | (s', some d) => let r := rRun ops s'; (r.1, d :: r.2)

/-- a `free` that names a resident work-group -/
def ROp.effective (s : RState) : ROp → Bool
  | .next => false
  | .free cu k => decide (k < (s.res.getD cu []).length)

/-- a `next` that dispatches nothing although work-groups are outstanding -/
def idleNext (s : RState) : Bool :=
  decide (s.p.nd < s.p.numWG) && (rStep s .next).2.isNone

/-- the environment answers: along the run, an idle `next` is never followed by another `next`
    before some resident work-group completed. `owed` = an idle `next` happened and no effective
    `free` since. -/
def Responsive : List ROp → RState → Bool → Prop
  | [], _, _ => True
  | .next :: ops, s, owed => owed = false ∧ Responsive ops (rStep s .next).1 (idleNext s)
  | .free cu k :: ops, s, owed =>
    Responsive ops (rStep s (.free cu k)).1 (owed && !(ROp.effective s (.free cu k)))

/-- number of `next` operations -/
def nexts (ops : List ROp) : Nat := ops.countP fun o => o == .next

/-! ## line protocol -/

def parseROps (s : String) : Option (List ROp) :=
  if s = "-" || s = "" then some [] else
  (s.splitOn ",").mapM fun tok =>
    if tok = "n" then some ROp.next else
    match tok.splitOn "." with
    | [a, b] =>
      if a.startsWith "f" then
        match (a.drop 1).toNat?, b.toNat? with
        | some cu, some k => some (ROp.free cu k)
        | _, _ => none
      else none
    | _ => none

/-- the trace of a run: per operation the dispatch `cu:wg`, `-` for an idle / finished `next`,
    `f` / `x` for an effective / ineffective `free`; then the free slots per CU -/
def rTrace (ops : List ROp) (s : RState) : List String :=
  let rec loop (ops : List ROp) (s : RState) (acc : Array String) : Array String :=
    match ops with
    | [] => acc.push ("free=" ++ joinWith "," (s.free.toList.map toString))
    | op :: rest =>
      let eff := ROp.effective s op
      match rStep s op, op with
      | (s', some (i, wg)), _ => loop rest s' (acc.push s!"{i}:{wgStr wg}")
      | (s', none), .next => loop rest s' (acc.push "-")
      | (s', none), .free _ _ => loop rest s' (acc.push (if eff then "f" else "x"))
  (loop ops s #[]).toList

def handleRes (t : List String) : Option String :=
  match t with
  | "c08" :: "partr" :: _ =>
    match geoOf t, (kv? t "cap").bind natList?, (kv? t "ops").bind parseROps with
    | some g, some caps, some ops =>
      if caps.isEmpty then some "bad" else
      let all := fun (_ : Coord) => true
      let l := (enumFrom g all (g.total + 1) ⟨0, 0, 0⟩).1
      some s!"n={countWG g none} tr={joinWith ";" (rTrace ops (rStart l (countWG g none) caps))}"
    | _, _, _ => some "bad"
  | _ => none

end C08
