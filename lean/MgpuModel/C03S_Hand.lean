import MgpuModel.C03S_Types
/-! # C03 (scalar part) — hand-written models of the handlers outside the translated subset

The translator (`translate/alu.go`) refuses loops; the handlers it lists in
`Gen.<arch>.handModelled` are transcribed here by hand, statement by statement, with the `for`
loop as a fold over `List.range 32`.  `MgpuProofs/Props/C03S.lean` proves each of them equal to the
ISA specification for all inputs (`<arch>_s_brev_b32_conforms`), and the `gen.<arch>` stream of the
harness runs these definitions against the real handlers. -/
namespace C03S
namespace Hand

namespace gcn3
/-- amd/emu/alusop1.go `runSBREVB32`, the loop after `n` iterations:
    `bit := uint32(1 << (31 - i)); bit = uint32(src0) & bit; bit = bit >> (31 - i); bit = bit << i; dst = dst | bit` -/
def brevLoop (src : BitVec 32) (n : Nat) : BitVec 32 :=
  (List.range n).foldl (fun dst i =>
    let bit : BitVec 32 := 1#32 <<< (31 - i)
    let bit := src &&& bit
    let bit := bit >>> (31 - i)
    let bit := bit <<< i
    dst ||| bit) 0#32

def run_SBREVB32 (i : ScalarIn) : ScalarOut :=
  let src0 := i.src0
  let dst := brevLoop (BitVec.setWidth 32 src0) 32
  { dst := some (BitVec.setWidth 64 dst), scc := none, vcc := none, exec := none, pc := none }

/-- (format, opcode, handler) rows modelled by hand -/
def table : List (Nat × Nat × String) := [(2, 8, "runSBREVB32")]

def dispatch (fmt op : Nat) : Option (ScalarIn → ScalarOut) :=
  match fmt, op with
  | 2, 8 => some run_SBREVB32
  | _, _ => none
end gcn3

namespace cdna3
/-- amd/emu/cdna3/sop1.go `runSBREVB32`, the loop after `n` iterations:
    `if (src & (1 << i)) != 0 { dst |= 1 << (31 - i) }` -/
def brevLoop (src : BitVec 32) (n : Nat) : BitVec 32 :=
  (List.range n).foldl (fun dst i =>
    if (src &&& (1#32 <<< i)) != 0#32 then dst ||| (1#32 <<< (31 - i)) else dst) 0#32

def run_SBREVB32 (i : ScalarIn) : ScalarOut :=
  let src0 := i.src0
  let src : BitVec 32 := BitVec.setWidth 32 src0
  let dst := brevLoop src 32
  { dst := some (BitVec.setWidth 64 dst), scc := none, vcc := none, exec := none, pc := none }

def table : List (Nat × Nat × String) := [(2, 8, "runSBREVB32")]

def dispatch (fmt op : Nat) : Option (ScalarIn → ScalarOut) :=
  match fmt, op with
  | 2, 8 => some run_SBREVB32
  | _, _ => none
end cdna3

end Hand
end C03S
