import MgpuModel.Util
import MgpuModel.C11Cp
import MgpuModel.C11Mq
/-! # C11 — host/device copies: splitting, page-table copy semantics, DMA engine

Hand-written model (tie H) of
* the split loop shared by `globalStorageMemoryCopyMiddleware`, `defaultMemoryCopyMiddleware`
  (page granularity) and `DMAEngine.parseMemCopyH2D/D2H` (`2^Log2AccessSize`),
* `memRangeOverlap` / `needFlushing`,
* `DMAEngine.Tick` (tick-exact, with Akita port buffers).
-/
namespace C11

/-- pieces (addr,len) of [addr, addr+len) cut at multiples of `unit`. -/
def splitBy (unit : Nat) (hu : 0 < unit) (addr len : Nat) : List (Nat × Nat) :=
  if h : len = 0 then [] else
    let inUnit := unit - addr % unit
    let n := min len inUnit
    have : 0 < n := by
      have : addr % unit < unit := Nat.mod_lt _ hu
      simp [n, inUnit]; omega
    (addr, n) :: splitBy unit hu (addr + n) (len - n)
termination_by len
decreasing_by omega

/-- driver.memRangeOverlap, transcribed -/
def memRangeOverlap (s1 e1 s2 e2 : Nat) : Bool :=
  (decide (s1 ≤ s2) && decide (e1 > s2)) || (decide (s1 < e2) && decide (e1 ≥ e2))

/-! ## Copy through a page table into flat physical memory -/

structure Page where
  vaddr : Nat
  paddr : Nat
  size  : Nat
deriving Repr

def findPage (pt : List Page) (a : Nat) : Option Page :=
  pt.find? (fun p => decide (p.vaddr ≤ a) && decide (a < p.vaddr + p.size))

/-- per-byte translation through the page table (`vm.PageTable.Find` + offset in page);
    specification-side definition used by the theorems, not by the executable driver -/
def translate (pt : List Page) (a : Nat) : Option Nat :=
  (findPage pt a).map fun p => p.paddr + (a - p.vaddr)

/-- two pages have disjoint virtual ranges and disjoint physical ranges -/
def Page.disj (p q : Page) : Prop :=
  (p.vaddr + p.size ≤ q.vaddr ∨ q.vaddr + q.size ≤ p.vaddr) ∧
  (p.paddr + p.size ≤ q.paddr ∨ q.paddr + q.size ≤ p.paddr)

instance (p q : Page) : Decidable (Page.disj p q) := by unfold Page.disj; infer_instance

/-- the page table is injective: pages pairwise disjoint virtually and physically
    (what C10's allocator invariant provides) -/
def PtInj (pt : List Page) : Prop := pt.Pairwise Page.disj

instance (pt : List Page) : Decidable (PtInj pt) := by unfold PtInj; infer_instance

/-- The loop of `processMemCopyH2DCommand`: list of (paddr, offset-in-data, len) pieces, or
    `none` when a page is missing ("page not found" panic). Fuel = bytes left (each round
    copies at least one byte). -/
def pieces (pt : List Page) : Nat → Nat → Nat → Nat → Option (List (Nat × Nat × Nat))
  | 0, _, _, _ => some []
  | fuel + 1, addr, off, left =>
    if left = 0 then some [] else
    match findPage pt addr with
    | none => none
    | some p =>
      let inPage := p.size - (addr - p.vaddr)
      let n := if left < inPage then left else inPage
      if n = 0 then none else
      match pieces pt fuel (addr + n) (off + n) (left - n) with
      | none => none
      | some r => some ((p.paddr + (addr - p.vaddr), off, n) :: r)

/-- physical memory as a total function (byte values are `Nat < 256`) -/
abbrev Mem := Nat → Nat

def writePiece (m : Mem) (pa : Nat) (bs : List Nat) : Mem :=
  fun a => if pa ≤ a ∧ a < pa + bs.length then bs.getD (a - pa) 0 else m a

def h2d (pt : List Page) (m : Mem) (addr : Nat) (data : List Nat) : Option Mem :=
  (pieces pt data.length addr 0 data.length).map fun ps =>
    ps.foldl (fun m (p : Nat × Nat × Nat) => writePiece m p.1 ((data.drop p.2.1).take p.2.2)) m

def d2h (pt : List Page) (m : Mem) (addr len : Nat) : Option (List Nat) :=
  (pieces pt len addr 0 len).map fun ps =>
    ps.flatMap fun (p : Nat × Nat × Nat) => (List.range p.2.2).map fun i => m (p.1 + i)

/-! ## DMA engine, tick-exact -/

inductive Kind | h2d | d2h deriving DecidableEq, Repr

structure CpReq where
  id : Nat
  kind : Kind
  addr : Nat
  len : Nat
deriving Repr

structure MemReq where
  id : Nat
  write : Bool
  addr : Nat
  len : Nat
  /-- ghost: destination base address of the copy this piece belongs to -/
  base : Nat := 0
  /-- ghost: id of the copy (`CpReq.id`) this sub-request was created for -/
  owner : Nat := 0
deriving Repr

structure Coll where
  sup : CpReq
  subs : List Nat
  count : Int
deriving Repr

structure Dma where
  log2 : Nat := 6
  maxReq : Nat := 4
  memCap : Nat := 64
  cpIn : List CpReq := []
  toCP : List Nat := []
  cpOut : List Nat := []
  toMem : List MemReq := []
  memOut : List MemReq := []
  memIn : List Nat := []
  pending : List MemReq := []
  processing : List Coll := []
  nextId : Nat := 0
  fault : Option String := none
  /-- ghost: completions in emission order -/
  completed : List Nat := []
deriving Repr

def Dma.sendCP (s : Dma) : Dma × Bool :=
  match s.toCP with
  | [] => (s, false)
  | r :: rest => ({ s with toCP := rest, cpOut := s.cpOut ++ [r] }, true)  -- ToCP buffer is huge

def Dma.sendMem (s : Dma) : Dma × Bool :=
  match s.toMem with
  | [] => (s, false)
  | r :: rest =>
    if s.memOut.length < s.memCap then ({ s with toMem := rest, memOut := s.memOut ++ [r] }, true)
    else (s, false)

def decAll (cs : List Coll) (id : Nat) : List Coll × Option Coll :=
  cs.foldl (fun (acc : List Coll × Option Coll) c =>
    if c.subs.contains id then
      let c' := { c with count := c.count - 1 }
      (acc.1 ++ [c'], some c')
    else (acc.1 ++ [c], acc.2)) ([], none)

def Dma.parseFromMem (s : Dma) : Dma × Bool :=
  match s.memIn with
  | [] => (s, false)
  | id :: rest =>
    let s := { s with memIn := rest }
    if !(s.pending.any (·.id == id)) then ({ s with fault := some "not_found" }, true) else
    let s := { s with pending := s.pending.filter (·.id != id) }
    match decAll s.processing id with
    | (_, none) => ({ s with fault := some "no_collection" }, true)
    | (cs, some c) =>
      let s := { s with processing := cs }
      if c.count == 0 then
        ({ s with processing := s.processing.filter (·.sup.id != c.sup.id),
                  toCP := s.toCP ++ [c.sup.id], completed := s.completed ++ [c.sup.id] }, true)
      else (s, true)

def Dma.parseFromCP (s : Dma) : Dma × Bool :=
  if s.processing.length ≥ s.maxReq then (s, false) else
  match s.cpIn with
  | [] => (s, false)
  | r :: rest =>
    let unit := 2 ^ s.log2
    let ps := splitBy unit (Nat.pow_pos (by decide)) r.addr r.len
    let reqs : List MemReq := ps.zipIdx.map fun (p, i) =>
      { id := s.nextId + i, write := r.kind == Kind.h2d, addr := p.1, len := p.2, base := r.addr, owner := r.id }
    ({ s with cpIn := rest, nextId := s.nextId + reqs.length,
              toMem := s.toMem ++ reqs, pending := s.pending ++ reqs,
              processing := s.processing ++ [{ sup := r, subs := reqs.map (·.id), count := reqs.length }] }, true)

def Dma.tick (s : Dma) : Dma × Bool :=
  if s.fault.isSome then (s, false) else
  let (s, a) := s.sendCP
  let (s, b) := s.sendMem
  let (s, c) := s.parseFromMem
  if s.fault.isSome then (s, true) else
  let (s, d) := s.parseFromCP
  (s, a || b || c || d)

/-! ## The DMA engine's environment (moved here from `MgpuProofs/C11Dma.lean`, unchanged) -/

/-- `Dma` plus the environment's bookkeeping (the same fields `DrvSt`/`dmaOp` keep) and two ghost
    histories: `seen` = every memory transaction handed to the memory side, in order;
    `drained` = every completion response collected by the CP side, in order. -/
structure Env where
  s : Dma
  outstanding : List MemReq := []
  cps : List CpReq := []
  nextCp : Nat := 0
  seen : List MemReq := []
  drained : List Nat := []

/-- environment moves; `inject` (an arbitrary response id pushed into ToMem's incoming buffer —
    duplicated, stale or never issued) is the only move `dmaOp` cannot make -/
inductive EnvOp
  | copy (k : Kind) (addr len : Nat)
  | tick
  | take (k : Nat)
  | respond (j : Nat)
  | drain
  | inject (id : Nat)
deriving Repr

def Env.step (e : Env) : EnvOp → Env
  | .copy k a l =>
    let r : CpReq := { id := e.nextCp, kind := k, addr := a, len := l }
    { e with s := { e.s with cpIn := e.s.cpIn ++ [r] }, cps := e.cps ++ [r], nextCp := e.nextCp + 1 }
  | .tick => { e with s := e.s.tick.1 }
  | .take k =>
    { e with s := { e.s with memOut := e.s.memOut.drop k },
             outstanding := e.outstanding ++ e.s.memOut.take k,
             seen := e.seen ++ e.s.memOut.take k }
  | .respond j =>
    if e.s.memIn.length ≥ e.s.memCap then e else
    match e.outstanding[j % e.outstanding.length]? with
    | none => e
    | some r =>
      { e with s := { e.s with memIn := e.s.memIn ++ [r.id] },
               outstanding := e.outstanding.eraseIdx (j % e.outstanding.length) }
  | .drain => { e with s := { e.s with cpOut := [] }, drained := e.drained ++ e.s.cpOut }
  | .inject id => { e with s := { e.s with memIn := e.s.memIn ++ [id] } }

def Env.init (log2 maxReq memCap : Nat) : Env :=
  { s := { log2 := log2, maxReq := maxReq, memCap := memCap } }

def Env.run (e : Env) (ops : List EnvOp) : Env := ops.foldl Env.step e

def EnvOp.isInject : EnvOp → Bool
  | .inject _ => true
  | _ => false

/-! ## Dirty-buffer bookkeeping of the driver: which copies are preceded by a cache flush

`Driver.processLaunchKernelCommand` marks every buffer of the context dirty; nothing ever marks a
buffer clean; `defaultMemoryCopyMiddleware.needFlushing` sends a flush to every GPU when a dirty
buffer overlaps the copied range (`memRangeOverlap`). -/

structure Buf where
  start : Nat
  size : Nat
  dirty : Bool := false
deriving Repr, DecidableEq

inductive FOp where
  | alloc (start size : Nat)
  | launch
  | complete            -- a kernel finishes: no effect on the flags
  | copy (addr len : Nat)
deriving Repr, DecidableEq

def needFlushing (bufs : List Buf) (addr len : Nat) : Bool :=
  bufs.any fun b => memRangeOverlap b.start (b.start + b.size) addr (addr + len) && b.dirty

/-- one driver step on the buffer list; a copy reports whether it was preceded by a flush -/
def fstep (bufs : List Buf) : FOp → List Buf × Option Bool
  | .alloc s z => (bufs ++ [{ start := s, size := z }], none)
  | .launch => (bufs.map fun b => { b with dirty := true }, none)
  | .complete => (bufs, none)
  | .copy a l => (bufs, some (needFlushing bufs a l))

def frun (bufs : List Buf) : List FOp → List Buf × List Bool
  | [] => (bufs, [])
  | op :: rest =>
    let (b', o) := fstep bufs op
    let (b'', os) := frun b' rest
    (b'', (match o with | some x => [x] | none => []) ++ os)

/-! ## Driver (line protocol) -/
open Util

def pattern (seed i : Nat) : Nat := (seed + i * 13 + (i / 256) * 7) % 256

/-- H2D payload byte `i` of a copy to `addr`: deterministic, shared with the harness -/
def h2dByte (addr i : Nat) : Nat := ((addr + i) * 7 + 3) % 256
/-- memory content byte at physical address `a` for DMA read replies -/
def memByte (a : Nat) : Nat := (a * 13 + 5) % 256

structure DrvSt where
  s : Dma
  outstanding : List MemReq := []
  cps : List CpReq := []
  nextCp : Nat := 0
  out : List String := []
  /-- ids of the memory transactions the scenario has answered so far (`r` ops), in answer order:
      the op `i j` answers the `j`-th of them a SECOND time (a dishonest memory side) -/
  answered : List Nat := []

def dmaOp (d : DrvSt) (toks : List String) : DrvSt :=
  match toks with
  | ["h", a, l] | ["d", a, l] =>
    match a.toNat?, l.toNat? with
    | some a, some l =>
      let k := if toks.head! == "h" then Kind.h2d else Kind.d2h
      let r : CpReq := { id := d.nextCp, kind := k, addr := a, len := l }
      { d with s := { d.s with cpIn := d.s.cpIn ++ [r] }, cps := d.cps ++ [r], nextCp := d.nextCp + 1 }
    | _, _ => { d with out := d.out ++ ["bad"] }
  | ["t"] =>
    let (s, p) := d.s.tick
    { d with s := s, out := d.out ++ [match s.fault with
        | some f => "fault:" ++ f
        | none => if p then "t1" else "t0"] }
  | ["m", k] =>
    let k := k.toNat?.getD 0
    let taken := d.s.memOut.take k
    let strs := taken.map fun r =>
      if r.write then
        let base := r.base
        let bytes := (List.range r.len).map fun i => h2dByte base (r.addr - base + i)
        s!"w({r.addr},{r.len},{toHex (fnv bytes)})"
      else s!"r({r.addr},{r.len})"
    { d with s := { d.s with memOut := d.s.memOut.drop k }, outstanding := d.outstanding ++ taken,
             out := d.out ++ ["m[" ++ joinWith "," strs ++ "]"] }
  | ["r", j] =>
    match d.outstanding with
    | [] => { d with out := d.out ++ ["none"] }
    | _ =>
      let j := (j.toNat?.getD 0) % d.outstanding.length
      if d.s.memIn.length ≥ d.s.memCap then { d with out := d.out ++ ["full"] } else
      match d.outstanding[j]? with
      | none => d
      | some r =>
        { d with s := { d.s with memIn := d.s.memIn ++ [r.id] },
                 outstanding := d.outstanding.eraseIdx j, out := d.out ++ ["ok"],
                 answered := d.answered ++ [r.id] }
  | ["i", j] =>
    -- a duplicate response: the id of the j-th request answered so far enters ToMem's buffer again
    match d.answered with
    | [] => { d with out := d.out ++ ["none"] }
    | _ =>
      if d.s.memIn.length ≥ d.s.memCap then { d with out := d.out ++ ["full"] } else
      match d.answered[(j.toNat?.getD 0) % d.answered.length]? with
      | none => d
      | some id => { d with s := { d.s with memIn := d.s.memIn ++ [id] }, out := d.out ++ ["ok"] }
  | ["c"] =>
    let strs := d.s.cpOut.map fun id =>
      match d.cps.find? (·.id == id) with
      | some c =>
        if c.kind == Kind.d2h then
          let bytes := (List.range c.len).map fun i => memByte (c.addr + i)
          s!"done({id},{toHex (fnv bytes)})"
        else s!"done({id})"
      | none => "done(?)"
    { d with s := { d.s with cpOut := [] }, out := d.out ++ ["c[" ++ joinWith "," strs ++ "]"] }
  | _ => { d with out := d.out ++ ["bad"] }

def runDma (segs : List String) : String :=
  match segs with
  | [] => "bad"
  | cfg :: ops =>
    let ct := words cfg
    let s : Dma := { log2 := (kvNat? ct "log2").getD 6, maxReq := (kvNat? ct "max").getD 4 }
    let d := ops.foldl (fun d o => dmaOp d (words o)) ({ s := s } : DrvSt)
    joinWith " " d.out

def parsePt (s : String) : Option (List Page) :=
  (s.splitOn ",").mapM fun e =>
    match e.splitOn ":" with
    | [v, p, z] => do
      let v ← hexNat? v
      let p ← hexNat? p
      let z ← z.toNat?
      pure { vaddr := v, paddr := p, size := z }
    | _ => none

/-- Executable physical image used by the driver: one byte array per page of `pt`
    (page `i` byte `j` initially `pattern (seed+i) j`). The pieces come from the same
    `pieces` function the theorems are about; only the memory representation differs. -/
def initPages (pt : List Page) (seed : Nat) : Array (Array Nat) :=
  (pt.zipIdx.map fun (p, i) => Array.ofFn (n := p.size) fun j => pattern (seed + i) j.val).toArray

def findPhys (pt : List Page) (pa : Nat) : Option (Nat × Page) :=
  (pt.zipIdx.find? (fun (p, _) => decide (p.paddr ≤ pa) && decide (pa < p.paddr + p.size))).map
    fun (p, i) => (i, p)

def writeImg (pt : List Page) (img : Array (Array Nat)) (pa : Nat) (bs : Array Nat) : Array (Array Nat) :=
  match findPhys pt pa with
  | none => img
  | some (i, p) =>
    img.modify i fun page =>
      (List.range bs.size).foldl (fun pg k => pg.setIfInBounds (pa - p.paddr + k) (bs.getD k 0)) page

def readImg (pt : List Page) (img : Array (Array Nat)) (pa n : Nat) : List Nat :=
  match findPhys pt pa with
  | none => List.replicate n 0
  | some (i, p) =>
    let page := img.getD i #[]
    (List.range n).map fun k => page.getD (pa - p.paddr + k) 0

/-! ## The emulator's storage accessor across page-table changes

`emu.storageAccessorImpl.Read/Write` look every page up in the page table at the time of the access;
the same accessor object is used before and after `Remap` / `Distribute` / `Free` change the table.
A run is a list of steps: the table changes, or an access is made under the table current at that
step (`h2d` / `d2h` with the current `pt`). -/

inductive AccOp where
  | setPt (pt : List Page)
  | write (addr : Nat) (data : List Nat)
  | read (addr len : Nat)

structure AccSt where
  pt : List Page
  m : Mem
  /-- one entry per access: `none` = "page not found" panic; a write answers `some []` -/
  outs : List (Option (List Nat)) := []

def accStep (s : AccSt) : AccOp → AccSt
  | .setPt pt => { s with pt := pt }
  | .write a d =>
    match h2d s.pt s.m a d with
    | some m' => { s with m := m', outs := s.outs ++ [some []] }
    | none => { s with outs := s.outs ++ [none] }
  | .read a l => { s with outs := s.outs ++ [d2h s.pt s.m a l] }

def accRun (s : AccSt) (ops : List AccOp) : AccSt := ops.foldl accStep s

/-- executable version over the per-frame byte-array image (`frames`: every physical frame of the
    scenario as a `Page` with `vaddr = paddr`); the pieces come from the same `pieces` function -/
structure AccImg where
  pt : List Page := []
  img : Array (Array Nat)
  out : List String := []

def accLineOp (frames : List Page) (s : AccImg) (toks : List String) : AccImg :=
  match toks with
  | ["pt", p] =>
    match (if p == "-" then some [] else parsePt p) with
    | some pt => { s with pt := pt }
    | none => { s with out := "bad" :: s.out }
  | ["w", a, l, salt] =>
    match hexNat? a, l.toNat?, salt.toNat? with
    | some a, some l, some salt =>
      match pieces s.pt l a 0 l with
      | some ps =>
        let img := ps.foldl (fun img (p : Nat × Nat × Nat) =>
          writeImg frames img p.1 (Array.ofFn (n := p.2.2) fun k => h2dByte (a + salt) (p.2.1 + k.val))) s.img
        { s with img := img, out := "ok" :: s.out }
      | none => { s with out := "fault:page_not_found" :: s.out }
    | _, _, _ => { s with out := "bad" :: s.out }
  | ["r", a, l] =>
    match hexNat? a, l.toNat? with
    | some a, some l =>
      match pieces s.pt l a 0 l with
      | some ps => { s with out := toHex (fnv (ps.flatMap fun (p : Nat × Nat × Nat) => readImg frames s.img p.1 p.2.2)) :: s.out }
      | none => { s with out := "fault:page_not_found" :: s.out }
    | _, _ => { s with out := "bad" :: s.out }
  | ["img"] => { s with out := joinWith "," (s.img.toList.map fun pg => toHex (fnv pg.toList)) :: s.out }
  | _ => { s with out := "bad" :: s.out }

def runAccRun (cfg : List String) (ops : List String) : String :=
  match (kv? cfg "frames").bind (fun f => if f == "" then some [] else (f.splitOn ",").mapM fun e =>
      match e.splitOn ":" with
      | [p, z] => do
        let p ← hexNat? p
        let z ← z.toNat?
        pure ({ vaddr := p, paddr := p, size := z } : Page)
      | _ => none), kvNat? cfg "seed" with
  | some frames, some seed =>
    let s := ops.foldl (fun s o => accLineOp frames s (words o)) ({ img := initPages frames seed } : AccImg)
    joinWith " " s.out.reverse
  | _, _ => "bad"

end C11
