import MgpuModel.Util
/-! # C09 — compute-unit resource bookkeeping (`amd/timing/cp/internal/resource`)

Hand transcription (tie H), branch by branch, of
* `resourceMaskImpl` (`nextRegion`, `setStatus`, `convertStatus`, `statusCount`) and
  `unlimitedResourceMask` (a bump counter; the three other methods do nothing);
* `CUResourcePoolImpl.RegisterCU` (`createSRegMask`, `createVRegMasks`, `createLDSMask`,
  granularities 16 / 4 / 256, "count must be a multiple of the granularity" panic);
* `CUResourceImpl.ReserveResourceForWG` = `withinSGPRLimitation` → `withinLDSLimitation` →
  `matchWfWithSIMDs` (persistent `nextSIMD`, the do-while over SIMDs, `wfPoolEntryUsed`) →
  `reserveResources` / `clearTempReservation`;
* `CUResourceImpl.FreeResourcesForWG`;
* `CUResourceImpl.fitsWhenEmpty` / `wfPoolSizes` (repair 91eb1bb3; `CUResourcePoolImpl.CheckWGFitsInACU`
  is `launchFits` in `C09_Disp.lean`): `fitsEmpty`, `CU.poolSizes`, the predicate `Fits`.
Statuses are `Nat`s: 0 free, 1 to-reserve, 2 reserved, 3 used. Work-groups (Go: `*kernels.WorkGroup`
pointers, the keys of `reservedWGs`) are `Nat` keys. Sizes are `Nat` (Go `int`; far below 2^31). -/
namespace C09
open Util

abbrev stFree : Nat := 0
abbrev stToRes : Nat := 1
abbrev stRes : Nat := 2

/-! ## masks -/

/-- `nextRegion` loop: scan from `off` with `cur` matching cells immediately before `off` -/
def scan (m : List Nat) (len st : Nat) : (off cur : Nat) → (fuel : Nat) → Option Nat
  | _, _, 0 => none
  | off, cur, fuel+1 =>
    if h : off < m.length then
      if m[off] = st then
        if cur + 1 = len then some (off + 1 - len) else scan m len st (off+1) (cur+1) fuel
      else scan m len st (off+1) 0 fuel
    else none

/-- `resourceMaskImpl.nextRegion` -/
def nextRegionL (m : List Nat) (len st : Nat) : Option Nat :=
  if len = 0 then some 0 else scan m len st 0 0 (m.length + 1)

/-- `resourceMaskImpl.setStatus` (in-range part; the Go loop panics on the first index
    `≥ len(mask)`, see `setOutOfRange`) -/
def setStatusL (m : List Nat) (off n s : Nat) : List Nat :=
  m.mapIdx (fun i x => if off ≤ i ∧ i < off + n then s else x)

/-- would the Go loop of `setStatus` index out of range? -/
def setOutOfRange (m : List Nat) (off n : Nat) : Bool := decide (0 < n ∧ m.length < off + n)

/-- `resourceMaskImpl.convertStatus` -/
def convertL (m : List Nat) (a b : Nat) : List Nat := m.map (fun x => if x = a then b else x)

/-- `resourceMaskImpl.statusCount` -/
def countL (m : List Nat) (s : Nat) : Nat := (m.filter (· = s)).length

/-- `resourceMask`: `resourceMaskImpl` or `unlimitedResourceMask` -/
inductive Mask where
  | lim (m : List Nat)
  | unl (next : Nat)
deriving Repr, DecidableEq

/-- `nextRegion`; the unlimited mask hands out `next` and bumps it (even when the caller then
    does not use the region) -/
def Mask.nextRegion : Mask → Nat → Nat → Option Nat × Mask
  | .lim m, len, st => (nextRegionL m len st, .lim m)
  | .unl n, len, _ => (some n, .unl (n + len))

def Mask.setStatus : Mask → Nat → Nat → Nat → Mask
  | .lim m, off, n, s => .lim (setStatusL m off n s)
  | .unl k, _, _, _ => .unl k

def Mask.convert : Mask → Nat → Nat → Mask
  | .lim m, a, b => .lim (convertL m a b)
  | .unl k, _, _ => .unl k

def Mask.count : Mask → Nat → Nat
  | .lim m, s => countL m s
  | .unl _, _ => 0

/-! ## one compute unit -/

/-- `WfLocation` (byte offsets as handed to the CU) -/
structure Loc where
  simd : Nat
  voff : Nat
  soff : Nat
  loff : Nat
deriving Repr, DecidableEq

/-- what `ReserveResourceForWG` reads of a work-group: `len(wg.Wavefronts)`,
    `CodeObject.WFSgprCount`, `WIVgprCount`, `GroupSegmentByteSize` -/
structure Dem where
  nwf : Nat
  s : Nat
  v : Nat
  l : Nat
deriving Repr, DecidableEq

def sGran : Nat := 16
def vGran : Nat := 4
def lGran : Nat := 256

/-- `CUResourceImpl` -/
structure CU where
  wfFree : List Nat
  smask : Mask
  vmasks : List Mask
  lmask : Mask
  nextSIMD : Nat
  resident : List (Nat × Dem × List Loc)
deriving Repr, DecidableEq

/-- `unitsOccupy` -/
def units (amount g : Nat) : Nat := if amount % g = 0 then amount / g else amount / g + 1

/-- `withinSGPRLimitation`: one region per wavefront, each marked to-reserve before the next
    search; returns the unit offsets -/
def sgprLoop (req : Nat) : Nat → Mask → Option (List Nat) × Mask
  | 0, m => (some [], m)
  | n+1, m =>
    match m.nextRegion req stFree with
    | (none, m') => (none, m')
    | (some off, m') =>
      let r := sgprLoop req n (m'.setStatus off req stToRes)
      (r.1.map (off :: ·), r.2)

/-- state threaded through `matchWfWithSIMDs` -/
structure MatchSt where
  vmasks : List Mask
  next : Nat
  used : List Nat
deriving Repr, DecidableEq

def nextSimd (n next : Nat) : Nat := if next + 1 ≥ n then 0 else next + 1

/-- the do-while over SIMDs for one wavefront (`tries` iterations left): the SIMD and the VGPR unit
    offset chosen -/
def simdTry (req : Nat) (wfFree : List Nat) : Nat → MatchSt → Option (Nat × Nat) × MatchSt
  | 0, st => (none, st)
  | t+1, st =>
    let r := ((st.vmasks.getD st.next (.lim [])).nextRegion req stFree)
    let vm1 := st.vmasks.set st.next r.2
    let nx := nextSimd wfFree.length st.next
    match r.1 with
    | some off =>
      if wfFree.getD st.next 0 > st.used.getD st.next 0 then
        (some (st.next, off),
          { vmasks := vm1.set st.next (r.2.setStatus off req stToRes),
            next := nx,
            used := st.used.set st.next (st.used.getD st.next 0 + 1) })
      else simdTry req wfFree t { st with vmasks := vm1, next := nx }
    | none => simdTry req wfFree t { st with vmasks := vm1, next := nx }

/-- `matchWfWithSIMDs`: the loop over wavefronts -/
def matchLoop (req : Nat) (wfFree : List Nat) : Nat → MatchSt → Option (List (Nat × Nat)) × MatchSt
  | 0, st => (some [], st)
  | n+1, st =>
    match simdTry req wfFree wfFree.length st with
    | (none, st') => (none, st')
    | (some p, st') =>
      let r := matchLoop req wfFree n st'
      (r.1.map (p :: ·), r.2)

/-- `clearTempReservation` -/
def clearTemp (cu : CU) : CU :=
  { cu with smask := cu.smask.convert stToRes stFree,
            lmask := cu.lmask.convert stToRes stFree,
            vmasks := cu.vmasks.map (·.convert stToRes stFree) }

def decAt (l : List Nat) (i : Nat) : List Nat := l.set i (l.getD i 0 - 1)
def incAt (l : List Nat) (i : Nat) : List Nat := l.set i (l.getD i 0 + 1)

inductive RRes where
  | ok (locs : List Loc)
  | no
  | twice            -- panic("reserving a work-group twice")
deriving Repr, DecidableEq

/-- `ReserveResourceForWG` -/
def reserve (cu : CU) (key : Nat) (d : Dem) : RRes × CU :=
  let sreq := units d.s sGran
  let rs := sgprLoop sreq d.nwf cu.smask
  let cu1 := { cu with smask := rs.2 }
  match rs.1 with
  | none => (.no, clearTemp cu1)
  | some soffs =>
    let lreq := units d.l lGran
    let rl := cu1.lmask.nextRegion lreq stFree
    match rl.1 with
    | none => (.no, clearTemp { cu1 with lmask := rl.2 })
    | some loff =>
      let cu2 := { cu1 with lmask := rl.2.setStatus loff lreq stToRes }
      let vreq := units d.v vGran
      let rm := matchLoop vreq cu2.wfFree d.nwf
                  { vmasks := cu2.vmasks, next := cu2.nextSIMD, used := cu2.wfFree.map (fun _ => 0) }
      let cu3 := { cu2 with vmasks := rm.2.vmasks, nextSIMD := rm.2.next }
      match rm.1 with
      | none => (.no, clearTemp cu3)
      | some ps =>
        let locs : List Loc := (List.zip soffs ps).map fun (so, (simd, vo)) =>
          { simd := simd, voff := vo * vGran * 4, soff := so * 16 * 4, loff := loff * lGran }
        let cu4 := { cu3 with
          wfFree := locs.foldl (fun w l => decAt w l.simd) cu3.wfFree,
          smask := cu3.smask.convert stToRes stRes,
          lmask := cu3.lmask.convert stToRes stRes,
          vmasks := cu3.vmasks.map (·.convert stToRes stRes) }
        if cu4.resident.any (·.1 = key) then (.twice, cu4)
        else (.ok locs, { cu4 with resident := cu4.resident ++ [(key, d, locs)] })

/-- the body of the loop of `FreeResourcesForWG` for one location -/
def freeLoc (d : Dem) (cu : CU) (l : Loc) : CU :=
  { cu with
    wfFree := incAt cu.wfFree l.simd,
    lmask := cu.lmask.setStatus (l.loff / lGran) (units d.l lGran) stFree,
    smask := cu.smask.setStatus (l.soff / 4 / sGran) (units d.s sGran) stFree,
    vmasks := cu.vmasks.set l.simd
      ((cu.vmasks.getD l.simd (.lim [])).setStatus (l.voff / 4 / vGran) (units d.v vGran) stFree) }

/-- `FreeResourcesForWG`; `none` = panic("work-group not found") -/
def free (cu : CU) (key : Nat) : Option CU :=
  match cu.resident.find? (·.1 = key) with
  | none => none
  | some (_, d, locs) =>
    let cu' := locs.foldl (freeLoc d) cu
    some { cu' with resident := cu'.resident.filter (·.1 ≠ key) }

/-- `RegisterCU` for one CU: `none` in a count = unlimited (the Go interface says -1);
    `none` result = panic("the count is not a multiple of the granularity") -/
def mkMask (count : Option Nat) (g : Nat) : Option Mask :=
  match count with
  | none => some (.unl 0)
  | some c => if c % g = 0 then some (.lim (List.replicate (c / g) 0)) else none

def mkCU (wf : List Nat) (s : Option Nat) (v : List (Option Nat)) (l : Option Nat) : Option CU := do
  let sm ← mkMask s sGran
  let vms ← v.mapM fun c => match c with
    | none => some (Mask.unl 0)
    | some c => if c % (vGran * 64) = 0 then some (Mask.lim (List.replicate (c / vGran / 64) 0)) else none
  let lm ← mkMask l lGran
  pure { wfFree := wf, smask := sm, vmasks := vms, lmask := lm, nextSIMD := 0, resident := [] }

/-! ## what the shipped timing CU (`cu.ComputeUnit`, `cu.MakeBuilder`) reports; compared with the
real methods by the `c09 const` correspondence case -/
def shippedWf : List Nat := [10, 10, 10, 10]
def shippedSRegs : Nat := 3200
def shippedVRegs : List Nat := [16384, 16384, 16384, 16384]
def shippedLDS : Nat := 65536

/-! ## `fitsWhenEmpty` / `CheckWGFitsInACU`: can the work-group be placed on the CU when nothing else occupies it? -/

/-- shape of a mask: `some length` for a limited mask (`count / granularity` cells), `none` for an unlimited one -/
def Mask.shape : Mask → Option Nat
  | .lim m => some m.length
  | .unl _ => none

/-- a request of `a` units fits a mask of the given shape (`none` = unlimited: Go `count < 0`) -/
def fitsUnits (sh : Option Nat) (a : Nat) : Prop :=
  match sh with
  | none => True
  | some n => a ≤ n

instance (sh : Option Nat) (a : Nat) : Decidable (fitsUnits sh a) := by
  unfold fitsUnits; cases sh <;> infer_instance

/-- wavefronts an empty SIMD can take: its pool entries, and as many VGPR regions as fit its file
    (`vgprSlots = vregCounts[i] / granularity / 64 / vgprUnits` unless the file is unlimited or no VGPR is asked for) -/
def slotsOn (cap : Nat) (sh : Option Nat) (req : Nat) : Nat :=
  match sh with
  | none => cap
  | some n => if req = 0 then cap else min cap (n / req)

/-- `f 0 + … + f (n-1)` -/
def slotSum (f : Nat → Nat) : Nat → Nat
  | 0 => 0
  | n+1 => slotSum f n + f n

/-- shapes of the masks of a CU: SGPR units, VGPR units per SIMD, LDS units (`none` = unlimited) -/
def CU.shapes (cu : CU) : Option Nat × List (Option Nat) × Option Nat :=
  (cu.smask.shape, cu.vmasks.map Mask.shape, cu.lmask.shape)

/-- **the fit predicate**: `cap` = wavefront slots per SIMD, `sh` = mask shapes in units.
    * SGPR: `nwf · ⌈s/16⌉ ≤` SGPR units;
    * LDS: `⌈l/256⌉ ≤` LDS units;
    * wavefronts: `nwf ≤ Σ_SIMD min(slots, ⌊VGPR units / ⌈v/4⌉⌋)` (`slots` when `v = 0` or unlimited). -/
def Fits (cap : List Nat) (sh : Option Nat × List (Option Nat) × Option Nat) (d : Dem) : Prop :=
  fitsUnits sh.1 (d.nwf * units d.s sGran) ∧ fitsUnits sh.2.2 (units d.l lGran) ∧
  d.nwf ≤ slotSum (fun k => slotsOn (cap.getD k 0) (sh.2.1.getD k none) (units d.v vGran)) cap.length

instance (cap : List Nat) (sh : Option Nat × List (Option Nat) × Option Nat) (d : Dem) :
    Decidable (Fits cap sh d) := by unfold Fits; infer_instance

/-- number of resident wavefronts on SIMD k -/
def residentOn (cu : CU) (k : Nat) : Nat :=
  (cu.resident.flatMap fun e => e.2.2.filter (·.simd = k)).length

/-- `wfPoolSizes`: how many wavefronts each pool holds when the CU is empty. Go keeps a copy of the
    `WfPoolSizes()` the CU was registered with (`r.wfPoolSizes`, made in `RegisterCU`); the model has no
    such field and recomputes it from the state: the free entries plus one per location of the reserved
    work-groups, whatever is resident now. The two agree on every CU that satisfies the resource
    invariant (`poolSizes_of_inv`, `MgpuProofs/C09Rej.lean`: free slots + resident wavefronts = registered
    size is a clause of `Inv`), i.e. in every reachable state; the correspondence check compares them on
    every launch of every scenario. -/
def CU.poolSizes (cu : CU) : List Nat :=
  (List.range cu.wfFree.length).map fun k => cu.wfFree.getD k 0 + residentOn cu k

/-- `fitsWhenEmpty`: the three checks of the Go function are the three conjuncts of `Fits` on the
    empty-pool sizes (the Go loop subtracts `slots` per SIMD from `numWf` and stops early once it is
    `≤ 0`; the result `numWf ≤ 0` is `nwf ≤ Σ slots`) -/
def fitsEmpty (cu : CU) (d : Dem) : Bool := decide (Fits cu.poolSizes cu.shapes d)

/-! ## reserve/free sequences -/

inductive ROp where
  | reserve (key : Nat) (d : Dem)
  | free (key : Nat)
deriving Repr, DecidableEq

/-- one call; `none` = the call panicked ("reserving a work-group twice" / "work-group not found") -/
def stepR (cu : CU) : ROp → Option CU
  | .reserve k d =>
    match reserve cu k d with
    | (.twice, _) => none
    | (_, cu') => some cu'
  | .free k => free cu k

def runR (cu : CU) : List ROp → Option CU
  | [] => some cu
  | op :: ops => (stepR cu op).bind (fun cu' => runR cu' ops)

/-! ## printing / parsing -/

def stChar (s : Nat) : String :=
  match s with | 0 => "f" | 1 => "t" | 2 => "r" | _ => "u"

/-- run-length encoding of a mask, e.g. `3r197f` -/
def rle (m : List Nat) : String :=
  let rec go : List Nat → Nat → Nat → String → String
    | [], cur, n, acc => if n = 0 then acc else acc ++ toString n ++ stChar cur
    | x :: xs, cur, n, acc =>
      if n = 0 then go xs x 1 acc
      else if x = cur then go xs cur (n+1) acc
      else go xs x 1 (acc ++ toString n ++ stChar cur)
  let r := go m 0 0 ""
  if r = "" then "-" else r

def Mask.show : Mask → String
  | .lim m => rle m
  | .unl n => "u" ++ toString n

def natsShow (l : List Nat) : String := if l = [] then "-" else joinWith "," (l.map toString)

def Loc.show (l : Loc) : String :=
  s!"{l.simd}.{l.voff}.{l.soff}.{l.loff}"

def locsShow (ls : List Loc) : String := if ls = [] then "-" else joinWith "," (ls.map Loc.show)

def CU.show (cu : CU) : String :=
  s!"[w={natsShow cu.wfFree} n={cu.nextSIMD} s={cu.smask.show} l={cu.lmask.show} v={joinWith "/" (cu.vmasks.map Mask.show)} r={cu.resident.length}]"

def optNat? (s : String) : Option (Option Nat) :=
  if s = "u" then some none else (s.toNat?).map some

/-- `wf,wf,…/s/v,v,…/l` with `u` for an unlimited count -/
def parseCU (s : String) : Option (Option CU) :=
  match s.splitOn "/" with
  | [w, sr, v, l] => do
    let wf ← natList? w
    let sc ← optNat? sr
    let vs ← (v.splitOn ",").mapM optNat?
    let lc ← optNat? l
    pure (mkCU wf sc vs lc)
  | _ => none

end C09
