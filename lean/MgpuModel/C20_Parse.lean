/-! # C20 — `tracereader.ReadTrace` / `extractInst` as a parser over lines, and the spec-side `render`

Lines and tokens are `List Char`.  The `fmt.Sscanf` verbs are modelled as Go implements them:
`%d`/`%x` = optional sign, maximal run of digit characters of the base (no `0x` prefix, no `_`), value 0 and
no assignment on any error (empty run, overflow of the field type); `%v` = Go-syntax prefix
(`0x`, `0b`, `0o`, leading `0` = octal), digits and `_` checked by `strconv.underscoreOK`; `strconv.Atoi` = whole token, clamped on overflow.
`legacyAddr = true` is the reader before the `fix:` commit (`%x` for the memory address). -/
namespace C20

/-! ## numbers -/
def digitVal (c : Char) : Nat :=
  if '0' ≤ c ∧ c ≤ '9' then c.toNat - 48
  else if 'a' ≤ c ∧ c ≤ 'f' then c.toNat - 87
  else if 'A' ≤ c ∧ c ≤ 'F' then c.toNat - 55
  else 99

/-- is `c` a digit of base `b` (b ≤ 16) -/
def isDigit (b : Nat) (c : Char) : Bool := digitVal c < b

/-- value of a digit string in base `b` (most significant first) -/
def valOf (b : Nat) (cs : List Char) : Nat := cs.foldl (fun a c => a * b + digitVal c) 0

def digitChar (d : Nat) : Char :=
  if d < 10 then Char.ofNat (48 + d) else Char.ofNat (87 + d)

/-- digits of `n` in base `b`, least significant first, at least one digit -/
def digitsRev (b : Nat) : Nat → Nat → List Char
  | 0, n => [digitChar (n % b)]
  | fuel + 1, n => if n < b then [digitChar n] else digitChar (n % b) :: digitsRev b fuel (n / b)

/-- spec side: `n` printed in base `b` (2 ≤ b ≤ 16) -/
def showNat (b : Nat) (n : Nat) : List Char := (digitsRev b n n).reverse

def showInt (i : Int) : List Char :=
  if i < 0 then '-' :: showNat 10 i.natAbs else showNat 10 i.natAbs

def two63 : Int := 9223372036854775808

def fits (bits : Nat) (i : Int) : Bool := decide (-(2 : Int) ^ (bits - 1) ≤ i) && decide (i < (2 : Int) ^ (bits - 1))

/-- split an optional sign -/
def splitSign : List Char → Bool × List Char
  | '-' :: r => (true, r)
  | '+' :: r => (false, r)
  | r => (false, r)

def signed (neg : Bool) (v : Nat) : Int := if neg then -(v : Int) else (v : Int)

/-- `%d` (b = 10) / `%x` (b = 16) into a signed field of `bits` bits: value and rest of input; `none` = scan error.
    The digit run of `%d`/`%x` does not include `_` (`"1_0"` scans as 1, rest `"_0"`); only `%v` accepts underscores. -/
def scanBase (b bits : Nat) (s : List Char) : Option (Int × List Char) :=
  let sg := splitSign s
  let run := sg.2.takeWhile (isDigit b)
  let rest := sg.2.dropWhile (isDigit b)
  if run.isEmpty then none
  else
    let i := signed sg.1 (valOf b run)
    if fits 64 i && fits bits i then some (i, rest) else none

/-- value stored by `fmt.Sscanf(tok, "%d"/"%x", &field)` into a zero field -/
def scanTok (b bits : Nat) (s : List Char) : Int := ((scanBase b bits s).map (·.1)).getD 0

/-! ## Go white space (`unicode.IsSpace` = `fmt.isSpace`) -/
def isSpaceC (c : Char) : Bool :=
  let n := c.toNat
  (decide (9 ≤ n) && decide (n ≤ 13)) || n == 32 || n == 0x85 || n == 0xA0 || n == 0x1680 ||
  (decide (0x2000 ≤ n) && decide (n ≤ 0x200a)) || n == 0x2028 || n == 0x2029 || n == 0x202f ||
  n == 0x205f || n == 0x3000

/-- `(*ss).SkipSpace` (no newline can occur inside a line) -/
def skipSp (s : List Char) : List Char := s.dropWhile isSpaceC

/-- `strconv.underscoreOK` on a run of digits and `_`; `prev`: 0 = start of the number, 1 = after a
    digit or a base prefix, 2 = after an underscore -/
def usOK : Nat → List Char → Bool
  | p, [] => p != 2
  | p, c :: r => if c = '_' then (p == 1 && usOK 2 r) else usOK 1 r

/-- digits of base `b` (and `_`) after the sign/prefix: magnitude and rest -/
def vGo (b : Nat) (body : List Char) (zeroLed needDigit : Bool) : Option (Nat × List Char) :=
  let p := fun c => isDigit b c || c == '_'
  let run := body.takeWhile p
  if (needDigit && run.isEmpty) || !usOK (if zeroLed then 1 else 0) run then none
  else some (valOf b (run.filter (fun c => c != '_')), body.dropWhile p)

/-- `scanBasePrefix` + `scanNumber` + `ParseUint(tok, 0, 64)` without the range check -/
def scanVMag : List Char → Option (Nat × List Char)
  | '0' :: 'b' :: r => vGo 2 r true true
  | '0' :: 'B' :: r => vGo 2 r true true
  | '0' :: 'o' :: r => vGo 8 r true true
  | '0' :: 'O' :: r => vGo 8 r true true
  | '0' :: 'x' :: r => vGo 16 r true true
  | '0' :: 'X' :: r => vGo 16 r true true
  | '0' :: r => vGo 8 r true false
  | r => vGo 10 r false true

/-- `%v` into an `int64` -/
def scanVI (s : List Char) : Option (Int × List Char) :=
  let sg := splitSign (skipSp s)
  match scanVMag sg.2 with
  | none => none
  | some (m, rest) => let i := signed sg.1 m; if fits 64 i then some (i, rest) else none

/-- value stored by `fmt.Sscanf(tok, "%v", &int64Field)` into a zero field (0 on a scan error) -/
def scanV (s : List Char) : Int := ((scanVI s).map (·.1)).getD 0

/-- `strconv.Atoi`: whole token; syntax error → 0, range error → clamped -/
def atoi (s : List Char) : Int :=
  let sg := splitSign s
  if sg.2.isEmpty || !sg.2.all (isDigit 10) then 0
  else
    let i := signed sg.1 (valOf 10 sg.2)
    if i < -two63 then -two63 else if two63 ≤ i then two63 - 1 else i

/-- Go conversion `int32(x)` -/
def toInt32 (i : Int) : Int := (i + 2147483648) % 4294967296 - 2147483648

/-! ## instructions -/
inductive Fault
  | bounds    -- index / slice out of range
  | panic     -- explicit panic (unknown register, missing insts line)
deriving DecidableEq, Repr

structure Inst where
  pc : Int := 0
  mask : Int := 0
  destNum : Int := 0
  dst : List (List Char) := []
  op : Option (List Char) := none -- `OpCode`: nil, or the mnemonic `NewOpcode` keeps (`Opcode.String()`)
  srcNum : Int := 0
  src : List (List Char) := []
  width : Int := 0
  compress : Int := 0
  addr : Int := 0
  suffix1 : Int := 0
  suffix2 : List Int := []
  imm : Int := 0
deriving DecidableEq, Repr

/-- `registerTable`: R0..R254 (every SASS general register; repaired — before: R0..R31, `regNamesOld`) and the zero
    register R255 -/
def regNames : List (List Char) := (List.range 255).map (fun i => 'R' :: showNat 10 i) ++ ["R255".toList]
/-- the table before the repair: R0..R31 and R255 -/
def regNamesOld : List (List Char) := (List.range 32).map (fun i => 'R' :: showNat 10 i) ++ ["R255".toList]
def knownReg (t : List Char) : Bool := regNames.contains t

/-- `elems[i]` with a Go `int` index -/
def elemAt (elems : List (List Char)) (i : Int) : Except Fault (List Char) :=
  if i < 0 then .error .bounds
  else match elems[i.toNat]? with
    | some t => .ok t
    | none => .error .bounds

/-- the register loop: `for i := 0; i < n; i++ { append(NewRegister(elems[base+i])) }` -/
def readRegs (elems : List (List Char)) (base : Int) : Nat → Nat → Except Fault (List (List Char))
  | 0, _ => .ok []
  | k + 1, i => do
    let t ← elemAt elems (base + i)
    if knownReg t then
      let r ← readRegs elems base k (i + 1)
      pure (t :: r)
    else .error .panic

def splitTokens (s : List Char) : List (List Char) :=
  ((String.ofList s).splitOn " ").filterMap (fun t => if t.isEmpty then none else some t.toList)

/-- `updateInstMemoryPart` -/
def memPart (legacyAddr : Bool) (inst : Inst) (rest : List (List Char)) : Except Fault Inst := do
  let w ← elemAt rest 0
  let width := scanTok 10 32 w
  let last := rest.getLast?.getD []
  if width = 0 then pure { inst with width := width, imm := atoi last }
  else
    let c ← elemAt rest 1
    let a ← elemAt rest 2
    let compress := scanTok 10 32 c
    let addr := if legacyAddr then scanTok 16 64 a else scanV a
    let inst := { inst with width := width, compress := compress, addr := addr }
    if compress = 1 then
      let s ← elemAt rest 3
      pure { inst with suffix1 := scanTok 10 32 s, imm := atoi last }
    else if compress = 2 then
      if rest.length < 4 then .error .bounds
      else pure { inst with suffix2 := ((rest.drop 3).dropLast).map (fun t => toInt32 (atoi t)), imm := atoi last }
    else pure { inst with imm := atoi last }

/-- `extractInst` on the token list. `keepOp` = the repaired reader, which stores the opcode token
    (`inst.OpCode = NewOpcode(elems[3+DestNum])`, unknown mnemonics keep their text); `keepOp = false` =
    the reader before that repair (the line was commented out: `OpCode` stayed nil). -/
def extractToks (legacyAddr keepOp : Bool) (elems : List (List Char)) : Except Fault Inst := do
  let t0 ← elemAt elems 0
  let t1 ← elemAt elems 1
  let t2 ← elemAt elems 2
  let dn := scanTok 10 32 t2
  let dst ← readRegs elems 3 dn.toNat 0
  let op ← if keepOp then (elemAt elems (3 + dn)).map some else pure none
  let ts ← elemAt elems (4 + dn)
  let sn := scanTok 10 32 ts
  let src ← readRegs elems (5 + dn) sn.toNat 0
  let lo := 5 + dn + sn
  if lo < 0 || (elems.length : Int) < lo then .error .bounds
  else memPart legacyAddr { pc := scanTok 16 32 t0, mask := scanTok 16 64 t1, destNum := dn, dst := dst,
                            op := op, srcNum := sn, src := src } (elems.drop lo.toNat)

def extractInst (legacyAddr keepOp : Bool) (line : List Char) : Except Fault Inst :=
  extractToks legacyAddr keepOp (splitTokens line)

/-! ## thread blocks -/
structure WarpT where
  id : Int := 0
  count : Int := 0
  insts : List Inst := []
deriving DecidableEq, Repr

structure TBT where
  id : Int × Int × Int := (0, 0, 0)
  warps : List WarpT := []
deriving DecidableEq, Repr

def hasPrefix (p : String) (l : List Char) : Bool := p.toList.isPrefixOf l

/-- `Sscanf(l, prefix ++ "%d")` -/
def scanAfter (p : String) (l : List Char) : Int := scanTok 10 32 (l.drop p.length)

/-- `Sscanf(l, "thread block = %d,%d,%d")` -/
def scanTBId (l : List Char) : Int × Int × Int :=
  match scanBase 10 32 (l.drop 15) with
  | none => (0, 0, 0)
  | some (a, r1) =>
    match r1 with
    | ',' :: r1' =>
      match scanBase 10 32 r1' with
      | none => (a, 0, 0)
      | some (b, r2) =>
        match r2 with
        | ',' :: r2' => (a, b, scanTok 10 32 r2')
        | _ => (a, b, 0)
    | _ => (a, 0, 0)

/-- where the line scanner of `readThreadblocks` is -/
inductive Mode
  | seekTB                     -- looking for a "thread block" line
  | inTB                       -- inside a block: a "warp" line opens a warp, anything else closes the block
  | seekInsts                  -- after "warp = …": looking for the "insts" line
  | readInsts (k : Nat)        -- k more instruction lines belong to the current warp
deriving DecidableEq, Repr

structure PState where
  mode : Mode := .seekTB
  done : List TBT := []        -- finished blocks, in order
  tb : TBT := {}               -- current block (warps in order)
  wp : WarpT := {}             -- current warp (instructions in order)
  fault : Option Fault := none
deriving Repr

def closeWarp (st : PState) : PState :=
  { st with mode := .inTB, tb := { st.tb with warps := st.tb.warps ++ [st.wp] }, wp := {} }

/-- feed one non-empty line -/
def feed (legacyAddr keepOp : Bool) (st : PState) (l : List Char) : PState :=
  if st.fault.isSome then st else
  match st.mode with
  | .seekTB => if hasPrefix "thread block" l then { st with mode := .inTB, tb := { id := scanTBId l } } else st
  | .inTB =>
    if hasPrefix "warp" l then { st with mode := .seekInsts, wp := { id := scanAfter "warp = " l } }
    else
      let st := { st with done := st.done ++ [st.tb], tb := {} }
      if hasPrefix "thread block" l then { st with mode := .inTB, tb := { id := scanTBId l } }
      else { st with mode := .seekTB }
  | .seekInsts =>
    if hasPrefix "insts" l then
      let n := scanAfter "insts = " l
      let st := { st with wp := { st.wp with count := n } }
      if n.toNat = 0 then closeWarp st else { st with mode := .readInsts n.toNat }
    else st
  | .readInsts k =>
    match extractInst legacyAddr keepOp l with
    | .error f => { st with fault := some f }
    | .ok i =>
      let st := { st with wp := { st.wp with insts := st.wp.insts ++ [i] } }
      if k ≤ 1 then closeWarp st else { st with mode := .readInsts (k - 1) }

/-- end of file -/
def finish (st : PState) : Except Fault (List TBT) :=
  match st.fault with
  | some f => .error f
  | none =>
    match st.mode with
    | .seekTB => .ok st.done
    | .inTB => .ok (st.done ++ [st.tb])
    | .seekInsts => .error .panic        -- "Cannot find insts line"
    | .readInsts _ => .error .bounds     -- extractInst("") indexes elems[0]

/-- `readThreadblocks` over the lines that follow the header (empty lines are skipped by the scanner) -/
def parseBody (legacyAddr keepOp : Bool) (lines : List (List Char)) : Except Fault (List TBT) :=
  finish ((lines.filter (fun l => !l.isEmpty)).foldl (feed legacyAddr keepOp) {})

/-! ## spec side: serialisation -/
def sp : List Char := [' ']

def joinSp : List (List Char) → List Char
  | [] => []
  | [t] => t
  | t :: ts => t ++ sp ++ joinSp ts

def pad (w : Nat) (s : List Char) : List Char := List.replicate (w - s.length) '0' ++ s

/-- tokens of one instruction line; `op` is the opcode token -/
def renderToks (op : List Char) (i : Inst) : List (List Char) :=
  [pad 4 (showNat 16 i.pc.toNat), pad 8 (showNat 16 i.mask.toNat), showNat 10 i.dst.length] ++ i.dst ++
  [op, showNat 10 i.src.length] ++ i.src ++ [showInt i.width] ++
  (if i.width = 0 then [] else
    [showInt i.compress, '0' :: 'x' :: showNat 16 i.addr.toNat] ++
    (if i.compress = 1 then [showInt i.suffix1] else if i.compress = 2 then i.suffix2.map showInt else [])) ++
  [showInt i.imm]

/-- the opcode text of an instruction (`Opcode.String()`; empty when `OpCode` is nil) -/
def opText (i : Inst) : List Char := i.op.getD []

/-- one line; `op` chooses the opcode token of each instruction (`opText` = the instruction's own
    opcode; a constant function = the serialisations used for the reader that dropped the opcode) -/
def renderInst (op : Inst → List Char) (i : Inst) : List Char := joinSp (renderToks (op i) i)

def renderWarp (op : Inst → List Char) (w : WarpT) : List (List Char) :=
  ["warp = ".toList ++ showInt w.id, "insts = ".toList ++ showNat 10 w.insts.length] ++ w.insts.map (renderInst op) ++ [[]]

def renderTB (op : Inst → List Char) (t : TBT) : List (List Char) :=
  ["#BEGIN_TB".toList, [],
   "thread block = ".toList ++ showInt t.id.1 ++ [','] ++ showInt t.id.2.1 ++ [','] ++ showInt t.id.2.2, []] ++
  (t.warps.map (renderWarp op)).flatten ++ ["#END_TB".toList, []]

def renderBody (op : Inst → List Char) (ts : List TBT) : List (List Char) :=
  "#traces format = …".toList :: [] :: (ts.map (renderTB op)).flatten

end C20
