import MgpuModel.Util
import MgpuModel.C02Wf
import MgpuModel.C02L1
/-!
C02 (second deepening) — driver for the scenarios on the REAL Akita write-around cache
(`harness/c02_l1c.go`): `c02 l1 cache n=<caches> seed=<n> ; r<c>.<addr> ; w<c>.<addr>.<v> ; k<c> …`.
The caches are the `l1Read` / `l1Write` / reset functions of `C02L1.lean` (the ones the kernel-boundary
theorems are about), applied one operation at a time to byte cells; a 4-byte access is four byte accesses
(the first one fills the line on a miss).
-/
namespace C02.L1c
open Util C02.L1

structure St where
  mem : Mem
  l1 : List (List Line)

inductive Op
  | rd (c a : Nat)
  | wr (c a v : Nat)
  | inv (c : Nat)

def parseOp (t : String) : Option Op :=
  let t := t.trimAscii.toString
  let rest := (t.drop 1).toString
  if t.startsWith "r" then
    match rest.splitOn "." with
    | [c, a] => do pure (.rd (← c.toNat?) (← hexNat? a))
    | _ => none
  else if t.startsWith "w" then
    match rest.splitOn "." with
    | [c, a, v] => do pure (.wr (← c.toNat?) (← hexNat? a) (← hexNat? v))
    | _ => none
  else if t.startsWith "k" then rest.toNat?.map .inv
  else none

def readByte (s : St) (c a : Nat) : Nat × St :=
  let r := l1Read 64 s.mem s.l1 c a
  (r.1, { s with l1 := r.2 })

def step (s : St) : Op → St × String
  | .rd c a =>
    let (b0, s0) := readByte s c a
    let (b1, s1) := readByte s0 c (a + 1)
    let (b2, s2) := readByte s1 c (a + 2)
    let (b3, s3) := readByte s2 c (a + 3)
    (s3, toHex (b0 % 256 + 256 * (b1 % 256) + 65536 * (b2 % 256) + 16777216 * (b3 % 256)))
  | .wr c a v =>
    let wb := fun (s : St) (k : Nat) =>
      let b := v / 256 ^ k % 256
      ({ mem := setM s.mem (a + k) b, l1 := l1Write 64 s.l1 c (a + k) b } : St)
    (wb (wb (wb (wb s 0) 1) 2) 3, "ok")
  | .inv c => ({ s with l1 := updL1 s.l1 c fun _ => [] }, "ok")

def handle (t : List String) : String :=
  let line := joinWith " " t
  match line.splitOn ";" with
  | [] => "bad"
  | hd :: ops =>
    let h := words hd
    match kvNat? h "n", kvNat? h "seed" with
    | some n, some seed =>
      match ops.mapM parseOp with
      | none => "bad"
      | some os =>
        let s0 : St := { mem := C02.Wf.memByte seed, l1 := List.replicate n [] }
        let r := os.foldl (fun (acc : St × List String) o => let x := step acc.1 o; (x.1, x.2 :: acc.2)) (s0, [])
        joinWith " " r.2.reverse
    | _, _ => "bad"

end C02.L1c
